import DAVerif.Proofs.SqlReach
import DAVerif.Proofs.SolLocf
import DAVerif.Proofs.SolRankSql
import DAVerif.Proofs.SqlJoinMerge
import DAVerif.Proofs.SqlJoinReach
import DAVerif.Proofs.RefJoin
/-!
C21, SQL side of `last_observed_carried_forward`: three `extend`s (a plain one and two ordered windows), the LEFT
join of the marked rows with the marked rows that carry a value, and a `drop_columns`.

* `LocfSem Θ` – what the helper needs of an interpretation (`_row_number()`, `v.is_null().where(0, 1)`,
  `use == 1` on a 0/1 flag, `cumsum` at a non-missing position); instances for the Pandas-side interpretation and
  the SQLite-side interpretations.
* `semA`, `semB`, `semC` – the three marking steps in closed form for every such `Θ`, both configurations of `sem`.
* `sem_locfTree_form` – `sem` of the whole tree as one join of explicit tables, for every `Θ'` and configuration.
* `sem_locfTree_ref` – **under the guard "no partition key is missing"** the reference configuration (standard SQL
  join: NULL keys never match) computes what the Pandas configuration computes; with `Sol.sem_locfTree` this is the
  specification.
* `locf_good`, `locf_ordersNullFree` – scope of the translation theorem (`Proofs/SqlJoinMerge.lean`); the ordered
  windows see null-free order columns when no `partition_by` / `order_by` cell is missing.
* `locf_sql` – the statement about the SQL.
-/
namespace DAVerif
namespace Sol21Sql
open DAVerif.Sql DAVerif.Sol DAVerif.Solutions DAVerif.Spec21

set_option linter.unusedSectionVars false

/-! ### the interpretation -/

/-- what `last_observed_carried_forward` needs of the interpretation of its function symbols -/
structure LocfSem (Θ : Interp) : Prop where
  /-- `_row_number()` numbers the window from 1 -/
  rowNumber : ∀ cargs vs pos, Θ.win "_row_number" cargs vs pos = Val.num ((pos + 1 : Nat) : Rat)
  /-- `v.is_null().where(0, 1)` is 0 for a missing value and 1 otherwise -/
  useTerm : ∀ (v : String) (r : Row), evalCell Θ r (useTerm v) = flagVal (!(r.get v).isNull)
  /-- `use == 1` on a 0/1 flag -/
  useEq : ∀ (use : String) (r : Row) (b : Bool), r.get use = flagVal b →
    (evalCell Θ r (binop "==" (.col use) (.value (.int 1))) == Val.bool true) = b
  /-- `cumsum` at a position whose own cell is not missing is the running sum of the non-missing cells -/
  cumsum : ∀ (vs : List Val) (pos : Nat), (vs.getD pos Val.null).isNull = false →
    Θ.win "cumsum" [] vs pos = Theta.cumulate (· + ·) vs pos

theorem locfSem_concrete (cv : RecMap → Table → Except Err Table) : LocfSem (Theta.concrete cv) where
  rowNumber := win_row_number cv
  useTerm := eval_use_term cv
  useEq := eval_use_eq_one cv
  cumsum := fun _ _ _ => rfl

theorem runFold_eq_cumulate (f : Rat → Rat → Rat) (vs : List Val) (pos : Nat)
    (h : (vs.getD pos Val.null).isNull = false) : ThetaSql.runFold f vs pos = Theta.cumulate f vs pos := by
  unfold ThetaSql.runFold Theta.cumulate
  cases hv : vs.getD pos Val.null with
  | null => rw [hv] at h; cases h
  | _ => rfl

theorem sql_useTerm (v : String) (r : Row) :
    evalCell ThetaSql.concrete r (useTerm v) = flagVal (!(r.get v).isNull) := by
  have : evalCell ThetaSql.concrete r (useTerm v)
      = ThetaSql.scalar "where" [ArgV.v (ThetaSql.scalar "is_null" [ArgV.v (r.get v)]),
          ArgV.v (Val.num ((0 : Int) : Rat)), ArgV.v (Val.num ((1 : Int) : Rat))] := rfl
  rw [this]
  cases r.get v <;> rfl

theorem sql_useEq (use : String) (r : Row) (b : Bool) (h : r.get use = flagVal b) :
    (evalCell ThetaSql.concrete r (binop "==" (.col use) (.value (.int 1))) == Val.bool true) = b := by
  have : evalCell ThetaSql.concrete r (binop "==" (.col use) (.value (.int 1)))
      = ThetaSql.scalar "==" [ArgV.v (r.get use), ArgV.v (Val.num ((1 : Int) : Rat))] := rfl
  rw [this, h]
  cases b <;> decide +kernel

theorem locfSem_sql : LocfSem ThetaSql.concrete where
  rowNumber := rankSem_sql.rowNumber
  useTerm := sql_useTerm
  useEq := sql_useEq
  cumsum := fun vs pos h => by
    simp only [ThetaSql.concrete, ThetaSql.win]
    exact runFold_eq_cumulate _ vs pos h

theorem sqlSol_useTerm (v : String) (r : Row) :
    evalCell thetaSqlSol r (useTerm v) = flagVal (!(r.get v).isNull) := by
  have : evalCell thetaSqlSol r (useTerm v)
      = repScalar ThetaSql.scalar "where" [ArgV.v (repScalar ThetaSql.scalar "is_null" [ArgV.v (r.get v)]),
          ArgV.v (Val.num ((0 : Int) : Rat)), ArgV.v (Val.num ((1 : Int) : Rat))] := rfl
  rw [this]
  cases r.get v <;> rfl

theorem sqlSol_useEq (use : String) (r : Row) (b : Bool) (h : r.get use = flagVal b) :
    (evalCell thetaSqlSol r (binop "==" (.col use) (.value (.int 1))) == Val.bool true) = b := by
  have : evalCell thetaSqlSol r (binop "==" (.col use) (.value (.int 1)))
      = repScalar ThetaSql.scalar "==" [ArgV.v (r.get use), ArgV.v (Val.num ((1 : Int) : Rat))] := rfl
  rw [this, h]
  cases b <;> decide +kernel

theorem locfSem_sqlSol : LocfSem thetaSqlSol where
  rowNumber := rankSem_sql.rowNumber
  useTerm := sqlSol_useTerm
  useEq := sqlSol_useEq
  cumsum := locfSem_sql.cumsum

/-! ### the three marking steps, for every interpretation with `LocfSem` -/

theorem sem_extend_window {Θ : Interp} {cfg : SemCfg} {env : Env} {src : Ops} {t : Table} (ops : Assign)
    (p o r : List String) (h : sem Θ cfg env src = .ok t) :
    sem Θ cfg env (.extend src ops p o r true)
      = .ok (semExtendWindow Θ ops p o r t (Ops.extend src ops p o r true).cols) := by
  simp only [sem, h, bind, Except.bind, pure, Except.pure, if_true]

section
variable {Θ : Interp} (hΘ : LocfSem Θ)
variable {cols ob part : List String} {v use rk tb : String} (hc : LocfCtx cols ob part v use rk tb)
include hc

theorem colsA : appendNew cols [use] = cols ++ [use] := appendNew_single hc.use_new

theorem colsB : appendNew (cols ++ [use]) [tb] = cols ++ [use, tb] := by
  rw [appendNew_single]
  · simp
  · simp only [List.mem_append, List.mem_singleton, not_or]
    exact ⟨hc.tb_new, fun e => hc.use_ne_tb e.symm⟩

theorem colsC : appendNew (cols ++ [use, tb]) [rk] = cols ++ [use, tb, rk] := by
  rw [appendNew_single]
  · simp
  · simp only [List.mem_append, List.mem_cons, List.not_mem_nil, or_false, not_or]
    exact ⟨hc.rk_new, fun e => hc.use_ne_rk e.symm, hc.rk_ne_tb⟩

include hΘ

/-- step 1: the flag column -/
theorem semA (cfg : SemCfg) (env : Env) (name : String) (t0 : Table) (henv : env.lookup name = some t0)
    (hsub : subset cols t0.cols = true) :
    sem Θ cfg env (.extend (.table name cols) [(use, useTerm v)] [] [] [] false)
      = .ok ⟨cols ++ [use], rowsA cols v use (t0.selectCols cols).rows⟩ := by
  simp only [sem, henv, hsub, if_true, bind, Except.bind, pure, Except.pure, Ops.cols, List.map_cons,
    List.map_nil, colsA hc, Bool.false_eq_true, if_false]
  rw [semExtendPlain_single]
  congr 2
  rw [rowsA]
  apply addCol_congr
  intro i _
  rw [hΘ.useTerm]
  rfl

/-- step 2: the tie-breaking row number -/
theorem semB (cfg : SemCfg) (env : Env) (name : String) (t0 : Table) (henv : env.lookup name = some t0)
    (hsub : subset cols t0.cols = true) :
    sem Θ cfg env (.extend (.extend (.table name cols) [(use, useTerm v)] [] [] [] false)
        [(tb, fcall0 "_row_number")] [] (part ++ ob) [] true)
      = .ok ⟨cols ++ [use, tb], rowsB cols ob part v use tb (t0.selectCols cols).rows⟩ := by
  rw [sem_extend_window _ _ _ _ (semA hΘ hc cfg env name t0 henv hsub)]
  simp only [Ops.cols, List.map_cons, List.map_nil, colsA hc, colsB hc]
  rw [semExtendWindow_single]
  congr 2
  rw [rowsB]
  apply addCol_congr
  intro i _
  simp only [winVal, fcall0, opName, hΘ.rowNumber, tbA, rk1]

/-- the `cumsum` of the interpretation on the window of a marked row -/
theorem winVal_cumsum (cv : RecMap → Table → Except Err Table) (rows0 : List Row) {j : Nat} (hj : j < rows0.length) :
    winVal Θ (mcall "cumsum" (.col use)) part (ob ++ [tb]) [] (rowsB cols ob part v use tb rows0) j
      = winVal (Theta.concrete cv) (mcall "cumsum" (.col use)) part (ob ++ [tb]) []
          (rowsB cols ob part v use tb rows0) j := by
  have hjB : j < (rowsB cols ob part v use tb rows0).length := by rw [length_rowsB hc]; exact hj
  simp only [winVal]
  have h1 : opName (mcall "cumsum" (.col use)) = "cumsum" := rfl
  have h2 : constArgs (mcall "cumsum" (.col use)) = [] := rfl
  have h3 : ∀ rows : List Row, argValues (mcall "cumsum" (.col use)) rows = rows.map (fun r => r.get use) :=
    fun _ => rfl
  rw [h1, h2, h3]
  apply hΘ.cumsum
  have hlt := winPos_lt (p := part) (o := ob ++ [tb]) (rv := []) hjB
  rw [getD_eq _ (by simpa using hlt)]
  simp only [List.getElem_map]
  rw [winSorted_getElem_winPos hjB, get_rowsB_use hc rows0 hj]
  cases nnI v rows0 j <;> rfl

/-- step 3: the running count of non-missing values (`d_marked`) -/
theorem semC (cfg : SemCfg) (env : Env) (name : String) (t0 : Table) (henv : env.lookup name = some t0)
    (hsub : subset cols t0.cols = true) :
    sem Θ cfg env (locfMarked (.table name cols) ob part v use rk tb)
      = .ok ⟨cols ++ [use, tb, rk], rowsC cols ob part v use rk tb (t0.selectCols cols).rows⟩ := by
  rw [locfMarked, sem_extend_window _ _ _ _ (semB hΘ hc cfg env name t0 henv hsub)]
  simp only [Ops.cols, List.map_cons, List.map_nil, colsA hc, colsB hc, colsC hc]
  rw [semExtendWindow_single]
  congr 2
  rw [rowsC]
  apply addCol_congr
  intro i hi
  rw [length_rowsB hc] at hi
  rw [winVal_cumsum hΘ hc (fun _ _ => .error .other) _ hi]
  exact cumsum_eq_cnt hc _ _ hi

end

/-! ### the whole tree as one join -/

section
variable {cols ob part : List String} {v use rk tb : String} (hc : LocfCtx cols ob part v use rk tb)
include hc

/-- `sem` of the tree of `last_observed_carried_forward`, given the table of the marked rows: the LEFT join of
the marked rows with the rows selected by `use == 1`, restricted to the table's columns -/
theorem sem_locfTree_form (Θ' : Interp) (cfg : SemCfg) (env : Env) (name : String) (rows0 : List Row)
    (hM : sem Θ' cfg env (locfMarked (.table name cols) ob part v use rk tb)
      = .ok ⟨cols ++ [use, tb, rk], rowsC cols ob part v use rk tb rows0⟩) :
    sem Θ' cfg env (locfTree (.table name cols) ob part v use rk tb)
      = .ok (((semJoin cfg .left (part ++ [rk]) (part ++ [rk])
          ⟨cols ++ [use, tb, rk], rowsC cols ob part v use rk tb rows0⟩
          ((semSelectRows Θ' (binop "==" (.col use) (.value (.int 1)))
            ⟨cols ++ [use, tb, rk], rowsC cols ob part v use rk tb rows0⟩).selectCols (part ++ [rk, v]))
          (cols ++ [use, tb, rk])).selectCols (cols ++ [use, tb, rk])).selectCols cols) := by
  have hMc : (locfMarked (.table name cols) ob part v use rk tb).cols = cols ++ [use, tb, rk] := by
    have hc1 : appendNew cols [use] = cols ++ [use] := appendNew_single hc.use_new
    have hc2 : appendNew (cols ++ [use]) [tb] = cols ++ [use, tb] := by
      rw [appendNew_single]
      · simp
      · simp only [List.mem_append, List.mem_singleton, not_or]
        exact ⟨hc.tb_new, fun e => hc.use_ne_tb e.symm⟩
    have hc3 : appendNew (cols ++ [use, tb]) [rk] = cols ++ [use, tb, rk] := by
      rw [appendNew_single]
      · simp
      · simp only [List.mem_append, List.mem_cons, List.not_mem_nil, or_false, not_or]
        exact ⟨hc.rk_new, fun e => hc.use_ne_rk e.symm, hc.rk_ne_tb⟩
    simp only [locfMarked, Ops.cols, List.map_cons, List.map_nil, hc1, hc2, hc3]
  have hbsub : ∀ c ∈ part ++ [rk, v], c ∈ cols ++ [use, tb, rk] := by
    intro c hcc
    rcases List.mem_append.mp hcc with h | h
    · exact List.mem_append_left _ (hc.part_sub c h)
    · simp only [List.mem_cons, List.not_mem_nil, or_false] at h
      rcases h with rfl | rfl
      · simp
      · exact List.mem_append_left _ hc.v_mem
  have hall : appendNew (cols ++ [use, tb, rk]) (part ++ [rk, v]) = cols ++ [use, tb, rk] :=
    appendNew_of_subset hbsub
  have hJc : ∀ (a b : Ops), a.cols = cols ++ [use, tb, rk] → b.cols = part ++ [rk, v] →
      (Ops.join a b (part ++ [rk]) (part ++ [rk]) .left).cols = cols ++ [use, tb, rk] := by
    intro a b ha hb
    simp only [Ops.cols, ha, hb, hall, beq_self_eq_true, if_true]
  have hDc : (cols ++ [use, tb, rk]).filter (fun c => !([use, rk, tb].contains c)) = cols := by
    rw [List.filter_append]
    have h1 : cols.filter (fun c => !([use, rk, tb].contains c)) = cols := by
      rw [List.filter_eq_self]
      intro c hcc
      simp [ne_use hc hcc, ne_rk hc hcc, ne_tb hc hcc]
    have h2 : [use, tb, rk].filter (fun c => !([use, rk, tb].contains c)) = [] := by
      simp
    rw [h1, h2, List.append_nil]
  have hcolsB : (Ops.selectCols (.selectRows (locfMarked (.table name cols) ob part v use rk tb)
      (binop "==" (.col use) (.value (.int 1)))) (part ++ [rk, v])).cols = part ++ [rk, v] := rfl
  have hdrop : ∀ (src : Ops) (dels : List String), (Ops.dropCols src dels).cols
      = src.cols.filter (fun c => !dels.contains c) := fun _ _ => rfl
  simp only [locfTree, sem, hM, bind, Except.bind, pure, Except.pure, hdrop, hJc _ _ hMc hcolsB, hMc, hcolsB,
    hall, hDc]

/-- the `use == 1` filter on the marked rows does not depend on the interpretation -/
theorem selectUse_congr {Θ : Interp} (hΘ : LocfSem Θ) (cv : RecMap → Table → Except Err Table) (rows0 : List Row) :
    semSelectRows Θ (binop "==" (.col use) (.value (.int 1)))
        ⟨cols ++ [use, tb, rk], rowsC cols ob part v use rk tb rows0⟩
      = semSelectRows (Theta.concrete cv) (binop "==" (.col use) (.value (.int 1)))
        ⟨cols ++ [use, tb, rk], rowsC cols ob part v use rk tb rows0⟩ := by
  simp only [semSelectRows]
  congr 1
  apply List.filter_congr
  intro r hr
  obtain ⟨j, hj, rfl⟩ := List.mem_iff_getElem.mp hr
  have hj0 : j < rows0.length := by rw [length_rowsC hc] at hj; exact hj
  have hu := get_rowsC_use hc rows0 hj0
  rw [getD_eq _ hj] at hu
  rw [hΘ.useEq use _ _ hu, eval_use_eq_one cv use _ _ hu]

/-- a null-free set of table columns stays null free through the three marking steps -/
theorem nullFree_rowsA {cs : List String} (hcs : ∀ c ∈ cs, c ∈ cols) {rows0 : List Row} (h : NullFreeOn cs rows0) :
    NullFreeOn cs (rowsA cols v use rows0) :=
  nullFreeOn_addCol (fun c hcc => List.mem_append_left _ (hcs c hcc)) (fun _ _ => by
    simp only [flagVal]; split <;> rfl) (fun c hcc _ r hr => h r hr c hcc)

theorem nullFree_rowsB {cs : List String} (hcs : ∀ c ∈ cs, c ∈ cols) {rows0 : List Row} (h : NullFreeOn cs rows0) :
    NullFreeOn cs (rowsB cols ob part v use tb rows0) :=
  nullFreeOn_addCol (fun c hcc => List.mem_append_left _ (hcs c hcc)) (fun _ _ => rfl)
    (fun c hcc _ r hr => nullFree_rowsA hc hcs h r hr c hcc)

theorem nullFree_rowsC {cs : List String} (hcs : ∀ c ∈ cs, c ∈ cols) {rows0 : List Row} (h : NullFreeOn cs rows0) :
    NullFreeOn cs (rowsC cols ob part v use rk tb rows0) :=
  nullFreeOn_addCol (fun c hcc => List.mem_append_left _ (hcs c hcc)) (fun _ _ => rfl)
    (fun c hcc _ r hr => nullFree_rowsB hc hcs h r hr c hcc)

/-- **The reference configuration computes what the Pandas configuration computes when no partition key is
missing**: the join keys `partition_by ++ [rank]` of the marked rows are then null free, and the two join semantics
(NULL keys match each other / never match) coincide.  For every interpretation with `LocfSem`. -/
theorem sem_locfTree_ref {Θ : Interp} (hΘ : LocfSem Θ) (cv : RecMap → Table → Except Err Table) (env : Env)
    (name : String) (t0 : Table) (henv : env.lookup name = some t0) (hsub : subset cols t0.cols = true)
    (hnp : NullFreeOn part t0.rows) :
    sem Θ SemCfg.ref env (locfTree (.table name cols) ob part v use rk tb)
      = sem (Theta.concrete cv) SemCfg.pandas env (locfTree (.table name cols) ob part v use rk tb) := by
  rw [sem_locfTree_form hc Θ SemCfg.ref env name _ (semC hΘ hc SemCfg.ref env name t0 henv hsub),
    sem_locfTree_form hc (Theta.concrete cv) SemCfg.pandas env name _
      (sem_locfMarked hc cv SemCfg.pandas env name t0 henv hsub),
    selectUse_congr hc hΘ cv]
  congr 3
  symm
  apply RefSem.semJoin_pandas_eq_ref
  intro ab hab
  left
  have hk : ab.1 ∈ part ++ [rk] := (List.of_mem_zip hab).1
  intro r hr
  rcases List.mem_append.mp hk with h | h
  · exact nullFree_rowsC hc hc.part_sub (nullFreeOn_selectCols hc.part_sub hnp) r hr _ h
  · have hrk : ab.1 = rk := List.mem_singleton.mp h
    rw [hrk]
    refine (nullFreeOn_addCol (oc := cols ++ [use, tb, rk]) (cs := [rk]) (c := rk) (by simp) (fun _ _ => rfl)
      (fun c hcc hne => absurd (List.mem_singleton.mp hcc) hne) :
        NullFreeOn [rk] (rowsC cols ob part v use rk tb (t0.selectCols cols).rows)) r hr rk (by simp)

/-- **`Sol.sem_locfTree` for every interpretation with `LocfSem`** (Pandas configuration: missing partition keys
match each other) -/
theorem sem_locfTree_interp {Θ : Interp} (hΘ : LocfSem Θ) (env : Env) (name : String) (t0 : Table)
    (henv : env.lookup name = some t0) (hsub : subset cols t0.cols = true) :
    ∃ t, sem Θ SemCfg.pandas env (locfTree (.table name cols) ob part v use rk tb) = .ok t ∧ t.cols = cols ∧
      t.rows.Perm (locfSpec (rowLe ob []) (tbA cols ob part v use (t0.selectCols cols).rows) part v
        (t0.selectCols cols).rows) := by
  have h : sem Θ SemCfg.pandas env (locfTree (.table name cols) ob part v use rk tb)
      = sem (Theta.concrete (fun _ _ => .error .other)) SemCfg.pandas env
          (locfTree (.table name cols) ob part v use rk tb) := by
    rw [sem_locfTree_form hc Θ SemCfg.pandas env name _ (semC hΘ hc SemCfg.pandas env name t0 henv hsub),
      sem_locfTree_form hc (Theta.concrete _) SemCfg.pandas env name _
        (sem_locfMarked hc _ SemCfg.pandas env name t0 henv hsub),
      selectUse_congr hc hΘ]
  rw [h]
  exact sem_locfTree hc _ env name t0 henv hsub

end

/-! ### scope of the translation theorem -/

theorem locf_noConcat (name : String) (cols ob part : List String) (v use rk tb : String) :
    noConcat (locfTree (.table name cols) ob part v use rk tb) = true := rfl

/-- the helper's pipeline is reachable -/
theorem locf_reachable {name : String} {cols orderBy : List String} {partitionBy : Option (List String)}
    {valueCol useCol rankCol tbCol : String} {p : Ops}
    (h : lastObservedCarriedForward (.table name cols) orderBy partitionBy valueCol useCol rankCol tbCol = .ok p) :
    Reachable p := by
  obtain ⟨_, hok⟩ := locf_ok h
  have hne : cols ≠ [] := by
    intro e
    have := hok.v_mem
    rw [e] at this
    cases this
  have hd : Reachable (.table name cols) := Reachable.table name cols hne hok.nodup
  simp only [lastObservedCarriedForward, bind_ok] at h
  obtain ⟨_, _, m, hm, b, hb, hfin⟩ := h
  have rm : Reachable m := reachable_buildChain hd (by
    intro s hs b hb
    simp only [locfMarkedSteps, List.mem_cons, List.not_mem_nil, or_false] at hs
    rcases hs with rfl | rfl | rfl <;> cases hb) hm
  have rb : Reachable b := reachable_buildChain rm (by
    intro s hs b hb
    simp only [List.mem_cons, List.not_mem_nil, or_false] at hs
    rcases hs with rfl | rfl <;> cases hb) hb
  exact reachable_buildChain rm (by
    intro s hs b' hb'
    simp only [List.mem_cons, List.not_mem_nil, or_false] at hs
    rcases hs with rfl | rfl
    · simp only [Rules26.stepArgs, List.mem_singleton] at hb'
      exact hb' ▸ rb
    · cases hb') hfin

/-- the scope bundle of the join fragment for the tree of `last_observed_carried_forward` (every dialect
configuration: the join is a LEFT join) -/
theorem locf_good (cfg : SqlCfg) {env : Env} {name : String} {cols ob part : List String} {v use rk tb : String}
    {t0 : Table} (hr : Reachable (locfTree (.table name cols) ob part v use rk tb))
    (henv : env.lookup name = some t0) (hsub : subset cols t0.cols = true) :
    Good cfg env (locfTree (.table name cols) ob part v use rk tb) := by
  refine ⟨rfl, C26_reachable_wf hr, C01_reachable_sqlwf hr, rfl, C16_reachable_joinwf hr, rfl, ?_, rfl, ?_⟩
  · simp [JoinsNative, joinsNativeb, locfTree, locfMarked]
  · intro nc hnc
    have : nc = (name, cols) := by simpa [locfTree, locfMarked, Ops.tables] using hnc
    subst this
    exact ⟨t0, henv, subset_iff.mp hsub, fun h => by cases h⟩

/-- **strong scope for `last_observed_carried_forward`**: when no `partition_by` and no `order_by` cell of the input
is missing, both ordered windows of the helper's pipeline see null-free order columns -/
theorem locf_ordersNullFree {Θ : Interp} (hΘ : LocfSem Θ) {cols ob part : List String} {v use rk tb : String}
    (hc : LocfCtx cols ob part v use rk tb) (cfg : SemCfg) {env : Env} {name : String} {t0 : Table}
    (henv : env.lookup name = some t0) (hsub : subset cols t0.cols = true)
    (hnp : NullFreeOn part t0.rows) (hno : NullFreeOn ob t0.rows) :
    OrdersNullFree Θ cfg env (locfTree (.table name cols) ob part v use rk tb) := by
  have hpo : NullFreeOn (part ++ ob) (t0.selectCols cols).rows := by
    intro r hr c hcc
    rcases List.mem_append.mp hcc with h | h
    · exact nullFreeOn_selectCols hc.part_sub hnp r hr c h
    · exact nullFreeOn_selectCols hc.ob_sub hno r hr c h
  have hposub : ∀ c ∈ part ++ ob, c ∈ cols := by
    intro c hcc
    rcases List.mem_append.mp hcc with h | h
    · exact hc.part_sub c h
    · exact hc.ob_sub c h
  have hM : OrdersNullFree Θ cfg env (locfMarked (.table name cols) ob part v use rk tb) := by
    refine ⟨⟨⟨trivial, fun _ _ _ _ _ hcc => by cases hcc⟩, ?_⟩, ?_⟩
    · intro t ht
      rw [semA hΘ hc cfg env name t0 henv hsub] at ht
      cases ht
      exact nullFree_rowsA hc hposub hpo
    · intro t ht
      rw [semB hΘ hc cfg env name t0 henv hsub] at ht
      cases ht
      dsimp only
      rw [rowsB]
      apply nullFreeOn_addCol
      · intro c hcc
        rcases List.mem_append.mp hcc with h | h
        · exact List.mem_append_left _ (hc.ob_sub c h)
        · rw [List.mem_singleton.mp h]; simp
      · intro _ _; rfl
      · intro c hcc hne r hr
        rcases List.mem_append.mp hcc with h | h
        · exact nullFree_rowsA hc hposub hpo r hr c (List.mem_append_right _ h)
        · exact absurd (List.mem_singleton.mp h) hne
  exact ⟨hM, hM⟩

/-- **`last_observed_carried_forward` on SQL.**  For every interpretation with `LocfSem`, both engines' NULL
placement, every dialect configuration: when no `partition_by` and no `order_by` cell of the input is missing, the
query `to_sql` produces for the helper's pipeline evaluates to a table with the table's column set whose rows, read
through the table's columns, are – up to row order – `locfSpec` for the helper's own tie-breaking numbers. -/
theorem locf_sql (Θ : Interp) (hΘ : LocfSem Θ) (ec : EngineCfg) (env : Env) (cfg : SqlCfg)
    {name : String} {cols orderBy : List String} {partitionBy : Option (List String)}
    {valueCol useCol rankCol tbCol : String} {p : Ops} {t0 : Table} {q : Near}
    (hbuild : lastObservedCarriedForward (.table name cols) orderBy partitionBy valueCol useCol rankCol tbCol = .ok p)
    (hob : ∀ c ∈ orderBy, c ∈ cols) (hpb : ∀ c ∈ partitionBy.getD [], c ∈ cols)
    (henv : env.lookup name = some t0) (hsub : subset cols t0.cols = true)
    (hnp : NullFreeOn (partitionBy.getD []) t0.rows) (hno : NullFreeOn orderBy t0.rows)
    (hq : toNearSql cfg p = .ok q) :
    ∃ T, semSql Θ ec env q = .ok T ∧
      T.EquivS ⟨cols, locfSpec (rowLe orderBy [])
        (tbA cols orderBy (partitionBy.getD []) valueCol useCol (t0.selectCols cols).rows) (partitionBy.getD [])
        valueCol (t0.selectCols cols).rows⟩ := by
  have hr := locf_reachable hbuild
  obtain ⟨rfl, hok⟩ := locf_ok hbuild
  have hc : LocfCtx cols orderBy (partitionBy.getD []) valueCol useCol rankCol tbCol := ⟨hok, hob, hpb⟩
  obtain ⟨T, t, h1, h2, _, h4⟩ := translation_exact_joins_merges Θ ec env cfg _
    (locf_good cfg hr henv hsub) (locf_noConcat ..) (locf_ordersNullFree hΘ hc SemCfg.ref henv hsub hnp hno) hq
  rw [sem_locfTree_ref hc hΘ (fun _ _ => .error .other) env name t0 henv hsub hnp] at h2
  obtain ⟨t', hsem, hcols, hperm⟩ := sem_locfTree hc (fun _ _ => .error .other) env name t0 henv hsub
  rw [hsem] at h2
  cases h2
  refine ⟨T, h1, ?_, ?_⟩
  · intro c
    rw [h4.1 c, hcols]
  · show (T.rows.map (fun r => r.select cols)).Perm _
    have h5 := h4.2
    rw [hcols] at h5
    rw [h5]
    exact hperm

end Sol21Sql
end DAVerif
