import DAVerif.Spec.Polars
/-!
C03: the concrete Polars interpretation `ThetaPl` agrees with the concrete Pandas interpretation `Theta` outside
the deviations listed in `Spec/Polars.lean` (`Pl.scalarViol`, `Pl.aggViol`).
-/
namespace DAVerif

theorem pl_ite_nil_eq {α : Type} {c : Bool} {x : α} (h : (if c = true then [x] else []) = []) : c = false := by
  cases c with
  | false => rfl
  | true => simp at h

theorem thetaPl_scalar_agree (cfg : Pl.Cfg) (op : String) (args : List ArgV)
    (h : Pl.scalarViol cfg op args = []) : ThetaPl.scalar cfg op args = Theta.scalar op args := by
  simp only [Pl.scalarViol, List.append_eq_nil_iff] at h
  have h1 := pl_ite_nil_eq h.1
  have h2 := pl_ite_nil_eq h.2
  simp only [ThetaPl.scalar, h1, h2, Bool.false_eq_true, if_false]

theorem thetaPl_agg_agree (cfg : Pl.Cfg) (op : String) (vs : List Val)
    (h : Pl.aggViol cfg op vs = []) : ThetaPl.agg cfg op vs = Theta.agg op vs := by
  simp only [Pl.aggViol, List.append_eq_nil_iff] at h
  have h1 := pl_ite_nil_eq h.1.1
  have h2 := pl_ite_nil_eq h.1.2
  have h3 := pl_ite_nil_eq h.2
  simp only [Bool.or_eq_false_iff] at h3
  simp only [ThetaPl.agg, h1, h2, h3.1, h3.2, Bool.false_eq_true, if_false]

theorem thetaPl_win_agree (cfg : Pl.Cfg) (op : String) (cargs vs : List Val) (pos : Nat)
    (h : Pl.aggViol cfg op vs = []) : ThetaPl.win cfg op cargs vs pos = Theta.win op cargs vs pos := by
  simp only [Pl.aggViol, List.append_eq_nil_iff] at h
  have h1 := pl_ite_nil_eq h.1.1
  have h2 := pl_ite_nil_eq h.1.2
  have h3 := pl_ite_nil_eq h.2
  simp only [Bool.or_eq_false_iff] at h3
  simp only [ThetaPl.win, h1, h2, h3.1, h3.2, Bool.or_self, Bool.false_eq_true, if_false]

end DAVerif
