import DAVerif.Proofs.C07Single
/-!
C07 for `>>` (`act_on`): inversion of `actOn`, the boundary condition, and composition = sequential application
for valid pipelines.
-/
namespace DAVerif

variable {Θ : Interp} {cfg : SemCfg} {env : Env}

theorem lookupLast_memC {β : Type} {m : List (String × β)} {k : String} {v : β} (h : lookupLast m k = some v) :
    (k, v) ∈ m := by
  simp only [lookupLast, Option.map_eq_some_iff] at h
  obtain ⟨kv, hf, rfl⟩ := h
  have h1 := List.mem_of_find?_eq_some hf
  have h2 := List.find?_some hf
  simp only [beq_iff_eq] at h2
  rw [← h2]
  exact List.mem_reverse.mp h1

/-- every table description of a valid pipeline lists pairwise different columns -/
theorem valid_tables_nodup : ∀ {p : Ops}, p.valid = true → ∀ kc ∈ p.tables, kc.2.Nodup := by
  intro p
  induction p with
  | table n cs =>
    intro hv kc hkc
    simp only [Ops.tables, List.mem_singleton] at hkc
    subst hkc
    exact nodupB_iffC.mp hv
  | join a b _ _ _ iha ihb =>
    intro hv kc hkc
    simp only [Ops.valid, Bool.and_eq_true] at hv
    simp only [Ops.tables, List.mem_append] at hkc
    exact hkc.elim (iha hv.1.2 kc) (ihb hv.2 kc)
  | concat a b _ _ _ iha ihb =>
    intro hv kc hkc
    simp only [Ops.valid, Bool.and_eq_true] at hv
    simp only [Ops.tables, List.mem_append] at hkc
    exact hkc.elim (iha hv.1.2 kc) (ihb hv.2 kc)
  | extend s _ _ _ _ _ ih => exact fun hv => ih (Ops.valid_srcA (p := .extend s _ _ _ _ _) hv)
  | project s _ _ ih => exact fun hv => ih (Ops.valid_srcA (p := .project s _ _) hv)
  | selectRows s _ ih => exact fun hv => ih (Ops.valid_srcA (p := .selectRows s _) hv)
  | selectCols s _ ih => exact fun hv => ih (Ops.valid_srcA (p := .selectCols s _) hv)
  | dropCols s _ ih => exact fun hv => ih (Ops.valid_srcA (p := .dropCols s _) hv)
  | order s _ _ _ ih => exact fun hv => ih (Ops.valid_srcA (p := .order s _ _ _) hv)
  | rename s _ ih => exact fun hv => ih (Ops.valid_srcA (p := .rename s _) hv)
  | mapCols s _ _ ih => exact fun hv => ih (Ops.valid_srcA (p := .mapCols s _ _) hv)
  | convert s _ ih => exact fun hv => ih (Ops.valid_srcA (p := .convert s _) hv)

theorem tablesConsistent_iff {ta tb : List (String × List String)} :
    tablesConsistent ta tb = true ↔ ∀ x ∈ ta, ∀ y ∈ tb, x.1 = y.1 → x.2 = y.2 := by
  simp only [tablesConsistent, List.all_eq_true, Bool.or_eq_true, bne_iff_ne, ne_eq, beq_iff_eq]
  constructor
  · intro h x hx y hy e
    rcases h x hx y hy with h1 | h1
    · exact absurd e h1
    · exact h1
  · intro h x hx y hy
    by_cases e : x.1 = y.1
    · exact Or.inr (h x hx y hy e)
    · exact Or.inl e

/-- table descriptions with the same key in a valid pipeline have the same columns -/
theorem valid_tables_consistent : ∀ {p : Ops}, p.valid = true →
    ∀ x ∈ p.tables, ∀ y ∈ p.tables, x.1 = y.1 → x.2 = y.2 := by
  intro p
  induction p with
  | table n cs =>
    intro _ x hx y hy _
    simp only [Ops.tables, List.mem_singleton] at hx hy
    rw [hx, hy]
  | join a b oa ob jt iha ihb =>
    intro hv x hx y hy e
    have hn := Ops.valid_nodeOk hv
    simp only [Ops.nodeOk, Bool.and_eq_true] at hn
    have hc := tablesConsistent_iff.mp hn.1.1.1.1
    simp only [Ops.valid, Bool.and_eq_true] at hv
    simp only [Ops.tables, List.mem_append] at hx hy
    rcases hx with hx | hx <;> rcases hy with hy | hy
    · exact iha hv.1.2 x hx y hy e
    · exact hc x hx y hy e
    · exact (hc y hy x hx e.symm).symm
    · exact ihb hv.2 x hx y hy e
  | concat a b idc an bn iha ihb =>
    intro hv x hx y hy e
    have hn := Ops.valid_nodeOk hv
    simp only [Ops.nodeOk, isOk_unit, concatChk, ok?_bind_eq_ok, ok?_eq_ok] at hn
    have hc := tablesConsistent_iff.mp hn.1
    simp only [Ops.valid, Bool.and_eq_true] at hv
    simp only [Ops.tables, List.mem_append] at hx hy
    rcases hx with hx | hx <;> rcases hy with hy | hy
    · exact iha hv.1.2 x hx y hy e
    · exact hc x hx y hy e
    · exact (hc y hy x hx e.symm).symm
    · exact ihb hv.2 x hx y hy e
  | extend s _ _ _ _ _ ih => exact fun hv => ih (Ops.valid_srcA (p := .extend s _ _ _ _ _) hv)
  | project s _ _ ih => exact fun hv => ih (Ops.valid_srcA (p := .project s _ _) hv)
  | selectRows s _ ih => exact fun hv => ih (Ops.valid_srcA (p := .selectRows s _) hv)
  | selectCols s _ ih => exact fun hv => ih (Ops.valid_srcA (p := .selectCols s _) hv)
  | dropCols s _ ih => exact fun hv => ih (Ops.valid_srcA (p := .dropCols s _) hv)
  | order s _ _ _ ih => exact fun hv => ih (Ops.valid_srcA (p := .order s _ _ _) hv)
  | rename s _ ih => exact fun hv => ih (Ops.valid_srcA (p := .rename s _) hv)
  | mapCols s _ _ ih => exact fun hv => ih (Ops.valid_srcA (p := .mapCols s _ _) hv)
  | convert s _ ih => exact fun hv => ih (Ops.valid_srcA (p := .convert s _) hv)

/-- **Inversion of `act_on`** (`a >> self`): `self` has one table key; the columns of `a` are, as a set, the
columns of that table description; the result is `replace_leaves` of the key by `a`. -/
theorem actOn_inv {self a c : Ops} (h : Ops.actOn self a = .ok c) :
    ∃ key oldCols, (self.tables.map (·.1)).eraseDups = [key] ∧ lookupLast self.tables key = some oldCols ∧
      subset a.cols oldCols = true ∧ subset oldCols a.cols = true ∧
      Ops.replaceLeaves [(key, a)] self = .ok c := by
  unfold Ops.actOn at h
  split at h
  · rename_i key hkey
    split at h
    · rename_i oldCols hold
      split at h
      · rename_i hb
        simp only [Bool.and_eq_true] at hb
        exact ⟨key, oldCols, hkey, hold, hb.1, hb.2, h⟩
      · cases h
    · cases h
  · cases h

/-- the boundary condition of `act_on`, for valid pipelines: every table description of `self` has the key and
lists the columns of `a` up to order -/
theorem actOn_boundary {self a : Ops} {key : String} {oldCols : List String} (hs : self.valid = true)
    (ha : a.valid = true) (hkey : (self.tables.map (·.1)).eraseDups = [key])
    (hold : lookupLast self.tables key = some oldCols) (h1 : subset a.cols oldCols = true)
    (h2 : subset oldCols a.cols = true) : ∀ kc ∈ self.tables, kc.1 = key ∧ a.cols.Perm kc.2 := by
  intro kc hkc
  have hk : kc.1 = key := by
    have : kc.1 ∈ (self.tables.map (·.1)).eraseDups :=
      List.mem_eraseDups.mpr (List.mem_map.mpr ⟨kc, hkc, rfl⟩)
    rw [hkey] at this
    simpa using this
  refine ⟨hk, ?_⟩
  have hcs : kc.2 = oldCols := valid_tables_consistent hs kc hkc (key, oldCols) (lookupLast_memC hold) hk
  rw [hcs]
  exact perm_of_mem_iff (Ops.valid_cols_nodup ha)
    (valid_tables_nodup hs (key, oldCols) (lookupLast_memC hold))
    (fun c => ⟨subset_iffC.mp h1 c, subset_iffC.mp h2 c⟩)

/-- **Composition is sequential application** (valid pipelines): `a >> b` evaluates – same error, or same table
up to row and column order – to `b` on the environment in which `b`'s table is bound to the result of `a`. -/
theorem compose_sem_valid (hΘ : ConvertOK Θ) (hC : ConvertInvariant Θ) {a b c : Ops} {key : String}
    (ha : a.valid = true) (hb : b.valid = true) (h : Ops.actOn b a = .ok c)
    (hkey : (b.tables.map (·.1)).eraseDups = [key]) (hA : AggsOrderFree Θ b)
    (hW : ∀ ta, sem Θ cfg env a = .ok ta → WindowsTotal Θ cfg ((key, ta) :: env) b) :
    ResEquivC (sem Θ cfg env c) (sem Θ cfg env a >>= fun ta => sem Θ cfg ((key, ta) :: env) b) := by
  obtain ⟨key', oldCols, hkey', hold, h1, h2, hrep⟩ := actOn_inv h
  rw [hkey] at hkey'
  cases hkey'
  have hbound := actOn_boundary hb ha hkey hold h1 h2
  cases hsa : sem Θ cfg env a with
  | error e =>
    have := (replaceSingle ha b hb hbound c hrep).2.2.2 Θ cfg env hΘ hC e hsa
    rw [this]; exact rfl
  | ok ta =>
    refine (replaceLeaves_sem (Θ := Θ) (cfg := cfg) (env := env) hΘ hC (m := [(key, a)])
      (env' := (key, ta) :: env) b hb ?_ hA (hW ta hsa) c hrep).2
    intro kc hkc
    obtain ⟨hk, hperm⟩ := hbound kc hkc
    simp only [LeafOK, hk, lookupLast_singleton, beq_self_eq_true, if_true]
    exact ⟨ha, hperm, ta, hsa, by simp⟩

end DAVerif
