import DAVerif.Proofs.MkForms
/-!
`t ≈ᶜ t'` (same table up to row order and column order): basic theory, and the fact that every operator of
`sem` reads its input rows only through `Row.get` – so permuting the columns of an input permutes the columns
of the output.  `applyNode` is the operator of a node as a function of the evaluated sources;
`applyNode_congrC` is the congruence used by C06 (chains) and C07 (composition).
-/
namespace DAVerif

/-! ### tables -/

theorem Table.selectCols_self {t : Table} (hw : t.WF) (hn : t.cols.Nodup) : t.selectCols t.cols = t := by
  cases t with
  | mk cols rows =>
    simp only [Table.selectCols, Table.mk.injEq, true_and]
    conv => rhs; rw [← List.map_id rows]
    exact List.map_congr_left (fun r hr => Row.select_self (hw r hr) hn)

theorem Table.rows_select_self {t : Table} (hw : t.WF) (hn : t.cols.Nodup) :
    t.rows.map (fun r => r.select t.cols) = t.rows := congrArg Table.rows (Table.selectCols_self hw hn)

theorem Table.selectCols_selectCols (t : Table) {cs cs' : List String} (h : ∀ c ∈ cs', c ∈ cs) :
    (t.selectCols cs).selectCols cs' = t.selectCols cs' := by
  simp only [Table.selectCols, List.map_map, Table.mk.injEq, true_and]
  exact List.map_congr_left (fun r _ => Row.select_select h)

/-- in a well-formed table, columns outside the table read as null -/
theorem Table.WF.get_null {t : Table} (hw : t.WF) {r : Row} (hr : r ∈ t.rows) {c : String} (hc : c ∉ t.cols) :
    r.get c = .null := Row.get_of_not_mem_keys (by rw [hw r hr]; exact hc)

/-- re-ordering the columns of a well-formed table does not change what `get` reads -/
theorem Table.WF.get_select {t : Table} (hw : t.WF) {cs : List String} (hs : ∀ c, c ∈ cs ↔ c ∈ t.cols)
    {r : Row} (hr : r ∈ t.rows) (c : String) : (r.select cs).get c = r.get c := by
  rw [Row.get_selectC]
  split
  · rfl
  · rename_i h
    have : c ∉ t.cols := fun hc => h (by simpa using (hs c).mpr hc)
    exact (hw.get_null hr this).symm

namespace Table.EquivC

theorem wf_left {t t' : Table} (h : t ≈ᶜ t') : t.WF := h.1
theorem wf_right {t t' : Table} (h : t ≈ᶜ t') : t'.WF := h.2.1
theorem nodup_left {t t' : Table} (h : t ≈ᶜ t') : t.cols.Nodup := h.2.2.1
theorem cols_perm {t t' : Table} (h : t ≈ᶜ t') : t.cols.Perm t'.cols := h.2.2.2.1
theorem nodup_right {t t' : Table} (h : t ≈ᶜ t') : t'.cols.Nodup := h.cols_perm.nodup_iff.mp h.nodup_left
theorem mem_cols {t t' : Table} (h : t ≈ᶜ t') (c : String) : c ∈ t.cols ↔ c ∈ t'.cols := h.cols_perm.mem_iff

/-- the defining reading: the second table with its columns put in the order of the first is the first, up to
row order -/
theorem equiv_select {t t' : Table} (h : t ≈ᶜ t') : t ≈ t'.selectCols t.cols := ⟨rfl, h.2.2.2.2⟩

theorem of_equiv_select {t t' : Table} (hw : t.WF) (hw' : t'.WF) (hn : t.cols.Nodup) (hp : t.cols.Perm t'.cols)
    (h : t ≈ t'.selectCols t.cols) : t ≈ᶜ t' := ⟨hw, hw', hn, hp, h.2⟩

theorem refl {t : Table} (hw : t.WF) (hn : t.cols.Nodup) : t ≈ᶜ t :=
  ⟨hw, hw, hn, List.Perm.refl _, by rw [Table.rows_select_self hw hn]⟩

theorem of_equiv {t t' : Table} (h : t ≈ t') (hw : t.WF) (hn : t.cols.Nodup) : t ≈ᶜ t' := by
  have hw' := h.wf hw
  refine ⟨hw, hw', hn, h.1 ▸ List.Perm.refl _, ?_⟩
  rw [h.1, Table.rows_select_self hw' (h.1 ▸ hn)]
  exact h.2

/-- a column re-ordering of a well-formed table is `≈ᶜ` to it -/
theorem selectCols_left {t : Table} (hw : t.WF) {cs : List String} (hn : cs.Nodup) (hp : cs.Perm t.cols) :
    t.selectCols cs ≈ᶜ t :=
  ⟨Table.wf_selectCols t cs, hw, hn, hp, List.Perm.refl _⟩

/-- with the same column order `≈ᶜ` is `≈` -/
theorem to_equiv {t t' : Table} (h : t ≈ᶜ t') (hc : t.cols = t'.cols) : t ≈ t' := by
  have := h.equiv_select
  rwa [hc, Table.selectCols_self h.wf_right h.nodup_right] at this

theorem symm {t t' : Table} (h : t ≈ᶜ t') : t' ≈ᶜ t := by
  refine ⟨h.wf_right, h.wf_left, h.nodup_right, h.cols_perm.symm, ?_⟩
  have h1 := (h.2.2.2.2).map (fun r => r.select t'.cols)
  rw [List.map_map] at h1
  have h2 : t'.rows.map ((fun r => r.select t'.cols) ∘ fun r => r.select t.cols) = t'.rows := by
    conv => rhs; rw [← List.map_id t'.rows]
    apply List.map_congr_left
    intro r hr
    simp only [Function.comp, id]
    rw [Row.select_select (fun c hc => (h.mem_cols c).mpr hc)]
    exact Row.select_self (h.wf_right r hr) h.nodup_right
  rw [h2] at h1
  exact h1.symm

theorem trans {t t' t'' : Table} (h : t ≈ᶜ t') (h' : t' ≈ᶜ t'') : t ≈ᶜ t'' := by
  refine ⟨h.wf_left, h'.wf_right, h.nodup_left, h.cols_perm.trans h'.cols_perm, ?_⟩
  refine h.2.2.2.2.trans ?_
  have h1 := (h'.2.2.2.2).map (fun r => r.select t.cols)
  rw [List.map_map] at h1
  refine h1.trans (List.Perm.of_eq ?_)
  apply List.map_congr_left
  intro r _
  simp only [Function.comp]
  exact Row.select_select (fun c hc => (h.mem_cols c).mp hc)

/-- selecting the same columns from `≈ᶜ` tables gives `≈` tables -/
theorem selectCols {t t' : Table} (h : t ≈ᶜ t') {cs : List String} (hs : ∀ c ∈ cs, c ∈ t.cols) :
    t.selectCols cs ≈ t'.selectCols cs := by
  have := h.equiv_select.selectCols cs
  rwa [Table.selectCols_selectCols _ hs] at this

end Table.EquivC

namespace ResEquivC
theorem refl_of_equiv {x y : Except Err Table} (h : ResEquiv x y) (hw : ∀ t, x = .ok t → t.WF ∧ t.cols.Nodup) :
    ResEquivC x y := by
  cases x with
  | error e => cases y with
    | error e' => exact h
    | ok _ => exact h.elim
  | ok t => cases y with
    | error _ => exact h.elim
    | ok t' => exact Table.EquivC.of_equiv h (hw t rfl).1 (hw t rfl).2

theorem symm : ∀ {x y : Except Err Table}, ResEquivC x y → ResEquivC y x
  | .ok _, .ok _, h => Table.EquivC.symm h
  | .error _, .error _, h => Eq.symm h
  | .ok _, .error _, h => h.elim
  | .error _, .ok _, h => h.elim

theorem trans : ∀ {x y z : Except Err Table}, ResEquivC x y → ResEquivC y z → ResEquivC x z
  | .ok _, .ok _, .ok _, h, h' => Table.EquivC.trans h h'
  | .error _, .error _, .error _, h, h' => Eq.trans h h'
  | .ok _, .error _, _, h, _ => h.elim
  | .error _, .ok _, _, h, _ => h.elim
  | .ok _, .ok _, .error _, _, h' => h'.elim
  | .error _, .error _, .ok _, _, h' => h'.elim

theorem ok_iff {t t' : Table} : ResEquivC (.ok t) (.ok t') ↔ t ≈ᶜ t' := Iff.rfl

theorem of_ok {x y : Except Err Table} {t : Table} (h : ResEquivC x y) (hx : x = .ok t) :
    ∃ t', y = .ok t' ∧ t ≈ᶜ t' := by
  subst hx
  cases y with
  | ok t' => exact ⟨t', rfl, h⟩
  | error e => exact h.elim

theorem of_eq {x y : Except Err Table} (h : x = y) (hw : ∀ t, x = .ok t → t.WF ∧ t.cols.Nodup) :
    ResEquivC x y := by
  subst h
  cases x with
  | error e => rfl
  | ok t => exact Table.EquivC.refl (hw t rfl).1 (hw t rfl).2

/-- sequencing -/
theorem bind {x y : Except Err Table} {f g : Table → Except Err Table} (h : ResEquivC x y)
    (hfg : ∀ t t', x = .ok t → y = .ok t' → t ≈ᶜ t' → ResEquivC (f t) (g t')) :
    ResEquivC (x >>= f) (y >>= g) := by
  cases x with
  | error e =>
    cases y with
    | error e' => exact h
    | ok _ => exact h.elim
  | ok t =>
    cases y with
    | error _ => exact h.elim
    | ok t' => exact hfg t t' rfl rfl h

/-- `≈ᶜ` results with the same column order are `≈` results -/
theorem to_resEquiv {x y : Except Err Table} (h : ResEquivC x y)
    (hc : ∀ t t', x = .ok t → y = .ok t' → t.cols = t'.cols) : ResEquiv x y := by
  cases x with
  | error e => cases y with
    | error e' => exact h
    | ok _ => exact h.elim
  | ok t => cases y with
    | error _ => exact h.elim
    | ok t' => exact Table.EquivC.to_equiv h (hc t t' rfl rfl)
end ResEquivC

theorem except_bind_congr {α β : Type} {x : Except Err α} {f g : α → Except Err β}
    (h : ∀ a, x = .ok a → f a = g a) : (x >>= f) = (x >>= g) := by
  cases x with
  | error e => rfl
  | ok a => exact h a rfl

end DAVerif
