import DAVerif.Proofs.BuilderReach
import DAVerif.Proofs.PrintCalls
import DAVerif.Proofs.PrintSemStruct
/-!
C12, semantic half without the guard: evaluating the printed calls of a pipeline in builder normal form is
`replace_leaves {}` of the pipeline.

`C12.rebuild (C12.toCalls p)` evaluates, node by node, the printed builder call on the rebuilt source;
`Ops.replaceLeaves [] p` (C07's model of `replace_leaves`) calls, node by node, the builder of the node on the
rebuilt source.  The two differ in three places only:

* the text starts with `TableDescription(...)` (two assertions), `replace_leaves` copies the node;
* `extend` / `project` / `select_rows` are printed with their expressions as text, which the evaluated call parses
  again (`parseAssignments` over the rebuilt source's columns), `replace_leaves` calls `extend_parsed_` /
  `project_parsed_` / `select_rows_parsed_` directly;
* the printed `partition_by` (`printPart`: nothing / `1` / the list) is not literally the argument `replace_leaves`
  passes (`1` / the list), but names the same columns and the same windowed situation.

For a pipeline in builder normal form (`C12.NF`, every reachable pipeline) that is valid (`Ops.valid`, every
reachable pipeline) none of the three makes a difference: `rebuild_eq_replace`.
-/
namespace DAVerif.C12S
open DAVerif Rules26 DAVerif.C12

set_option linter.unusedSimpArgs false
set_option linter.unusedVariables false

/-! ### `extend_parsed_` looks at its partition argument through its columns and its windowed situation -/

theorem extendTop_congr (self : Ops) (ops : Assign) (pa pa' : PartArg) (od rv : List String)
    (h : partCols pa' = partCols pa) (hw : ∀ o, windowedSituation o pa' od = windowedSituation o pa od) :
    extendTop self ops pa' od rv = extendTop self ops pa od rv := by
  cases self with
  | extend src ops1 part1 order1 rev1 w1 =>
    simp only [extendTop, extendMerge, mergeCond_congr _ _ _ _ _ pa pa' _ _ h (hw ops),
      mkExtend_congr _ _ pa pa' _ _ h (hw _)]
  | _ => exact mkExtend_congr _ _ pa pa' _ _ h (hw ops)

theorem extendParsed_congr (self : Ops) (ops : Assign) (pa pa' : PartArg) (od rv : List String)
    (h : partCols pa' = partCols pa) (hw : ∀ o, windowedSituation o pa' od = windowedSituation o pa od) :
    extendParsed self ops pa' od rv = extendParsed self ops pa od rv := by
  cases hne : ops.isEmpty with
  | true =>
    rw [extendParsed.eq_def, extendParsed.eq_def]
    simp only [hne, ↓reduceIte]
  | false =>
    rw [extendParsed_strip _ _ _ _ _ hne, extendParsed_strip _ _ _ _ _ hne, extendPre_congr _ _ pa pa' _ _ h,
      extendTop_congr _ _ pa pa' _ _ h hw]

/-- the argument `replace_leaves` passes for the partition of an `ExtendNode` and the argument the printer writes
name the same columns and the same windowed situation (given that a node that is not windowed has no partition
columns, which the constructor guarantees) -/
theorem printPart_vs_replace (part : List String) (w : Bool) (od : List String) (hflag : w = false → part = []) :
    partCols (printPart part w) = partCols (if w && part.isEmpty then PartArg.one else PartArg.cols part) ∧
    ∀ o, windowedSituation o (printPart part w) od =
      windowedSituation o (if w && part.isEmpty then PartArg.one else PartArg.cols part) od := by
  cases w with
  | false =>
    have := hflag rfl
    subst this
    exact ⟨rfl, fun o => rfl⟩
  | true =>
    cases part with
    | nil => exact ⟨rfl, fun o => rfl⟩
    | cons c cs => exact ⟨rfl, fun o => rfl⟩

/-! ### the printed call and the call of `replace_leaves` agree on a source with the same columns -/

theorem build_extend_eq {s s' : Ops} {ops : Assign} {part od rv : List String} {w : Bool}
    (hm : ∀ c, c ∈ s.cols ↔ c ∈ s'.cols) (hl : ExtLocal s ops part od rv w) :
    build s' (.extend ops (printPart part w) od rv) =
      extendParsed s' ops (if w && part.isEmpty then PartArg.one else PartArg.cols part) od rv := by
  obtain ⟨_, hpa, _, hmk⟩ := hl
  have hflag : w = false → part = [] := by
    intro hw
    obtain ⟨he, _⟩ := mkExtend_ok hmk
    simp only [Ops.extend.injEq, true_and] at he
    subst hw
    exact he.1
  obtain ⟨h1, h2⟩ := printPart_vs_replace part w od hflag
  simp only [build]
  rw [← parseAssignments_perm hm, hpa, ok_bind']
  exact extendParsed_congr _ _ _ _ _ _ h1 h2

theorem build_project_eq {s s' : Ops} {ops : Assign} {g : List String} {q : Ops}
    (hm : ∀ c, c ∈ s.cols ↔ c ∈ s'.cols) (h : build s (.project ops g) = .ok q) :
    build s' (.project ops g) = projectParsed s' ops g := by
  simp only [build] at h ⊢
  obtain ⟨parsed, hpa, _⟩ := bind_ok.mp h
  obtain ⟨rfl, _⟩ := parseAssignments_ok hpa
  rw [← parseAssignments_perm hm, hpa, ok_bind']

theorem build_selectRows_eq {s s' : Ops} {e : Term} {q : Ops}
    (hm : ∀ c, c ∈ s.cols ↔ c ∈ s'.cols) (h : build s (.selectRows (some e)) = .ok q) :
    build s' (.selectRows (some e)) = selectRowsB s' e := by
  simp only [build] at h ⊢
  obtain ⟨parsed, hpa, _⟩ := bind_ok.mp h
  rw [← parseAssignments_perm hm, hpa, ok_bind']

/-! ### the rebuilt pipelines coincide -/

/-- **Evaluating the printed text is `replace_leaves {}`.**  For a valid pipeline in builder normal form the printed
calls evaluate to exactly what `replace_leaves` with an empty replacement map returns (the same pipeline or the
same error). -/
theorem rebuild_eq_replace (p : Ops) (h : NF p) (hv : p.valid = true) :
    rebuild (toCalls p) = Ops.replaceLeaves [] p := by
  -- the columns of an already rebuilt source
  have facts : ∀ {s s' : Ops}, s.valid = true → Ops.replaceLeaves [] s = .ok s' → ∀ c, c ∈ s.cols ↔ c ∈ s'.cols := by
    intro s s' hsv hs' c
    exact (replaceId_struct s hsv s' hs').2.2.mem_iff.symm
  induction p with
  | table n cs =>
    simp only [toCalls, rebuild, h.wf_table, Ops.replaceLeaves, lookupLast]
    rfl
  | extend s ops part od rv w ih =>
    have hsv := Ops.valid_srcA (p := .extend s ops part od rv w) hv
    simp only [toCalls, rebuild, Call.toStep, Ops.replaceLeaves, ih h.1 hsv]
    exact except_bind_congr (fun s' hs' => build_extend_eq (facts hsv hs') h.2.2)
  | project s ops g ih =>
    have hsv := Ops.valid_srcA (p := .project s ops g) hv
    simp only [toCalls, rebuild, Call.toStep, Ops.replaceLeaves, ih h.1 hsv]
    exact except_bind_congr (fun s' hs' => build_project_eq (facts hsv hs') h.2.2)
  | selectRows s e ih =>
    have hsv := Ops.valid_srcA (p := .selectRows s e) hv
    simp only [toCalls, rebuild, Call.toStep, Ops.replaceLeaves, ih h.1 hsv]
    exact except_bind_congr (fun s' hs' => build_selectRows_eq (facts hsv hs') h.2.2)
  | selectCols s cs ih =>
    have hsv := Ops.valid_srcA (p := .selectCols s cs) hv
    simp only [toCalls, rebuild, Call.toStep, Ops.replaceLeaves, ih h.1 hsv]
  | dropCols s cs ih =>
    have hsv := Ops.valid_srcA (p := .dropCols s cs) hv
    simp only [toCalls, rebuild, Call.toStep, Ops.replaceLeaves, ih h.1 hsv]
  | order s cs rev lim ih =>
    have hsv := Ops.valid_srcA (p := .order s cs rev lim) hv
    simp only [toCalls, rebuild, Call.toStep, Ops.replaceLeaves, ih h.1 hsv]
  | rename s m ih =>
    have hsv := Ops.valid_srcA (p := .rename s m) hv
    simp only [toCalls, rebuild, Call.toStep, Ops.replaceLeaves, ih h.1 hsv]
  | mapCols s m dels ih =>
    have hsv := Ops.valid_srcA (p := .mapCols s m dels) hv
    simp only [toCalls, rebuild, Call.toStep, Ops.replaceLeaves, ih h.1 hsv, printMap]
  | convert s rm ih =>
    have hsv := Ops.valid_srcA (p := .convert s rm) hv
    simp only [toCalls, rebuild, Call.toStep, Ops.replaceLeaves, ih h.1 hsv]
  | join a b onA onB jt iha ihb =>
    have hav : a.valid = true := by simp only [Ops.valid, Bool.and_eq_true] at hv; exact hv.1.2
    have hbv : b.valid = true := by simp only [Ops.valid, Bool.and_eq_true] at hv; exact hv.2
    obtain ⟨ha, _, hb, hlen, _⟩ := h
    simp only [toCalls, rebuild, Ops.replaceLeaves, iha ha hav, ihb hb hbv, onLists_printOn hlen]
  | concat a b idc an bn iha ihb =>
    have hav : a.valid = true := by simp only [Ops.valid, Bool.and_eq_true] at hv; exact hv.1.2
    have hbv : b.valid = true := by simp only [Ops.valid, Bool.and_eq_true] at hv; exact hv.2
    obtain ⟨ha, _, hb, _⟩ := h
    simp only [toCalls, rebuild, Ops.replaceLeaves, iha ha hav, ihb hb hbv]

end DAVerif.C12S
