import Mathlib.Data.Rat.Floor
import Mathlib.Tactic.Linarith
import Mathlib.Tactic.Push
import DAVerif.Spec.DocSem
import DAVerif.Sem.ThetaC05
/-!
Numeric lemmas of C05 about `Rat.floor` (the only place of C05 that uses Mathlib: order facts of ℚ and `linarith`):
rounding half away from zero (SQL `ROUND`) equals rounding to nearest outside ties, truncation of integers, SQLite's `%`
on non-negative integers.
-/
namespace DAVerif.C05
open DAVerif DAVerif.Doc

theorem floor_le' (x : Rat) : ((x.floor : Int) : Rat) ≤ x := Int.floor_le x

theorem lt_floor_add_one' (x : Rat) : x < ((x.floor : Int) : Rat) + 1 := Int.lt_floor_add_one x

theorem floor_unique (x : Rat) (z : Int) (h1 : (z : Rat) ≤ x) (h2 : x < (z : Rat) + 1) : x.floor = z :=
  Int.floor_eq_iff.mpr ⟨h1, h2⟩

theorem floor_intCast' (n : Int) : (n : Rat).floor = n :=
  floor_unique _ n (le_refl _) (by linarith)

theorem floor_of_den_one (x : Rat) (h : x.den = 1) : ((x.floor : Int) : Rat) = x := by
  have hx : ((x.num : Int) : Rat) = x := (Rat.den_eq_one_iff x).mp h
  rw [← hx, floor_intCast']

theorem ipow_pos (n : Nat) : 0 < ipow 10 n := by
  induction n with
  | zero => show (0 : Rat) < 1; norm_num
  | succ n ih => show 0 < ipow 10 n * 10; positivity

/-- SQL `ROUND` (half away from zero) of `x·p` computed on the absolute value, as `ThetaSql` writes it, is the nearest
integer whenever that is determined (no tie) -/
theorem halfAway_eq_nearest (x p : Rat) (hp : 0 < p) (R : Int) (h : nearest? (x * p) = some R) :
    (if x < 0 then (-1 : Rat) else 1) *
      (((if (if x < 0 then -x else x) * p - ((((if x < 0 then -x else x) * p).floor : Int) : Rat) < 1/2
          then ((if x < 0 then -x else x) * p).floor
          else ((if x < 0 then -x else x) * p).floor + 1 : Int)) : Rat) = (R : Rat) := by
  unfold nearest? at h
  simp only at h
  have hF1 := floor_le' (x * p)
  have hF2 := lt_floor_add_one' (x * p)
  by_cases hx : x < 0
  · simp only [hx, if_true]
    have hneg : -x * p = -(x * p) := by ring
    rw [hneg]
    by_cases h1 : x * p - (((x * p).floor : Int) : Rat) < 1 / 2
    · rw [if_pos h1] at h
      have hR : (x * p).floor = R := by simpa using h
      by_cases h0 : x * p = (((x * p).floor : Int) : Rat)
      · -- x·p is an integer
        have hf : (-(x * p)).floor = -(x * p).floor := by
          apply floor_unique
          · push_cast; linarith
          · push_cast; linarith
        rw [hf]
        have : (-(x * p) - ((-(x * p).floor : Int) : Rat)) < 1 / 2 := by push_cast; linarith
        rw [if_pos this]
        push_cast
        rw [hR]; ring
      · have hlt : (((x * p).floor : Int) : Rat) < x * p := lt_of_le_of_ne hF1 (Ne.symm h0)
        have hf : (-(x * p)).floor = -(x * p).floor - 1 := by
          apply floor_unique
          · push_cast; linarith
          · push_cast; linarith
        rw [hf]
        have : ¬ (-(x * p) - ((-(x * p).floor - 1 : Int) : Rat)) < 1 / 2 := by push_cast; linarith
        rw [if_neg this]
        push_cast
        rw [hR]; ring
    · rw [if_neg h1] at h
      by_cases h2 : 1 / 2 < x * p - (((x * p).floor : Int) : Rat)
      · rw [if_pos h2] at h
        have hR : (x * p).floor + 1 = R := by simpa using h
        have hf : (-(x * p)).floor = -(x * p).floor - 1 := by
          apply floor_unique
          · push_cast; linarith
          · push_cast; linarith
        rw [hf]
        have : (-(x * p) - ((-(x * p).floor - 1 : Int) : Rat)) < 1 / 2 := by push_cast; linarith
        rw [if_pos this]
        push_cast
        rw [← hR]; push_cast; ring
      · rw [if_neg h2] at h; simp at h
  · simp only [hx, if_false]
    by_cases h1 : x * p - (((x * p).floor : Int) : Rat) < 1 / 2
    · rw [if_pos h1] at h
      have hR : (x * p).floor = R := by simpa using h
      rw [if_pos h1, hR]; ring
    · rw [if_neg h1] at h
      by_cases h2 : 1 / 2 < x * p - (((x * p).floor : Int) : Rat)
      · rw [if_pos h2] at h
        have hR : (x * p).floor + 1 = R := by simpa using h
        rw [if_neg h1, hR]; ring
      · rw [if_neg h2] at h; simp at h

/-- truncation toward zero of an integer-valued rational is the value itself -/
theorem truncZ_of_den_one (x : Rat) (h : x.den = 1) : ((ThetaX.truncZ x : Int) : Rat) = x := by
  unfold ThetaX.truncZ
  by_cases hx : x < 0
  · rw [if_pos hx]
    have hd : (-x).den = 1 := by rw [Rat.neg_den]; exact h
    push_cast
    rw [floor_of_den_one (-x) hd]; ring
  · rw [if_neg hx]; exact floor_of_den_one x h

/-- SQLite's `%` on non-negative integers is the documented modulo -/
theorem sqliteMod_nonneg_int (x y : Rat) (hx : 0 ≤ x) (hy : 0 < y) (hdx : x.den = 1) (hdy : y.den = 1) :
    ThetaSqlX.sqliteMod x y = some (x - y * (((x / y).floor : Int) : Rat)) := by
  unfold ThetaSqlX.sqliteMod
  have tx : ((ThetaX.truncZ x : Int) : Rat) = x := truncZ_of_den_one x hdx
  have ty : ((ThetaX.truncZ y : Int) : Rat) = y := truncZ_of_den_one y hdy
  have hb : ThetaX.truncZ y ≠ 0 := by
    intro h0; rw [h0] at ty; simp at ty; linarith
  simp only [beq_iff_eq, hb, if_false]
  rw [tx, ty]
  have hq : ¬ (x / y < 0) := by
    have : 0 ≤ x / y := div_nonneg hx (le_of_lt hy)
    linarith
  congr 1
  have ht : ThetaX.truncZ (x / y) = (x / y).floor := by
    unfold ThetaX.truncZ; rw [if_neg hq]
  rw [ht]
  push_cast
  rw [tx, ty]

end DAVerif.C05
