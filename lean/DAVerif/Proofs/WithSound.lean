import DAVerif.Proofs.WithForm
/-
The simulation argument of C04: evaluating the WITH form produced with ANY faithful key function gives the result
of the nested query (`toWithFormOld_sound`).
-/
namespace DAVerif.Sql
open DAVerif

/-! ### descendants -/

def Near.sz : Near → Nat
  | .table .. | .cte .. => 1
  | .unary _ _ _ s .. => s.sz + 1
  | .join _ _ l _ _ r .. => l.sz + r.sz + 1
  | .union _ _ l r .. => l.sz + r.sz + 1

theorem mem_bdesc {n : Near} {c : Option (List String)} {f : Bool} {x : Bound} (h : x ∈ bdesc n c f) :
    x = (n, c, f) ∨ x ∈ n.desc := by
  simp only [bdesc, List.mem_append] at h
  cases h with
  | inl h => split at h <;> simp_all
  | inr h => exact Or.inr h

theorem desc_sz (n : Near) : ∀ x ∈ n.desc, x.1.sz < n.sz := by
  induction n with
  | table => intro x hx; simp [Near.desc] at hx
  | cte => intro x hx; simp [Near.desc] at hx
  | unary name terms agg sub sc sf mg deps k ih =>
    intro x hx
    rw [desc_unary] at hx
    simp only [Near.sz]
    cases mem_bdesc hx with
    | inl h => subst h; simp
    | inr h => have := ih x h; omega
  | join name terms l lc ln r rc rn jt oa ob k ihl ihr =>
    intro x hx
    rw [desc_join, List.mem_append] at hx
    simp only [Near.sz]
    cases hx with
    | inl hx =>
      cases mem_bdesc hx with
      | inl h => subst h; simp only; omega
      | inr h => have := ihl x h; omega
    | inr hx =>
      cases mem_bdesc hx with
      | inl h => subst h; simp only; omega
      | inr h => have := ihr x h; omega
  | union name terms l r cs k ihl ihr =>
    intro x hx
    rw [desc_union, List.mem_append] at hx
    simp only [Near.sz]
    cases hx with
    | inl hx =>
      cases mem_bdesc hx with
      | inl h => subst h; simp only; omega
      | inr h => have := ihl x h; omega
    | inr hx =>
      cases mem_bdesc hx with
      | inl h => subst h; simp only; omega
      | inr h => have := ihr x h; omega

theorem desc_trans (n : Near) : ∀ x ∈ n.desc, ∀ m ∈ x.1.desc, m ∈ n.desc := by
  induction n with
  | table => intro x hx; simp [Near.desc] at hx
  | cte => intro x hx; simp [Near.desc] at hx
  | unary name terms agg sub sc sf mg deps k ih =>
    intro x hx m hm
    rw [desc_unary] at hx ⊢
    simp only [bdesc, List.mem_append]
    cases mem_bdesc hx with
    | inl h => subst h; exact Or.inr hm
    | inr h => exact Or.inr (ih x h m hm)
  | join name terms l lc ln r rc rn jt oa ob k ihl ihr =>
    intro x hx m hm
    rw [desc_join, List.mem_append] at hx ⊢
    simp only [bdesc, List.mem_append]
    cases hx with
    | inl hx =>
      cases mem_bdesc hx with
      | inl h => subst h; exact Or.inl (Or.inr hm)
      | inr h => exact Or.inl (Or.inr (ihl x h m hm))
    | inr hx =>
      cases mem_bdesc hx with
      | inl h => subst h; exact Or.inr (Or.inr hm)
      | inr h => exact Or.inr (Or.inr (ihr x h m hm))
  | union name terms l r cs k ihl ihr =>
    intro x hx m hm
    rw [desc_union, List.mem_append] at hx ⊢
    simp only [bdesc, List.mem_append]
    cases hx with
    | inl hx =>
      cases mem_bdesc hx with
      | inl h => subst h; exact Or.inl (Or.inr hm)
      | inr h => exact Or.inl (Or.inr (ihl x h m hm))
    | inr hx =>
      cases mem_bdesc hx with
      | inl h => subst h; exact Or.inr (Or.inr hm)
      | inr h => exact Or.inr (Or.inr (ihr x h m hm))

section Sound
variable (Θ : Interp) (ec : EngineCfg) (env : Env) (key : KeyFn) (q : Near)

/-- denotation of a bound sub-query of a CTE-free tree -/
def den (x : Bound) : Except Err Table := semNear Θ ec env [] x.1 x.2.1 x.2.2

/-- what the soundness of CTE elimination needs of the key function on the query `q`:
* `faith`: bound sub-queries with equal keys denote the same table;
* `closed`: if two bound sub-queries have equal keys, every key occurring below the first also occurs below the
  second (true when equal keys mean "same sub-tree up to the numbering of query names"). -/
structure KeyOK : Prop where
  faith : ∀ x ∈ q.desc, ∀ y ∈ q.desc, bkey key x = bkey key y → den Θ ec env x = den Θ ec env y
  closed : ∀ x ∈ q.desc, ∀ y ∈ q.desc, bkey key x = bkey key y →
    ∀ m ∈ x.1.desc, ∃ m0 ∈ y.1.desc, bkey key m0 = bkey key m

/-- under `closed`, no sub-query has the key of one of its ancestors -/
theorem KeyOK.acyclic (h : KeyOK Θ ec env key q) :
    ∀ x ∈ q.desc, ∀ m ∈ x.1.desc, bkey key m ≠ bkey key x := by
  have main : ∀ n : Nat, ∀ x ∈ q.desc, x.1.sz = n → ∀ m ∈ x.1.desc, bkey key m ≠ bkey key x := by
    intro n
    induction n using Nat.strongRecOn with
    | _ n ih =>
      intro x hx hsz m hm he
      have hmq := desc_trans q x hx m hm
      obtain ⟨m0, hm0, he0⟩ := h.closed x hx m hmq he.symm m hm
      have hlt := desc_sz x.1 m hm
      exact ih m.1.sz (by omega) m hmq rfl m0 hm0 he0
  intro x hx
  exact main _ x hx rfl

/-- the invariant relating the CTE context, the cache and the query -/
def InvOld (ctes : List (String × Table)) : Option Cache → Prop
  | none => True
  | some c => KeyOK Θ ec env key q ∧
      (∀ e ∈ c, ∃ t, lookupLast ctes e.2 = some t ∧ ∀ x ∈ q.desc, bkey key x = e.1 → den Θ ec env x = .ok t) ∧
      (∀ x ∈ q.desc, bkey key x ∈ c.map (·.1) → ∀ m ∈ x.1.desc, bkey key m ∈ c.map (·.1))

/-- outcome of `to_with_form` on `near`, started with the CTE context `ctes` and the cache `cache` -/
def TWPostOld (ctes : List (String × Table)) (cache : Option Cache) (near : Near) : Prop :=
  (∃ extra, runSteps Θ ec env ctes (toWithFormOld key cache near).2.1 = .ok (ctes ++ extra) ∧
      (∀ e ∈ extra, e.1 ∈ near.names.tail) ∧
      InvOld Θ ec env key q (ctes ++ extra) (toWithFormOld key cache near).2.2 ∧
      ∀ c f, semNear Θ ec env (ctes ++ extra) (toWithFormOld key cache near).1 c f = semNear Θ ec env [] near c f)
  ∨ (runSteps Θ ec env ctes (toWithFormOld key cache near).2.1 = .error .other ∧
      ∀ c f, semNear Θ ec env [] near c f = .error .other)

/-- outcome of `to_with_form_stub` on the container `(near, cols, force)` -/
def STPostOld (ctes : List (String × Table)) (cache : Option Cache) (near : Near) (cols : Option (List String))
    (force : Bool) : Prop :=
  (∃ extra, runSteps Θ ec env ctes (stubStepOld key near cols force (toWithFormOld key cache near)).2.1 = .ok (ctes ++ extra) ∧
      (∀ e ∈ extra, e.1 ∈ near.names) ∧
      InvOld Θ ec env key q (ctes ++ extra) (stubStepOld key near cols force (toWithFormOld key cache near)).2.2 ∧
      ∀ more : List (String × Table), (∀ e ∈ more, e.1 ∉ (ctes ++ extra).map (·.1)) →
        semNear Θ ec env (ctes ++ extra ++ more) (stubStepOld key near cols force (toWithFormOld key cache near)).1 cols force
          = semNear Θ ec env [] near cols force)
  ∨ (runSteps Θ ec env ctes (stubStepOld key near cols force (toWithFormOld key cache near)).2.1 = .error .other ∧
      semNear Θ ec env [] near cols force = .error .other)

theorem lookupLast_some_fst_mem {β : Type} (m : List (String × β)) (k : String) (v : β)
    (h : lookupLast m k = some v) : k ∈ m.map (·.1) := by
  have := lookupLast_some_mem m k v h
  simp only [List.mem_map]
  exact ⟨_, this, rfl⟩

theorem seq_any_false_old (cache : Option Cache) (near : Near) (hnd : near.names.Nodup) (ht : ¬ near.isTable = true) :
    ((toWithFormOld key cache near).2.1.any fun st => st.name == (toWithFormOld key cache near).1.name) = false := by
  have hn := Near.names_of_not_isTable ht
  have hnotin : near.name ∉ near.names.tail := by
    rw [hn] at hnd; exact (List.nodup_cons.mp hnd).1
  rw [Bool.eq_false_iff]
  intro h
  rw [List.any_eq_true] at h
  obtain ⟨x, hx, hxe⟩ := h
  rw [toWithFormOld_name] at hxe
  have hxe' : x.name = near.name := by simpa using hxe
  apply hnotin
  rw [← hxe']
  exact (toWithFormOld_names key near hnd cache).2 _ (by simp only [stepNames, List.mem_map]; exact ⟨x, hx, rfl⟩)

/-- `to_with_form_stub` from `to_with_form` on the same node -/
theorem stub_sem_old (ctes : List (String × Table)) (cache : Option Cache) (near : Near) (cols : Option (List String))
    (force : Bool)
    (hb : ∀ x ∈ bdesc near cols force, x ∈ q.desc) (hnc : near.noCte = true) (hnd : near.names.Nodup)
    (hdis : ∀ n ∈ near.names, n ∉ ctes.map (·.1)) (hinv : InvOld Θ ec env key q ctes cache)
    (htw : TWPostOld Θ ec env key q ctes cache near) :
    STPostOld Θ ec env key q ctes cache near cols force := by
  unfold STPostOld
  by_cases ht : near.isTable = true
  · rw [stubStepOld_isTable key cols force _ ht, toWithFormOld_isTable key _ ht]
    left
    refine ⟨[], by simp [runSteps_nil], by simp, by simpa using hinv, ?_⟩
    intro more _
    cases near with
    | table n ts => exact semNear_table_ctes Θ ec env _ _ n ts cols force
    | cte n => simp [Near.noCte] at hnc
    | _ => simp [Near.isTable] at ht
  · have hx : (near, cols, force) ∈ q.desc := hb _ (by rw [bdesc_of_not_isTable _ _ ht]; exact List.mem_cons_self)
    have hsubq : ∀ m ∈ near.desc, m ∈ q.desc := fun m hm => desc_trans q _ hx m hm
    have hn := Near.names_of_not_isTable ht
    have hnotin : near.name ∉ near.names.tail := by
      rw [hn] at hnd; exact (List.nodup_cons.mp hnd).1
    -- the miss case, shared by `cache = none` and a failed lookup
    have miss : ((toWithFormOld key cache near).2.2.bind fun c => lookupLast c (key near cols)) = none →
        (∀ c1, (toWithFormOld key cache near).2.2 = some c1 → ∀ k ∈ near.desc.map (bkey key), k ∈ c1.map (·.1)) →
        STPostOld Θ ec env key q ctes cache near cols force := by
      intro hl hgrow
      unfold STPostOld
      rw [stubStepOld_miss key cols force _ ht hl]
      have hany := seq_any_false_old key cache near hnd ht
      rw [toWithFormOld_name] at hany
      simp only [toWithFormOld_name, hany, Bool.false_eq_true, if_false]
      cases htw with
      | inr herr =>
        right
        refine ⟨?_, herr.2 cols force⟩
        rw [runSteps_append, herr.1]; rfl
      | inl hok =>
        obtain ⟨extra1, hrun, hnames, hinv1, hsem⟩ := hok
        cases hd : semNear Θ ec env [] near cols force with
        | error e =>
          right
          have he := semNear_err Θ ec env [] near _ _ _ hd
          subst he
          refine ⟨?_, rfl⟩
          rw [runSteps_append, hrun]
          simp only [bind, Except.bind, runSteps_single, hsem, hd]
        | ok t =>
          left
          refine ⟨extra1 ++ [(near.name, t)], ?_, ?_, ?_, ?_⟩
          · rw [runSteps_append, hrun]
            simp only [bind, Except.bind, runSteps_single, hsem, hd, pure, Except.pure, List.append_assoc]
          · intro e he
            simp only [List.mem_append, List.mem_singleton] at he
            rw [hn]
            cases he with
            | inl h => exact List.mem_cons_of_mem _ (hnames e h)
            | inr h => subst h; exact List.mem_cons_self
          · -- the invariant for the extended cache
            cases hc1 : (toWithFormOld key cache near).2.2 with
            | none => simp [InvOld]
            | some c1 =>
              rw [hc1] at hinv1 hl
              simp only [Option.bind_some] at hl
              obtain ⟨hok, hI1, hI2⟩ := hinv1
              simp only [Option.map_some, InvOld]
              have hfresh : near.name ∉ (ctes ++ extra1).map (·.1) := by
                simp only [List.map_append, List.mem_append, not_or]
                refine ⟨hdis _ (by rw [hn]; exact List.mem_cons_self), ?_⟩
                intro hmem
                simp only [List.mem_map] at hmem
                obtain ⟨e, he, hee⟩ := hmem
                exact hnotin (hee ▸ hnames e he)
              refine ⟨hok, ?_, ?_⟩
              · intro e he
                simp only [List.mem_append, List.mem_singleton] at he
                cases he with
                | inl h =>
                  obtain ⟨t', hlk, hden⟩ := hI1 e h
                  refine ⟨t', ?_, hden⟩
                  rw [← List.append_assoc, lookupLast_append_of_notMem _ _ _ ?_]
                  · exact hlk
                  · simp only [List.map_cons, List.map_nil, List.mem_singleton]
                    intro he2
                    exact hfresh (he2 ▸ lookupLast_some_fst_mem _ _ _ hlk)
                | inr h =>
                  subst h
                  refine ⟨t, ?_, ?_⟩
                  · rw [← List.append_assoc]; exact lookupLast_append_single _ _ _
                  · intro y hy hye
                    rw [hok.faith y hy _ hx hye]
                    exact hd
              · intro y hy hyk m hm
                simp only [List.map_append, List.map_cons, List.map_nil, List.mem_append, List.mem_singleton] at hyk ⊢
                cases hyk with
                | inl h => exact Or.inl (hI2 y hy h m hm)
                | inr h =>
                  obtain ⟨m0, hm0, he0⟩ := hok.closed y hy _ hx h m hm
                  left
                  rw [← he0]
                  exact hgrow c1 hc1 _ (by simp only [List.mem_map]; exact ⟨m0, hm0, rfl⟩)
          · intro more hmore
            rw [semNear_cte]
            have hnm : near.name ∉ more.map (·.1) := by
              intro hmem
              simp only [List.mem_map] at hmem
              obtain ⟨e, he, hee⟩ := hmem
              apply hmore e he
              rw [hee]
              simp
            rw [lookupLast_append_of_notMem _ _ _ hnm, ← List.append_assoc, lookupLast_append_single]
    cases cache with
    | none =>
      apply miss
      · rw [toWithFormOld_cache_none]; rfl
      · intro c1 hc1; rw [toWithFormOld_cache_none] at hc1; cases hc1
    | some c =>
      obtain ⟨m1, e1, a1, b1, n1⟩ := toWithFormOld_cache key near c
      cases hl : ((toWithFormOld key (some c) near).2.2.bind fun c => lookupLast c (key near cols)) with
      | none =>
        apply miss hl
        intro c1 hc1
        rw [e1] at hc1
        simp only [Option.some.injEq] at hc1
        subst hc1
        exact b1
      | some nm =>
        obtain ⟨hok, hI1, hI2⟩ := hinv
        rw [e1] at hl
        simp only [Option.bind_some] at hl
        have hmem := lookupLast_some_mem _ _ _ hl
        -- nothing was registered below a node whose own key hits
        have hm1 : m1 = [] := by
          by_cases hk : key near cols ∈ c.map (·.1)
          · exact n1 (fun k hk' => by
              simp only [List.mem_map] at hk'
              obtain ⟨m, hm, rfl⟩ := hk'
              exact hI2 _ hx hk m hm)
          · exfalso
            simp only [List.mem_append] at hmem
            cases hmem with
            | inl h => exact hk (by simp only [List.mem_map]; exact ⟨_, h, rfl⟩)
            | inr h =>
              have := a1 _ h
              simp only [List.mem_map] at this
              obtain ⟨m, hm, hme⟩ := this
              exact hok.acyclic Θ ec env key q _ hx m hm hme
        subst hm1
        simp only [List.append_nil] at e1 hmem hl
        obtain ⟨t, hlk, hden⟩ := hI1 _ hmem
        rw [stubStepOld_hit key cols force _ ht (by rw [e1]; simpa using hl)]
        left
        refine ⟨[], by simp [runSteps_nil], by simp, ?_, ?_⟩
        · rw [e1, List.append_nil]; exact ⟨hok, hI1, hI2⟩
        · intro more hmore
          rw [semNear_cte]
          have hnm : nm ∉ more.map (·.1) := by
            intro hmem'
            simp only [List.mem_map] at hmem'
            obtain ⟨e, he, hee⟩ := hmem'
            apply hmore e he
            rw [hee]
            simpa using lookupLast_some_fst_mem _ _ _ hlk
          simp only [List.append_nil]
          rw [lookupLast_append_of_notMem _ _ _ hnm, hlk]
          exact (hden _ hx rfl).symm

/-- two containers processed one after the other (the two sides of a binary step) -/
theorem pair_sem_old (ctes : List (String × Table)) (cache : Option Cache) (l r : Near) (lc rc : Option (List String))
    (fl fr : Bool)
    (hbl : ∀ x ∈ bdesc l lc fl, x ∈ q.desc) (hbr : ∀ x ∈ bdesc r rc fr, x ∈ q.desc)
    (hncl : l.noCte = true) (hncr : r.noCte = true) (hnd : (l.names ++ r.names).Nodup)
    (hdis : ∀ n ∈ l.names ++ r.names, n ∉ ctes.map (·.1)) (hinv : InvOld Θ ec env key q ctes cache)
    (ihl : ∀ ctes cache, (∀ n ∈ l.names, n ∉ ctes.map (·.1)) → InvOld Θ ec env key q ctes cache →
      TWPostOld Θ ec env key q ctes cache l)
    (ihr : ∀ ctes cache, (∀ n ∈ r.names, n ∉ ctes.map (·.1)) → InvOld Θ ec env key q ctes cache →
      TWPostOld Θ ec env key q ctes cache r) :
    (∃ extra, runSteps Θ ec env ctes (appendUnseen (stubStepOld key l lc fl (toWithFormOld key cache l)).2.1
          (stubStepOld key r rc fr (toWithFormOld key (stubStepOld key l lc fl (toWithFormOld key cache l)).2.2 r)).2.1)
          = .ok (ctes ++ extra) ∧
        (∀ e ∈ extra, e.1 ∈ l.names ++ r.names) ∧
        InvOld Θ ec env key q (ctes ++ extra)
          (stubStepOld key r rc fr (toWithFormOld key (stubStepOld key l lc fl (toWithFormOld key cache l)).2.2 r)).2.2 ∧
        semNear Θ ec env (ctes ++ extra) (stubStepOld key l lc fl (toWithFormOld key cache l)).1 lc fl
          = semNear Θ ec env [] l lc fl ∧
        semNear Θ ec env (ctes ++ extra)
          (stubStepOld key r rc fr (toWithFormOld key (stubStepOld key l lc fl (toWithFormOld key cache l)).2.2 r)).1 rc fr
          = semNear Θ ec env [] r rc fr)
    ∨ (runSteps Θ ec env ctes (appendUnseen (stubStepOld key l lc fl (toWithFormOld key cache l)).2.1
          (stubStepOld key r rc fr (toWithFormOld key (stubStepOld key l lc fl (toWithFormOld key cache l)).2.2 r)).2.1)
          = .error .other ∧
        (semNear Θ ec env [] l lc fl = .error .other ∨ semNear Θ ec env [] r rc fr = .error .other)) := by
  have hndl := (List.nodup_append.mp hnd).1
  have hndr := (List.nodup_append.mp hnd).2.1
  have hlr := (List.nodup_append.mp hnd).2.2
  have hdisl : ∀ n ∈ l.names, n ∉ ctes.map (·.1) := fun n hn => hdis n (List.mem_append_left _ hn)
  have hn1 := stubStepOld_names key l lc fl cache hndl (toWithFormOld_names key l hndl cache)
  have hn2 := stubStepOld_names key r rc fr (stubStepOld key l lc fl (toWithFormOld key cache l)).2.2 hndr
    (toWithFormOld_names key r hndr _)
  rw [(pair_names _ _ _ _ hnd hn1 hn2).1]
  have STl := stub_sem_old Θ ec env key q ctes cache l lc fl hbl hncl hndl hdisl hinv (ihl ctes cache hdisl hinv)
  cases STl with
  | inr herr =>
    right
    refine ⟨?_, Or.inl herr.2⟩
    rw [runSteps_append, herr.1]; rfl
  | inl hok =>
    obtain ⟨extra1, hrun1, hnames1, hinv1, hsem1⟩ := hok
    have hdisr : ∀ n ∈ r.names, n ∉ (ctes ++ extra1).map (·.1) := by
      intro n hn
      simp only [List.map_append, List.mem_append, not_or]
      refine ⟨hdis n (List.mem_append_right _ hn), ?_⟩
      intro hmem
      simp only [List.mem_map] at hmem
      obtain ⟨e, he, hee⟩ := hmem
      exact hlr _ (hnames1 e he) n hn hee
    have STr := stub_sem_old Θ ec env key q (ctes ++ extra1) _ r rc fr hbr hncr hndr hdisr hinv1
      (ihr (ctes ++ extra1) _ hdisr hinv1)
    cases STr with
    | inr herr =>
      right
      refine ⟨?_, Or.inr herr.2⟩
      rw [runSteps_append, hrun1]
      exact herr.1
    | inl hok2 =>
      obtain ⟨extra2, hrun2, hnames2, hinv2, hsem2⟩ := hok2
      left
      refine ⟨extra1 ++ extra2, ?_, ?_, ?_, ?_, ?_⟩
      · rw [runSteps_append, hrun1, ← List.append_assoc]
        exact hrun2
      · intro e he
        simp only [List.mem_append] at he ⊢
        cases he with
        | inl h => exact Or.inl (hnames1 e h)
        | inr h => exact Or.inr (hnames2 e h)
      · rw [← List.append_assoc]; exact hinv2
      · rw [← List.append_assoc]
        exact hsem1 extra2 (fun e he => hdisr _ (hnames2 e he))
      · have := hsem2 [] (by simp)
        rw [List.append_nil] at this
        rw [← List.append_assoc]
        exact this

/-- **simulation**: `to_with_form` on a sub-tree of `q` -/
theorem tw_sem_old (near : Near) : (∀ x ∈ near.desc, x ∈ q.desc) → near.noCte = true → near.names.Nodup →
    ∀ ctes cache, (∀ n ∈ near.names, n ∉ ctes.map (·.1)) → InvOld Θ ec env key q ctes cache →
      TWPostOld Θ ec env key q ctes cache near := by
  induction near with
  | table n ts =>
    intro _ _ _ ctes cache _ hinv
    left
    refine ⟨[], by simp [toWithFormOld, runSteps_nil], by simp, by simpa [toWithFormOld] using hinv, ?_⟩
    intro c f
    simp only [toWithFormOld]
    exact semNear_table_ctes Θ ec env _ _ n ts c f
  | cte n => intro _ h; simp [Near.noCte] at h
  | unary name terms agg sub sc sf mg deps k ih =>
    intro hsub hnc hnd ctes cache hdis hinv
    simp only [Near.names, List.nodup_cons] at hnd
    simp only [Near.noCte] at hnc
    rw [desc_unary] at hsub
    have hdis' : ∀ n ∈ sub.names, n ∉ ctes.map (·.1) := fun n hn => hdis n (by simp [Near.names, hn])
    have hsub' : ∀ x ∈ sub.desc, x ∈ q.desc := fun x hx => hsub x (by simp [bdesc, hx])
    have ST := stub_sem_old Θ ec env key q ctes cache sub sc false hsub hnc hnd.2 hdis' hinv
      (ih hsub' hnc hnd.2 ctes cache hdis' hinv)
    obtain ⟨mg', deps', he⟩ := toWithFormOld_unary key cache name terms agg sub sc sf mg deps k
    unfold TWPostOld
    rw [he]
    cases ST with
    | inr herr =>
      right
      exact ⟨herr.1, fun c f => semNear_unary_err Θ ec env _ _ _ _ _ _ _ _ _ _ _ _ herr.2⟩
    | inl hok =>
      obtain ⟨extra, hrun, hnames, hinv', hsem⟩ := hok
      left
      refine ⟨extra, hrun, by simpa [Near.names] using hnames, hinv', ?_⟩
      intro c f
      apply semNear_unary_congr
      have := hsem [] (by simp)
      rw [List.append_nil] at this
      exact this
  | join name terms l lc ln r rc rn jt oa ob k ihl ihr =>
    intro hsub hnc hnd ctes cache hdis hinv
    simp only [Near.names, List.nodup_cons] at hnd
    simp only [Near.noCte, Bool.and_eq_true] at hnc
    rw [desc_join] at hsub
    have hbl : ∀ x ∈ bdesc l (some lc) false, x ∈ q.desc := fun x hx => hsub x (List.mem_append_left _ hx)
    have hbr : ∀ x ∈ bdesc r (some rc) false, x ∈ q.desc := fun x hx => hsub x (List.mem_append_right _ hx)
    have hdis' : ∀ n ∈ l.names ++ r.names, n ∉ ctes.map (·.1) := fun n hn => hdis n (by simp only [Near.names]; exact List.mem_cons_of_mem _ hn)
    have P := pair_sem_old Θ ec env key q ctes cache l r (some lc) (some rc) false false hbl hbr hnc.1 hnc.2 hnd.2 hdis' hinv
      (fun ctes cache => ihl (fun x hx => hbl x (by simp [bdesc, hx])) hnc.1 (List.nodup_append.mp hnd.2).1 ctes cache)
      (fun ctes cache => ihr (fun x hx => hbr x (by simp [bdesc, hx])) hnc.2 (List.nodup_append.mp hnd.2).2.1 ctes cache)
    unfold TWPostOld
    rw [toWithFormOld_join]
    cases P with
    | inr herr =>
      right
      exact ⟨herr.1, fun c f => semNear_join_err Θ ec env _ _ _ _ _ _ _ _ _ _ _ _ _ _ _ herr.2⟩
    | inl hok =>
      obtain ⟨extra, hrun, hnames, hinv', hs1, hs2⟩ := hok
      left
      refine ⟨extra, hrun, by simpa [Near.names] using hnames, hinv', ?_⟩
      intro c f
      exact semNear_join_congr Θ ec env _ _ _ _ _ _ _ _ _ _ _ _ _ _ _ _ _ _ _ _ _ _ _ hs1 hs2
  | union name terms l r cs k ihl ihr =>
    intro hsub hnc hnd ctes cache hdis hinv
    simp only [Near.names, List.nodup_cons] at hnd
    simp only [Near.noCte, Bool.and_eq_true] at hnc
    rw [desc_union] at hsub
    have hbl : ∀ x ∈ bdesc l (some cs) true, x ∈ q.desc := fun x hx => hsub x (List.mem_append_left _ hx)
    have hbr : ∀ x ∈ bdesc r (some cs) true, x ∈ q.desc := fun x hx => hsub x (List.mem_append_right _ hx)
    have hdis' : ∀ n ∈ l.names ++ r.names, n ∉ ctes.map (·.1) := fun n hn => hdis n (by simp only [Near.names]; exact List.mem_cons_of_mem _ hn)
    have P := pair_sem_old Θ ec env key q ctes cache l r (some cs) (some cs) true true hbl hbr hnc.1 hnc.2 hnd.2 hdis' hinv
      (fun ctes cache => ihl (fun x hx => hbl x (by simp [bdesc, hx])) hnc.1 (List.nodup_append.mp hnd.2).1 ctes cache)
      (fun ctes cache => ihr (fun x hx => hbr x (by simp [bdesc, hx])) hnc.2 (List.nodup_append.mp hnd.2).2.1 ctes cache)
    unfold TWPostOld
    rw [toWithFormOld_union]
    cases P with
    | inr herr =>
      right
      exact ⟨herr.1, fun c f => semNear_union_err Θ ec env _ _ _ _ _ _ _ _ _ herr.2⟩
    | inl hok =>
      obtain ⟨extra, hrun, hnames, hinv', hs1, hs2⟩ := hok
      left
      refine ⟨extra, hrun, by simpa [Near.names] using hnames, hinv', ?_⟩
      intro c f
      exact semNear_union_congr Θ ec env _ _ _ _ _ _ _ _ _ _ _ _ _ _ _ hs1 hs2

/-- **soundness of the WITH form for a faithful key function** (cache on), and with the cache off -/
theorem toWithFormOld_sound (cache : Option Cache) (hc : cache = none ∨ (cache = some [] ∧ KeyOK Θ ec env key q))
    (hnc : q.noCte = true) (hnd : q.names.Nodup) :
    semWith Θ ec env (toWithFormOld key cache q).2.1 (toWithFormOld key cache q).1 = semSql Θ ec env q := by
  have hinv : InvOld Θ ec env key q [] cache := by
    cases hc with
    | inl h => subst h; trivial
    | inr h => obtain ⟨h1, h2⟩ := h; subst h1; exact ⟨h2, by simp, by simp⟩
  have T := tw_sem_old Θ ec env key q q (fun _ h => h) hnc hnd [] cache (by simp) hinv
  rw [semWith_eq]
  unfold semSql
  cases T with
  | inr herr => rw [herr.1, herr.2]; rfl
  | inl hok =>
    obtain ⟨extra, hrun, -, -, hsem⟩ := hok
    rw [hrun]
    exact hsem none true

end Sound
end DAVerif.Sql
