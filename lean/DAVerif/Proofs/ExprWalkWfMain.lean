import DAVerif.Proofs.ExprWalkWfCalls
import DAVerif.Proofs.ExprWalkWfParse
/-!
C13: the induction over the tree — every term the walker returns for a tree of the parser's shapes, under the guards
`NoDunderCall` and `floatsInScope`, is well-formed.
-/
namespace DAVerif.C13W
open DAVerif DAVerif.Expr

/-! ## guards, unfolded -/

theorem guardsWf_node (r : String) (ch : List Cst) :
    guardsWf (.node r ch) = (dunderNodeOk r ch && guardsWfL ch) := by
  unfold guardsWf guardsWfL; rw [allP]
theorem guardsWf_tok (t : Token) : guardsWf (.tok t) = floatTokOk t := by
  unfold guardsWf; rw [allP]
theorem guardsWfL_cons (c : Cst) (cs : List Cst) : guardsWfL (c :: cs) = (guardsWf c && guardsWfL cs) := by
  unfold guardsWf guardsWfL; rw [allPL]
theorem guardsWfL_nil : guardsWfL [] = true := by
  unfold guardsWfL; rw [allPL]

theorem ite_ne {α : Type} {c : Prop} [Decidable c] {a b x : α} (ha : a ≠ x) (hb : b ≠ x) :
    (if c then a else b) ≠ x := by
  split <;> assumption

theorem classify_funccall_inv {rule : String} (h : classify rule = .funccall) : rule = "funccall" := by
  by_cases hf : rule = "funccall"
  · exact hf
  · exfalso
    have hf' : (rule == "funccall") = false := by simpa using hf
    unfold classify at h
    simp only [hf', Bool.false_eq_true, ↓reduceIte] at h
    revert h
    repeat (first | exact (by decide) | apply ite_ne (by decide))

/-! ## children that are walked are nodes of the grammar -/

/-- a child as the loosest of the child lists allows it: an operator token, a `None` placeholder, or a tree -/
def looseOk (c : Cst) : Bool :=
  isOpTokIn grammarOps c || (match c with | .none => true | _ => false) || gram c

def loose : List Cst → Bool
  | [] => true
  | c :: cs => looseOk c && loose cs

theorem gramLevel_loose : ∀ cs : List Cst, gramLevel cs = true → loose cs = true
  | [], _ => rfl
  | c :: cs, h => by
    simp only [gramLevel, Bool.and_eq_true, Bool.or_eq_true] at h
    simp only [loose, looseOk, Bool.and_eq_true, Bool.or_eq_true]
    exact ⟨by rcases h.1 with h1 | h1 <;> simp [h1], gramLevel_loose cs h.2⟩

theorem gramAll_loose : ∀ cs : List Cst, gramAll cs = true → loose cs = true
  | [], _ => rfl
  | c :: cs, h => by
    simp only [gramAll, Bool.and_eq_true] at h
    simp only [loose, looseOk, Bool.and_eq_true, Bool.or_eq_true]
    exact ⟨Or.inr h.1, gramAll_loose cs h.2⟩

theorem gramArgs_loose : ∀ cs : List Cst, gramArgs cs = true → loose cs = true
  | [], _ => rfl
  | .none :: cs, h => by
    simp only [gramArgs] at h
    simp [loose, looseOk, gramArgs_loose cs h]
  | .tok t :: cs, h => by simp [gramArgs, gram] at h
  | .node r ch :: cs, h => by
    simp only [gramArgs, Bool.and_eq_true] at h
    simp [loose, looseOk, h.1, gramArgs_loose cs h.2]

theorem gram_of_loose {env : Env} {c : Cst} {t : Term} (hl : looseOk c = true) (hw : walk env c = .ok t) :
    gram c = true := by
  cases c with
  | none => unfold walk at hw; contradiction
  | node r ch => simpa [looseOk, isOpTokIn] using hl
  | tok tk =>
    simp only [looseOk, isOpTokIn, gram, Bool.or_false, Bool.and_eq_true, beq_iff_eq] at hl
    unfold walk at hw
    simp [walkTok, hl.1] at hw

theorem opText_loose {o : Cst} {s : String} (hl : looseOk o = true) (h : opText o = some s) : s ∈ grammarOps := by
  cases o with
  | none => simp [opText] at h
  | node r ch => simp [opText] at h
  | tok tk =>
    simp only [opText, Option.some.injEq] at h
    subst h
    simp only [looseOk, isOpTokIn, gram, Bool.or_false, Bool.and_eq_true] at hl
    simpa using hl.2

theorem opTexts_loose : ∀ (rest : List Cst) (ops : List String), loose rest = true → opTexts rest = some ops →
    (∀ o ∈ ops, o ∈ grammarOps) ∧ 2 * ops.length = rest.length
  | [], ops, _, h => by
    simp only [opTexts, Option.some.injEq] at h
    subst h; simp
  | [_], ops, _, h => by simp [opTexts] at h
  | o :: c :: rest, ops, hl, h => by
    simp only [opTexts] at h
    cases ho : opText o with
    | none => simp [ho] at h
    | some s =>
      cases hr : opTexts rest with
      | none => simp [ho, hr] at h
      | some ss =>
        simp only [ho, hr, Option.some.injEq] at h
        subst h
        simp only [loose, Bool.and_eq_true] at hl
        obtain ⟨h1, h2⟩ := opTexts_loose rest ss hl.2.2 hr
        refine ⟨?_, by simp only [List.length_cons]; omega⟩
        intro x hx
        simp only [List.mem_cons] at hx
        rcases hx with rfl | hx
        · exact opText_loose hl.1 ho
        · exact h1 x hx

theorem levelMode_kary {kind : RuleKind} {ops : List String} {op : String} (h : levelMode kind ops = .kary op) :
    karyOps.contains op = true := by
  unfold levelMode at h
  split at h
  · rename_i hcond
    injection h with h
    simp only [Bool.and_eq_true, Bool.or_eq_true, beq_iff_eq] at hcond
    cases ops with
    | nil => simp [allSame] at hcond
    | cons o os =>
      simp only [List.headD_cons] at h
      subst h
      simp only [List.head?_cons, Option.some.injEq] at hcond
      rcases hcond.2 with rfl | rfl <;> decide
  · split at h <;> contradiction

theorem levelMode_cmp {kind : RuleKind} {ops : List String} (h : levelMode kind ops = .cmpChain) : ops.length ≥ 2 := by
  unfold levelMode at h
  split at h
  · contradiction
  · split at h
    · rename_i hcond
      simp only [Bool.and_eq_true, decide_eq_true_eq] at hcond
      exact hcond.2
    · contradiction

/-! ## tokens -/

theorem walkTok_wf {env : Env} {tk : Token} {t : Term} (hf : floatTokOk tk = true) (h : walkTok env tk = .ok t) :
    wf env t = true := by
  unfold walkTok at h
  cases hk : tk.kind <;> simp only [hk] at h
  case name =>
    split at h
    · rename_i hc
      injection h with h; subst h
      rw [wf]; exact hc
    · contradiction
  case dec =>
    split at h
    · injection h with h; subst h; rw [wf_value]; rfl
    · contradiction
  case float =>
    split at h
    · rename_i q hq
      injection h with h; subst h
      rw [wf_value]
      simpa [floatTokOk, hk, hq] using hf
    · contradiction
  case string =>
    split at h
    · injection h with h; subst h; rw [wf_value]; exact litOk_str _
    · contradiction
  all_goals contradiction

theorem wf_funcApp {env : Env} {op : String} {args : List Term} {t : Term} (hw : wfs env args = true)
    (h : mkExpr env op args false false = .ok t) : wf env t = true := by
  have ht := mkExpr_ok h
  rw [ht, wf_app, hw, Bool.true_and]
  cases args with
  | nil => simp only [shapeOk]; exact okEq_of_eq (ht ▸ h)
  | cons a rest => exact shape_func h

/-! ## the induction over the tree -/

section main
set_option linter.unusedSectionVars false
variable {env : Env} (hs : env.Sane) (hc : Canon env)
include hs hc

mutual
theorem walk_wf : ∀ (c : Cst) (t : Term), gram c = true → guardsWf c = true → walk env c = .ok t →
    wf env t = true
  | .tok tk, t, hg, _, _ => by simp [gram] at hg
  | .none, t, hg, _, _ => by simp [gram] at hg
  | .node rule ch, t, hg, hG, hw => by
    rw [gram_node] at hg
    rw [guardsWf_node, Bool.and_eq_true] at hG
    unfold walk at hw
    cases hk : classify rule <;> simp only [hk] at hw hg
    case constTrue => cases hw; rw [wf_value]; rfl
    case constFalse => cases hw; rw [wf_value]; rfl
    case constNone => cases hw; rw [wf_value]; rfl
    case wrapper =>
      match ch, hg, hG, hw with
      | [.tok tk], _, hG, hw =>
        simp only [guardsWfL_cons, guardsWf_tok, Bool.and_eq_true] at hG
        simp only at hw
        unfold walk at hw
        exact walkTok_wf hG.2.1 hw
    case arith => exact walkLevel_wf .arith ch t (gramLevel_loose ch hg) hG.2 hw
    case term => exact walkLevel_wf .term ch t (gramLevel_loose ch hg) hG.2 hw
    case comparison => exact walkLevel_wf .comparison ch t (gramLevel_loose ch hg) hG.2 hw
    case bitwise => contradiction
    case other => contradiction
    case keyValue => contradiction
    case power =>
      match ch, hg, hG, hw with
      | [a, b], hg, hG, hw =>
        simp only [Bool.and_eq_true] at hg
        simp only [guardsWfL_cons, Bool.and_eq_true] at hG
        simp only [List.length_cons, List.length_nil, Nat.lt_irrefl, ↓reduceIte, walkAll] at hw
        cases ha : walk env a with
        | error e => simp [ha] at hw
        | ok ta =>
          cases hb : walk env b with
          | error e => simp [ha, hb] at hw
          | ok tb =>
            simp only [ha, hb, ok_bind, pure, Except.pure, List.foldlM] at hw
            cases hcall : callMethod env ta "__pow__" [tb] with
            | error e => simp [hcall] at hw
            | ok r =>
              simp only [hcall, ok_bind] at hw
              cases hw
              exact call1_wf (canon_pow hc) hcall (walk_wf a ta hg.1 hG.2.1 ha) (walk_wf b tb hg.2 hG.2.2.1 hb)
    case factor =>
      match ch, hg, hG, hw with
      | [.tok tk, x], hg, hG, hw =>
        simp only [Bool.and_eq_true] at hg
        simp only [guardsWfL_cons, Bool.and_eq_true] at hG
        simp only [opText] at hw
        cases hx : walk env x with
        | error e => simp [hx] at hw
        | ok right =>
          simp only [hx, ok_bind] at hw
          have hs' : tk.text = "+" ∨ tk.text = "-" ∨ tk.text = "~" := by simpa [unaryOps] using hg.1.2
          exact factor_wf hs hc hs' (walk_wf x right hg.2 hG.2.2.1 hx) hw
    case not =>
      match ch, hg, hG, hw with
      | [x], hg, hG, hw =>
        simp only [guardsWfL_cons, Bool.and_eq_true] at hG
        simp only at hw
        cases hx : walk env x with
        | error e => simp [hx] at hw
        | ok left =>
          simp only [hx, ok_bind] at hw
          exact call1_wf (canon_eq hc) hw (walk_wf x left hg hG.2.1 hx) (by rw [wf_value]; rfl)
    case orTest =>
      split at hw
      · contradiction
      · rename_i hlen
        cases hwa : walkAll env ch with
        | error e => simp [hwa] at hw
        | ok children =>
          simp only [hwa, ok_bind] at hw
          obtain ⟨hwf, hl⟩ := walkAll_wf ch children (gramLevel_loose ch hg) hG.2 hwa
          have ht := kopExpr_ok hw
          rw [ht, wf_app, hwf, Bool.true_and]
          match children, hl, hw, ht with
          | [], hl, _, _ => simp at hl; omega
          | [_], hl, _, _ => simp at hl; omega
          | a :: b :: rest, _, hw, ht =>
            simp only [shapeOk, show karyOps.contains "or" = true by decide, ↓reduceIte]
            exact okEq_of_eq (ht ▸ hw)
    case andTest =>
      split at hw
      · contradiction
      · rename_i hlen
        cases hwa : walkAll env ch with
        | error e => simp [hwa] at hw
        | ok children =>
          simp only [hwa, ok_bind] at hw
          obtain ⟨hwf, hl⟩ := walkAll_wf ch children (gramLevel_loose ch hg) hG.2 hwa
          have ht := kopExpr_ok hw
          rw [ht, wf_app, hwf, Bool.true_and]
          match children, hl, hw, ht with
          | [], hl, _, _ => simp at hl; omega
          | [_], hl, _, _ => simp at hl; omega
          | a :: b :: rest, _, hw, ht =>
            simp only [shapeOk, show karyOps.contains "and" = true by decide, ↓reduceIte]
            exact okEq_of_eq (ht ▸ hw)
    case funccall =>
      have hrule := classify_funccall_inv hk
      subst hrule
      match ch, hg, hG, hw with
      | [carrier, more], hg, hG, hw =>
        simp only [Bool.and_eq_true] at hg
        obtain ⟨hgc, hgm⟩ := hg
        cases carrier with
        | tok _ => simp [gram] at hgc
        | none => simp [gram] at hgc
        | node crule cch =>
          obtain ⟨hdn, hGL⟩ := hG
          simp only [guardsWfL_cons, guardsWf_node, Bool.and_eq_true] at hGL
          simp only [List.length_cons, List.length_nil, Nat.lt_irrefl, ↓reduceIte, gt_iff_lt] at hw
          -- the arguments
          have hargs : ∀ args, walkArgs env [more] = .ok args → wfs env args = true := by
            intro args ha
            match more, hgm, hGL, ha with
            | .none, _, _, ha => simp only [walkArgs] at ha; cases ha; exact wfs_nil env
            | .node r items, hgm, hGL, ha =>
              simp only [walkArgs] at ha
              simp only [guardsWf_node, Bool.and_eq_true] at hGL
              exact (walkAll_wf items args (gramArgs_loose items hgm) hGL.2.1.2 ha).1
          by_cases hga : (crule == "getattr") = true
          · have hcr : crule = "getattr" := by simpa using hga
            subst hcr
            rw [gram_node] at hgc
            simp only [classify_getattr, beq_self_eq_true, ↓reduceIte] at hgc
            simp only [beq_self_eq_true, ↓reduceIte] at hw
            match cch, hgc, hGL, hdn, hw with
            | [recv, .tok nm], hgc, hGL, hdn, hw =>
              simp only [opText] at hw
              have hd : isDunder nm.text = false := by
                simpa [dunderNodeOk] using hdn
              simp only [guardsWfL_cons, Bool.and_eq_true] at hGL
              cases hwr : walk env recv with
              | error e => simp [hwr] at hw
              | ok var =>
                cases hwa : walkArgs env [more] with
                | error e => simp [hwr, hwa] at hw
                | ok args =>
                  simp only [hwr, hwa, ok_bind] at hw
                  exact callMethod_wf hs hc hd hw (walk_wf recv var hgc hGL.1.2.1 hwr) (hargs args hwa)
          · have hga' : (crule == "getattr") = false := by simpa using hga
            simp only [hga', Bool.false_eq_true, ↓reduceIte] at hw
            split at hw
            · contradiction
            · cases hwa : walkArgs env [more] with
              | error e => simp [hwa] at hw
              | ok args =>
                simp only [hwa, ok_bind] at hw
                exact wf_funcApp (hargs args hwa) hw
            · cases hwa : walkArgs env [more] with
              | error e => simp [hwa] at hw
              | ok args => simp [hwa] at hw
    case collection =>
      match ch, hg, hG, hw with
      | [.none], _, _, hw =>
        simp only at hw
        unfold walk at hw
        simp at hw
      | [.node r2 items], hg, hG, hw =>
        simp only at hw hg
        simp only [guardsWfL_cons, Bool.and_eq_true] at hG
        split at hw
        · rename_i hr2
          simp only [hr2, ↓reduceIte, Bool.and_eq_true, Bool.not_eq_true', List.isEmpty_eq_false_iff] at hg
          have hGi := hG.2.1
          rw [guardsWf_node, Bool.and_eq_true] at hGi
          cases hwa : walkAll env items with
          | error e => simp [hwa] at hw
          | ok vs =>
            simp only [hwa, ok_bind] at hw
            obtain ⟨hwf, hl⟩ := walkAll_wf items vs (gramAll_loose items hg.2) hGi.2 hwa
            refine mkList_wf ?_ hwf hw
            intro hvs; subst hvs
            simp only [List.length_nil] at hl
            exact hg.1 (List.length_eq_zero_iff.mp hl.symm)
        · rename_i hr2
          simp only [hr2, Bool.false_eq_true, ↓reduceIte] at hg
          cases hc' : walk env (.node r2 items) with
          | error e => simp [hc'] at hw
          | ok v =>
            simp only [hc', ok_bind] at hw
            have hv := walk_wf (.node r2 items) v hg hG.2.1 hc'
            exact mkList_wf (by simp) (by simp only [wfs_cons, wfs_nil, hv, Bool.and_self]) hw
    case dict =>
      match ch, hg, hG, hw with
      | [.none], _, _, hw => simp at hw
      | [.node r items], hg, hG, hw =>
        simp only [Bool.and_eq_true, Bool.not_eq_true', List.isEmpty_eq_false_iff] at hg
        simp only [guardsWfL_cons, guardsWf_node, Bool.and_eq_true] at hG
        simp only at hw
        cases hwa : walkAll env items with
        | error e => simp [hwa] at hw
        | ok parts =>
          simp only [hwa, ok_bind] at hw
          obtain ⟨kvs, hparts, hok, hl⟩ := walkKVs_wf items parts hg.2 hG.2.1.2 hwa
          subst hparts
          refine mkDict_wf ?_ hok hw
          intro hk; subst hk
          simp only [List.length_nil] at hl
          exact hg.1 (List.length_eq_zero_iff.mp hl.symm)
/-- `arith_expr | term | comparison` -/
theorem walkLevel_wf : ∀ (kind : RuleKind) (ch : List Cst) (t : Term), loose ch = true → guardsWfL ch = true →
    walkLevel env kind ch = .ok t → wf env t = true
  | kind, [], t, _, _, hw => by unfold walkLevel at hw; contradiction
  | kind, c :: rest, t, hl, hG, hw => by
    unfold walkLevel at hw
    split at hw
    · contradiction
    rename_i hlen
    simp only [Bool.or_eq_true, decide_eq_true_eq, not_or] at hlen
    cases hops : opTexts rest with
    | none => simp [hops] at hw
    | some ops =>
    simp only [hops] at hw
    simp only [loose, Bool.and_eq_true] at hl
    simp only [guardsWfL_cons, Bool.and_eq_true] at hG
    obtain ⟨hmem, hopslen⟩ := opTexts_loose rest ops hl.2 hops
    cases hm : levelMode kind ops with
    | kary op =>
      simp only [hm] at hw
      cases hwc : walk env c with
      | error e => simp [hwc] at hw
      | ok first =>
      cases hwo : walkOdd env rest with
      | error e => simp [hwc, hwo] at hw
      | ok others =>
      simp only [hwc, hwo, ok_bind] at hw
      have ht := kopExpr_ok hw
      have hwf1 := walk_wf c first (gram_of_loose hl.1 hwc) hG.1 hwc
      obtain ⟨hwf2, hlen2⟩ := walkOdd_wf rest others hl.2 hG.2 hwo
      rw [ht, wf_app]
      simp only [wfs_cons, hwf1, hwf2, Bool.and_self, Bool.true_and]
      match others, hlen2, hw, ht with
      | [], hlen2, _, _ => simp only [List.length_nil] at hlen2; omega
      | b :: bs, _, hw, ht =>
        simp only [shapeOk, levelMode_kary hm, ↓reduceIte]
        exact okEq_of_eq (ht ▸ hw)
    | cmpChain =>
      simp only [hm] at hw
      cases hwc : walk env c with
      | error e => simp [hwc] at hw
      | ok first =>
      cases hwo : walkOdd env rest with
      | error e => simp [hwc, hwo] at hw
      | ok others =>
      simp only [hwc, hwo, ok_bind] at hw
      cases hcc : chainComparisons env (first :: others) ops with
      | error e => simp [hcc] at hw
      | ok comps =>
      simp only [hcc, ok_bind] at hw
      have ht := kopExpr_ok hw
      have hwf1 := walk_wf c first (gram_of_loose hl.1 hwc) hG.1 hwc
      obtain ⟨hwf2, hlen2⟩ := walkOdd_wf rest others hl.2 hG.2 hwo
      obtain ⟨hwf3, hlen3⟩ := chain_wf hc ops (first :: others) comps hmem
        (by simp only [wfs_cons, hwf1, hwf2, Bool.and_self]) (by simp only [List.length_cons]; omega) hcc
      have hge := levelMode_cmp hm
      rw [ht, wf_app, hwf3, Bool.true_and]
      match comps, hlen3, hw, ht with
      | [], hlen3, _, _ => simp only [List.length_nil] at hlen3; omega
      | [_], hlen3, _, _ => simp only [List.length_cons, List.length_nil] at hlen3; omega
      | a :: b :: rest', _, hw, ht =>
        simp only [shapeOk, show karyOps.contains "and" = true by decide, ↓reduceIte]
        exact okEq_of_eq (ht ▸ hw)
    | linear =>
      simp only [hm] at hw
      cases hwc : walk env c with
      | error e => simp [hwc] at hw
      | ok res =>
        simp only [hwc, ok_bind] at hw
        exact walkChain_wf rest res t hl.2 hG.2 (walk_wf c res (gram_of_loose hl.1 hwc) hG.1 hwc) hw
/-- the linear chain -/
theorem walkChain_wf : ∀ (rest : List Cst) (res t : Term), loose rest = true → guardsWfL rest = true →
    wf env res = true → walkChain env res rest = .ok t → wf env t = true
  | [], res, t, _, _, hwr, hw => by
    unfold walkChain at hw; cases hw; exact hwr
  | [_], res, t, _, _, hwr, hw => by
    unfold walkChain at hw; cases hw; exact hwr
  | o :: c :: rest, res, t, hl, hG, hwr, hw => by
    unfold walkChain at hw
    simp only [loose, Bool.and_eq_true] at hl
    simp only [guardsWfL_cons, Bool.and_eq_true] at hG
    cases ho : opText o with
    | none => simp [ho] at hw
    | some s =>
    simp only [ho] at hw
    cases hg : getMethod env res (remap env.opRemap s) with
    | error e => simp [hg] at hw
    | ok b =>
    cases hwc : walk env c with
    | error e => simp [hg, hwc] at hw
    | ok arg =>
    cases hab : applyBound env b res [arg] with
    | error e => simp [hg, hwc, hab] at hw
    | ok res' =>
    simp only [hg, hwc, hab, ok_bind] at hw
    have hwa := walk_wf c arg (gram_of_loose hl.2.1 hwc) hG.2.1 hwc
    have hwr' := step_wf (canon_op hc (opText_loose hl.1 ho)) hg hab hwr hwa
    exact walkChain_wf rest res' t hl.2.2 hG.2.2 hwr' hw
/-- every child -/
theorem walkAll_wf : ∀ (cs : List Cst) (ts : List Term), loose cs = true → guardsWfL cs = true →
    walkAll env cs = .ok ts → wfs env ts = true ∧ ts.length = cs.length
  | [], ts, _, _, hw => by
    unfold walkAll at hw; cases hw; exact ⟨wfs_nil env, rfl⟩
  | c :: cs, ts, hl, hG, hw => by
    unfold walkAll at hw
    simp only [loose, Bool.and_eq_true] at hl
    simp only [guardsWfL_cons, Bool.and_eq_true] at hG
    cases hwc : walk env c with
    | error e => simp [hwc] at hw
    | ok t =>
    cases hwr : walkAll env cs with
    | error e => simp [hwc, hwr] at hw
    | ok ts' =>
    simp only [hwc, hwr, ok_bind, pure, Except.pure] at hw
    cases hw
    obtain ⟨h1, h2⟩ := walkAll_wf cs ts' hl.2 hG.2 hwr
    exact ⟨by simp only [wfs_cons, walk_wf c t (gram_of_loose hl.1 hwc) hG.1 hwc, h1, Bool.and_self],
      by simp [h2]⟩
/-- the operands of `(op v)*` -/
theorem walkOdd_wf : ∀ (cs : List Cst) (ts : List Term), loose cs = true → guardsWfL cs = true →
    walkOdd env cs = .ok ts → wfs env ts = true ∧ 2 * ts.length + cs.length % 2 = cs.length
  | [], ts, _, _, hw => by
    unfold walkOdd at hw; cases hw; exact ⟨wfs_nil env, rfl⟩
  | [_], ts, _, _, hw => by
    unfold walkOdd at hw; cases hw; exact ⟨wfs_nil env, rfl⟩
  | o :: c :: cs, ts, hl, hG, hw => by
    unfold walkOdd at hw
    simp only [loose, Bool.and_eq_true] at hl
    simp only [guardsWfL_cons, Bool.and_eq_true] at hG
    cases hwc : walk env c with
    | error e => simp [hwc] at hw
    | ok t =>
    cases hwr : walkOdd env cs with
    | error e => simp [hwc, hwr] at hw
    | ok ts' =>
    simp only [hwc, hwr, ok_bind, pure, Except.pure] at hw
    cases hw
    obtain ⟨h1, h2⟩ := walkOdd_wf cs ts' hl.2.2 hG.2.2 hwr
    refine ⟨by simp only [wfs_cons, walk_wf c t (gram_of_loose hl.2.1 hwc) hG.2.1 hwc, h1, Bool.and_self], ?_⟩
    simp only [List.length_cons]; omega
/-- the `key_value` children of a dictionary literal: one-entry dictionaries of constants that re-read -/
theorem walkKVs_wf : ∀ (items : List Cst) (parts : List Term), gramKVs items = true → guardsWfL items = true →
    walkAll env items = .ok parts →
    ∃ kvs : List (Lit × Lit), parts = kvs.map (fun kv => Term.dict [kv]) ∧
      kvs.all (fun kv => litOk kv.1 && litOk kv.2) = true ∧ kvs.length = items.length
  | [], parts, _, _, hw => by
    unfold walkAll at hw; cases hw; exact ⟨[], rfl, rfl, rfl⟩
  | .node r [k, v] :: cs, parts, hg, hG, hw => by
    simp only [gramKVs, Bool.and_eq_true, beq_iff_eq] at hg
    obtain ⟨⟨⟨hr, hgk⟩, hgv⟩, hgcs⟩ := hg
    subst hr
    simp only [guardsWfL_cons, guardsWf_node, Bool.and_eq_true] at hG
    unfold walkAll at hw
    cases hwc : walk env (.node "key_value" [k, v]) with
    | error e => simp [hwc] at hw
    | ok p =>
    cases hwr : walkAll env cs with
    | error e => simp [hwc, hwr] at hw
    | ok ps =>
    simp only [hwc, hwr, ok_bind, pure, Except.pure] at hw
    cases hw
    unfold walk at hwc
    simp only [classify_key_value] at hwc
    cases hwk : walk env k with
    | error e => simp [hwk] at hwc
    | ok kt =>
    cases hwv : walk env v with
    | error e => simp [hwk, hwv] at hwc
    | ok vt =>
    simp only [hwk, hwv, ok_bind] at hwc
    obtain ⟨a, b, rfl, rfl, rfl⟩ := mkKeyValue_ok hwc
    have hka := walk_wf k _ hgk hG.1.2.1 hwk
    have hvb := walk_wf v _ hgv hG.1.2.2.1 hwv
    rw [wf_value] at hka hvb
    obtain ⟨kvs, hps, hok, hlen⟩ := walkKVs_wf cs ps hgcs hG.2 hwr
    exact ⟨(a, b) :: kvs, by simp [hps], by simp [hka, hvb, hok], by simp [hlen]⟩
  | .tok _ :: _, _, hg, _, _ => by simp [gramKVs] at hg
  | .none :: _, _, hg, _, _ => by simp [gramKVs] at hg
  | .node _ [] :: _, _, hg, _, _ => by simp [gramKVs] at hg
  | .node _ [_] :: _, _, hg, _, _ => by simp [gramKVs] at hg
  | .node _ (_ :: _ :: _ :: _) :: _, _, hg, _, _ => by simp [gramKVs] at hg
end

end main

/-! ## the two guards as one traversal -/

mutual
theorem guardsWf_of : ∀ c : Cst, noDunderCall c = true → floatsInScope c = true → guardsWf c = true
  | .tok t, _, h2 => by
    unfold floatsInScope at h2; rw [allP] at h2
    rw [guardsWf_tok]; exact h2
  | .none, _, _ => by unfold guardsWf; rw [allP]
  | .node r ch, h1, h2 => by
    unfold noDunderCall at h1; rw [allP, Bool.and_eq_true] at h1
    unfold floatsInScope at h2; rw [allP, Bool.and_eq_true] at h2
    rw [guardsWf_node, Bool.and_eq_true]
    exact ⟨h1.1, guardsWfL_of ch h1.2 h2.2⟩
theorem guardsWfL_of : ∀ cs : List Cst, allPL dunderNodeOk (fun _ => true) cs = true →
    allPL (fun _ _ => true) floatTokOk cs = true → guardsWfL cs = true
  | [], _, _ => guardsWfL_nil
  | c :: cs, h1, h2 => by
    rw [allPL, Bool.and_eq_true] at h1 h2
    rw [guardsWfL_cons, Bool.and_eq_true]
    exact ⟨guardsWf_of c h1.1 h2.1, guardsWfL_of cs h1.2 h2.2⟩
end

end DAVerif.C13W
