import DAVerif.Proofs.SqlReach
import DAVerif.Proofs.SqlMain
/-!
C01/C04, extend merge (`allow_extend_merges`): the invariant of **mergeable steps**.

* `termReads` – the columns of the FROM rows one SELECT-list entry reads; `termVal_reads`: the value of the entry
  only depends on these columns (for a window entry: of all FROM rows, in their order);
* `TermsOK sc ts ds` – what the term dictionary `ts` and the declared dependencies `ds` of a translated extend step
  over a sub-query bound with the columns `sc` mean;
* `MergeInv q` – every step that carries `mergeable = true` is a non-aggregating SELECT without suffix whose
  dictionaries satisfy `TermsOK`; preserved by `setTermKeys` (`select_columns` / `drop_columns` on the step);
* `nonTrivialTerms` (`mem_nonTrivialTerms`), the merged dictionaries (`mergeDict`, `lookupLast_mergeDict`).
-/
namespace DAVerif
namespace Sql
open DAVerif.Ops (usedFromSources unionL)

/-! ### what a SELECT-list entry reads -/

/-- the columns of the FROM rows the entry `k ↦ tm` reads: a pass-through entry its own column, an expression its
columns, a window expression also its partition and order columns -/
def termReads (k : String) : STerm → List String
  | .pass => [k]
  | .ident c => [c]
  | .expr t none => t.colsRaw
  | .expr t (some w) => t.colsRaw ++ (w.partition ++ w.order)
  | .coalesce _ c => [c]
  | .qual _ c => [c]

/-- a key without entry is rendered as the column of that name -/
def optReads (k : String) : Option STerm → List String
  | none => [k]
  | some tm => termReads k tm

/-- **The meaning of `termReads`.**  The value of a SELECT-list entry on a row only depends on the columns it reads:
if two lists of FROM rows agree, row by row, on a column set `R` that contains them, the entry has the same value on
corresponding rows (a window entry sees all the rows, in their order). -/
theorem termVal_reads (Θ : Interp) (ec : EngineCfg) {L L' : List Row} {R : List String} (k : String)
    (tm : Option STerm) (hR : ∀ x ∈ optReads k tm, x ∈ R)
    (h : L.map (fun r => r.select R) = L'.map (fun r => r.select R)) {ri ri' : Row × Nat}
    (hri : projIdx R ri = projIdx R ri') :
    termVal Θ ec L.zipIdx ri k tm = termVal Θ ec L'.zipIdx ri' k tm := by
  have hrow : ri.1.select R = ri'.1.select R := congrArg Prod.fst hri
  cases tm with
  | none => exact Row.get_of_select_eq hrow (hR k (by simp [optReads]))
  | some tm =>
    cases tm with
    | pass => exact Row.get_of_select_eq hrow (hR k (by simp [optReads, termReads]))
    | ident c => exact Row.get_of_select_eq hrow (hR c (by simp [optReads, termReads]))
    | coalesce _ c => exact Row.get_of_select_eq hrow (hR c (by simp [optReads, termReads]))
    | qual _ c => exact Row.get_of_select_eq hrow (hR c (by simp [optReads, termReads]))
    | expr t w =>
      cases w with
      | none =>
        exact evalCell_congr Θ t (fun c hc => Row.get_of_select_eq hrow (hR c (by simpa [optReads, termReads] using hc)))
      | some w =>
        obtain ⟨part, order, rev⟩ := w
        rw [termVal_win, termVal_win]
        have hR' : ∀ x, x ∈ t.colsRaw ∨ x ∈ part ∨ x ∈ order → x ∈ R := by
          intro x hx
          apply hR
          simpa [optReads, termReads] using hx
        exact winCell_transport (cmpCongr_sqlRowLe ec) Θ part order rev h (fun c hc => hR' c (Or.inr (Or.inl hc)))
          (fun c hc => hR' c (Or.inr (Or.inr hc))) t
          (fun c hc => hR' c (Or.inl (argCols_subset_colsRaw t c hc))) hri

/-! ### `non_trivial_terms` -/

theorem mem_nonTrivialTerms {ds : List (String × List String)} {ts : Terms} {k : String} :
    k ∈ nonTrivialTerms ds ts ↔ ∃ v, (k, v) ∈ ds ∧ k ∈ ts.map (·.1) ∧
      ((∃ x ∈ v, x ≠ k) ∨ k ∉ v ∨ ∃ t, lookupLast ts k = some t ∧ isPass t = false) := by
  unfold nonTrivialTerms
  simp only [List.mem_map, List.mem_filter, Bool.and_eq_true, List.any_eq_true, beq_iff_eq, Bool.or_eq_true,
    Bool.not_eq_eq_eq_not, Bool.not_true, List.isEmpty_eq_false_iff, List.contains_eq_mem, decide_eq_false_iff_not]
  constructor
  · rintro ⟨⟨k', v⟩, ⟨hmem, ⟨kv, hkv, hk⟩, hcond⟩, rfl⟩
    refine ⟨v, hmem, ⟨kv, hkv, hk⟩, ?_⟩
    rcases hcond with (h | h) | h
    · left
      obtain ⟨x, hx⟩ := List.exists_mem_of_ne_nil _ h
      have := List.mem_filter.mp hx
      exact ⟨x, this.1, by simpa using this.2⟩
    · right; left; exact h
    · right; right
      simp only at h
      cases hl : lookupLast ts k' with
      | none => rw [hl] at h; cases h
      | some t => rw [hl] at h; exact ⟨t, rfl, by simpa using h⟩
  · rintro ⟨v, hmem, ⟨kv, hkv, hk⟩, hcond⟩
    refine ⟨(k, v), ⟨hmem, ⟨kv, hkv, hk⟩, ?_⟩, rfl⟩
    rcases hcond with ⟨x, hx, hne⟩ | h | ⟨t, hl, hp⟩
    · left; left
      intro he
      have : x ∈ v.filter (fun c => c != k) := List.mem_filter.mpr ⟨hx, by simpa using hne⟩
      rw [he] at this
      cases this
    · left; right; exact h
    · right
      simp only [hl, hp, Bool.not_false]

/-! ### the invariant of mergeable steps -/

/-- **What the dictionaries of a translated extend step mean.**  `sc`: the columns the step's sub-query is bound
with (`NearSQLContainer.columns`), `ts`: the SELECT list (`terms`), `ds`: `declared_term_dependencies`.

`declared`: an entry that is not a bare pass-through is an expression or a window expression; its key has declared
dependencies; they contain every column the entry reads (for a window expression including the partition and
order columns).
`inSrc`: every entry only reads columns the sub-query is bound with; a pass-through entry reads the column of its
own name. -/
structure TermsOK (sc : List String) (ts : Terms) (ds : List (String × List String)) : Prop where
  declared : ∀ k t, lookupLast ts k = some t → isPass t = false →
    (∃ e w, t = STerm.expr e w) ∧ ∃ v, lookupLast ds k = some v ∧ ∀ x ∈ termReads k t, x ∈ v
  inSrc : ∀ k t, lookupLast ts k = some t → ∀ x ∈ termReads k t, x ∈ sc

/-- **The invariant of mergeable steps**: a step marked `mergeable` is a row-wise SELECT (no aggregation) without
WHERE / GROUP BY / ORDER BY, with a term dictionary, declared dependencies and a bound column list that satisfy
`TermsOK`.  (All its entries, window entries included, are evaluated over the rows of its FROM clause.) -/
def MergeInv (q : Near) : Prop :=
  ∀ nm ts agg sub sc sfx ds key, q = Near.unary nm ts agg sub sc sfx true ds key →
    agg = false ∧ sfx = Suffix.none ∧ ∃ ts' sc' ds', ts = some ts' ∧ sc = some sc' ∧ ds = some ds' ∧ TermsOK sc' ts' ds'

/-- the `mergeable` mark of a step -/
def Near.mergeFlag : Near → Bool
  | .unary _ _ _ _ _ _ mg _ _ => mg
  | _ => false

theorem mergeInv_of_flag {q : Near} (h : q.mergeFlag = false) : MergeInv q := by
  intro nm ts agg sub sc sfx ds key e
  subst e
  cases h

theorem mergeInv_unary {nm : String} {ts : Terms} {sub : Near} {sc : List String}
    {ds : List (String × List String)} {key : Option String} (h : TermsOK sc ts ds) :
    MergeInv (.unary nm (some ts) false sub (some sc) .none true (some ds) key) := by
  intro nm' ts' agg sub' sc' sfx ds' key' e
  cases e
  exact ⟨rfl, rfl, ts, sc, ds, rfl, rfl, rfl, h⟩

theorem TermsOK.restrict {sc : List String} {ts : Terms} {ds : List (String × List String)} (h : TermsOK sc ts ds)
    (ks : List String) :
    TermsOK sc (ks.filterMap (fun k => (lookupLast ts k).map (fun t => (k, t)))) ds := by
  refine ⟨?_, ?_⟩
  · intro k t hl hp
    rw [lookupLast_filterMap_keys] at hl
    split at hl
    · exact h.declared k t hl hp
    · cases hl
  · intro k t hl
    rw [lookupLast_filterMap_keys] at hl
    split at hl
    · exact h.inSrc k t hl
    · cases hl

/-- `select_columns` / `drop_columns` applied to a step (they prune or reorder its SELECT list and leave
`declared_term_dependencies` alone) keep the invariant -/
theorem mergeInv_setTermKeys {q q' : Near} {ks : List String} {sel : Bool} (hq : MergeInv q)
    (h : setTermKeys q ks sel = some q') : MergeInv q' := by
  cases q with
  | table n ts =>
    simp only [setTermKeys] at h
    split at h
    · cases h; exact hq
    · split at h
      · cases h; exact mergeInv_of_flag rfl
      · cases h
  | cte n => simp only [setTermKeys, Option.some.injEq] at h; subst h; exact hq
  | unary n ts agg sub sc sf mg deps key =>
    cases mg with
    | false =>
      apply mergeInv_of_flag
      cases ts with
      | none =>
        simp only [setTermKeys] at h
        split at h
        · cases h; rfl
        · split at h
          · cases h; rfl
          · cases h
      | some ts =>
        simp only [setTermKeys] at h
        split at h
        · cases h; rfl
        · split at h
          · cases h; rfl
          · cases h
    | true =>
      obtain ⟨rfl, rfl, ts', sc', ds', rfl, rfl, rfl, hok⟩ := hq _ _ _ _ _ _ _ _ rfl
      simp only [setTermKeys] at h
      split at h
      · cases h; exact mergeInv_unary hok
      · split at h
        · cases h; exact mergeInv_unary (hok.restrict ks)
        · cases h
  | join n ts l lc ln r rc rn jt oa ob key =>
    apply mergeInv_of_flag
    simp only [setTermKeys] at h
    split at h
    · cases h; rfl
    · split at h
      · cases h; rfl
      · cases h
  | union n ts l r cs key =>
    apply mergeInv_of_flag
    simp only [setTermKeys] at h
    split at h
    · cases h; rfl
    · split at h
      · cases h; rfl
      · cases h

/-! ### the merged dictionaries -/

/-- what the merge does to a dictionary of the sub step (`terms`, `declared_term_dependencies`): our non-trivial
entries are assigned (`subsql.terms[k] = terms[k]`), then the keys we do not use are deleted -/
def mergeDict {β : Type} (ourNT : List String) (ours sub : List (String × β)) (weUse : List String) :
    List (String × β) :=
  (ourNT.foldl (fun d k => match lookupLast ours k with | some t => dictSet d k t | none => d) sub).filter
    (fun kv => weUse.contains kv.1)

theorem lookupLast_mergeFold {β : Type} (ourNT : List String) (ours sub : List (String × β)) (c : String) :
    lookupLast (ourNT.foldl (fun d k => match lookupLast ours k with | some t => dictSet d k t | none => d) sub) c =
      (if c ∈ ourNT then lookupLast ours c else none).or (lookupLast sub c) := by
  induction ourNT generalizing sub with
  | nil => simp
  | cons k ks ih =>
    rw [List.foldl_cons, ih]
    have hstep : lookupLast (match lookupLast ours k with | some t => dictSet sub k t | none => sub) c =
        (if c = k then lookupLast ours c else none).or (lookupLast sub c) := by
      cases hk : lookupLast ours k with
      | none =>
        by_cases hc : c = k
        · subst hc; simp [hk]
        · simp [hc]
      | some t =>
        simp only [lookupLast_dictSet]
        by_cases hc : c = k
        · subst hc; simp [hk]
        · simp [hc]
    rw [hstep]
    by_cases h1 : c ∈ ks
    · by_cases h2 : c = k
      · subst h2
        cases lookupLast ours c <;> simp [h1]
      · simp [h1, h2]
    · by_cases h2 : c = k
      · subst h2; simp [h1]
      · simp [h1, h2]

theorem lookupLast_mergeDict {β : Type} (ourNT : List String) (ours sub : List (String × β)) (weUse : List String)
    (c : String) :
    lookupLast (mergeDict ourNT ours sub weUse) c =
      if c ∈ weUse then (if c ∈ ourNT then lookupLast ours c else none).or (lookupLast sub c) else none := by
  unfold mergeDict
  rw [lookupLast_filter_key _ (fun k => weUse.contains k), lookupLast_mergeFold]
  simp only [List.contains_eq_mem, decide_eq_true_eq]

end Sql
end DAVerif
