import DAVerif.Proofs.SolRank
import DAVerif.Proofs.SolReplicate
import DAVerif.Proofs.SolLocfCore
/-!
`last_observed_carried_forward` fills each missing value with the latest earlier non-missing value of its partition
(proof for the Pandas configuration of the executor model).

Stages (rows addressed by position `j < n`):

1. `use j` = `v.is_null().where(0, 1)`: 0 for a missing value, 1 otherwise;
2. `tb j`  = `_row_number()` over the whole table ordered by `partition_by ++ order_by`: distinct numbers;
3. `rank j` = `use.cumsum()` per partition ordered by `order_by ++ [tb]`: the number of non-missing values of the
   partition at or before `j` (`Locf.cnt`);
4. left join with the non-missing rows on `partition_by ++ [rank]`: a row meets the non-missing row of its partition
   with the same count – itself if its value is present, else the latest earlier one (`SolLocfCore`).
-/
namespace DAVerif.Sol
open DAVerif DAVerif.Solutions DAVerif.Spec21

/-! ### sorted prefixes -/

/-- in a duplicate-free list sorted by a total order, the prefix up to and including `x` consists of the elements
that `x` is not strictly before -/
theorem prefix_eq_filter_split {α : Type} (le : α → α → Bool) (a : List α) (x : α) (b : List α)
    (hpw : (a ++ x :: b).Pairwise (fun u v => le u v = true))
    (hanti : ∀ u ∈ a ++ x :: b, ∀ v ∈ a ++ x :: b, le u v = true → le v u = true → u = v)
    (hnd : (a ++ x :: b).Nodup) :
    (a ++ x :: b).filter (fun y => !(le x y && !le y x)) = a ++ [x] := by
  obtain ⟨_, hxb, hax⟩ := List.pairwise_append.mp hpw
  have hxb' := (List.pairwise_cons.mp hxb).1
  have hndx : x ∉ a := by
    intro hx
    exact (List.nodup_append.mp hnd).2.2 x hx x List.mem_cons_self rfl
  have hndb : x ∉ b := by
    have := (List.nodup_append.mp hnd).2.1
    exact (List.nodup_cons.mp this).1
  rw [List.filter_append, List.filter_cons]
  have h1 : a.filter (fun y => !(le x y && !le y x)) = a := by
    rw [List.filter_eq_self]
    intro y hy
    have hyx : le y x = true := hax y hy x List.mem_cons_self
    simp [hyx]
  have h2 : b.filter (fun y => !(le x y && !le y x)) = [] := by
    rw [List.filter_eq_nil_iff]
    intro y hy
    have hxy : le x y = true := hxb' y hy
    have hne : x ≠ y := fun e => hndb (e ▸ hy)
    have hyx : le y x = false := by
      cases h : le y x with
      | false => rfl
      | true =>
        exact absurd (hanti x (List.mem_append_right _ List.mem_cons_self) y
          (List.mem_append_right _ (List.mem_cons_of_mem _ hy)) hxy h) hne
    simp [hxy, hyx]
  have h3 : (!(le x x && !le x x)) = true := by cases le x x <;> rfl
  rw [h1, h2, h3]
  rfl

theorem take_succ_eq_filter {α : Type} (le : α → α → Bool) (l : List α) (k : Nat) (hk : k < l.length) (x : α)
    (hx : l[k] = x) (hpw : l.Pairwise (fun u v => le u v = true))
    (hanti : ∀ u ∈ l, ∀ v ∈ l, le u v = true → le v u = true → u = v) (hnd : l.Nodup) :
    l.take (k + 1) = l.filter (fun y => !(le x y && !le y x)) := by
  have hsplit : l = l.take k ++ x :: l.drop (k + 1) := by
    rw [← hx, List.getElem_cons_drop hk, List.take_append_drop]
  have htake : l.take (k + 1) = l.take k ++ [x] := by
    rw [List.take_succ_eq_append_getElem hk, hx]
  rw [htake]
  have hpw' := hpw
  have hanti' := hanti
  have hnd' := hnd
  rw [hsplit] at hpw' hanti' hnd'
  have := prefix_eq_filter_split le _ _ _ hpw' hanti' hnd'
  rw [← hsplit] at this
  exact this.symm

/-! ### running sums of 0/1 flags -/

theorem int_zero_cast : ((0 : Int) : Rat) = 0 := by norm_cast
theorem int_one_cast : ((1 : Int) : Rat) = 1 := by norm_cast

/-- the cell `v.is_null().where(0, 1)` -/
def flagVal (b : Bool) : Val := if b then Val.num ((1 : Int) : Rat) else Val.num ((0 : Int) : Rat)

theorem nums_flags {α : Type} (l : List α) (p : α → Bool) :
    Theta.nums (l.map (fun y => flagVal (p y))) = l.map (fun y => if p y then (1 : Rat) else 0) := by
  induction l with
  | nil => rfl
  | cons a l ih =>
    simp only [Theta.nums, List.map_cons, List.filterMap_cons] at ih ⊢
    cases h : p a
    · simp only [flagVal, Bool.false_eq_true, if_false, Theta.num?, int_zero_cast]
      rw [← ih]; rfl
    · simp only [flagVal, if_true, Theta.num?, int_one_cast]
      rw [← ih]; rfl

theorem foldl_flags {α : Type} (l : List α) (p : α → Bool) (a : Rat) :
    (l.map (fun y => if p y then (1 : Rat) else 0)).foldl (· + ·) a = a + ((l.countP p : Nat) : Rat) := by
  induction l generalizing a with
  | nil => simp [Rat.add_zero]
  | cons x l ih =>
    simp only [List.map_cons, List.foldl_cons, ih, List.countP_cons]
    cases h : p x
    · simp only [Bool.false_eq_true, if_false, Nat.add_zero]
      grind
    · simp only [if_true, Rat.natCast_add]
      have : ((1 : Nat) : Rat) = 1 := rfl
      rw [this]
      grind

/-- `cumsum` over a window of 0/1 flags: the number of flags set up to the position -/
theorem cumulate_flags {α : Type} (l : List α) (p : α → Bool) (pos : Nat) (h : pos < l.length) :
    Theta.cumulate (· + ·) (l.map (fun y => flagVal (p y))) pos
      = Val.num (((l.take (pos + 1)).countP p : Nat) : Rat) := by
  unfold Theta.cumulate
  have h1 : (l.map (fun y => flagVal (p y))).getD pos Val.null = flagVal (p l[pos]) := by
    rw [getD_eq _ (by simpa using h)]; simp
  rw [h1]
  have h2 : (match flagVal (p l[pos]) with
      | Val.null => Val.null
      | _ => (match Theta.nums ((l.map (fun y => flagVal (p y))).take (pos + 1)) with
        | [] => Val.null
        | x :: xs => Val.num (xs.foldl (· + ·) x)))
      = (match Theta.nums ((l.map (fun y => flagVal (p y))).take (pos + 1)) with
        | [] => Val.null
        | x :: xs => Val.num (xs.foldl (· + ·) x)) := by
    cases p l[pos] <;> rfl
  refine h2.trans ?_
  rw [← List.map_take, nums_flags]
  cases ht : l.take (pos + 1) with
  | nil =>
    have := congrArg List.length ht
    rw [List.length_take] at this
    simp only [List.length_nil] at this
    omega
  | cons x xs =>
    simp only [List.map_cons]
    have := foldl_flags xs p (if p x then (1 : Rat) else 0)
    rw [this, List.countP_cons]
    congr 1
    cases p x
    · simp only [Bool.false_eq_true, if_false, Nat.add_zero]; grind
    · simp only [if_true, Rat.natCast_add]
      have : ((1 : Nat) : Rat) = 1 := rfl
      rw [this]; grind

/-! ### lists by position -/

theorem list_eq_map_range (l : List Row) : l = (List.range l.length).map (fun j => l.getD j []) := by
  have := zipIdx_eq_map_range l
  have h2 := congrArg (List.map Prod.fst) this
  rw [List.zipIdx_map_fst, List.map_map] at h2
  exact h2

theorem filter_eq_map_range (l : List Row) (p : Row → Bool) :
    l.filter p = ((List.range l.length).filter (fun j => p (l.getD j []))).map (fun j => l.getD j []) := by
  conv => lhs; rw [list_eq_map_range l]
  rw [List.filter_map]
  rfl

/-! ### the rows of a left join with equal key names (Pandas configuration: missing keys match) -/

theorem semJoin_left_rows (K : List String) (hK : K ≠ []) (ta tb : Table) (oc : List String) :
    (semJoin SemCfg.pandas .left K K ta tb oc).rows =
      ta.rows.flatMap (fun ra => (tb.rows.filter (fun rb => keyOf ra K == keyOf rb K)).map
        (fun rb => joinRow ta.cols tb.cols oc (some ra) (some rb)))
      ++ (ta.rows.filter (fun ra => !(tb.rows.any (fun rb => keyOf ra K == keyOf rb K)))).map
        (fun ra => joinRow ta.cols tb.cols oc (some ra) none) := by
  have hne : K.isEmpty = false := by
    cases K with
    | nil => exact absurd rfl hK
    | cons a l => rfl
  have h1 : (JoinType.left == JoinType.cross) = false := by decide
  have h2 : (JoinType.left == JoinType.left) = true := by decide
  have h3 : (JoinType.left == JoinType.right) = false := by decide
  have h4 : (JoinType.left == JoinType.full) = false := by decide
  have h5 : (JoinType.left == JoinType.outer) = false := by decide
  simp only [semJoin, h1, h2, h3, h4, h5, hne, Bool.false_or, Bool.or_false, Bool.false_and, keyMatch, SemCfg.pandas,
    Bool.true_or, Bool.and_true, if_true, Bool.false_eq_true, if_false, List.append_nil, Bool.or_self]

/-! ### the order (order_by, tie breaker) on row positions -/

/-- position `k` comes strictly before position `i`: earlier in `order_by`, or tied there and with the smaller
tie-breaking number -/
def beforeI (ob : List String) (rows0 : List Row) (T : Nat → Nat) (k i : Nat) : Bool :=
  ltO ob rows0 k i || (tieO ob rows0 k i && decide (T k < T i))

theorem tieO_iff {ob : List String} {rows0 : List Row} {k i : Nat} :
    tieO ob rows0 k i = true ↔ ∀ c ∈ ob, (rows0.getD k []).get c = (rows0.getD i []).get c := by
  simp only [tieO, beq_iff_eq, keyOf_eq_iff]

theorem tieO_iff_le {ob : List String} {rows0 : List Row} {k i : Nat} :
    tieO ob rows0 k i = true ↔
      (rowLe ob [] (rows0.getD k []) (rows0.getD i []) = true ∧ rowLe ob [] (rows0.getD i []) (rows0.getD k []) = true) := by
  simp only [tieO, beq_iff_eq]
  exact (tie_iff_keyOf ob [] _ _).symm

theorem ltO_congr_right {ob : List String} {rows0 : List Row} {i j k : Nat} (h : tieO ob rows0 j k = true) :
    ltO ob rows0 i j = ltO ob rows0 i k := by
  have hg := tieO_iff.mp h
  simp only [ltO]
  rw [rowLe_congr (fun _ _ => rfl) hg, rowLe_congr hg (fun _ _ => rfl)]

theorem ltO_congr_left {ob : List String} {rows0 : List Row} {i j k : Nat} (h : tieO ob rows0 i j = true) :
    ltO ob rows0 i k = ltO ob rows0 j k := by
  have hg := tieO_iff.mp h
  simp only [ltO]
  rw [rowLe_congr hg (fun _ _ => rfl), rowLe_congr (fun _ _ => rfl) hg]

theorem tieO_trans {ob : List String} {rows0 : List Row} {i j k : Nat} (h1 : tieO ob rows0 i j = true)
    (h2 : tieO ob rows0 j k = true) : tieO ob rows0 i k = true := by
  simp only [tieO, beq_iff_eq] at h1 h2 ⊢
  exact h1.trans h2

theorem tieO_symm {ob : List String} {rows0 : List Row} {i j : Nat} (h : tieO ob rows0 i j = true) :
    tieO ob rows0 j i = true := by
  simp only [tieO, beq_iff_eq] at h ⊢
  exact h.symm

theorem ltO_trans {ob : List String} {rows0 : List Row} {i j k : Nat} (h1 : ltO ob rows0 i j = true)
    (h2 : ltO ob rows0 j k = true) : ltO ob rows0 i k = true := by
  simp only [ltO, Bool.and_eq_true, Bool.not_eq_true'] at h1 h2 ⊢
  refine ⟨rowLe_trans h1.1 h2.1, ?_⟩
  cases h : rowLe ob [] (rows0.getD k []) (rows0.getD i []) with
  | false => rfl
  | true =>
    have := rowLe_trans h h1.1
    rw [h2.2] at this
    cases this

theorem ltO_irrefl (ob : List String) (rows0 : List Row) (i : Nat) : ltO ob rows0 i i = false := by
  simp [ltO, rowLe_refl]

/-- `beforeI` is a strict total order on the positions when the tie-breaking numbers are different -/
theorem ord_beforeI (ob part : List String) (rows0 : List Row) (T : Nat → Nat)
    (hT : ∀ j k, j < rows0.length → k < rows0.length → T j = T k → j = k) :
    Locf.Ord rows0.length (beforeI ob rows0 T) (sameP part rows0) where
  irrefl := by
    intro i
    simp [beforeI, ltO_irrefl]
  trans := by
    intro i j k _ _ _ h1 h2
    simp only [beforeI, Bool.or_eq_true, Bool.and_eq_true, decide_eq_true_eq] at h1 h2 ⊢
    rcases h1 with h1 | ⟨t1, l1⟩
    · rcases h2 with h2 | ⟨t2, _⟩
      · exact Or.inl (ltO_trans h1 h2)
      · exact Or.inl (by rw [← ltO_congr_right t2]; exact h1)
    · rcases h2 with h2 | ⟨t2, l2⟩
      · exact Or.inl (by rw [ltO_congr_left t1]; exact h2)
      · exact Or.inr ⟨tieO_trans t1 t2, by omega⟩
  total := by
    intro i j hi hj hne
    simp only [beforeI, Bool.or_eq_true, Bool.and_eq_true, decide_eq_true_eq]
    by_cases ht : tieO ob rows0 i j = true
    · have hne' : T i ≠ T j := fun e => hne (hT i j hi hj e)
      rcases Nat.lt_or_gt_of_ne hne' with h | h
      · exact Or.inl (Or.inr ⟨ht, h⟩)
      · exact Or.inr (Or.inr ⟨tieO_symm ht, h⟩)
    · have htot := rowLe_total ob [] (rows0.getD i []) (rows0.getD j [])
      simp only [Bool.or_eq_true] at htot
      have hnt : ¬ (rowLe ob [] (rows0.getD i []) (rows0.getD j []) = true ∧
          rowLe ob [] (rows0.getD j []) (rows0.getD i []) = true) := fun h => ht (tieO_iff_le.mpr h)
      rcases htot with h | h
      · left; left
        simp only [ltO, Bool.and_eq_true, Bool.not_eq_true']
        refine ⟨h, ?_⟩
        cases h' : rowLe ob [] (rows0.getD j []) (rows0.getD i []) with
        | false => rfl
        | true => exact absurd ⟨h, h'⟩ hnt
      · right; left
        simp only [ltO, Bool.and_eq_true, Bool.not_eq_true']
        refine ⟨h, ?_⟩
        cases h' : rowLe ob [] (rows0.getD i []) (rows0.getD j []) with
        | false => rfl
        | true => exact absurd ⟨h', h⟩ hnt
  prefl := by intro i; simp [sameP]
  psymm := by
    intro i j h
    simp only [sameP, beq_iff_eq] at h ⊢
    exact h.symm
  ptrans := by
    intro i j k h1 h2
    simp only [sameP, beq_iff_eq] at h1 h2 ⊢
    exact h1.trans h2

/-- rows that carry the tie-breaking number `T j` in column `tb` and agree with the input rows on `order_by`:
strictly before on `order_by ++ [tb]` is `beforeI` -/
theorem strict_tb_eq {ob : List String} {tb : String} {rows0 R : List Row} {T : Nat → Nat} {k j : Nat}
    (hk : ∀ c ∈ ob, (R.getD k []).get c = (rows0.getD k []).get c)
    (hj : ∀ c ∈ ob, (R.getD j []).get c = (rows0.getD j []).get c)
    (htk : (R.getD k []).get tb = Val.num ((T k : Nat) : Rat))
    (htj : (R.getD j []).get tb = Val.num ((T j : Nat) : Rat)) :
    (rowLe (ob ++ [tb]) [] (R.getD k []) (R.getD j []) && !rowLe (ob ++ [tb]) [] (R.getD j []) (R.getD k []))
      = beforeI ob rows0 T k j := by
  have ek : keyOf (R.getD k []) ob = keyOf (rows0.getD k []) ob := keyOf_congr hk
  have ej : keyOf (R.getD j []) ob = keyOf (rows0.getD j []) ob := keyOf_congr hj
  have c1 : rowLe ob [] (R.getD k []) (R.getD j []) = rowLe ob [] (rows0.getD k []) (rows0.getD j []) :=
    rowLe_congr hk hj
  have c2 : rowLe ob [] (R.getD j []) (R.getD k []) = rowLe ob [] (rows0.getD j []) (rows0.getD k []) :=
    rowLe_congr hj hk
  have t1 := rowLe_single_num tb _ _ _ _ htk htj
  have t2 := rowLe_single_num tb _ _ _ _ htj htk
  rw [rowLe_append, rowLe_append, ek, ej, c1, c2, t1, t2, beforeI]
  by_cases ht : keyOf (rows0.getD k []) ob = keyOf (rows0.getD j []) ob
  · have htt : tieO ob rows0 k j = true := by simpa [tieO] using ht
    have hl : ltO ob rows0 k j = false := by
      cases h : ltO ob rows0 k j with
      | false => rfl
      | true =>
        have := tieO_iff_le.mp htt
        simp only [ltO, Bool.and_eq_true, Bool.not_eq_true'] at h
        rw [this.2] at h
        exact absurd h.2 (by simp)
    rw [if_pos ht, if_pos ht.symm, hl, htt]
    simp only [Bool.true_and, Bool.false_or]
    exact decide_le_not_le _ _
  · have ht' : ¬ keyOf (rows0.getD j []) ob = keyOf (rows0.getD k []) ob := fun e => ht e.symm
    have : tieO ob rows0 k j = false := by simpa [tieO] using ht
    rw [if_neg ht, if_neg ht', this]
    simp only [Bool.false_and, Bool.or_false, ltO]

/-! ### the stages as functions of the row position -/

/-- the helper's side conditions, plus: `order_by` and `partition_by` name columns of the table (they could also
name the helper's own temporary columns, which the builders would accept; the documentation means table columns) -/
structure LocfCtx (cols ob part : List String) (v use rk tb : String) : Prop extends LocfOK cols ob part v use rk tb where
  ob_sub : ∀ c ∈ ob, c ∈ cols
  part_sub : ∀ c ∈ part, c ∈ cols

/-- the value at position `j` is not missing -/
def nnI (v : String) (rows0 : List Row) (j : Nat) : Bool := !((rows0.getD j []).get v).isNull

def rowsA (cols : List String) (v use : String) (rows0 : List Row) : List Row :=
  addCol (cols ++ [use]) use (fun j => flagVal (nnI v rows0 j)) rows0

/-- the helper's tie-breaking row number of position `j` -/
def tbA (cols ob part : List String) (v use : String) (rows0 : List Row) (j : Nat) : Nat :=
  rk1 (part ++ ob) (rowsA cols v use rows0) j

def rowsB (cols ob part : List String) (v use tb : String) (rows0 : List Row) : List Row :=
  addCol (cols ++ [use, tb]) tb (fun j => Val.num ((tbA cols ob part v use rows0 j : Nat) : Rat)) (rowsA cols v use rows0)

/-- the number of non-missing values of `j`'s partition at or before `j` -/
def cntI (cols ob part : List String) (v use : String) (rows0 : List Row) (j : Nat) : Nat :=
  Locf.cnt rows0.length (beforeI ob rows0 (tbA cols ob part v use rows0)) (sameP part rows0) (nnI v rows0) j

def rowsC (cols ob part : List String) (v use rk tb : String) (rows0 : List Row) : List Row :=
  addCol (cols ++ [use, tb, rk]) rk (fun j => Val.num ((cntI cols ob part v use rows0 j : Nat) : Rat))
    (rowsB cols ob part v use tb rows0)

set_option linter.unusedSectionVars false
section
variable {cols ob part : List String} {v use rk tb : String} (hc : LocfCtx cols ob part v use rk tb)
  (rows0 : List Row)
include hc

theorem length_rowsA : (rowsA cols v use rows0).length = rows0.length := by simp [rowsA]
theorem length_rowsB : (rowsB cols ob part v use tb rows0).length = rows0.length := by simp [rowsB, rowsA]
theorem length_rowsC : (rowsC cols ob part v use rk tb rows0).length = rows0.length := by simp [rowsC, rowsB, rowsA]

theorem ne_use {c : String} (h : c ∈ cols) : c ≠ use := fun e => hc.use_new (e ▸ h)
theorem ne_tb {c : String} (h : c ∈ cols) : c ≠ tb := fun e => hc.tb_new (e ▸ h)
theorem ne_rk {c : String} (h : c ∈ cols) : c ≠ rk := fun e => hc.rk_new (e ▸ h)

theorem get_rowsA {j : Nat} (hj : j < rows0.length) {c : String} (h : c ∈ cols) :
    ((rowsA cols v use rows0).getD j []).get c = (rows0.getD j []).get c := by
  rw [rowsA, get_addCol _ _ _ _ _ hj (List.mem_append_left _ h)]
  simp [ne_use hc h]

theorem get_rowsA_use {j : Nat} (hj : j < rows0.length) :
    ((rowsA cols v use rows0).getD j []).get use = flagVal (nnI v rows0 j) := by
  rw [rowsA, get_addCol _ _ _ _ _ hj (by simp)]
  simp

theorem get_rowsB {j : Nat} (hj : j < rows0.length) {c : String} (h : c ∈ cols) :
    ((rowsB cols ob part v use tb rows0).getD j []).get c = (rows0.getD j []).get c := by
  rw [rowsB, get_addCol _ _ _ _ _ (by rw [length_rowsA hc]; exact hj) (List.mem_append_left _ h)]
  simp only [ne_tb hc h, if_false]
  exact get_rowsA hc rows0 hj h

theorem get_rowsB_use {j : Nat} (hj : j < rows0.length) :
    ((rowsB cols ob part v use tb rows0).getD j []).get use = flagVal (nnI v rows0 j) := by
  rw [rowsB, get_addCol _ _ _ _ _ (by rw [length_rowsA hc]; exact hj) (by simp)]
  simp only [hc.use_ne_tb, if_false]
  exact get_rowsA_use hc rows0 hj

theorem get_rowsB_tb {j : Nat} (hj : j < rows0.length) :
    ((rowsB cols ob part v use tb rows0).getD j []).get tb
      = Val.num ((tbA cols ob part v use rows0 j : Nat) : Rat) := by
  rw [rowsB, get_addCol _ _ _ _ _ (by rw [length_rowsA hc]; exact hj) (by simp)]
  simp

theorem get_rowsC {j : Nat} (hj : j < rows0.length) {c : String} (h : c ∈ cols) :
    ((rowsC cols ob part v use rk tb rows0).getD j []).get c = (rows0.getD j []).get c := by
  rw [rowsC, get_addCol _ _ _ _ _ (by rw [length_rowsB hc]; exact hj) (List.mem_append_left _ h)]
  simp only [ne_rk hc h, if_false]
  exact get_rowsB hc rows0 hj h

theorem get_rowsC_use {j : Nat} (hj : j < rows0.length) :
    ((rowsC cols ob part v use rk tb rows0).getD j []).get use = flagVal (nnI v rows0 j) := by
  rw [rowsC, get_addCol _ _ _ _ _ (by rw [length_rowsB hc]; exact hj) (by simp)]
  simp only [hc.use_ne_rk, if_false]
  exact get_rowsB_use hc rows0 hj

theorem get_rowsC_rk {j : Nat} (hj : j < rows0.length) :
    ((rowsC cols ob part v use rk tb rows0).getD j []).get rk
      = Val.num ((cntI cols ob part v use rows0 j : Nat) : Rat) := by
  rw [rowsC, get_addCol _ _ _ _ _ (by rw [length_rowsB hc]; exact hj) (by simp)]
  simp

/-- the tie-breaking numbers of different positions differ -/
theorem tbA_inj {j k : Nat} (hj : j < rows0.length) (hk : k < rows0.length)
    (h : tbA cols ob part v use rows0 j = tbA cols ob part v use rows0 k) : j = k := by
  by_cases e : j = k
  · exact e
  · exfalso
    have hjA : j < (rowsA cols v use rows0).length := by rw [length_rowsA hc]; exact hj
    have hkA : k < (rowsA cols v use rows0).length := by rw [length_rowsA hc]; exact hk
    have := winPos_ne (p := []) (o := part ++ ob) (rv := []) hjA hkA rfl e
    simp only [tbA, rk1] at h
    omega

theorem ordI : Locf.Ord rows0.length (beforeI ob rows0 (tbA cols ob part v use rows0)) (sameP part rows0) :=
  ord_beforeI ob part rows0 _ (fun j k hj hk h => tbA_inj hc rows0 hj hk h)

/-- the window order of the `cumsum` step is total -/
theorem totalB (j : Nat) : ∀ a ∈ winPart part (rowsB cols ob part v use tb rows0) j,
    ∀ b ∈ winPart part (rowsB cols ob part v use tb rows0) j,
      rowLe (ob ++ [tb]) [] a.1 b.1 = true → rowLe (ob ++ [tb]) [] b.1 a.1 = true → a = b := by
  intro a ha b hb h1 h2
  have ha' := (mem_winPart.mp ha).1
  have hb' := (mem_winPart.mp hb).1
  obtain ⟨ra, ja⟩ := a
  obtain ⟨rb, jb⟩ := b
  obtain ⟨ea, hja⟩ := getD_of_mem_zipIdx ha'
  obtain ⟨eb, hjb⟩ := getD_of_mem_zipIdx hb'
  rw [length_rowsB hc] at hja hjb
  have htie := (rowLe_tie_iff (ob ++ [tb]) [] ra rb).mp ⟨h1, h2⟩ tb (by simp)
  rw [← ea, ← eb, get_rowsB_tb hc rows0 hja, get_rowsB_tb hc rows0 hjb] at htie
  have : tbA cols ob part v use rows0 ja = tbA cols ob part v use rows0 jb := by
    have := Val.num.inj htie
    exact_mod_cast this
  exact zipIdx_snd_inj ha' hb' (tbA_inj hc rows0 hja hjb this)

/-- **The `cumsum` step counts the non-missing values at or before each position.** -/
theorem cumsum_eq_cnt (cv : RecMap → Table → Except Err Table) {j : Nat} (hj : j < rows0.length) :
    winVal (Theta.concrete cv) (mcall "cumsum" (.col use)) part (ob ++ [tb]) []
      (rowsB cols ob part v use tb rows0) j
      = Val.num ((cntI cols ob part v use rows0 j : Nat) : Rat) := by
  have hjB : j < (rowsB cols ob part v use tb rows0).length := by rw [length_rowsB hc]; exact hj
  simp only [winVal]
  have h1 : opName (mcall "cumsum" (.col use)) = "cumsum" := rfl
  have h2 : constArgs (mcall "cumsum" (.col use)) = [] := rfl
  have h3 : ∀ rows : List Row, argValues (mcall "cumsum" (.col use)) rows = rows.map (fun r => r.get use) :=
    fun _ => rfl
  rw [h1, h2, h3, List.map_map]
  have hwin : ∀ (cargs vs : List Val) (pos : Nat),
      (Theta.concrete cv).win "cumsum" cargs vs pos = Theta.cumulate (· + ·) vs pos := fun _ _ _ => rfl
  rw [hwin]
  -- the flags of the sorted window
  have hflags : (winSorted part (ob ++ [tb]) [] (rowsB cols ob part v use tb rows0) j).map
      ((fun r : Row => r.get use) ∘ fun x => x.1)
      = (winSorted part (ob ++ [tb]) [] (rowsB cols ob part v use tb rows0) j).map
          (fun y => flagVal (nnI v rows0 y.2)) := by
    apply List.map_congr_left
    intro y hy
    have hy' := (mem_winPart.mp ((winSorted_perm _ _ _ _ _).mem_iff.mp hy)).1
    obtain ⟨r, k⟩ := y
    obtain ⟨e, hk⟩ := getD_of_mem_zipIdx hy'
    rw [length_rowsB hc] at hk
    simp only [Function.comp]
    rw [← e, get_rowsB_use hc rows0 hk]
  rw [hflags, cumulate_flags _ (fun y => nnI v rows0 y.2) _ (winPos_lt hjB)]
  congr 2
  -- the prefix of the sorted window = the rows that `j` is not strictly before
  have hpw := winSorted_pairwise part (ob ++ [tb]) [] (rowsB cols ob part v use tb rows0) j
  have hperm := winSorted_perm part (ob ++ [tb]) [] (rowsB cols ob part v use tb rows0) j
  have hnd : (winSorted part (ob ++ [tb]) [] (rowsB cols ob part v use tb rows0) j).Nodup :=
    hperm.nodup_iff.mpr ((zipIdx_nodup _).filter _)
  have hanti : ∀ u ∈ winSorted part (ob ++ [tb]) [] (rowsB cols ob part v use tb rows0) j,
      ∀ w ∈ winSorted part (ob ++ [tb]) [] (rowsB cols ob part v use tb rows0) j,
      rowLe (ob ++ [tb]) [] u.1 w.1 = true → rowLe (ob ++ [tb]) [] w.1 u.1 = true → u = w :=
    fun u hu w hw => totalB hc rows0 j u (hperm.mem_iff.mp hu) w (hperm.mem_iff.mp hw)
  rw [take_succ_eq_filter (fun (a b : Row × Nat) => rowLe (ob ++ [tb]) [] a.1 b.1) _ _ (winPos_lt hjB) _
    (winSorted_getElem_winPos hjB) hpw hanti hnd]
  rw [List.countP_filter, hperm.countP_eq, countP_winPart, length_rowsB hc, cntI, Locf.cnt]
  apply countP_congr_mem
  intro k hk
  have hk := List.mem_range.mp hk
  simp only [sameP]
  rw [keyOf_congr (fun c hcc => get_rowsB hc rows0 hk (hc.part_sub c hcc)),
    keyOf_congr (fun c hcc => get_rowsB hc rows0 hj (hc.part_sub c hcc))]
  have hs := strict_tb_eq (ob := ob) (tb := tb) (rows0 := rows0) (R := rowsB cols ob part v use tb rows0)
    (T := tbA cols ob part v use rows0) (k := j) (j := k)
    (fun c hcc => get_rowsB hc rows0 hj (hc.ob_sub c hcc)) (fun c hcc => get_rowsB hc rows0 hk (hc.ob_sub c hcc))
    (get_rowsB_tb hc rows0 hj) (get_rowsB_tb hc rows0 hk)
  rw [hs, Bool.and_assoc]

end

/-! ### the join with the non-missing rows -/

theorem any_eq_filter_nonempty {α : Type} (l : List α) (p : α → Bool) : l.any p = !(l.filter p).isEmpty := by
  induction l with
  | nil => rfl
  | cons a l ih =>
    simp only [List.any_cons, List.filter_cons, ih]
    cases p a <;> simp

theorem appendNew_of_subset {xs ys : List String} (h : ∀ y ∈ ys, y ∈ xs) : appendNew xs ys = xs := by
  induction ys generalizing xs with
  | nil => rfl
  | cons y ys ih =>
    have hy : xs.contains y = true := by simpa using h y List.mem_cons_self
    simp only [appendNew, List.foldl_cons, hy, if_true]
    exact ih (fun z hz => h z (List.mem_cons_of_mem _ hz))

theorem keys_set_of_mem (r : Row) (c : String) (x : Val) (h : c ∈ r.keys) : (r.set c x).keys = r.keys := by
  induction r with
  | nil => cases h
  | cons kv r ih =>
    obtain ⟨k, y⟩ := kv
    simp only [Row.set]
    by_cases e : k = c
    · subst e; simp [Row.keys]
    · have : (k == c) = false := by simpa using e
      simp only [this, Bool.false_eq_true, if_false, Row.keys, List.map_cons]
      have hc' : c ∈ Row.keys r := by
        simp only [Row.keys, List.map_cons, List.mem_cons] at h
        rcases h with h | h
        · exact absurd h.symm e
        · exact h
      have := ih hc'
      simp only [Row.keys] at this
      rw [this]

/-- the `use == 1` filter keeps the rows whose flag is set -/
theorem eval_use_eq_one (cv : RecMap → Table → Except Err Table) (use : String) (r : Row) (b : Bool)
    (h : r.get use = flagVal b) :
    (evalCell (Theta.concrete cv) r (binop "==" (.col use) (.value (.int 1))) == Val.bool true) = b := by
  have : evalCell (Theta.concrete cv) r (binop "==" (.col use) (.value (.int 1)))
      = Theta.scalar "==" [ArgV.v (r.get use), ArgV.v (Val.num ((1 : Int) : Rat))] := rfl
  rw [this, h]
  cases b <;> decide +kernel

theorem eval_use_term (cv : RecMap → Table → Except Err Table) (v : String) (r : Row) :
    evalCell (Theta.concrete cv) r (useTerm v) = flagVal (!(r.get v).isNull) := by
  have : evalCell (Theta.concrete cv) r (useTerm v)
      = Theta.scalar "where" [ArgV.v (Theta.scalar "is_null" [ArgV.v (r.get v)]),
          ArgV.v (Val.num ((0 : Int) : Rat)), ArgV.v (Val.num ((1 : Int) : Rat))] := rfl
  rw [this]
  cases r.get v <;> rfl

set_option linter.unusedSectionVars false
section
variable {cols ob part : List String} {v use rk tb : String} (hc : LocfCtx cols ob part v use rk tb)
  (rows0 : List Row)
include hc

/-- positions of the non-missing rows of `i`'s partition with the same count as `i` -/
def hitsI (cols ob part : List String) (v use : String) (rows0 : List Row) (i : Nat) : List Nat :=
  Locf.hits rows0.length (beforeI ob rows0 (tbA cols ob part v use rows0)) (sameP part rows0) (nnI v rows0) i

/-- the non-missing rows, restricted to the join columns (the `b` side of the join) -/
def rowsSel (cols ob part : List String) (v use rk tb : String) (rows0 : List Row) : List Row :=
  ((List.range rows0.length).filter (nnI v rows0)).map
    (fun j => ((rowsC cols ob part v use rk tb rows0).getD j []).select (part ++ [rk, v]))

theorem keyOf_rowsC_K {j : Nat} (hj : j < rows0.length) :
    keyOf ((rowsC cols ob part v use rk tb rows0).getD j []) (part ++ [rk])
      = keyOf (rows0.getD j []) part ++ [Val.num ((cntI cols ob part v use rows0 j : Nat) : Rat)] := by
  rw [keyOf_append, keyOf_congr (fun c hcc => get_rowsC hc rows0 hj (hc.part_sub c hcc))]
  simp only [keyOf, Row.vals, List.map_cons, List.map_nil, get_rowsC_rk hc rows0 hj]

/-- which rows of the `b` side match position `i` -/
theorem match_eq_hits {i : Nat} (hi : i < rows0.length) :
    (rowsSel cols ob part v use rk tb rows0).filter (fun rb =>
      keyOf ((rowsC cols ob part v use rk tb rows0).getD i []) (part ++ [rk]) == keyOf rb (part ++ [rk]))
    = (hitsI cols ob part v use rows0 i).map
        (fun j => ((rowsC cols ob part v use rk tb rows0).getD j []).select (part ++ [rk, v])) := by
  rw [rowsSel, List.filter_map, List.filter_filter]
  congr 1
  rw [hitsI, Locf.hits]
  apply List.filter_congr
  intro j hj
  have hj := List.mem_range.mp hj
  simp only [Function.comp]
  have hsel : keyOf (((rowsC cols ob part v use rk tb rows0).getD j []).select (part ++ [rk, v])) (part ++ [rk])
      = keyOf ((rowsC cols ob part v use rk tb rows0).getD j []) (part ++ [rk]) := by
    apply keyOf_congr
    intro c hcc
    apply Row.select_get_of_mem
    rcases List.mem_append.mp hcc with h | h
    · exact List.mem_append_left _ h
    · simp only [List.mem_singleton] at h; subst h; simp
  rw [hsel, keyOf_rowsC_K hc rows0 hi, keyOf_rowsC_K hc rows0 hj]
  rw [Bool.and_comm, Bool.and_assoc]
  congr 1
  rw [Bool.eq_iff_iff]
  simp only [beq_iff_eq, Bool.and_eq_true, sameP, cntI]
  constructor
  · intro h
    have hlen : (keyOf (rows0.getD i []) part).length = (keyOf (rows0.getD j []) part).length := by
      simp [keyOf, Row.vals]
    obtain ⟨h1, h2⟩ := List.append_inj h hlen
    simp only [List.cons.injEq, Val.num.injEq, and_true] at h2
    exact ⟨h1.symm, by exact_mod_cast h2.symm⟩
  · rintro ⟨h1, h2⟩
    rw [h1, h2]

/-- cells of a row of the join: the left row, with the value column filled from the right row -/
theorem joined_get (i : Nat) (hi : i < rows0.length) (rb : Option Row) {c : String} (hcc : c ∈ cols)
    (hpart : ∀ r, rb = some r → ∀ p ∈ part, r.get p = (rows0.getD i []).get p) :
    (joinRow (cols ++ [use, tb, rk]) (part ++ [rk, v]) (cols ++ [use, tb, rk])
      (some ((rowsC cols ob part v use rk tb rows0).getD i [])) rb).get c
    = if c = v then
        (if ((rows0.getD i []).get v).isNull then (match rb with | some r => r.get v | none => Val.null)
         else (rows0.getD i []).get v)
      else (rows0.getD i []).get c := by
  rw [joinRow, get_map_mk _ _ (List.mem_append_left _ hcc)]
  have h1 : (cols ++ [use, tb, rk]).contains c = true := by simp [hcc]
  simp only [h1, if_true, get_rowsC hc rows0 hi hcc]
  by_cases hv : c = v
  · subst hv
    have h2 : (part ++ [rk, c]).contains c = true := by simp
    simp only [h2, if_true]
    cases rb <;> rfl
  · simp only [hv, if_false]
    by_cases hp : c ∈ part
    · have h2 : (part ++ [rk, v]).contains c = true := by simp [hp]
      cases rb with
      | none =>
        simp only []
        cases h : (rows0.getD i []).get c <;> simp [Val.isNull]
      | some r =>
        simp only [h2, if_true, hpart r rfl c hp]
        cases h : (rows0.getD i []).get c <;> simp [Val.isNull]
    · have hne : c ≠ rk := ne_rk hc hcc
      have h2 : (part ++ [rk, v]).contains c = false := by simp [hp, hne, hv]
      cases rb with
      | none =>
        simp only []
        cases h : (rows0.getD i []).get c <;> simp [Val.isNull]
      | some r =>
        simp only [h2, Bool.false_eq_true, if_false]
        cases h : (rows0.getD i []).get c <;> simp [Val.isNull]

end

/-! ### the specification, by position -/

theorem locfBefore_eq (ob : List String) (T : Nat → Nat) (rows0 : List Row) (j i : Nat) :
    locfBefore (rowLe ob []) T rows0 j i = beforeI ob rows0 T j i := by
  simp only [locfBefore, beforeI, strictlyBefore, tiesWith, ltO]
  congr 2
  rw [Bool.eq_iff_iff]
  simp only [Bool.and_eq_true]
  exact tieO_iff_le.symm

/-- the value the pipeline leaves at position `i` -/
def fillI (cols ob part : List String) (v use : String) (rows0 : List Row) (i : Nat) : Val :=
  if nnI v rows0 i then (rows0.getD i []).get v
  else match (hitsI cols ob part v use rows0 i).head? with
    | some j => (rows0.getD j []).get v
    | none => Val.null

set_option linter.unusedSectionVars false
section
variable {cols ob part : List String} {v use rk tb : String} (hc : LocfCtx cols ob part v use rk tb)
  (rows0 : List Row)
include hc

/-- **The specification's carried-forward value is what the join finds.** -/
theorem locfValue_eq {i : Nat} (hi : i < rows0.length) :
    locfValue (rowLe ob []) (tbA cols ob part v use rows0) part v rows0 i = fillI cols ob part v use rows0 i := by
  unfold locfValue fillI
  simp only [nnI]
  by_cases hn : ((rows0.getD i []).get v).isNull = true
  · simp only [hn, Bool.not_true, Bool.false_eq_true, if_false]
    have hcands : locfCandidates (rowLe ob []) (tbA cols ob part v use rows0) part v rows0 i
        = Locf.cands rows0.length (beforeI ob rows0 (tbA cols ob part v use rows0)) (sameP part rows0)
            (nnI v rows0) i := by
      simp only [locfCandidates, Locf.cands]
      congr 1
      funext j
      rw [locfBefore_eq]
      rfl
    rw [hcands]
    have hpred : (fun j => (Locf.cands rows0.length (beforeI ob rows0 (tbA cols ob part v use rows0))
          (sameP part rows0) (nnI v rows0) i).all
          (fun k => k == j || locfBefore (rowLe ob []) (tbA cols ob part v use rows0) rows0 k j))
        = (fun j => (Locf.cands rows0.length (beforeI ob rows0 (tbA cols ob part v use rows0))
          (sameP part rows0) (nnI v rows0) i).all
          (fun k => k == j || beforeI ob rows0 (tbA cols ob part v use rows0) k j)) := by
      funext j
      congr 1
      funext k
      rw [locfBefore_eq]
    rw [hpred, Locf.find_latest_eq (ordI hc rows0) hi (by unfold nnI; rw [hn]; rfl)]
    rfl
  · have hn' : ((rows0.getD i []).get v).isNull = false := by simpa using hn
    simp only [hn', Bool.not_false, if_true]

theorem hitsI_length_le_one (i : Nat) : (hitsI cols ob part v use rows0 i).length ≤ 1 :=
  Locf.hits_length_le_one (ordI hc rows0) i

/-- the selected output row for position `i` matched with `j` is the promised row -/
theorem out_pair {i j : Nat} (hi : i < rows0.length) (hj : j ∈ hitsI cols ob part v use rows0 i)
    (hwf : ∀ r ∈ rows0, r.keys = cols) :
    (joinRow (cols ++ [use, tb, rk]) (part ++ [rk, v]) (cols ++ [use, tb, rk])
      (some ((rowsC cols ob part v use rk tb rows0).getD i []))
      (some (((rowsC cols ob part v use rk tb rows0).getD j []).select (part ++ [rk, v])))).select cols
    = (rows0.getD i []).set v (fillI cols ob part v use rows0 i) := by
  have hjm := List.mem_filter.mp hj
  have hjn := List.mem_range.mp hjm.1
  simp only [Bool.and_eq_true, beq_iff_eq] at hjm
  obtain ⟨_, ⟨hnj, hsj⟩, _⟩ := hjm
  have hri : rows0.getD i [] ∈ rows0 := by rw [getD_eq [] hi]; exact List.getElem_mem _
  have hkeys := hwf _ hri
  have hvk : v ∈ (rows0.getD i []).keys := by rw [hkeys]; exact hc.v_mem
  have hsetkeys : ((rows0.getD i []).set v (fillI cols ob part v use rows0 i)).keys = cols := by
    rw [keys_set_of_mem _ _ _ hvk, hkeys]
  rw [← select_self hsetkeys hc.nodup]
  apply select_congr
  intro c hcc
  rw [joined_get hc rows0 i hi _ hcc, get_set]
  · by_cases hv : c = v
    · simp only [hv, if_true]
      rw [Row.select_get_of_mem (by simp), get_rowsC hc rows0 hjn hc.v_mem]
      -- what `fillI` is here
      unfold fillI
      by_cases hn : nnI v rows0 i = true
      · have : ((rows0.getD i []).get v).isNull = false := by
          unfold nnI at hn
          cases h : ((rows0.getD i []).get v).isNull
          · rfl
          · rw [h] at hn; cases hn
        rw [if_pos hn, if_neg (by rw [this]; exact Bool.false_ne_true)]
      · have hn' : nnI v rows0 i = false := by
          cases h : nnI v rows0 i
          · rfl
          · exact absurd h hn
        have hnull : ((rows0.getD i []).get v).isNull = true := by
          unfold nnI at hn'
          cases h : ((rows0.getD i []).get v).isNull
          · rw [h] at hn'; cases hn'
          · rfl
        have hlen := hitsI_length_le_one hc rows0 i
        have hhead : (hitsI cols ob part v use rows0 i).head? = some j := by
          cases hh : hitsI cols ob part v use rows0 i with
          | nil => rw [hh] at hj; cases hj
          | cons a l =>
            rw [hh] at hj hlen
            have : l = [] := by
              cases l with
              | nil => rfl
              | cons b l' => simp at hlen
            subst this
            simp only [List.mem_singleton] at hj
            rw [hj]; rfl
        rw [if_pos hnull, if_neg hn, hhead]
    · simp only [hv, if_false]
  · intro r hr p hp
    cases hr
    rw [Row.select_get_of_mem (List.mem_append_left _ hp), get_rowsC hc rows0 hjn (hc.part_sub p hp)]
    have : keyOf (rows0.getD j []) part = keyOf (rows0.getD i []) part := by simpa [sameP] using hsj
    exact keyOf_eq_iff.mp this p hp

/-- the selected output row for an unmatched position is the promised row -/
theorem out_none {i : Nat} (hi : i < rows0.length) (hh : hitsI cols ob part v use rows0 i = [])
    (hwf : ∀ r ∈ rows0, r.keys = cols) :
    (joinRow (cols ++ [use, tb, rk]) (part ++ [rk, v]) (cols ++ [use, tb, rk])
      (some ((rowsC cols ob part v use rk tb rows0).getD i [])) none).select cols
    = (rows0.getD i []).set v (fillI cols ob part v use rows0 i) := by
  have hri : rows0.getD i [] ∈ rows0 := by rw [getD_eq [] hi]; exact List.getElem_mem _
  have hkeys := hwf _ hri
  have hvk : v ∈ (rows0.getD i []).keys := by rw [hkeys]; exact hc.v_mem
  have hsetkeys : ((rows0.getD i []).set v (fillI cols ob part v use rows0 i)).keys = cols := by
    rw [keys_set_of_mem _ _ _ hvk, hkeys]
  -- an unmatched position has a missing value (a present value matches itself)
  have hn : nnI v rows0 i = false := by
    cases h : nnI v rows0 i with
    | false => rfl
    | true =>
      have := Locf.hits_flagged (ordI hc rows0) hi h
      rw [hitsI] at hh
      rw [hh] at this
      cases this
  have hnull : ((rows0.getD i []).get v).isNull = true := by
    unfold nnI at hn
    cases h : ((rows0.getD i []).get v).isNull
    · rw [h] at hn; cases hn
    · rfl
  rw [← select_self hsetkeys hc.nodup]
  apply select_congr
  intro c hcc
  rw [joined_get hc rows0 i hi none hcc (by intro r hr; cases hr), get_set]
  by_cases hv : c = v
  · simp only [hv, if_true]
    unfold fillI
    rw [if_pos hnull, hn, hh]
    rfl
  · simp only [hv, if_false]

end

/-! ### assembling the pipeline -/

theorem flatMap_le_one {α β : Type} (l : List α) (h : α → List β) (g : α → β)
    (hg : ∀ a ∈ l, h a = [] ∨ h a = [g a]) :
    l.flatMap h = (l.filter (fun a => !(h a).isEmpty)).map g := by
  induction l with
  | nil => rfl
  | cons a l ih =>
    rw [List.flatMap_cons, List.filter_cons, ih (fun b hb => hg b (List.mem_cons_of_mem _ hb))]
    rcases hg a List.mem_cons_self with e | e
    · rw [e]; rfl
    · rw [e]; rfl

set_option linter.unusedSectionVars false
section
variable {cols ob part : List String} {v use rk tb : String} (hc : LocfCtx cols ob part v use rk tb)
include hc

/-- the three `extend` steps (`d_marked`) on the concrete interpretation -/
theorem sem_locfMarked (cv : RecMap → Table → Except Err Table) (cfg : SemCfg) (env : Env) (name : String)
    (t0 : Table) (henv : env.lookup name = some t0) (hsub : subset cols t0.cols = true) :
    sem (Theta.concrete cv) cfg env (locfMarked (.table name cols) ob part v use rk tb)
      = .ok ⟨cols ++ [use, tb, rk], rowsC cols ob part v use rk tb (t0.selectCols cols).rows⟩ := by
  have hc1 : appendNew cols [use] = cols ++ [use] := appendNew_single hc.use_new
  have hc2 : appendNew (cols ++ [use]) [tb] = cols ++ [use, tb] := by
    rw [appendNew_single]
    · simp
    · simp only [List.mem_append, List.mem_singleton, not_or]
      exact ⟨hc.tb_new, fun e => hc.use_ne_tb e.symm⟩
  have hc3 : appendNew (cols ++ [use, tb]) [rk] = cols ++ [use, tb, rk] := by
    rw [appendNew_single]
    · simp
    · simp only [List.mem_append, List.mem_cons, List.not_mem_nil, or_false, not_or]
      exact ⟨hc.rk_new, fun e => hc.use_ne_rk e.symm, hc.rk_ne_tb⟩
  simp only [locfMarked, sem, henv, hsub, if_true, bind, Except.bind, pure, Except.pure, Ops.cols, List.map_cons,
    List.map_nil, hc1, hc2, hc3, Bool.false_eq_true, if_false]
  rw [semExtendPlain_single, stage1, semExtendWindow_single]
  congr 2
  have eA : addCol (cols ++ [use]) use
      (fun i => evalCell (Theta.concrete cv) ((t0.selectCols cols).rows.getD i []) (useTerm v)) (t0.selectCols cols).rows
      = rowsA cols v use (t0.selectCols cols).rows := by
    rw [rowsA]
    apply addCol_congr
    intro i _
    rw [eval_use_term]
    rfl
  rw [eA]
  have eB : addCol (cols ++ [use, tb]) tb
      (fun j => Val.num ((rk1 (part ++ ob) (rowsA cols v use (t0.selectCols cols).rows) j : Nat) : Rat))
      (rowsA cols v use (t0.selectCols cols).rows) = rowsB cols ob part v use tb (t0.selectCols cols).rows := rfl
  rw [eB, rowsC]
  apply addCol_congr
  intro i hi
  rw [length_rowsB hc] at hi
  exact cumsum_eq_cnt hc _ cv hi

/-- **`sem` of the tree built by `last_observed_carried_forward`** (Pandas configuration): the promised rows, up to
row order (rows without an earlier non-missing value leave the left join after the others). -/
theorem sem_locfTree (cv : RecMap → Table → Except Err Table) (env : Env) (name : String) (t0 : Table)
    (henv : env.lookup name = some t0) (hsub : subset cols t0.cols = true) :
    ∃ t, sem (Theta.concrete cv) SemCfg.pandas env (locfTree (.table name cols) ob part v use rk tb) = .ok t ∧
      t.cols = cols ∧
      t.rows.Perm (locfSpec (rowLe ob []) (tbA cols ob part v use (t0.selectCols cols).rows) part v
        (t0.selectCols cols).rows) := by
  -- names
  generalize hrows : (t0.selectCols cols).rows = rows0
  have hwf : ∀ r ∈ rows0, r.keys = cols := by
    intro r hr
    rw [← hrows] at hr
    exact Table.wf_selectCols _ _ r hr
  have hM := sem_locfMarked hc cv SemCfg.pandas env name t0 henv hsub
  rw [hrows] at hM
  have hK : part ++ [rk] ≠ [] := by simp
  -- declared columns
  have hMc : (locfMarked (.table name cols) ob part v use rk tb).cols = cols ++ [use, tb, rk] := by
    have hc1 : appendNew cols [use] = cols ++ [use] := appendNew_single hc.use_new
    have hc2 : appendNew (cols ++ [use]) [tb] = cols ++ [use, tb] := by
      rw [appendNew_single]
      · simp
      · simp only [List.mem_append, List.mem_singleton, not_or]
        exact ⟨hc.tb_new, fun e => hc.use_ne_tb e.symm⟩
    have hc3 : appendNew (cols ++ [use, tb]) [rk] = cols ++ [use, tb, rk] := by
      rw [appendNew_single]
      · simp
      · simp only [List.mem_append, List.mem_cons, List.not_mem_nil, or_false, not_or]
        exact ⟨hc.rk_new, fun e => hc.use_ne_rk e.symm, hc.rk_ne_tb⟩
    simp only [locfMarked, Ops.cols, List.map_cons, List.map_nil, hc1, hc2, hc3]
  have hbsub : ∀ c ∈ part ++ [rk, v], c ∈ cols ++ [use, tb, rk] := by
    intro c hcc
    rcases List.mem_append.mp hcc with h | h
    · exact List.mem_append_left _ (hc.part_sub c h)
    · simp only [List.mem_cons, List.not_mem_nil, or_false] at h
      rcases h with rfl | rfl
      · simp
      · exact List.mem_append_left _ hc.v_mem
  have hall : appendNew (cols ++ [use, tb, rk]) (part ++ [rk, v]) = cols ++ [use, tb, rk] :=
    appendNew_of_subset hbsub
  have hJc : ∀ (a b : Ops), a.cols = cols ++ [use, tb, rk] → b.cols = part ++ [rk, v] →
      (Ops.join a b (part ++ [rk]) (part ++ [rk]) .left).cols = cols ++ [use, tb, rk] := by
    intro a b ha hb
    simp only [Ops.cols, ha, hb, hall, beq_self_eq_true, if_true]
  have hDc : (cols ++ [use, tb, rk]).filter (fun c => !([use, rk, tb].contains c)) = cols := by
    rw [List.filter_append]
    have h1 : cols.filter (fun c => !([use, rk, tb].contains c)) = cols := by
      rw [List.filter_eq_self]
      intro c hcc
      simp [ne_use hc hcc, ne_rk hc hcc, ne_tb hc hcc]
    have h2 : [use, tb, rk].filter (fun c => !([use, rk, tb].contains c)) = [] := by
      simp [List.filter_cons]
    rw [h1, h2, List.append_nil]
  -- evaluate
  have hcolsB : (Ops.selectCols (.selectRows (locfMarked (.table name cols) ob part v use rk tb)
      (binop "==" (.col use) (.value (.int 1)))) (part ++ [rk, v])).cols = part ++ [rk, v] := rfl
  have hsem : sem (Theta.concrete cv) SemCfg.pandas env (locfTree (.table name cols) ob part v use rk tb)
      = .ok (((semJoin SemCfg.pandas .left (part ++ [rk]) (part ++ [rk])
          ⟨cols ++ [use, tb, rk], rowsC cols ob part v use rk tb rows0⟩
          ((semSelectRows (Theta.concrete cv) (binop "==" (.col use) (.value (.int 1)))
            ⟨cols ++ [use, tb, rk], rowsC cols ob part v use rk tb rows0⟩).selectCols (part ++ [rk, v]))
          (cols ++ [use, tb, rk])).selectCols (cols ++ [use, tb, rk])).selectCols cols) := by
    have hdrop : ∀ (src : Ops) (dels : List String), (Ops.dropCols src dels).cols
        = src.cols.filter (fun c => !dels.contains c) := fun _ _ => rfl
    simp only [locfTree, sem, hM, bind, Except.bind, pure, Except.pure, hdrop, hJc _ _ hMc hcolsB, hMc, hcolsB,
      hall, hDc]
  refine ⟨_, hsem, rfl, ?_⟩
  -- the `b` side
  have hB : (semSelectRows (Theta.concrete cv) (binop "==" (.col use) (.value (.int 1)))
      ⟨cols ++ [use, tb, rk], rowsC cols ob part v use rk tb rows0⟩).selectCols (part ++ [rk, v])
      = ⟨part ++ [rk, v], rowsSel cols ob part v use rk tb rows0⟩ := by
    simp only [semSelectRows, Table.selectCols]
    congr 1
    rw [filter_eq_map_range, List.map_map, length_rowsC hc, rowsSel]
    congr 1
    apply List.filter_congr
    intro j hj
    have hj := List.mem_range.mp hj
    exact eval_use_eq_one cv use _ _ (get_rowsC_use hc rows0 hj)
  rw [hB]
  simp only [Table.selectCols]
  rw [semJoin_left_rows _ hK]
  simp only []
  rw [List.map_map]
  have hsel : ((fun r : Row => r.select cols) ∘ fun r => r.select (cols ++ [use, tb, rk]))
      = fun r : Row => r.select cols := by
    funext r
    exact select_select r (fun c hcc => List.mem_append_left _ hcc)
  rw [hsel, List.map_append]
  -- by position
  let S : Nat → Row := fun i => (rows0.getD i []).set v (fillI cols ob part v use rows0 i)
  have hCrows := list_eq_map_range (rowsC cols ob part v use rk tb rows0)
  rw [length_rowsC hc] at hCrows
  -- pairs
  have hpairs : ((rowsC cols ob part v use rk tb rows0).flatMap (fun ra =>
      ((rowsSel cols ob part v use rk tb rows0).filter (fun rb => keyOf ra (part ++ [rk]) == keyOf rb (part ++ [rk]))).map
        (fun rb => joinRow (cols ++ [use, tb, rk]) (part ++ [rk, v]) (cols ++ [use, tb, rk]) (some ra) (some rb)))).map
      (fun r => r.select cols)
      = ((List.range rows0.length).filter (fun i => !(hitsI cols ob part v use rows0 i).isEmpty)).map S := by
    conv => lhs; rw [hCrows]
    rw [List.flatMap_map, List.map_flatMap]
    have : ∀ i ∈ List.range rows0.length,
        (((rowsSel cols ob part v use rk tb rows0).filter (fun rb =>
          keyOf ((rowsC cols ob part v use rk tb rows0).getD i []) (part ++ [rk]) == keyOf rb (part ++ [rk]))).map
          (fun rb => joinRow (cols ++ [use, tb, rk]) (part ++ [rk, v]) (cols ++ [use, tb, rk])
            (some ((rowsC cols ob part v use rk tb rows0).getD i [])) (some rb))).map (fun r => r.select cols)
        = (hitsI cols ob part v use rows0 i).map (fun _ => S i) := by
      intro i hi
      have hi := List.mem_range.mp hi
      rw [match_eq_hits hc rows0 hi, List.map_map, List.map_map]
      apply List.map_congr_left
      intro j hj
      exact out_pair hc rows0 hi hj hwf
    rw [flatMap_congr_mem this]
    rw [flatMap_le_one (List.range rows0.length) (fun i => (hitsI cols ob part v use rows0 i).map (fun _ => S i)) S]
    · congr 1
      apply List.filter_congr
      intro i _
      cases hitsI cols ob part v use rows0 i <;> rfl
    · intro i _
      have hlen := hitsI_length_le_one hc rows0 i
      cases hh : hitsI cols ob part v use rows0 i with
      | nil => exact Or.inl rfl
      | cons a l =>
        rw [hh] at hlen
        have : l = [] := by
          cases l with
          | nil => rfl
          | cons b l' => simp at hlen
        subst this
        exact Or.inr rfl
  -- unmatched rows
  have hleft : (((rowsC cols ob part v use rk tb rows0).filter (fun ra =>
      !((rowsSel cols ob part v use rk tb rows0).any (fun rb => keyOf ra (part ++ [rk]) == keyOf rb (part ++ [rk]))))).map
      (fun ra => joinRow (cols ++ [use, tb, rk]) (part ++ [rk, v]) (cols ++ [use, tb, rk]) (some ra) none)).map
      (fun r => r.select cols)
      = ((List.range rows0.length).filter (fun i => !(!(hitsI cols ob part v use rows0 i).isEmpty))).map S := by
    rw [filter_eq_map_range, length_rowsC hc, List.map_map, List.map_map]
    have hf : (List.range rows0.length).filter (fun j => !((rowsSel cols ob part v use rk tb rows0).any (fun rb =>
        keyOf ((rowsC cols ob part v use rk tb rows0).getD j []) (part ++ [rk]) == keyOf rb (part ++ [rk]))))
        = (List.range rows0.length).filter (fun i => !(!(hitsI cols ob part v use rows0 i).isEmpty)) := by
      apply List.filter_congr
      intro i hi
      have hi := List.mem_range.mp hi
      rw [any_eq_filter_nonempty, match_eq_hits hc rows0 hi]
      cases hitsI cols ob part v use rows0 i <;> rfl
    rw [hf]
    apply List.map_congr_left
    intro i hi
    have hi' := List.mem_filter.mp hi
    have hin := List.mem_range.mp hi'.1
    have hh : hitsI cols ob part v use rows0 i = [] := by
      cases h : hitsI cols ob part v use rows0 i with
      | nil => rfl
      | cons a l => rw [h] at hi'; simp at hi'
    simp only [Function.comp]
    exact out_none hc rows0 hin hh hwf
  rw [hpairs, hleft, ← List.map_append]
  -- the specification rows, by position
  have hspec : locfSpec (rowLe ob []) (tbA cols ob part v use rows0) part v rows0 = (List.range rows0.length).map S := by
    rw [locfSpec, zipIdx_eq_map_range, List.map_map]
    apply List.map_congr_left
    intro i hi
    have hi := List.mem_range.mp hi
    show (rows0.getD i []).set v (locfValue (rowLe ob []) (tbA cols ob part v use rows0) part v rows0 i)
      = (rows0.getD i []).set v (fillI cols ob part v use rows0 i)
    rw [locfValue_eq hc rows0 hi]
  rw [hspec]
  exact (List.filter_append_perm _ _).map S

end

/-- the helper's tie-breaking numbers increase along `partition_by ++ order_by` -/
theorem tbA_lt_of_strict {cols ob part : List String} {v use rk tb : String} (hc : LocfCtx cols ob part v use rk tb)
    (rows0 : List Row) {j k : Nat} (hj : j < rows0.length) (hk : k < rows0.length)
    (h : rowLe (part ++ ob) [] (rows0.getD k []) (rows0.getD j []) = false) :
    tbA cols ob part v use rows0 j < tbA cols ob part v use rows0 k := by
  have hsub : ∀ c ∈ part ++ ob, c ∈ cols := by
    intro c hcc
    rcases List.mem_append.mp hcc with h | h
    · exact hc.part_sub c h
    · exact hc.ob_sub c h
  have hjA : j < (rowsA cols v use rows0).length := by rw [length_rowsA hc]; exact hj
  have hkA : k < (rowsA cols v use rows0).length := by rw [length_rowsA hc]; exact hk
  have h' : rowLe (part ++ ob) [] ((rowsA cols v use rows0).getD k []) ((rowsA cols v use rows0).getD j []) = false := by
    rw [rowLe_congr (fun c hcc => get_rowsA hc rows0 hk (hsub c hcc)) (fun c hcc => get_rowsA hc rows0 hj (hsub c hcc))]
    exact h
  have := winPos_lt_of_strict (p := []) (o := part ++ ob) (rv := []) hjA hkA rfl h'
  simp only [tbA, rk1]
  omega

end DAVerif.Sol
