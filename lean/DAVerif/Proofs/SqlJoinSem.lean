import DAVerif.Proofs.SqlReach
import DAVerif.Proofs.SqlMain
import DAVerif.Proofs.UsedSem
/-!
C01/C02/C16, joins: the row lists of a join as one function of a match predicate and a row constructor
(`joinRowsG`: matched pairs in left-major order, then the unmatched left rows, then the unmatched right rows), shared
by the reference semantics (`semJoin`) and the SQL semantics (`semNear` on a `Near.join`); transport of `joinRowsG`
along "the input rows agree on the columns the join reads"; the cell a join computes for one output column on the SQL
side (`sqlCell`: `COALESCE` or a qualified pass-through) and on the reference side (`refCell`).

All names live in `DAVerif.Sql`.
-/
namespace DAVerif
namespace Sql
open DAVerif.Ops (usedFromSources unionL)

/-! ### the rows of a join -/

/-- matched pairs (left-major), then unmatched left rows (`keepL`), then unmatched right rows (`keepR`) -/
def joinRowsG {α : Type} (m : Row → Row → Bool) (mk : Option Row → Option Row → α) (keepL keepR : Bool)
    (la lb : List Row) : List α :=
  la.flatMap (fun ra => (lb.filter (fun rb => m ra rb)).map (fun rb => mk (some ra) (some rb)))
  ++ (if keepL then (la.filter (fun ra => !(lb.any (fun rb => m ra rb)))).map (fun ra => mk (some ra) none) else [])
  ++ (if keepR then (lb.filter (fun rb => !(la.any (fun ra => m ra rb)))).map (fun rb => mk none (some rb)) else [])

theorem joinRowsG_map {α β : Type} (f : α → β) (m : Row → Row → Bool) (mk : Option Row → Option Row → α)
    (kl kr : Bool) (la lb : List Row) :
    (joinRowsG m mk kl kr la lb).map f = joinRowsG m (fun a b => f (mk a b)) kl kr la lb := by
  unfold joinRowsG
  simp only [List.map_append, List.map_flatMap, List.map_map]
  cases kl <;> cases kr <;> simp [Function.comp_def]

theorem joinRowsG_map_in {α : Type} (f g : Row → Row) (m : Row → Row → Bool) (mk : Option Row → Option Row → α)
    (kl kr : Bool) (la lb : List Row) :
    joinRowsG m mk kl kr (la.map f) (lb.map g) =
      joinRowsG (fun a b => m (f a) (g b)) (fun a b => mk (a.map f) (b.map g)) kl kr la lb := by
  unfold joinRowsG
  simp only [List.flatMap_map, List.filter_map, List.map_map, List.any_map]
  rfl

theorem flatMap_congr' {α β : Type} {f g : α → List β} {l : List α} (h : ∀ a ∈ l, f a = g a) :
    l.flatMap f = l.flatMap g := by
  induction l with
  | nil => rfl
  | cons a l ih =>
    simp only [List.flatMap_cons]
    rw [h a List.mem_cons_self, ih (fun a' ha' => h a' (List.mem_cons_of_mem _ ha'))]

theorem any_congr' {α : Type} {p q : α → Bool} {l : List α} (h : ∀ a ∈ l, p a = q a) : l.any p = l.any q := by
  induction l with
  | nil => rfl
  | cons a l ih =>
    simp only [List.any_cons]
    rw [h a List.mem_cons_self, ih (fun a' ha' => h a' (List.mem_cons_of_mem _ ha'))]

theorem joinRowsG_congr {α : Type} {m m' : Row → Row → Bool} {mk mk' : Option Row → Option Row → α}
    (kl kr : Bool) {la lb : List Row}
    (hm : ∀ ra ∈ la, ∀ rb ∈ lb, m ra rb = m' ra rb)
    (h2 : ∀ ra ∈ la, ∀ rb ∈ lb, mk (some ra) (some rb) = mk' (some ra) (some rb))
    (hl : ∀ ra ∈ la, mk (some ra) none = mk' (some ra) none)
    (hr : ∀ rb ∈ lb, mk none (some rb) = mk' none (some rb)) :
    joinRowsG m mk kl kr la lb = joinRowsG m' mk' kl kr la lb := by
  unfold joinRowsG
  have e1 : la.flatMap (fun ra => (lb.filter (fun rb => m ra rb)).map (fun rb => mk (some ra) (some rb))) =
      la.flatMap (fun ra => (lb.filter (fun rb => m' ra rb)).map (fun rb => mk' (some ra) (some rb))) := by
    apply flatMap_congr'
    intro ra hra
    have : lb.filter (fun rb => m ra rb) = lb.filter (fun rb => m' ra rb) :=
      List.filter_congr (fun rb hrb => hm ra hra rb hrb)
    rw [this]
    exact List.map_congr_left (fun rb hrb => h2 ra hra rb (List.mem_filter.mp hrb).1)
  have e2 : (la.filter (fun ra => !(lb.any (fun rb => m ra rb)))).map (fun ra => mk (some ra) none) =
      (la.filter (fun ra => !(lb.any (fun rb => m' ra rb)))).map (fun ra => mk' (some ra) none) := by
    have : la.filter (fun ra => !(lb.any (fun rb => m ra rb))) = la.filter (fun ra => !(lb.any (fun rb => m' ra rb))) := by
      apply List.filter_congr
      intro ra hra
      congr 1
      exact any_congr' (fun rb hrb => hm ra hra rb hrb)
    rw [this]
    exact List.map_congr_left (fun ra hra => hl ra (List.mem_filter.mp hra).1)
  have e3 : (lb.filter (fun rb => !(la.any (fun ra => m ra rb)))).map (fun rb => mk none (some rb)) =
      (lb.filter (fun rb => !(la.any (fun ra => m' ra rb)))).map (fun rb => mk' none (some rb)) := by
    have : lb.filter (fun rb => !(la.any (fun ra => m ra rb))) = lb.filter (fun rb => !(la.any (fun ra => m' ra rb))) := by
      apply List.filter_congr
      intro rb hrb
      congr 1
      exact any_congr' (fun ra hra => hm ra hra rb hrb)
    rw [this]
    exact List.map_congr_left (fun rb hrb => hr rb (List.mem_filter.mp hrb).1)
  rw [e1, e2, e3]

theorem length_joinRowsG {α β : Type} (m : Row → Row → Bool) (mk : Option Row → Option Row → α)
    (mk' : Option Row → Option Row → β) (kl kr : Bool) (la lb : List Row) :
    (joinRowsG m mk kl kr la lb).length = (joinRowsG m mk' kl kr la lb).length := by
  have h1 := joinRowsG_map (fun _ => ()) m mk kl kr la lb
  have h2 := joinRowsG_map (fun _ => ()) m mk' kl kr la lb
  have := congrArg List.length (h1.trans h2.symm)
  simpa using this

/-- **transport**: a join whose match predicate and row constructor read the left rows only through the columns `SA`
and the right rows only through `SB` returns the same rows on inputs that agree on `SA` / `SB` -/
theorem joinRowsG_transport {α : Type} {m : Row → Row → Bool} {mk : Option Row → Option Row → α} (kl kr : Bool)
    {la la' lb lb' : List Row} {SA SB : List String}
    (hA : la.map (fun r => r.select SA) = la'.map (fun r => r.select SA))
    (hB : lb.map (fun r => r.select SB) = lb'.map (fun r => r.select SB))
    (hm : ∀ ra rb, m ra rb = m (ra.select SA) (rb.select SB))
    (hmk : ∀ ra rb, mk ra rb = mk (ra.map (fun r => r.select SA)) (rb.map (fun r => r.select SB))) :
    joinRowsG m mk kl kr la lb = joinRowsG m mk kl kr la' lb' := by
  have step : ∀ l1 l2 : List Row, joinRowsG m mk kl kr l1 l2 =
      joinRowsG m mk kl kr (l1.map (fun r => r.select SA)) (l2.map (fun r => r.select SB)) := by
    intro l1 l2
    rw [joinRowsG_map_in]
    exact joinRowsG_congr kl kr (fun ra _ rb _ => hm ra rb) (fun ra _ rb _ => hmk (some ra) (some rb))
      (fun ra _ => hmk (some ra) none) (fun rb _ => hmk none (some rb))
  rw [step la lb, step la' lb', hA, hB]

/-! ### the reference join as `joinRowsG` -/

/-- the match predicate of a join: CROSS and joins without keys match everything; otherwise the keys are equal and
(standard SQL, `SemCfg.ref`) not null -/
def refMatch (cfg : SemCfg) (jt : JoinType) (onA onB : List String) (ra rb : Row) : Bool :=
  (jt == .cross || onA.isEmpty) || keyMatch cfg (keyOf ra onA) (keyOf rb onB)

/-- the cell of output column `c` in the reference join: `a`'s value unless it is null or `a` lacks the column -/
def refCell (ca cb : List String) (ra rb : Option Row) (c : String) : Val :=
  let av : Val := match ra with | some r => if ca.contains c then r.get c else .null | none => .null
  let bv : Val := match rb with | some r => if cb.contains c then r.get c else .null | none => .null
  if av.isNull then bv else av

theorem joinRow_eq (ca cb out : List String) (ra rb : Option Row) :
    joinRow ca cb out ra rb = out.map (fun c => (c, refCell ca cb ra rb c)) := by
  cases ra <;> cases rb <;> rfl

theorem semJoin_eq (cfg : SemCfg) (jt : JoinType) (onA onB : List String) (ta tb : Table) (out : List String) :
    semJoin cfg jt onA onB ta tb out =
      ⟨out, joinRowsG (refMatch cfg jt onA onB) (joinRow ta.cols tb.cols out)
        (jt == .left || jt == .full || jt == .outer || (jt == .cross && cfg.crossAsOuter))
        (jt == .right || jt == .full || jt == .outer || (jt == .cross && cfg.crossAsOuter)) ta.rows tb.rows⟩ := rfl

/-! ### the SQL join as `joinRowsG` -/

/-- the value a join step's SELECT list gives the output column `c` -/
def sqlCell (lC rC : List String) (terms : Terms) (ra rb : Option Row) (c : String) : Val :=
  let av : Val := match ra with | some r => if lC.contains c then r.get c else .null | none => .null
  let bv : Val := match rb with | some r => if rC.contains c then r.get c else .null | none => .null
  match lookupLast terms c with
  | some (.coalesce leftFirst _) => if leftFirst then (if av.isNull then bv else av) else (if bv.isNull then av else bv)
  | _ => if lC.contains c then av else bv

theorem sqlJoinRow_eq (lC rC : List String) (terms : Terms) (out : List String) (ra rb : Option Row) :
    sqlJoinRow lC rC terms out ra rb = out.map (fun c => (c, sqlCell lC rC terms ra rb c)) := by
  unfold sqlJoinRow
  apply List.map_congr_left
  intro c _
  simp only [sqlCell]
  cases lookupLast terms c with
  | none => cases ra <;> cases rb <;> rfl
  | some t => cases t <;> cases ra <;> cases rb <;> rfl

/-- the output columns of a binary step: the requested ones; nothing requested → all its terms -/
def joinOut (keys : List String) (cols? : Option (List String)) : List String :=
  match cols? with | some cs => if cs.isEmpty then keys else cs | none => keys

theorem semNear_join (Θ : Interp) (ec : EngineCfg) (env : Env) (ctes : List (String × Table)) (n : String)
    (terms : Terms) (l : Near) (lC : List String) (ln : String) (r : Near) (rC : List String) (rn : String)
    (jt : JoinType) (oa ob : List String) (key : Option String) (cols? : Option (List String)) (force : Bool) :
    semNear Θ ec env ctes (.join n terms l lC ln r rC rn jt oa ob key) cols? force =
      (semNear Θ ec env ctes l (some lC) false).bind (fun tl =>
        (semNear Θ ec env ctes r (some rC) false).bind (fun tr =>
          if jt == .outer then .error .other
          else .ok ⟨joinOut (terms.map (·.1)) cols?,
            joinRowsG (refMatch SemCfg.ref jt oa ob) (sqlJoinRow lC rC terms (joinOut (terms.map (·.1)) cols?))
              (jt == .left || jt == .full) (jt == .right || jt == .full) tl.rows tr.rows⟩)) := by
  conv => lhs; unfold semNear
  cases semNear Θ ec env ctes l (some lC) false with
  | error e => rfl
  | ok tl =>
    cases semNear Θ ec env ctes r (some rC) false with
    | error e => rfl
    | ok tr =>
      by_cases hj : jt = .outer
      · subst hj; rfl
      · cases cols? <;> cases jt <;> first | exact absurd rfl hj | rfl

theorem semNear_union (Θ : Interp) (ec : EngineCfg) (env : Env) (ctes : List (String × Table)) (n : String)
    (terms : List String) (l r : Near) (cols : List String) (key : Option String) (cols? : Option (List String))
    (force : Bool) :
    semNear Θ ec env ctes (.union n terms l r cols key) cols? force =
      (semNear Θ ec env ctes l (some cols) true).bind (fun tl =>
        (semNear Θ ec env ctes r (some cols) true).bind (fun tr =>
          .ok ⟨joinOut terms cols?, (tl.rows ++ tr.rows).map (fun row => row.select (joinOut terms cols?))⟩)) := by
  conv => lhs; unfold semNear
  cases semNear Θ ec env ctes l (some cols) true with
  | error e => rfl
  | ok tl =>
    cases semNear Θ ec env ctes r (some cols) true with
    | error e => rfl
    | ok tr => cases cols? <;> rfl

/-! ### cells -/

theorem Val.eq_null_of_isNull {v : Val} (h : v.isNull = true) : v = .null := by
  cases v <;> simp_all [Val.isNull]

/-- the declared columns of a join are, as a set, the columns of either side -/
theorem mem_joinNodeCols (a b : Ops) (oa ob : List String) (jt : JoinType) (c : String) :
    c ∈ (Ops.join a b oa ob jt).cols ↔ c ∈ a.cols ∨ c ∈ b.cols := mem_join_cols a b oa ob jt c

end Sql
end DAVerif
