import DAVerif.Expr.Canon
import DAVerif.Proofs.ExprWalk
/-!
Lemmas for the print → parse → walk round trip (C13 / expression part of C12).

1. `termBEq` decides equality.
2. `tk` is the token list of the printer `pp`.
3. (W) the tree `cst t` of a well-formed term walks back to the term.
4. (P) the parser maps the printed tokens of a well-formed term to `cst t`.
-/
namespace DAVerif.Expr

/-! ## 1. structural equality -/

mutual
theorem termBEq_eq : ∀ (a b : Term), termBEq a b = true → a = b
  | .value a, .value b, h => by simp only [termBEq, beq_iff_eq] at h; rw [h]
  | .col a, .col b, h => by simp only [termBEq, beq_iff_eq] at h; rw [h]
  | .list a, .list b, h => by simp only [termBEq, beq_iff_eq] at h; rw [h]
  | .dict a, .dict b, h => by simp only [termBEq, beq_iff_eq] at h; rw [h]
  | .app o1 a1 i1 m1, .app o2 a2 i2 m2, h => by
    simp only [termBEq, Bool.and_eq_true, beq_iff_eq] at h
    obtain ⟨⟨⟨h1, h2⟩, h3⟩, h4⟩ := h
    rw [h1, h2, h3, termsBEq_eq a1 a2 h4]
  | .value _, .col _, h | .value _, .list _, h | .value _, .dict _, h | .value _, .app _ _ _ _, h
  | .col _, .value _, h | .col _, .list _, h | .col _, .dict _, h | .col _, .app _ _ _ _, h
  | .list _, .value _, h | .list _, .col _, h | .list _, .dict _, h | .list _, .app _ _ _ _, h
  | .dict _, .value _, h | .dict _, .col _, h | .dict _, .list _, h | .dict _, .app _ _ _ _, h
  | .app _ _ _ _, .value _, h | .app _ _ _ _, .col _, h | .app _ _ _ _, .list _, h | .app _ _ _ _, .dict _, h => by
    simp [termBEq] at h
theorem termsBEq_eq : ∀ (a b : List Term), termsBEq a b = true → a = b
  | [], [], _ => rfl
  | x :: xs, y :: ys, h => by
    simp only [termsBEq, Bool.and_eq_true] at h
    rw [termBEq_eq x y h.1, termsBEq_eq xs ys h.2]
  | [], _ :: _, h | _ :: _, [], h => by simp [termsBEq] at h
end

theorem okEq_eq {r : R Term} {t : Term} (h : okEq r t = true) : r = .ok t := by
  unfold okEq at h
  split at h
  · rw [termBEq_eq _ _ h]
  · contradiction

/-! ## 2. `tk` is what the printer prints -/

@[simp] theorem piecesToks_nil : piecesToks [] = [] := rfl
@[simp] theorem piecesToks_append (a b : List Piece) : piecesToks (a ++ b) = piecesToks a ++ piecesToks b := by
  simp [piecesToks, List.filterMap_append]
@[simp] theorem piecesToks_cons_t (t : Token) (ps : List Piece) : piecesToks (.t t :: ps) = t :: piecesToks ps := by
  simp [piecesToks]
@[simp] theorem piecesToks_cons_sp (ps : List Piece) : piecesToks (.sp :: ps) = piecesToks ps := by
  simp [piecesToks]
@[simp] theorem piecesToks_cons_o (s : String) (ps : List Piece) : piecesToks (Piece.o s :: ps) = o s :: piecesToks ps := by
  simp [Piece.o, o]

theorem piecesToks_lit (l : Lit) : piecesToks (litPieces l) = litToks l := by
  cases l with
  | bool b => cases b <;> simp [litPieces, litToks]
  | int i => simp only [litPieces, litToks]; split <;> simp
  | flt q => simp only [litPieces, litToks]; split <;> simp
  | _ => simp [litPieces, litToks]

theorem piecesToks_parens (ps : List Piece) : piecesToks (parens ps) = parenToks (piecesToks ps) := by
  simp [parens, parenToks]

theorem piecesToks_commaJoin : ∀ (xs : List (List Piece)),
    piecesToks (commaJoin xs) = commaToks (xs.map piecesToks)
  | [] => by simp [commaJoin, commaToks]
  | [x] => by simp [commaJoin, commaToks]
  | x :: y :: ys => by
    have := piecesToks_commaJoin (y :: ys)
    simp only [commaJoin, piecesToks_append, List.map_cons, commaToks, piecesToks_cons_o, piecesToks_cons_sp,
      piecesToks_nil] at this ⊢
    rw [this]; simp

theorem piecesToks_opJoin (op : String) : ∀ (xs : List (List Piece)),
    piecesToks (opJoin op xs) = opToks op (xs.map piecesToks)
  | [] => by simp [opJoin, opToks]
  | [x] => by simp [opJoin, opToks]
  | x :: y :: ys => by
    have := piecesToks_opJoin op (y :: ys)
    simp only [opJoin, piecesToks_append, List.map_cons, opToks, piecesToks_cons_o, piecesToks_cons_sp,
      piecesToks_nil] at this ⊢
    rw [this]; simp

theorem pp_false_snd (t : Term) : (pp t false).2 = false := by
  cases t with
  | value l => simp [pp]
  | col c => simp [pp]
  | list vs => simp [pp]
  | dict kvs => simp [pp]
  | app op args i m =>
    match args with
    | [] => simp [pp]
    | [a] =>
      unfold pp
      simp only
      repeat' split
      all_goals first | contradiction | simp
    | a :: b :: rest =>
      unfold pp
      simp only
      repeat' split
      all_goals first | contradiction | simp

mutual
theorem tk_eq : ∀ (t : Term) (want : Bool), piecesToks (pp t want).1 = tk t want
  | .value l, want => by
    unfold pp tk
    split <;> simp [piecesToks_parens, piecesToks_lit]
  | .col c, want => by simp [pp, tk]
  | .list vs, want => by
    simp only [pp, tk, piecesToks_append, piecesToks_cons_o, piecesToks_nil, piecesToks_commaJoin, List.map_map,
      List.cons_append, List.nil_append]
    have hmap : vs.map (piecesToks ∘ litPieces) = vs.map litToks := by
      apply List.map_congr_left
      intro l _; simp [piecesToks_lit]
    rw [hmap]
  | .dict kvs, want => by
    simp only [pp, tk, piecesToks_append, piecesToks_cons_o, piecesToks_nil, piecesToks_commaJoin, List.map_map,
      List.cons_append, List.nil_append]
    have hmap : kvs.map (piecesToks ∘ fun kv => litPieces kv.fst ++ [Piece.o ":", Piece.sp] ++ litPieces kv.snd)
        = kvs.map kvToks := by
      apply List.map_congr_left
      intro kv _
      simp [kvToks, piecesToks_lit]
    rw [hmap]
  | .app op [] inline method, want => by simp [pp, tk, o, Token.op]
  | .app op [a] inline method, want => by
    have ih := tk_eq a false
    unfold pp tk
    simp only
    by_cases hi : inline = true
    · simp only [hi, ↓reduceIte]
      have h2 : (pp a false).2 = false := pp_false_snd a
      simp only [h2, Bool.false_eq_true, ↓reduceIte]
      split <;> simp [piecesToks_parens, ih, parenToks]
    · simp only [hi, Bool.false_eq_true, ↓reduceIte]
      split
      · split <;> rename_i h3
        · have h2 : (pp a false).2 = false := pp_false_snd a
          have : isCol a = true := by simpa [h2] using h3
          simp [this, ih, o, Token.op]
        · have : isCol a = false := by
            simp only [Bool.or_eq_true, not_or] at h3
            simpa using h3.2
          simp [this, ih, piecesToks_parens, o, Token.op]
      · simp [ih, o, Token.op]
  | .app op (a :: b :: rest) inline method, want => by
    have ih0 := tk_eq a false
    have iha := tkArgs_eq (a :: b :: rest) true
    have ihr := tkArgs_eq (b :: rest) false
    have ihall := tkArgs_eq (a :: b :: rest) false
    unfold pp tk
    simp only
    by_cases hi : inline = true
    · simp only [hi, ↓reduceIte]
      split <;> simp [piecesToks_parens, piecesToks_opJoin, iha]
    · simp only [hi, Bool.false_eq_true, ↓reduceIte]
      have h2 : (pp a false).2 = false := pp_false_snd a
      split
      · split <;> rename_i h3
        · have : isCol a = true := by simpa [h2] using h3
          simp [this, ih0, piecesToks_commaJoin, ihr, o, Token.op]
        · have : isCol a = false := by
            simp only [Bool.or_eq_true, not_or] at h3
            simpa using h3.2
          simp [this, ih0, piecesToks_parens, piecesToks_commaJoin, ihr, o, Token.op]
      · have : ((pp a false).1 :: ppArgs (b :: rest) false) = ppArgs (a :: b :: rest) false := by simp [ppArgs]
        rw [this]
        simp [piecesToks_commaJoin, ihall, o, Token.op]
theorem tkArgs_eq : ∀ (ts : List Term) (want : Bool), (ppArgs ts want).map piecesToks = tkArgs ts want
  | [], want => by simp [ppArgs, tkArgs]
  | t :: ts, want => by simp [ppArgs, tkArgs, tk_eq t want, tkArgs_eq ts want]
end

theorem printToks_eq (t : Term) : printToks t = tk t false := tk_eq t false


/-! ## 3. literals read back -/

theorem decodeDec_repr (n : Nat) : decodeDec (reprInt (Int.ofNat n)) = some n := by
  have h1 : reprInt (Int.ofNat n) = Nat.repr n := rfl
  unfold decodeDec
  simp only [h1, Nat.toList_repr]
  have hne : Nat.toDigits 10 n ≠ [] := Nat.toDigits_ne_nil
  have hall : (Nat.toDigits 10 n).all isDigit = true := by
    rw [List.all_eq_true]
    intro c hc
    exact Nat.isDigit_of_mem_toDigits (by omega) (by omega) hc
  simp only [ne_eq, hne, not_false_eq_true, decide_true, hall, Bool.and_self, ↓reduceIte, Option.some.injEq]
  unfold digitsToNat
  rw [← Nat.ofDigitChars_eq_foldl]
  exact Nat.ofDigitChars_ten_toDigits


/-! ## 4. (W) the tree of the printed text walks back to the term -/

theorem classify_const_none : classify "const_none" = .constNone := by decide
theorem classify_const_true : classify "const_true" = .constTrue := by decide
theorem classify_const_false : classify "const_false" = .constFalse := by decide
theorem classify_number : classify "number" = .wrapper := by decide
theorem classify_string : classify "string" = .wrapper := by decide
theorem classify_var : classify "var" = .wrapper := by decide
theorem classify_factor : classify "factor" = .factor := by decide
theorem classify_list : classify "list" = .collection := by decide
theorem classify_dict : classify "dict" = .dict := by decide
theorem classify_key_value : classify "key_value" = .keyValue := by decide
theorem classify_funccall : classify "funccall" = .funccall := by decide
theorem classify_power : classify "power" = .power := by decide
theorem classify_or_test : classify "or_test" = .orTest := by decide
theorem classify_and_test : classify "and_test" = .andTest := by decide
theorem classify_comparison : classify "comparison" = .comparison := by decide
theorem classify_arith_expr : classify "arith_expr" = .arith := by decide
theorem classify_term : classify "term" = .term := by decide

/-- what the round trip needs of the tables besides `wf`: a negative constant is re-read through `Value.__neg__` -/
structure Env.NegFolds (env : Env) : Prop where
  folds : env.valueNegFolds = true
  negRemap : remap env.factorRemap "-" = "__neg__"

theorem walk_number_dec (env : Env) (n : Nat) :
    walk env (.node "number" [.tok ⟨.dec, reprInt (Int.ofNat n)⟩]) = .ok (.value (.int n)) := by
  rw [walk.eq_def]
  simp only [classify_number]
  rw [walk.eq_def]
  simp only [walkTok, decodeDec_repr]

theorem callNeg_value {env : Env} (hn : env.NegFolds) (l l' : Lit) (h : negLit l = .ok l') :
    callMethod env (.value l) (remap env.factorRemap "-") [] = .ok (.value l') := by
  rw [hn.negRemap]
  simp [callMethod, getMethod, isValue, hn.folds, applyBound, h, Except.map]

theorem walk_litCst {env : Env} (hn : env.NegFolds) (l : Lit) (hl : litOk l = true) :
    walk env (litCst l) = .ok (.value l) := by
  cases l with
  | none => rw [litCst, walk.eq_def]; simp only [classify_const_none]
  | bool b => cases b <;> (rw [litCst, walk.eq_def]) <;> simp only [classify_const_true, classify_const_false]
  | int i =>
    simp only [litCst]
    split
    · rename_i hneg
      have hpos : -i = Int.ofNat (-i).toNat := (Int.toNat_of_nonneg (by omega)).symm
      rw [walk.eq_def]
      simp only [classify_factor, opText, o, Token.op]
      rw [hpos, walk_number_dec]
      simp only [ok_bind]
      apply callNeg_value hn
      simp only [negLit]
      rw [show -(((-i).toNat : Nat) : Int) = i by omega]
    · rename_i hneg
      have hpos : i = Int.ofNat i.toNat := (Int.toNat_of_nonneg (by omega)).symm
      have hw := walk_number_dec env i.toNat
      rw [← hpos] at hw
      rw [hw, show ((i.toNat : Nat) : Int) = i by omega]
  | flt q =>
    unfold litOk at hl
    simp only [beq_iff_eq] at hl
    simp only [litCst]
    split
    · rename_i hneg
      simp only [hneg, ↓reduceIte] at hl
      rw [walk.eq_def]
      simp only [classify_factor, opText, o, Token.op]
      have : walk env (.node "number" [.tok ⟨.float, reprFloat (-q)⟩]) = .ok (.value (.flt (-q))) := by
        rw [walk.eq_def]; simp only [classify_number]; rw [walk.eq_def]; simp only [walkTok, hl]
      rw [this]
      simp only [ok_bind]
      rw [callNeg_value hn (.flt (-q)) (.flt q)]
      simp [negLit]
    · rename_i hneg
      simp only [hneg, ↓reduceIte] at hl
      rw [walk.eq_def]; simp only [classify_number]; rw [walk.eq_def]; simp only [walkTok, hl]
  | str s =>
    unfold litOk at hl
    simp only [beq_iff_eq] at hl
    rw [litCst, walk.eq_def]; simp only [classify_string]; rw [walk.eq_def]; simp only [walkTok, hl]
  | nan => simp [litOk] at hl
  | inf => simp [litOk] at hl
  | ninf => simp [litOk] at hl


/-- `(op v)*` as a list of trees -/
def tails (op : String) : List Cst → List Cst
  | [] => []
  | c :: cs => .tok (o op) :: c :: tails op cs

theorem interleave_cons (op : String) : ∀ (c : Cst) (cs : List Cst), interleave op (c :: cs) = c :: tails op cs
  | c, [] => by simp [interleave, tails]
  | c, d :: ds => by
    have := interleave_cons op d ds
    simp only [interleave, tails, this]

theorem tails_length (op : String) : ∀ cs : List Cst, (tails op cs).length = 2 * cs.length
  | [] => by simp [tails]
  | c :: cs => by simp [tails, tails_length op cs]; omega

theorem opTexts_tails (op : String) : ∀ cs : List Cst, opTexts (tails op cs) = some (List.replicate cs.length op)
  | [] => by simp [tails, opTexts]
  | c :: cs => by simp [tails, opTexts, opText, opTexts_tails op cs, o, Token.op, List.replicate_succ]

theorem csts_length : ∀ ts : List Term, (csts ts).length = ts.length
  | [] => by simp [csts]
  | t :: ts => by simp [csts, csts_length ts]

theorem allSame_replicate (op : String) (n : Nat) : allSame (List.replicate (n + 1) op) = true := by
  simp [allSame, List.replicate_succ]

theorem litCst_rule (l : Lit) : ∃ r ch, litCst l = .node r ch ∧ (r == "tuplelist_comp" || r == "set_comp") = false := by
  cases l with
  | bool b => cases b <;> exact ⟨_, _, rfl, by decide⟩
  | int i => simp only [litCst]; split <;> exact ⟨_, _, rfl, by decide⟩
  | flt q => simp only [litCst]; split <;> exact ⟨_, _, rfl, by decide⟩
  | _ => exact ⟨_, _, rfl, by decide⟩

theorem walkAll_litCsts {env : Env} (hn : env.NegFolds) : ∀ (vs : List Lit), vs.all litOk = true →
    walkAll env (vs.map litCst) = .ok (vs.map Term.value)
  | [], _ => by simp [walkAll]
  | v :: vs, h => by
    simp only [List.all_cons, Bool.and_eq_true] at h
    simp [walkAll, walk_litCst hn v h.1, walkAll_litCsts hn vs h.2]

theorem filterMap_map_value (vs : List Lit) : (vs.map Term.value).filterMap valueLit? = vs := by
  induction vs with
  | nil => rfl
  | cons v vs ih => simp [valueLit?, ih]

theorem mkList_values (vs : List Lit) (h1 : vs.any (· == Lit.none) = false) (h2 : compatibleTys (vs.map Lit.ty) = true) :
    mkList (vs.map Term.value) = .ok (.list vs) := by
  unfold mkList
  simp only [filterMap_map_value, List.length_map, ne_eq, not_true_eq_false, ↓reduceIte, h1, Bool.false_eq_true, h2,
    Bool.not_true]

theorem dictInsert_fresh (d : List (Lit × Lit)) (k v : Lit) (h : d.any (fun kv => Term.pyEqLit kv.1 k) = false) :
    dictInsert d k v = d ++ [(k, v)] := by
  simp [dictInsert, h]

theorem foldl_dictInsert_nodup : ∀ (kvs acc : List (Lit × Lit)),
    nodupKeys (kvs.map (·.1)) = true →
    (∀ a ∈ acc, ∀ kv ∈ kvs, Term.pyEqLit a.1 kv.1 = false) →
    kvs.foldl (fun d kv => dictInsert d kv.1 kv.2) acc = acc ++ kvs
  | [], acc, _, _ => by simp
  | kv :: kvs, acc, hnd, hacc => by
    simp only [List.map_cons, nodupKeys, Bool.and_eq_true, Bool.not_eq_true'] at hnd
    have hfresh : acc.any (fun x => Term.pyEqLit x.1 kv.1) = false := by
      rw [List.any_eq_false]
      intro a ha
      simpa using hacc a ha kv (by simp)
    simp only [List.foldl_cons, dictInsert_fresh acc kv.1 kv.2 hfresh]
    rw [foldl_dictInsert_nodup kvs (acc ++ [(kv.1, kv.2)]) hnd.2]
    · simp
    · intro a ha x hx
      simp only [List.mem_append, List.mem_singleton] at ha
      rcases ha with ha | ha
      · exact hacc a ha x (by simp [hx])
      · subst ha
        have := hnd.1
        rw [List.any_eq_false] at this
        simpa using this x.1 (by simp; exact ⟨x.2, hx⟩)


theorem walkOdd_tails {env : Env} (op : String) : ∀ (ts : List Term), walkAll env (csts ts) = .ok ts →
    walkOdd env (tails op (csts ts)) = .ok ts
  | [], _ => by simp [csts, tails, walkOdd]
  | t :: ts, h => by
    simp only [csts, walkAll] at h
    cases h1 : walk env (cst t) with
    | error e => simp [h1] at h
    | ok t' =>
      cases h2 : walkAll env (csts ts) with
      | error e => simp [h1, h2] at h
      | ok ts' =>
        simp only [h1, h2, ok_bind, pure, Except.pure, Except.ok.injEq, List.cons.injEq] at h
        obtain ⟨rfl, rfl⟩ := h
        simp [csts, tails, walkOdd, h1, walkOdd_tails op ts' h2]

theorem callMethod_split {env : Env} {recv : Term} {name : String} {args : List Term} {t : Term}
    (h : callMethod env recv name args = .ok t) :
    ∃ b, getMethod env recv name = .ok b ∧ applyBound env b recv args = .ok t := by
  unfold callMethod at h
  cases hg : getMethod env recv name with
  | error e => simp [hg] at h
  | ok b => exact ⟨b, rfl, by simpa [hg] using h⟩

/-- a two-operand level whose single operator is neither k-ary nor a chain is walked as `callMethod a (remap op) [b]` -/
theorem walkLevel_binary {env : Env} {kind : RuleKind} {op : String} {ca cb : Cst} {a b t : Term}
    (ha : walk env ca = .ok a) (hb : walk env cb = .ok b)
    (hmode : levelMode kind [op] = .linear)
    (hcall : callMethod env a (remap env.opRemap op) [b] = .ok t) :
    walkLevel env kind [ca, .tok (o op), cb] = .ok t := by
  obtain ⟨bd, hg, hab⟩ := callMethod_split hcall
  simp [walkLevel, opTexts, opText, o, Token.op, hmode, ha, walkChain, hg, hb, hab]

theorem walkLevel_kary {env : Env} {kind : RuleKind} {op : String}
    (hk : (kind = .arith ∧ op = "+") ∨ (kind = .term ∧ op = "*")) {a : Term} {ca : Cst} {b : Term} {bs : List Term}
    (ha : walk env ca = .ok a) (hw : walkAll env (csts (b :: bs)) = .ok (b :: bs)) {t : Term}
    (hbuild : kopExpr env op (a :: b :: bs) = .ok t) :
    walkLevel env kind (ca :: tails op (csts (b :: bs))) = .ok t := by
  have hodd := walkOdd_tails op (b :: bs) hw
  have hsame : allSame (op :: List.replicate bs.length op) = true := by simp [allSame]
  have hmode : levelMode kind (List.replicate (bs.length + 1) op) = .kary op := by
    rcases hk with ⟨rfl, rfl⟩ | ⟨rfl, rfl⟩ <;> simp [levelMode, hsame, List.replicate_succ]
  have hc1 : ¬ (2 * (bs.length + 1) < 2 ∨ 2 * (bs.length + 1) % 2 ≠ 0) := by omega
  simp only [walkLevel, tails_length, opTexts_tails, csts_length, List.length_cons, Bool.or_eq_true,
    decide_eq_true_eq, hc1, ↓reduceIte, hmode, ha, hodd, ok_bind, hbuild]

theorem cst_inline (op : String) (a b : Term) (rest : List Term) :
    cst (.app op (a :: b :: rest) true false) =
      if op == "**" then .node "power" (csts (a :: b :: rest))
      else if op == "or" then .node "or_test" (csts (a :: b :: rest))
      else if op == "and" then .node "and_test" (csts (a :: b :: rest))
      else .node (if opLevel op == 3 then "comparison" else if opLevel op == 8 then "arith_expr" else "term")
        (interleave op (csts (a :: b :: rest))) := by
  simp only [cst, ↓reduceIte]

theorem walkAll_two {env : Env} {ca cb : Cst} {a b : Term} (ha : walk env ca = .ok a) (hb : walk env cb = .ok b) :
    walkAll env [ca, cb] = .ok [a, b] := by
  simp [walkAll, ha, hb]

theorem bin2_facts (op : String)
    (h : op = "-" ∨ op = "/" ∨ op = "//" ∨ op = "%" ∨ op = "%/%" ∨ op = "==" ∨ op = "!=" ∨ op = "<" ∨ op = "<=" ∨
      op = ">" ∨ op = ">=") :
    (op == "**") = false ∧ (op == "or") = false ∧ (op == "and") = false ∧
    ∃ kind rule, (if opLevel op == 3 then "comparison" else if opLevel op == 8 then "arith_expr" else "term") = rule ∧
      classify rule = kind ∧ (kind = .arith ∨ kind = .term ∨ kind = .comparison) ∧ levelMode kind [op] = .linear := by
  rcases h with rfl | rfl | rfl | rfl | rfl | rfl | rfl | rfl | rfl | rfl | rfl <;>
    exact ⟨by decide, by decide, by decide, _, _, rfl, rfl, by decide, by decide⟩

mutual
theorem walk_cst {env : Env} (hn : env.NegFolds) : ∀ (t : Term), wf env t = true → walk env (cst t) = .ok t
  | .value l, h => by
    simp only [wf] at h
    simpa [cst] using walk_litCst hn l h
  | .col c, h => by
    simp only [wf] at h
    rw [cst, walk.eq_def]; simp only [classify_var]; rw [walk.eq_def]
    simp only [walkTok, Token.nm, h, ↓reduceIte]
  | .list vs, h => by
    simp only [wf, Bool.and_eq_true, Bool.not_eq_true', List.isEmpty_eq_false_iff] at h
    obtain ⟨⟨⟨hne, hall⟩, hnone⟩, hcomp⟩ := h
    match vs, hne, hall, hnone, hcomp with
    | [v], _, hall, hnone, hcomp =>
      obtain ⟨r, ch, hr, hr2⟩ := litCst_rule v
      have hw := walk_litCst hn v (by simpa using hall)
      have hm := mkList_values [v] hnone hcomp
      simp only [cst]
      rw [walk.eq_def]
      simp only [classify_list, hr, hr2, Bool.false_eq_true, ↓reduceIte]
      rw [← hr, hw]
      simpa using hm
    | v :: w :: vs', _, hall, hnone, hcomp =>
      have hw := walkAll_litCsts hn (v :: w :: vs') hall
      have hm := mkList_values (v :: w :: vs') hnone hcomp
      simp only [cst]
      rw [walk.eq_def]
      simp only [classify_list, beq_self_eq_true, Bool.true_or, ↓reduceIte, hw, ok_bind]
      exact hm
  | .dict kvs, h => by
    simp only [wf, Bool.and_eq_true, Bool.not_eq_true', List.isEmpty_eq_false_iff] at h
    obtain ⟨⟨⟨⟨⟨hne, hall⟩, hnone⟩, hnd⟩, hck⟩, hcv⟩ := h
    match kvs, hne, hall, hnone, hnd, hck, hcv with
    | kv :: kvs', _, hall, hnone, hnd, hck, hcv =>
      have hparts : ∀ (l : List (Lit × Lit)), l.all (fun kv => litOk kv.1 && litOk kv.2) = true →
          walkAll env (l.map fun kv => Cst.node "key_value" [litCst kv.1, litCst kv.2])
            = .ok (l.map fun kv => Term.dict [kv]) := by
        intro l
        induction l with
        | nil => intro _; simp [walkAll]
        | cons x xs ih =>
          intro hx
          simp only [List.all_cons, Bool.and_eq_true] at hx
          have hk := walk_litCst hn x.1 hx.1.1
          have hv := walk_litCst hn x.2 hx.1.2
          have : walk env (.node "key_value" [litCst x.1, litCst x.2]) = .ok (.dict [x]) := by
            rw [walk.eq_def]
            simp only [classify_key_value, hk, hv, ok_bind, mkKeyValue]
          simp [walkAll, this, ih hx.2]
      simp only [cst]
      rw [walk.eq_def]
      simp only [classify_dict, hparts _ hall, ok_bind]
      have hflat : ∀ (l : List (Lit × Lit)),
          (l.map fun kv => Term.dict [kv]).mapM dictEntries = .ok (l.map fun kv => [kv]) := by
        intro l
        induction l with
        | nil => rfl
        | cons x xs ih => simp [List.mapM_cons, ih, dictEntries]
      unfold mkDict
      simp only [hflat, ok_bind]
      have hfl : ((kv :: kvs').map fun kv => [kv]).flatten = kv :: kvs' := by
        simp [List.flatten_eq_flatMap, List.flatMap_map]
      simp only [hfl, hnone, Bool.false_eq_true, ↓reduceIte]
      have := foldl_dictInsert_nodup (kv :: kvs') [] hnd (by simp)
      simp only [List.nil_append] at this
      simp only [this, hck, hcv, Bool.not_true, Bool.false_eq_true, ↓reduceIte]
  | .app op [] inline method, h => by
    simp only [wf, Bool.and_eq_true] at h
    obtain ⟨_, hshape⟩ := h
    match inline, method, hshape with
    | false, false, hshape =>
      simp only [shapeOk] at hshape
      have := okEq_eq hshape
      simp only [cst]
      rw [walk.eq_def]
      simp [classify_funccall, walkArgs, Token.nm, this]
    | true, _, hshape => simp [shapeOk] at hshape
    | false, true, hshape => simp [shapeOk] at hshape
  | .app op [a] inline method, h => by
    simp only [wf, wfs, Bool.and_eq_true, and_true] at h
    obtain ⟨hwa, hshape⟩ := h
    have ha := walk_cst hn a hwa
    match inline, method, hshape with
    | true, false, hshape =>
      simp only [shapeOk, Bool.and_eq_true, beq_iff_eq] at hshape
      obtain ⟨rfl, hcall⟩ := hshape
      have hcall := okEq_eq hcall
      simp only [cst, ↓reduceIte]
      rw [walk.eq_def]
      simp only [classify_factor, opText, o, Token.op, ha, ok_bind, hcall]
    | false, true, hshape =>
      simp only [shapeOk] at hshape
      have hcall := okEq_eq hshape
      simp only [cst, Bool.false_eq_true, ↓reduceIte]
      rw [walk.eq_def]
      simp [classify_funccall, ha, opText, Token.nm, walkArgs, hcall]
    | false, false, hshape =>
      simp only [shapeOk] at hshape
      have hcall := okEq_eq hshape
      simp only [cst, Bool.false_eq_true, ↓reduceIte]
      rw [walk.eq_def]
      simp [classify_funccall, walkArgs, walkAll, ha, Token.nm, hcall]
    | true, true, hshape => simp [shapeOk] at hshape
  | .app op (a :: b :: rest) inline method, h => by
    simp only [wf, Bool.and_eq_true] at h
    obtain ⟨hargs, hshape⟩ := h
    have hall := walkAll_csts hn (a :: b :: rest) hargs
    simp only [wfs, Bool.and_eq_true] at hargs
    have ha := walk_cst hn a hargs.1
    have hb := walk_cst hn b hargs.2.1
    have hrest := walkAll_csts hn (b :: rest) (by simp [wfs, hargs.2.1, hargs.2.2])
    match inline, method, hshape with
    | true, false, hshape =>
      simp only [shapeOk] at hshape
      split at hshape
      · -- k-ary `+ * and or`
        rename_i hk
        have hbuild := okEq_eq hshape
        simp only [karyOps, List.contains_cons, List.contains_nil, Bool.or_false, Bool.or_eq_true, beq_iff_eq] at hk
        rcases hk with rfl | rfl | rfl | rfl
        · rw [cst_inline]
          simp only [show ("+" == "**") = false by decide, show ("+" == "or") = false by decide,
            show ("+" == "and") = false by decide, show (opLevel "+" == 3) = false by decide,
            show (opLevel "+" == 8) = true by decide, Bool.false_eq_true, ↓reduceIte]
          rw [walk.eq_def]
          simp only [classify_arith_expr]
          rw [show csts (a :: b :: rest) = cst a :: csts (b :: rest) by simp [csts], interleave_cons]
          exact walkLevel_kary (Or.inl ⟨rfl, rfl⟩) ha hrest hbuild
        · rw [cst_inline]
          simp only [show ("*" == "**") = false by decide, show ("*" == "or") = false by decide,
            show ("*" == "and") = false by decide, show (opLevel "*" == 3) = false by decide,
            show (opLevel "*" == 8) = false by decide, Bool.false_eq_true, ↓reduceIte]
          rw [walk.eq_def]
          simp only [classify_term]
          rw [show csts (a :: b :: rest) = cst a :: csts (b :: rest) by simp [csts], interleave_cons]
          exact walkLevel_kary (Or.inr ⟨rfl, rfl⟩) ha hrest hbuild
        · rw [cst_inline]
          simp only [show ("and" == "**") = false by decide, show ("and" == "or") = false by decide,
            beq_self_eq_true, Bool.false_eq_true, ↓reduceIte]
          rw [walk.eq_def]
          have hlen : ¬ (csts (a :: b :: rest)).length < 2 := by simp [csts_length]
          simp only [classify_and_test, hlen, ↓reduceIte, hall, ok_bind, hbuild]
        · rw [cst_inline]
          simp only [show ("or" == "**") = false by decide, beq_self_eq_true, Bool.false_eq_true, ↓reduceIte]
          rw [walk.eq_def]
          have hlen : ¬ (csts (a :: b :: rest)).length < 2 := by simp [csts_length]
          simp only [classify_or_test, hlen, ↓reduceIte, hall, ok_bind, hbuild]
      · -- a two-argument operator
        simp only [Bool.and_eq_true, List.isEmpty_iff] at hshape
        obtain ⟨⟨hre, hop⟩, hcall⟩ := hshape
        subst hre
        have hcall := okEq_eq hcall
        simp only [bin2Ops, List.contains_cons, List.contains_nil, Bool.or_false, Bool.or_eq_true, beq_iff_eq] at hop
        rw [cst_inline]
        by_cases hpow : op = "**"
        · subst hpow
          simp only [beq_self_eq_true, ↓reduceIte, csts]
          rw [walk.eq_def]
          simp only [classify_power, List.length_cons, List.length_nil, Nat.lt_irrefl, ↓reduceIte,
            walkAll_two ha hb, ok_bind, List.foldlM]
          simp only [remapX, beq_self_eq_true, ↓reduceIte] at hcall
          simp [hcall]
        · have hop' : op = "-" ∨ op = "/" ∨ op = "//" ∨ op = "%" ∨ op = "%/%" ∨ op = "==" ∨ op = "!=" ∨ op = "<" ∨
              op = "<=" ∨ op = ">" ∨ op = ">=" := by
            rcases hop with h | h | h | h | h | h | h | h | h | h | h | h <;> simp_all
          obtain ⟨h1, h2, h3, kind, rule, hr, hc, hk, hm⟩ := bin2_facts op hop'
          simp only [remapX, h1, Bool.false_eq_true, ↓reduceIte] at hcall
          simp only [h1, h2, h3, Bool.false_eq_true, ↓reduceIte, hr, csts, interleave]
          rw [walk.eq_def]
          simp only [hc]
          rcases hk with rfl | rfl | rfl <;> exact walkLevel_binary ha hb hm hcall
    | false, true, hshape =>
      simp only [shapeOk] at hshape
      have hcall := okEq_eq hshape
      simp only [cst, Bool.false_eq_true, ↓reduceIte]
      rw [walk.eq_def]
      simp [classify_funccall, ha, opText, Token.nm, walkArgs, hrest, hcall]
    | false, false, hshape =>
      simp only [shapeOk] at hshape
      have hcall := okEq_eq hshape
      simp only [cst, Bool.false_eq_true, ↓reduceIte]
      rw [walk.eq_def]
      simp [classify_funccall, walkArgs, hall, Token.nm, hcall]
    | true, true, hshape => simp [shapeOk] at hshape
theorem walkAll_csts {env : Env} (hn : env.NegFolds) : ∀ (ts : List Term), wfs env ts = true →
    walkAll env (csts ts) = .ok ts
  | [], _ => by simp [csts, walkAll]
  | t :: ts, h => by
    simp only [wfs, Bool.and_eq_true] at h
    simp [csts, walkAll, walk_cst hn t h.1, walkAll_csts hn ts h.2]
end

end DAVerif.Expr
