import DAVerif.Proofs.SqlReach
import DAVerif.Proofs.SolRankCmp
import DAVerif.Proofs.SolLocfSql
/-!
C21, `last_observed_carried_forward` for an **arbitrary row comparison**: `Proofs/SolLocf.lean` (about `sem`, i.e.
`rowLe`: missing values last, and the Pandas interpretation) ported to `semG le` for every comparison with `CmpLex`
(`Proofs/SolRankCmp.lean`) and every interpretation with `LocfSem` (`Proofs/SolLocfSql.lean`).  The counting core
(`Proofs/SolLocfCore.lean`) and everything that does not mention the comparison is reused as it is.  The text follows
`Proofs/SolLocf.lean` lemma by lemma; definitions that depend on the comparison carry a `G`.

Result: `semG_locfTree` (Pandas join configuration) and, under the guard "no partition key is missing",
`semG_locfTree_ref` (standard SQL join); `locf_sql_full`: the SQL-side statement without a guard on missing order keys.
-/
namespace DAVerif
namespace Sol21Sql
namespace Cmp
open DAVerif.Sql DAVerif.Sol DAVerif.Solutions DAVerif.Spec21 DAVerif.Sol21Sql

set_option linter.unusedSectionVars false
set_option linter.unusedSimpArgs false
set_option linter.unusedVariables false

/-! ### the order (order_by, tie breaker) on row positions -/

section
variable {le : RowCmp} (hle : CmpLex le)
include hle


/-! ### the order (order_by, tie breaker) on row positions -/

/-- position `k` comes strictly before position `i`: earlier in `order_by`, or tied there and with the smaller
tie-breaking number -/
def beforeIG (le : RowCmp) (ob : List String) (rows0 : List Row) (T : Nat → Nat) (k i : Nat) : Bool :=
  ltOG le ob rows0 k i || (tieO ob rows0 k i && decide (T k < T i))

theorem tieO_iff_le {ob : List String} {rows0 : List Row} {k i : Nat} :
    tieO ob rows0 k i = true ↔
      (le ob [] (rows0.getD k []) (rows0.getD i []) = true ∧ le ob [] (rows0.getD i []) (rows0.getD k []) = true) := by
  simp only [tieO, beq_iff_eq]
  exact (hle.tie ob [] _ _).symm

theorem ltO_congr_right {ob : List String} {rows0 : List Row} {i j k : Nat} (h : tieO ob rows0 j k = true) :
    ltOG le ob rows0 i j = ltOG le ob rows0 i k := by
  have hg := tieO_iff.mp h
  simp only [ltOG]
  rw [hle.congr _ _ _ _ _ _ (fun _ _ => rfl) hg, hle.congr _ _ _ _ _ _ hg (fun _ _ => rfl)]

theorem ltO_congr_left {ob : List String} {rows0 : List Row} {i j k : Nat} (h : tieO ob rows0 i j = true) :
    ltOG le ob rows0 i k = ltOG le ob rows0 j k := by
  have hg := tieO_iff.mp h
  simp only [ltOG]
  rw [hle.congr _ _ _ _ _ _ hg (fun _ _ => rfl), hle.congr _ _ _ _ _ _ (fun _ _ => rfl) hg]

theorem ltO_trans {ob : List String} {rows0 : List Row} {i j k : Nat} (h1 : ltOG le ob rows0 i j = true)
    (h2 : ltOG le ob rows0 j k = true) : ltOG le ob rows0 i k = true := by
  simp only [ltOG, Bool.and_eq_true, Bool.not_eq_true'] at h1 h2 ⊢
  refine ⟨hle.trans _ _ _ _ _ h1.1 h2.1, ?_⟩
  cases h : le ob [] (rows0.getD k []) (rows0.getD i []) with
  | false => rfl
  | true =>
    have := hle.trans _ _ _ _ _ h h1.1
    rw [h2.2] at this
    cases this

theorem ltO_irrefl (ob : List String) (rows0 : List Row) (i : Nat) : ltOG le ob rows0 i i = false := by
  simp [ltOG, hle.refl]

/-- `beforeIG le` is a strict total order on the positions when the tie-breaking numbers are different -/
theorem ord_beforeI (ob part : List String) (rows0 : List Row) (T : Nat → Nat)
    (hT : ∀ j k, j < rows0.length → k < rows0.length → T j = T k → j = k) :
    Locf.Ord rows0.length (beforeIG le ob rows0 T) (sameP part rows0) where
  irrefl := by
    intro i
    simp [beforeIG, ltO_irrefl hle]
  trans := by
    intro i j k _ _ _ h1 h2
    simp only [beforeIG, Bool.or_eq_true, Bool.and_eq_true, decide_eq_true_eq] at h1 h2 ⊢
    rcases h1 with h1 | ⟨t1, l1⟩
    · rcases h2 with h2 | ⟨t2, _⟩
      · exact Or.inl (ltO_trans hle h1 h2)
      · exact Or.inl (by rw [← ltO_congr_right hle t2]; exact h1)
    · rcases h2 with h2 | ⟨t2, l2⟩
      · exact Or.inl (by rw [ltO_congr_left hle t1]; exact h2)
      · exact Or.inr ⟨tieO_trans t1 t2, by omega⟩
  total := by
    intro i j hi hj hne
    simp only [beforeIG, Bool.or_eq_true, Bool.and_eq_true, decide_eq_true_eq]
    by_cases ht : tieO ob rows0 i j = true
    · have hne' : T i ≠ T j := fun e => hne (hT i j hi hj e)
      rcases Nat.lt_or_gt_of_ne hne' with h | h
      · exact Or.inl (Or.inr ⟨ht, h⟩)
      · exact Or.inr (Or.inr ⟨tieO_symm ht, h⟩)
    · have htot := hle.total ob [] (rows0.getD i []) (rows0.getD j [])
      simp only [Bool.or_eq_true] at htot
      have hnt : ¬ (le ob [] (rows0.getD i []) (rows0.getD j []) = true ∧
          le ob [] (rows0.getD j []) (rows0.getD i []) = true) := fun h => ht ((tieO_iff_le hle).mpr h)
      rcases htot with h | h
      · left; left
        simp only [ltOG, Bool.and_eq_true, Bool.not_eq_true']
        refine ⟨h, ?_⟩
        cases h' : le ob [] (rows0.getD j []) (rows0.getD i []) with
        | false => rfl
        | true => exact absurd ⟨h, h'⟩ hnt
      · right; left
        simp only [ltOG, Bool.and_eq_true, Bool.not_eq_true']
        refine ⟨h, ?_⟩
        cases h' : le ob [] (rows0.getD i []) (rows0.getD j []) with
        | false => rfl
        | true => exact absurd ⟨h', h⟩ hnt
  prefl := by intro i; simp [sameP]
  psymm := by
    intro i j h
    simp only [sameP, beq_iff_eq] at h ⊢
    exact h.symm
  ptrans := by
    intro i j k h1 h2
    simp only [sameP, beq_iff_eq] at h1 h2 ⊢
    exact h1.trans h2

/-- rows that carry the tie-breaking number `T j` in column `tb` and agree with the input rows on `order_by`:
strictly before on `order_by ++ [tb]` is `beforeIG le` -/
theorem strict_tb_eq {ob : List String} {tb : String} {rows0 R : List Row} {T : Nat → Nat} {k j : Nat}
    (hk : ∀ c ∈ ob, (R.getD k []).get c = (rows0.getD k []).get c)
    (hj : ∀ c ∈ ob, (R.getD j []).get c = (rows0.getD j []).get c)
    (htk : (R.getD k []).get tb = Val.num ((T k : Nat) : Rat))
    (htj : (R.getD j []).get tb = Val.num ((T j : Nat) : Rat)) :
    (le (ob ++ [tb]) [] (R.getD k []) (R.getD j []) && !le (ob ++ [tb]) [] (R.getD j []) (R.getD k []))
      = beforeIG le ob rows0 T k j := by
  have ek : keyOf (R.getD k []) ob = keyOf (rows0.getD k []) ob := Sol.keyOf_congr hk
  have ej : keyOf (R.getD j []) ob = keyOf (rows0.getD j []) ob := Sol.keyOf_congr hj
  have c1 : le ob [] (R.getD k []) (R.getD j []) = le ob [] (rows0.getD k []) (rows0.getD j []) :=
    hle.congr _ _ _ _ _ _ hk hj
  have c2 : le ob [] (R.getD j []) (R.getD k []) = le ob [] (rows0.getD j []) (rows0.getD k []) :=
    hle.congr _ _ _ _ _ _ hj hk
  have t1 := hle.singleNum tb _ _ _ _ htk htj
  have t2 := hle.singleNum tb _ _ _ _ htj htk
  rw [hle.append, hle.append, ek, ej, c1, c2, t1, t2, beforeIG]
  by_cases ht : keyOf (rows0.getD k []) ob = keyOf (rows0.getD j []) ob
  · have htt : tieO ob rows0 k j = true := by simpa [tieO] using ht
    have hl : ltOG le ob rows0 k j = false := by
      cases h : ltOG le ob rows0 k j with
      | false => rfl
      | true =>
        have := (tieO_iff_le hle).mp htt
        simp only [ltOG, Bool.and_eq_true, Bool.not_eq_true'] at h
        rw [this.2] at h
        exact absurd h.2 (by simp)
    rw [if_pos ht, if_pos ht.symm, hl, htt]
    simp only [Bool.true_and, Bool.false_or]
    exact decide_le_not_le _ _
  · have ht' : ¬ keyOf (rows0.getD j []) ob = keyOf (rows0.getD k []) ob := fun e => ht e.symm
    have : tieO ob rows0 k j = false := by simpa [tieO] using ht
    rw [if_neg ht, if_neg ht', this]
    simp only [Bool.false_and, Bool.or_false, ltOG]



end

/-- the row-number step for an interpretation with `LocfSem` -/
theorem stage1L {le : RowCmp} {Θ : Interp} (hΘ : LocfSem Θ) {tb : String} {ob : List String} (t : Table)
    (oc : List String) :
    semExtendWindowG le Θ [(tb, fcall0 "_row_number")] [] ob [] t oc
      = ⟨oc, addCol oc tb (fun j => Val.num ((rk1G le ob t.rows j : Nat) : Rat)) t.rows⟩ := by
  rw [semExtendWindowG_single]
  congr 1
  apply addCol_congr
  intro i _
  simp only [winValG, fcall0, opName, hΘ.rowNumber, rk1G]

/-! ### the stages as functions of the row position -/


/-- the helper's tie-breaking row number of position `j` -/
def tbAG (le : RowCmp) (cols ob part : List String) (v use : String) (rows0 : List Row) (j : Nat) : Nat :=
  rk1G le (part ++ ob) (rowsA cols v use rows0) j

def rowsBG (le : RowCmp) (cols ob part : List String) (v use tb : String) (rows0 : List Row) : List Row :=
  addCol (cols ++ [use, tb]) tb (fun j => Val.num ((tbAG le cols ob part v use rows0 j : Nat) : Rat)) (rowsA cols v use rows0)

/-- the number of non-missing values of `j`'s partition at or before `j` -/
def cntIG (le : RowCmp) (cols ob part : List String) (v use : String) (rows0 : List Row) (j : Nat) : Nat :=
  Locf.cnt rows0.length (beforeIG le ob rows0 (tbAG le cols ob part v use rows0)) (sameP part rows0) (nnI v rows0) j

def rowsCG (le : RowCmp) (cols ob part : List String) (v use rk tb : String) (rows0 : List Row) : List Row :=
  addCol (cols ++ [use, tb, rk]) rk (fun j => Val.num ((cntIG le cols ob part v use rows0 j : Nat) : Rat))
    (rowsBG le cols ob part v use tb rows0)

set_option linter.unusedSectionVars false
section
variable {le : RowCmp} (hle : CmpLex le)
variable {cols ob part : List String} {v use rk tb : String} (hc : LocfCtx cols ob part v use rk tb)
  (rows0 : List Row)
include hle hc

theorem length_rowsA : (rowsA cols v use rows0).length = rows0.length := by simp [rowsA]
theorem length_rowsB : (rowsBG le cols ob part v use tb rows0).length = rows0.length := by simp [rowsBG, rowsA]
theorem length_rowsC : (rowsCG le cols ob part v use rk tb rows0).length = rows0.length := by simp [rowsCG, rowsBG, rowsA]

theorem ne_use {c : String} (h : c ∈ cols) : c ≠ use := fun e => hc.use_new (e ▸ h)
theorem ne_tb {c : String} (h : c ∈ cols) : c ≠ tb := fun e => hc.tb_new (e ▸ h)
theorem ne_rk {c : String} (h : c ∈ cols) : c ≠ rk := fun e => hc.rk_new (e ▸ h)

theorem get_rowsA {j : Nat} (hj : j < rows0.length) {c : String} (h : c ∈ cols) :
    ((rowsA cols v use rows0).getD j []).get c = (rows0.getD j []).get c := by
  rw [rowsA, get_addCol _ _ _ _ _ hj (List.mem_append_left _ h)]
  simp [ne_use hle hc h]

theorem get_rowsA_use {j : Nat} (hj : j < rows0.length) :
    ((rowsA cols v use rows0).getD j []).get use = flagVal (nnI v rows0 j) := by
  rw [rowsA, get_addCol _ _ _ _ _ hj (by simp)]
  simp

theorem get_rowsB {j : Nat} (hj : j < rows0.length) {c : String} (h : c ∈ cols) :
    ((rowsBG le cols ob part v use tb rows0).getD j []).get c = (rows0.getD j []).get c := by
  rw [rowsBG, get_addCol _ _ _ _ _ (by rw [length_rowsA hle hc]; exact hj) (List.mem_append_left _ h)]
  simp only [ne_tb hle hc h, if_false]
  exact get_rowsA hle hc rows0 hj h

theorem get_rowsB_use {j : Nat} (hj : j < rows0.length) :
    ((rowsBG le cols ob part v use tb rows0).getD j []).get use = flagVal (nnI v rows0 j) := by
  rw [rowsBG, get_addCol _ _ _ _ _ (by rw [length_rowsA hle hc]; exact hj) (by simp)]
  simp only [hc.use_ne_tb, if_false]
  exact get_rowsA_use hle hc rows0 hj

theorem get_rowsB_tb {j : Nat} (hj : j < rows0.length) :
    ((rowsBG le cols ob part v use tb rows0).getD j []).get tb
      = Val.num ((tbAG le cols ob part v use rows0 j : Nat) : Rat) := by
  rw [rowsBG, get_addCol _ _ _ _ _ (by rw [length_rowsA hle hc]; exact hj) (by simp)]
  simp

theorem get_rowsC {j : Nat} (hj : j < rows0.length) {c : String} (h : c ∈ cols) :
    ((rowsCG le cols ob part v use rk tb rows0).getD j []).get c = (rows0.getD j []).get c := by
  rw [rowsCG, get_addCol _ _ _ _ _ (by rw [length_rowsB hle hc]; exact hj) (List.mem_append_left _ h)]
  simp only [ne_rk hle hc h, if_false]
  exact get_rowsB hle hc rows0 hj h

theorem get_rowsC_use {j : Nat} (hj : j < rows0.length) :
    ((rowsCG le cols ob part v use rk tb rows0).getD j []).get use = flagVal (nnI v rows0 j) := by
  rw [rowsCG, get_addCol _ _ _ _ _ (by rw [length_rowsB hle hc]; exact hj) (by simp)]
  simp only [hc.use_ne_rk, if_false]
  exact get_rowsB_use hle hc rows0 hj

theorem get_rowsC_rk {j : Nat} (hj : j < rows0.length) :
    ((rowsCG le cols ob part v use rk tb rows0).getD j []).get rk
      = Val.num ((cntIG le cols ob part v use rows0 j : Nat) : Rat) := by
  rw [rowsCG, get_addCol _ _ _ _ _ (by rw [length_rowsB hle hc]; exact hj) (by simp)]
  simp

/-- the tie-breaking numbers of different positions differ -/
theorem tbA_inj {j k : Nat} (hj : j < rows0.length) (hk : k < rows0.length)
    (h : tbAG le cols ob part v use rows0 j = tbAG le cols ob part v use rows0 k) : j = k := by
  by_cases e : j = k
  · exact e
  · exfalso
    have hjA : j < (rowsA cols v use rows0).length := by rw [length_rowsA hle hc]; exact hj
    have hkA : k < (rowsA cols v use rows0).length := by rw [length_rowsA hle hc]; exact hk
    have := winPos_ne (le := le) (p := []) (o := part ++ ob) (rv := []) hjA hkA rfl e
    simp only [tbAG, rk1G] at h
    omega

theorem ordI : Locf.Ord rows0.length (beforeIG le ob rows0 (tbAG le cols ob part v use rows0)) (sameP part rows0) :=
  ord_beforeI hle ob part rows0 _ (fun j k hj hk h => tbA_inj hle hc rows0 hj hk h)

/-- the window order of the `cumsum` step is total -/
theorem totalB (j : Nat) : ∀ a ∈ winPart part (rowsBG le cols ob part v use tb rows0) j,
    ∀ b ∈ winPart part (rowsBG le cols ob part v use tb rows0) j,
      le (ob ++ [tb]) [] a.1 b.1 = true → le (ob ++ [tb]) [] b.1 a.1 = true → a = b := by
  intro a ha b hb h1 h2
  have ha' := (mem_winPart.mp ha).1
  have hb' := (mem_winPart.mp hb).1
  obtain ⟨ra, ja⟩ := a
  obtain ⟨rb, jb⟩ := b
  obtain ⟨ea, hja⟩ := getD_of_mem_zipIdx ha'
  obtain ⟨eb, hjb⟩ := getD_of_mem_zipIdx hb'
  rw [length_rowsB hle hc] at hja hjb
  have htie := keyOf_eq_iff.mp ((hle.tie (ob ++ [tb]) [] ra rb).mp ⟨h1, h2⟩) tb (by simp)
  rw [← ea, ← eb, get_rowsB_tb hle hc rows0 hja, get_rowsB_tb hle hc rows0 hjb] at htie
  have : tbAG le cols ob part v use rows0 ja = tbAG le cols ob part v use rows0 jb := by
    have := Val.num.inj htie
    exact_mod_cast this
  exact zipIdx_snd_inj ha' hb' (tbA_inj hle hc rows0 hja hjb this)

/-- **The `cumsum` step counts the non-missing values at or before each position.** -/
theorem cumsum_eq_cnt {Θ : Interp} (hΘ : LocfSem Θ) {j : Nat} (hj : j < rows0.length) :
    winValG le Θ (mcall "cumsum" (.col use)) part (ob ++ [tb]) []
      (rowsBG le cols ob part v use tb rows0) j
      = Val.num ((cntIG le cols ob part v use rows0 j : Nat) : Rat) := by
  have hjB : j < (rowsBG le cols ob part v use tb rows0).length := by rw [length_rowsB hle hc]; exact hj
  simp only [winValG]
  have h1 : opName (mcall "cumsum" (.col use)) = "cumsum" := rfl
  have h2 : constArgs (mcall "cumsum" (.col use)) = [] := rfl
  have h3 : ∀ rows : List Row, argValues (mcall "cumsum" (.col use)) rows = rows.map (fun r => r.get use) :=
    fun _ => rfl
  rw [h1, h2, h3, List.map_map]
  have hnn : (((winSortedG le part (ob ++ [tb]) [] (rowsBG le cols ob part v use tb rows0) j).map
      ((fun r : Row => r.get use) ∘ fun x => x.1)).getD
        (winPosG le part (ob ++ [tb]) [] (rowsBG le cols ob part v use tb rows0) j) Val.null).isNull = false := by
    have hlt := winPos_lt (le := le) (p := part) (o := ob ++ [tb]) (rv := []) hjB
    rw [getD_eq _ (by simpa using hlt)]
    simp only [List.getElem_map, Function.comp]
    rw [winSorted_getElem_winPos hjB, get_rowsB_use hle hc rows0 hj]
    cases nnI v rows0 j <;> rfl
  rw [hΘ.cumsum _ _ hnn]
  -- the flags of the sorted window
  have hflags : (winSortedG le part (ob ++ [tb]) [] (rowsBG le cols ob part v use tb rows0) j).map
      ((fun r : Row => r.get use) ∘ fun x => x.1)
      = (winSortedG le part (ob ++ [tb]) [] (rowsBG le cols ob part v use tb rows0) j).map
          (fun y => flagVal (nnI v rows0 y.2)) := by
    apply List.map_congr_left
    intro y hy
    have hy' := (mem_winPart.mp ((winSorted_perm _ _ _ _ _).mem_iff.mp hy)).1
    obtain ⟨r, k⟩ := y
    obtain ⟨e, hk⟩ := getD_of_mem_zipIdx hy'
    rw [length_rowsB hle hc] at hk
    simp only [Function.comp]
    rw [← e, get_rowsB_use hle hc rows0 hk]
  rw [hflags, cumulate_flags _ (fun y => nnI v rows0 y.2) _ (winPos_lt hjB)]
  congr 2
  -- the prefix of the sorted window = the rows that `j` is not strictly before
  have hpw := winSorted_pairwise hle part (ob ++ [tb]) [] (rowsBG le cols ob part v use tb rows0) j
  have hperm := winSorted_perm (le := le) part (ob ++ [tb]) [] (rowsBG le cols ob part v use tb rows0) j
  have hnd : (winSortedG le part (ob ++ [tb]) [] (rowsBG le cols ob part v use tb rows0) j).Nodup :=
    hperm.nodup_iff.mpr ((zipIdx_nodup _).filter _)
  have hanti : ∀ u ∈ winSortedG le part (ob ++ [tb]) [] (rowsBG le cols ob part v use tb rows0) j,
      ∀ w ∈ winSortedG le part (ob ++ [tb]) [] (rowsBG le cols ob part v use tb rows0) j,
      le (ob ++ [tb]) [] u.1 w.1 = true → le (ob ++ [tb]) [] w.1 u.1 = true → u = w :=
    fun u hu w hw => totalB hle hc rows0 j u (hperm.mem_iff.mp hu) w (hperm.mem_iff.mp hw)
  rw [take_succ_eq_filter (fun (a b : Row × Nat) => le (ob ++ [tb]) [] a.1 b.1) _ _ (winPos_lt hjB) _
    (winSorted_getElem_winPos hjB) hpw hanti hnd]
  rw [List.countP_filter, hperm.countP_eq, countP_winPart, length_rowsB hle hc, cntIG, Locf.cnt]
  apply countP_congr_mem
  intro k hk
  have hk := List.mem_range.mp hk
  simp only [sameP]
  rw [Sol.keyOf_congr (fun c hcc => get_rowsB hle hc rows0 hk (hc.part_sub c hcc)),
    Sol.keyOf_congr (fun c hcc => get_rowsB hle hc rows0 hj (hc.part_sub c hcc))]
  have hs := strict_tb_eq hle (ob := ob) (tb := tb) (rows0 := rows0) (R := rowsBG le cols ob part v use tb rows0)
    (T := tbAG le cols ob part v use rows0) (k := j) (j := k)
    (fun c hcc => get_rowsB hle hc rows0 hj (hc.ob_sub c hcc)) (fun c hcc => get_rowsB hle hc rows0 hk (hc.ob_sub c hcc))
    (get_rowsB_tb hle hc rows0 hj) (get_rowsB_tb hle hc rows0 hk)
  rw [hs, Bool.and_assoc]

end

set_option linter.unusedSectionVars false
section
variable {le : RowCmp} (hle : CmpLex le)
variable {cols ob part : List String} {v use rk tb : String} (hc : LocfCtx cols ob part v use rk tb)
  (rows0 : List Row)
include hle hc

/-- positions of the non-missing rows of `i`'s partition with the same count as `i` -/
def hitsIG (le : RowCmp) (cols ob part : List String) (v use : String) (rows0 : List Row) (i : Nat) : List Nat :=
  Locf.hits rows0.length (beforeIG le ob rows0 (tbAG le cols ob part v use rows0)) (sameP part rows0) (nnI v rows0) i

/-- the non-missing rows, restricted to the join columns (the `b` side of the join) -/
def rowsSelG (le : RowCmp) (cols ob part : List String) (v use rk tb : String) (rows0 : List Row) : List Row :=
  ((List.range rows0.length).filter (nnI v rows0)).map
    (fun j => ((rowsCG le cols ob part v use rk tb rows0).getD j []).select (part ++ [rk, v]))

theorem keyOf_rowsC_K {j : Nat} (hj : j < rows0.length) :
    keyOf ((rowsCG le cols ob part v use rk tb rows0).getD j []) (part ++ [rk])
      = keyOf (rows0.getD j []) part ++ [Val.num ((cntIG le cols ob part v use rows0 j : Nat) : Rat)] := by
  rw [keyOf_append, Sol.keyOf_congr (fun c hcc => get_rowsC hle hc rows0 hj (hc.part_sub c hcc))]
  simp only [keyOf, Row.vals, List.map_cons, List.map_nil, get_rowsC_rk hle hc rows0 hj]

/-- which rows of the `b` side match position `i` -/
theorem match_eq_hits {i : Nat} (hi : i < rows0.length) :
    (rowsSelG le cols ob part v use rk tb rows0).filter (fun rb =>
      keyOf ((rowsCG le cols ob part v use rk tb rows0).getD i []) (part ++ [rk]) == keyOf rb (part ++ [rk]))
    = (hitsIG le cols ob part v use rows0 i).map
        (fun j => ((rowsCG le cols ob part v use rk tb rows0).getD j []).select (part ++ [rk, v])) := by
  rw [rowsSelG, List.filter_map, List.filter_filter]
  congr 1
  rw [hitsIG, Locf.hits]
  apply List.filter_congr
  intro j hj
  have hj := List.mem_range.mp hj
  simp only [Function.comp]
  have hsel : keyOf (((rowsCG le cols ob part v use rk tb rows0).getD j []).select (part ++ [rk, v])) (part ++ [rk])
      = keyOf ((rowsCG le cols ob part v use rk tb rows0).getD j []) (part ++ [rk]) := by
    apply Sol.keyOf_congr
    intro c hcc
    apply Row.select_get_of_mem
    rcases List.mem_append.mp hcc with h | h
    · exact List.mem_append_left _ h
    · simp only [List.mem_singleton] at h; subst h; simp
  rw [hsel, keyOf_rowsC_K hle hc rows0 hi, keyOf_rowsC_K hle hc rows0 hj]
  rw [Bool.and_comm, Bool.and_assoc]
  congr 1
  rw [Bool.eq_iff_iff]
  simp only [beq_iff_eq, Bool.and_eq_true, sameP, cntIG]
  constructor
  · intro h
    have hlen : (keyOf (rows0.getD i []) part).length = (keyOf (rows0.getD j []) part).length := by
      simp [keyOf, Row.vals]
    obtain ⟨h1, h2⟩ := List.append_inj h hlen
    simp only [List.cons.injEq, Val.num.injEq, and_true] at h2
    exact ⟨h1.symm, by exact_mod_cast h2.symm⟩
  · rintro ⟨h1, h2⟩
    rw [h1, h2]

/-- cells of a row of the join: the left row, with the value column filled from the right row -/
theorem joined_get (i : Nat) (hi : i < rows0.length) (rb : Option Row) {c : String} (hcc : c ∈ cols)
    (hpart : ∀ r, rb = some r → ∀ p ∈ part, r.get p = (rows0.getD i []).get p) :
    (joinRow (cols ++ [use, tb, rk]) (part ++ [rk, v]) (cols ++ [use, tb, rk])
      (some ((rowsCG le cols ob part v use rk tb rows0).getD i [])) rb).get c
    = if c = v then
        (if ((rows0.getD i []).get v).isNull then (match rb with | some r => r.get v | none => Val.null)
         else (rows0.getD i []).get v)
      else (rows0.getD i []).get c := by
  rw [joinRow, get_map_mk _ _ (List.mem_append_left _ hcc)]
  have h1 : (cols ++ [use, tb, rk]).contains c = true := by simp [hcc]
  simp only [h1, if_true, get_rowsC hle hc rows0 hi hcc]
  by_cases hv : c = v
  · subst hv
    have h2 : (part ++ [rk, c]).contains c = true := by simp
    simp only [h2, if_true]
    cases rb <;> rfl
  · simp only [hv, if_false]
    by_cases hp : c ∈ part
    · have h2 : (part ++ [rk, v]).contains c = true := by simp [hp]
      cases rb with
      | none =>
        simp only []
        cases h : (rows0.getD i []).get c <;> simp [Val.isNull]
      | some r =>
        simp only [h2, if_true, hpart r rfl c hp]
        cases h : (rows0.getD i []).get c <;> simp [Val.isNull]
    · have hne : c ≠ rk := ne_rk hle hc hcc
      have h2 : (part ++ [rk, v]).contains c = false := by simp [hp, hne, hv]
      cases rb with
      | none =>
        simp only []
        cases h : (rows0.getD i []).get c <;> simp [Val.isNull]
      | some r =>
        simp only [h2, Bool.false_eq_true, if_false]
        cases h : (rows0.getD i []).get c <;> simp [Val.isNull]

end

/-! ### the specification, by position -/

theorem locfBefore_eq {le : RowCmp} (hle : CmpLex le) (ob : List String) (T : Nat → Nat) (rows0 : List Row) (j i : Nat) :
    locfBefore (le ob []) T rows0 j i = beforeIG le ob rows0 T j i := by
  simp only [locfBefore, beforeIG, strictlyBefore, tiesWith, ltOG]
  congr 2
  rw [Bool.eq_iff_iff]
  simp only [Bool.and_eq_true]
  exact (tieO_iff_le hle).symm

/-- the value the pipeline leaves at position `i` -/
def fillIG (le : RowCmp) (cols ob part : List String) (v use : String) (rows0 : List Row) (i : Nat) : Val :=
  if nnI v rows0 i then (rows0.getD i []).get v
  else match (hitsIG le cols ob part v use rows0 i).head? with
    | some j => (rows0.getD j []).get v
    | none => Val.null

set_option linter.unusedSectionVars false
section
variable {le : RowCmp} (hle : CmpLex le)
variable {cols ob part : List String} {v use rk tb : String} (hc : LocfCtx cols ob part v use rk tb)
  (rows0 : List Row)
include hle hc

/-- **The specification's carried-forward value is what the join finds.** -/
theorem locfValue_eq {i : Nat} (hi : i < rows0.length) :
    locfValue (le ob []) (tbAG le cols ob part v use rows0) part v rows0 i = fillIG le cols ob part v use rows0 i := by
  unfold locfValue fillIG
  simp only [nnI]
  by_cases hn : ((rows0.getD i []).get v).isNull = true
  · simp only [hn, Bool.not_true, Bool.false_eq_true, if_false]
    have hcands : locfCandidates (le ob []) (tbAG le cols ob part v use rows0) part v rows0 i
        = Locf.cands rows0.length (beforeIG le ob rows0 (tbAG le cols ob part v use rows0)) (sameP part rows0)
            (nnI v rows0) i := by
      simp only [locfCandidates, Locf.cands]
      congr 1
      funext j
      rw [locfBefore_eq hle]
      rfl
    rw [hcands]
    have hpred : (fun j => (Locf.cands rows0.length (beforeIG le ob rows0 (tbAG le cols ob part v use rows0))
          (sameP part rows0) (nnI v rows0) i).all
          (fun k => k == j || locfBefore (le ob []) (tbAG le cols ob part v use rows0) rows0 k j))
        = (fun j => (Locf.cands rows0.length (beforeIG le ob rows0 (tbAG le cols ob part v use rows0))
          (sameP part rows0) (nnI v rows0) i).all
          (fun k => k == j || beforeIG le ob rows0 (tbAG le cols ob part v use rows0) k j)) := by
      funext j
      congr 1
      funext k
      rw [locfBefore_eq hle]
    rw [hpred, Locf.find_latest_eq (ordI hle hc rows0) hi (by unfold nnI; rw [hn]; rfl)]
    rfl
  · have hn' : ((rows0.getD i []).get v).isNull = false := by simpa using hn
    simp only [hn', Bool.not_false, if_true]

theorem hitsI_length_le_one (i : Nat) : (hitsIG le cols ob part v use rows0 i).length ≤ 1 :=
  Locf.hits_length_le_one (ordI hle hc rows0) i

/-- the selected output row for position `i` matched with `j` is the promised row -/
theorem out_pair {i j : Nat} (hi : i < rows0.length) (hj : j ∈ hitsIG le cols ob part v use rows0 i)
    (hwf : ∀ r ∈ rows0, r.keys = cols) :
    (joinRow (cols ++ [use, tb, rk]) (part ++ [rk, v]) (cols ++ [use, tb, rk])
      (some ((rowsCG le cols ob part v use rk tb rows0).getD i []))
      (some (((rowsCG le cols ob part v use rk tb rows0).getD j []).select (part ++ [rk, v])))).select cols
    = (rows0.getD i []).set v (fillIG le cols ob part v use rows0 i) := by
  have hjm := List.mem_filter.mp hj
  have hjn := List.mem_range.mp hjm.1
  simp only [Bool.and_eq_true, beq_iff_eq] at hjm
  obtain ⟨_, ⟨hnj, hsj⟩, _⟩ := hjm
  have hri : rows0.getD i [] ∈ rows0 := by rw [getD_eq [] hi]; exact List.getElem_mem _
  have hkeys := hwf _ hri
  have hvk : v ∈ (rows0.getD i []).keys := by rw [hkeys]; exact hc.v_mem
  have hsetkeys : ((rows0.getD i []).set v (fillIG le cols ob part v use rows0 i)).keys = cols := by
    rw [keys_set_of_mem _ _ _ hvk, hkeys]
  rw [← select_self hsetkeys hc.nodup]
  apply Sol.select_congr
  intro c hcc
  rw [joined_get hle hc rows0 i hi _ hcc, get_set]
  · by_cases hv : c = v
    · simp only [hv, if_true]
      rw [Row.select_get_of_mem (by simp), get_rowsC hle hc rows0 hjn hc.v_mem]
      -- what `fillIG le` is here
      unfold fillIG
      by_cases hn : nnI v rows0 i = true
      · have : ((rows0.getD i []).get v).isNull = false := by
          unfold nnI at hn
          cases h : ((rows0.getD i []).get v).isNull
          · rfl
          · rw [h] at hn; cases hn
        rw [if_pos hn, if_neg (by rw [this]; exact Bool.false_ne_true)]
      · have hn' : nnI v rows0 i = false := by
          cases h : nnI v rows0 i
          · rfl
          · exact absurd h hn
        have hnull : ((rows0.getD i []).get v).isNull = true := by
          unfold nnI at hn'
          cases h : ((rows0.getD i []).get v).isNull
          · rw [h] at hn'; cases hn'
          · rfl
        have hlen := hitsI_length_le_one hle hc rows0 i
        have hhead : (hitsIG le cols ob part v use rows0 i).head? = some j := by
          cases hh : hitsIG le cols ob part v use rows0 i with
          | nil => rw [hh] at hj; cases hj
          | cons a l =>
            rw [hh] at hj hlen
            have : l = [] := by
              cases l with
              | nil => rfl
              | cons b l' => simp at hlen
            subst this
            simp only [List.mem_singleton] at hj
            rw [hj]; rfl
        rw [if_pos hnull, if_neg hn, hhead]
    · simp only [hv, if_false]
  · intro r hr p hp
    cases hr
    rw [Row.select_get_of_mem (List.mem_append_left _ hp), get_rowsC hle hc rows0 hjn (hc.part_sub p hp)]
    have : keyOf (rows0.getD j []) part = keyOf (rows0.getD i []) part := by simpa [sameP] using hsj
    exact keyOf_eq_iff.mp this p hp

/-- the selected output row for an unmatched position is the promised row -/
theorem out_none {i : Nat} (hi : i < rows0.length) (hh : hitsIG le cols ob part v use rows0 i = [])
    (hwf : ∀ r ∈ rows0, r.keys = cols) :
    (joinRow (cols ++ [use, tb, rk]) (part ++ [rk, v]) (cols ++ [use, tb, rk])
      (some ((rowsCG le cols ob part v use rk tb rows0).getD i [])) none).select cols
    = (rows0.getD i []).set v (fillIG le cols ob part v use rows0 i) := by
  have hri : rows0.getD i [] ∈ rows0 := by rw [getD_eq [] hi]; exact List.getElem_mem _
  have hkeys := hwf _ hri
  have hvk : v ∈ (rows0.getD i []).keys := by rw [hkeys]; exact hc.v_mem
  have hsetkeys : ((rows0.getD i []).set v (fillIG le cols ob part v use rows0 i)).keys = cols := by
    rw [keys_set_of_mem _ _ _ hvk, hkeys]
  -- an unmatched position has a missing value (a present value matches itself)
  have hn : nnI v rows0 i = false := by
    cases h : nnI v rows0 i with
    | false => rfl
    | true =>
      have := Locf.hits_flagged (ordI hle hc rows0) hi h
      rw [hitsIG] at hh
      rw [hh] at this
      cases this
  have hnull : ((rows0.getD i []).get v).isNull = true := by
    unfold nnI at hn
    cases h : ((rows0.getD i []).get v).isNull
    · rw [h] at hn; cases hn
    · rfl
  rw [← select_self hsetkeys hc.nodup]
  apply Sol.select_congr
  intro c hcc
  rw [joined_get hle hc rows0 i hi none hcc (by intro r hr; cases hr), get_set]
  by_cases hv : c = v
  · simp only [hv, if_true]
    unfold fillIG
    rw [if_pos hnull, hn, hh]
    rfl
  · simp only [hv, if_false]

end

set_option linter.unusedSectionVars false
section
variable {le : RowCmp} (hle : CmpLex le)
variable {cols ob part : List String} {v use rk tb : String} (hc : LocfCtx cols ob part v use rk tb)
include hle hc

/-- the three `extend` steps (`d_marked`) on the concrete interpretation -/
theorem sem_locfMarked {Θ : Interp} (hΘ : LocfSem Θ) (cfg : SemCfg) (env : Env) (name : String)
    (t0 : Table) (henv : env.lookup name = some t0) (hsub : subset cols t0.cols = true) :
    semG le Θ cfg env (locfMarked (.table name cols) ob part v use rk tb)
      = .ok ⟨cols ++ [use, tb, rk], rowsCG le cols ob part v use rk tb (t0.selectCols cols).rows⟩ := by
  have hc1 : appendNew cols [use] = cols ++ [use] := appendNew_single hc.use_new
  have hc2 : appendNew (cols ++ [use]) [tb] = cols ++ [use, tb] := by
    rw [appendNew_single]
    · simp
    · simp only [List.mem_append, List.mem_singleton, not_or]
      exact ⟨hc.tb_new, fun e => hc.use_ne_tb e.symm⟩
  have hc3 : appendNew (cols ++ [use, tb]) [rk] = cols ++ [use, tb, rk] := by
    rw [appendNew_single]
    · simp
    · simp only [List.mem_append, List.mem_cons, List.not_mem_nil, or_false, not_or]
      exact ⟨hc.rk_new, fun e => hc.use_ne_rk e.symm, hc.rk_ne_tb⟩
  simp only [locfMarked, semG, henv, hsub, if_true, bind, Except.bind, pure, Except.pure, Ops.cols, List.map_cons,
    List.map_nil, hc1, hc2, hc3, Bool.false_eq_true, if_false]
  rw [semExtendPlain_single, stage1L hΘ, semExtendWindowG_single]
  congr 2
  have eA : addCol (cols ++ [use]) use
      (fun i => evalCell Θ ((t0.selectCols cols).rows.getD i []) (useTerm v)) (t0.selectCols cols).rows
      = rowsA cols v use (t0.selectCols cols).rows := by
    rw [rowsA]
    apply addCol_congr
    intro i _
    rw [hΘ.useTerm]
    rfl
  rw [eA]
  have eB : addCol (cols ++ [use, tb]) tb
      (fun j => Val.num ((rk1G le (part ++ ob) (rowsA cols v use (t0.selectCols cols).rows) j : Nat) : Rat))
      (rowsA cols v use (t0.selectCols cols).rows) = rowsBG le cols ob part v use tb (t0.selectCols cols).rows := rfl
  rw [eB, rowsCG]
  apply addCol_congr
  intro i hi
  rw [length_rowsB hle hc] at hi
  exact cumsum_eq_cnt hle hc _ hΘ hi

/-- **`sem` of the tree built by `last_observed_carried_forward`** (Pandas configuration): the promised rows, up to
row order (rows without an earlier non-missing value leave the left join after the others). -/
theorem sem_locfTree {Θ : Interp} (hΘ : LocfSem Θ) (env : Env) (name : String) (t0 : Table)
    (henv : env.lookup name = some t0) (hsub : subset cols t0.cols = true) :
    ∃ t, semG le Θ SemCfg.pandas env (locfTree (.table name cols) ob part v use rk tb) = .ok t ∧
      t.cols = cols ∧
      t.rows.Perm (locfSpec (le ob []) (tbAG le cols ob part v use (t0.selectCols cols).rows) part v
        (t0.selectCols cols).rows) := by
  -- names
  generalize hrows : (t0.selectCols cols).rows = rows0
  have hwf : ∀ r ∈ rows0, r.keys = cols := by
    intro r hr
    rw [← hrows] at hr
    exact Table.wf_selectCols _ _ r hr
  have hM := sem_locfMarked hle hc hΘ SemCfg.pandas env name t0 henv hsub
  rw [hrows] at hM
  have hK : part ++ [rk] ≠ [] := by simp
  -- declared columns
  have hMc : (locfMarked (.table name cols) ob part v use rk tb).cols = cols ++ [use, tb, rk] := by
    have hc1 : appendNew cols [use] = cols ++ [use] := appendNew_single hc.use_new
    have hc2 : appendNew (cols ++ [use]) [tb] = cols ++ [use, tb] := by
      rw [appendNew_single]
      · simp
      · simp only [List.mem_append, List.mem_singleton, not_or]
        exact ⟨hc.tb_new, fun e => hc.use_ne_tb e.symm⟩
    have hc3 : appendNew (cols ++ [use, tb]) [rk] = cols ++ [use, tb, rk] := by
      rw [appendNew_single]
      · simp
      · simp only [List.mem_append, List.mem_cons, List.not_mem_nil, or_false, not_or]
        exact ⟨hc.rk_new, fun e => hc.use_ne_rk e.symm, hc.rk_ne_tb⟩
    simp only [locfMarked, Ops.cols, List.map_cons, List.map_nil, hc1, hc2, hc3]
  have hbsub : ∀ c ∈ part ++ [rk, v], c ∈ cols ++ [use, tb, rk] := by
    intro c hcc
    rcases List.mem_append.mp hcc with h | h
    · exact List.mem_append_left _ (hc.part_sub c h)
    · simp only [List.mem_cons, List.not_mem_nil, or_false] at h
      rcases h with rfl | rfl
      · simp
      · exact List.mem_append_left _ hc.v_mem
  have hall : appendNew (cols ++ [use, tb, rk]) (part ++ [rk, v]) = cols ++ [use, tb, rk] :=
    appendNew_of_subset hbsub
  have hJc : ∀ (a b : Ops), a.cols = cols ++ [use, tb, rk] → b.cols = part ++ [rk, v] →
      (Ops.join a b (part ++ [rk]) (part ++ [rk]) .left).cols = cols ++ [use, tb, rk] := by
    intro a b ha hb
    simp only [Ops.cols, ha, hb, hall, beq_self_eq_true, if_true]
  have hDc : (cols ++ [use, tb, rk]).filter (fun c => !([use, rk, tb].contains c)) = cols := by
    rw [List.filter_append]
    have h1 : cols.filter (fun c => !([use, rk, tb].contains c)) = cols := by
      rw [List.filter_eq_self]
      intro c hcc
      simp [ne_use hle hc hcc, ne_rk hle hc hcc, ne_tb hle hc hcc]
    have h2 : [use, tb, rk].filter (fun c => !([use, rk, tb].contains c)) = [] := by
      simp [List.filter_cons]
    rw [h1, h2, List.append_nil]
  -- evaluate
  have hcolsB : (Ops.selectCols (.selectRows (locfMarked (.table name cols) ob part v use rk tb)
      (binop "==" (.col use) (.value (.int 1)))) (part ++ [rk, v])).cols = part ++ [rk, v] := rfl
  have hsem : semG le Θ SemCfg.pandas env (locfTree (.table name cols) ob part v use rk tb)
      = .ok (((semJoin SemCfg.pandas .left (part ++ [rk]) (part ++ [rk])
          ⟨cols ++ [use, tb, rk], rowsCG le cols ob part v use rk tb rows0⟩
          ((semSelectRows Θ (binop "==" (.col use) (.value (.int 1)))
            ⟨cols ++ [use, tb, rk], rowsCG le cols ob part v use rk tb rows0⟩).selectCols (part ++ [rk, v]))
          (cols ++ [use, tb, rk])).selectCols (cols ++ [use, tb, rk])).selectCols cols) := by
    have hdrop : ∀ (src : Ops) (dels : List String), (Ops.dropCols src dels).cols
        = src.cols.filter (fun c => !dels.contains c) := fun _ _ => rfl
    simp only [locfTree, semG, hM, bind, Except.bind, pure, Except.pure, hdrop, hJc _ _ hMc hcolsB, hMc, hcolsB,
      hall, hDc]
  refine ⟨_, hsem, rfl, ?_⟩
  -- the `b` side
  have hB : (semSelectRows Θ (binop "==" (.col use) (.value (.int 1)))
      ⟨cols ++ [use, tb, rk], rowsCG le cols ob part v use rk tb rows0⟩).selectCols (part ++ [rk, v])
      = ⟨part ++ [rk, v], rowsSelG le cols ob part v use rk tb rows0⟩ := by
    simp only [semSelectRows, Table.selectCols]
    congr 1
    rw [filter_eq_map_range, List.map_map, length_rowsC hle hc, rowsSelG]
    congr 1
    apply List.filter_congr
    intro j hj
    have hj := List.mem_range.mp hj
    exact hΘ.useEq use _ _ (get_rowsC_use hle hc rows0 hj)
  rw [hB]
  simp only [Table.selectCols]
  rw [semJoin_left_rows _ hK]
  simp only []
  rw [List.map_map]
  have hsel : ((fun r : Row => r.select cols) ∘ fun r => r.select (cols ++ [use, tb, rk]))
      = fun r : Row => r.select cols := by
    funext r
    exact select_select r (fun c hcc => List.mem_append_left _ hcc)
  rw [hsel, List.map_append]
  -- by position
  let S : Nat → Row := fun i => (rows0.getD i []).set v (fillIG le cols ob part v use rows0 i)
  have hCrows := list_eq_map_range (rowsCG le cols ob part v use rk tb rows0)
  rw [length_rowsC hle hc] at hCrows
  -- pairs
  have hpairs : ((rowsCG le cols ob part v use rk tb rows0).flatMap (fun ra =>
      ((rowsSelG le cols ob part v use rk tb rows0).filter (fun rb => keyOf ra (part ++ [rk]) == keyOf rb (part ++ [rk]))).map
        (fun rb => joinRow (cols ++ [use, tb, rk]) (part ++ [rk, v]) (cols ++ [use, tb, rk]) (some ra) (some rb)))).map
      (fun r => r.select cols)
      = ((List.range rows0.length).filter (fun i => !(hitsIG le cols ob part v use rows0 i).isEmpty)).map S := by
    conv => lhs; rw [hCrows]
    rw [List.flatMap_map, List.map_flatMap]
    have : ∀ i ∈ List.range rows0.length,
        (((rowsSelG le cols ob part v use rk tb rows0).filter (fun rb =>
          keyOf ((rowsCG le cols ob part v use rk tb rows0).getD i []) (part ++ [rk]) == keyOf rb (part ++ [rk]))).map
          (fun rb => joinRow (cols ++ [use, tb, rk]) (part ++ [rk, v]) (cols ++ [use, tb, rk])
            (some ((rowsCG le cols ob part v use rk tb rows0).getD i [])) (some rb))).map (fun r => r.select cols)
        = (hitsIG le cols ob part v use rows0 i).map (fun _ => S i) := by
      intro i hi
      have hi := List.mem_range.mp hi
      rw [match_eq_hits hle hc rows0 hi, List.map_map, List.map_map]
      apply List.map_congr_left
      intro j hj
      exact out_pair hle hc rows0 hi hj hwf
    rw [flatMap_congr_mem this]
    rw [flatMap_le_one (List.range rows0.length) (fun i => (hitsIG le cols ob part v use rows0 i).map (fun _ => S i)) S]
    · congr 1
      apply List.filter_congr
      intro i _
      cases hitsIG le cols ob part v use rows0 i <;> rfl
    · intro i _
      have hlen := hitsI_length_le_one hle hc rows0 i
      cases hh : hitsIG le cols ob part v use rows0 i with
      | nil => exact Or.inl rfl
      | cons a l =>
        rw [hh] at hlen
        have : l = [] := by
          cases l with
          | nil => rfl
          | cons b l' => simp at hlen
        subst this
        exact Or.inr rfl
  -- unmatched rows
  have hleft : (((rowsCG le cols ob part v use rk tb rows0).filter (fun ra =>
      !((rowsSelG le cols ob part v use rk tb rows0).any (fun rb => keyOf ra (part ++ [rk]) == keyOf rb (part ++ [rk]))))).map
      (fun ra => joinRow (cols ++ [use, tb, rk]) (part ++ [rk, v]) (cols ++ [use, tb, rk]) (some ra) none)).map
      (fun r => r.select cols)
      = ((List.range rows0.length).filter (fun i => !(!(hitsIG le cols ob part v use rows0 i).isEmpty))).map S := by
    rw [filter_eq_map_range, length_rowsC hle hc, List.map_map, List.map_map]
    have hf : (List.range rows0.length).filter (fun j => !((rowsSelG le cols ob part v use rk tb rows0).any (fun rb =>
        keyOf ((rowsCG le cols ob part v use rk tb rows0).getD j []) (part ++ [rk]) == keyOf rb (part ++ [rk]))))
        = (List.range rows0.length).filter (fun i => !(!(hitsIG le cols ob part v use rows0 i).isEmpty)) := by
      apply List.filter_congr
      intro i hi
      have hi := List.mem_range.mp hi
      rw [any_eq_filter_nonempty, match_eq_hits hle hc rows0 hi]
      cases hitsIG le cols ob part v use rows0 i <;> rfl
    rw [hf]
    apply List.map_congr_left
    intro i hi
    have hi' := List.mem_filter.mp hi
    have hin := List.mem_range.mp hi'.1
    have hh : hitsIG le cols ob part v use rows0 i = [] := by
      cases h : hitsIG le cols ob part v use rows0 i with
      | nil => rfl
      | cons a l => rw [h] at hi'; simp at hi'
    simp only [Function.comp]
    exact out_none hle hc rows0 hin hh hwf
  rw [hpairs, hleft, ← List.map_append]
  -- the specification rows, by position
  have hspec : locfSpec (le ob []) (tbAG le cols ob part v use rows0) part v rows0 = (List.range rows0.length).map S := by
    rw [locfSpec, zipIdx_eq_map_range, List.map_map]
    apply List.map_congr_left
    intro i hi
    have hi := List.mem_range.mp hi
    show (rows0.getD i []).set v (locfValue (le ob []) (tbAG le cols ob part v use rows0) part v rows0 i)
      = (rows0.getD i []).set v (fillIG le cols ob part v use rows0 i)
    rw [locfValue_eq hle hc rows0 hi]
  rw [hspec]
  exact (List.filter_append_perm _ _).map S

end

/-- the helper's tie-breaking numbers increase along `partition_by ++ order_by` -/
theorem tbA_lt_of_strict {le : RowCmp} (hle : CmpLex le) {cols ob part : List String} {v use rk tb : String}
    (hc : LocfCtx cols ob part v use rk tb)
    (rows0 : List Row) {j k : Nat} (hj : j < rows0.length) (hk : k < rows0.length)
    (h : le (part ++ ob) [] (rows0.getD k []) (rows0.getD j []) = false) :
    tbAG le cols ob part v use rows0 j < tbAG le cols ob part v use rows0 k := by
  have hsub : ∀ c ∈ part ++ ob, c ∈ cols := by
    intro c hcc
    rcases List.mem_append.mp hcc with h | h
    · exact hc.part_sub c h
    · exact hc.ob_sub c h
  have hjA : j < (rowsA cols v use rows0).length := by rw [length_rowsA hle hc]; exact hj
  have hkA : k < (rowsA cols v use rows0).length := by rw [length_rowsA hle hc]; exact hk
  have h' : le (part ++ ob) [] ((rowsA cols v use rows0).getD k []) ((rowsA cols v use rows0).getD j []) = false := by
    rw [hle.congr _ _ _ _ _ _ (fun c hcc => get_rowsA hle hc rows0 hk (hsub c hcc)) (fun c hcc => get_rowsA hle hc rows0 hj (hsub c hcc))]
    exact h
  have := winPos_lt_of_strict hle (p := []) (o := part ++ ob) (rv := []) hjA hkA rfl h'
  simp only [tbAG, rk1G]
  omega

/-! ### the reference configuration (standard SQL join) and the SQL -/

section
variable {le : RowCmp} (hle : CmpLex le)
variable {cols ob part : List String} {v use rk tb : String} (hc : LocfCtx cols ob part v use rk tb)
include hle hc

/-- `semG le` of the tree of `last_observed_carried_forward`, given the table of the marked rows -/
theorem semG_locfTree_form (Θ' : Interp) (cfg : SemCfg) (env : Env) (name : String) (rows0 : List Row)
    (hM : semG le Θ' cfg env (locfMarked (.table name cols) ob part v use rk tb)
      = .ok ⟨cols ++ [use, tb, rk], rowsCG le cols ob part v use rk tb rows0⟩) :
    semG le Θ' cfg env (locfTree (.table name cols) ob part v use rk tb)
      = .ok (((semJoin cfg .left (part ++ [rk]) (part ++ [rk])
          ⟨cols ++ [use, tb, rk], rowsCG le cols ob part v use rk tb rows0⟩
          ((semSelectRows Θ' (binop "==" (.col use) (.value (.int 1)))
            ⟨cols ++ [use, tb, rk], rowsCG le cols ob part v use rk tb rows0⟩).selectCols (part ++ [rk, v]))
          (cols ++ [use, tb, rk])).selectCols (cols ++ [use, tb, rk])).selectCols cols) := by
  have hMc : (locfMarked (.table name cols) ob part v use rk tb).cols = cols ++ [use, tb, rk] := by
    have hc1 : appendNew cols [use] = cols ++ [use] := appendNew_single hc.use_new
    have hc2 : appendNew (cols ++ [use]) [tb] = cols ++ [use, tb] := by
      rw [appendNew_single]
      · simp
      · simp only [List.mem_append, List.mem_singleton, not_or]
        exact ⟨hc.tb_new, fun e => hc.use_ne_tb e.symm⟩
    have hc3 : appendNew (cols ++ [use, tb]) [rk] = cols ++ [use, tb, rk] := by
      rw [appendNew_single]
      · simp
      · simp only [List.mem_append, List.mem_cons, List.not_mem_nil, or_false, not_or]
        exact ⟨hc.rk_new, fun e => hc.use_ne_rk e.symm, hc.rk_ne_tb⟩
    simp only [locfMarked, Ops.cols, List.map_cons, List.map_nil, hc1, hc2, hc3]
  have hbsub : ∀ c ∈ part ++ [rk, v], c ∈ cols ++ [use, tb, rk] := by
    intro c hcc
    rcases List.mem_append.mp hcc with h | h
    · exact List.mem_append_left _ (hc.part_sub c h)
    · simp only [List.mem_cons, List.not_mem_nil, or_false] at h
      rcases h with rfl | rfl
      · simp
      · exact List.mem_append_left _ hc.v_mem
  have hall : appendNew (cols ++ [use, tb, rk]) (part ++ [rk, v]) = cols ++ [use, tb, rk] :=
    appendNew_of_subset hbsub
  have hJc : ∀ (a b : Ops), a.cols = cols ++ [use, tb, rk] → b.cols = part ++ [rk, v] →
      (Ops.join a b (part ++ [rk]) (part ++ [rk]) .left).cols = cols ++ [use, tb, rk] := by
    intro a b ha hb
    simp only [Ops.cols, ha, hb, hall, beq_self_eq_true, if_true]
  have hDc : (cols ++ [use, tb, rk]).filter (fun c => !([use, rk, tb].contains c)) = cols := by
    rw [List.filter_append]
    have h1 : cols.filter (fun c => !([use, rk, tb].contains c)) = cols := by
      rw [List.filter_eq_self]
      intro c hcc
      simp [Sol.ne_use hc hcc, Sol.ne_rk hc hcc, Sol.ne_tb hc hcc]
    have h2 : [use, tb, rk].filter (fun c => !([use, rk, tb].contains c)) = [] := by
      simp
    rw [h1, h2, List.append_nil]
  have hcolsB : (Ops.selectCols (.selectRows (locfMarked (.table name cols) ob part v use rk tb)
      (binop "==" (.col use) (.value (.int 1)))) (part ++ [rk, v])).cols = part ++ [rk, v] := rfl
  have hdrop : ∀ (src : Ops) (dels : List String), (Ops.dropCols src dels).cols
      = src.cols.filter (fun c => !dels.contains c) := fun _ _ => rfl
  simp only [locfTree, semG, hM, bind, Except.bind, pure, Except.pure, hdrop, hJc _ _ hMc hcolsB, hMc, hcolsB,
    hall, hDc]

theorem nullFree_rowsCG {cs : List String} (hcs : ∀ c ∈ cs, c ∈ cols) {rows0 : List Row} (h : NullFreeOn cs rows0) :
    NullFreeOn cs (rowsCG le cols ob part v use rk tb rows0) :=
  nullFreeOn_addCol (fun c hcc => List.mem_append_left _ (hcs c hcc)) (fun _ _ => rfl)
    (fun c hcc _ r hr =>
      (nullFreeOn_addCol (oc := cols ++ [use, tb]) (c := tb)
        (f := fun j => Val.num ((tbAG le cols ob part v use rows0 j : Nat) : Rat))
        (fun c hcc => List.mem_append_left _ (hcs c hcc)) (fun _ _ => rfl)
        (fun c hcc _ r hr => nullFree_rowsA hc hcs h r hr c hcc) :
          NullFreeOn cs (rowsBG le cols ob part v use tb rows0)) r hr c hcc)

/-- **Under the guard "no partition key is missing" the reference configuration (NULL keys never match) computes
what the Pandas configuration computes** – for every comparison and every interpretation with `LocfSem`. -/
theorem semG_locfTree_ref {Θ : Interp} (hΘ : LocfSem Θ) (env : Env) (name : String) (t0 : Table)
    (henv : env.lookup name = some t0) (hsub : subset cols t0.cols = true) (hnp : NullFreeOn part t0.rows) :
    semG le Θ SemCfg.ref env (locfTree (.table name cols) ob part v use rk tb)
      = semG le Θ SemCfg.pandas env (locfTree (.table name cols) ob part v use rk tb) := by
  rw [semG_locfTree_form hle hc Θ SemCfg.ref env name _ (sem_locfMarked hle hc hΘ SemCfg.ref env name t0 henv hsub),
    semG_locfTree_form hle hc Θ SemCfg.pandas env name _
      (sem_locfMarked hle hc hΘ SemCfg.pandas env name t0 henv hsub)]
  congr 3
  symm
  apply RefSem.semJoin_pandas_eq_ref
  intro ab hab
  left
  have hk : ab.1 ∈ part ++ [rk] := (List.of_mem_zip hab).1
  intro r hr
  rcases List.mem_append.mp hk with h | h
  · exact nullFree_rowsCG hle hc hc.part_sub (nullFreeOn_selectCols hc.part_sub hnp) r hr _ h
  · have hrk : ab.1 = rk := List.mem_singleton.mp h
    rw [hrk]
    refine (nullFreeOn_addCol (oc := cols ++ [use, tb, rk]) (cs := [rk]) (c := rk) (by simp) (fun _ _ => rfl)
      (fun c hcc hne => absurd (List.mem_singleton.mp hcc) hne) :
        NullFreeOn [rk] (rowsCG le cols ob part v use rk tb (t0.selectCols cols).rows)) r hr rk (by simp)

end

/-- **`last_observed_carried_forward` on SQL, every order key.**  Guard: no `partition_by` cell is missing.  Stage A of
the translation proof composed with `sem_locfTree` for the engine's comparison: the query evaluates to a table with
the table's column set whose rows are, up to row order, `locfSpec` in the engine's own order of `order_by`
(`sqlRowLe ec`: NULL first on SQLite), for the helper's tie-breaking numbers. -/
theorem locf_sql_full (Θ : Interp) (hΘ : LocfSem Θ) (ec : EngineCfg) (env : Env) (cfg : SqlCfg)
    {name : String} {cols orderBy : List String} {partitionBy : Option (List String)}
    {valueCol useCol rankCol tbCol : String} {p : Ops} {t0 : Table} {q : Near}
    (hbuild : lastObservedCarriedForward (.table name cols) orderBy partitionBy valueCol useCol rankCol tbCol = .ok p)
    (hob : ∀ c ∈ orderBy, c ∈ cols) (hpb : ∀ c ∈ partitionBy.getD [], c ∈ cols)
    (henv : env.lookup name = some t0) (hsub : subset cols t0.cols = true)
    (hnp : NullFreeOn (partitionBy.getD []) t0.rows) (hq : toNearSql cfg p = .ok q) :
    ∃ T, semSql Θ ec env q = .ok T ∧
      T.EquivS ⟨cols, locfSpec (sqlRowLe ec orderBy [])
        (tbAG (sqlRowLe ec) cols orderBy (partitionBy.getD []) valueCol useCol (t0.selectCols cols).rows)
        (partitionBy.getD []) valueCol (t0.selectCols cols).rows⟩ := by
  have hr := locf_reachable hbuild
  obtain ⟨rfl, hok⟩ := locf_ok hbuild
  have hc : LocfCtx cols orderBy (partitionBy.getD []) valueCol useCol rankCol tbCol := ⟨hok, hob, hpb⟩
  obtain ⟨T, tp, h1, h2, _, h4, h5⟩ := joins_engine_order_merges Θ ec env cfg _ (locf_good cfg hr henv hsub)
    (locf_noConcat ..) hq
  have h2' : semG (sqlRowLe ec) Θ SemCfg.ref env
      (locfTree (.table name cols) orderBy (partitionBy.getD []) valueCol useCol rankCol tbCol) = .ok tp := h2
  rw [semG_locfTree_ref (cmpLex_sql ec) hc hΘ env name t0 henv hsub hnp] at h2'
  obtain ⟨t', hsem, hcols, hperm⟩ := sem_locfTree (cmpLex_sql ec) hc hΘ env name t0 henv hsub
  rw [hsem] at h2'
  cases h2'
  have hpc : (locfTree (.table name cols) orderBy (partitionBy.getD []) valueCol useCol rankCol tbCol).cols = cols := by
    have := (semG_cols_wf_fragJ (sqlRowLe ec) Θ SemCfg.pandas env _ (locf_good cfg hr henv hsub).frag _ hsem).1
    rw [← this, hcols]
  refine ⟨T, h1, ?_, ?_⟩
  · intro c
    rw [h4 c, hpc]
  · show (T.rows.map (fun r => r.select cols)).Perm _
    rw [hpc] at h5
    rw [h5]
    exact hperm

end Cmp
end Sol21Sql
end DAVerif
