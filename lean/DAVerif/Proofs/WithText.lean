import DAVerif.Spec.WithText
/-!
The text-level meaning of a WITH query is the model's `semWith` whenever no base table read by the query is named like
one of its common table expressions.
-/
namespace DAVerif
namespace Ren
open DAVerif.Sql

theorem lookup_append_of_not_mem {β : Type} (pre env : List (String × β)) (name : String)
    (h : name ∉ pre.map (·.1)) : (pre ++ env).lookup name = env.lookup name := by
  induction pre with
  | nil => rfl
  | cons a pre ih =>
    obtain ⟨k, v⟩ := a
    simp only [List.map_cons, List.mem_cons, not_or] at h
    simp only [List.cons_append, List.lookup_cons]
    have : (name == k) = false := by simpa using h.1
    rw [this]
    exact ih h.2

/-- `semNear` only consults the environment for the base tables the tree reads -/
theorem semNear_env_prefix (Θ : Interp) (ec : EngineCfg) (pre env : Env) (ctes : List (String × Table)) (n : Near)
    (h : ∀ name ∈ n.baseTables, name ∉ pre.map (·.1)) :
    ∀ (cols? : Option (List String)) (force : Bool),
      semNear Θ ec (pre ++ env) ctes n cols? force = semNear Θ ec env ctes n cols? force := by
  induction n with
  | table name terms =>
    intro cols? force
    simp only [semNear, lookup_append_of_not_mem pre env name (h name (by simp [Near.baseTables]))]
  | cte name => intro _ _; rfl
  | unary name terms agg sub subCols suffix mg deps key ih =>
    intro cols? force
    simp only [semNear, ih (fun nm hn => h nm (by simpa [Near.baseTables] using hn))]
  | join name terms l lc ln r rc rn jt oa ob key ihl ihr =>
    intro cols? force
    simp only [semNear, ihl (fun nm hn => h nm (by simp [Near.baseTables, hn])),
      ihr (fun nm hn => h nm (by simp [Near.baseTables, hn]))]
  | union name terms l r cols key ihl ihr =>
    intro cols? force
    simp only [semNear, ihl (fun nm hn => h nm (by simp [Near.baseTables, hn])),
      ihr (fun nm hn => h nm (by simp [Near.baseTables, hn]))]

/-- the accumulation loops of `semWithText` and `semWith`, started from the same common table expressions whose names
are step names, agree under the guard -/
theorem fold_text_eq (Θ : Interp) (ec : EngineCfg) (env : Env) (S : List String) (steps : List WithStep)
    (hS : ∀ st ∈ steps, st.name ∈ S)
    (hfree : ∀ st ∈ steps, ∀ name ∈ st.near.baseTables, name ∉ S) :
    ∀ ctes : List (String × Table), (∀ nm ∈ ctes.map (·.1), nm ∈ S) →
      steps.foldlM (fun (ctes : List (String × Table)) st => do
          let t ← semNear Θ ec (ctes.reverse ++ env) ctes st.near st.cols st.force
          return ctes ++ [(st.name, t)]) ctes
        = (steps.foldlM (fun (ctes : List (String × Table)) st => do
          let t ← semNear Θ ec env ctes st.near st.cols st.force
          return ctes ++ [(st.name, t)]) ctes : Except Err _)
      ∧ ∀ res, steps.foldlM (fun (ctes : List (String × Table)) st => do
          let t ← semNear Θ ec env ctes st.near st.cols st.force
          return ctes ++ [(st.name, t)]) ctes = .ok res → ∀ nm ∈ res.map (·.1), nm ∈ S := by
  induction steps with
  | nil =>
    intro ctes hc
    refine ⟨rfl, fun res hres => ?_⟩
    simp only [List.foldlM_nil, pure, Except.pure, Except.ok.injEq] at hres
    subst hres
    exact hc
  | cons st steps ih =>
    intro ctes hc
    have hpre : ∀ name ∈ st.near.baseTables, name ∉ (ctes.reverse).map (·.1) := by
      intro name hn hmem
      rw [List.map_reverse, List.mem_reverse] at hmem
      exact hfree st (List.mem_cons_self ..) name hn (hc name hmem)
    have h1 := semNear_env_prefix Θ ec ctes.reverse env ctes st.near hpre st.cols st.force
    simp only [List.foldlM_cons, h1]
    cases hsem : semNear Θ ec env ctes st.near st.cols st.force with
    | error e =>
      refine ⟨rfl, fun res hres => ?_⟩
      simp [bind, Except.bind] at hres
    | ok t =>
      have hc' : ∀ nm ∈ (ctes ++ [(st.name, t)]).map (·.1), nm ∈ S := by
        intro nm hnm
        simp only [List.map_append, List.map_cons, List.map_nil, List.mem_append, List.mem_singleton] at hnm
        rcases hnm with hnm | rfl
        · exact hc nm hnm
        · exact hS st (List.mem_cons_self ..)
      have := ih (fun s hs => hS s (List.mem_cons_of_mem _ hs)) (fun s hs => hfree s (List.mem_cons_of_mem _ hs))
        (ctes ++ [(st.name, t)]) hc'
      simpa [bind, Except.bind, pure, Except.pure] using this

theorem semWithText_eq_semWith (Θ : Interp) (ec : EngineCfg) (env : Env) (steps : List WithStep) (last : Near)
    (h : CteNamesFree steps last = true) : semWithText Θ ec env steps last = semWith Θ ec env steps last := by
  unfold CteNamesFree at h
  rw [List.all_eq_true] at h
  have hfree : ∀ st ∈ steps, ∀ name ∈ st.near.baseTables, name ∉ steps.map (·.name) := by
    intro st hst name hn
    have := h name (List.mem_append_left _ (List.mem_flatMap.mpr ⟨st, hst, hn⟩))
    simpa using this
  have hlast : ∀ name ∈ last.baseTables, name ∉ steps.map (·.name) := by
    intro name hn
    have := h name (List.mem_append_right _ hn)
    simpa using this
  obtain ⟨hfold, hnames⟩ := fold_text_eq Θ ec env (steps.map (·.name)) steps
    (fun st hst => List.mem_map_of_mem hst) hfree [] (by simp)
  unfold semWithText semWith
  rw [hfold]
  cases hres : (steps.foldlM (fun (ctes : List (String × Table)) st => do
          let t ← semNear Θ ec env ctes st.near st.cols st.force
          return ctes ++ [(st.name, t)]) [] : Except Err _) with
  | error e => rfl
  | ok ctes =>
    have hpre : ∀ name ∈ last.baseTables, name ∉ (ctes.reverse).map (·.1) := by
      intro name hn hmem
      rw [List.map_reverse, List.mem_reverse] at hmem
      exact hlast name hn (hnames ctes hres name hmem)
    exact semNear_env_prefix Θ ec ctes.reverse env ctes last hpre none true

end Ren
end DAVerif
