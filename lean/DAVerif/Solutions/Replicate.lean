import DAVerif.Solutions.Common
import DAVerif.Core.Table
/-
Model of `data_algebra.solutions.replicate_rows_query`.

```
def replicate_rows_query(d, *, count_column_name, seq_column_name, join_temp_name, max_count):
    assert isinstance(d, TableDescription)
    assert count_column_name in d.column_names
    assert seq_column_name not in d.column_names
    assert max_count > 0
    power_key_colname = "power"
    assert power_key_colname != count_column_name
    assert power_key_colname not in d.column_names
    powers = list(range(int(numpy.ceil(numpy.log(max_count) / numpy.log(2))) + 1))
    count_frame = local_data_model.concat_rows([
        local_data_model.data_frame({power_key_colname: f"p{p}", seq_column_name: range(int(2**p))})
        for p in powers])
    ops = (
        d.extend({power_key_colname: f'"p" %+% ({count_column_name}.log() / (2).log()).ceil().as_int64()'})
        .natural_join(b=TableDescription(table_name=join_temp_name, column_names=[power_key_colname, seq_column_name]),
                      on=[power_key_colname], jointype="inner")
        .select_rows(f"{seq_column_name} < {count_column_name}")
        .drop_columns([power_key_colname])
    )
    return ops, count_frame
```

The floating point expression `ceil(log(c) / log(2))` occurs twice: at build time (numpy, on `max_count`) and at
evaluation time (numpy on Pandas, `math.log` user functions on SQLite, on every count).  Lean has no theory of
`Float.log`; the model takes the function `powerOf : Nat → Nat` computed by that expression as a **parameter**.  The
property theorem assumes `powerOf c = ⌈log₂ c⌉` on `1 … max_count` and the check discharges this by exhaustive
evaluation (harness/props/c21.py, suite `hlog_table`).

The parser turns `"p" %+% e` into `("p").concat(e)`.

No imports beyond model files: part of the compiled driver.
-/
namespace DAVerif.Solutions
open DAVerif

/-- the reserved name `power_key_colname = "power"` -/
def powerCol : String := "power"

/-- `f"p{p}"` -/
def powerKey (p : Nat) : String := "p" ++ toString p

/-- the text `"p" %+% (count.log() / (2).log()).ceil().as_int64()` as parsed -/
def powerExpr (countCol : String) : Term :=
  mcall "concat" (.value (.str "p"))
    [mcall "as_int64" (mcall "ceil" (binop "/" (mcall "log" (.col countCol)) (mcall "log" (.value (.int 2)))))]

/-- `count_frame`: for every power `p` in `0 … top` the rows `(p{p}, 0) … (p{p}, 2^p - 1)` -/
def countFrame (seqCol : String) (top : Nat) : Table :=
  ⟨[powerCol, seqCol],
    (List.range (top + 1)).flatMap (fun p =>
      (List.range (2 ^ p)).map (fun i => [(powerCol, Val.str (powerKey p)), (seqCol, Val.num (i : Nat))]))⟩

def replicateSteps (b : Ops) (countCol seqCol : String) : List Step :=
  [ .extend [(powerCol, powerExpr countCol)] .none [] [],
    .join b [powerCol] [powerCol] "inner" false,
    .selectRows (some (binop "<" (.col seqCol) (.col countCol))),
    .dropCols [powerCol] ]

def replicateRowsQuery (powerOf : Nat → Nat) (d : Ops) (countCol seqCol joinTemp : String) (maxCount : Nat) :
    Except Err (Ops × Table) := do
  asrt (isTable d)
  asrt (d.cols.contains countCol)
  asrt (!d.cols.contains seqCol)
  asrt (maxCount > 0)
  asrt (powerCol != countCol)
  asrt (!d.cols.contains powerCol)
  let frame := countFrame seqCol (powerOf maxCount)
  -- the data frame `{power: …, seq: …}` has one column when both names coincide; concat_rows/clean_copy keep it
  -- the extend is parsed before the join's table description is built
  let o1 ← build d (.extend [(powerCol, powerExpr countCol)] .none [] [])
  let b ← mkTable joinTemp [powerCol, seqCol]
  let ops ← buildChain o1 ((replicateSteps b countCol seqCol).drop 1)
  return (ops, frame)

/-- exact `⌈log₂ c⌉` for `c ≥ 1` (the least `k` with `c ≤ 2^k`, see `clog2_spec`); used by the driver and as the
right-hand side of the hypothesis `hlog` -/
def clog2 (c : Nat) : Nat := if c ≤ 1 then 0 else Nat.log2 (c - 1) + 1

end DAVerif.Solutions
