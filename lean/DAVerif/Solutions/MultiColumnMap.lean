import DAVerif.Solutions.Common
import DAVerif.Sem.Eval
/-
Model of `data_algebra.solutions.def_multi_column_map`, of the two record maps it builds
(`cdata.unpivot_specification`, `cdata.pivot_specification`) and of what the Pandas executor computes for these two
record maps (`PandasModelBase.rowrecs_to_blocks` / `blocks_to_rowrecs`, specialised to their control tables).

```
def def_multi_column_map(d, *, mapping_table, row_keys, col_name_key="column_name", col_value_key="column_value",
        mapped_value_key="mapped_value", cols_to_map, coalesce_value=None, cols_to_map_back=None):
    row_keys = list(row_keys);        assert len(row_keys) > 0
    cols_to_map = list(cols_to_map);  assert len(cols_to_map) > 0
    if cols_to_map_back is not None:
        cols_to_map_back = list(cols_to_map_back)
        assert len(cols_to_map_back) == len(cols_to_map)
    pre_col_names = row_keys + cols_to_map
    assert len(pre_col_names) == len(set(pre_col_names))
    mid_col_names = row_keys + [col_name_key, col_value_key, mapped_value_key]
    assert len(mid_col_names) == len(set(mid_col_names))
    post_col_names = row_keys + (cols_to_map if cols_to_map_back is None else cols_to_map_back)
    assert len(post_col_names) == len(set(post_col_names))
    record_map_to = unpivot_specification(row_keys=row_keys, col_name_key=col_name_key,
                                          col_value_key=col_value_key, value_cols=cols_to_map)
    record_map_back = pivot_specification(row_keys=row_keys, col_name_key=col_name_key,
                                          col_value_key=mapped_value_key, value_cols=cols_to_map)
    ops = (
        d.select_columns(row_keys + cols_to_map)
        .convert_records(record_map_to)
        .natural_join(b=mapping_table.select_columns([col_name_key, col_value_key, mapped_value_key]),
                      jointype="left", on=[col_name_key, col_value_key])
    )
    if coalesce_value is not None:
        ops = ops.extend({mapped_value_key: f"{mapped_value_key}.coalesce({coalesce_value})"})
    ops = ops.convert_records(record_map_back)
    if cols_to_map_back is not None:
        ops = ops.rename_columns({new_name: old_name for new_name, old_name in zip(cols_to_map_back, cols_to_map)})
    return ops
```

`coalesce_value` is spliced into expression text with `str()`: the model covers int / float / bool values (their text
parses back to the same constant); a `str` value is parsed as a column name (finding C21-coalesce-text).

No imports beyond model files: part of the compiled driver.
-/
namespace DAVerif.Solutions
open DAVerif

/-! ### `repr` of the record maps (decides `RecordMap.__eq__`, carried in the model's `RecMap`) -/

/-- Python `repr` of a `str` made of printable characters -/
def pyReprStr (s : String) : String :=
  let q : Char := if s.contains '\'' && !s.contains '"' then '"' else '\''
  let body := s.foldl (fun acc c =>
    if c == '\\' then acc ++ "\\\\"
    else if c == q then (acc.push '\\').push c
    else if c == '\n' then acc ++ "\\n"
    else if c == '\t' then acc ++ "\\t"
    else if c == '\r' then acc ++ "\\r"
    else acc.push c) ""
  (String.singleton q ++ body).push q

/-- Python `repr` of a list of `str` -/
def pyReprStrs (l : List String) : String := "[" ++ ", ".intercalate (l.map pyReprStr) ++ "]"

/-- `RecordSpecification.__repr__` for the control table `{nameKey: valueCols, valueKey: valueCols}` -/
def specRepr (rowKeys : List String) (nameKey valueKey : String) (valueCols : List String) : String :=
  "data_algebra.cdata.RecordSpecification(\n    record_keys=" ++ pyReprStrs rowKeys
  ++ ",\n    control_table=pd.DataFrame({"
  ++ "\n    " ++ pyReprStr nameKey ++ ": " ++ pyReprStrs valueCols ++ ","
  ++ "\n    " ++ pyReprStr valueKey ++ ": " ++ pyReprStrs valueCols ++ ","
  ++ "\n    })"
  ++ ",\n    control_table_keys=" ++ pyReprStrs [nameKey]
  ++ ",\n    strict=True)"

/-- checks shared by `unpivot_specification` / `pivot_specification` and the constructors they call
```
known_cols = row_keys + [col_name_key, col_value_key] + value_cols
assert len(known_cols) == len(set(known_cols))
RecordSpecification(control_table={col_name_key: value_cols, col_value_key: value_cols}, record_keys=row_keys,
                    control_table_keys=[col_name_key])      # content cells: assert len(v) > 0
RecordMap(blocks_…=…)    # a control table with a single row is dropped to None; both sides None -> ValueError
```
(the other checks of `RecordSpecification.__init__` – two distinct columns, keyed by `col_name_key`, record keys
disjoint from control keys and content – follow from `known_cols` being duplicate free) -/
def pivotSpecChecks (rowKeys : List String) (nameKey valueKey : String) (valueCols : List String) :
    Except Err Unit := do
  asrt (nodupB (rowKeys ++ [nameKey, valueKey] ++ valueCols))
  asrt (valueCols.all (fun c => c != ""))
  ok? (valueCols.length > 1) .valueError

/-- `unpivot_specification(row_keys, col_name_key, col_value_key, value_cols)` as the operator layer sees it:
`blocks_in=None`, `blocks_out=` the specification; needs `row_columns`, produces `block_columns` -/
def unpivotRecMap (rowKeys : List String) (nameKey valueKey : String) (valueCols : List String) : RecMap :=
  { needed := rowKeys ++ valueCols,
    produced := rowKeys ++ [nameKey, valueKey],
    repr := "None -> " ++ specRepr rowKeys nameKey valueKey valueCols }

/-- `pivot_specification(…)`: `blocks_in=` the specification, `blocks_out=None` -/
def pivotRecMap (rowKeys : List String) (nameKey valueKey : String) (valueCols : List String) : RecMap :=
  { needed := rowKeys ++ [nameKey, valueKey],
    produced := rowKeys ++ valueCols,
    repr := specRepr rowKeys nameKey valueKey valueCols ++ " -> None" }

/-- text of `coalesce_value` as the parser reads it back: numbers and booleans through `str(v)` are themselves, a
`str` is spliced as `repr(v)` (a quoted literal) since fix "def_multi_column_map quotes a string coalesce_value" -/
def coalesceLitOk : Lit → Bool
  | .int _ | .flt _ | .bool _ | .str _ => true
  | _ => false

def defMultiColumnMap (d mappingTable : Ops) (rowKeys : List String) (colsToMap : List String)
    (nameKey : String := "column_name") (valueKey : String := "column_value")
    (mappedKey : String := "mapped_value") (coalesceValue : Option Lit := none)
    (colsToMapBack : Option (List String) := none) : Except Err Ops := do
  asrt (!rowKeys.isEmpty)
  asrt (!colsToMap.isEmpty)
  match colsToMapBack with
  | some back => asrt (back.length == colsToMap.length)
  | none => pure ()
  asrt (nodupB (rowKeys ++ colsToMap))
  asrt (nodupB (rowKeys ++ [nameKey, valueKey, mappedKey]))
  asrt (nodupB (rowKeys ++ colsToMapBack.getD colsToMap))
  pivotSpecChecks rowKeys nameKey valueKey colsToMap       -- record_map_to = unpivot_specification(…)
  pivotSpecChecks rowKeys nameKey mappedKey colsToMap      -- record_map_back = pivot_specification(…)
  let mapTo := unpivotRecMap rowKeys nameKey valueKey colsToMap
  let mapBack := pivotRecMap rowKeys nameKey mappedKey colsToMap
  -- d.select_columns(row_keys + cols_to_map).convert_records(record_map_to)
  let o1 ← buildChain d [.selectCols (rowKeys ++ colsToMap), .convert (some mapTo)]
  -- b = mapping_table.select_columns([col_name_key, col_value_key, mapped_value_key])
  let b ← build mappingTable (.selectCols [nameKey, valueKey, mappedKey])
  let o2 ← build o1 (.join b [nameKey, valueKey] [nameKey, valueKey] "left" false)
  let o3 ← match coalesceValue with
    | none => pure o2
    | some v =>
      if coalesceLitOk v then build o2 (.extend [(mappedKey, mcall "coalesce" (.col mappedKey) [.value v])] .none [] [])
      else match v with
        -- `str(coalesce_value)` of a `str` is its bare text: the parser reads an identifier as a column name
        -- (NameError when there is no such column); modelled for identifier-shaped strings (finding C21-coalesce-text)
        | .str s =>
          if o2.cols.contains s then build o2 (.extend [(mappedKey, mcall "coalesce" (.col mappedKey) [.col s])] .none [] [])
          else throw .nameError
        | _ => throw .other
  let o4 ← build o3 (.convert (some mapBack))
  match colsToMapBack with
  | none => return o4
  | some back => build o4 (.rename (back.zip colsToMap))

/-! ### what the Pandas executor computes for the two record maps

`RecordMap.transform`:
```
unknown = set(self.columns_needed) - set(X.columns)
if len(unknown) > 0: raise ValueError
if self.blocks_in is not None:  X = blocks_to_rowrecs(X, blocks_in=self.blocks_in)
if self.blocks_out is not None: X = rowrecs_to_blocks(X, blocks_out=self.blocks_out)
```
Column order of the real result frames is not part of any claim (the model's result has the declared
`columns_produced` order). -/

/-- `table_is_keyed_by_columns(table, ks)` for non-empty `ks` present in the table (`dropna=False`: null is a key
value like any other) -/
def keyedBy (ks : List String) (rows : List Row) : Bool :=
  rows.length < 2 || (ks != [] && nodupKeys (rows.map (fun r => keyOf r ks)))
where
  nodupKeys : List (List Val) → Bool
    | [] => true
    | k :: l => !l.contains k && nodupKeys l

/-- `rowrecs_to_blocks` for the un-pivot specification:
```
data = data.loc[:, blocks_out.row_columns]
if data.shape[0] < 1: return DataFrame({c: [] for c in blocks_out.block_columns})
if not table_is_keyed_by_columns(data, record_keys): raise ValueError
rows = [extract_rows(i) for i in range(ct.shape[0])]   # record keys + (col_name_key = value_cols[i]) + (col_value_key = data[value_cols[i]])
res = pd.concat(rows, axis=0)
res = res.sort_values(by=record_keys + control_table_keys)
``` -/
def unpivotTable (rowKeys : List String) (nameKey valueKey : String) (valueCols : List String) (t : Table) :
    Except Err Table := do
  ok? (subset (rowKeys ++ valueCols) t.cols) .valueError
  let out := rowKeys ++ [nameKey, valueKey]
  if t.rows.isEmpty then return ⟨out, []⟩
  ok? (keyedBy rowKeys t.rows) .valueError
  let rows := valueCols.flatMap (fun c => t.rows.map (fun r =>
    rowKeys.map (fun k => (k, r.get k)) ++ [(nameKey, Val.str c), (valueKey, r.get c)]))
  return ⟨out, sortRows (rowKeys ++ [nameKey]) [] rows⟩

/-- `blocks_to_rowrecs` for the pivot specification:
```
data = data.loc[:, blocks_in.block_columns]
if data.shape[0] < 1: return DataFrame({c: [] for c in blocks_in.row_columns})
if not table_is_keyed_by_columns(data, record_keys + control_table_keys): raise ValueError
split = [v for k, v in data.groupby(col_name_key)]                 # ascending key order, null keys dropped
for i in range(1, len(split)): assert split[i].shape[0] == split[0].shape[0]
split = [s.sort_values(by=record_keys) for s in split];  sk = split[0][record_keys]
split = [limit_and_rename_cols(s) for s in split]                  # value column renamed to the block's name
res = pd.concat([sk] + split, axis=1)                              # side by side, by position
res = res.sort_values(by=record_keys)
```
Modelled for blocks whose names are among `value_cols` (what the un-pivot produces); a block with another name
(the real frame then gets a column labelled by the merge's `NaN`) is outside the model and answers `Err.other`.
A name of `value_cols` without a block leaves its column absent in the real frame; the model fills it with nulls
(the declared columns), such inputs do not arise from `def_multi_column_map` either. -/
def pivotTable (rowKeys : List String) (nameKey valueKey : String) (valueCols : List String) (t : Table) :
    Except Err Table := do
  ok? (subset (rowKeys ++ [nameKey, valueKey]) t.cols) .valueError
  let out := rowKeys ++ valueCols
  if t.rows.isEmpty then return ⟨out, []⟩
  ok? (keyedBy (rowKeys ++ [nameKey]) t.rows) .valueError
  let names := ((t.rows.map (fun r => r.get nameKey)).filter (fun v => !v.isNull)).eraseDups
  match names with
  | [] => throw .other                                    -- `split[0]`: IndexError
  | n0 :: rest =>
    ok? (names.all (fun n => valueCols.any (fun c => Val.str c == n))) .other
    let block := fun (n : Val) => sortRows rowKeys [] (t.rows.filter (fun r => r.get nameKey == n))
    ok? (rest.all (fun n => (block n).length == (block n0).length)) .assertionError
    let rows := (block n0).zipIdx.map (fun ri =>
      rowKeys.map (fun k => (k, ri.1.get k)) ++
      valueCols.map (fun c => (c, (((block (Val.str c))[ri.2]?).map (fun r => r.get valueKey)).getD Val.null)))
    return ⟨out, sortRows rowKeys [] rows⟩

/-- the record-transform interpretation for the pipelines of `def_multi_column_map` with the given parameters:
the helper's two record maps are recognised (needed / produced columns and `repr`, which decides
`RecordMap.__eq__`); any other map is outside it -/
def mcmConvert (rowKeys : List String) (nameKey valueKey mappedKey : String) (valueCols : List String) :
    RecMap → Table → Except Err Table := fun rm t =>
  if rm = unpivotRecMap rowKeys nameKey valueKey valueCols then
    unpivotTable rowKeys nameKey valueKey valueCols t
  else if rm = pivotRecMap rowKeys nameKey mappedKey valueCols then
    pivotTable rowKeys nameKey mappedKey valueCols t
  else .error .other

end DAVerif.Solutions
