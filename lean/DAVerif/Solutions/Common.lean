import DAVerif.Ops.Builder
/-
Shared pieces of the models of /repo/data_algebra/solutions.py.

Each helper of solutions.py is a short Python function: a block of `assert`s over its parameters followed by a chain of
builder calls whose expressions are given as *text* (f-strings over the parameter names).  The models in this directory
transcribe the helpers call by call through the model's own builders (`DAVerif.build`), so that every check and every
simplification of the builders applies exactly as it does to the real helper.

Expression text.  The text is parsed by `parse_by_lark` (C13's model); what the builders receive is the parsed tree.
The constructors below are the trees the parser builds for the three shapes of text the helpers use
(suite `k2_solutions` compares the resulting node trees, expression trees included, with the real helpers'):

* `x.f(a, …)`   → `Expression("f", [x, a, …], method=True)`           (`mcall`)
* `f()`         → `Expression("f", [])` in function form               (`fcall0`)
* `a op b`      → `Expression("op", [a, b], inline=True)`              (`binop`)

Scope of the models: column names interpolated into expression text are Python identifiers that are not keywords
(otherwise the text does not parse to a column reference); type tests (`isinstance`) are discharged by the types.

No imports beyond model files: part of the compiled driver.
-/
namespace DAVerif.Solutions
open DAVerif

/-- `recv.f(args…)` -/
def mcall (f : String) (recv : Term) (args : List Term := []) : Term := .app f (recv :: args) false true
/-- `f()` -/
def fcall0 (f : String) : Term := .app f [] false false
/-- `a op b` -/
def binop (op : String) (a b : Term) : Term := .app op [a, b] true false

/-- a Python `assert` -/
def asrt (c : Bool) : Except Err Unit := ok? c .assertionError

/-- `TableDescription(table_name=…, column_names=[…])`: `ViewRepresentation.__init__` asserts
```
assert len(column_names) > 0
assert len(column_names) == len(set(column_names))
``` -/
def mkTable (name : String) (cols : List String) : Except Err Ops := do
  asrt (!cols.isEmpty)
  asrt (nodupB cols)
  return .table name cols

/-- is the view a `TableDescription` -/
def isTable : Ops → Bool
  | .table _ _ => true
  | _ => false

end DAVerif.Solutions
