import DAVerif.Solutions.Common
/-
Model of `data_algebra.solutions.rank_to_average`.

```
def rank_to_average(d, *, order_by, partition_by=None, rank_column_name, tie_breaker_column_name="rank_tie_breaker"):
    assert isinstance(d, ViewRepresentation)
    assert not isinstance(order_by, str)
    order_by = list(order_by)
    if partition_by is None:
        partition_by = []
    else:
        assert not isinstance(partition_by, str)
        partition_by = list(partition_by)
    cols = [rank_column_name, tie_breaker_column_name] + list(d.column_names)
    assert len(cols) == len(set(cols))
    ops = (
        d.extend({tie_breaker_column_name: "_row_number()"}, order_by=order_by)
        .extend({rank_column_name: "(1.0).cumsum()"},
                order_by=order_by + [tie_breaker_column_name], partition_by=partition_by)
        .extend({rank_column_name: f"{rank_column_name}.mean()"}, partition_by=partition_by + order_by)
        .drop_columns([tie_breaker_column_name])
    )
    return ops
```

No imports beyond model files: part of the compiled driver.
-/
namespace DAVerif.Solutions
open DAVerif

/-- the four builder calls of `rank_to_average`, as `Step`s of the model's `build` -/
def rankToAverageSteps (orderBy part : List String) (rankCol tbCol : String) : List Step :=
  [ -- d.extend({tie_breaker_column_name: "_row_number()"}, order_by=order_by)
    .extend [(tbCol, fcall0 "_row_number")] .none orderBy [],
    -- .extend({rank_column_name: "(1.0).cumsum()"}, order_by=order_by + [tie_breaker], partition_by=partition_by)
    .extend [(rankCol, mcall "cumsum" (.value (.flt 1)))] (.cols part) (orderBy ++ [tbCol]) [],
    -- .extend({rank_column_name: f"{rank_column_name}.mean()"}, partition_by=partition_by + order_by)
    .extend [(rankCol, mcall "mean" (.col rankCol))] (.cols (part ++ orderBy)) [] [],
    -- .drop_columns([tie_breaker_column_name])
    .dropCols [tbCol] ]

def rankToAverage (d : Ops) (orderBy : List String) (partitionBy : Option (List String)) (rankCol : String)
    (tbCol : String := "rank_tie_breaker") : Except Err Ops := do
  let part := partitionBy.getD []
  -- cols = [rank_column_name, tie_breaker_column_name] + list(d.column_names); assert len(cols) == len(set(cols))
  asrt (nodupB ([rankCol, tbCol] ++ d.cols))
  buildChain d (rankToAverageSteps orderBy part rankCol tbCol)

end DAVerif.Solutions
