import DAVerif.Solutions.Common
/-
Model of `data_algebra.solutions.last_observed_carried_forward` with the default `selection_predicate="is_null()"`
(the documented behaviour "copy last observed non-null value forward"; any other predicate text is outside the model).

```
def last_observed_carried_forward(d, *, order_by, partition_by=None, value_column_name,
        selection_predicate="is_null()", locf_to_use_column_name="locf_to_use",
        locf_non_null_rank_column_name="locf_non_null_rank", locf_tiebreaker_column_name="locf_tiebreaker"):
    cols = [locf_to_use_column_name, locf_non_null_rank_column_name, locf_tiebreaker_column_name] + list(d.column_names)
    assert len(cols) == len(set(cols))
    order_by = list(order_by)
    partition_by = [] if partition_by is None else list(partition_by)
    d_marked = (
        d.extend({locf_to_use_column_name: f"{value_column_name}.{selection_predicate}.where(0, 1)"})
        .extend({locf_tiebreaker_column_name: "_row_number()"}, order_by=partition_by + order_by)
        .extend({locf_non_null_rank_column_name: f"{locf_to_use_column_name}.cumsum()"},
                order_by=order_by + [locf_tiebreaker_column_name], partition_by=partition_by)
    )
    ops = d_marked.natural_join(
        b=d_marked.select_rows(f"{locf_to_use_column_name} == 1").select_columns(
            partition_by + [locf_non_null_rank_column_name, value_column_name]),
        on=partition_by + [locf_non_null_rank_column_name],
        jointype="left",
    ).drop_columns([locf_to_use_column_name, locf_non_null_rank_column_name, locf_tiebreaker_column_name])
    return ops
```

No imports beyond model files: part of the compiled driver.
-/
namespace DAVerif.Solutions
open DAVerif

/-- `d_marked`: the three `extend` calls -/
def locfMarkedSteps (orderBy part : List String) (valueCol useCol rankCol tbCol : String) : List Step :=
  [ -- d.extend({locf_to_use: f"{value_column_name}.is_null().where(0, 1)"})
    .extend [(useCol, mcall "where" (mcall "is_null" (.col valueCol)) [.value (.int 0), .value (.int 1)])] .none [] [],
    -- .extend({locf_tiebreaker: "_row_number()"}, order_by=partition_by + order_by)
    .extend [(tbCol, fcall0 "_row_number")] .none (part ++ orderBy) [],
    -- .extend({locf_non_null_rank: f"{locf_to_use}.cumsum()"}, order_by=order_by + [locf_tiebreaker], partition_by=partition_by)
    .extend [(rankCol, mcall "cumsum" (.col useCol))] (.cols part) (orderBy ++ [tbCol]) [] ]

def lastObservedCarriedForward (d : Ops) (orderBy : List String) (partitionBy : Option (List String))
    (valueCol : String) (useCol : String := "locf_to_use") (rankCol : String := "locf_non_null_rank")
    (tbCol : String := "locf_tiebreaker") : Except Err Ops := do
  -- cols = [locf_to_use, locf_non_null_rank, locf_tiebreaker] + list(d.column_names); assert unique
  asrt (nodupB ([useCol, rankCol, tbCol] ++ d.cols))
  let part := partitionBy.getD []
  let marked ← buildChain d (locfMarkedSteps orderBy part valueCol useCol rankCol tbCol)
  -- b = d_marked.select_rows(f"{locf_to_use} == 1").select_columns(partition_by + [locf_non_null_rank, value_column_name])
  let b ← buildChain marked
    [ .selectRows (some (binop "==" (.col useCol) (.value (.int 1)))),
      .selectCols (part ++ [rankCol, valueCol]) ]
  -- d_marked.natural_join(b=…, on=partition_by + [locf_non_null_rank], jointype="left").drop_columns([…])
  buildChain marked
    [ .join b (part ++ [rankCol]) (part ++ [rankCol]) "left" false,
      .dropCols [useCol, rankCol, tbCol] ]

end DAVerif.Solutions
