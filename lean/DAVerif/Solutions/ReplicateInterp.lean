import DAVerif.Solutions.Replicate
import DAVerif.Sem.Theta
import DAVerif.Sql.ThetaSql
/-
An executable interpretation of the four function symbols of `replicate_rows_query`'s power expression that the shared
concrete interpretations (`Theta`, `ThetaSql`) leave uninterpreted: `log`, `as_int64`, and `concat` of a string with a
number.

`log` cannot be computed exactly over rationals.  The power expression only uses it as `ceil(log(c) / log(2))` on
positive integers `c`; the stand-in below is a monotone function `λ` on positive integers with `λ 2 = 1` and
`⌈λ c / λ 2⌉ = ⌈log₂ c⌉` for every `c ≥ 1` (`λ c = log₂ c` when `c` is a power of two, `⌈log₂ c⌉ - 1/2` otherwise).
That the *engines'* floating point `ceil(log(c)/log(2))` equals `⌈log₂ c⌉` is the hypothesis `hlog` of the property
theorem, discharged by exhaustive evaluation in the check; this file only supplies an interpretation under which the
hypothesis is true by construction, for the driver and for the non-vacuity examples.

No imports beyond model files: part of the compiled driver.
-/
namespace DAVerif.Solutions
open DAVerif

/-- the stand-in for `log` on positive integers (null elsewhere) -/
def logStandIn (x : Rat) : Val :=
  if x.den == 1 && x.num ≥ 1 then
    let c := x.num.toNat
    let k := clog2 c
    if 2 ^ k == c then .num (k : Nat) else .num ((k : Nat) - 1 / 2)
  else .null

/-- the scalar interpretation `base` extended by `log`, `as_int64` (truncation) and `concat(str, integer)` -/
def repScalar (base : String → List ArgV → Val) (op : String) (args : List ArgV) : Val :=
  match op, args.map Theta.cell with
  | "log", [.num x] => logStandIn x
  | "log", [_] => .null
  | "as_int64", [.num x] => .num (Int.tdiv x.num x.den : Int)
  | "as_int64", [_] => .null
  | "concat", [.str a, .num x] => if x.den == 1 then .str (a ++ toString x.num) else .null
  | _, _ => base op args

/-- Pandas-side interpretation used by the driver suite `k4_solutions` -/
def thetaSol (convert : RecMap → Table → Except Err Table) : Interp :=
  { Theta.concrete convert with scalar := repScalar Theta.scalar }

/-- SQLite-side interpretation used by the driver suite `k5_solutions` -/
def thetaSqlSol : Interp :=
  { ThetaSql.concrete with scalar := repScalar ThetaSql.scalar }

end DAVerif.Solutions
