import DAVerif.Sql.Sem
/-
WITH form and CTE elimination: model of `to_with_form` / `NearSQLContainer.to_with_form_stub` (near_sql.py) and of
the WITH branch of `SQLModel.to_sql`.

`cache = none`  : `use_cte_elim` off (or unsupported by the dialect);
`cache = some c`: the `cte_cache` dictionary, key `f"{ops_key}_{list(columns)}"` ↦ name of the CTE already emitted.

No imports beyond model files: part of the compiled driver.
-/
namespace DAVerif.Sql
open DAVerif

abbrev Cache := List (String × String)

/-- one `name AS ( … )` entry: the stubbed step with the columns and `force_sql` flag it was bound with -/
structure WithStep where
  name : String
  near : Near
  cols : Option (List String)
  force : Bool
  deriving Repr, Inhabited

def cacheKey (near : Near) (cols : Option (List String)) : String :=
  (match near.key with | some k => k | none => "None") ++
  (match cols with | some cs => "_" ++ renderStrs cs | none => "")

def appendUnseen (s1 s2 : List WithStep) : List WithStep :=
  s2.foldl (fun acc st => if acc.any (fun x => x.name == st.name) then acc else acc ++ [st]) s1

mutual
/-- `near.to_with_form(cte_cache)` → (last step, previous steps, cache) -/
def toWithForm (cache : Option Cache) : Near → Near × List WithStep × Option Cache
  | n@(.table ..) => (n, [], cache)
  | n@(.cte ..) => (n, [], cache)
  | n@(.unary name terms agg sub subCols suffix _ _ key) =>
    if sub.isTable then (n, [], cache)
    else
      let (stub, seq, cache') := withStub cache sub subCols false
      -- the stubbed step is rebuilt without `mergeable` / `declared_term_dependencies`
      (.unary name terms agg stub subCols suffix false none key, seq, cache')
  | n@(.join name terms l lCols lName r rCols rName jt onA onB key) =>
    if l.isTable && r.isTable then (n, [], cache)
    else
      let (s1, q1, c1) := withStub cache l (some lCols) false
      let (s2, q2, c2) := withStub c1 r (some rCols) false
      (.join name terms s1 lCols lName s2 rCols rName jt onA onB key, appendUnseen q1 q2, c2)
  | n@(.union name terms l r cols key) =>
    if l.isTable && r.isTable then (n, [], cache)
    else
      let (s1, q1, c1) := withStub cache l (some cols) true
      let (s2, q2, c2) := withStub c1 r (some cols) true
      (.union name terms s1 s2 cols key, appendUnseen q1 q2, c2)

/-- `container.to_with_form_stub(cte_cache)` for a container (near, columns, force_sql) -/
def withStub (cache : Option Cache) : Near → Option (List String) → Bool → Near × List WithStep × Option Cache
  | near, cols, force =>
    if near.isTable then (near, [], cache)
    else
      -- fix N28: the cache is consulted BEFORE the sub-query is converted (a hit visits nothing below the node, so no
      -- key of a discarded step can stay behind in the cache)
      let k := cacheKey near cols
      match cache.bind (fun c => lookupLast c k) with
      | some cteName => (.cte cteName, [], cache)
      | none =>
        let (stub, seq, cache1) := toWithForm cache near
        let seq' := if seq.any (fun st => st.name == stub.name) then seq else seq ++ [⟨stub.name, stub, cols, force⟩]
        (.cte stub.name, seq', cache1.map (fun c => c ++ [(k, stub.name)]))
end

/-- meaning of `WITH s₁ AS (…), …, sₙ AS (…) <last>` : the entries are evaluated in order, each visible to the later ones -/
def semWith (Θ : Interp) (ec : EngineCfg) (env : Env) (steps : List WithStep) (last : Near) : Except Err Table := do
  let ctes ← steps.foldlM (fun (ctes : List (String × Table)) st => do
    let t ← semNear Θ ec env ctes st.near st.cols st.force
    return ctes ++ [(st.name, t)]) []
  semNear Θ ec env ctes last none true

/-- `to_sql` for given options: nested form, or WITH form (falling back to nested when there is no previous step) -/
def semToSql (Θ : Interp) (ec : EngineCfg) (env : Env) (useWith cteElim : Bool) (q : Near) : Except Err Table :=
  if useWith then
    let (last, steps, _) := toWithForm (if cteElim then some [] else none) q
    if steps.isEmpty then semSql Θ ec env q else semWith Θ ec env steps last
  else semSql Θ ec env q

end DAVerif.Sql
