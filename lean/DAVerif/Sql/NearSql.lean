import DAVerif.Ops.Compose
/-
NearSQL: model of `data_algebra/near_sql.py` (NearSQLTable, NearSQLCommonTableExpression, NearSQLUnaryStep,
NearSQLBinaryStep with their NearSQLContainer bindings) with *structured* terms: where the code stores the
SQL text of an expression (`expr_to_sql(term) + window_term`), the model stores the expression tree and the
window specification, so that a semantics can be given (Sql/Sem.lean).

No imports beyond model files: part of the compiled driver.
-/
namespace DAVerif.Sql
open DAVerif

/-- window specification of a windowed extend: ` OVER ( PARTITION BY … ORDER BY … [DESC] ) ` -/
structure Win where
  partition : List String
  order : List String
  reverse : List String
  deriving DecidableEq, Repr, Inhabited

/-- one entry of a SELECT list (`terms[k]`) -/
inductive STerm where
  | pass                                         -- `None` (or the text `k` itself): the column of the same name
  | ident (c : String)                           -- quoted identifier of another column (rename / map_columns)
  | expr (t : Term) (win : Option Win)           -- `expr_to_sql(t)` followed by the window term, if any
  | coalesce (leftFirst : Bool) (c : String)     -- `COALESCE(first.c, second.c)` in a join
  | qual (left : Bool) (c : String)              -- `join_source_left_n.c` / `join_source_right_n.c` (fix D34)
  deriving Repr, Inhabited

/-- the part of a step after its FROM clause -/
inductive Suffix where
  | none
  | whereE (e : Term)
  | groupBy (cs : List String)
  | orderBy (cs reverse : List String) (limit : Option Nat)
  deriving Repr, Inhabited

abbrev Terms := List (String × STerm)

/-- canonical text of a pipeline, standing for `str(node)` inside `ops_key` (CTE-elimination keys are strings) -/
def renderLit : Lit → String
  | .none => "None" | .bool b => if b then "True" else "False" | .int i => s!"i{i}"
  | .flt q => s!"f{q.num}/{q.den}" | .nan => "nan" | .inf => "inf" | .ninf => "-inf"
  | .str s => "s" ++ s.quote

mutual
def renderTerm : Term → String
  | .value v => renderLit v
  | .col c => "c" ++ c.quote
  | .list vs => "[" ++ ",".intercalate (vs.map renderLit) ++ "]"
  | .dict kvs => "{" ++ ",".intercalate (kvs.map (fun kv => renderLit kv.1 ++ ":" ++ renderLit kv.2)) ++ "}"
  | .app op args i m => "(" ++ op.quote ++ (if i then "i" else "") ++ (if m then "m" else "") ++ renderTerms args ++ ")"
def renderTerms : List Term → String
  | [] => ""
  | t :: ts => " " ++ renderTerm t ++ renderTerms ts
end

def renderStrs (cs : List String) : String := "[" ++ ",".intercalate (cs.map String.quote) ++ "]"
def renderAssign (a : Assign) : String :=
  "{" ++ ",".intercalate (a.map (fun kv => kv.1.quote ++ ":" ++ renderTerm kv.2)) ++ "}"

def renderOps : Ops → String
  | .table n cs => "T(" ++ n.quote ++ renderStrs cs ++ ")"
  | .extend s ops p o r w => "E(" ++ renderOps s ++ renderAssign ops ++ renderStrs p ++ renderStrs o ++ renderStrs r
      ++ (if w then "w" else "") ++ ")"
  | .project s ops g => "P(" ++ renderOps s ++ renderAssign ops ++ renderStrs g ++ ")"
  | .selectRows s e => "S(" ++ renderOps s ++ renderTerm e ++ ")"
  | .selectCols s cs => "C(" ++ renderOps s ++ renderStrs cs ++ ")"
  | .dropCols s cs => "D(" ++ renderOps s ++ renderStrs cs ++ ")"
  | .order s cs r l => "O(" ++ renderOps s ++ renderStrs cs ++ renderStrs r ++
      (match l with | none => "" | some n => s!"L{n}") ++ ")"
  | .rename s m => "R(" ++ renderOps s ++ renderStrs (m.map (fun kv => kv.1 ++ "=" ++ kv.2)) ++ ")"
  | .mapCols s m d => "M(" ++ renderOps s ++ renderStrs (m.map (fun kv => kv.1 ++ "=" ++ kv.2)) ++ renderStrs d ++ ")"
  | .join a b oa ob t => "J(" ++ renderOps a ++ renderOps b ++ renderStrs oa ++ renderStrs ob ++ t.toStr ++ ")"
  | .concat a b i an bn => "U(" ++ renderOps a ++ renderOps b ++ (match i with | none => "-" | some c => c.quote)
      ++ an.quote ++ bn.quote ++ ")"
  | .convert s rm => "V(" ++ renderOps s ++ rm.repr.quote ++ ")"

inductive Near where
  /-- NearSQLTable: a base table; `terms` = the declared columns requested, in declared order -/
  | table (name : String) (terms : List String)
  /-- NearSQLCommonTableExpression: reference to an earlier WITH entry -/
  | cte (name : String)
  /-- NearSQLUnaryStep.  `terms = none` means `SELECT *`.  `agg`: an aggregating SELECT (project step).
      `sub`/`subCols`: the bound sub-query (`NearSQLContainer.columns`).  `deps`: `declared_term_dependencies`
      (`none` for non-mergeable steps).  `key`: `ops_key`. -/
  | unary (name : String) (terms : Option Terms) (agg : Bool) (sub : Near) (subCols : Option (List String))
      (suffix : Suffix) (mergeable : Bool) (deps : Option (List (String × List String))) (key : Option String)
  /-- NearSQLBinaryStep with a `… JOIN` joiner -/
  | join (name : String) (terms : Terms) (l : Near) (lCols : List String) (lName : String)
      (r : Near) (rCols : List String) (rName : String) (jt : JoinType) (onA onB : List String) (key : Option String)
  /-- NearSQLBinaryStep with joiner `UNION ALL` (both sides bound with the same column list, `force_sql`) -/
  | union (name : String) (terms : List String) (l r : Near) (cols : List String) (key : Option String)
  deriving Repr, Inhabited

namespace Near
def name : Near → String
  | table n _ | cte n | unary n .. | join n .. | union n .. => n

def isTable : Near → Bool
  | table .. | cte .. => true
  | _ => false

def key : Near → Option String
  | table n _ => some n
  | cte _ => none
  | unary _ _ _ _ _ _ _ _ k | join _ _ _ _ _ _ _ _ _ _ _ k | union _ _ _ _ _ k => k

/-- the keys of `terms` (`none` when the step has no term dictionary) -/
def termKeys : Near → Option (List String)
  | table _ ts => some ts
  | cte _ => none
  | unary _ ts .. => ts.map (·.map (·.1))
  | join _ ts .. => some (ts.map (·.1))
  | union _ ts .. => some ts

/-- all query names introduced in the tree (pre-order) -/
def names : Near → List String
  | table .. | cte .. => []
  | unary n _ _ s .. => n :: names s
  | join n _ l _ _ r .. => n :: (names l ++ names r)
  | union n _ l r .. => n :: (names l ++ names r)
end Near

end DAVerif.Sql
