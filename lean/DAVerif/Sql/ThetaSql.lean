import DAVerif.Sql.Sem
import DAVerif.Sem.Theta
/-
Concrete interpretation of the function symbols as the generated SQLite SQL computes them (driver only; used
to validate `semSql` against the real engine).  It differs from the Pandas interpretation `Theta` exactly where
SQL differs: comparisons and boolean connectives are three-valued, SUM/AVG/MIN/MAX of no non-null value are NULL,
cumulative window functions carry the running value over NULL arguments.
-/
namespace DAVerif.ThetaSql
open DAVerif DAVerif.Theta

def cmp3 (f : Val → Val → Bool) (a b : Val) : Val :=
  if a.isNull || b.isNull then .null else .bool (f a b)

def tv : Val → Option Bool
  | .bool b => some b
  | .num q => some (q != 0)
  | _ => none

/-- Kleene AND / OR over a list -/
def and3 (vs : List Val) : Val :=
  if vs.any (fun v => tv v == some false) then .bool false
  else if vs.any (fun v => (tv v).isNone) then .null else .bool true
def or3 (vs : List Val) : Val :=
  if vs.any (fun v => tv v == some true) then .bool true
  else if vs.any (fun v => (tv v).isNone) then .null else .bool false

/-- `(x * 10.0 ** k).round() / 10.0 ** k` (sql_model._db_around_expr) for a NEGATIVE whole `k` (`p = 1 / 10^|k|`): SQL ROUND
rounds half away from zero -/
def aroundNegSql (x k : Rat) : Val :=
  if k.den == 1 then
    let p : Rat := 1 / ratPow 10 (-k.num).toNat
    let y := (if x < 0 then -x else x) * p
    let f : Int := y.floor
    let r : Int := if y - f < 1/2 then f else f + 1
    .num ((if x < 0 then -1 else 1) * (r : Rat) / p)
  else .null

def scalar (op : String) (args : List ArgV) : Val :=
  let vs := args.map cell
  match op, vs with
  | "==", [a, b] => cmp3 valEq a b
  | "!=", [a, b] => cmp3 (fun x y => !valEq x y) a b
  | "<", [a, b] => cmp3 (fun x y => Val.lt x y) a b
  | "<=", [a, b] => cmp3 (fun x y => !Val.lt y x) a b
  | ">", [a, b] => cmp3 (fun x y => Val.lt y x) a b
  | ">=", [a, b] => cmp3 (fun x y => !Val.lt x y) a b
  | "and", _ => and3 vs
  | "or", _ => or3 vs
  | "where", [c, a, b] => (match c with | .bool true => a | _ => b)
  | "around", [a, .num k] =>
    -- SQL ROUND(x, k): half away from zero (numpy.around rounds half to even)
    (match num? a with
     | some x =>
       if k.den == 1 && k.num ≥ 0 then
         let p : Rat := ratPow 10 k.num.toNat
         let y := (if x < 0 then -x else x) * p
         let f : Int := y.floor
         let r : Int := if y - f < 1/2 then f else f + 1
         .num ((if x < 0 then -1 else 1) * (r : Rat) / p)
       else aroundNegSql x k
     | none => .null)
  | _, _ =>
    match op, args with
    | "is_in", [.v a, .l xs] => if a.isNull then .null else .bool (xs.any (fun x => valEq a x))
    | _, _ => Theta.scalar op args

def agg (op : String) (vs : List Val) : Val :=
  match op with
  | "sum" => if (nums vs).isEmpty then .null else .num (sumR (nums vs))
  | "any_value" => maxV vs
  -- COUNT is rendered as SUM(CASE WHEN x IS NOT NULL THEN 1 ELSE 0 END), sizes as SUM(1): NULL over no rows
  | "count" => if vs.isEmpty then .null else .num (nonNull vs).length
  | "size" | "_size" | "_count" => if vs.isEmpty then .null else .num vs.length
  -- any / all are MAX / MIN over a CASE: NULL over no rows
  | "any" | "all" => if vs.isEmpty then .null else Theta.agg op vs
  | _ => Theta.agg op vs

def runFold (f : Rat → Rat → Rat) (vs : List Val) (pos : Nat) : Val :=
  match nums (vs.take (pos + 1)) with
  | [] => .null
  | x :: xs => .num (xs.foldl f x)

def win (op : String) (cargs : List Val) (vs : List Val) (pos : Nat) : Val :=
  match op with
  | "cumsum" => runFold (· + ·) vs pos
  | "cumprod" => runFold (· * ·) vs pos
  | "cummax" => runFold (fun a b => if a < b then b else a) vs pos
  | "cummin" => runFold (fun a b => if b < a then b else a) vs pos
  | "cumcount" | "_row_number" | "_count" | "shift" | "rank" | "ffill" | "bfill" => Theta.win op cargs vs pos
  | _ => agg op vs

def concrete : Interp :=
  { scalar := scalar, agg := agg, win := win, convert := fun _ _ => .error .other }

end DAVerif.ThetaSql
