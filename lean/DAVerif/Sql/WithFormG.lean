import DAVerif.Sql.WithForm
/-
Generalised WITH form (property C04): `to_with_form` / `to_with_form_stub` (near_sql.py) with the CTE-cache key
as a PARAMETER.

Why: the real cache key is `f"{ops_key}_{list(columns)}"`, where `ops_key` contains `terms.keys()` and `columns`
is an OrderedSet built from Python sets: the text of the key depends on set-iteration order (hash-seed
dependent).  The shared model (`Sql/WithForm.lean`) uses the canonical key `cacheKey`.  The soundness theorem of C04
is therefore proved for EVERY key function `key : Near → Option (List String) → String` that is faithful on the query
at hand (Props/C04.lean); `cacheKey` is the instance of the shared model (`toWithFormG_cacheKey`, Proofs/WithFix.lean).

* `toWithFormG key` / `stubStep key` — the code as it is (after fix N28: `to_with_form_stub` consults the cache BEFORE it
  converts the sub-query), written by structural recursion on the tree: `to_with_form_stub` is `stubStep` applied to the
  result of `to_with_form` on the same node (used on a miss only; on a table / CTE node both return the node, no step
  and the cache unchanged).  `toWithFormG cacheKey = toWithForm`.
* `toWithFormOld key` / `stubStepOld key` — the stub BEFORE fix N28 (sub-query converted first, cache consulted
  afterwards, the converted steps discarded on a hit): kept only for the necessity theorem
  `C04_cte_elim_closed_necessary` ("the pre-fix code needed `closed`") and its companion `C04_cte_elim_old_sound_key`.
* `semWithC`, `scopeEnv` — the scoping rule of SQL `WITH` that the shared `semNear` does not model (a table reference
  whose name equals an earlier CTE name denotes the CTE): finding D24.

No imports beyond model files.
-/
namespace DAVerif.Sql
open DAVerif

abbrev KeyFn := Near → Option (List String) → String

/-! ### the code as it is (fix N28: the cache is consulted before the sub-query is converted)

```
        if self.near_sql.is_table: return self, []
        ops_key = f"{self.near_sql.ops_key}"
        if self.columns is not None: ops_key = f"{ops_key}_{list(self.columns)}"
        if cte_cache is not None:
            try:    retrieved_cte = cte_cache[ops_key]; ...; return new_stub, []       # nothing below is visited
            except KeyError: pass
        in_with_form = self.near_sql.to_with_form(cte_cache=cte_cache)
        ...
            if stub.quoted_query_name not in {k for k, v in sequence}:
                sequence.append((stub.quoted_query_name, NearSQLContainer(near_sql=stub, force_sql=…, columns=…)))
            new_stub_cte = NearSQLCommonTableExpression(query_name=stub.query_name, …)
            if (cte_cache is not None) and (ops_key is not None): cte_cache[ops_key] = new_stub_cte
``` -/

/-- `container.to_with_form_stub(cte_cache0)`; `r` = the result of `to_with_form` on the node (used on a miss only) -/
def stubStep (key : KeyFn) (cache0 : Option Cache) (near : Near) (cols : Option (List String)) (force : Bool)
    (r : Near × List WithStep × Option Cache) : Near × List WithStep × Option Cache :=
  if near.isTable then r
  else
    match cache0.bind (fun c => lookupLast c (key near cols)) with
    | some cteName => (.cte cteName, [], cache0)
    | none =>
      (.cte r.1.name,
       if r.2.1.any (fun st => st.name == r.1.name) then r.2.1 else r.2.1 ++ [⟨r.1.name, r.1, cols, force⟩],
       r.2.2.map (fun c => c ++ [(key near cols, r.1.name)]))

/-- `near.to_with_form(cte_cache)` with the key function `key` -/
def toWithFormG (key : KeyFn) (cache : Option Cache) : Near → Near × List WithStep × Option Cache
  | .table n ts => (.table n ts, [], cache)
  | .cte n => (.cte n, [], cache)
  | .unary name terms agg sub subCols suffix mg deps k =>
    if sub.isTable then (.unary name terms agg sub subCols suffix mg deps k, [], cache)
    else
      let r := stubStep key cache sub subCols false (toWithFormG key cache sub)
      (.unary name terms agg r.1 subCols suffix false none k, r.2.1, r.2.2)
  | .join name terms l lCols lName r rCols rName jt onA onB k =>
    if l.isTable && r.isTable then (.join name terms l lCols lName r rCols rName jt onA onB k, [], cache)
    else
      let r1 := stubStep key cache l (some lCols) false (toWithFormG key cache l)
      let r2 := stubStep key r1.2.2 r (some rCols) false (toWithFormG key r1.2.2 r)
      (.join name terms r1.1 lCols lName r2.1 rCols rName jt onA onB k, appendUnseen r1.2.1 r2.2.1, r2.2.2)
  | .union name terms l r cols k =>
    if l.isTable && r.isTable then (.union name terms l r cols k, [], cache)
    else
      let r1 := stubStep key cache l (some cols) true (toWithFormG key cache l)
      let r2 := stubStep key r1.2.2 r (some cols) true (toWithFormG key r1.2.2 r)
      (.union name terms r1.1 r2.1 cols k, appendUnseen r1.2.1 r2.2.1, r2.2.2)

/-! ### the stub before fix N28 (sub-query converted first, cache consulted afterwards) -/

/-- `container.to_with_form_stub(cte_cache)` after `in_with_form = self.near_sql.to_with_form(cte_cache)` has
returned `r = (stub, sequence, cache)`:
```
        if not stub.is_table:
            ops_key = f"{self.near_sql.ops_key}"
            if self.columns is not None: ops_key = f"{ops_key}_{list(self.columns)}"
            if (cte_cache is not None) and (ops_key is not None):
                try:    retrieved_cte = cte_cache[ops_key]; ...; return new_stub, []      # steps discarded
                except KeyError: pass
            if stub.quoted_query_name not in {k for k, v in sequence}:
                sequence.append((stub.quoted_query_name, NearSQLContainer(near_sql=stub, force_sql=…, columns=…)))
            new_stub_cte = NearSQLCommonTableExpression(query_name=stub.query_name, …)
            if (cte_cache is not None) and (ops_key is not None): cte_cache[ops_key] = new_stub_cte
``` -/
def stubStepOld (key : KeyFn) (near : Near) (cols : Option (List String)) (force : Bool)
    (r : Near × List WithStep × Option Cache) : Near × List WithStep × Option Cache :=
  if near.isTable then r
  else
    match r.2.2.bind (fun c => lookupLast c (key near cols)) with
    | some cteName => (.cte cteName, [], r.2.2)
    | none =>
      (.cte r.1.name,
       if r.2.1.any (fun st => st.name == r.1.name) then r.2.1 else r.2.1 ++ [⟨r.1.name, r.1, cols, force⟩],
       r.2.2.map (fun c => c ++ [(key near cols, r.1.name)]))

/-- `near.to_with_form(cte_cache)` of the code before fix N28 -/
def toWithFormOld (key : KeyFn) (cache : Option Cache) : Near → Near × List WithStep × Option Cache
  | .table n ts => (.table n ts, [], cache)
  | .cte n => (.cte n, [], cache)
  | .unary name terms agg sub subCols suffix mg deps k =>
    if sub.isTable then (.unary name terms agg sub subCols suffix mg deps k, [], cache)
    else
      let r := stubStepOld key sub subCols false (toWithFormOld key cache sub)
      (.unary name terms agg r.1 subCols suffix false none k, r.2.1, r.2.2)
  | .join name terms l lCols lName r rCols rName jt onA onB k =>
    if l.isTable && r.isTable then (.join name terms l lCols lName r rCols rName jt onA onB k, [], cache)
    else
      let r1 := stubStepOld key l (some lCols) false (toWithFormOld key cache l)
      let r2 := stubStepOld key r (some rCols) false (toWithFormOld key r1.2.2 r)
      (.join name terms r1.1 lCols lName r2.1 rCols rName jt onA onB k, appendUnseen r1.2.1 r2.2.1, r2.2.2)
  | .union name terms l r cols k =>
    if l.isTable && r.isTable then (.union name terms l r cols k, [], cache)
    else
      let r1 := stubStepOld key l (some cols) true (toWithFormOld key cache l)
      let r2 := stubStepOld key r (some cols) true (toWithFormOld key r1.2.2 r)
      (.union name terms r1.1 r2.1 cols k, appendUnseen r1.2.1 r2.2.1, r2.2.2)

/-- the entries `WITH s₁ AS (…), …` evaluated in order from the context `ctes` -/
def runSteps (Θ : Interp) (ec : EngineCfg) (env : Env) (ctes : List (String × Table)) (steps : List WithStep) :
    Except Err (List (String × Table)) :=
  steps.foldlM (fun (ctes : List (String × Table)) st => do
    let t ← semNear Θ ec env ctes st.near st.cols st.force
    return ctes ++ [(st.name, t)]) ctes

/-- SQL name resolution inside `WITH`: a name is looked up among the CTEs defined so far (latest first) before the
database tables.  `semNear` resolves `.table` nodes in `env` only; evaluating with `scopeEnv env ctes` makes a table
reference that is spelled like an earlier CTE denote that CTE. -/
def scopeEnv (env : Env) (ctes : List (String × Table)) : Env := ctes.reverse ++ env

/-- `semWith` with SQL's scoping of CTE names over table names (what the engine does with the WITH text) -/
def semWithC (Θ : Interp) (ec : EngineCfg) (env : Env) (steps : List WithStep) (last : Near) : Except Err Table := do
  let ctes ← steps.foldlM (fun (ctes : List (String × Table)) st => do
    let t ← semNear Θ ec (scopeEnv env ctes) ctes st.near st.cols st.force
    return ctes ++ [(st.name, t)]) []
  semNear Θ ec (scopeEnv env ctes) ctes last none true

/-! ### sub-queries with their bindings -/

/-- a bound sub-query: `NearSQLContainer(near_sql, columns, force_sql)` -/
abbrev Bound := Near × Option (List String) × Bool

/-- all bound sub-queries that are not table-like (the containers `to_with_form_stub` does work on), pre-order -/
def Near.desc : Near → List Bound
  | .table .. | .cte .. => []
  | .unary _ _ _ sub sc .. => (if sub.isTable then [] else [(sub, sc, false)]) ++ sub.desc
  | .join _ _ l lc _ r rc .. =>
    (if l.isTable then [] else [(l, some lc, false)]) ++ l.desc ++ ((if r.isTable then [] else [(r, some rc, false)]) ++ r.desc)
  | .union _ _ l r cols _ =>
    (if l.isTable then [] else [(l, some cols, true)]) ++ l.desc ++ ((if r.isTable then [] else [(r, some cols, true)]) ++ r.desc)

/-- no reference to a common table expression (true of every tree `toNearSql` builds) -/
def Near.noCte : Near → Bool
  | .table .. => true
  | .cte _ => false
  | .unary _ _ _ sub .. => sub.noCte
  | .join _ _ l _ _ r .. => l.noCte && r.noCte
  | .union _ _ l r .. => l.noCte && r.noCte

/-- names of the database tables the query reads -/
def Near.tables : Near → List String
  | .table n _ => [n]
  | .cte _ => []
  | .unary _ _ _ sub .. => sub.tables
  | .join _ _ l _ _ r .. => l.tables ++ r.tables
  | .union _ _ l r .. => l.tables ++ r.tables

end DAVerif.Sql
