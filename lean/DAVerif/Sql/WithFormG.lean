import DAVerif.Sql.WithForm
/-
Generalised WITH form (property C04): `to_with_form` / `to_with_form_stub` (near_sql.py) with the CTE-cache key
as a PARAMETER.

Why: the real cache key is `f"{ops_key}_{list(columns)}"`, where `ops_key` contains `terms.keys()` and `columns`
is an OrderedSet built from Python sets: the text of the key depends on set-iteration order (hash-seed
dependent).  The shared model (`Sql/WithForm.lean`) uses the canonical key `cacheKey`; the real code may hit the
cache less often (or, in principle, differently).  The soundness theorem of C04 is therefore proved for EVERY key
function `key : Near → Option (List String) → String` that is faithful on the query at hand (Props/C04.lean);
`cacheKey` is the instance of the shared model (`toWithFormG_cacheKey`, Proofs/WithForm.lean).

The definition below is the shared one with `cacheKey` replaced by `key`, written by structural recursion on the
tree: `to_with_form_stub` is `stubStep` applied to the result of `to_with_form` on the same node (on a table /
CTE node both return the node, no step and the cache unchanged).

Also here: the scoping rule of SQL `WITH` that the shared `semNear` does not model (a table reference whose name
equals an earlier CTE name denotes the CTE): `semWithC` (finding D24).

No imports beyond model files.
-/
namespace DAVerif.Sql
open DAVerif

abbrev KeyFn := Near → Option (List String) → String

/-- `container.to_with_form_stub(cte_cache)` after `in_with_form = self.near_sql.to_with_form(cte_cache)` has
returned `r = (stub, sequence, cache)`:
```
        if not stub.is_table:
            ops_key = f"{self.near_sql.ops_key}"
            if self.columns is not None: ops_key = f"{ops_key}_{list(self.columns)}"
            if (cte_cache is not None) and (ops_key is not None):
                try:    retrieved_cte = cte_cache[ops_key]; ...; return new_stub, []      # steps discarded
                except KeyError: pass
            if stub.quoted_query_name not in {k for k, v in sequence}:
                sequence.append((stub.quoted_query_name, NearSQLContainer(near_sql=stub, force_sql=…, columns=…)))
            new_stub_cte = NearSQLCommonTableExpression(query_name=stub.query_name, …)
            if (cte_cache is not None) and (ops_key is not None): cte_cache[ops_key] = new_stub_cte
``` -/
def stubStep (key : KeyFn) (near : Near) (cols : Option (List String)) (force : Bool)
    (r : Near × List WithStep × Option Cache) : Near × List WithStep × Option Cache :=
  if near.isTable then r
  else
    match r.2.2.bind (fun c => lookupLast c (key near cols)) with
    | some cteName => (.cte cteName, [], r.2.2)
    | none =>
      (.cte r.1.name,
       if r.2.1.any (fun st => st.name == r.1.name) then r.2.1 else r.2.1 ++ [⟨r.1.name, r.1, cols, force⟩],
       r.2.2.map (fun c => c ++ [(key near cols, r.1.name)]))

/-- `near.to_with_form(cte_cache)` with the key function `key` -/
def toWithFormG (key : KeyFn) (cache : Option Cache) : Near → Near × List WithStep × Option Cache
  | .table n ts => (.table n ts, [], cache)
  | .cte n => (.cte n, [], cache)
  | .unary name terms agg sub subCols suffix mg deps k =>
    if sub.isTable then (.unary name terms agg sub subCols suffix mg deps k, [], cache)
    else
      let r := stubStep key sub subCols false (toWithFormG key cache sub)
      (.unary name terms agg r.1 subCols suffix false none k, r.2.1, r.2.2)
  | .join name terms l lCols lName r rCols rName jt onA onB k =>
    if l.isTable && r.isTable then (.join name terms l lCols lName r rCols rName jt onA onB k, [], cache)
    else
      let r1 := stubStep key l (some lCols) false (toWithFormG key cache l)
      let r2 := stubStep key r (some rCols) false (toWithFormG key r1.2.2 r)
      (.join name terms r1.1 lCols lName r2.1 rCols rName jt onA onB k, appendUnseen r1.2.1 r2.2.1, r2.2.2)
  | .union name terms l r cols k =>
    if l.isTable && r.isTable then (.union name terms l r cols k, [], cache)
    else
      let r1 := stubStep key l (some cols) true (toWithFormG key cache l)
      let r2 := stubStep key r (some cols) true (toWithFormG key r1.2.2 r)
      (.union name terms r1.1 r2.1 cols k, appendUnseen r1.2.1 r2.2.1, r2.2.2)

/-! ### the repaired stub (fixes/c04-cte-elim-lookup-before-recursion.diff)

`to_with_form_stub` with the cache consulted BEFORE the recursion into the sub-query: on a hit nothing below is
visited, so no key of a discarded step can stay behind in the cache (finding N28). -/

def stubStepFix (key : KeyFn) (cache0 : Option Cache) (near : Near) (cols : Option (List String)) (force : Bool)
    (r : Near × List WithStep × Option Cache) : Near × List WithStep × Option Cache :=
  if near.isTable then r
  else
    match cache0.bind (fun c => lookupLast c (key near cols)) with
    | some cteName => (.cte cteName, [], cache0)
    | none =>
      (.cte r.1.name,
       if r.2.1.any (fun st => st.name == r.1.name) then r.2.1 else r.2.1 ++ [⟨r.1.name, r.1, cols, force⟩],
       r.2.2.map (fun c => c ++ [(key near cols, r.1.name)]))

/-- `near.to_with_form(cte_cache)` of the repaired code; `r` of `stubStepFix` is only used on a miss (the code
recurses only then) -/
def toWithFormFix (key : KeyFn) (cache : Option Cache) : Near → Near × List WithStep × Option Cache
  | .table n ts => (.table n ts, [], cache)
  | .cte n => (.cte n, [], cache)
  | .unary name terms agg sub subCols suffix mg deps k =>
    if sub.isTable then (.unary name terms agg sub subCols suffix mg deps k, [], cache)
    else
      let r := stubStepFix key cache sub subCols false (toWithFormFix key cache sub)
      (.unary name terms agg r.1 subCols suffix false none k, r.2.1, r.2.2)
  | .join name terms l lCols lName r rCols rName jt onA onB k =>
    if l.isTable && r.isTable then (.join name terms l lCols lName r rCols rName jt onA onB k, [], cache)
    else
      let r1 := stubStepFix key cache l (some lCols) false (toWithFormFix key cache l)
      let r2 := stubStepFix key r1.2.2 r (some rCols) false (toWithFormFix key r1.2.2 r)
      (.join name terms r1.1 lCols lName r2.1 rCols rName jt onA onB k, appendUnseen r1.2.1 r2.2.1, r2.2.2)
  | .union name terms l r cols k =>
    if l.isTable && r.isTable then (.union name terms l r cols k, [], cache)
    else
      let r1 := stubStepFix key cache l (some cols) true (toWithFormFix key cache l)
      let r2 := stubStepFix key r1.2.2 r (some cols) true (toWithFormFix key r1.2.2 r)
      (.union name terms r1.1 r2.1 cols k, appendUnseen r1.2.1 r2.2.1, r2.2.2)

/-- `to_sql` of the repaired code for given options (as `semToSql`, with `toWithFormFix cacheKey`) -/
def semToSqlFix (Θ : Interp) (ec : EngineCfg) (env : Env) (useWith cteElim : Bool) (q : Near) : Except Err Table :=
  if useWith then
    let r := toWithFormFix cacheKey (if cteElim then some [] else none) q
    if r.2.1.isEmpty then semSql Θ ec env q else semWith Θ ec env r.2.1 r.1
  else semSql Θ ec env q

/-- the entries `WITH s₁ AS (…), …` evaluated in order from the context `ctes` -/
def runSteps (Θ : Interp) (ec : EngineCfg) (env : Env) (ctes : List (String × Table)) (steps : List WithStep) :
    Except Err (List (String × Table)) :=
  steps.foldlM (fun (ctes : List (String × Table)) st => do
    let t ← semNear Θ ec env ctes st.near st.cols st.force
    return ctes ++ [(st.name, t)]) ctes

/-- SQL name resolution inside `WITH`: a name is looked up among the CTEs defined so far (latest first) before the
database tables.  `semNear` resolves `.table` nodes in `env` only; evaluating with `scopeEnv env ctes` makes a table
reference that is spelled like an earlier CTE denote that CTE. -/
def scopeEnv (env : Env) (ctes : List (String × Table)) : Env := ctes.reverse ++ env

/-- `semWith` with SQL's scoping of CTE names over table names (what the engine does with the WITH text) -/
def semWithC (Θ : Interp) (ec : EngineCfg) (env : Env) (steps : List WithStep) (last : Near) : Except Err Table := do
  let ctes ← steps.foldlM (fun (ctes : List (String × Table)) st => do
    let t ← semNear Θ ec (scopeEnv env ctes) ctes st.near st.cols st.force
    return ctes ++ [(st.name, t)]) []
  semNear Θ ec (scopeEnv env ctes) ctes last none true

/-! ### sub-queries with their bindings -/

/-- a bound sub-query: `NearSQLContainer(near_sql, columns, force_sql)` -/
abbrev Bound := Near × Option (List String) × Bool

/-- all bound sub-queries that are not table-like (the containers `to_with_form_stub` does work on), pre-order -/
def Near.desc : Near → List Bound
  | .table .. | .cte .. => []
  | .unary _ _ _ sub sc .. => (if sub.isTable then [] else [(sub, sc, false)]) ++ sub.desc
  | .join _ _ l lc _ r rc .. =>
    (if l.isTable then [] else [(l, some lc, false)]) ++ l.desc ++ ((if r.isTable then [] else [(r, some rc, false)]) ++ r.desc)
  | .union _ _ l r cols _ =>
    (if l.isTable then [] else [(l, some cols, true)]) ++ l.desc ++ ((if r.isTable then [] else [(r, some cols, true)]) ++ r.desc)

/-- no reference to a common table expression (true of every tree `toNearSql` builds) -/
def Near.noCte : Near → Bool
  | .table .. => true
  | .cte _ => false
  | .unary _ _ _ sub .. => sub.noCte
  | .join _ _ l _ _ r .. => l.noCte && r.noCte
  | .union _ _ l r .. => l.noCte && r.noCte

/-- names of the database tables the query reads -/
def Near.tables : Near → List String
  | .table n _ => [n]
  | .cte _ => []
  | .unary _ _ _ sub .. => sub.tables
  | .join _ _ l _ _ r .. => l.tables ++ r.tables
  | .union _ _ l r .. => l.tables ++ r.tables

end DAVerif.Sql
