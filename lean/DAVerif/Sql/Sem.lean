import DAVerif.Sql.ToNearSql
import DAVerif.Sem.Eval
/-
Bag semantics of NearSQL trees = the assumed behaviour of the SQL engine on the text `to_sql` renders from them
(modelled, not verified: SQLite's evaluator; validated on every run by executing the real SQL on SQLite, suite K5).

* a step renders as `SELECT <terms of the requested columns> FROM (<sub-query with its bound columns>) <suffix>`;
* WHERE keeps the rows whose condition is TRUE (three-valued logic lives in the interpretation `Θ` of the operators);
* GROUP BY groups NULL keys together; an aggregate SELECT without GROUP BY returns exactly one row;
* window functions see their partition in ORDER BY order (`nullsSmallest`: where NULLs sort: SQLite/MySQL smallest,
  PostgreSQL largest); the default frame equals ROWS UNBOUNDED PRECEDING..CURRENT ROW when the order is total;
* joins are the standard ones: ON equality never holds for NULL keys; unmatched rows are padded with NULL.

No imports beyond model files: part of the compiled driver.
-/
namespace DAVerif.Sql
open DAVerif

structure EngineCfg where
  nullsSmallest : Bool
  deriving DecidableEq, Repr

def EngineCfg.sqlite : EngineCfg := ⟨true⟩
def EngineCfg.postgres : EngineCfg := ⟨false⟩

/-- ORDER BY comparison of one column: `rev` = DESC; NULL is the smallest (SQLite) or the largest (PostgreSQL) value -/
def sqlCellLe (ec : EngineCfg) (rev : Bool) (a b : Val) : Bool :=
  let le : Val → Val → Bool := fun x y =>
    match x.isNull, y.isNull with
    | true, true => true
    | true, false => ec.nullsSmallest
    | false, true => !ec.nullsSmallest
    | false, false => !(Val.lt y x)
  if rev then le b a else le a b

def sqlRowLe (ec : EngineCfg) (order reverse : List String) (r1 r2 : Row) : Bool :=
  match order with
  | [] => true
  | c :: cs =>
    let a := r1.get c
    let b := r2.get c
    if a == b then sqlRowLe ec cs reverse r1 r2 else sqlCellLe ec (reverse.contains c) a b

def sqlSortIdx (ec : EngineCfg) (order reverse : List String) (rows : List (Row × Nat)) : List (Row × Nat) :=
  rows.mergeSort (fun a b => sqlRowLe ec order reverse a.1 b.1)

/-- value of one SELECT-list entry on a row of the FROM table (row-wise steps); `idx` = the FROM rows with positions,
needed by window terms -/
def termVal (Θ : Interp) (ec : EngineCfg) (idx : List (Row × Nat)) (ri : Row × Nat) (k : String) : Option STerm → Val
  | none | some .pass => ri.1.get k
  | some (.ident c) => ri.1.get c
  | some (.expr t none) => evalCell Θ ri.1 t
  | some (.expr t (some w)) =>
    let part := idx.filter (fun rj => keyOf rj.1 w.partition == keyOf ri.1 w.partition)
    let sorted := sqlSortIdx ec w.order w.reverse part
    let pos := sorted.findIdx (fun rj => rj.2 == ri.2)
    Θ.win (opName t) (constArgs t) (argValues t (sorted.map (·.1))) pos
  | some (.coalesce _ c) | some (.qual _ c) => ri.1.get c

/-- value of one SELECT-list entry of an aggregating SELECT on a group of rows -/
def aggVal (Θ : Interp) (g : List Row) (k : String) : Option STerm → Val
  | some (.expr t _) => Θ.agg (opName t) (argValues t g)
  | some (.ident c) => (g.head?.map (fun r => r.get c)).getD .null
  | _ => (g.head?.map (fun r => r.get k)).getD .null

/-- the columns a step outputs: the requested ones; nothing requested → all its terms (fix D14); no terms → `*` -/
def outCols (terms : Option Terms) (cols? : Option (List String)) (fromCols : List String) : List String :=
  match terms with
  | none => fromCols
  | some ts =>
    match cols? with
    | some cs => if cs.isEmpty then ts.map (·.1) else cs
    | none => ts.map (·.1)

def sqlJoinRow (lCols rCols : List String) (terms : Terms) (out : List String) (ra rb : Option Row) : Row :=
  out.map (fun c =>
    let av : Val := match ra with | some r => if lCols.contains c then r.get c else .null | none => .null
    let bv : Val := match rb with | some r => if rCols.contains c then r.get c else .null | none => .null
    match lookupLast terms c with
    | some (.coalesce leftFirst _) => (c, if leftFirst then (if av.isNull then bv else av) else (if bv.isNull then av else bv))
    | _ => (c, if lCols.contains c then av else bv))

def semNear (Θ : Interp) (ec : EngineCfg) (env : Env) (ctes : List (String × Table)) :
    Near → Option (List String) → Bool → Except Err Table
  | .table name terms, cols?, force =>
    match env.lookup name with
    | none => .error .other
    | some t =>
      if force then
        let cs := cols?.getD terms
        if cs.isEmpty then .ok t
        else if subset cs t.cols then .ok (t.selectCols cs) else .error .other
      else .ok t
  | .cte name, _, _ =>
    match lookupLast ctes name with
    | none => .error .other
    | some t => .ok t
  | .unary _ terms agg sub subCols suffix _ _ _, cols?, _ => do
    let t ← semNear Θ ec env ctes sub subCols false
    let out := outCols terms cols? t.cols
    let look := fun (k : String) => match terms with | none => none | some ts => lookupLast ts k
    let rows := match suffix with
      | .whereE e => t.rows.filter (fun r => evalCell Θ r e == .bool true)
      | .orderBy cs rev _ => t.rows.mergeSort (fun a b => sqlRowLe ec cs rev a b)
      | _ => t.rows
    if agg then
      match suffix with
      | .groupBy gs =>
        let keys := (rows.map (fun r => keyOf r gs)).eraseDups
        return ⟨out, keys.map (fun k =>
          let g := rows.filter (fun r => keyOf r gs == k)
          out.map (fun c => (c, aggVal Θ g c (look c))))⟩
      | _ => return ⟨out, [out.map (fun c => (c, aggVal Θ rows c (look c)))]⟩
    else
      let idx := rows.zipIdx
      let res := idx.map (fun ri => out.map (fun c => (c, termVal Θ ec idx ri c (look c))))
      match suffix with
      | .orderBy _ _ (some n) => return ⟨out, res.take n⟩
      | _ => return ⟨out, res⟩
  | .join _ terms l lCols _ r rCols _ jt onA onB _, cols?, _ => do
    let tl ← semNear Θ ec env ctes l (some lCols) false
    let tr ← semNear Θ ec env ctes r (some rCols) false
    if jt == .outer then .error .other      -- `OUTER JOIN` is not SQL
    else
      let out := match cols? with | some cs => if cs.isEmpty then terms.map (·.1) else cs | none => terms.map (·.1)
      let allMatch := jt == .cross || onA.isEmpty
      let m := fun (ra rb : Row) => allMatch || keyMatch SemCfg.ref (keyOf ra onA) (keyOf rb onB)
      let mk := sqlJoinRow lCols rCols terms out
      let pairs := tl.rows.flatMap (fun ra => (tr.rows.filter (fun rb => m ra rb)).map (fun rb => mk (some ra) (some rb)))
      let leftOnly := (tl.rows.filter (fun ra => !(tr.rows.any (fun rb => m ra rb)))).map (fun ra => mk (some ra) none)
      let rightOnly := (tr.rows.filter (fun rb => !(tl.rows.any (fun ra => m ra rb)))).map (fun rb => mk none (some rb))
      let keepL := jt == .left || jt == .full
      let keepR := jt == .right || jt == .full
      return ⟨out, pairs ++ (if keepL then leftOnly else []) ++ (if keepR then rightOnly else [])⟩
  | .union _ terms l r cols _, cols?, _ => do
    let tl ← semNear Θ ec env ctes l (some cols) true
    let tr ← semNear Θ ec env ctes r (some cols) true
    let out := match cols? with | some cs => if cs.isEmpty then terms else cs | none => terms
    -- UNION ALL matches columns by position; both sides select `cols` in the same order
    return ⟨out, (tl.rows ++ tr.rows).map (fun row => row.select out)⟩

/-- the result of the whole query text (`to_sql_str_list(force_sql=True)` on the root, nested form) -/
def semSql (Θ : Interp) (ec : EngineCfg) (env : Env) (q : Near) : Except Err Table :=
  semNear Θ ec env [] q none true

end DAVerif.Sql
