import DAVerif.Sql.NearSql
/-
Translation of operator trees to NearSQL: model of the `*_to_near_sql` methods of `sql_model.py` and of the
SQLite overrides in `SQLite.py` (RIGHT join as swapped LEFT join, FULL join through key union and two LEFT joins),
for /repo after fixes D14 and D31.

`using = none` is the root call (`using=None`: all declared columns).  Query names are numbered by a counter that is
threaded through the translation in the code's call order (`temp_id_source`).

No imports beyond model files: part of the compiled driver.
-/
namespace DAVerif.Sql
open DAVerif
open DAVerif.Ops (usedFromSources unionL)

structure SqlCfg where
  /-- `allow_extend_merges` -/
  merges : Bool
  /-- the dialect has no RIGHT / FULL JOIN and emulates them (SQLite) -/
  emulateRightFull : Bool
  deriving DecidableEq, Repr, Inhabited

def SqlCfg.sqlite : SqlCfg := ⟨true, true⟩
def SqlCfg.generic : SqlCfg := ⟨true, false⟩

abbrev M := StateT Nat (Except Err)

def fresh : M Nat := do
  let n ← get
  set (n + 1)
  return n

def liftE {α : Type} (e : Except Err α) : M α := fun s => e.map (fun a => (a, s))
def guardM (c : Bool) (e : Err) : M Unit := liftE (ok? c e)

/-- `NearSQL.__init__`: an empty term dictionary is stored as `None` -/
def mkTerms (ts : Terms) : Option Terms := if ts.isEmpty then none else some ts

def keyOfNode (kind : String) (n : Ops) (termKeys : List String) : Option String :=
  some (kind ++ "(" ++ renderOps n ++ "," ++ renderStrs termKeys ++ ")")

/-- Python dict assignment `d[k] = v`: replace in place or append -/
def dictSet {β : Type} (d : List (String × β)) (k : String) (v : β) : List (String × β) :=
  if d.any (fun kv => kv.1 == k) then d.map (fun kv => if kv.1 == k then (k, v) else kv) else d ++ [(k, v)]

def isPass : STerm → Bool
  | .pass => true
  | _ => false

/-- `non_trivial_terms(dep_dict, term_dict)` of `extend_to_near_sql` -/
def nonTrivialTerms (deps : List (String × List String)) (terms : Terms) : List String :=
  (deps.filter (fun kv =>
    -- fix D32: a dependency entry whose term was pruned by a later select/drop columns is skipped
    terms.any (fun t => t.1 == kv.1) &&
    (!(kv.2.filter (fun c => c != kv.1)).isEmpty || !kv.2.contains kv.1 ||
      (match lookupLast terms kv.1 with | some t => !isPass t | none => false)))).map (·.1)

/-- (the assignment `subsql.terms = {…}` bypasses `NearSQL.__init__`, so an empty dictionary stays a dictionary)
restrict / reorder the term dictionary of a step (what `select_columns` / `drop_columns` do to `subsql.terms`);
`none` when a requested key is missing (KeyError in the code) -/
def setTermKeys (near : Near) (keys : List String) (isSelect : Bool := false) : Option Near :=
  match near with
  | .table n ts => if keys.isEmpty then some near else if subset keys ts then some (.table n keys) else none
  | .cte n => some (.cte n)
  | .unary n ts agg sub sc sf mg deps key =>
    match ts with
    | none =>
      -- select_columns names the selected columns of a `SELECT *` step (fix D35); drop_columns subscripts None
      if isSelect then some (.unary n (some (keys.map (fun k => (k, STerm.pass)))) agg sub sc sf mg deps key)
      else if keys.isEmpty then some (.unary n none agg sub sc sf mg deps key)
      else none
    | some ts =>
      -- fix D36: nothing requested → the step keeps its own terms
      if keys.isEmpty then some near
      else if subset keys (ts.map (·.1)) then
        some (.unary n (some (keys.filterMap (fun k => (lookupLast ts k).map (fun t => (k, t))))) agg sub sc sf mg deps key)
      else none
  | .join n ts l lc ln r rc rn jt oa ob key =>
    if keys.isEmpty then some near
    else if subset keys (ts.map (·.1)) then
      some (.join n (keys.filterMap (fun k => (lookupLast ts k).map (fun t => (k, t)))) l lc ln r rc rn jt oa ob key)
    else none
  | .union n ts l r cs key =>
    if keys.isEmpty then some near else if subset keys ts then some (.union n keys l r cs key) else none

/-! ### the translation -/

/-- `fuel` bounds the nesting depth of the recursion: the translation of a FULL join (SQLite) and of a labelled
`concat_rows` re-enters the translation on pipelines that the builders construct on the fly, so the recursion is
not structural in the operator tree.  `toNearSql` supplies enough fuel (`6 * size + 6`). -/
def toNear (cfg : SqlCfg) : Nat → Ops → Option (List String) → M Near
  | 0, _, _ => liftE (.error .other)
  | fuel+1, n@(.table name cs), using? => do
    let usg := using?.getD cs
    guardM (subset usg cs) .keyError
    let colsUsing := cs.filter (fun c => usg.contains c)
    let base := Near.table name colsUsing
    if !usg.isEmpty && !(subset usg cs && subset cs usg) then
      let i ← fresh
      return .unary s!"table_reference_{i}" (mkTerms (usg.map (fun k => (k, STerm.pass)))) false base (some usg)
        .none false none (keyOfNode "table" n usg)
    else return base
  | fuel+1, n@(.extend src ops partition order reverse windowed), using? => do
    let usg0 := using?.getD n.cols
    let usg := unionL (unionL (unionL usg0 partition) order) reverse
    let subops := ops.filter (fun kv => usg.contains kv.1)
    if subops.isEmpty then toNear cfg fuel src (some usg)
    else
      guardM (!usg.isEmpty) .valueError
      guardM (subset usg n.cols) .keyError
      let subusing := (usedFromSources n usg).headD []
      let sub ← toNear cfg fuel src (some subusing)
      let isWin := windowed || !partition.isEmpty || !order.isEmpty
      let win : Option Win := if isWin then some ⟨partition, order, reverse⟩ else none
      let windowVars := if isWin then unionL partition order else []
      let origcols := usg.filter (fun k => !(subops.map (·.1)).contains k)
      let terms : Terms := origcols.map (fun k => (k, STerm.pass)) ++ subops.map (fun kv => (kv.1, STerm.expr kv.2 win))
      let deps : List (String × List String) :=
        origcols.map (fun k => (k, [k])) ++ subops.map (fun kv => (kv.1, unionL (Term.colsUsed kv.2) windowVars))
      let fallback : M Near := do
        let i ← fresh
        return .unary s!"extend_{i}" (mkTerms terms) false sub (some subusing) .none true (some deps)
          (keyOfNode "extend" n (terms.map (·.1)))
      match cfg.merges, sub with
      | true, .unary sname (some sterms) sagg ssub scols .none true (some sdeps) skey =>
        let ourNT := nonTrivialTerms deps terms
        let ourNeeds := (deps.filter (fun kv => ourNT.contains kv.1)).flatMap (·.2)
        let subNT := nonTrivialTerms sdeps sterms
        let subNeeds := (sdeps.filter (fun kv => subNT.contains kv.1)).flatMap (·.2)
        let contention := inter ourNT subNT ++ inter ourNT subNeeds ++ inter subNT ourNeeds
        if contention.isEmpty then
          let sterms' := ourNT.foldl (fun d k => match lookupLast terms k with | some t => dictSet d k t | none => d) sterms
          let sdeps' := ourNT.foldl (fun d k => match lookupLast deps k with | some v => dictSet d k v | none => d) sdeps
          let weUse := terms.map (·.1)
          let sterms' := sterms'.filter (fun kv => weUse.contains kv.1)
          let sdeps' := sdeps'.filter (fun kv => weUse.contains kv.1)
          -- fix D25: the merged step is re-keyed (it now computes this extend as well)
          let _ := skey
          return .unary sname (some sterms') sagg ssub scols .none true (some sdeps')
            (keyOfNode "extend" n (sterms'.map (·.1)))
        else fallback
      | _, _ => fallback
  | fuel+1, n@(.project src ops group), using? => do
    let usg0 := using?.getD n.cols
    let subops0 := ops.filter (fun kv => usg0.contains kv.1)
    -- fix D14: keep one aggregate when everything was pruned from an un-grouped project
    let (subops, usg) : Assign × List String :=
      if subops0.isEmpty && group.isEmpty && !ops.isEmpty then (ops.take 1, usg0 ++ (ops.take 1).map (·.1))
      else (subops0, usg0)
    let subusing := (usedFromSources n usg).headD []
    let terms : Terms := subops.map (fun kv => (kv.1, STerm.expr kv.2 none)) ++
      (group.filter (fun g => !(subops.map (·.1)).contains g)).map (fun g => (g, STerm.pass))
    let sub ← toNear cfg fuel src (some subusing)
    let i ← fresh
    return .unary s!"project_{i}" (mkTerms terms) true sub (some subusing)
      (if group.isEmpty then .none else .groupBy group) false none (keyOfNode "project" n (terms.map (·.1)))
  | fuel+1, n@(.selectRows src e), using? => do
    let usg := using?.getD n.cols
    let subusing := (usedFromSources n usg).headD []
    let sub ← toNear cfg fuel src (some subusing)
    let i ← fresh
    return .unary s!"select_rows_{i}" (mkTerms (usg.map (fun k => (k, STerm.pass)))) false sub (some subusing)
      (.whereE e) false none (keyOfNode "select" n usg)
  | fuel+1, n@(.selectCols src cs), using? => do
    let usg := using?.getD n.cols
    let su := (usedFromSources n usg).headD []
    let subusing := cs.filter (fun c => su.contains c)
    let sub ← toNear cfg fuel src (some subusing)
    match setTermKeys sub subusing true with
    | some s => return s
    | none => liftE (.error .keyError)
  | fuel+1, n@(.dropCols src dels), using? => do
    let usg := using?.getD n.cols
    let subusing := (usedFromSources n usg).headD []
    let sub ← toNear cfg fuel src (some subusing)
    match setTermKeys sub (usg.filter (fun k => !dels.contains k)) with
    | some s => return s
    | none => liftE (.error .keyError)
  | fuel+1, n@(.order src cs reverse limit), using? => do
    let usg := using?.getD n.cols
    let su := (usedFromSources n usg).headD []
    let subusing := n.cols.filter (fun c => su.contains c)
    let sub ← toNear cfg fuel src (some subusing)
    let i ← fresh
    -- after fix 1805022 the columns are always named (before: `SELECT *` when `using` was None)
    let terms : Option Terms := mkTerms (subusing.map (fun k => (k, STerm.pass)))
    return .unary s!"order_rows_{i}" terms false sub (some subusing)
      (if cs.isEmpty && limit.isNone then .none else .orderBy cs reverse limit) false none
      (some ("order(" ++ renderOps n ++ ")"))
  | fuel+1, n@(.mapCols src m dels), using? => do
    let usg := using?.getD n.cols
    let subusing := (usedFromSources n usg).headD []
    let sub ← toNear cfg fuel src (some subusing)
    let i ← fresh
    let touched := m.map (·.2) ++ m.map (·.1) ++ dels
    let unchanged := subusing.filter (fun c => !touched.contains c)
    let terms : Terms := unchanged.foldl (fun d c => dictSet d c STerm.pass)
      (m.foldl (fun d kv => dictSet d kv.2 (STerm.ident kv.1)) [])
    return .unary s!"map_columns_{i}" (mkTerms terms) false sub (some subusing) .none false none
      (keyOfNode "map_columns" n (terms.map (·.1)))
  | fuel+1, n@(.rename src m), using? => do
    let usg := using?.getD n.cols
    let subusing := (usedFromSources n usg).headD []
    let sub ← toNear cfg fuel src (some subusing)
    let i ← fresh
    let touched := m.map (·.2) ++ m.map (·.1)
    let unchanged := subusing.filter (fun c => !touched.contains c)
    let terms : Terms := unchanged.foldl (fun d c => dictSet d c STerm.pass)
      (m.foldl (fun d kv => dictSet d kv.1 (STerm.ident kv.2)) [])
    return .unary s!"rename_{i}" (mkTerms terms) false sub (some subusing) .none false none
      (keyOfNode "rename" n (terms.map (·.1)))
  | fuel+1, n@(.join a b onA onB jt), using? => do
    -- SQLite: RIGHT join = LEFT join of the swapped sources with the coalesce direction reversed
    let swap := cfg.emulateRightFull && jt == .right
    let usg := using?.getD n.cols
    if cfg.emulateRightFull && jt == .full then
      -- `_emit_full_join_as_complex`: key union, then two LEFT joins, built by the builders and translated
      guardM (!onA.isEmpty) .assertionError
      guardM (onA == onB) .assertionError
      let sim : Except Err Ops := do
        let ka ← build a (.project [] onA)
        let kb ← build b (.project [] onA)
        let ks ← build ka (.concat (some kb) none "a" "b")
        let ks ← build ks (.project [] onA)
        let j1 ← build ks (.join a onA onA "left" false)
        build j1 (.join b onA onA "left" false)
      let sim ← liftE sim
      toNear cfg fuel sim (some usg)
    else
      -- fix D33: a consumer that needs no column still gets one
      let usg := if usg.isEmpty then n.cols.take 1 else usg
      let i ← fresh
      guardM (!usg.isEmpty) .valueError
      guardM (subset usg n.cols) .keyError
      let u := unionL (unionL usg onA) onB
      let (l, r, oa, ob, jt', leftFirst) := if swap then (b, a, onB, onA, JoinType.left, false) else (a, b, onA, onB, jt, true)
      let ul := l.cols.filter (fun c => u.contains c)
      let ur := r.cols.filter (fun c => u.contains c)
      let nl ← toNear cfg fuel l (some ul)
      let nr ← toNear cfg fuel r (some ur)
      let common := ur.filter (fun c => ul.contains c)
      let terms : Terms :=
        ((common.filter (fun c => usg.contains c)).map (fun c => (c, STerm.coalesce leftFirst c)))
        ++ (ul.filter (fun c => !common.contains c)).map (fun c => (c, STerm.qual true c))
        ++ (ur.filter (fun c => !common.contains c)).map (fun c => (c, STerm.qual false c))
      return .join s!"natural_join_{i}" terms nl ul s!"join_source_left_{i}" nr ur s!"join_source_right_{i}" jt' oa ob
        (keyOfNode "join" n (terms.map (·.1)))
  | fuel+1, n@(.concat a b idc an bn), using? => do
    let usg := using?.getD n.cols
    let usg := if usg.isEmpty then n.cols.take 1 else usg     -- fix D33
    guardM (subset usg n.cols) .keyError
    let cu := usedFromSources n usg
    let ul := cu.headD []
    let ur := (cu.drop 1).headD []
    guardM (subset ul ur && subset ur ul) .valueError
    let uj := match idc with | none => ul | some c => unionL ul [c]
    -- the label column is added by an extend on each side: `extend({id_column: '"a_name"'})`
    let nl ← match idc with
      | none => toNear cfg fuel a (some uj)
      | some c => do
        let a' ← liftE (build a (.extend [(c, .value (.str an))] .none [] []))
        toNear cfg fuel a' (some uj)
    let nr ← match idc with
      | none => toNear cfg fuel b (some uj)
      | some c => do
        let b' ← liftE (build b (.extend [(c, .value (.str bn))] .none [] []))
        toNear cfg fuel b' (some uj)
    let i ← fresh
    return .union s!"concat_rows_{i}" uj nl nr uj (keyOfNode "concat" n uj)
  | _+1, .convert _ _, _ => liftE (.error .other)

/-- `to_near_sql_implementation_(using=None, temp_id_source=[0])` for a dialect configuration -/
def toNearSql (cfg : SqlCfg) (p : Ops) : Except Err Near := do
  let (n, _) ← (toNear cfg (6 * p.size + 6) p none).run 0
  return n

end DAVerif.Sql
