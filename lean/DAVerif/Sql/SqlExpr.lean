import DAVerif.Core.Table
/-
SQL expressions as the formatters of `sql_model.py` / `SQLite.py` / `PostgreSQL.py` emit them for the null / logic /
order operators, and their evaluation under SQL's three-valued logic.

The terms of this type are **generated**: `harness/extract_tables.py` calls the real `db_model.expr_to_sql` on an
`Expression` over symbolic columns, parses the returned text (CASE/WHEN, IS [NOT] NULL, comparisons, AND/OR/NOT, IN,
function calls, literals, quoted identifiers), re-renders the AST and compares it with the source text, and writes the AST
as a term of `SqlExpr` into `Generated/SqlFormatters.lean`.  `Props/C05.lean` proves for every such term that its value
under `evalSql3` is the hand-written `ThetaSql` interpretation of the operator – so an edit of a formatter body is
re-checked against what the code says *now*.

Evaluation is over `Val` (null | bool | num | str); `evalSql3` is the row-wise part, `evalSqlG` evaluates an aggregate
expression over the rows of a group (MAX MIN SUM AVG COUNT skip NULL and answer NULL over no non-NULL value).

No imports beyond `Core` (for `Val`, `Val.lt`): part of the model layer.
-/
namespace DAVerif.Sql3
open DAVerif

inductive CmpOp where
  | eq | ne | lt | le | gt | ge
  deriving DecidableEq, Repr

mutual
inductive SqlExpr where
  | col (name : String)                      -- "x"
  | null | tt | ff                           -- NULL TRUE FALSE
  | absent                                   -- a CASE without ELSE clause (evaluates to NULL)
  | num (n : Int) (d : Nat)                  -- numeric literal n / d
  | str (s : String)                         -- 'text'
  | isNull (e : SqlExpr)                     -- e IS NULL
  | isNotNull (e : SqlExpr)                  -- e IS NOT NULL
  | cmp (op : CmpOp) (a b : SqlExpr)         -- a = b, a != b, a < b …
  | not (e : SqlExpr)
  | and (a b : SqlExpr)
  | or (a b : SqlExpr)
  | paren (e : SqlExpr)                      -- ( e )
  | case (bs : Branches) (els : SqlExpr)     -- CASE WHEN c THEN t … ELSE e END
  | caseOf (scrut : SqlExpr) (bs : Branches) (els : SqlExpr)   -- CASE s WHEN v THEN t … ELSE e END
  | inList (e : SqlExpr) (items : Args)      -- e IN (v, …)
  | call (fn : String) (args : Args)         -- FN(e, …)
inductive Branches where
  | nil
  | cons (c t : SqlExpr) (rest : Branches)
inductive Args where
  | nil
  | cons (e : SqlExpr) (rest : Args)
end

/-! ### three-valued logic over `Val` -/

/-- SQL truth value of a cell: TRUE / FALSE / UNKNOWN (SQLite reads a number as `≠ 0`) -/
def truth : Val → Option Bool
  | .bool b => some b
  | .num q => some (q != 0)
  | _ => none

def numOf : Val → Option Rat
  | .num q => some q
  | .bool b => some (if b then 1 else 0)
  | _ => none

/-- SQL `=` on two non-null cells (SQLite: TRUE is 1, FALSE is 0) -/
def eqv (a b : Val) : Bool :=
  match numOf a, numOf b with
  | some x, some y => x == y
  | _, _ => a == b

def cmpVal : CmpOp → Val → Val → Bool
  | .eq, a, b => eqv a b
  | .ne, a, b => !eqv a b
  | .lt, a, b => Val.lt a b
  | .le, a, b => !Val.lt b a
  | .gt, a, b => Val.lt b a
  | .ge, a, b => !Val.lt a b

/-- a comparison with a NULL operand is UNKNOWN (NULL) -/
def cmp3 (op : CmpOp) (a b : Val) : Val :=
  if a.isNull || b.isNull then .null else .bool (cmpVal op a b)

def not3 (a : Val) : Val :=
  match truth a with
  | some b => .bool (!b)
  | none => .null

def and3 (a b : Val) : Val :=
  match truth a, truth b with
  | some false, _ => .bool false
  | _, some false => .bool false
  | some true, some true => .bool true
  | _, _ => .null

def or3 (a b : Val) : Val :=
  match truth a, truth b with
  | some true, _ => .bool true
  | _, some true => .bool true
  | some false, some false => .bool false
  | _, _ => .null

/-- `a IN (v, …)`: NULL for a NULL `a`; TRUE when some item is equal; else NULL when some item is NULL; else FALSE -/
def in3 (a : Val) (items : List Val) : Val :=
  if a.isNull then .null
  else if items.any (fun v => !v.isNull && eqv a v) then .bool true
  else if items.any (fun v => v.isNull) then .null
  else .bool false

def coalesce : List Val → Val
  | [] => .null
  | v :: r => if v.isNull then coalesce r else v

/-- row-wise (non-aggregate) functions -/
def callScalar (fn : String) (args : List Val) : Val :=
  if fn == "COALESCE" then coalesce args else .null

/-! ### row-wise evaluation -/
mutual
def evalSql3 : SqlExpr → (String → Val) → Val
  | .col n, ρ => ρ n
  | .null, _ => .null
  | .absent, _ => .null
  | .tt, _ => .bool true
  | .ff, _ => .bool false
  | .num n d, _ => if d = 1 then .num (n : Rat) else .num ((n : Rat) / (d : Rat))
  | .str s, _ => .str s
  | .isNull e, ρ => .bool (evalSql3 e ρ).isNull
  | .isNotNull e, ρ => .bool (!(evalSql3 e ρ).isNull)
  | .cmp op a b, ρ => cmp3 op (evalSql3 a ρ) (evalSql3 b ρ)
  | .not e, ρ => not3 (evalSql3 e ρ)
  | .and a b, ρ => and3 (evalSql3 a ρ) (evalSql3 b ρ)
  | .or a b, ρ => or3 (evalSql3 a ρ) (evalSql3 b ρ)
  | .paren e, ρ => evalSql3 e ρ
  | .case bs els, ρ => evalBranches bs (evalSql3 els ρ) ρ
  | .caseOf s bs els, ρ => evalBranchesOf (evalSql3 s ρ) bs (evalSql3 els ρ) ρ
  | .inList e items, ρ => in3 (evalSql3 e ρ) (evalArgs items ρ)
  | .call fn args, ρ => callScalar fn (evalArgs args ρ)
/-- searched CASE: the first branch whose condition is TRUE -/
def evalBranches : Branches → Val → (String → Val) → Val
  | .nil, els, _ => els
  | .cons c t rest, els, ρ =>
    match truth (evalSql3 c ρ) with
    | some true => evalSql3 t ρ
    | _ => evalBranches rest els ρ
/-- simple CASE: the first branch whose value `=` the scrutinee is TRUE -/
def evalBranchesOf : Val → Branches → Val → (String → Val) → Val
  | _, .nil, els, _ => els
  | s, .cons c t rest, els, ρ =>
    match truth (cmp3 .eq s (evalSql3 c ρ)) with
    | some true => evalSql3 t ρ
    | _ => evalBranchesOf s rest els ρ
def evalArgs : Args → (String → Val) → List Val
  | .nil, _ => []
  | .cons e rest, ρ => evalSql3 e ρ :: evalArgs rest ρ
end

/-! ### aggregate evaluation over the rows of a group -/

def nonNulls (vs : List Val) : List Val := vs.filter (fun v => !v.isNull)

def sumQ : List Rat → Rat
  | [] => 0
  | x :: r => x + sumQ r

def bestBy (better : Val → Val → Bool) : List Val → Val
  | [] => .null
  | [x] => x
  | x :: y :: r => let m := bestBy better (y :: r); if better x m then x else m

/-- SQL aggregate of the non-NULL values; NULL when there is none -/
def aggregate (fn : String) (vs : List Val) : Val :=
  let nn := nonNulls vs
  if nn.isEmpty then (if fn == "COUNT" then .num 0 else .null)
  else if fn == "SUM" then .num (sumQ (nn.filterMap numOf))
  else if fn == "AVG" then .num (sumQ (nn.filterMap numOf) / (nn.length : Rat))
  else if fn == "MAX" then bestBy (fun a b => !Val.lt a b) nn
  else if fn == "MIN" then bestBy (fun a b => !Val.lt b a) nn
  else if fn == "COUNT" then .num nn.length
  else .null

def isAggregate (fn : String) : Bool := fn == "SUM" || fn == "AVG" || fn == "MAX" || fn == "MIN" || fn == "COUNT"

/-- an aggregate expression over a group: aggregate calls fold their (row-wise) argument over the rows, the other
constructs of the fragment the formatters use (comparison with a literal, parentheses) are applied to the results -/
def evalSqlG : SqlExpr → List (String → Val) → Val
  | .call fn (.cons e .nil), rows => if isAggregate fn then aggregate fn (rows.map (evalSql3 e)) else .null
  | .paren e, rows => evalSqlG e rows
  | .cmp op a b, rows => cmp3 op (evalSqlG a rows) (evalSqlG b rows)
  | .num n d, _ => if d = 1 then .num (n : Rat) else .num ((n : Rat) / (d : Rat))
  | _, _ => .null

end DAVerif.Sql3
