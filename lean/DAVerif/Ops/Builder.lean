import DAVerif.Ops.Node
import DAVerif.Generated.Tables
/-
Builders: model of the `ViewRepresentation` builder methods and of the node constructors they call
(`view_representations.py`, `data_ops_utils.py`, `expr_parse.parse_assignments_in_context`), as
`build : Ops → Step → Except Err Ops`.  The order of the checks, and therefore the error *class* raised
first, follows the code.  The model is of /repo after the fixes D3, D4, D5 (see known_findings.json).

No imports beyond model files: part of the compiled driver.
-/
namespace DAVerif

inductive Err where
  | keyError | valueError | typeError | assertionError | nameError | attributeError | other
  deriving DecidableEq, Repr, Inhabited

namespace Err
def toStr : Err → String
  | keyError => "KeyError" | valueError => "ValueError" | typeError => "TypeError"
  | assertionError => "AssertionError" | nameError => "NameError" | attributeError => "AttributeError"
  | other => "Other"
end Err

/-- `partition_by` argument: `None`, the number `1` (one window over the whole table) or a column list. -/
inductive PartArg where
  | none | one | cols (cs : List String)
  deriving DecidableEq, Repr, Inhabited

inductive Step where
  | extend (ops : Assign) (partition : PartArg) (order reverse : List String)
  | project (ops : Assign) (group : List String)
  | selectRows (expr : Option Term)
  | selectCols (cs : List String)
  | dropCols (cs : List String)
  | order (cs reverse : List String) (limit : Option Nat)
  | rename (m : List (String × String))
  | mapCols (m : List (String × Option String))
  | join (b : Ops) (onA onB : List String) (jt : String) (check : Bool)
  | concat (b : Option Ops) (idCol : Option String) (aName bName : String)
  | convert (rm : Option RecMap)
  deriving Repr, Inhabited

def disjoint (a b : List String) : Bool := a.all (fun x => !b.contains x)
def subset (a b : List String) : Bool := a.all (fun x => b.contains x)
def nodupB (a : List String) : Bool := a.eraseDups.length == a.length
def inter (a b : List String) : List String := a.filter (fun x => b.contains x)

def ok? (c : Bool) (e : Err) : Except Err Unit := if c then .ok () else .error e

/-! ### `parse_assignments_in_context` (the checks it makes; the parsing itself is C13's model) -/

/-- duplicate keys (list-of-pairs input) → ValueError; per entry, in order, an unknown column name → NameError
(raised by the parser); finally `produced ∩ used-by-other-entries ≠ ∅` → ValueError. -/
def parseAssignments (viewCols : List String) (ops : Assign) : Except Err Assign := do
  ok? (nodupB (ops.map (·.1))) .valueError
  for kv in ops do
    ok? (subset (Term.colsRaw kv.2) viewCols) .nameError
  let used := ops.flatMap (fun kv => (Term.colsRaw kv.2).filter (fun c => c != kv.1))
  ok? (disjoint (ops.map (·.1)) used) .valueError
  return ops

/-- `implies_windowed` -/
def impliesWindowed (ops : Assign) : Bool :=
  ops.any fun kv => match kv.2 with
    | .app op _ _ _ => Gen.impliesWindowed.contains op
    | _ => false

/-! ### `try_to_merge_ops` (after fix D5) -/
def tryMergeOps (ops1 ops2 : Assign) : Option Assign :=
  let u1 := Term.colsUsedOps ops1
  let p1 := ops1.map (·.1)
  let u2 := Term.colsUsedOps ops2
  let p2 := ops2.map (·.1)
  let common := inter p1 p2
  if !common.isEmpty then
    let u1c := Term.colsUsedOps (ops1.filter (fun kv => common.contains kv.1))
    let u2c := Term.colsUsedOps (ops2.filter (fun kv => common.contains kv.1))
    if !(disjoint u1c p2) then none
    else if !(disjoint u1c p1) then none
    else if !(disjoint u2c p1) then none
    else if !(disjoint u2c p2) then none
    else
      let kept := ops1.filter (fun kv => !common.contains kv.1)
      if !(disjoint u2 p1) then none
      else if !(disjoint (Term.colsUsedOps kept) p2) then none
      else some (kept ++ ops2)
  else if !(disjoint u1 p2) then none
  else if !(disjoint u2 p1) then none
  else some (ops1 ++ ops2)

/-! ### node constructors -/

def isValue : Term → Bool
  | .value _ => true
  | _ => false

/-- the per-op checks of `ExtendNode.__init__` in a windowed situation -/
def windowOpOk (srcCols : List String) (ordered : Bool) (t : Term) : Bool :=
  match t with
  | .app op args _ _ =>
    (args.drop 1).all isValue
    && (match args.head? with
        | none => true
        | some (.col c) => srcCols.contains c
        | some (.value _) => true
        | some _ => false)
    && !(Gen.contradictWindowed.contains op)
    && !(ordered && Gen.contradictOrdered.contains op)
    && !(!ordered && Gen.impliesOrdered.contains op)
  | _ => false

/-- `ExtendNode.__init__` (partition `1` has already become `[]` + windowed). -/
def mkExtend (src : Ops) (ops : Assign) (partition : PartArg) (order reverse : List String) :
    Except Err Ops := do
  let (part, w1) : List String × Bool := match partition with
    | .none => ([], false) | .one => ([], true) | .cols cs => (cs, !cs.isEmpty)
  let windowed := impliesWindowed ops || w1 || !order.isEmpty
  let ordered := !order.isEmpty
  let sc := src.cols
  ok? (subset (Term.colsUsedOps ops) sc) .keyError
  ok? (nodupB part) .valueError
  ok? (nodupB order) .valueError
  ok? (nodupB reverse) .valueError
  ok? (subset part sc) .valueError
  ok? (subset order sc) .valueError
  ok? (subset reverse order) .valueError
  ok? (disjoint (ops.map (·.1)) (part ++ order ++ reverse)) .valueError
  if windowed then
    for kv in ops do
      ok? (windowOpOk sc ordered kv.2) .valueError
  return .extend src ops part order reverse windowed

/-- the per-op checks of `ProjectNode.__init__` -/
def projectOpOk (t : Term) : Bool :=
  match t with
  | .app op args _ _ =>
    args.length ≤ 1
    && (match args.head? with
        | none => true
        | some (.col _) => true
        | some (.value _) => true
        | some _ => false)
    && !(Gen.impliesOrdered.contains op)
    && !(Gen.notAllowedInProject.contains op)
  | _ => false

def mkProject (src : Ops) (ops : Assign) (group : List String) : Except Err Ops := do
  ok? (subset (group ++ Term.colsUsedOps ops) src.cols) .keyError
  ok? (nodupB group) .valueError
  -- ViewRepresentation.__init__: assert len(column_names) > 0 (cannot fail: ops or group non-empty)
  ok? (!(appendNew group (ops.map (·.1))).isEmpty) .assertionError
  for kv in ops do
    ok? (projectOpOk kv.2) .valueError
  return .project src ops group

def mkSelectCols (src : Ops) (cs : List String) : Except Err Ops := do
  ok? (!cs.isEmpty) .valueError
  ok? (subset cs src.cols) .keyError
  ok? (nodupB cs) .assertionError
  match src with
  | .selectCols s _ => return .selectCols s cs
  | _ => return .selectCols src cs

def mkDropCols (src : Ops) (dels : List String) : Except Err Ops := do
  ok? (subset dels src.cols) .keyError
  ok? (!(src.cols.filter (fun c => !dels.contains c)).isEmpty) .valueError
  return .dropCols src dels

def mkOrder (src : Ops) (cs reverse : List String) (limit : Option Nat) : Except Err Ops := do
  ok? (subset cs src.cols) .valueError
  ok? (subset reverse cs) .valueError
  return .order src cs reverse limit

def mkRename (src : Ops) (m : List (String × String)) : Except Err Ops := do
  let newCols := m.map (·.1)
  let origCols := m.map (·.2)
  let sc := src.cols
  ok? (subset origCols sc) .valueError
  -- collisions = (source − (new ∩ orig)) ∩ new
  let both := inter newCols origCols
  ok? (((sc.filter (fun c => !both.contains c)).filter (fun c => newCols.contains c)).isEmpty) .valueError
  let node := Ops.rename src m
  ok? (nodupB node.cols) .assertionError
  return node

def mkMapCols (src : Ops) (m : List (String × Option String)) : Except Err Ops := do
  let remap : List (String × String) := m.filterMap (fun kv => kv.2.map (fun v => (kv.1, v)))
  let dels := (m.filter (fun kv => kv.2.isNone)).map (·.1)
  let newCols := remap.map (·.2)
  let origCols := m.map (·.1)
  let sc := src.cols
  ok? (subset origCols sc) .valueError
  let both := inter newCols origCols
  ok? (((sc.filter (fun c => !both.contains c)).filter (fun c => newCols.contains c)).isEmpty) .valueError
  let node := Ops.mapCols src remap dels
  ok? (!node.cols.isEmpty) .assertionError
  ok? (nodupB node.cols) .assertionError
  return node

/-- tables with the same key must be the same description (`same_table_description_`: here, same columns) -/
def tablesConsistent (ta tb : List (String × List String)) : Bool :=
  ta.all fun (k, cs) => tb.all fun (k', cs') => k != k' || cs == cs'

def mkJoin (a b : Ops) (onA onB : List String) (jt : String) (check : Bool) : Except Err Ops := do
  ok? (tablesConsistent a.tables b.tables) .valueError
  ok? (onA.length == onB.length) .assertionError
  ok? (subset onA a.cols) .keyError
  ok? (subset onB b.cols) .keyError
  if check then
    let common := inter a.cols b.cols
    let keyed := inter onA onB
    ok? ((common.filter (fun c => !keyed.contains c)).isEmpty) .keyError
  match JoinType.parse jt with
  | none => throw .keyError
  | some t =>
    ok? (!(t == .cross && !onA.isEmpty)) .valueError
    return .join a b onA onB t

def mkConcat (a b : Ops) (idc : Option String) (an bn : String) : Except Err Ops := do
  ok? (tablesConsistent a.tables b.tables) .valueError
  ok? (subset a.cols b.cols && subset b.cols a.cols) .valueError
  match idc with
  | some c => ok? (!a.cols.contains c) .valueError
  | none => pure ()
  return .concat a b idc an bn

def mkConvert (src : Ops) (rm : RecMap) : Except Err Ops := do
  ok? (subset rm.needed src.cols) .valueError
  ok? (!rm.produced.isEmpty) .assertionError
  ok? (nodupB rm.produced) .assertionError
  return .convert src rm

/-- `_work_col_group_arg` for a list argument: `assert` unique and all known (AssertionError). -/
def workColGroup (arg viewCols : List String) : Except Err Unit := do
  ok? (nodupB arg) .assertionError
  ok? (subset arg viewCols) .assertionError

/-! ### the builder methods (with the simplifications)

`is_trivial_when_intermediate_` (an `order_rows` without limit) makes every builder re-issue itself on the
source; structural recursion on the tree. -/

def extendParsed : Ops → Assign → PartArg → List String → List String → Except Err Ops
  | self, ops, partition, order, reverse => do
    if ops.isEmpty then return self
    match partition with
    | .cols cs => workColGroup cs self.cols
    | _ => pure ()
    workColGroup order self.cols
    workColGroup reverse self.cols
    let produced := ops.map (·.1)
    match partition with
    | .cols cs =>
      if !cs.isEmpty then
        ok? (disjoint produced cs) .valueError
        ok? (disjoint cs order) .valueError
    | _ => pure ()
    ok? (disjoint produced order) .valueError
    ok? (subset reverse order) .valueError
    match self with
    | .order src _ _ none => extendParsed src ops partition order reverse
    | .extend src ops1 part1 order1 reverse1 windowed1 =>
      let emptyish : Bool := match partition with
        | .none => true | .one => true | .cols cs => cs.isEmpty
      -- Python: `partition_by == self.partition_by` compares the normalised argument ([] for None, 1, or the list)
      let eqPart : Bool := match partition with
        | .none => part1.isEmpty | .one => false | .cols cs => cs == part1
      let compatible := eqPart || (emptyish && part1.isEmpty)
      -- after fix e8da488: the new step is windowed when it uses a window function or names a partition / ordering
      let newWindowed := impliesWindowed ops || (match partition with
        | .none => false | .one => true | .cols cs => !cs.isEmpty) || !order.isEmpty
      let sameWindowing := newWindowed == windowed1
      if compatible && sameWindowing && order == order1 && reverse == reverse1 then
        match tryMergeOps ops1 ops with
        | some newOps => mkExtend src newOps partition order reverse
        | none => mkExtend self ops partition order reverse
      else mkExtend self ops partition order reverse
    | _ => mkExtend self ops partition order reverse

def projectParsed : Ops → Assign → List String → Except Err Ops
  | self, ops, group => do
    workColGroup group self.cols
    ok? (!(ops.isEmpty && group.isEmpty)) .valueError
    ok? (disjoint (ops.map (·.1)) group) .valueError
    match self with
    | .order src _ _ none => projectParsed src ops group
    | _ => mkProject self ops group

def joinB : Ops → Ops → List String → List String → String → Bool → Except Err Ops
  | .order src _ _ none, b, onA, onB, jt, check => joinB src b onA onB jt check
  | self, b, onA, onB, jt, check => mkJoin self b onA onB jt check

def concatB : Ops → Ops → Option String → String → String → Except Err Ops
  | .order src _ _ none, b, idc, an, bn => concatB src b idc an bn
  | self, b, idc, an, bn => mkConcat self b idc an bn

def selectRowsB : Ops → Term → Except Err Ops
  | .order src _ _ none, e => selectRowsB src e
  | self, e => .ok (.selectRows self e)

def dropColsB : Ops → List String → Except Err Ops
  | .order src _ _ none, cs => dropColsB src cs
  | self, cs => mkDropCols self cs

/-- `select_columns` (after fix D4: a Select/Drop node validates against its own columns before delegating). -/
def selectColsB : Ops → List String → Except Err Ops
  | .order src _ _ none, cs => selectColsB src cs
  | .selectCols src cs0, cs => do
      ok? (subset cs cs0) .keyError
      selectColsB src cs
  | .dropCols src dels, cs => do
      ok? (subset cs ((Ops.dropCols src dels).cols)) .keyError
      selectColsB src cs
  | self, cs => mkSelectCols self cs

def mapColsB : Ops → List (String × Option String) → Except Err Ops
  | .order src _ _ none, m => mapColsB src m
  | self, m => mkMapCols self m

def renameB : Ops → List (String × String) → Except Err Ops
  | .order src _ _ none, m => renameB src m
  | self, m => mkRename self m

def orderB : Ops → List String → List String → Option Nat → Except Err Ops
  | .order src _ _ none, cs, rev, lim => orderB src cs rev lim
  | self, cs, rev, lim => mkOrder self cs rev lim

def convertB : Ops → RecMap → Except Err Ops
  | .order src _ _ none, rm => convertB src rm
  | self, rm => mkConvert self rm

/-- one user-level builder call on a pipeline -/
def build (self : Ops) : Step → Except Err Ops
  | .extend ops partition order reverse => do
      let parsed ← parseAssignments self.cols ops
      extendParsed self parsed partition order reverse
  | .project ops group => do
      let parsed ← parseAssignments self.cols ops
      projectParsed self parsed group
  | .selectRows none => .ok self
  | .selectRows (some e) => do
      -- `select_rows` re-issues itself on the source of a trivial node *before* parsing (same columns)
      let _ ← parseAssignments self.cols [("expr", e)]
      selectRowsB self e
  | .selectCols cs => do
      ok? (!cs.isEmpty) .valueError
      selectColsB self cs
  | .dropCols cs => if cs.isEmpty then .ok self else dropColsB self cs
  | .order cs reverse limit =>
      if cs.isEmpty && limit.isNone then .ok self else orderB self cs reverse limit
  | .rename m => if m.isEmpty then .ok self else renameB self m
  | .mapCols m => if m.isEmpty then .ok self else mapColsB self m
  | .join b onA onB jt check => joinB self b onA onB jt check
  | .concat none _ _ _ => .ok self
  | .concat (some b) idc an bn => concatB self b idc an bn
  | .convert none => .ok self
  | .convert (some rm) => convertB self rm

/-- a whole chain of builder calls starting from a table description -/
def buildChain (start : Ops) (steps : List Step) : Except Err Ops :=
  steps.foldlM build start

end DAVerif
