import DAVerif.Ops.Builder
/-
C12 – pipeline printing as a tree of builder calls: model of `to_python_src_` of every node class of
`data_algebra/view_representations.py` (and of `to_python`, which wraps the text in parentheses), and of what
`eval` does with that text (`eval_da_ops`): it re-runs the builder methods, receiver first, then the arguments.

The *characters* of the text (spacing, line breaks, `repr` of strings / lists / dicts, black's re-formatting) are
outside this model.  What is modelled is which method is called with which argument values, in the normal form the
printers use.  Expression arguments are kept as the `Term` itself: their text form `Expression.to_python()` and its
way back through the parser are C13's model (`Expr/Print.lean`, `Expr/Parse.lean`, `Expr/Walk.lean`) and theorem
(`C13_print_parse`).

The tie to the code is the driver suite `k3_calls` (Drv/CallsDrv.lean, harness/props/c12.py): the real printed text
is parsed with Python's `ast` into the same call tree.

All names live in `DAVerif.C12`.  No imports beyond model files: part of the compiled driver.
-/
namespace DAVerif.C12
open DAVerif

/-- one printed method call with one receiver (the arguments as printed) -/
inductive Call where
  /-- `.extend({k: 'expr', …}[, partition_by=…][, order_by=[…]][, reverse=[…]])` -/
  | extend (ops : Assign) (partition : PartArg) (order reverse : List String)
  /-- `.project({k: 'expr', …}[, group_by=[…]])` -/
  | project (ops : Assign) (group : List String)
  /-- `.select_rows('expr')` -/
  | selectRows (e : Term)
  /-- `.select_columns([…])` -/
  | selectCols (cs : List String)
  /-- `.drop_columns([…])` -/
  | dropCols (cs : List String)
  /-- `.order_rows([…][, reverse=[…]][, limit=n])` -/
  | order (cs reverse : List String) (limit : Option Nat)
  /-- `.rename_columns({new: old, …})` -/
  | rename (m : List (String × String))
  /-- `.map_columns({old: new | None, …})` -/
  | mapCols (m : List (String × Option String))
  /-- `.convert_records(data_algebra.cdata.RecordMap(…))` -/
  | convert (rm : RecMap)
  deriving Repr, Inhabited

/-- the printed text, as the tree Python's parser sees: a `TableDescription(…)` constructor call followed by a chain
of method calls; the `b=` argument of `natural_join` / `concat_rows` is again such a text -/
inductive Printed where
  /-- `TableDescription(table_name='n', column_names=[…])` -/
  | table (name : String) (cols : List String)
  | call (recv : Printed) (c : Call)
  /-- `.natural_join(b=…, on=[…], jointype='…')`; an `on` entry `(a, b)` is printed as the string `'a'` when
  `a == b`, else as the tuple -/
  | join (recv b : Printed) (on : List (String × String)) (jointype : String)
  /-- `.concat_rows(b=…, id_column=…, a_name='…', b_name='…')` -/
  | concat (recv b : Printed) (idCol : Option String) (aName bName : String)
  deriving Repr, Inhabited

/-- `ExtendNode.to_python_src_`:
```
if self.windowed_situation:
    if len(self.partition_by) > 0:  s = s + "," + spacer + "partition_by=" + self.partition_by.__repr__()
    else:                           s = s + "," + spacer + "partition_by=1"
```
(nothing is printed for a node that is not windowed) -/
def printPart (part : List String) (windowed : Bool) : PartArg :=
  if windowed then (if part.isEmpty then .one else .cols part) else .none

/-- `MapColumnsNode.to_python_src_`:
```
column_remapping = self.column_remapping.copy()
column_remapping.update({k: None for k in self.column_deletions})
```
one dict: the renamings in their order, then the deletions (the keys of the two parts are distinct: they were the
keys of one dict) -/
def printMap (m : List (String × String)) (dels : List String) : List (String × Option String) :=
  m.map (fun kv => (kv.1, some kv.2)) ++ dels.map (fun k => (k, none))

/-- `_convert_parallel_lists_to_on_clause(on_a, on_b)` (asserts equal lengths): the list of pairs -/
def printOn (onA onB : List String) : List (String × String) := onA.zip onB

/-- **`to_python_src_`** of every node class: which calls are printed, with which arguments.
* extend: the ops dict; `partition_by` only when windowed (`1` for an empty partition); `order_by` / `reverse` only
  when non-empty (an empty list in the model = not printed);
* project: the ops dict; `group_by` only when non-empty;
* select_rows / select_columns / drop_columns / rename_columns: the stored expression / list / dict;
* order_rows: the columns; `reverse` only when non-empty; `limit` only when not None;
* map_columns: remapping and deletions as one dict;
* natural_join: `b=` printed recursively, `on=` the pair list, `jointype=` the stored (upper-case) name;
  `check_all_common_keys_in_equi_spec` is not printed;
* concat_rows: `b=` recursively, `id_column`, `a_name`, `b_name` always;
* convert_records: `repr` of the record map. -/
def toCalls : Ops → Printed
  | .table n cs => .table n cs
  | .extend s ops part order rev w => .call (toCalls s) (.extend ops (printPart part w) order rev)
  | .project s ops g => .call (toCalls s) (.project ops g)
  | .selectRows s e => .call (toCalls s) (.selectRows e)
  | .selectCols s cs => .call (toCalls s) (.selectCols cs)
  | .dropCols s cs => .call (toCalls s) (.dropCols cs)
  | .order s cs rev lim => .call (toCalls s) (.order cs rev lim)
  | .rename s m => .call (toCalls s) (.rename m)
  | .mapCols s m dels => .call (toCalls s) (.mapCols (printMap m dels))
  | .join a b onA onB jt => .join (toCalls a) (toCalls b) (printOn onA onB) jt.toStr
  | .concat a b idc an bn => .concat (toCalls a) (toCalls b) idc an bn
  | .convert s rm => .call (toCalls s) (.convert rm)

/-- the builder call a printed unary call evaluates to -/
def Call.toStep : Call → Step
  | .extend ops pa o r => .extend ops pa o r
  | .project ops g => .project ops g
  | .selectRows e => .selectRows (some e)
  | .selectCols cs => .selectCols cs
  | .dropCols cs => .dropCols cs
  | .order cs r l => .order cs r l
  | .rename m => .rename m
  | .mapCols m => .mapCols m
  | .convert rm => .convert (some rm)

/-- `TableDescription.__init__` → `ViewRepresentation.__init__`:
`assert len(column_names) > 0`, `assert len(column_names) == len(set(column_names))` -/
def mkTable (name : String) (cols : List String) : Except Err Ops := do
  ok? (!cols.isEmpty) .assertionError
  ok? (nodupB cols) .assertionError
  return .table name cols

/-- `_convert_on_clause_to_parallel_lists(on)` for a list of strings / pairs -/
def onLists (on : List (String × String)) : List String × List String := (on.map (·.1), on.map (·.2))

/-- **`eval` of the printed text** (`eval_da_ops`): Python evaluates the receiver, then the arguments (the `b=`
pipeline), then calls the builder method. -/
def rebuild : Printed → Except Err Ops
  | .table n cs => mkTable n cs
  | .call r c => do
      let p ← rebuild r
      build p c.toStep
  | .join r b on jt => do
      let a ← rebuild r
      let b' ← rebuild b
      build a (.join b' (onLists on).1 (onLists on).2 jt false)
  | .concat r b idc an bn => do
      let a ← rebuild r
      let b' ← rebuild b
      build a (.concat (some b') idc an bn)

/-! ### the text as "start table + list of calls" (the main method chain) -/

/-- the `TableDescription` the main chain starts from -/
def Printed.start : Printed → String × List String
  | .table n cs => (n, cs)
  | .call r _ => r.start
  | .join r _ _ _ => r.start
  | .concat r _ _ _ _ => r.start

/-- the builder steps of the main chain, the `b=` arguments already evaluated (`none` when evaluating one of them
raises) -/
def Printed.steps : Printed → Except Err (List Step)
  | .table _ _ => .ok []
  | .call r c => do
      let ss ← r.steps
      return ss ++ [c.toStep]
  | .join r b on jt => do
      let ss ← r.steps
      let b' ← rebuild b
      return ss ++ [.join b' (onLists on).1 (onLists on).2 jt false]
  | .concat r b idc an bn => do
      let ss ← r.steps
      let b' ← rebuild b
      return ss ++ [.concat (some b') idc an bn]

/-- the same evaluation written as `buildChain` over the main chain (equal to `rebuild` whenever the `b=`
arguments evaluate: `Proofs/PrintCalls.lean`, `rebuild_eq_buildChain`) -/
def rebuildChain (pr : Printed) : Except Err Ops := do
  let ss ← pr.steps
  let t ← mkTable pr.start.1 pr.start.2
  buildChain t ss

/-! ### the guard of finding `C12-extend-remerge` (N26) -/

/-- would `extend_parsed_` merge a step with these (printed) arguments into the node `s`?  (`s` is an `ExtendNode`,
the partitions are compatible, the windowing agrees, same `order_by` / `reverse`, and `try_to_merge_ops` succeeds) -/
def remerges (s : Ops) (ops : Assign) (pa : PartArg) (order reverse : List String) : Bool :=
  match s with
  | .extend _ ops1 part1 order1 reverse1 windowed1 =>
    let emptyish : Bool := match pa with
      | .none => true | .one => true | .cols cs => cs.isEmpty
    let eqPart : Bool := match pa with
      | .none => part1.isEmpty | .one => false | .cols cs => cs == part1
    let compatible := eqPart || (emptyish && part1.isEmpty)
    let newWindowed := impliesWindowed ops || (match pa with
      | .none => false | .one => true | .cols cs => !cs.isEmpty) || !order.isEmpty
    compatible && (newWindowed == windowed1) && order == order1 && reverse == reverse1
      && (tryMergeOps ops1 ops).isSome
  | _ => false

/-- **G_noRemerge**: no `ExtendNode` of the pipeline sits on an `ExtendNode` it would be merged into when the
printed call is evaluated again.  (The builder guarantees this for the node it has just built on, but a merge
replaces the assignments of the upper node and does not look at the node below: N26.) -/
def noRemerge : Ops → Bool
  | .table _ _ => true
  | .extend s ops part order rev w => noRemerge s && !remerges s ops (printPart part w) order rev
  | .project s _ _ | .selectRows s _ | .selectCols s _ | .dropCols s _ | .order s _ _ _ | .rename s _
  | .mapCols s _ _ | .convert s _ => noRemerge s
  | .join a b _ _ _ | .concat a b _ _ _ => noRemerge a && noRemerge b

end DAVerif.C12
