import DAVerif.Ops.Compose
/-!
`columns_used` on a pipeline whose node objects may be **shared** (a DAG): model of
`ViewRepresentation.columns_used_implementation_` with the per-object accumulation records made explicit.

```
crec = columns_currently_using_records.setdefault(self.merged_rep_id(), OrderedSet())   # "ops+ " + str(id(self))
unknown = set(using) - set(self.column_names);  raise ValueError if unknown
crec.update(using)
cu_list = self.columns_used_from_sources(crec.copy())      # the ACCUMULATED record, not `using`
for i in range(len(self.sources)): self.sources[i].columns_used_implementation_(using=cu_list[i], ...)
```

The operator tree `Ops` has no object identities; they travel beside it as an `IdTree` of the same shape (one number
per Python object; the same number at two positions = the same object).  Table descriptions are keyed by table key
(`merged_rep_id = "table_" + key`), exactly as in `Ops.columnsUsedAux`.

`Ops.columnsUsedAux` is this computation on a tree whose ids are all different.

No imports beyond model files: part of the compiled driver.
-/
namespace DAVerif
namespace Ops

inductive IdTree where
  | leaf (id : Nat)
  | un (id : Nat) (k : IdTree)
  | bin (id : Nat) (a b : IdTree)
  deriving Repr, Inhabited

/-- the accumulation records of the non-table node objects: object id ↦ columns asked of it so far (newest first) -/
abbrev Recs := List (Nat × List String)

def Recs.get (r : Recs) (i : Nat) : List String := (r.lookup i).getD []

def columnsUsedDag : Ops → IdTree → List String → Recs → Used → Except Err (Recs × Used)
  | n@(table name _), .leaf _, usg, recs, acc => do
    ok? (subset usg n.cols) .valueError
    return (recs, acc.add name usg)
  | n@(extend s _ _ _ _ _), .un i k, usg, recs, acc | n@(project s _ _), .un i k, usg, recs, acc
  | n@(selectRows s _), .un i k, usg, recs, acc | n@(selectCols s _), .un i k, usg, recs, acc
  | n@(dropCols s _), .un i k, usg, recs, acc | n@(order s _ _ _), .un i k, usg, recs, acc
  | n@(rename s _), .un i k, usg, recs, acc | n@(mapCols s _ _), .un i k, usg, recs, acc
  | n@(convert s _), .un i k, usg, recs, acc => do
    ok? (subset usg n.cols) .valueError
    let crec := unionL (recs.get i) usg
    columnsUsedDag s k ((usedFromSources n crec).headD []) ((i, crec) :: recs) acc
  | n@(join a b _ _ _), .bin i ka kb, usg, recs, acc | n@(concat a b _ _ _), .bin i ka kb, usg, recs, acc => do
    ok? (subset usg n.cols) .valueError
    let crec := unionL (recs.get i) usg
    let cu := usedFromSources n crec
    let ra ← columnsUsedDag a ka (cu.headD []) ((i, crec) :: recs) acc
    columnsUsedDag b kb ((cu.drop 1).headD []) ra.1 ra.2
  | _, _, _, _, _ => .error .other

/-- `columns_used()` of a pipeline with shared node objects -/
def columnsUsedShared (o : Ops) (ids : IdTree) : Except Err Used := do
  let r ← columnsUsedDag o ids o.cols [] ((o.tables.map (·.1)).eraseDups.map (fun k => (k, [])))
  return r.2

/-- (object id, column_names) of every non-table node position -/
def labelPairs : Ops → IdTree → List (Nat × List String)
  | table _ _, _ => []
  | n@(extend s _ _ _ _ _), .un i k | n@(project s _ _), .un i k | n@(selectRows s _), .un i k
  | n@(selectCols s _), .un i k | n@(dropCols s _), .un i k | n@(order s _ _ _), .un i k
  | n@(rename s _), .un i k | n@(mapCols s _ _), .un i k | n@(convert s _), .un i k => (i, n.cols) :: labelPairs s k
  | n@(join a b _ _ _), .bin i ka kb | n@(concat a b _ _ _), .bin i ka kb =>
    (i, n.cols) :: (labelPairs a ka ++ labelPairs b kb)
  | _, _ => []

/-- the id tree has the pipeline's shape -/
def sameShape : Ops → IdTree → Bool
  | table _ _, .leaf _ => true
  | extend s _ _ _ _ _, .un _ k | project s _ _, .un _ k | selectRows s _, .un _ k | selectCols s _, .un _ k
  | dropCols s _, .un _ k | order s _ _ _, .un _ k | rename s _, .un _ k | mapCols s _ _, .un _ k
  | convert s _, .un _ k => sameShape s k
  | join a b _ _ _, .bin _ ka kb | concat a b _ _ _, .bin _ ka kb => sameShape a ka && sameShape b kb
  | _, _ => false

/-- one object has one `column_names`: positions carrying the same id declare the same column set -/
def idsConsistent (o : Ops) (ids : IdTree) : Bool :=
  sameShape o ids &&
  (labelPairs o ids).all (fun x => (labelPairs o ids).all (fun y =>
    x.1 != y.1 || (subset x.2 y.2 && subset y.2 x.2)))

end Ops
end DAVerif
