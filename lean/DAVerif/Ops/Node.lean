import DAVerif.Expr.Term
/-
Operator trees: model of the node classes of `data_algebra/view_representations.py`.

A pipeline is a tree here; DAG sharing (the same Python object used twice) only matters for SQL CTE reuse
(C04) and is handled there.  `cols` recomputes `column_names` from the node parameters exactly as each
`__init__` does.

No imports beyond model files: part of the compiled driver.
-/
namespace DAVerif

inductive JoinType where
  | inner | left | right | outer | full | cross
  deriving DecidableEq, Repr, Inhabited

namespace JoinType
def toStr : JoinType → String
  | inner => "INNER" | left => "LEFT" | right => "RIGHT" | outer => "OUTER" | full => "FULL" | cross => "CROSS"
/-- `standardize_join_type`: upper-case, must be one of the six names (else KeyError). -/
def parse (s : String) : Option JoinType :=
  match s.toUpper with
  | "INNER" => some inner | "LEFT" => some left | "RIGHT" => some right
  | "OUTER" => some outer | "FULL" => some full | "CROSS" => some cross
  | _ => none
end JoinType

/-- What the operator layer needs to know about a `RecordMap`: the columns it needs and produces, and a
canonical text (`repr` of both specifications) that decides `RecordMap.__eq__` after fix D8. -/
structure RecMap where
  needed : List String
  produced : List String
  repr : String
  deriving DecidableEq, Repr, Inhabited

abbrev Assign := List (String × Term)

inductive Ops where
  | table (name : String) (cols : List String)
  | extend (src : Ops) (ops : Assign) (partition order reverse : List String) (windowed : Bool)
  | project (src : Ops) (ops : Assign) (group : List String)
  | selectRows (src : Ops) (expr : Term)
  | selectCols (src : Ops) (cs : List String)
  | dropCols (src : Ops) (dels : List String)
  | order (src : Ops) (cs reverse : List String) (limit : Option Nat)
  | rename (src : Ops) (m : List (String × String))                       -- new ↦ old
  | mapCols (src : Ops) (m : List (String × String)) (dels : List String) -- old ↦ new ; deletions
  | join (a b : Ops) (onA onB : List String) (jt : JoinType)
  | concat (a b : Ops) (idCol : Option String) (aName bName : String)
  | convert (src : Ops) (rm : RecMap)
  deriving Repr, Inhabited

/-- Python dict semantics for an association list: the last entry for a key wins on lookup. -/
def lookupLast {β : Type} (m : List (String × β)) (k : String) : Option β :=
  (m.reverse.find? (fun kv => kv.1 == k)).map (·.2)

/-- append the elements of `ys` not already present (order kept) -/
def appendNew (xs ys : List String) : List String :=
  ys.foldl (fun acc y => if acc.contains y then acc else acc ++ [y]) xs

namespace Ops

/-- `column_names` of a node, recomputed from its parameters as the constructors do. -/
def cols : Ops → List String
  | table _ cs => cs
  | extend src ops _ _ _ _ => appendNew (cols src) (ops.map (·.1))
  | project _ ops group => appendNew group (ops.map (·.1))
  | selectRows src _ => cols src
  | selectCols _ cs => cs
  | dropCols src dels => (cols src).filter (fun c => !dels.contains c)
  | order src _ _ _ => cols src
  | rename src m =>
      -- reverse_mapping = {v: k for (k, v) in items}  (last wins)
      let rev := m.map (fun kv => (kv.2, kv.1))
      (cols src).map (fun c => (lookupLast rev c).getD c)
  | mapCols src m dels =>
      ((cols src).filter (fun c => !dels.contains c)).map (fun c => (lookupLast m c).getD c)
  | join a b _ _ _ =>
      let ca := cols a
      let cb := cols b
      let all := appendNew ca cb
      -- "re-use column names if possible": same set as a's → a's tuple, else same set as b's → b's tuple
      if all.length == ca.length then ca
      else if cb.all (fun c => all.contains c) && all.all (fun c => cb.contains c) then cb
      else all
  | concat a _ idc _ _ => match idc with
      | none => cols a
      | some c => cols a ++ [c]
  | convert _ rm => rm.produced

/-- `get_tables`: the table descriptions in the tree (key ↦ columns), in first-visit order. -/
def tables : Ops → List (String × List String)
  | table n cs => [(n, cs)]
  | extend s _ _ _ _ _ | project s _ _ | selectRows s _ | selectCols s _ | dropCols s _
  | order s _ _ _ | rename s _ | mapCols s _ _ | convert s _ => tables s
  | join a b _ _ _ | concat a b _ _ _ => tables a ++ tables b

def sources : Ops → List Ops
  | table _ _ => []
  | extend s _ _ _ _ _ | project s _ _ | selectRows s _ | selectCols s _ | dropCols s _
  | order s _ _ _ | rename s _ | mapCols s _ _ | convert s _ => [s]
  | join a b _ _ _ | concat a b _ _ _ => [a, b]

def nodeName : Ops → String
  | table _ _ => "TableDescription" | extend .. => "ExtendNode" | project .. => "ProjectNode"
  | selectRows .. => "SelectRowsNode" | selectCols .. => "SelectColumnsNode" | dropCols .. => "DropColumnsNode"
  | order .. => "OrderRowsNode" | rename .. => "RenameColumnsNode" | mapCols .. => "MapColumnsNode"
  | join .. => "NaturalJoinNode" | concat .. => "ConcatRowsNode" | convert .. => "ConvertRecordsNode"

/-- `is_trivial_when_intermediate_`: only an `order_rows` without limit. -/
def isTrivialWhenIntermediate : Ops → Bool
  | order _ _ _ none => true
  | _ => false

def size : Ops → Nat
  | table _ _ => 1
  | extend s _ _ _ _ _ | project s _ _ | selectRows s _ | selectCols s _ | dropCols s _
  | order s _ _ _ | rename s _ | mapCols s _ _ | convert s _ => size s + 1
  | join a b _ _ _ | concat a b _ _ _ => size a + size b + 1

end Ops
end DAVerif
