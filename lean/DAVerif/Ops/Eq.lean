import DAVerif.Ops.Compose
/-
`ViewRepresentation.__eq__` with every `_equiv_nodes`, `PreTerm.is_equal` and `RecordMap.__eq__`: model of
/repo AFTER the fixes D8, D9, D10, D28 and the three C11 fixes
  fixes/C11-1-list-constant-equality.diff      (ListTerm.is_equal)
  fixes/C11-2-dict-constant-equality.diff      (DictTerm.is_equal)
  fixes/C11-3-column-map-order-equality.diff   (RenameColumnsNode / MapColumnsNode._equiv_nodes).

It differs from `Ops.eqOps` (Ops/Compose.lean) only in how list and dictionary constants are compared:
`Term.isEqual` uses Python's `==` on the payload lists (`pyEqLits`), which is what neither the unpatched code
(lists of `Value` objects: `==` builds a truthy expression, so any two lists of one length are equal) nor the
patched code does.  Everything else is transcribed identically.

No imports beyond model files: part of the compiled driver.
-/
namespace DAVerif
namespace Eq

/-- `_same_constant(a, b)` on plain payloads, and `Value.is_equal` (after D9): same payload type and equal
payload, nan being the same constant as nan.  On `Lit` this is equality of the constructors. -/
def litEq (a b : Lit) : Bool := decide (a = b)

/-- `ListTerm.is_equal` (fixed):
```
if len(self.value) != len(other.value): return False
return all(_same_constant(lft, rgt) for lft, rgt in zip(self.value, other.value))
``` -/
def litsEq : List Lit → List Lit → Bool
  | [], [] => true
  | a :: as, b :: bs => litEq a b && litsEq as bs
  | _, _ => false

/-- `DictTerm.is_equal` (fixed): same length and, position by position in dict order,
`_same_constant(lk, rk) and _same_constant(lv, rv)`. -/
def dictEq : List (Lit × Lit) → List (Lit × Lit) → Bool
  | [], [] => true
  | a :: as, b :: bs => litEq a.1 b.1 && litEq a.2 b.2 && dictEq as bs
  | _, _ => false

mutual
/-- `is_equal`.  `Expression.is_equal` compares `op`, `inline`, (`params`: always `None` here), the number of
arguments and the arguments pairwise; it does NOT compare `method`. -/
def termEq : Term → Term → Bool
  | .value a, .value b => litEq a b
  | .col a, .col b => a == b
  | .list a, .list b => litsEq a b
  | .dict a, .dict b => dictEq a b
  | .app o1 a1 i1 _, .app o2 a2 i2 _ => o1 == o2 && i1 == i2 && termEqList a1 a2
  | _, _ => false
def termEqList : List Term → List Term → Bool
  | [], [] => true
  | a :: as, b :: bs => termEq a b && termEqList as bs
  | _, _ => false
end

/-- the assignment part of `ExtendNode/ProjectNode._equiv_nodes` (after D28):
```
if list(self.ops.keys()) != list(other.ops.keys()): return False
for k in self.ops.keys():
    if not self.ops[k].is_equal(other.ops[k]): return False
``` -/
def assignEq (a b : Assign) : Bool :=
  a.map (·.1) == b.map (·.1) &&
  a.all (fun kv => match lookupLast b kv.1 with | some t => termEq kv.2 t | none => false)

/-- `ViewRepresentation.__eq__`: same class, same `column_names`, `_equiv_nodes`, then the sources pairwise.
(`TableDescription.__eq__` (after D10): `column_names` and `key`.)  Column maps are compared as item lists
(fixed), record maps by the printed specifications (after D8). -/
def eqOps : Ops → Ops → Bool
  | .table n1 c1, .table n2 c2 => n1 == n2 && c1 == c2
  | .extend s1 o1 p1 od1 r1 w1, .extend s2 o2 p2 od2 r2 w2 =>
    (appendNew s1.cols (o1.map (·.1)) == appendNew s2.cols (o2.map (·.1)))
    && w1 == w2 && p1 == p2 && od1 == od2 && r1 == r2 && assignEq o1 o2 && eqOps s1 s2
  | .project s1 o1 g1, .project s2 o2 g2 =>
    (appendNew g1 (o1.map (·.1)) == appendNew g2 (o2.map (·.1))) && g1 == g2 && assignEq o1 o2 && eqOps s1 s2
  | .selectRows s1 e1, .selectRows s2 e2 => s1.cols == s2.cols && termEq e1 e2 && eqOps s1 s2
  | .selectCols s1 c1, .selectCols s2 c2 => c1 == c2 && eqOps s1 s2
  | n1@(.dropCols s1 d1), n2@(.dropCols s2 d2) => n1.cols == n2.cols && d1 == d2 && eqOps s1 s2
  | .order s1 c1 r1 l1, .order s2 c2 r2 l2 =>
    s1.cols == s2.cols && c1 == c2 && r1 == r2 && l1 == l2 && eqOps s1 s2
  | n1@(.rename s1 m1), n2@(.rename s2 m2) => n1.cols == n2.cols && m1 == m2 && eqOps s1 s2
  | n1@(.mapCols s1 m1 d1), n2@(.mapCols s2 m2 d2) =>
    n1.cols == n2.cols && m1 == m2 && d1 == d2 && eqOps s1 s2
  | n1@(.join a1 b1 oa1 ob1 t1), n2@(.join a2 b2 oa2 ob2 t2) =>
    n1.cols == n2.cols && oa1 == oa2 && ob1 == ob2 && t1 == t2 && eqOps a1 a2 && eqOps b1 b2
  | n1@(.concat a1 b1 i1 an1 bn1), n2@(.concat a2 b2 i2 an2 bn2) =>
    n1.cols == n2.cols && i1 == i2 && an1 == an2 && bn1 == bn2 && eqOps a1 a2 && eqOps b1 b2
  | .convert s1 r1, .convert s2 r2 => r1.produced == r2.produced && r1.repr == r2.repr && eqOps s1 s2
  | _, _ => false

end Eq
end DAVerif
