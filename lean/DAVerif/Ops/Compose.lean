import DAVerif.Ops.Builder
/-
`columns_used`, `__eq__`, `replace_leaves` / `act_on` (`>>`): model of the corresponding methods of
`view_representations.py` (after fixes D1, D2, D8, D9, D10, D28).

No imports beyond model files: part of the compiled driver.
-/
namespace DAVerif
namespace Ops

/-! ### `columns_used_from_sources(usg)` per node (`usg` is never `None` when called from `columns_used`)

Sets are modelled as duplicate-free lists; only membership matters to the callers. -/

def unionL (a b : List String) : List String := appendNew a b

def usedFromSources : Ops → List String → List (List String)
  | table _ _, _ => []
  | extend src ops partition od reverse _, usg =>
    let subops := ops.filter (fun kv => usg.contains kv.1)
    if subops.isEmpty then [src.cols]
    else
      let take := unionL (unionL (unionL usg partition) od) reverse
      let take := take.filter (fun c => !(subops.map (·.1)).contains c)
      let take := unionL take (Term.colsUsedOps subops)
      [src.cols.filter (fun c => take.contains c)]
  | project _ ops group, usg =>
    let subops := ops.filter (fun kv => usg.contains kv.1)
    [unionL group (Term.colsUsedOps subops)]
  | selectRows src e, usg =>
    [unionL (src.cols.filter (fun c => usg.contains c)) (Term.colsUsed e)]
  | selectCols _ cs, usg => [cs.filter (fun c => usg.contains c)]
  | dropCols _ dels, usg => [usg.filter (fun c => !dels.contains c)]
  | n@(order _ cs _ _), usg => [unionL (n.cols.filter (fun c => usg.contains c)) cs]
  | mapCols _ m dels, usg =>
    -- reverse_mapping = {v: k for k, v in column_remapping.items()}
    let rev := m.map (fun kv => (kv.2, kv.1))
    [unionL (usg.map (fun c => (lookupLast rev c).getD c)).eraseDups dels]
  | rename _ m, usg => [(usg.map (fun c => (lookupLast m c).getD c)).eraseDups]
  | join a b onA onB _, usg =>
    let u := unionL (unionL usg onA) onB
    [a.cols.filter (fun c => u.contains c), b.cols.filter (fun c => u.contains c)]
  | concat a b _ _ _, usg =>
    [a.cols.filter (fun c => usg.contains c), b.cols.filter (fun c => usg.contains c)]
  | convert _ rm, _ => [rm.needed]

/-- the accumulation records of the table descriptions (`columns_currently_usg_records`) -/
abbrev Used := List (String × List String)

def Used.add (u : Used) (k : String) (cs : List String) : Used :=
  if u.any (fun kv => kv.1 == k) then u.map (fun kv => if kv.1 == k then (kv.1, unionL kv.2 cs) else kv)
  else u ++ [(k, cs)]

/-- `columns_used_implementation_` on a tree: every non-table node has a fresh record (so its record is its
`usg`), tables accumulate.  `usg ⊄ column_names` raises ValueError. -/
def columnsUsedAux : Ops → List String → Used → Except Err Used
  | n@(table name _), usg, acc => do
    ok? (subset usg n.cols) .valueError
    return acc.add name usg
  | n@(extend s _ _ _ _ _), usg, acc | n@(project s _ _), usg, acc | n@(selectRows s _), usg, acc
  | n@(selectCols s _), usg, acc | n@(dropCols s _), usg, acc | n@(order s _ _ _), usg, acc
  | n@(rename s _), usg, acc | n@(mapCols s _ _), usg, acc | n@(convert s _), usg, acc => do
    ok? (subset usg n.cols) .valueError
    columnsUsedAux s ((usedFromSources n usg).headD []) acc
  | n@(join a b _ _ _), usg, acc | n@(concat a b _ _ _), usg, acc => do
    ok? (subset usg n.cols) .valueError
    let cu := usedFromSources n usg
    let acc ← columnsUsedAux a (cu.headD []) acc
    columnsUsedAux b ((cu.drop 1).headD []) acc

/-- `columns_used()` : table key ↦ columns used (as a set) -/
def columnsUsed (o : Ops) : Except Err Used :=
  columnsUsedAux o o.cols ((o.tables.map (·.1)).eraseDups.map (fun k => (k, [])))

/-! ### `__eq__` -/

def assignEq (a b : Assign) : Bool :=
  a.map (·.1) == b.map (·.1) &&
  a.all (fun kv => match lookupLast b kv.1 with | some t => Term.isEqual kv.2 t | none => false)

def eqOps : Ops → Ops → Bool
  | table n1 c1, table n2 c2 => n1 == n2 && c1 == c2
  | extend s1 o1 p1 od1 r1 w1, extend s2 o2 p2 od2 r2 w2 =>
    (appendNew s1.cols (o1.map (·.1)) == appendNew s2.cols (o2.map (·.1)))
    && w1 == w2 && p1 == p2 && od1 == od2 && r1 == r2 && assignEq o1 o2 && eqOps s1 s2
  | project s1 o1 g1, project s2 o2 g2 =>
    (appendNew g1 (o1.map (·.1)) == appendNew g2 (o2.map (·.1))) && g1 == g2 && assignEq o1 o2 && eqOps s1 s2
  | selectRows s1 e1, selectRows s2 e2 => s1.cols == s2.cols && Term.isEqual e1 e2 && eqOps s1 s2
  | selectCols s1 c1, selectCols s2 c2 => c1 == c2 && eqOps s1 s2
  | n1@(dropCols s1 d1), n2@(dropCols s2 d2) => n1.cols == n2.cols && d1 == d2 && eqOps s1 s2
  | order s1 c1 r1 l1, order s2 c2 r2 l2 => s1.cols == s2.cols && c1 == c2 && r1 == r2 && l1 == l2 && eqOps s1 s2
  | n1@(rename s1 m1), n2@(rename s2 m2) => n1.cols == n2.cols && m1 == m2 && eqOps s1 s2
  | n1@(mapCols s1 m1 d1), n2@(mapCols s2 m2 d2) => n1.cols == n2.cols && m1 == m2 && d1 == d2 && eqOps s1 s2
  | n1@(join a1 b1 oa1 ob1 t1), n2@(join a2 b2 oa2 ob2 t2) =>
    n1.cols == n2.cols && oa1 == oa2 && ob1 == ob2 && t1 == t2 && eqOps a1 a2 && eqOps b1 b2
  | n1@(concat a1 b1 i1 an1 bn1), n2@(concat a2 b2 i2 an2 bn2) =>
    n1.cols == n2.cols && i1 == i2 && an1 == an2 && bn1 == bn2 && eqOps a1 a2 && eqOps b1 b2
  | convert s1 r1, convert s2 r2 => r1.produced == r2.produced && r1.repr == r2.repr && eqOps s1 s2
  | _, _ => false

/-! ### `replace_leaves` and `>>` -/

/-- `replace_leaves(replacement_map)`: tables are looked up (or copied), every other node is rebuilt through its
builder on the replaced sources. -/
def replaceLeaves (m : List (String × Ops)) : Ops → Except Err Ops
  | table n cs => match lookupLast m n with
    | some r => .ok r
    | none => .ok (table n cs)
  | extend s ops p od rv w => do
    let s' ← replaceLeaves m s
    -- fix 8e6df35: a windowed node without partition columns is rebuilt with partition_by=1
    extendParsed s' ops (if w && p.isEmpty then .one else .cols p) od rv
  | project s ops g => do
    let s' ← replaceLeaves m s
    projectParsed s' ops g
  | selectRows s e => do
    let s' ← replaceLeaves m s
    selectRowsB s' e
  | selectCols s cs => do
    let s' ← replaceLeaves m s
    build s' (.selectCols cs)
  | dropCols s ds => do
    let s' ← replaceLeaves m s
    build s' (.dropCols ds)
  | order s cs rv lim => do
    let s' ← replaceLeaves m s
    build s' (.order cs rv lim)
  | rename s mp => do
    let s' ← replaceLeaves m s
    build s' (.rename mp)
  | mapCols s mp ds => do
    let s' ← replaceLeaves m s
    build s' (.mapCols (mp.map (fun kv => (kv.1, some kv.2)) ++ ds.map (fun d => (d, none))))
  | join a b oa ob t => do
    let a' ← replaceLeaves m a
    let b' ← replaceLeaves m b
    build a' (.join b' oa ob t.toStr false)
  | concat a b idc an bn => do
    let a' ← replaceLeaves m a
    let b' ← replaceLeaves m b
    build a' (.concat (some b') idc an bn)
  | convert s rm => do
    let s' ← replaceLeaves m s
    build s' (.convert (some rm))

/-- `self.act_on(b)` for a pipeline `b`, i.e. `b >> self`: needs exactly one table in `self` (several tables with a
keyed `b` are not modelled) whose column *set* equals `b`'s (AssertionError otherwise). -/
def actOn (self b : Ops) : Except Err Ops :=
  match (self.tables.map (·.1)).eraseDups with
  | [key] =>
    match lookupLast self.tables key with
    | some oldCols =>
      if subset b.cols oldCols && subset oldCols b.cols then replaceLeaves [(key, b)] self
      else .error .assertionError
    | none => .error .assertionError
  | _ => .error .other

end Ops
end DAVerif
