import DAVerif.Sem.Eval
/-!
# ASSUMED behaviour of the Polars primitives used by `data_algebra/polars_model.py`  (Polars 1.44.2)

Nothing in this file is derived from Polars' source: every definition is an *assumption* about the Polars API,
written down from its documentation (https://docs.pola.rs/api/python/stable/reference/, section given per
definition) and from probes of the installed version, and validated on every run by the correspondence suite
`k6_polars` (real `ops.eval` on eager and lazy frames vs `semPl`).  A Polars upgrade changes this file; the
correspondence detects it.

Frames are untyped here (`Table`: column list + rows as association lists).  Polars' dtype checks can only make
a call *raise* more often than this model says (schema mismatch in `concat`, `is_nan` on strings, ...); C03
accepts every raise, and the correspondence accepts "model returns, Polars raises a schema/dtype error".

Where a Polars primitive computes exactly what a node function of `Sem/Eval.lean` computes, it is *defined* as
that function (so that the assumption is visible and the proofs re-use the shared lemmas):

| Polars call                                   | assumed meaning                          | definition here          |
|-----------------------------------------------|------------------------------------------|--------------------------|
| `LazyFrame.select([names])`                   | keep the named columns in that order     | `Table.selectCols`       |
| `LazyFrame.with_columns([e.alias(k) ...])`    | all expressions read the *input* frame (simultaneous); existing names are replaced in place, new names appended | `withColumns` = `semExtendPlain` |
| `LazyFrame.filter(e)`                         | keeps rows where `e` is `true`; `null` and `false` drop the row | `filter` = `semSelectRows` |
| `LazyFrame.group_by(keys).agg([...])`         | one row per distinct key tuple, **null is a key value like any other** (a null-key group is kept); rows in arbitrary order | `groupByAgg` = `semProject` |
| `pl.concat([a, b], how="vertical")`           | rows of `a` then rows of `b`; both frames must have the same columns in the same order | `concatVertical` |
| `LazyFrame.sort(by, descending, nulls_last)`  | lexicographic; `nulls_last=False` (default) puts nulls **first for ascending and descending** columns, `True` last for both; not stable (`maintain_order=False`) | `sort` |
| `LazyFrame.head(n)`                           | first `n` rows                           | `List.take`              |
| `expr.over(partition)`                        | evaluates `expr` per group of rows with equal partition values (nulls form a group), in frame order, and broadcasts / aligns the result to the rows | `semExtendWindowPl` (Sem/Polars.lean) |
| `LazyFrame.join(other, left_on, right_on, how, suffix)` | see `join` below                | `join`                   |
| `LazyFrame.rename(mapping)`                   | simultaneous renaming; a missing old name or a duplicate result name raises | `rename` |
| `pl.max_horizontal / pl.min_horizontal`       | row-wise max/min **skipping nulls** (null only if all are null) | `maxHorizontal`, `minHorizontal` |
| `pl.coalesce`, `when/then/otherwise`, `is_null`, comparison and Boolean operators | SQL three-valued logic: a comparison with a null operand is null, `&`/`|` are Kleene | `ThetaPl` (Sem/Polars.lean) |

No imports beyond model files: part of the compiled driver.
-/
namespace DAVerif.Pl

/-- Which variant of `polars_model.py` is modelled: the code as found (`orig`) or the code after each of the
four small fixes proposed by this property (`fixes/C03-*.diff`).  `semPl` and the theorems are parametric in it, so
that the guards of `C03_polars_sound_partial` are exactly the deviations still present. -/
structure Cfg where
  /-- `sort(..., nulls_last=True)` in `_order_rows_step` and `_extend_step` (fix D21): nulls last as in Pandas -/
  nullsLast : Bool
  /-- a full join coalesces same-named key columns like every other common column (fix D20) -/
  fullCoalesceKeys : Bool
  /-- `maximum`/`minimum` are null when any argument is null (fix D27); `fmax`/`fmin` keep skipping nulls -/
  maxPropagatesNull : Bool
  /-- `nunique` = `x.drop_nulls().n_unique()` (fix N6) -/
  nuniqueDropsNull : Bool
  deriving DecidableEq, Repr, Inhabited

def Cfg.orig : Cfg := ⟨false, false, false, false⟩
def Cfg.fixed : Cfg := ⟨true, true, true, true⟩

/-! ### sort  (`LazyFrame.sort`, "Parameters: descending, nulls_last") -/

/-- `a` may stand before `b` in one sort column.  `nullsLast = false` (Polars' default): nulls first for
ascending **and** descending columns; `true`: nulls last for both.  Non-null cells: ascending / descending. -/
def cellLe (nullsLast desc : Bool) (a b : Val) : Bool :=
  match a.isNull, b.isNull with
  | true, true => true
  | true, false => !nullsLast
  | false, true => nullsLast
  | false, false => if desc then !(Val.lt a b) else !(Val.lt b a)

/-- lexicographic ≤ on the `by` columns; `reverse` lists the descending ones -/
def rowLe (nullsLast : Bool) (order reverse : List String) (r1 r2 : Row) : Bool :=
  match order with
  | [] => true
  | c :: cs =>
    let a := r1.get c
    let b := r2.get c
    if cellEq a b then rowLe nullsLast cs reverse r1 r2
    else cellLe nullsLast (reverse.contains c) a b

/-- `sort(by, descending, nulls_last)`.  Polars' sort is not stable; the model uses a stable merge sort and the
theorems claim the order only where it is determined (no ties / ties not cut by a limit). -/
def sortRows (nullsLast : Bool) (order reverse : List String) (rows : List Row) : List Row :=
  rows.mergeSort (fun a b => rowLe nullsLast order reverse a b)

def sortIdx (nullsLast : Bool) (order reverse : List String) (rows : List (Row × Nat)) : List (Row × Nat) :=
  rows.mergeSort (fun a b => rowLe nullsLast order reverse a.1 b.1)

/-- `res.sort(by=cs, descending=..., [nulls_last=True])` followed by `res.head(limit)` when a limit is given -/
def sortHead (nullsLast : Bool) (cs reverse : List String) (limit : Option Nat) (t : Table) : Table :=
  let s := sortRows nullsLast cs reverse t.rows
  ⟨t.cols, match limit with | none => s | some n => s.take n⟩

/-! ### with_columns / filter / group_by.agg / concat: same meaning as the shared node functions -/

/-- `with_columns([...])` followed (when scratch columns were added) by `select(columns_produced)`: every
expression is evaluated on the input row (simultaneous assignment), `outCols` is the declared column list. -/
abbrev withColumns := @semExtendPlain

/-- `filter(e)`: keeps the rows on which `e` evaluates to `true` (a null predicate drops the row) -/
abbrev filter := @semSelectRows

/-- `group_by(keys).agg([...])` (+ `select(columns_produced)`): one row per distinct key tuple, null keys kept -/
abbrev groupByAgg := @semProject

/-- `pl.concat([a.select(common) (+ id), b.select(common) (+ id)], how="vertical")` -/
abbrev concatVertical := @semConcat

/-! ### join  (`LazyFrame.join`, parameters `how`, `left_on`, `right_on`, `suffix`, `coalesce`, `nulls_equal`)

Assumed (Polars 1.44, defaults `coalesce=None`, `nulls_equal=False`):
* rows: `inner` the matching pairs; `left` additionally every left row without partner, right side null;
  `full` (alias `outer`, still accepted) additionally every right row without partner, left side null;
* **null keys never match** (`nulls_equal=False`);
* columns: all left columns, then the right columns; for `inner`/`left` the right *key* columns are dropped
  (`coalesce=None` coalesces for these two kinds), for `full` they are **kept and not coalesced**; a right column
  whose name is already a left column gets `suffix` appended;
* a duplicate result name raises `DuplicateError`; an empty key list raises `InvalidOperationError`
  ("expected join keys/predicates"); `how="cross"` with `left_on`/`right_on` given (even empty lists) raises
  `ValueError("cross join should not pass join keys")`.
-/

inductive How where
  | inner | left | full
  deriving DecidableEq, Repr, Inhabited

/-- cell of an optional row: the missing side of an unmatched row is all null -/
def ocell (r : Option Row) (c : String) : Val :=
  match r with
  | some r => r.get c
  | none => .null

/-- key equality of a Polars join: equal and without null -/
def keyMatch (ka kb : List Val) : Bool := ka == kb && ka.all (fun v => !v.isNull)

/-- the right frame's columns in the join result as (result name, right source column) -/
def rightCols (coalesceKeys : Bool) (lc rc onR : List String) (suffix : String) : List (String × String) :=
  (rc.filter (fun c => !(coalesceKeys && onR.contains c))).map
    (fun c => (if lc.contains c then c ++ suffix else c, c))

/-- one result row of a join -/
def joinRow (lc : List String) (rcs : List (String × String)) (rl rr : Option Row) : Row :=
  lc.map (fun c => (c, ocell rl c)) ++ rcs.map (fun nc => (nc.1, ocell rr nc.2))

def join (how : How) (onL onR : List String) (suffix : String) (tl tr : Table) : Except Err Table :=
  if onL.isEmpty then .error .other
  else
    let rcs := rightCols (how != .full) tl.cols tr.cols onR suffix
    let outCols := tl.cols ++ rcs.map (·.1)
    if ¬ outCols.Nodup then .error .other
    else
      let m := fun (rl rr : Row) => keyMatch (keyOf rl onL) (keyOf rr onR)
      let mk := joinRow tl.cols rcs
      let pairs := tl.rows.flatMap (fun rl => (tr.rows.filter (fun rr => m rl rr)).map (fun rr => mk (some rl) (some rr)))
      let leftOnly := (tl.rows.filter (fun rl => !(tr.rows.any (fun rr => m rl rr)))).map (fun rl => mk (some rl) none)
      let rightOnly := (tr.rows.filter (fun rr => !(tl.rows.any (fun rl => m rl rr)))).map (fun rr => mk none (some rr))
      .ok ⟨outCols, pairs ++ (if how != .inner then leftOnly else []) ++ (if how == .full then rightOnly else [])⟩

/-! ### rename  (`LazyFrame.rename(mapping)`, strict) -/

/-- simultaneous renaming `old ↦ new`; raises when an old name is missing or two result names coincide -/
def rename (m : List (String × String)) (t : Table) : Except Err Table :=
  let f := fun c => (m.lookup c).getD c
  if ¬ m.all (fun kv => t.cols.contains kv.1) then .error .other
  else if ¬ (t.cols.map f).Nodup then .error .other
  else .ok ⟨t.cols.map f, t.rows.map (fun r => r.rename f)⟩

/-! ### horizontal reductions  (`polars.max_horizontal`, `polars.min_horizontal`: "null values are ignored") -/

def maxHorizontal (vs : List Val) : Val :=
  match vs.filter (fun v => !v.isNull) with
  | [] => .null
  | x :: xs => xs.foldl (fun m v => if Val.lt m v then v else m) x

def minHorizontal (vs : List Val) : Val :=
  match vs.filter (fun v => !v.isNull) with
  | [] => .null
  | x :: xs => xs.foldl (fun m v => if Val.lt v m then v else m) x

/-! ### where Polars' expression semantics differs from numpy's  (null handling)

Polars expressions follow SQL's three-valued logic ("Missing data" in the user guide: a comparison or Boolean
operation with a null operand is null; `&` / `|` are Kleene), numpy / Pandas compute `False` (`True` for `!=`) for a
comparison with NaN.  The predicates below say on which argument constellations the two differ; everywhere else the
Polars value of a symbol is assumed to be the numpy value (`ThetaPl` defers to `Theta` there; validated by
`k6_polars`).  `vs` are the cells of the arguments (a list / dict constant reads as null). -/

def cmpOps : List String := ["==", "!=", "<", "<=", ">", ">="]

/-- three-valued logic differs from numpy's: a comparison, `and`/`or`, `is_nan`/`is_inf`, `is_in` with a null operand -/
def nullLogicDev (op : String) (vs : List Val) (args : List ArgV) : Bool :=
  (cmpOps.contains op && vs.length == 2 && vs.any (·.isNull)) ||
  ((op == "and" || op == "or") && vs.any (·.isNull)) ||
  ((op == "is_nan" || op == "is_inf") && vs.length == 1 && vs.any (·.isNull)) ||
  (op == "is_in" && (match args with | [.v a, .l _] => a.isNull | _ => false))

/-- `"maximum": pl.max_horizontal(args)` / `"minimum": pl.min_horizontal(args)` skip nulls, `numpy.maximum` /
`numpy.minimum` propagate them (D27; gone after the fix) -/
def maxNullDev (cfg : Cfg) (op : String) (vs : List Val) : Bool :=
  (op == "maximum" || op == "minimum") && !cfg.maxPropagatesNull && !vs.isEmpty && vs.any (·.isNull)

/-- `"nunique": x.n_unique()` counts null as a value (N6; gone after the fix) -/
def nuniqueDev (cfg : Cfg) (op : String) (vs : List Val) : Bool :=
  op == "nunique" && !cfg.nuniqueDropsNull && vs.any (·.isNull)

/-- `"any_value": x.min()` vs Pandas' first non-null value: differ when the non-null values are not all equal -/
def anyValueDev (op : String) (vs : List Val) : Bool :=
  op == "any_value" && !((vs.filter (fun v => !v.isNull)).all (fun v => v == (vs.filter (fun v => !v.isNull)).headD .null))

/-- `"first": x.first()` returns the first cell even if it is null; Pandas' `first` skips nulls -/
def firstDev (op : String) (vs : List Val) : Bool :=
  op == "first" && (vs.headD .null).isNull && !(vs.filter (fun v => !v.isNull)).isEmpty

/-- `"last": x.last()`, likewise -/
def lastDev (op : String) (vs : List Val) : Bool :=
  op == "last" && (vs.getLastD .null).isNull && !(vs.filter (fun v => !v.isNull)).isEmpty

/-! ### which expression methods raise on Polars 1.44

`PolarsExpressionActor.act_on_expression` looks the method up by (context, arity, name) in
`_populate_expr_impl_map(extend_context)`, then in `impl_map_arbitrary_arity`, and raises `ValueError("failed to
lookup ...")` when neither has it.  The lambda found is then *called*; several call Polars methods that no longer
exist in 1.44 (`Expr.cumsum/cummax/cummin/cumprod`, `GroupBy.apply`, the date helpers, `expm1`, `trimstr`),
which raises `AttributeError` (or `TypeError` for `pl.Series(dtype_if_empty=...)`).  Obtained by running every row
of `op_catalog.methods_table` and every key of the maps on eager and lazy frames (same outcome on both):

raises — zero arguments, extend context:  count _count cumcount _cumcount row_number _row_number (→ `.cumsum()`),
         _uniform uniform (TypeError), _ngroup ngroup _sgroup sgroup (`GroupBy.apply`);   returns: size _size
raises — one argument:  base_Sunday cumcount cummax cummin cumprod cumsum datetime_to_date dayofmonth dayofweek
         dayofyear expm1 format_date format_datetime month quarter weekofyear, arctan2 (one-argument lambda)
raises — two arguments: date_diff timestamp_diff arctan2 (lookup) format_date format_datetime (lookup)
raises — three arguments: trimstr
raises — any name in none of the maps (year, ...)
-/

inductive Impl where
  | ok          -- found and callable
  | removed     -- found, but the Polars method it calls does not exist any more (AttributeError / TypeError)
  | missing     -- `failed to lookup`
  deriving DecidableEq, Repr, Inhabited

/-- `impl_map_0` (keys) -/
def map0 : List String := ["count", "_count", "cumcount", "_cumcount", "row_number", "_row_number", "size", "_size"]
/-- zero-argument names handled before the maps: `_uniform uniform _sgroup sgroup _ngroup ngroup` -/
def zeroSpecial : List String := ["_uniform", "uniform", "_sgroup", "sgroup", "_ngroup", "ngroup"]

/-- `impl_map_1` (keys) -/
def map1 : List String :=
  ["+", "-", "abs", "all", "any", "any_value", "arccos", "arccosh", "arcsin", "arcsinh", "arctan", "arctan2",
   "arctanh", "as_int64", "as_str", "base_Sunday", "bfill", "ceil", "coalesce0", "cos", "cosh", "count", "cumcount",
   "cummax", "cummin", "cumprod", "cumsum", "datetime_to_date", "dayofmonth", "dayofweek", "dayofyear", "exp",
   "expm1", "ffill", "first", "floor", "format_date", "format_datetime", "is_bad", "is_inf", "is_nan", "is_null",
   "last", "log", "log10", "log1p", "max", "mean", "median", "min", "month", "nunique", "quarter", "rank", "round",
   "shift", "sign", "sin", "sinh", "size", "sqrt", "std", "sum", "tanh", "var", "weekofyear"]
/-- the entries of `impl_map_1` whose lambda calls an `Expr` method that does not exist in Polars 1.44 -/
def removed1 : List String :=
  ["arctan2", "base_Sunday", "cumcount", "cummax", "cummin", "cumprod", "cumsum", "datetime_to_date", "dayofmonth",
   "dayofweek", "dayofyear", "expm1", "format_date", "format_datetime", "month", "quarter", "weekofyear"]

/-- `impl_map_2` (keys; `not ~ !` are one-parameter lambdas filed under arity 2 and can never be applied) -/
def map2 : List String :=
  ["-", "**", "/", "//", "%", "%/%", "around", "date_diff", "is_in", "mod", "remainder", "shift", "timestamp_diff",
   "==", "<=", "<", ">=", ">", "!=", "not", "~", "!", "parse_date", "parse_datetime"]
def removed2 : List String := ["date_diff", "timestamp_diff", "not", "~", "!"]

/-- `impl_map_3` (keys) -/
def map3 : List String := ["if_else", "mapv", "trimstr", "where"]
def removed3 : List String := ["trimstr"]

/-- `impl_map_arbitrary_arity` (keys), used for arity > 0 when the per-arity map has no entry -/
def mapAny : List String :=
  ["concat", "fmax", "fmin", "maximum", "minimum", "+", "*", "and", "&", "or", "|", "coalesce"]

/-- outcome of looking up and calling method `op` with `arity` arguments (`project` = project context).  In the
project context the zero-argument entries are `pl.col(one).sum()` (they exist in Polars 1.44). -/
def implStatus (project : Bool) (arity : Nat) (op : String) : Impl :=
  match arity with
  | 0 =>
    if zeroSpecial.contains op then .removed
    else if map0.contains op then
      (if project || op == "size" || op == "_size" then .ok else .removed)
    else .missing
  | 1 => if map1.contains op then (if removed1.contains op then .removed else .ok)
         else if mapAny.contains op then .ok else .missing
  | 2 => if map2.contains op then (if removed2.contains op then .removed else .ok)
         else if mapAny.contains op then .ok else .missing
  | 3 => if map3.contains op then (if removed3.contains op then .removed else .ok)
         else if mapAny.contains op then .ok else .missing
  | _ => if mapAny.contains op then .ok else .missing

mutual
/-- an expression raises when any method application in it does -/
def termRaises (project : Bool) : Term → Bool
  | .app op args _ _ => implStatus project args.length op != .ok || termsRaise project args
  | _ => false
def termsRaise (project : Bool) : List Term → Bool
  | [] => false
  | t :: ts => termRaises project t || termsRaise project ts
end

/-! ### not modelled: raises that depend on dtypes and on the query optimizer

`"count": pl.when(x.is_null() | x.is_nan())...sum()` — `Expr.is_nan` is only defined for numeric dtypes; on a
`String` or `Boolean` column Polars raises `InvalidOperationError` when the plan is resolved, **unless** the lazy
optimizer prunes the expression because its column is never used downstream (eager frames are evaluated lazily too,
`use_lazy_eval=True`).  Likewise `is_bad` on strings, `concat(how="vertical")` of frames whose column dtypes differ
(`SchemaError`), and a horizontal reduction whose arguments were all constant-folded to literals.  The untyped model
returns a table in all these cases; C03 accepts every raise, and the correspondence accepts (and counts) "model
returns, Polars raises a dtype/schema error". -/

end DAVerif.Pl
