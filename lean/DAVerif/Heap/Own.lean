/-!
# Frame-ownership model of the Pandas executor (`data_algebra/pandas_base.py`)          — property C19

A pure model cannot *observe* mutation, so mutation is made explicit.

* Frames live in a heap `List Frame`; a `FrameId` is a position in it.  A frame is a column list, a row count and
  an opaque payload token `tok` (the number of in-place writes the object has received since it was created):
  what matters here is the *identity* of frame objects and which operations write in place.
* The caller's frames are the frames of the initial heap.  `data_map` maps table names to ids of that heap.
* Every `_*_step` method of `PandasModelBase` is transcribed (`plan…` below) as a sequence of effects, each of which
  either ALLOCATES a new frame object (`df.loc[:, cols]`, `reset_index(drop=True, inplace=False)`, `merge`,
  `concat`, `sort_values(inplace=False)`, `groupby(...).agg` + `DataFrame(...)`, `rename`, `drop(inplace=False)`,
  `res[cols]`, `res.loc[mask, :]`, `iloc[...]`) or WRITES IN PLACE to an existing frame object (`res[c] = …`,
  `del res[c]`, `res.loc[is_null, c] = …`, `reset_index(drop=True, inplace=True)`, `s.columns = …`).
* The only frame objects a step method can name are the frames RETURNED BY ITS SOURCE STEPS (`Reg.src i`, the value of
  `self._eval_value_source(op.sources[i], data_map=data_map)`) and the frames it allocated itself (`Reg.loc n`);
  `_table_step` reads the caller's frame `data_map[op.table_name]` and writes nothing.  Which of these each
  write targets is recorded write by write, with the quoted Python, and compared with the real library on every run
  (harness suite `own`: pandas' in-place entry points are wrapped from outside).
* Exceptions: a step may raise at any point (pandas raises on dtype problems, missing labels, failed checks …).
  This is covered uniformly by the hint `fail = some (k, cls)`: the step raises `cls` after having performed `k` of
  its in-place writes.  The theorems quantify over every hint, hence over every place a step can raise.
* Data-dependent facts (row counts after a filter / join / aggregation, number of groups, whether every computed
  column was a scalar) are hints carried by the nodes; the theorems quantify over all of them.
* Python `set` iteration (three places, marked `ord`) is a parameter `ord : List Col → List Col` (any permutation).
  (A fourth place, the loop over `missing_group_cols` in `_project_step`, made the column order of the result depend on
  PYTHONHASHSEED; the model is of the code with `fixes/c19-project-empty-group-order.diff`, which iterates `op.group_by`.)

The file is import-free.  Lines starting with `py:` quote `pandas_base.py` (or `cdata.py` / `view_representations.py`).
-/
namespace DAVerif.Own

abbrev FrameId := Nat
abbrev Col := String

/-- a frame object: column labels (in order), number of rows, opaque payload token -/
structure Frame where
  cols : List Col
  nrows : Nat
  tok : Nat
deriving DecidableEq, Repr, Inhabited

/-- the in-place entry points of pandas the executor uses -/
inductive WKind
  | setitem      -- `res[c] = v`                       (DataFrame.__setitem__)
  | delitem      -- `del res[c]`                       (DataFrame.__delitem__)
  | locset       -- `res.loc[mask, c] = v`             (_LocIndexer.__setitem__)
  | setcol       -- `res[c] = v` for a column `c` the frame already has (DataFrame.__setitem__; columns unchanged)
  | resetIndex   -- `res.reset_index(drop=True, inplace=True)`
  | setColumns   -- `s.columns = [...]`                (NDFrame.__setattr__)
deriving DecidableEq, Repr

/-- the frame objects a step method can name -/
inductive Reg
  | src (i : Nat)   -- the frame returned by `self._eval_value_source(op.sources[i], data_map=data_map)`
  | loc (n : Nat)   -- the n-th frame object allocated by this step
deriving DecidableEq, Repr

/-- one effect of a step body.  `after` is the frame's state after the write. -/
inductive Eff
  | alloc (what : String) (f : Frame)
  | write (k : WKind) (r : Reg) (col : Col) (after : Frame)
deriving DecidableEq, Repr

/-- a Python variable holding a frame: which object, and what the step knows about it -/
structure H where
  reg : Reg
  f : Frame
deriving DecidableEq, Repr

/-! ## The step-body monad: a counter of allocated locals and the list of effects performed (write-only) -/

abbrev B (α : Type) : Type := Nat → α × Nat × List Eff

namespace B
@[inline] def pure {α} (a : α) : B α := fun n => (a, n, [])
@[inline] def bind {α β} (m : B α) (f : α → B β) : B β := fun n =>
  let r1 := m n
  let r2 := f r1.1 r1.2.1
  (r2.1, r2.2.1, r1.2.2 ++ r2.2.2)
instance : Monad B where
  pure := B.pure
  bind := B.bind
end B

/-- a new frame object -/
def alloc (what : String) (cols : List Col) (nrows : Nat) : B H := fun n =>
  let f : Frame := ⟨cols, nrows, 0⟩
  (⟨.loc n, f⟩, n + 1, [.alloc what f])

/-- the effect of an in-place write on what is known of the frame -/
def applyW (k : WKind) (c : Col) (f : Frame) : Frame :=
  match k with
  | .setitem => ⟨if c ∈ f.cols then f.cols else f.cols ++ [c], f.nrows, f.tok + 1⟩
  | .delitem => ⟨f.cols.filter (· != c), f.nrows, f.tok + 1⟩
  | _ => ⟨f.cols, f.nrows, f.tok + 1⟩

/-- an in-place write to the object `h` names -/
def write (k : WKind) (h : H) (c : Col) : B H := fun n =>
  let f := applyW k c h.f
  (⟨h.reg, f⟩, n, [.write k h.reg c f])

/-- `h.columns = cols` -/
def setCols (h : H) (cols : List Col) : B H := fun n =>
  let f : Frame := ⟨cols, h.f.nrows, h.f.tok + 1⟩
  (⟨h.reg, f⟩, n, [.write .setColumns h.reg "" f])

/-- `for x in xs: h = f(h, x)` -/
def foldH {α} (xs : List α) (h : H) (f : H → α → B H) : B H :=
  match xs with
  | [] => pure h
  | x :: xs => do let h ← f h x; foldH xs h f

/-- `[f(x) for x in xs]` -/
def mapB {α β} (xs : List α) (f : α → B β) : B (List β) :=
  match xs with
  | [] => pure []
  | x :: xs => do let y ← f x; let ys ← mapB xs f; pure (y :: ys)

/-- py: `def clean_copy(self, df): return df.reset_index(drop=True, inplace=False)` — a new object -/
def cleanCopy (h : H) : B H := alloc "reset_index(drop=True, inplace=False)" h.f.cols h.f.nrows

/-- py: `def drop_indices(self, df): df.reset_index(drop=True, inplace=True)` — in place -/
def dropIndices (h : H) : B H := write .resetIndex h ""

/-- iteration order of a Python `set` of column names: any permutation -/
abbrev Ord := List Col → List Col

/-! ## `columns_to_frame_` and `add_data_frame_columns_to_data_frame_` -/

/-- what the values of the `cols` dictionary look like -/
inductive ColVals
  | allScalars            -- every value is a scalar (`none_mark_scalar_or_length(v) is None`)
  | series (len : Nat)    -- at least one value has a length
deriving DecidableEq, Repr

/--
py (`columns_to_frame_`):
```
if len(cols) < 1:
    if target_rows is not None:
        res = self.pd.DataFrame({}, index=range(target_rows))          # alloc
        self.drop_indices(res)                                         # in place, on that new frame
        return res
    else:
        return self.pd.DataFrame({})                                   # alloc
...
if was_all_scalars:
    if target_rows is None: target_rows = 1
    return self.clean_copy(self.pd.DataFrame(promoted_cols, index=range(target_rows)))   # alloc, alloc
if target_rows < 1:
    return self.pd.DataFrame({k: [] for k in cols.keys()})             # alloc
return self.pd.DataFrame(promoted_cols)                                # alloc
```
-/
def columnsToFrame (keys : List Col) (targetRows : Option Nat) (vals : ColVals) : B H :=
  if keys.length < 1 then
    match targetRows with
    | some t => do
        let res ← alloc "DataFrame({}, index=range(target_rows))" [] t
        dropIndices res
    | none => alloc "DataFrame({})" [] 0
  else
    match vals with
    | .allScalars => do
        let t := targetRows.getD 1
        let a ← alloc "DataFrame(promoted_cols, index=range(target_rows))" keys t
        cleanCopy a
    | .series ln =>
        let t := targetRows.getD ln
        if t < 1 then alloc "DataFrame({k: [] for k in cols.keys()})" keys 0
        else alloc "DataFrame(promoted_cols)" keys t

/-- py: `for c in <set>: del res[c]` -/
def delAll (res : H) (cs : List Col) : B H := foldH cs res (fun h c => write .delitem h c)

/-- py: `for c in ...: res[c] = ...` -/
def setAll (res : H) (cs : List Col) : B H := foldH cs res (fun h c => write .setitem h c)

/--
py (`add_data_frame_columns_to_data_frame_(self, res, transient_new_frame)`; "Res may be altered, and either of res
or transient_new_frame may be returned"):
```
if transient_new_frame.shape[1] < 1:
    return res
if (res.shape[0] == 0) and (transient_new_frame.shape[0] > 0):
    transient_new_frame = self.clean_copy(transient_new_frame.iloc[range(0), :])        # alloc, alloc
if res.shape[0] == transient_new_frame.shape[0]:
    if res.shape[1] < 1:
        return transient_new_frame
    if transient_new_frame.shape[1] < 1:                                                # dead: returned above
        return res
if (2 * transient_new_frame.shape[1]) > res.shape[1]:
    for c in set(res.columns).intersection(set(transient_new_frame.columns)):           # set iteration: ord
        del res[c]                                                                      # IN PLACE on res
    return self.pd.concat([res, transient_new_frame], axis=1)                           # alloc
for c in transient_new_frame.columns:
    res[c] = transient_new_frame[c]                                                     # IN PLACE on res
return res
```
-/
def addColumns (ord : Ord) (res new : H) : B H :=
  if new.f.cols.length < 1 then pure res
  else do
    let new ←
      (if res.f.nrows == 0 && new.f.nrows > 0 then do
        let a ← alloc "transient_new_frame.iloc[range(0), :]" new.f.cols 0
        cleanCopy a
      else pure new)
    if res.f.nrows == new.f.nrows && res.f.cols.length < 1 then pure new
    else if 2 * new.f.cols.length > res.f.cols.length then do
      let res ← delAll res (ord ((res.f.cols.filter (· ∈ new.f.cols)).eraseDups))
      alloc "concat([res, transient_new_frame], axis=1)" (res.f.cols ++ new.f.cols) (max res.f.nrows new.f.nrows)
    else
      setAll res new.f.cols

/-! ## Operator nodes (own small pipeline type: node kind, parameters the executor looks at, hints) -/

/-- first argument of a windowed / aggregating expression (`opk.args[0]`) -/
inductive Arg0
  | none                  -- zero-argument function (`_row_number`, `_size`, …)
  | col (c : Col)         -- `ColumnReference`
  | val (key : String)    -- `Value`; `key = str(opk.args[0].value)`
deriving DecidableEq, Repr

structure TableOp where
  name : String                  -- `op.table_name`
  cols : List Col                -- `op.column_names`
  head : Option FrameId          -- `op.head` (a caller's frame stored in the description) if any
deriving DecidableEq, Repr

structure ExtendOp where
  keys : List Col                -- `op.ops.keys()`
  arg0 : List Arg0               -- `opk.args[0]` for every op, same order
  windowed : Bool                -- `op.windowed_situation or len(op.partition_by) > 0 or len(op.order_by) > 0`
  partitionBy : List Col
  orderBy : List Col
  allScalars : Bool              -- hint: every computed column was a scalar
deriving DecidableEq, Repr

structure ProjectOp where
  keys : List Col
  arg0 : List Arg0
  groupBy : List Col
  groups : Nat                   -- hint: number of groups found (used when `group_by` is not empty)
deriving DecidableEq, Repr

/-- a `RecordSpecification`, as far as the executor's allocation / write pattern depends on it -/
structure RecSpec where
  recordKeys : List Col
  controlKeys : List Col         -- `control_table_keys`
  controlCols : List Col         -- `control_table.columns`
  cells : List (List Col)        -- per control-table row: the cells of the non-key columns
  rowCols : List Col             -- `row_columns`
  blockCols : List Col           -- `block_columns`
deriving DecidableEq, Repr

structure ConvertOp where
  blocksIn : Option RecSpec
  blocksOut : Option RecSpec
  groupsIn : Nat                 -- hint: number of groups `data.groupby(control_table_keys)` yields
deriving DecidableEq, Repr

structure JoinOp where
  onA : List Col
  onB : List Col
  produced : List Col            -- `op.columns_produced()`
  rows : Nat                     -- hint: number of rows of the merge result
deriving DecidableEq, Repr

structure ConcatOp where
  idColumn : Option Col
deriving DecidableEq, Repr

inductive UnKind
  | extend (op : ExtendOp)
  | project (op : ProjectOp)
  | selectRows (keep : Nat)                         -- hint: number of rows selected
  | selectCols (cols : List Col)
  | dropCols (cols : List Col)
  | orderRows (limit : Option Nat)
  | mapCols (remap : List (Col × Col)) (deletions : List Col)
  | renameCols (remap : List (Col × Col))           -- `op.reverse_mapping`: old ↦ new
  | convert (op : ConvertOp)
deriving DecidableEq, Repr

inductive BinKind
  | join (op : JoinOp)
  | concat (op : ConcatOp)
deriving DecidableEq, Repr

/-- hint: the step raises exception class `cls` after `writes` of its own in-place writes -/
structure Fail where
  writes : Nat
  cls : String
deriving DecidableEq, Repr

inductive Pipe
  | table (t : TableOp)
  | un (k : UnKind) (fail : Option Fail) (src : Pipe)
  | bin (k : BinKind) (fail : Option Fail) (l r : Pipe)
deriving Repr

/-! ## The step bodies -/

/-- names of the scratch columns for `Value` arguments: one per distinct `str(value)`, in order of first use -/
def tempNames (pfx : String) (args : List Arg0) : List Col :=
  let keys := (args.filterMap fun a => match a with | .val k => some k | _ => none).eraseDups
  (List.range keys.length).map fun i => pfx ++ toString i

def renameCol (m : List (Col × Col)) (c : Col) : Col := (m.lookup c).getD c

/--
py (`_table_step`):
```
df = data_map[op.table_name]            # (or op.head when data_map is empty)
...
# make an index-free copy of the data to isolate side-effects and not deal with indices
res = df.loc[:, columns_using]          # alloc: a new DataFrame object (pandas 3: lazily shares memory, copy-on-write)
res = self.clean_copy(res)              # alloc
return res
```
`df` (the caller's frame) is only read.
-/
def planTable (t : TableOp) (df : Frame) : B H := do
  let res ← alloc "df.loc[:, columns_using]" t.cols df.nrows
  cleanCopy res

/-- py: `col_list` up to the order columns: `[c for c in set(op.partition_by)]` (set iteration: ord), then the
`order_by` columns not yet present -/
def winOrderCols (ord : Ord) (op : ExtendOp) : List Col :=
  let partCols := ord op.partitionBy.eraseDups
  partCols ++ (op.orderBy.filter (· ∉ partCols)).eraseDups

/-- py: `col_list` before the scratch value columns: order columns, then the value columns (`opk.args[0].column_name`) -/
def winColList (ord : Ord) (op : ExtendOp) : List Col :=
  let orderCols := winOrderCols ord op
  let valueCols := op.arg0.filterMap fun a => match a with | .col c => some c | _ => none
  orderCols ++ (valueCols.filter (· ∉ orderCols)).eraseDups

/-- the windowed branch of `_extend_step` from `subframe = self.clean_copy(res[col_list])` to the last
`subframe[k] = …` (quoted at `planExtend`) -/
def winScratchA (colList : List Col) (ordered : Bool) (keys : List Col) (res : H) : B H := do
  let a ← alloc "res[col_list]" colList res.f.nrows
  let subframe ← cleanCopy a
  let subframe ← write .setitem subframe "_data_algebra_orig_index"
  let subframe ←
    (if ordered then do
      let s ← alloc "subframe.sort_values(by=col_list, ascending=ascending)" subframe.f.cols subframe.f.nrows
      cleanCopy s
    else pure subframe)
  let subframe ← write .setitem subframe "_data_algebra_temp_g"
  setAll subframe keys

/-- the windowed branch of `_extend_step`, "copy out results" -/
def winScratchB (keys : List Col) (subframe : H) : B H := do
  let s1 ← alloc "subframe.sort_values(by=[\"_data_algebra_orig_index\"])" subframe.f.cols subframe.f.nrows
  let s2 ← alloc "subframe.loc[:, list(op.ops.keys())]" keys s1.f.nrows
  cleanCopy s2

/--
py (`_extend_step`), `res = self._eval_value_source(op.sources[0], data_map=data_map)`:
```
if res.shape[0] <= 0:
    ... return self.pd.DataFrame(v_dict)                       # alloc; columns: incoming, then new keys
if not window_situation:
    new_cols = {k: opk.act_on(res, expr_walker=self) for k, opk in op.ops.items()}
    new_frame = self.columns_to_frame_(new_cols, target_rows=res.shape[0])
    res = self.add_data_frame_columns_to_data_frame_(res, new_frame)
else:
    col_list = [c for c in set(op.partition_by)]                # set iteration: ord
    ... order_by columns, then value columns are appended
            elif isinstance(opk.args[0], data_algebra.expr_rep.Value):
                    ...
                    res[value_name] = opk.args[0].value         # IN PLACE on res = the frame returned by the source step
    subframe = self.clean_copy(res[col_list])                   # alloc, alloc
    subframe["_data_algebra_orig_index"] = subframe.index       # in place on subframe (local)
    if len(order_cols) > 0:
        subframe = self.clean_copy(subframe.sort_values(by=col_list, ascending=ascending))   # alloc, alloc
    subframe[standin_name] = 1                                  # in place (local)
    ...
    for k, opk in op.ops.items():
            subframe[k] = opframe...transform(...) / cumcount() / ngroup()        # in place (local)
    for value_name in data_algebra_temp_cols.values():
        del res[value_name]                                     # IN PLACE on res (source result)
    subframe = subframe.sort_values(by=["_data_algebra_orig_index"])    # alloc
    subframe = subframe.loc[:, list(op.ops.keys())]                     # alloc
    subframe = self.clean_copy(subframe)                                # alloc
    res = self.add_data_frame_columns_to_data_frame_(res, subframe)
return res
```
-/
def planExtend (ord : Ord) (op : ExtendOp) (res : H) : B H :=
  if res.f.nrows ≤ 0 then
    alloc "DataFrame(v_dict)" (res.f.cols ++ op.keys.filter (· ∉ res.f.cols)) 0
  else if !op.windowed then do
    let newFrame ← columnsToFrame op.keys (some res.f.nrows)
      (if op.allScalars then .allScalars else .series res.f.nrows)
    addColumns ord res newFrame
  else do
    let temps := tempNames "data_algebra_extend_temp_col_" op.arg0
    let res ← setAll res temps
    let subframe ← winScratchA (winColList ord op ++ temps) (decide ((winOrderCols ord op).length > 0)) op.keys res
    let res ← delAll res temps
    let s3 ← winScratchB op.keys subframe
    addColumns ord res s3

/--
py (`_project_step`), `res = self._eval_value_source(op.sources[0], data_map=data_map)`:
```
for k, opk in op.ops.items():
        elif isinstance(opk.args[0], data_algebra.expr_rep.Value):
                ...
                res[value_name] = opk.args[0].value             # IN PLACE on res (source result)
res["_data_table_temp_col"] = 1                                 # IN PLACE on res (source result)
if len(op.group_by) > 0:
    res = res.groupby(op.group_by, observed=True, dropna=False)
...     cols[k] = res[value_name].agg(transform_op)
res = self.columns_to_frame_(cols)                              # allocs
res = res.reset_index(drop=(len(op.group_by) < 1) or (res.shape[0] <= 0), inplace=False)    # alloc
missing_group_cols = set(op.group_by) - set(res.columns)
if res.shape[0] > 0:
    if len(missing_group_cols) != 0: raise ValueError("Missing column groups")
else:
    for g in op.group_by:                                       # (fixes/c19-project-empty-group-order.diff; the unpatched
        if g in missing_group_cols:                             #  code iterated the set: `for g in missing_group_cols:`)
            res[g] = []                                         # in place (local)
if "_data_table_temp_col" in res.columns:
    res = res.drop("_data_table_temp_col", axis=1, inplace=False)                           # alloc
return res
```
-/
def planProject (op : ProjectOp) (res : H) : B H := do
  let temps := tempNames "data_algebra_project_temp_col_" op.arg0
  let res ← setAll res temps
  let _ ← write .setitem res "_data_table_temp_col"
  let keys := if op.keys.length > 0 then op.keys else ["_data_table_temp_col"]
  let vals : ColVals := if op.groupBy.length > 0 then .series op.groups else .allScalars
  let fr ← columnsToFrame keys none vals
  let dropIx := op.groupBy.length < 1 || fr.f.nrows ≤ 0
  let r ← alloc "res.reset_index(drop=..., inplace=False)"
    (if dropIx then fr.f.cols else op.groupBy ++ fr.f.cols) fr.f.nrows
  let missing := op.groupBy.filter (· ∉ r.f.cols)
  let r ← (if r.f.nrows > 0 then pure r else setAll r missing)
  if "_data_table_temp_col" ∈ r.f.cols then
    alloc "res.drop(\"_data_table_temp_col\", axis=1, inplace=False)"
      (r.f.cols.filter (· != "_data_table_temp_col")) r.f.nrows
  else pure r

/--
py (`_select_rows_step`):
```
if res.shape[0] < 1:
    return res                                                  # the frame returned by the source step
selection = op.expr.act_on(res, expr_walker=self)
res = self.clean_copy(res.loc[selection, :])                    # alloc, alloc
return res
```
-/
def planSelectRows (keep : Nat) (res : H) : B H :=
  if res.f.nrows < 1 then pure res
  else do
    let a ← alloc "res.loc[selection, :]" res.f.cols keep
    cleanCopy a

/-- py (`_select_columns_step`): `return res[op.column_selection]`  — alloc -/
def planSelectCols (cols : List Col) (res : H) : B H :=
  alloc "res[op.column_selection]" cols res.f.nrows

/-- py (`_drop_columns_step`): `column_selection = [c for c in res.columns if c not in op.column_deletions]`;
`return res[column_selection]` — alloc -/
def planDropCols (dels : List Col) (res : H) : B H :=
  alloc "res[column_selection]" (res.f.cols.filter (· ∉ dels)) res.f.nrows

/--
py (`_order_rows_step`):
```
if res.shape[0] > 1:
    res = res.sort_values(by=op.order_columns, ascending=ascending, ignore_index=True, inplace=False)    # alloc
    self.drop_indices(res)                                      # in place, on the new frame
if (op.limit is not None) and (res.shape[0] > op.limit):
    res = self.clean_copy(res.iloc[range(op.limit), :])         # alloc, alloc
return res                                                      # may be the frame returned by the source step
```
-/
def planOrderRows (limit : Option Nat) (res : H) : B H := do
  let res ←
    (if res.f.nrows > 1 then do
      let s ← alloc "res.sort_values(..., ignore_index=True, inplace=False)" res.f.cols res.f.nrows
      dropIndices s
    else pure res)
  match limit with
  | some l =>
    if res.f.nrows > l then do
      let a ← alloc "res.iloc[range(op.limit), :]" res.f.cols l
      cleanCopy a
    else pure res
  | none => pure res

/--
py (`_map_columns_step`):
```
res = res.rename(columns=op.column_remapping)                   # alloc
if (op.column_deletions is not None) and (len(op.column_deletions) > 0):
    column_selection = [c for c in res.columns if c not in op.column_deletions]
    res = res[column_selection]                                 # alloc
return res
```
-/
def planMapCols (remap : List (Col × Col)) (dels : List Col) (res : H) : B H := do
  let r ← alloc "res.rename(columns=op.column_remapping)" (res.f.cols.map (renameCol remap)) res.f.nrows
  if dels.length > 0 then
    alloc "res[column_selection]" (r.f.cols.filter (· ∉ dels)) r.f.nrows
  else pure r

/-- py (`_rename_columns_step`): `return res.rename(columns=op.reverse_mapping)` — alloc -/
def planRenameCols (remap : List (Col × Col)) (res : H) : B H :=
  alloc "res.rename(columns=op.reverse_mapping)" (res.f.cols.map (renameCol remap)) res.f.nrows

/-- columns of `pd.merge(left, right, left_on=on_a, right_on=on_b, suffixes=("", "_tmp_right_col"))` -/
def mergeCols (l r onA onB : List Col) : List Col :=
  let sameKey := fun c => (onA.zip onB).any fun ab => ab.1 == c && ab.2 == c
  l ++ r.filterMap fun c =>
    if sameKey c then none else if c ∈ l then some (c ++ "_tmp_right_col") else some c

/-- py: the loop body of `_natural_join_step` for one common non-key column -/
def coalesceOne (res : H) (c : Col) : B H := do
  let res ← write .setcol res c
  alloc "res.drop(c + \"_tmp_right_col\", axis=1, inplace=False)"
    (res.f.cols.filter (· != c ++ "_tmp_right_col")) res.f.nrows

/--
py (`_natural_join_step`), `left`, `right` = the frames returned by the two source steps:
```
if (left.shape[0] == 0) and (right.shape[0] == 0):
    return self.pd.DataFrame({k: [] for k in op.columns_produced()})                # alloc
common_cols = set([c for c in left.columns]).intersection([c for c in right.columns])
...
if len(on_a) <= 0:
    scratch_col = "data_algebra_temp_merge_col"
    ...
    left[scratch_col] = 1                                       # IN PLACE on left (source result)
    right[scratch_col] = 1                                      # IN PLACE on right (source result)
res = self.pd.merge(left=left, right=right, ..., suffixes=("", "_tmp_right_col"))    # alloc
self.drop_indices(res)                                          # in place (local)
if scratch_col is not None:
    del res[scratch_col]                                        # in place (local)
for c in common_cols:                                           # set iteration: ord
    if (c + "_tmp_right_col") in res.columns:                   # present unless c is a key paired with itself
        is_null = res[c].isnull()
        res[c] = res[c].where(~is_null, res[c + "_tmp_right_col"])                  # in place (local), c present
        res = res.drop(c + "_tmp_right_col", axis=1, inplace=False)                 # alloc
self.drop_indices(res)                                          # in place (local)
return res
```
-/
def planJoin (ord : Ord) (op : JoinOp) (left right : H) : B H := do
  if left.f.nrows == 0 && right.f.nrows == 0 then
    alloc "DataFrame({k: [] for k in op.columns_produced()})" op.produced 0
  else do
    let common := (left.f.cols.filter (· ∈ right.f.cols)).eraseDups
    let scratch := "data_algebra_temp_merge_col"
    let noKeys := op.onA.length ≤ 0
    let onA := if noKeys then [scratch] else op.onA
    let onB := if noKeys then [scratch] else op.onB
    let left ← (if noKeys then write .setitem left scratch else pure left)
    let right ← (if noKeys then write .setitem right scratch else pure right)
    let res ← alloc "pd.merge(left, right, ...)" (mergeCols left.f.cols right.f.cols onA onB) op.rows
    let res ← dropIndices res
    let res ← (if noKeys then write .delitem res scratch else pure res)
    let sameKey := fun c => (onA.zip onB).any fun ab => ab.1 == c && ab.2 == c
    let res ← foldH (ord (common.filter (fun c => !sameKey c))) res coalesceOne
    dropIndices res

/--
py (`_concat_rows_step`), `left`, `right` = the frames returned by the two source steps:
```
if op.id_column is not None:
    if left.shape[0] > 0: left[op.id_column] = op.a_name        # IN PLACE on left (source result)
    else:                 left[op.id_column] = []
    if right.shape[0] > 0: right[op.id_column] = op.b_name      # IN PLACE on right (source result)
    else:                  right[op.id_column] = []
if left.shape[0] < 1:
    return right                                                # the frame returned by source step 1
if right.shape[0] < 1:
    return left                                                 # the frame returned by source step 0
...
res = self.pd.concat([left, right], axis=0, ignore_index=True, sort=False)          # alloc
self.drop_indices(res)                                          # in place (local)
return res
```
-/
def planConcat (op : ConcatOp) (left right : H) : B H := do
  let left ← (match op.idColumn with | some c => write .setitem left c | none => pure left)
  let right ← (match op.idColumn with | some c => write .setitem right c | none => pure right)
  if left.f.nrows < 1 then pure right
  else if right.f.nrows < 1 then pure left
  else do
    let res ← alloc "pd.concat([left, right], axis=0, ignore_index=True, sort=False)"
      (left.f.cols ++ right.f.cols.filter (· ∉ left.f.cols)) (left.f.nrows + right.f.nrows)
    dropIndices res

/--
py (`blocks_to_rowrecs(self, data, *, blocks_in)`): everything is allocated locally; the in-place write is
`s.columns = [keys.iloc[0, i] for i in range(keys.shape[1])]` on the frame `s.drop(...)` just returned.
```
data = data.loc[:, blocks_in.block_columns].reset_index(drop=True, inplace=False)       # alloc, alloc
if data.shape[0] < 1:
    return self.pd.DataFrame({c: [] for c in blocks_in.row_columns})                    # alloc
split = [v for k, v in data.groupby(...)]                                               # alloc per group
split = [s.reset_index(drop=True, inplace=False) for s in split]                        # alloc per group
if record_keys:
    split = [s.sort_values(by=blocks_in.record_keys, inplace=False, ignore_index=True) for s in split]   # alloc per group
    sk = split[0][blocks_in.record_keys]                                                # alloc
def limit_and_rename_cols(s):
    keying = s.loc[[0], blocks_in.control_table_keys].reset_index(inplace=False, drop=True)      # alloc, alloc
    keys = keying.merge(self.data_frame(blocks_in.control_table), ...)                  # alloc, alloc
    keys = keys.drop(blocks_in.control_table_keys, axis=1, inplace=False)               # alloc
    s = s.drop(..., axis=1, inplace=False)                                              # alloc
    s.columns = [...]                                                                   # in place (local)
    return s
split = [limit_and_rename_cols(s) for s in split]
res = self.pd.concat([sk] + split, axis=1)                                              # alloc
if record_keys: res = res.sort_values(by=blocks_in.record_keys, inplace=False, ignore_index=True)   # alloc
```
-/
def planBlocksToRowrecs (sp : RecSpec) (groups : Nat) (data : H) : B H := do
  let a ← alloc "data.loc[:, blocks_in.block_columns]" sp.blockCols data.f.nrows
  let data ← cleanCopy a
  if data.f.nrows < 1 then
    alloc "DataFrame({c: [] for c in blocks_in.row_columns})" sp.rowCols 0
  else do
    let per := data.f.nrows / (max groups 1)
    let hasKeys := sp.recordKeys.length > 0
    let split ← mapB (List.range groups) fun _ => do
      let v ← alloc "data.groupby(...) group" data.f.cols per
      let s ← cleanCopy v
      if hasKeys then alloc "s.sort_values(by=blocks_in.record_keys, inplace=False, ignore_index=True)" s.f.cols per
      else pure s
    let _ ← (if hasKeys then (do let _ ← alloc "split[0][blocks_in.record_keys]" sp.recordKeys per; pure ())
            else pure ())
    let valueCols := sp.blockCols.filter fun c => c ∉ sp.recordKeys ∧ c ∉ sp.controlKeys
    let _ ← mapB (split.zip (List.range groups)) fun si => do
      let k0 ← alloc "s.loc[[0], blocks_in.control_table_keys]" sp.controlKeys 1
      let _ ← cleanCopy k0
      let _ ← alloc "self.data_frame(blocks_in.control_table)" sp.controlCols sp.cells.length
      let keys ← alloc "keying.merge(...)" sp.controlCols 1
      let _ ← alloc "keys.drop(blocks_in.control_table_keys, axis=1, inplace=False)"
        (keys.f.cols.filter (· ∉ sp.controlKeys)) 1
      let s ← alloc "s.drop(..., axis=1, inplace=False)" valueCols si.1.f.nrows
      setCols s (sp.cells.getD si.2 [])
    let res ← alloc "pd.concat([sk] + split, axis=1)" sp.rowCols per
    if hasKeys then alloc "res.sort_values(by=blocks_in.record_keys, inplace=False, ignore_index=True)" res.f.cols per
    else pure res

/--
py (`rowrecs_to_blocks(self, data, *, blocks_out)`): everything is allocated locally; in-place writes are
`new_dat.columns = new_names` and `row[c] = ct_keys.loc[0, c]` on frames `reset_index(inplace=False, …)` just returned.
```
data = data.loc[:, blocks_out.row_columns].reset_index(drop=True, inplace=False)        # alloc, alloc
if data.shape[0] < 1:
    return self.pd.DataFrame({c: [] for c in blocks_out.block_columns})                 # alloc
ct = self.data_frame(blocks_out.control_table)                                          # alloc
def extract_rows(i):
    ct_keys = ct.loc[[i], blocks_out.control_table_keys].reset_index(drop=True, inplace=False)   # alloc, alloc
    new_dat = data.loc[:, col_names].reset_index(inplace=False, drop=True)              # alloc, alloc
    new_dat.columns = new_names                                                         # in place (local)
    if record_keys:
        row = data.loc[:, blocks_out.record_keys].reset_index(inplace=False, drop=True) # alloc, alloc
        for c in ct_keys.columns:
            row[c] = ct_keys.loc[0, c]                                                  # in place (local)
    else:
        row = self.pd.DataFrame({c: [ct_keys.loc[0, c]] * data.shape[0] for c in ct_keys.columns})   # alloc
    row = self.pd.concat([row, new_dat], axis=1)                                        # alloc
    return row
rows = [extract_rows(i) for i in range(ct.shape[0])]
res = self.pd.concat(rows, axis=0, ignore_index=True, sort=False)                       # alloc
res = res.sort_values(by=..., inplace=False, ignore_index=True)                         # alloc
```
-/
def planRowrecsToBlocks (sp : RecSpec) (data : H) : B H := do
  let a ← alloc "data.loc[:, blocks_out.row_columns]" sp.rowCols data.f.nrows
  let data ← cleanCopy a
  if data.f.nrows < 1 then
    alloc "DataFrame({c: [] for c in blocks_out.block_columns})" sp.blockCols 0
  else do
    let _ ← alloc "self.data_frame(blocks_out.control_table)" sp.controlCols sp.cells.length
    let newNames := sp.controlCols.filter (· ∉ sp.controlKeys)
    let hasKeys := sp.recordKeys.length > 0
    let _ ← mapB sp.cells fun cellRow => do
      let k0 ← alloc "ct.loc[[i], blocks_out.control_table_keys]" sp.controlKeys 1
      let _ ← cleanCopy k0
      let d0 ← alloc "data.loc[:, col_names]" cellRow data.f.nrows
      let newDat ← cleanCopy d0
      let newDat ← setCols newDat newNames
      let row ←
        (if hasKeys then do
          let r0 ← alloc "data.loc[:, blocks_out.record_keys]" sp.recordKeys data.f.nrows
          let row ← cleanCopy r0
          setAll row sp.controlKeys
        else alloc "DataFrame({c: [ct_keys.loc[0, c]] * data.shape[0] ...})" sp.controlKeys data.f.nrows)
      alloc "pd.concat([row, new_dat], axis=1)" (row.f.cols ++ newDat.f.cols) data.f.nrows
    let res ← alloc "pd.concat(rows, axis=0, ignore_index=True, sort=False)"
      (sp.recordKeys ++ sp.controlKeys ++ newNames) (data.f.nrows * sp.cells.length)
    alloc "res.sort_values(by=..., inplace=False, ignore_index=True)" res.f.cols res.f.nrows

/--
py (`_convert_records_step`): `return op.record_map.transform(res, local_data_model=self)`; `RecordMap.transform`:
```
X = local_data_model.clean_copy(X)                                                      # alloc
if self.blocks_in is not None:
    X = local_data_model.blocks_to_rowrecs(X, blocks_in=self.blocks_in)
if self.blocks_out is not None:
    X = local_data_model.rowrecs_to_blocks(X, blocks_out=self.blocks_out)
return X
```
-/
def planConvert (op : ConvertOp) (res : H) : B H := do
  let x ← cleanCopy res
  let x ← (match op.blocksIn with | some sp => planBlocksToRowrecs sp op.groupsIn x | none => pure x)
  match op.blocksOut with | some sp => planRowrecsToBlocks sp x | none => pure x

def planUn (ord : Ord) (k : UnKind) (res : H) : B H :=
  match k with
  | .extend op => planExtend ord op res
  | .project op => planProject op res
  | .selectRows keep => planSelectRows keep res
  | .selectCols cols => planSelectCols cols res
  | .dropCols dels => planDropCols dels res
  | .orderRows limit => planOrderRows limit res
  | .mapCols remap dels => planMapCols remap dels res
  | .renameCols remap => planRenameCols remap res
  | .convert op => planConvert op res

def planBin (ord : Ord) (k : BinKind) (left right : H) : B H :=
  match k with
  | .join op => planJoin ord op left right
  | .concat op => planConcat op left right

/-! ## Executing step bodies on the heap -/

inductive Err
  | keyError | valueError | assertionError
  | raised (cls : String)       -- the `fail` hint
  | internal (msg : String)     -- the model named a frame that does not exist (never expected; part of every statement)
deriving DecidableEq, Repr

/-- what happened, in order -/
inductive Ev
  | alloc (id : FrameId) (what : String)
  | write (k : WKind) (id : FrameId) (col : Col)
  | ret (id : FrameId) (f : Frame)        -- a step returned frame `id` (`_eval_value_source` returned)
deriving DecidableEq, Repr

structure St where
  heap : List Frame
  log : List Ev
deriving Repr

/-- the effects of a step up to and including its `k`-th in-place write -/
def truncate : Nat → List Eff → List Eff
  | _, [] => []
  | 0, _ => []
  | k + 1, .alloc w f :: es => .alloc w f :: truncate (k + 1) es
  | k + 1, .write wk r c f :: es => .write wk r c f :: truncate k es

/-- which object a register names: `base` = size of the heap when the step body started -/
def resolve (base : Nat) (srcIds : List FrameId) (len : Nat) : Reg → Option FrameId
  | .src i => match srcIds[i]? with
    | some id => if id < len then some id else none
    | none => none
  | .loc n => if base + n < len then some (base + n) else none

/-- perform the effects; `false` when an effect names a frame that does not exist -/
def commit (base : Nat) (srcIds : List FrameId) : List Eff → St → Bool × St
  | [], s => (true, s)
  | .alloc w f :: es, s =>
    commit base srcIds es ⟨s.heap ++ [f], s.log ++ [.alloc s.heap.length w]⟩
  | .write k r c f :: es, s =>
    match resolve base srcIds s.heap.length r with
    | some id => commit base srcIds es ⟨s.heap.set id f, s.log ++ [.write k id c]⟩
    | none => (false, s)

/-- run one step body: perform its effects (cut short by the `fail` hint), log what it returns -/
def runPlan (fail : Option Fail) (srcIds : List FrameId) (m : B H) (s : St) : Except Err (FrameId × Frame) × St :=
  let r := m 0
  let base := s.heap.length
  match fail with
  | some fl =>
    let cs := commit base srcIds (truncate fl.writes r.2.2) s
    if cs.1 then (.error (.raised fl.cls), cs.2) else (.error (.internal "unresolved register"), cs.2)
  | none =>
    let cs := commit base srcIds r.2.2 s
    if cs.1 then
      match resolve base srcIds cs.2.heap.length r.1.reg with
      | some id => (.ok (id, r.1.f), ⟨cs.2.heap, cs.2.log ++ [.ret id r.1.f]⟩)
      | none => (.error (.internal "unresolved result"), cs.2)
    else (.error (.internal "unresolved register"), cs.2)

abbrev DataMap := List (String × FrameId)

/-- py (`_table_step`): which frame object the table description stands for -/
def tableFrameId (dm : DataMap) (t : TableOp) : Except Err FrameId :=
  if dm.length > 0 then
    match dm.lookup t.name with | some id => .ok id | none => .error .keyError
  else
    match t.head with | some id => .ok id | none => .error .assertionError

/--
The Pandas executor: `PandasModelBase.eval` = `_eval_value_source` = dispatch on the node kind.
Sources are evaluated first (`sources[0]`, then `sources[1]`), an exception propagates (writes already done stay done).

py (`_table_step`):
```
if (data_map is not None) and (len(data_map) > 0):
    df = data_map[op.table_name]                                        # KeyError
    if not self.is_appropriate_data_instance(df): raise ValueError(...)
else:
    df = op.head
    assert df is not None                                               # AssertionError
    if not self.is_appropriate_data_instance(df): raise ValueError(...)
columns_using = op.column_names
missing = set(columns_using) - set(df.columns)
if len(missing) > 0: raise ValueError("missing required columns: " + str(missing))
```
-/
def exec (ord : Ord) (dm : DataMap) : Pipe → St → Except Err (FrameId × Frame) × St
  | .table t, s =>
    match tableFrameId dm t with
    | .error e => (.error e, s)
    | .ok id =>
      match s.heap[id]? with
      | none => (.error .valueError, s)        -- not a DataFrame
      | some df =>
        if t.cols.any (· ∉ df.cols) then (.error .valueError, s)
        else runPlan none [] (planTable t df) s
  | .un k fail src, s =>
    match exec ord dm src s with
    | (.error e, s1) => (.error e, s1)
    | (.ok (r, f), s1) => runPlan fail [r] (planUn ord k ⟨.src 0, f⟩) s1
  | .bin k fail l r, s =>
    match exec ord dm l s with
    | (.error e, s1) => (.error e, s1)
    | (.ok (rl, fl), s1) =>
      match exec ord dm r s1 with
      | (.error e, s2) => (.error e, s2)
      | (.ok (rr, fr), s2) => runPlan fail [rl, rr] (planBin ord k ⟨.src 0, fl⟩ ⟨.src 1, fr⟩) s2

/-! ## The public entry points (`view_representations.py`) -/

/-- table descriptions of a pipeline (`get_tables()`), in first-visit order -/
def tablesOf : Pipe → List TableOp
  | .table t => [t]
  | .un _ _ src => tablesOf src
  | .bin _ _ l r => tablesOf l ++ tablesOf r

def tableNames (p : Pipe) : List String := ((tablesOf p).map (·.name)).eraseDups

/--
py (`ViewRepresentation.eval(self, data_map, *, data_model=None, strict=False)`):
```
tables = self.get_tables()
for k in tables.keys():
    v = data_map[k]                                                     # KeyError
    ...
self.check_constraints({k: data_map[k].columns for k in tables.keys()}, strict=strict)
return data_model.eval(op=self, data_map=data_map)
```
-/
def eval (ord : Ord) (dm : DataMap) (p : Pipe) (s : St) : Except Err (FrameId × Frame) × St :=
  if (tableNames p).any (fun k => (dm.lookup k).isNone) then (.error .keyError, s)
  else exec ord dm p s

/-- py (`transform(self, X, ...)`): `if len(tables) != 1: raise ValueError(...)`; `k = list(tables.keys())[0]`;
`data_map = {k: X}`; `return self.eval(data_map=data_map, ...)` -/
def transform (ord : Ord) (x : FrameId) (p : Pipe) (s : St) : Except Err (FrameId × Frame) × St :=
  match tableNames p with
  | [k] => eval ord [(k, x)] p s
  | _ => (.error .valueError, s)

/-- py (`ex(self, ...)`): `for tv in tables.values(): assert tv.head is not None; ...; data_map[tv.table_name] = tv.head`;
`return self.eval(data_map=data_map, ...)` -/
def ex (ord : Ord) (p : Pipe) (s : St) : Except Err (FrameId × Frame) × St :=
  if (tablesOf p).any (fun t => t.head.isNone) then (.error .assertionError, s)
  else eval ord ((tablesOf p).filterMap fun t => t.head.map fun h => (t.name, h)) p s

/-- py (`act_on(self, b)` for a data frame `b`, i.e. `b >> ops`): `assert len(tables) == 1`;
`assert set(b.columns) == set(old.column_names)`; `return self.transform(b, strict=True)` -/
def actOn (ord : Ord) (x : FrameId) (p : Pipe) (s : St) : Except Err (FrameId × Frame) × St :=
  match tableNames p, (tablesOf p).head?, s.heap[x]? with
  | [_], some t, some df =>
    if t.cols.all (· ∈ df.cols) && df.cols.all (· ∈ t.cols) then transform ord x p s
    else (.error .assertionError, s)
  | _, _, _ => (.error .assertionError, s)

end DAVerif.Own
