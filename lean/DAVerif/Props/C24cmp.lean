import DAVerif.Props.C24

/-!
# C24 — the containment queries `<=` / `>=` read the other container as a set

`OrderedSet.__le__` / `__ge__` accept any container (`all(e in other for e in self)` / `all(e in self for e in other)`).
The answer is the plain-set containment of the *elements* of the argument: repeats and order of the argument do not matter
(seed C24-m3: a length-based early exit in `__ge__` is wrong exactly for a list with repeats).
-/

namespace DAVerif.OSet
variable {α : Type} [DecidableEq α]

/-- `s >= o` holds exactly when every element of `o` is in `s`. -/
theorem C24_ge_spec (s o : List α) : ge s o = true ↔ ∀ x ∈ o, x ∈ s := by
  simp [ge]

/-- `s <= o` holds exactly when every element of `s` is in `o`. -/
theorem C24_le_spec (s o : List α) : le s o = true ↔ ∀ x ∈ s, x ∈ o := by
  simp [le]

/-- repeats in the argument never change `>=`: the raw list and the set built from it give the same answer -/
theorem C24_ge_ofList (s o : List α) : ge s (ofList o) = ge s o := by
  rw [Bool.eq_iff_iff, C24_ge_spec, C24_ge_spec]
  simp [mem_ofList]

/-- repeats in the argument never change `<=` -/
theorem C24_le_ofList (s o : List α) : le s (ofList o) = le s o := by
  rw [Bool.eq_iff_iff, C24_le_spec, C24_le_spec]
  simp [mem_ofList]

/-- non-vacuity / the seeded case: a list longer than the set, with a repeat, is contained in it -/
example : ge ["a", "c", "b"] ["a", "a", "b", "c"] = true := by decide

end DAVerif.OSet
