import DAVerif.Proofs.RefSem
import DAVerif.Proofs.ThetaWin
import DAVerif.Proofs.BuilderBasics
import DAVerif.Sem.Theta
/-!
# C27  Windowed and ordered window functions are computed per ordered partition  (executor model)

Specification side (`Spec/Ref.lean`): `Ref.windowOf partition order reverse rows i` – the positions of the rows
of row `i`'s partition (equal cells in every partition column, null equal to null), stably sorted by
`Ref.windowLe` (lexicographic over the order columns, a column listed in `reverse` descending, nulls last) – and
`Ref.windowRef` – the window function applied to the argument values in that order and to the row's position.
Readable meanings of the window functions: `Ref.total`, `Ref.product`, `Ref.IsMax`, `Ref.IsMin`, `Ref.numbers`.

Part 1 relates `sem` (both configurations, every `Θ`) to `windowRef`; Part 2 says what the *concrete*
interpretation `Theta.win` (the transcription of what pandas computes, tied to `pandas_base.py` by suite k4_sem)
computes for each window function on an ordered partition, including the documented pandas behaviour at null
arguments (finding D22: SQL carries the running value there).
-/
namespace DAVerif
open RefSem

/-! ## Part 1: the executor model computes the reference window value -/

/-- **C27, the executor computes the reference.**  In the result of a windowed extend, for every row `i` and
every assignment `c = f(arg, consts…)`, the cell of row `i` in column `c` is `Ref.windowRef`: `f` applied to the
argument values of the rows of row `i`'s partition, in the declared window order (reversed columns descending),
and to the position of row `i` in that order.  No hypothesis on the data: rows that tie on every order column are
taken in input order on both sides.  (Assignment targets pairwise different, as the builder checks.) -/
theorem C27_sem_is_ref {Θ : Interp} {cfg : SemCfg} {env : Env} {q : Ops} {ops : Assign}
    {part od rv : List String} {t tq : Table} (h : sem Θ cfg env (.extend q ops part od rv true) = .ok t)
    (hq : sem Θ cfg env q = .ok tq) (hn : (ops.map (·.1)).Nodup) :
    ∀ i < tq.rows.length, ∀ kv ∈ ops,
      (t.rows.getD i []).get kv.1 =
        Ref.windowRef Θ (opName kv.2) (constArgs kv.2) (Ref.callArg kv.2) part od rv tq.rows i := by
  obtain ⟨tq', hq', rfl⟩ := sem_extend_window_ok h
  rw [hq] at hq'
  cases hq'
  intro i hi kv hkv
  exact semExtendWindow_get_ref Θ part od rv tq hn hi hkv
    (mem_appendNew.mpr (Or.inr (List.mem_map_of_mem hkv)))

/-- **The model's row comparison is the textbook window order** of the specification. -/
theorem C27_model_order_is_spec (order reverse : List String) (a b : Row) :
    rowLe order reverse a b = Ref.windowLe order reverse a b :=
  rowLe_eq_windowLe order reverse a b

/-- **C27, what the window is.**  The reference window of row `i` (a) consists of exactly the positions of the
rows of its partition, each once, row `i` among them; (b) is sorted: for a position standing before another, the
two rows agree on all order columns, or at the first order column where they differ the earlier row has the
smaller cell – the **larger** cell if that column is listed in `reverse` –, a null cell coming after every value
in both directions (`LexLe`, `CellBefore` of `Spec/Perm.lean`). -/
theorem C27_window_sorted (part od rv : List String) (rows : List Row) (i : Nat) (hi : i < rows.length) :
    (∀ j, j ∈ Ref.windowOf part od rv rows i ↔
      j < rows.length ∧ ∀ c ∈ part, (rows.getD j []).get c = (rows.getD i []).get c) ∧
    (Ref.windowOf part od rv rows i).Nodup ∧ i ∈ Ref.windowOf part od rv rows i ∧
    (Ref.windowOf part od rv rows i).Pairwise
      (fun j k => LexLe od rv (rows.getD j []) (rows.getD k [])) := by
  refine ⟨fun j => mem_windowOf, nodup_windowOf _ _ _ _ _, self_mem_windowOf hi, ?_⟩
  refine (sorted_windowOf part od rv rows i).imp ?_
  intro j k hjk
  rw [← rowLe_eq_windowLe] at hjk
  exact (rowLe_iff_lexLe od rv _ _).mp hjk

/-- **C27, a reversed column sorts descending.**  For one order column `c`: row `a` may stand before row `b` iff
their cells are equal, or `b`'s cell is null and `a`'s is not (nulls last in both directions), or both are values
and `a`'s is smaller – when `c` is listed in `reverse`: **larger** – than `b`'s. -/
theorem C27_reverse (c : String) (reverse : List String) (a b : Row) :
    rowLe [c] reverse a b = true ↔
      a.get c = b.get c ∨ ((a.get c).isNull = false ∧ (b.get c).isNull = true) ∨
      ((a.get c).isNull = false ∧ (b.get c).isNull = false ∧
        if c ∈ reverse then Val.lt (b.get c) (a.get c) = true else Val.lt (a.get c) (b.get c) = true) := by
  rw [rowLe_iff_lexLe]
  constructor
  · rintro (h | ⟨pre, c', post, hcs, _, hne, hb⟩)
    · exact Or.inl (h c (by simp))
    · have hc : c' = c ∧ pre = [] := by
        cases pre with
        | nil => simp at hcs; exact ⟨hcs.1.symm, rfl⟩
        | cons x xs => cases xs <;> simp at hcs
      obtain ⟨rfl, rfl⟩ := hc
      rcases hb with hb | hb
      · exact Or.inr (Or.inl hb)
      · refine Or.inr (Or.inr ⟨hb.1, hb.2.1, ?_⟩)
        have := hb.2.2
        by_cases hr : c' ∈ reverse
        · simpa [hr] using this
        · simpa [hr] using this
  · rintro (h | h | h)
    · exact Or.inl (fun d hd => by simp only [List.mem_singleton] at hd; subst hd; exact h)
    · by_cases he : a.get c = b.get c
      · exact Or.inl (fun d hd => by simp only [List.mem_singleton] at hd; subst hd; exact he)
      · exact Or.inr ⟨[], c, [], rfl, by simp, he, Or.inl h⟩
    · by_cases he : a.get c = b.get c
      · exact Or.inl (fun d hd => by simp only [List.mem_singleton] at hd; subst hd; exact he)
      · refine Or.inr ⟨[], c, [], rfl, by simp, he, Or.inr ⟨h.1, h.2.1, ?_⟩⟩
        by_cases hr : c ∈ reverse
        · simpa [hr] using h.2.2
        · simpa [hr] using h.2.2

/-- the rows of the reference window are the partition of the row, sorted by the model's `sortRows` -/
theorem C27_window_rows (part od rv : List String) (rows : List Row) (i : Nat) :
    (Ref.windowOf part od rv rows i).map (fun j => rows.getD j []) =
      sortRows od rv (partRows part rows (rows.getD i [])) :=
  windowOf_rows_eq part od rv rows i

/-- **C27, total orders determine the window.**  When no two rows of one partition tie on the order columns
(`WinTotal`), the sequence of rows in the window of row `i` is the *only* arrangement of its partition that is
sorted by the declared order: any permutation `l` of the partition's rows that is sorted equals it.  Hence it does
not depend on the order of the input rows, nor on how ties would be broken. -/
theorem C27_total_order_window_unique {part od rv : List String} {rows : List Row} (htot : WinTotal part od rv rows)
    (i : Nat) (l : List Row) (hp : l.Perm (rows.filter (fun r => Ref.samePartition part r (rows.getD i []))))
    (hs : l.Pairwise (LexLe od rv)) :
    (Ref.windowOf part od rv rows i).map (fun j => rows.getD j []) = l := by
  rw [windowOf_rows_eq]
  have hpart : rows.filter (fun r => Ref.samePartition part r (rows.getD i [])) = partRows part rows (rows.getD i []) := by
    simp only [partRows]
    apply List.filter_congr
    intro r _
    exact (keyOf_beq_eq_samePartition part r _).symm
  rw [hpart] at hp
  exact sortRows_eq_of_sorted_perm (htot.partRows_total _) hp
    (hs.imp (fun {a b} hab => (rowLe_iff_lexLe od rv a b).mpr hab))

/-- **C27, total orders: every value is independent of the input row order.**  When the window order is total
within each partition, permuting the input rows permutes the result: each row gets the same values.  (Corollary of
C18's `semExtendWindow_equiv`.) -/
theorem C27_total_order_unique (Θ : Interp) (ops : Assign) (part od rv : List String) {t t' : Table} (h : t ≈ t')
    (oc : List String) (htot : WinTotal part od rv t.rows) :
    semExtendWindow Θ ops part od rv t oc ≈ semExtendWindow Θ ops part od rv t' oc :=
  semExtendWindow_equiv Θ ops part od rv h oc (Or.inl htot)

/-! ## Part 2: what the concrete interpretation `Theta.win` computes on an ordered partition

`vs` = the argument values of the partition in window order, `i` = the position of the current row. -/

/-- `_row_number()`: the 1-based position in the window order -/
theorem win_row_number_spec (cargs vs : List Val) (i : Nat) : Theta.win "_row_number" cargs vs i = .num (i + 1) := rfl

/-- `cumcount()`: the 0-based position in the window order (pandas `GroupBy.cumcount`; SQL's `COUNT(x)` window is a
different function – the catalogue marks it) -/
theorem win_cumcount_spec (cargs vs : List Val) (i : Nat) : Theta.win "cumcount" cargs vs i = .num i := rfl

/-- `cumsum`, null argument: pandas yields null **at that row** (and skips the null in later rows' sums); SQL
carries the running value – finding D22 -/
theorem win_cumsum_null {cargs vs : List Val} {i : Nat} (h : vs.getD i .null = .null) :
    Theta.win "cumsum" cargs vs i = .null := cumulate_null h

/-- `cumsum`: at a non-null argument, the sum of the (non-null) numbers up to and including position `i` -/
theorem win_cumsum_spec {cargs vs : List Val} {i : Nat} (h : vs.getD i .null ≠ .null)
    (hne : Ref.numbers (vs.take (i + 1)) ≠ []) :
    Theta.win "cumsum" cargs vs i = .num (Ref.total (Ref.numbers (vs.take (i + 1)))) := by
  cases hx : Ref.numbers (vs.take (i + 1)) with
  | nil => exact absurd hx hne
  | cons x xs => exact (cumulate_cons h hx).trans (by rw [foldl_add_eq_total])

/-- `cumsum` on a partition of numbers without nulls: the sum of the first `i + 1` values -/
theorem win_cumsum_nonull (cargs : List Val) (qs : List Rat) {i : Nat} (hi : i < qs.length) :
    Theta.win "cumsum" cargs (qs.map Val.num) i = .num (Ref.total (qs.take (i + 1))) := by
  have hnum : ∀ l : List Rat, Ref.numbers (l.map Val.num) = l := by
    intro l; induction l with
    | nil => rfl
    | cons x xs ih => simp only [Ref.numbers, List.map_cons, List.filterMap_cons] at ih ⊢; rw [ih]
  have h1 : (qs.map Val.num).getD i .null ≠ .null := by
    rw [List.getD_eq_getElem?_getD, List.getElem?_map, List.getElem?_eq_getElem hi]
    simp
  have h2 : Ref.numbers ((qs.map Val.num).take (i + 1)) = qs.take (i + 1) := by
    rw [← List.map_take, hnum]
  rw [win_cumsum_spec h1 (by rw [h2]; cases qs with | nil => cases hi | cons => simp), h2]

theorem win_cumprod_null {cargs vs : List Val} {i : Nat} (h : vs.getD i .null = .null) :
    Theta.win "cumprod" cargs vs i = .null := cumulate_null h

/-- `cumprod`: at a non-null argument, the product of the (non-null) numbers up to and including position `i` -/
theorem win_cumprod_spec {cargs vs : List Val} {i : Nat} (h : vs.getD i .null ≠ .null)
    (hne : Ref.numbers (vs.take (i + 1)) ≠ []) :
    Theta.win "cumprod" cargs vs i = .num (Ref.product (Ref.numbers (vs.take (i + 1)))) := by
  cases hx : Ref.numbers (vs.take (i + 1)) with
  | nil => exact absurd hx hne
  | cons x xs => exact (cumulate_cons h hx).trans (by rw [foldl_mul_eq_product])

theorem win_cummax_null {cargs vs : List Val} {i : Nat} (h : vs.getD i .null = .null) :
    Theta.win "cummax" cargs vs i = .null := cumulate_null h

/-- `cummax`: at a non-null argument, the greatest of the (non-null) numbers up to and including position `i` -/
theorem win_cummax_spec {cargs vs : List Val} {i : Nat} (h : vs.getD i .null ≠ .null)
    (hne : Ref.numbers (vs.take (i + 1)) ≠ []) :
    ∃ m, Theta.win "cummax" cargs vs i = .num m ∧ Ref.IsMax m (Ref.numbers (vs.take (i + 1))) := by
  cases hx : Ref.numbers (vs.take (i + 1)) with
  | nil => exact absurd hx hne
  | cons x xs => exact ⟨_, cumulate_cons h hx, foldl_max_isMax xs x⟩

theorem win_cummin_null {cargs vs : List Val} {i : Nat} (h : vs.getD i .null = .null) :
    Theta.win "cummin" cargs vs i = .null := cumulate_null h

/-- `cummin`: at a non-null argument, the least of the (non-null) numbers up to and including position `i` -/
theorem win_cummin_spec {cargs vs : List Val} {i : Nat} (h : vs.getD i .null ≠ .null)
    (hne : Ref.numbers (vs.take (i + 1)) ≠ []) :
    ∃ m, Theta.win "cummin" cargs vs i = .num m ∧ Ref.IsMin m (Ref.numbers (vs.take (i + 1))) := by
  cases hx : Ref.numbers (vs.take (i + 1)) with
  | nil => exact absurd hx hne
  | cons x xs => exact ⟨_, cumulate_cons h hx, foldl_min_isMin xs x⟩

/-- `shift()`: the argument of the previous row in window order, null for the first row -/
theorem win_shift_default (vs : List Val) (i : Nat) :
    Theta.win "shift" [] vs i = if i = 0 then .null else vs.getD (i - 1) .null := by
  simp only [Theta.win]
  cases i <;> simp

/-- `shift(k)` for an integer `k`: the argument of the row `k` positions earlier in window order (later for
negative `k`); null when there is no such row -/
theorem win_shift_spec (k : Int) (vs : List Val) (i : Nat) :
    Theta.win "shift" [.num (k : Rat)] vs i =
      if (i : Int) - k < 0 then .null else vs.getD ((i : Int) - k).toNat .null := by
  have hd : ((k : Rat)).den = 1 := Rat.den_intCast k
  have hn : ((k : Rat)).num = k := Rat.num_intCast k
  show (if ((k : Rat).den == 1) = true then
      (if (i : Int) - (k : Rat).num < 0 then Val.null else vs.getD ((i : Int) - (k : Rat).num).toNat .null)
    else .null) = _
  rw [hd, hn]
  rfl

/-- `rank()` (pandas' default method `average`): null at a null argument -/
theorem win_rank_null {cargs vs : List Val} {i : Nat} (h : vs.getD i .null = .null) :
    Theta.win "rank" cargs vs i = .null := by
  simp only [Theta.win, Theta.rankAvg, h]

/-- `rank()`: at a non-null argument `v`, with `less` non-null values of the partition smaller than `v` and `eq`
equal to it, the average of the ranks `less + 1, …, less + eq` the equal values occupy:
`((less + 1) + (less + eq)) / 2` -/
theorem win_rank_spec {cargs vs : List Val} {i : Nat} {v : Val} (hv : vs.getD i .null = v) (h : v ≠ .null) :
    Theta.win "rank" cargs vs i =
      .num ((((vs.filter (fun w => !w.isNull && Val.lt w v)).length : Rat) + 1 +
        (((vs.filter (fun w => !w.isNull && Val.lt w v)).length : Rat) +
          ((vs.filter (fun w => !w.isNull && w == v)).length : Nat))) / 2) := by
  simp only [Theta.win, Theta.rankAvg, hv, Theta.nonNull, List.filter_filter]
  cases v with
  | null => exact absurd rfl h
  | _ => simp only [Bool.and_comm]

/-- `ffill()`: the last non-null argument at or before the row; null if there is none -/
theorem win_ffill_spec (cargs vs : List Val) (i : Nat) :
    Theta.win "ffill" cargs vs i = (((vs.take (i + 1)).filter (fun v => !v.isNull)).getLast?).getD .null := rfl

/-- `bfill()`: the first non-null argument at or after the row; null if there is none -/
theorem win_bfill_spec (cargs vs : List Val) (i : Nat) :
    Theta.win "bfill" cargs vs i = (((vs.drop i).filter (fun v => !v.isNull)).head?).getD .null := rfl

/-- `first()` / `last()` as window functions: the first / last **non-null** argument of the whole partition in
window order (pandas `GroupBy.first/last` skip nulls), the same for every row -/
theorem win_first_spec (cargs vs : List Val) (i : Nat) :
    Theta.win "first" cargs vs i = (vs.filter (fun v => !v.isNull)).headD .null := rfl
theorem win_last_spec (cargs vs : List Val) (i : Nat) :
    Theta.win "last" cargs vs i = (vs.filter (fun v => !v.isNull)).getLastD .null := rfl

/-- **group aggregates broadcast**: `sum mean min max count size nunique median var …` used as window functions
are the aggregate of the whole partition, the same for every row -/
theorem win_broadcast_spec (cargs vs : List Val) (i : Nat) :
    Theta.win "sum" cargs vs i = Theta.agg "sum" vs ∧ Theta.win "mean" cargs vs i = Theta.agg "mean" vs ∧
    Theta.win "min" cargs vs i = Theta.agg "min" vs ∧ Theta.win "max" cargs vs i = Theta.agg "max" vs ∧
    Theta.win "count" cargs vs i = Theta.agg "count" vs ∧ Theta.win "size" cargs vs i = Theta.agg "size" vs ∧
    Theta.win "_size" cargs vs i = Theta.agg "_size" vs ∧ Theta.win "nunique" cargs vs i = Theta.agg "nunique" vs ∧
    Theta.win "median" cargs vs i = Theta.agg "median" vs ∧ Theta.win "var" cargs vs i = Theta.agg "var" vs :=
  ⟨rfl, rfl, rfl, rfl, rfl, rfl, rfl, rfl, rfl, rfl⟩

/-- the sum aggregate is the total of the non-null numbers; `count` / `size` count non-null values / rows -/
theorem agg_sum_spec (vs : List Val) : Theta.agg "sum" vs = .num (Ref.total (Ref.numbers vs)) := by
  simp only [Theta.agg, Theta.sumR, nums_eq_numbers]
  cases h : Ref.numbers vs with
  | nil => rfl
  | cons x xs =>
    simp only [List.foldl_cons, Rat.zero_add, foldl_add_eq_total]

/-! ## Non-vacuity -/
namespace C27Ex

def Θc : Interp := Theta.concrete (fun _ t => .ok t)

/-- `g, o, x`: two partitions (`a` and null), order column `o` -/
def rows : List Row :=
  [[("g", .str "a"), ("o", .num 2), ("x", .num 10)], [("g", .null), ("o", .num 1), ("x", .num 1)],
   [("g", .str "a"), ("o", .num 1), ("x", .num 20)], [("g", .null), ("o", .num 3), ("x", .null)],
   [("g", .str "a"), ("o", .num 3), ("x", .num 30)]]

example : WinTotal ["g"] ["o"] ["o"] rows := by decide

/-- ascending by `o`: the window of row 0 (partition `a`) is rows 2, 0, 4; descending: 4, 0, 2 -/
example : (Ref.windowOf ["g"] ["o"] [] rows 0).map (fun j => rows.getD j []) =
    [rows.getD 2 [], rows.getD 0 [], rows.getD 4 []] :=
  C27_total_order_window_unique (by decide) 0 _ (by decide)
    ((by decide : List.Pairwise (fun a b => rowLe ["o"] [] a b = true)
      [rows.getD 2 [], rows.getD 0 [], rows.getD 4 []]).imp (fun {a b} h => (rowLe_iff_lexLe _ _ a b).mp h))

/-- descending (`o` listed in `reverse`): the same partition in the opposite order -/
example : (Ref.windowOf ["g"] ["o"] ["o"] rows 0).map (fun j => rows.getD j []) =
    [rows.getD 4 [], rows.getD 0 [], rows.getD 2 []] :=
  C27_total_order_window_unique (by decide) 0 _ (by decide)
    ((by decide : List.Pairwise (fun a b => rowLe ["o"] ["o"] a b = true)
      [rows.getD 4 [], rows.getD 0 [], rows.getD 2 []]).imp (fun {a b} h => (rowLe_iff_lexLe _ _ a b).mp h))

/-- running sums over a partition with a null argument: null at the null, the null skipped afterwards -/
example : (List.range 3).map (Theta.win "cumsum" [] [.num 1, .null, .num 3]) = [.num 1, .null, .num 4] := by
  decide +kernel

/-- the hypotheses of `win_cumsum_spec` hold at position 2 of that partition -/
example : Theta.win "cumsum" [] [.num 1, .null, .num 3] 2 = .num (Ref.total [1, 3]) :=
  win_cumsum_spec (by decide) (by decide)

def env : Env := [("d", ⟨["g", "o", "x"], rows⟩)]
def d : Ops := .table "d" ["g", "o", "x"]
/-- running sum of `x` per `g`, in descending order of `o` -/
def p : Ops := .extend d [("c", .app "cumsum" [.col "x"] false true)] ["g"] ["o"] ["o"] true

/-- `C27_sem_is_ref` applies to `p` on `env` (both configurations): the evaluation succeeds and every cell of `c` is
the reference window value -/
example (cfg : SemCfg) : ∃ t, sem Θc cfg env p = .ok t ∧ t.rows.length = 5 ∧ ∀ i < 5,
    (t.rows.getD i []).get "c" =
      Ref.windowRef Θc "cumsum" [] (Ref.callArg (.app "cumsum" [.col "x"] false true)) ["g"] ["o"] ["o"] rows i := by
  refine ⟨_, rfl, by simp [semExtendWindow, rows, Table.selectCols], fun i hi => ?_⟩
  exact C27_sem_is_ref (cfg := cfg) (env := env) (q := d) (tq := ⟨["g", "o", "x"], rows⟩) rfl rfl (by decide) i hi
    ("c", .app "cumsum" [.col "x"] false true) (by simp)

end C27Ex
end DAVerif
