import DAVerif.Proofs.CC
/-!
# C23 — connected_components labels each edge by its component's least vertex

"For every list of edges, the result labels edge i with the least vertex of the connected component
containing both of its endpoints.  Two edges get the same label exactly when they are in the same component."

Property theorems only.  Model: `Core/CC.lean` (the algorithm as written: dict of references to mutable
`Component` objects in a heap).  Specification side: `Spec/Conn.lean` (`Conn es a b`, the reflexive-symmetric-
transitive closure of the edge relation; `IsLeastOfClass es a m`).  Lemmas and the loop invariant `Inv`:
`Proofs/CC.lean`.

Every theorem quantifies over
* every vertex type `V` with decidable equality and a linear order (`Std.IsLinearOrder`, `<` the strict part
  of `≤`) – the scope "hashable, ordered vertex values",
* every pair of lists `f`, `g` of any lengths (`zip` stops at the shorter list while the result is read off
  all of `f`; the length hypothesis `f.length = g.length` of the docstring is only needed to speak about
  `g[i]`),
* every enumeration `ks` of the Python set `keys` (hash order), as long as it contains the vertices.
A result `none` of the model is a `KeyError`; the theorems show it never occurs.
-/
namespace DAVerif.CC
open DAVerif.CCSpec

variable {V : Type} [DecidableEq V] [LE V] [LT V] [DecidableLT V] [Std.IsLinearOrder V] [Std.LawfulOrderLT V]

/-- **C23 (invariant over prefixes).**  For every `n`, running the loop over the first `n` edges of
`zip(f, g)` does not raise and leaves a state in which every key references a live `Component` whose `items`
are exactly the key's connected component w.r.t. those `n` edges, whose `id` is the least vertex of that
component, and which is shared (same object) by all members of the component (`Inv`, `KeyOk` in
`Proofs/CC.lean`). -/
theorem C23_invariant (ks f g : List V) (hks : ∀ v, v ∈ f ∨ v ∈ g → v ∈ ks) (n : Nat) :
    ∃ σ, runEdges (init ks) ((f.zip g).take n) = some σ ∧ Inv ks ((f.zip g).take n) σ := by
  have hz : ∀ e ∈ (f.zip g).take n, e.1 ∈ ks ∧ e.2 ∈ ks := by
    rintro ⟨a, b⟩ he
    have := List.of_mem_zip (List.mem_of_mem_take he)
    exact ⟨hks a (Or.inl this.1), hks b (Or.inr this.2)⟩
  obtain ⟨σ, hs, hinv⟩ := inv_run _ hz (inv_init ks)
  exact ⟨σ, hs, by simpa using hinv⟩

/-- **C23 (labels, general form).**  For lists of any lengths and any enumeration `ks` of the key set:
the call does not raise, returns one label per element of `f`, and for every position `i`
* `labels[i]` is the least vertex of the connected component of `f[i]` in the graph with edges `zip(f, g)`
  (it is connected to `f[i]`, and `≤` every vertex connected to `f[i]`);
* if edge `i` exists (`i < g.length`), `g[i]` is in that same component, so the label is the least vertex of
  the component containing both endpoints.
For `i ≥ g.length` (`f` longer than `g`) there is no edge `i`: `zip` dropped it, and `f[i]` is labelled by
the least vertex of its component w.r.t. the edges that were kept. -/
theorem C23_label_of_keys (ks f g : List V) (hks : ∀ v, v ∈ f ∨ v ∈ g → v ∈ ks) :
    ∃ labels, connectedComponentsWith ks f g = some labels ∧ labels.length = f.length ∧
      ∀ i (hf : i < f.length) (hl : i < labels.length),
        IsLeastOfClass (f.zip g) f[i] labels[i] ∧
        ∀ (hg : i < g.length), Conn (f.zip g) f[i] g[i] ∧ IsLeastOfClass (f.zip g) g[i] labels[i] := by
  obtain ⟨ls, h1, h2, h3⟩ := cc_spec ks f g hks
  refine ⟨ls, h1, h2, fun i hf hl => ⟨h3 i hf hl, fun hg => ?_⟩⟩
  have hc : Conn (f.zip g) f[i] g[i] := by
    refine .edge ?_
    have hz : i < (f.zip g).length := by simp [List.length_zip]; omega
    have := List.getElem_mem hz
    rwa [List.getElem_zip] at this
  exact ⟨hc, isLeast_congr hc (h3 i hf hl)⟩

/-- **C23 (totality).**  `connected_components(f, g)` never raises `KeyError` and returns `len(f)` labels,
whatever the two lengths are. -/
theorem C23_total (f g : List V) :
    ∃ labels, connectedComponents f g = some labels ∧ labels.length = f.length := by
  obtain ⟨ls, h1, h2, _⟩ := C23_label_of_keys (keysOf f g) f g (fun v hv => mem_keysOf.mpr hv)
  exact ⟨ls, h1, h2⟩

/-- **C23 (labels).**  For edge lists `f`, `g` of equal length, `connected_components(f, g)` returns `labels`
with: both endpoints of edge `i` are in one component; `labels[i]` is a vertex of that component (connected
to `f[i]` and to `g[i]`); and `labels[i] ≤ v` for every vertex `v` of that component.  I.e. edge `i` is
labelled with the least vertex of the connected component containing both of its endpoints. -/
theorem C23_label (f g : List V) (hlen : f.length = g.length) :
    ∃ labels, connectedComponents f g = some labels ∧ labels.length = f.length ∧
      ∀ i (hf : i < f.length) (hl : i < labels.length),
        Conn (f.zip g) f[i] (g[i]'(hlen ▸ hf)) ∧
        Conn (f.zip g) f[i] labels[i] ∧ Conn (f.zip g) (g[i]'(hlen ▸ hf)) labels[i] ∧
        (∀ v, Conn (f.zip g) f[i] v → labels[i] ≤ v) ∧
        (∀ v, Conn (f.zip g) (g[i]'(hlen ▸ hf)) v → labels[i] ≤ v) := by
  obtain ⟨ls, h1, h2, h3⟩ := C23_label_of_keys (keysOf f g) f g (fun v hv => mem_keysOf.mpr hv)
  refine ⟨ls, h1, h2, fun i hf hl => ?_⟩
  obtain ⟨a, b⟩ := h3 i hf hl
  obtain ⟨c, d⟩ := b (hlen ▸ hf)
  exact ⟨c, a.1, d.1, a.2, d.2⟩

/-- **C23 (same label ⇔ same component).**  In any result `labels` of the call, positions `i` and `j` carry
the same label exactly when `f[i]` and `f[j]` (hence, for real edges, all four endpoints) are connected. -/
theorem C23_same_label_iff (ks f g labels : List V) (hks : ∀ v, v ∈ f ∨ v ∈ g → v ∈ ks)
    (hrun : connectedComponentsWith ks f g = some labels)
    (i j : Nat) (hi : i < f.length) (hj : j < f.length) (hi' : i < labels.length) (hj' : j < labels.length) :
    labels[i] = labels[j] ↔ Conn (f.zip g) f[i] f[j] := by
  obtain ⟨ls, h1, _, h3⟩ := cc_spec ks f g hks
  rw [hrun] at h1
  injection h1 with h1
  subst h1
  have li := h3 i hi hi'
  have lj := h3 j hj hj'
  constructor
  · intro e
    rw [e] at li
    exact li.1.trans lj.1.symm
  · intro hc
    exact isLeast_unique (isLeast_congr hc li) lj

/-- **C23 (hash order of `keys` is irrelevant).**  Two enumerations of key sets containing the vertices give
the same result. -/
theorem C23_keys_order_irrelevant (ks ks' f g : List V) (hks : ∀ v, v ∈ f ∨ v ∈ g → v ∈ ks)
    (hks' : ∀ v, v ∈ f ∨ v ∈ g → v ∈ ks') :
    connectedComponentsWith ks f g = connectedComponentsWith ks' f g := by
  obtain ⟨l, h1, h2, h3⟩ := cc_spec ks f g hks
  obtain ⟨l', h1', h2', h3'⟩ := cc_spec ks' f g hks'
  rw [h1, h1']
  congr 1
  apply List.ext_getElem (by omega)
  intro i hi hi'
  exact isLeast_unique (h3 i (by omega) hi) (h3' i (by omega) hi')

/-! ## Non-vacuity: the hypotheses are satisfiable and the statements say something on concrete graphs -/

-- the docstring example of the function, and the string variant
example : connectedComponents [1, 4, 6, 2, 1] ([2, 5, 7, 3, 7] : List Int) = some [1, 4, 1, 1, 1] := by decide
example : connectedComponents ["b", "a", "z"] ["c", "b", "z"] = some ["a", "a", "z"] := by decide
-- unequal lengths: zip truncates, the result still has len(f) entries
example : connectedComponents [3, 2, 1, 1] ([2, 9] : List Int) = some [2, 2, 1, 1] := by decide
-- a key set that misses a vertex is the only way to `none` (KeyError): the hypothesis `hks` is not idle
example : connectedComponentsWith [1] [1] ([2] : List Int) = none := by decide
-- the order classes are inhabited by the vertex types the driver uses
example := C23_label (V := Int) [1, 4, 6, 2, 1] [2, 5, 7, 3, 7] rfl
example := C23_label (V := String) ["b", "a"] ["c", "b"] rfl
-- `hks` holds for the enumeration the model uses, and for any permutation/superset of it
example (f g : List Int) : ∀ v, v ∈ f ∨ v ∈ g → v ∈ keysOf f g := fun _ hv => mem_keysOf.mpr hv
-- both directions of `C23_same_label_iff` are exercised: edges 0 and 3 connected (via 2–3), edge 1 separate
example : Conn ([1, 4, 6, 2, 1].zip ([2, 5, 7, 3, 7] : List Int)) 1 2 := .edge (by decide)
example :
    let f : List Int := [1, 4, 6, 2, 1]; let g : List Int := [2, 5, 7, 3, 7]
    ∃ labels, connectedComponentsWith (keysOf f g) f g = some labels ∧
      labels[0]? = labels[3]? ∧ labels[0]? ≠ labels[1]? := ⟨[1, 4, 1, 1, 1], by decide, by decide, by decide⟩

end DAVerif.CC
