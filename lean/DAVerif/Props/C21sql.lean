import DAVerif.Proofs.SqlReach
import DAVerif.Proofs.SolRankSql
import DAVerif.Proofs.SolRepSql
import DAVerif.Proofs.SolLocfSql
import DAVerif.Proofs.SolSqlWitness
import DAVerif.Proofs.SolRankCmp
import DAVerif.Proofs.SolLocfCmp
import DAVerif.Props.C21
/-!
# C21, SQL side — the helpers of `solutions.py` compute on SQLite what their documentation promises

Property theorems only.  `Props/C21.lean` proves, for the Pandas executor model (`sem`), that the pipelines built by
`rank_to_average`, `last_observed_carried_forward`, `replicate_rows_query`, `def_multi_column_map` evaluate to the
tables `Spec/Solutions.lean` names.  This file is about the **SQL** the same pipelines are translated to:
`toNearSql cfg p = .ok q` (the model of `ops.to_sql(db_model)`, `Sql/ToNearSql.lean`) and `semSql Θ ec env q` (the model
of running the query, `Sql/Sem.lean`; `ec` = where the engine sorts NULL).

How they are obtained: the translation theorems (`Props/C04merge.lean` for the unary fragment with extend merges,
`Proofs/SqlJoinMerge.lean` – the same induction with `natural_join` – for the two helpers that join) are instantiated on
the tree each helper builds (`Proofs/Sol*Sql.lean`: fragment, `WF` / `SqlWF` / `JoinWF` from `Reachable`, `MapsOK`,
`EnvOK`, and, where used, the data-side scope `OrdersNullFree`), and composed with what the pipeline denotes: stage A
(`semSql q` = `semE ec Θ SemCfg.ref env p`, row by row, no hypothesis on data) with the helper theorems for `semG le`
(`Proofs/Sol*Cmp.lean`), or the list-equality theorem under `OrdersNullFree` with the Pandas-side theorems of
`Props/C21.lean`.  The translation theorems speak about one interpretation `Θ` on both sides; the Pandas-side theorems of `Props/C21.lean` are about the
Pandas interpretation `Theta.concrete`.  They are transferred to every interpretation that satisfies the few laws a
helper needs (`RankSem`, `LocfSem`; `PowerSem` / `LtSem` already in `Props/C21.lean`), and these laws are proved for the
SQLite-side interpretations `ThetaSql.concrete` / `thetaSqlSol` (`C21_sql_interp_instances`).

Every statement holds for **every** dialect configuration `cfg` (in particular `SqlCfg.sqlite`: extend merges on, RIGHT
/ FULL joins emulated – the helpers only use INNER and LEFT joins) and both NULL placements `ec`; the `…_sqlite…`
corollaries instantiate `cfg := SqlCfg.sqlite`, `ec := EngineCfg.sqlite`, `Θ := thetaSqlSol`.

## Which order, and what is guarded

The specification takes the row comparison as a parameter (`Spec/Solutions.lean`: "the engines differ in where they sort
missing values, the documentation does not say; the theorems instantiate `le` with the comparison of the engine they
are about").  On SQL that is `sqlRowLe ec` (SQLite: NULL first; `Sql/Sem.lean`).

* **Full statements** (`C21_rank_to_average_sql`, `C21_locf_sql_partial`): the SQL computes `rankSpec` / `locfSpec`
  **for the engine's own comparison** `sqlRowLe ec order_by []` – every input, missing order keys and ties included.  They
  rest on `Proofs/SolRankCmp.lean` / `Proofs/SolLocfCmp.lean`: the Pandas-side proofs ported from `sem` (= `semG rowLe`)
  to `semG le` for every total lexicographic preorder `le` (`CmpLex`; instances `rowLe`, `sqlRowLe ec`), and on stage A
  of the translation proof, which needs no hypothesis on the data.
* `last_observed_carried_forward` keeps one guard, `G_part`: **no `partition_by` cell is missing** (known finding
  `C21-locf-null-partition`).  The helper joins on `partition_by ++ [rank]`; NULL keys never match in SQL, so the rows of
  a partition whose key is missing are left unfilled (`C21_locf_partition_null_necessary`).
* **Same table as on Pandas** (`C21_rank_to_average_sql_pandas_order`, `C21_locf_sql_pandas_order_partial`): under
  `G_order` – **no `order_by` cell is missing** – the SQL result is the table the *Pandas-side* theorems name (comparison
  `rowLe`: missing values last), rows in the same order for `rank_to_average`.  `G_order` is necessary for that:
  `C21_rank_order_null_necessary`, `C21_locf_order_null_necessary` (SQLite sorts NULL first; the real library on sqlite3
  behaves like the model).  These are obtained the short way, from `Sql.C01_translation_exact_merges` /
  `translation_exact_joins_merges` (`OrdersNullFree`) and the theorems of `Props/C21.lean`.
* `replicate_rows_query`: the hypotheses of the Pandas-side theorem (`hlog`, counts in `1 … max_count`), nothing new.
* `def_multi_column_map`: `convert_records` is outside every SQL fragment that has a translation theorem, and
  `Sql/ToNearSql.lean` does not model its translation (`C21_multi_column_map_outside_sql`): nothing is proved about its
  SQL; it stays covered by the sampled suites only.
-/
namespace DAVerif
open DAVerif.Solutions DAVerif.Spec21 DAVerif.Sol DAVerif.Sql DAVerif.Sol21Sql
open DAVerif.Sol21Sql.Cmp (CmpLex cmpLex_rowLe cmpLex_sql)

/-! ## the interpretations -/

/-- The laws the SQL-side theorems ask of an interpretation hold for the Pandas-side interpretation
`Theta.concrete cv` and for the two SQLite-side interpretations (`ThetaSql.concrete`; `thetaSqlSol` = the same with the
stand-ins for `log` / `as_int64` / `concat` that `replicate_rows_query` needs). -/
theorem C21_sql_interp_instances (cv : RecMap → Table → Except Err Table) :
    (RankSem (Theta.concrete cv) ∧ RankSem ThetaSql.concrete ∧ RankSem thetaSqlSol) ∧
    (LocfSem (Theta.concrete cv) ∧ LocfSem ThetaSql.concrete ∧ LocfSem thetaSqlSol) :=
  ⟨⟨rankSem_concrete cv, rankSem_sql, rankSem_sqlSol⟩, ⟨locfSem_concrete cv, locfSem_sql, locfSem_sqlSol⟩⟩

/-! ## rank_to_average -/

/-- **The Pandas-side theorem for every interpretation with `RankSem`** (`C21_rank_to_average` is the instance
`Theta.concrete cv`): both configurations of `sem`. -/
theorem C21_rank_to_average_interp (Θ : Interp) (hΘ : RankSem Θ) (cfg : SemCfg) (env : Env)
    {name : String} {cols orderBy : List String} {partitionBy : Option (List String)} {rankCol tbCol : String}
    {p : Ops} {t0 : Table}
    (hbuild : rankToAverage (.table name cols) orderBy partitionBy rankCol tbCol = .ok p)
    (henv : env.lookup name = some t0) (hsub : subset cols t0.cols = true) :
    sem Θ cfg env p = .ok (rankSpec (rowLe orderBy []) (partitionBy.getD []) rankCol (t0.selectCols cols)) := by
  obtain ⟨rfl, hok⟩ := C21_rank_to_average_tree hbuild
  exact sem_rankTree_interp hΘ cfg env hok henv hsub

/-- **`to_sql` of the pipeline of `rank_to_average` does not fail** (every dialect configuration). -/
theorem C21_rank_to_average_to_sql_total (env : Env) (cfg : SqlCfg) {name : String} {cols orderBy : List String}
    {partitionBy : Option (List String)} {rankCol tbCol : String} {p : Ops} {t0 : Table}
    (hbuild : rankToAverage (.table name cols) orderBy partitionBy rankCol tbCol = .ok p)
    (henv : env.lookup name = some t0) (hsub : subset cols t0.cols = true) : ∃ q, toNearSql cfg p = .ok q :=
  rank_to_sql_total env cfg hbuild henv hsub

/-- **The `semG` form: `rank_to_average` for every row comparison.**  For every comparison `le` that is a total
lexicographic preorder on the order columns (`CmpLex`: the Pandas comparison `rowLe`, the engines' `sqlRowLe ec`), every
interpretation with `RankSem`, both configurations: the pipeline evaluated with `le` in its window orderings (`semG le`)
yields the input rows in input order, each with the mean position of its tie group in the order `le order_by []`.
(`C21_rank_to_average` is the instance `le := rowLe`, `semG rowLe = sem`.) -/
theorem C21_rank_to_average_cmp (le : RowCmp) (hle : CmpLex le) (Θ : Interp) (hΘ : RankSem Θ) (cfg : SemCfg) (env : Env)
    {name : String} {cols orderBy : List String} {partitionBy : Option (List String)} {rankCol tbCol : String}
    {p : Ops} {t0 : Table}
    (hbuild : rankToAverage (.table name cols) orderBy partitionBy rankCol tbCol = .ok p)
    (henv : env.lookup name = some t0) (hsub : subset cols t0.cols = true) :
    semG le Θ cfg env p = .ok (rankSpec (le orderBy []) (partitionBy.getD []) rankCol (t0.selectCols cols)) := by
  obtain ⟨rfl, hok⟩ := C21_rank_to_average_tree hbuild
  have hd : semG le Θ cfg env (.table name cols) = .ok (t0.selectCols cols) := by
    simp only [semG, henv, hsub, if_true]
  exact Cmp.semG_rankTree hle hΘ cfg env (.table name cols) (t0.selectCols cols) hok hd (Table.wf_selectCols _ _)

/-- **rank_to_average on SQL computes the mean position of each row's tie group – full statement.**  For every table
description, every parameter choice the helper accepts, every environment holding the table (any data: ties, partitions,
missing partition keys, **missing order keys**), every interpretation with `RankSem`, both NULL placements, every
dialect configuration: the query `to_sql` produces evaluates; its result has the column set `table columns + rank
column`; and, read through that column list, its rows are **exactly, in input order**, the input rows each extended by
`tieGroupMeanRank` of its tie group **in the engine's order of `order_by`** (`sqlRowLe ec`: ascending, NULL first on
SQLite, last on PostgreSQL). -/
theorem C21_rank_to_average_sql (Θ : Interp) (hΘ : RankSem Θ) (ec : EngineCfg) (env : Env) (cfg : SqlCfg)
    {name : String} {cols orderBy : List String} {partitionBy : Option (List String)} {rankCol tbCol : String}
    {p : Ops} {t0 : Table} {q : Near}
    (hbuild : rankToAverage (.table name cols) orderBy partitionBy rankCol tbCol = .ok p)
    (henv : env.lookup name = some t0) (hsub : subset cols t0.cols = true) (hq : toNearSql cfg p = .ok q) :
    ∃ T, semSql Θ ec env q = .ok T ∧
      T.EqS (rankSpec (sqlRowLe ec orderBy []) (partitionBy.getD []) rankCol (t0.selectCols cols)) :=
  Cmp.rank_sql_full Θ hΘ ec env cfg hbuild henv hsub hq

/-- the SQLite instance of the full statement, up to row and column order: `SqlCfg.sqlite` (extend merges on), SQLite's
NULL placement, the SQLite-side interpretation of the function symbols; with `C21_rank_to_average_to_sql_total` the query
exists -/
theorem C21_rank_to_average_sqlite (env : Env)
    {name : String} {cols orderBy : List String} {partitionBy : Option (List String)} {rankCol tbCol : String}
    {p : Ops} {t0 : Table}
    (hbuild : rankToAverage (.table name cols) orderBy partitionBy rankCol tbCol = .ok p)
    (henv : env.lookup name = some t0) (hsub : subset cols t0.cols = true) :
    ∃ q T, toNearSql SqlCfg.sqlite p = .ok q ∧ semSql thetaSqlSol EngineCfg.sqlite env q = .ok T ∧
      T.EquivS (rankSpec (sqlRowLe EngineCfg.sqlite orderBy []) (partitionBy.getD []) rankCol (t0.selectCols cols)) := by
  obtain ⟨q, hq⟩ := C21_rank_to_average_to_sql_total env SqlCfg.sqlite hbuild henv hsub
  obtain ⟨T, h1, h2⟩ := C21_rank_to_average_sql thetaSqlSol rankSem_sqlSol EngineCfg.sqlite env SqlCfg.sqlite
    hbuild henv hsub hq
  exact ⟨q, T, hq, h1, h2.1, h2.2 ▸ List.Perm.refl _⟩

/-- **The SQL result is the table the Pandas-side theorem names** (guard `G_order`: no `order_by`
cell of the input table is missing).  For every table description, every parameter choice the helper accepts, every
environment holding the table, every interpretation with `RankSem`, both NULL placements, every dialect configuration:
the query `to_sql` produces evaluates; its result has the column set `table columns + rank column`; and, read through
that column list, its rows are **exactly, in input order**, the input rows each extended by `tieGroupMeanRank` of its
tie group (ties of `order_by`, partitions, missing partition keys all included).

(On null-free order keys the engine's comparison is the Pandas comparison; `C21_rank_order_null_necessary`: the guard
is needed for *this* comparison.  The statement without guard is `C21_rank_to_average_sql`.) -/
theorem C21_rank_to_average_sql_pandas_order (Θ : Interp) (hΘ : RankSem Θ) (ec : EngineCfg) (env : Env) (cfg : SqlCfg)
    {name : String} {cols orderBy : List String} {partitionBy : Option (List String)} {rankCol tbCol : String}
    {p : Ops} {t0 : Table} {q : Near}
    (hbuild : rankToAverage (.table name cols) orderBy partitionBy rankCol tbCol = .ok p)
    (henv : env.lookup name = some t0) (hsub : subset cols t0.cols = true)
    (G_order : NullFreeOn orderBy t0.rows) (hq : toNearSql cfg p = .ok q) :
    ∃ T, semSql Θ ec env q = .ok T ∧
      T.EqS (rankSpec (rowLe orderBy []) (partitionBy.getD []) rankCol (t0.selectCols cols)) :=
  rank_sql_exact Θ hΘ ec env cfg hbuild henv hsub G_order hq

/-- the SQLite instance: the SQLite dialect configuration (extend merges on), SQLite's NULL placement, the
SQLite-side interpretation of the function symbols; up to row and column order -/
theorem C21_rank_to_average_sqlite_pandas_order (env : Env)
    {name : String} {cols orderBy : List String} {partitionBy : Option (List String)} {rankCol tbCol : String}
    {p : Ops} {t0 : Table} {q : Near}
    (hbuild : rankToAverage (.table name cols) orderBy partitionBy rankCol tbCol = .ok p)
    (henv : env.lookup name = some t0) (hsub : subset cols t0.cols = true)
    (G_order : NullFreeOn orderBy t0.rows) (hq : toNearSql SqlCfg.sqlite p = .ok q) :
    ∃ T, semSql thetaSqlSol EngineCfg.sqlite env q = .ok T ∧
      T.EquivS (rankSpec (rowLe orderBy []) (partitionBy.getD []) rankCol (t0.selectCols cols)) := by
  obtain ⟨T, h1, h2⟩ := C21_rank_to_average_sql_pandas_order thetaSqlSol rankSem_sqlSol EngineCfg.sqlite env SqlCfg.sqlite
    hbuild henv hsub G_order hq
  exact ⟨T, h1, h2.1, h2.2 ▸ List.Perm.refl _⟩

/-! ## last_observed_carried_forward -/

/-- **The Pandas-side theorem for every interpretation with `LocfSem`** (`C21_locf` is the instance
`Theta.concrete cv`; Pandas configuration of `sem`). -/
theorem C21_locf_interp (Θ : Interp) (hΘ : LocfSem Θ) (env : Env)
    {name : String} {cols orderBy : List String} {partitionBy : Option (List String)}
    {valueCol useCol rankCol tbCol : String} {p : Ops} {t0 : Table}
    (hbuild : lastObservedCarriedForward (.table name cols) orderBy partitionBy valueCol useCol rankCol tbCol = .ok p)
    (hob : ∀ c ∈ orderBy, c ∈ cols) (hpb : ∀ c ∈ partitionBy.getD [], c ∈ cols)
    (henv : env.lookup name = some t0) (hsub : subset cols t0.cols = true) :
    ∃ (tb : Nat → Nat) (t : Table), sem Θ SemCfg.pandas env p = .ok t ∧ t.cols = cols ∧
      t.rows.Perm (locfSpec (rowLe orderBy []) tb (partitionBy.getD []) valueCol (t0.selectCols cols).rows) := by
  obtain ⟨rfl, hok⟩ := C21_locf_tree hbuild
  obtain ⟨t, h1, h2, h3⟩ := sem_locfTree_interp ⟨hok, hob, hpb⟩ hΘ env name t0 henv hsub
  exact ⟨_, t, h1, h2, h3⟩

/-- **The `semG` form: `last_observed_carried_forward` for every row comparison** (Pandas join configuration; every
`CmpLex` comparison, every interpretation with `LocfSem`).  `C21_locf` is the instance `le := rowLe`. -/
theorem C21_locf_cmp (le : RowCmp) (hle : CmpLex le) (Θ : Interp) (hΘ : LocfSem Θ) (env : Env)
    {name : String} {cols orderBy : List String} {partitionBy : Option (List String)}
    {valueCol useCol rankCol tbCol : String} {p : Ops} {t0 : Table}
    (hbuild : lastObservedCarriedForward (.table name cols) orderBy partitionBy valueCol useCol rankCol tbCol = .ok p)
    (hob : ∀ c ∈ orderBy, c ∈ cols) (hpb : ∀ c ∈ partitionBy.getD [], c ∈ cols)
    (henv : env.lookup name = some t0) (hsub : subset cols t0.cols = true) :
    ∃ (tb : Nat → Nat) (t : Table), semG le Θ SemCfg.pandas env p = .ok t ∧ t.cols = cols ∧
      t.rows.Perm (locfSpec (le orderBy []) tb (partitionBy.getD []) valueCol (t0.selectCols cols).rows) := by
  obtain ⟨rfl, hok⟩ := C21_locf_tree hbuild
  obtain ⟨t, h1, h2, h3⟩ := Cmp.sem_locfTree hle ⟨hok, hob, hpb⟩ hΘ env name t0 henv hsub
  exact ⟨_, t, h1, h2, h3⟩

/-- **last_observed_carried_forward on SQL fills each missing value with the latest earlier non-missing value of its
partition – every order key** (guard `G_part`: no `partition_by` cell of the input table is missing; finding
`C21-locf-null-partition`, `C21_locf_partition_null_necessary`).  For every table description, every accepted parameter
choice with `order_by` / `partition_by` naming table columns, every environment holding the table (ties and **missing
order keys** included), every interpretation with `LocfSem`, both NULL placements, every dialect configuration: there
are tie-breaking numbers `tb` – pairwise different, increasing along `partition_by + order_by` in the engine's order –
such that the query `to_sql` produces evaluates to a table with the table's column set whose rows are, up to row order,
`locfSpec` **for the engine's order of `order_by`** (`sqlRowLe ec`): own value if present, otherwise the value of the
latest strictly earlier row of the partition, in the order (`order_by`, `tb`), whose value is present; missing if there
is none. -/
theorem C21_locf_sql_partial (Θ : Interp) (hΘ : LocfSem Θ) (ec : EngineCfg) (env : Env) (cfg : SqlCfg)
    {name : String} {cols orderBy : List String} {partitionBy : Option (List String)}
    {valueCol useCol rankCol tbCol : String} {p : Ops} {t0 : Table} {q : Near}
    (hbuild : lastObservedCarriedForward (.table name cols) orderBy partitionBy valueCol useCol rankCol tbCol = .ok p)
    (hob : ∀ c ∈ orderBy, c ∈ cols) (hpb : ∀ c ∈ partitionBy.getD [], c ∈ cols)
    (henv : env.lookup name = some t0) (hsub : subset cols t0.cols = true)
    (G_part : NullFreeOn (partitionBy.getD []) t0.rows) (hq : toNearSql cfg p = .ok q) :
    ∃ (tb : Nat → Nat) (T : Table),
      (∀ j k, j < (t0.selectCols cols).rows.length → k < (t0.selectCols cols).rows.length → tb j = tb k → j = k) ∧
      (∀ j k, j < (t0.selectCols cols).rows.length → k < (t0.selectCols cols).rows.length →
        strictlyBefore (sqlRowLe ec (partitionBy.getD [] ++ orderBy) []) ((t0.selectCols cols).rows.getD j [])
          ((t0.selectCols cols).rows.getD k []) = true → tb j < tb k) ∧
      semSql Θ ec env q = .ok T ∧
      T.EquivS ⟨cols, locfSpec (sqlRowLe ec orderBy []) tb (partitionBy.getD []) valueCol
        (t0.selectCols cols).rows⟩ := by
  obtain ⟨_, hok⟩ := C21_locf_tree hbuild
  have hc : LocfCtx cols orderBy (partitionBy.getD []) valueCol useCol rankCol tbCol := ⟨hok, hob, hpb⟩
  obtain ⟨T, h1, h2⟩ := Cmp.locf_sql_full Θ hΘ ec env cfg hbuild hob hpb henv hsub G_part hq
  refine ⟨_, T, ?_, ?_, h1, h2⟩
  · intro j k hj hk h
    exact Cmp.tbA_inj (cmpLex_sql ec) hc _ hj hk h
  · intro j k hj hk h
    simp only [strictlyBefore, Bool.and_eq_true, Bool.not_eq_true'] at h
    exact Cmp.tbA_lt_of_strict (cmpLex_sql ec) hc _ hj hk h.2

/-- the SQLite instance -/
theorem C21_locf_sqlite_partial (env : Env)
    {name : String} {cols orderBy : List String} {partitionBy : Option (List String)}
    {valueCol useCol rankCol tbCol : String} {p : Ops} {t0 : Table} {q : Near}
    (hbuild : lastObservedCarriedForward (.table name cols) orderBy partitionBy valueCol useCol rankCol tbCol = .ok p)
    (hob : ∀ c ∈ orderBy, c ∈ cols) (hpb : ∀ c ∈ partitionBy.getD [], c ∈ cols)
    (henv : env.lookup name = some t0) (hsub : subset cols t0.cols = true)
    (G_part : NullFreeOn (partitionBy.getD []) t0.rows) (hq : toNearSql SqlCfg.sqlite p = .ok q) :
    ∃ (tb : Nat → Nat) (T : Table), semSql thetaSqlSol EngineCfg.sqlite env q = .ok T ∧
      T.EquivS ⟨cols, locfSpec (sqlRowLe EngineCfg.sqlite orderBy []) tb (partitionBy.getD []) valueCol
        (t0.selectCols cols).rows⟩ := by
  obtain ⟨tb, T, _, _, h1, h2⟩ := C21_locf_sql_partial thetaSqlSol locfSem_sqlSol EngineCfg.sqlite env SqlCfg.sqlite
    hbuild hob hpb henv hsub G_part hq
  exact ⟨tb, T, h1, h2⟩

/-- **The SQL result is the table the Pandas-side theorem names** (guards `G_part`, `G_order`: no `partition_by` and
no `order_by` cell of the input table is missing; `C21_locf_order_null_necessary`: `G_order` is needed for the Pandas
comparison `rowLe`; the statement without it, for the engine's comparison, is `C21_locf_sql_partial`).  For every table description, every accepted parameter choice with `order_by` / `partition_by` naming table columns,
every environment holding the table, every interpretation with `LocfSem`, both NULL placements, every dialect
configuration: there are tie-breaking numbers `tb` – pairwise different, increasing along `partition_by + order_by` –
such that the query `to_sql` produces evaluates to a table with the table's column set whose rows are, up to row order,
`locfSpec` (own value if present, otherwise the value of the latest strictly earlier row of the partition, in the order
(`order_by`, `tb`), whose value is present; missing if there is none). -/
theorem C21_locf_sql_pandas_order_partial (Θ : Interp) (hΘ : LocfSem Θ) (ec : EngineCfg) (env : Env) (cfg : SqlCfg)
    {name : String} {cols orderBy : List String} {partitionBy : Option (List String)}
    {valueCol useCol rankCol tbCol : String} {p : Ops} {t0 : Table} {q : Near}
    (hbuild : lastObservedCarriedForward (.table name cols) orderBy partitionBy valueCol useCol rankCol tbCol = .ok p)
    (hob : ∀ c ∈ orderBy, c ∈ cols) (hpb : ∀ c ∈ partitionBy.getD [], c ∈ cols)
    (henv : env.lookup name = some t0) (hsub : subset cols t0.cols = true)
    (G_part : NullFreeOn (partitionBy.getD []) t0.rows) (G_order : NullFreeOn orderBy t0.rows)
    (hq : toNearSql cfg p = .ok q) :
    ∃ (tb : Nat → Nat) (T : Table),
      (∀ j k, j < (t0.selectCols cols).rows.length → k < (t0.selectCols cols).rows.length → tb j = tb k → j = k) ∧
      (∀ j k, j < (t0.selectCols cols).rows.length → k < (t0.selectCols cols).rows.length →
        strictlyBefore (rowLe (partitionBy.getD [] ++ orderBy) []) ((t0.selectCols cols).rows.getD j [])
          ((t0.selectCols cols).rows.getD k []) = true → tb j < tb k) ∧
      semSql Θ ec env q = .ok T ∧
      T.EquivS ⟨cols, locfSpec (rowLe orderBy []) tb (partitionBy.getD []) valueCol (t0.selectCols cols).rows⟩ := by
  obtain ⟨_, hok⟩ := C21_locf_tree hbuild
  have hc : LocfCtx cols orderBy (partitionBy.getD []) valueCol useCol rankCol tbCol := ⟨hok, hob, hpb⟩
  obtain ⟨T, h1, h2⟩ := locf_sql Θ hΘ ec env cfg hbuild hob hpb henv hsub G_part G_order hq
  refine ⟨tbA cols orderBy (partitionBy.getD []) valueCol useCol (t0.selectCols cols).rows, T, ?_, ?_, h1, h2⟩
  · intro j k hj hk h
    exact tbA_inj hc _ hj hk h
  · intro j k hj hk h
    simp only [strictlyBefore, Bool.and_eq_true, Bool.not_eq_true'] at h
    exact tbA_lt_of_strict hc _ hj hk h.2

/-- the SQLite instance -/
theorem C21_locf_sqlite_pandas_order_partial (env : Env)
    {name : String} {cols orderBy : List String} {partitionBy : Option (List String)}
    {valueCol useCol rankCol tbCol : String} {p : Ops} {t0 : Table} {q : Near}
    (hbuild : lastObservedCarriedForward (.table name cols) orderBy partitionBy valueCol useCol rankCol tbCol = .ok p)
    (hob : ∀ c ∈ orderBy, c ∈ cols) (hpb : ∀ c ∈ partitionBy.getD [], c ∈ cols)
    (henv : env.lookup name = some t0) (hsub : subset cols t0.cols = true)
    (G_part : NullFreeOn (partitionBy.getD []) t0.rows) (G_order : NullFreeOn orderBy t0.rows)
    (hq : toNearSql SqlCfg.sqlite p = .ok q) :
    ∃ (tb : Nat → Nat) (T : Table), semSql thetaSqlSol EngineCfg.sqlite env q = .ok T ∧
      T.EquivS ⟨cols, locfSpec (rowLe orderBy []) tb (partitionBy.getD []) valueCol (t0.selectCols cols).rows⟩ := by
  obtain ⟨tb, T, _, _, h1, h2⟩ := C21_locf_sql_pandas_order_partial thetaSqlSol locfSem_sqlSol EngineCfg.sqlite env SqlCfg.sqlite
    hbuild hob hpb henv hsub G_part G_order hq
  exact ⟨tb, T, h1, h2⟩

/-! ## replicate_rows_query -/

/-- **replicate_rows_query on SQL emits every row `count` times, numbered `0 … count-1`** – under the hypotheses of
the Pandas-side theorem `C21_replicate_partial` (`hlog`: the engine's `ceil(log(c)/log(2))` is the exact `⌈log₂ c⌉` on
`1 … max_count`; `PowerSem`, `LtSem`; counts in `1 … max_count`; the returned count frame stored under
`join_temp_name`).  Every dialect configuration, both NULL placements: the query `to_sql` produces evaluates; its result
has the columns `table columns + seq column`; read through that column list its rows are **exactly, in order**, those
of `replicateSpec`.  (The pipeline has no window and no `order_rows`: no guard on missing values is needed.) -/
theorem C21_replicate_sql_partial (Θ : Interp) (ec : EngineCfg) (env : Env) (cfg : SqlCfg) (powerOf : Nat → Nat)
    {name joinTemp countCol seqCol : String} {cols : List String} {maxCount : Nat} {p : Ops} {frame t0 : Table}
    {q : Near}
    (hlog : ∀ c, 1 ≤ c → c ≤ maxCount → powerOf c = clog2 c)
    (hpow : PowerSem Θ countCol powerOf maxCount) (hlt : LtSem Θ) (hcols : cols.Nodup)
    (hbuild : replicateRowsQuery powerOf (.table name cols) countCol seqCol joinTemp maxCount = .ok (p, frame))
    (henv : env.lookup name = some t0) (hsub : subset cols t0.cols = true)
    (hjt : env.lookup joinTemp = some frame)
    (hcounts : ∀ r ∈ t0.rows, ∃ c : Nat, r.get countCol = Val.num (c : Nat) ∧ 1 ≤ c ∧ c ≤ maxCount)
    (hq : toNearSql cfg p = .ok q) :
    ∃ T, semSql Θ ec env q = .ok T ∧ T.EqS (replicateSpec countCol seqCol (t0.selectCols cols)) :=
  rep_sql_exact Θ ec env cfg powerOf hlog hpow hlt hcols hbuild henv hsub hjt hcounts hq

/-- the SQLite instance: `thetaSqlSol` evaluates the power expression with the exact `⌈log₂⌉`
(`C21_replicate_interp_instances`), so `hlog` holds for `powerOf := clog2` -/
theorem C21_replicate_sqlite_partial (env : Env)
    {name joinTemp countCol seqCol : String} {cols : List String} {maxCount : Nat} {p : Ops} {frame t0 : Table}
    {q : Near} (hcols : cols.Nodup)
    (hbuild : replicateRowsQuery clog2 (.table name cols) countCol seqCol joinTemp maxCount = .ok (p, frame))
    (henv : env.lookup name = some t0) (hsub : subset cols t0.cols = true)
    (hjt : env.lookup joinTemp = some frame)
    (hcounts : ∀ r ∈ t0.rows, ∃ c : Nat, r.get countCol = Val.num (c : Nat) ∧ 1 ≤ c ∧ c ≤ maxCount)
    (hq : toNearSql SqlCfg.sqlite p = .ok q) :
    ∃ T, semSql thetaSqlSol EngineCfg.sqlite env q = .ok T ∧
      T.EquivS (replicateSpec countCol seqCol (t0.selectCols cols)) := by
  obtain ⟨T, h1, h2⟩ := C21_replicate_sql_partial thetaSqlSol EngineCfg.sqlite env SqlCfg.sqlite clog2
    (fun _ _ _ => rfl) (thetaSqlSol_powerSem countCol maxCount) thetaSqlSol_ltSem hcols hbuild henv hsub hjt hcounts hq
  exact ⟨T, h1, h2.1, h2.2 ▸ List.Perm.refl _⟩

/-! ## def_multi_column_map -/

/-- **`def_multi_column_map` is outside the SQL fragments.**  The pipeline it builds contains `convert_records`
(twice): it is not in `InFragJ`, the largest fragment with a translation theorem.  (`Sql/ToNearSql.lean` has no
translation of `convert_records` either – see the example below –, while the real library renders it as raw query
steps: nothing is claimed about the SQL of this helper.) -/
theorem C21_multi_column_map_outside_sql (d m : Ops) (keys cmap : List String) (nk vk mk : String) (cv : Option Lit)
    (back : Option (List String)) : InFragJ (mcmTree d m keys cmap nk vk mk cv back) = false := by
  cases back <;> rfl

/-! ## the guards are necessary: concrete counterexamples (confirmed on the real library with sqlite3)

What the SQL returns on the witnesses is computed through stage A of the translation proof and the kernel-evaluable
evaluator of `Proofs/SqlEvalI.lean` (`Sol21Sql.sql_eval`). -/

namespace C21SqlEx

/-- one present and one missing order key -/
def tN : Table := ⟨["x"], [[("x", .num 1)], [("x", .null)]]⟩
def envN : Env := [("d", tN)]

/-- a partition whose key is missing: `(NULL, 1, 5), (NULL, 2, –)`, and a partition `a` -/
def tP : Table :=
  ⟨["g", "o", "v"], [[("g", .null), ("o", .num 1), ("v", .num 5)], [("g", .null), ("o", .num 2), ("v", .null)],
    [("g", .str "a"), ("o", .num 1), ("v", .num 1)]]⟩
def envP : Env := [("d", tP)]

/-- a missing order key on the row that carries the value -/
def tO : Table := ⟨["o", "v"], [[("o", .null), ("v", .num 5)], [("o", .num 1), ("v", .null)]]⟩
def envO : Env := [("d", tO)]

def pN : Ops := rankTree (.table "d" ["x"]) ["x"] [] "rk" "rank_tie_breaker"
def pP : Ops := locfTree (.table "d" ["g", "o", "v"]) ["o"] ["g"] "v" "locf_to_use" "locf_non_null_rank" "locf_tiebreaker"
def pO : Ops := locfTree (.table "d" ["o", "v"]) ["o"] [] "v" "locf_to_use" "locf_non_null_rank" "locf_tiebreaker"

theorem pN_built : rankToAverage (.table "d" ["x"]) ["x"] none "rk" = .ok pN := by
  have hacc : (rankToAverage (.table "d" ["x"]) ["x"] none "rk").isOk = true := by decide +kernel
  cases hb : rankToAverage (.table "d" ["x"]) ["x"] none "rk" with
  | error e => rw [hb] at hacc; cases hacc
  | ok p => rw [(C21_rank_to_average_tree hb).1]; rfl

theorem pP_built : lastObservedCarriedForward (.table "d" ["g", "o", "v"]) ["o"] (some ["g"]) "v" = .ok pP := by
  have hacc : (lastObservedCarriedForward (.table "d" ["g", "o", "v"]) ["o"] (some ["g"]) "v").isOk = true := by
    decide +kernel
  cases hb : lastObservedCarriedForward (.table "d" ["g", "o", "v"]) ["o"] (some ["g"]) "v" with
  | error e => rw [hb] at hacc; cases hacc
  | ok p => rw [(C21_locf_tree hb).1]; rfl

theorem pO_built : lastObservedCarriedForward (.table "d" ["o", "v"]) ["o"] none "v" = .ok pO := by
  have hacc : (lastObservedCarriedForward (.table "d" ["o", "v"]) ["o"] none "v").isOk = true := by decide +kernel
  cases hb : lastObservedCarriedForward (.table "d" ["o", "v"]) ["o"] none "v" with
  | error e => rw [hb] at hacc; cases hacc
  | ok p => rw [(C21_locf_tree hb).1]; rfl

theorem isOk_ok {α : Type} {x : Except Err α} (h : x.isOk = true) : ∃ a, x = .ok a := by
  cases x with
  | error e => cases h
  | ok a => exact ⟨a, rfl⟩

end C21SqlEx

open C21SqlEx in
/-- **`G_order` is necessary for `rank_to_average`.**  `x = [1, NULL]`, `order_by = [x]`: every other hypothesis of
`C21_rank_to_average_sql_pandas_order` holds; the SQL (SQLite configuration, SQLite's NULL placement) returns the ranks
`2, 1` – NULL sorts first –, the specification with the Pandas comparison names `1, 2`: the two tables differ even as
multisets of rows.  With the engine's own comparison `sqlRowLe EngineCfg.sqlite` the specification names exactly the
SQL result (the full statement, on this witness).  Real library on sqlite3: `rk = 2.0` for `x = 1`, `1.0` for NULL;
on Pandas `1.0`, `2.0`. -/
theorem C21_rank_order_null_necessary :
    ∃ p q T, rankToAverage (.table "d" ["x"]) ["x"] none "rk" = .ok p ∧
      envN.lookup "d" = some tN ∧ subset ["x"] tN.cols = true ∧ ¬ NullFreeOn ["x"] tN.rows ∧
      toNearSql SqlCfg.sqlite p = .ok q ∧ semSql thetaSqlSol EngineCfg.sqlite envN q = .ok T ∧
      T.rows.map (fun r => r.select ["x", "rk"])
        = [[("x", .num 1), ("rk", .num 2)], [("x", .null), ("rk", .num 1)]] ∧
      (rankSpec (rowLe ["x"] []) [] "rk" (tN.selectCols ["x"])).rows
        = [[("x", .num 1), ("rk", .num 1)], [("x", .null), ("rk", .num 2)]] ∧
      ¬ T.EquivS (rankSpec (rowLe ["x"] []) [] "rk" (tN.selectCols ["x"])) ∧
      T.EqS (rankSpec (sqlRowLe EngineCfg.sqlite ["x"] []) [] "rk" (tN.selectCols ["x"])) := by
  have henv : envN.lookup "d" = some tN := rfl
  have hsub : subset ["x"] tN.cols = true := rfl
  obtain ⟨q, hq⟩ := C21_rank_to_average_to_sql_total envN SqlCfg.sqlite pN_built henv hsub
  obtain ⟨T, h1, h2, h3⟩ := sql_eval (Θ := thetaSqlSol) (ec := EngineCfg.sqlite)
    (tp := ⟨["x", "rk"], [[("x", .num 1), ("rk", .num 2)], [("x", .null), ("rk", .num 1)]]⟩)
    (rank_good SqlCfg.sqlite (rank_reachable pN_built) henv hsub) (rank_noConcat ..) hq
    (by decide +kernel) (by decide +kernel)
  have h3' : T.rows.map (fun r => r.select ["x", "rk"])
      = [[("x", .num 1), ("rk", .num 2)], [("x", .null), ("rk", .num 1)]] := h3
  refine ⟨pN, q, T, pN_built, henv, hsub, by decide, hq, h1, h3', by decide +kernel, ?_, ?_, ?_⟩
  · intro h
    have h5 : (T.rows.map (fun r => r.select ["x", "rk"])).Perm _ := h.2
    rw [h3'] at h5
    revert h5
    decide +kernel
  · exact h2
  · show T.rows.map (fun r => r.select ["x", "rk"]) = _
    rw [h3']
    decide +kernel

open C21SqlEx in
/-- **`G_part` is necessary for `last_observed_carried_forward`** (finding `C21-locf-null-partition`).  Rows
`(g, o, v) = (NULL, 1, 5), (NULL, 2, –), (a, 1, 1)`, `partition_by = [g]`, `order_by = [o]`: no order key is missing,
the SQL evaluates, and the second row keeps its missing value – the join on `g` never matches a NULL key – while the
specification (whatever the tie-breaking numbers: there is no tie; with the Pandas comparison and with SQLite's own –
no order key is missing, they agree) fills it with `5`.  Real library: sqlite3 returns `5, NaN, 1`; Pandas `5, 5, 1`. -/
theorem C21_locf_partition_null_necessary :
    ∃ p q T, lastObservedCarriedForward (.table "d" ["g", "o", "v"]) ["o"] (some ["g"]) "v" = .ok p ∧
      envP.lookup "d" = some tP ∧ subset ["g", "o", "v"] tP.cols = true ∧
      NullFreeOn ["o"] tP.rows ∧ ¬ NullFreeOn ["g"] tP.rows ∧
      toNearSql SqlCfg.sqlite p = .ok q ∧ semSql thetaSqlSol EngineCfg.sqlite envP q = .ok T ∧
      T.rows.map (fun r => r.select ["g", "o", "v"])
        = [[("g", .str "a"), ("o", .num 1), ("v", .num 1)], [("g", .null), ("o", .num 1), ("v", .num 5)],
           [("g", .null), ("o", .num 2), ("v", .null)]] ∧
      ∀ tb : Nat → Nat,
        locfSpec (rowLe ["o"] []) tb ["g"] "v" (tP.selectCols ["g", "o", "v"]).rows
          = [[("g", .null), ("o", .num 1), ("v", .num 5)], [("g", .null), ("o", .num 2), ("v", .num 5)],
             [("g", .str "a"), ("o", .num 1), ("v", .num 1)]] ∧
        ¬ T.EquivS ⟨["g", "o", "v"], locfSpec (rowLe ["o"] []) tb ["g"] "v" (tP.selectCols ["g", "o", "v"]).rows⟩ ∧
        ¬ T.EquivS ⟨["g", "o", "v"],
            locfSpec (sqlRowLe EngineCfg.sqlite ["o"] []) tb ["g"] "v" (tP.selectCols ["g", "o", "v"]).rows⟩ := by
  have henv : envP.lookup "d" = some tP := rfl
  have hsub : subset ["g", "o", "v"] tP.cols = true := rfl
  obtain ⟨q, hq⟩ := isOk_ok (x := toNearSql SqlCfg.sqlite pP) (by decide +kernel)
  obtain ⟨T, h1, _, h3⟩ := sql_eval (Θ := thetaSqlSol) (ec := EngineCfg.sqlite)
    (tp := ⟨["g", "o", "v"], [[("g", .str "a"), ("o", .num 1), ("v", .num 1)],
      [("g", .null), ("o", .num 1), ("v", .num 5)], [("g", .null), ("o", .num 2), ("v", .null)]]⟩)
    (locf_good SqlCfg.sqlite (locf_reachable pP_built) henv hsub) (locf_noConcat ..) hq
    (by decide +kernel) (by decide +kernel)
  have h3' : T.rows.map (fun r => r.select ["g", "o", "v"])
      = [[("g", .str "a"), ("o", .num 1), ("v", .num 1)], [("g", .null), ("o", .num 1), ("v", .num 5)],
         [("g", .null), ("o", .num 2), ("v", .null)]] := h3
  refine ⟨pP, q, T, pP_built, henv, hsub, by decide, by decide, hq, h1, h3', ?_⟩
  intro tb
  have hspec : locfSpec (rowLe ["o"] []) tb ["g"] "v" (tP.selectCols ["g", "o", "v"]).rows
      = [[("g", .null), ("o", .num 1), ("v", .num 5)], [("g", .null), ("o", .num 2), ("v", .num 5)],
         [("g", .str "a"), ("o", .num 1), ("v", .num 1)]] := rfl
  have hspec' : locfSpec (sqlRowLe EngineCfg.sqlite ["o"] []) tb ["g"] "v" (tP.selectCols ["g", "o", "v"]).rows
      = [[("g", .null), ("o", .num 1), ("v", .num 5)], [("g", .null), ("o", .num 2), ("v", .num 5)],
         [("g", .str "a"), ("o", .num 1), ("v", .num 1)]] := rfl
  refine ⟨hspec, ?_, ?_⟩
  · intro h
    have h5 : (T.rows.map (fun r => r.select ["g", "o", "v"])).Perm _ := h.2
    rw [h3'] at h5
    simp only [hspec] at h5
    revert h5
    decide +kernel
  · intro h
    have h5 : (T.rows.map (fun r => r.select ["g", "o", "v"])).Perm _ := h.2
    rw [h3'] at h5
    simp only [hspec'] at h5
    revert h5
    decide +kernel

open C21SqlEx in
/-- **`G_order` is necessary for `last_observed_carried_forward`.**  Rows `(o, v) = (NULL, 5), (1, –)`, no partition:
with the Pandas comparison the row with the missing order key comes last, so `(1, –)` has no earlier value and the
specification leaves it missing; SQLite sorts NULL first and the SQL fills it with `5`.  Real library: sqlite3 returns
`5, 5`; Pandas `5, NaN`. -/
theorem C21_locf_order_null_necessary :
    ∃ p q T, lastObservedCarriedForward (.table "d" ["o", "v"]) ["o"] none "v" = .ok p ∧
      envO.lookup "d" = some tO ∧ subset ["o", "v"] tO.cols = true ∧
      NullFreeOn [] tO.rows ∧ ¬ NullFreeOn ["o"] tO.rows ∧
      toNearSql SqlCfg.sqlite p = .ok q ∧ semSql thetaSqlSol EngineCfg.sqlite envO q = .ok T ∧
      T.rows.map (fun r => r.select ["o", "v"]) = [[("o", .null), ("v", .num 5)], [("o", .num 1), ("v", .num 5)]] ∧
      ∀ tb : Nat → Nat,
        locfSpec (rowLe ["o"] []) tb [] "v" (tO.selectCols ["o", "v"]).rows
          = [[("o", .null), ("v", .num 5)], [("o", .num 1), ("v", .null)]] ∧
        ¬ T.EquivS ⟨["o", "v"], locfSpec (rowLe ["o"] []) tb [] "v" (tO.selectCols ["o", "v"]).rows⟩ := by
  have henv : envO.lookup "d" = some tO := rfl
  have hsub : subset ["o", "v"] tO.cols = true := rfl
  obtain ⟨q, hq⟩ := isOk_ok (x := toNearSql SqlCfg.sqlite pO) (by decide +kernel)
  obtain ⟨T, h1, _, h3⟩ := sql_eval (Θ := thetaSqlSol) (ec := EngineCfg.sqlite)
    (tp := ⟨["o", "v"], [[("o", .null), ("v", .num 5)], [("o", .num 1), ("v", .num 5)]]⟩)
    (locf_good SqlCfg.sqlite (locf_reachable pO_built) henv hsub) (locf_noConcat ..) hq
    (by decide +kernel) (by decide +kernel)
  have h3' : T.rows.map (fun r => r.select ["o", "v"])
      = [[("o", .null), ("v", .num 5)], [("o", .num 1), ("v", .num 5)]] := h3
  refine ⟨pO, q, T, pO_built, henv, hsub, by decide, by decide, hq, h1, h3', ?_⟩
  intro tb
  have hspec : locfSpec (rowLe ["o"] []) tb [] "v" (tO.selectCols ["o", "v"]).rows
      = [[("o", .null), ("v", .num 5)], [("o", .num 1), ("v", .null)]] := rfl
  refine ⟨hspec, ?_⟩
  intro h
  have h5 : (T.rows.map (fun r => r.select ["o", "v"])).Perm _ := h.2
  rw [h3'] at h5
  simp only [hspec] at h5
  revert h5
  decide +kernel

/-! ## non-vacuity: the theorems applied to concrete tables -/

namespace C21SqlEx
open C21Ex

/-- rank_to_average on the documentation's example with ties and two partitions (`C21Ex.tRank`): the helper accepts,
the translation succeeds, no order key is missing, the theorem applies: the SQL returns the rows of the
specification, whose ranks are `1.5, 1.5, 3` and `1` (`C21Ex`) -/
example : ∃ q T, toNearSql SqlCfg.sqlite pRank = .ok q ∧ semSql thetaSqlSol EngineCfg.sqlite envRank q = .ok T ∧
    T.EquivS (rankSpec (rowLe ["x"] []) ["g"] "rk" (tRank.selectCols ["g", "x"])) ∧
    T.rows.map (fun r => (r.select ["g", "x", "rk"]).get "rk") = [.num (3/2), .num (3/2), .num 3, .num 1] := by
  have henv : envRank.lookup "d" = some tRank := by decide +kernel
  have hsub : subset ["g", "x"] tRank.cols = true := by decide +kernel
  obtain ⟨q, hq⟩ := C21_rank_to_average_to_sql_total envRank SqlCfg.sqlite pRank_built henv hsub
  obtain ⟨T, h1, h2⟩ := C21_rank_to_average_sqlite_pandas_order envRank pRank_built henv hsub (by decide) hq
  obtain ⟨T', h1', h2'⟩ := C21_rank_to_average_sql_pandas_order thetaSqlSol rankSem_sqlSol EngineCfg.sqlite envRank
    SqlCfg.sqlite pRank_built henv hsub (by decide) hq
  rw [h1] at h1'
  cases h1'
  refine ⟨q, T, hq, h1, h2, ?_⟩
  have h5 : T.rows.map (fun r => r.select ["g", "x", "rk"])
      = (rankSpec (rowLe ["x"] []) ["g"] "rk" (tRank.selectCols ["g", "x"])).rows := h2'.2
  have h6 : T.rows.map (fun r => (r.select ["g", "x", "rk"]).get "rk")
      = (rankSpec (rowLe ["x"] []) ["g"] "rk" (tRank.selectCols ["g", "x"])).rows.map (fun r => r.get "rk") := by
    rw [← h5, List.map_map]
    rfl
  rw [h6]
  decide +kernel

/-- the full statement on the witness with a missing order key (`x = [1, NULL]`): the theorem applies without any
guard, and the specification for SQLite's order names the ranks `2, 1` -/
example : ∃ q T, toNearSql SqlCfg.sqlite pN = .ok q ∧ semSql thetaSqlSol EngineCfg.sqlite envN q = .ok T ∧
    T.EquivS (rankSpec (sqlRowLe EngineCfg.sqlite ["x"] []) [] "rk" (tN.selectCols ["x"])) := by
  obtain ⟨q, T, h1, h2, h3⟩ := C21_rank_to_average_sqlite envN pN_built rfl rfl
  simp only [Option.getD_none] at h3
  exact ⟨q, T, h1, h2, h3⟩

example : (rankSpec (sqlRowLe EngineCfg.sqlite ["x"] []) [] "rk" (tN.selectCols ["x"])).rows.map (fun r => r.get "rk")
    = [.num 2, .num 1] := by decide +kernel

/-- the full statement of `last_observed_carried_forward` on the witness with a missing order key
(`(o, v) = (NULL, 5), (1, –)`, no partition: `G_part` holds trivially): in SQLite's order the row with the missing key
comes first and its value is carried forward -/
example : ∃ q tb T, toNearSql SqlCfg.sqlite pO = .ok q ∧ semSql thetaSqlSol EngineCfg.sqlite envO q = .ok T ∧
    T.EquivS ⟨["o", "v"], locfSpec (sqlRowLe EngineCfg.sqlite ["o"] []) tb [] "v" (tO.selectCols ["o", "v"]).rows⟩ := by
  obtain ⟨q, hq⟩ := isOk_ok (x := toNearSql SqlCfg.sqlite pO) (by decide +kernel)
  obtain ⟨tb, T, h1, h2⟩ := C21_locf_sqlite_partial envO pO_built (by decide) (by decide) rfl rfl (by decide) hq
  exact ⟨q, tb, T, hq, h1, h2⟩

example : ∀ tb : Nat → Nat,
    (locfSpec (sqlRowLe EngineCfg.sqlite ["o"] []) tb [] "v" (tO.selectCols ["o", "v"]).rows).map (fun r => r.get "v")
      = [.num 5, .num 5] := fun _ => rfl

/-- the three extends of `rank_to_average` are not merged (each reads what the previous one computes): three queries -/
example : (toNearSql SqlCfg.sqlite pRank).toOption.map Near.names = some ["extend_2", "extend_1", "extend_0"] := by
  decide +kernel

/-- last_observed_carried_forward on `C21Ex.tLocf` (two partitions; no missing partition or order key) -/
example : ∃ p q tb T, lastObservedCarriedForward (.table "d" ["g", "o", "v"]) ["o"] (some ["g"]) "v" = .ok p ∧
    toNearSql SqlCfg.sqlite p = .ok q ∧ semSql thetaSqlSol EngineCfg.sqlite envLocf q = .ok T ∧
    T.EquivS ⟨["g", "o", "v"], locfSpec (rowLe ["o"] []) tb ["g"] "v" (tLocf.selectCols ["g", "o", "v"]).rows⟩ := by
  obtain ⟨q, hq⟩ := isOk_ok (x := toNearSql SqlCfg.sqlite pP) (by decide +kernel)
  have henv : envLocf.lookup "d" = some tLocf := by decide +kernel
  have hsub : subset ["g", "o", "v"] tLocf.cols = true := by decide +kernel
  obtain ⟨tb, T, h1, h2⟩ := C21_locf_sqlite_pandas_order_partial envLocf pP_built (by decide) (by decide) henv hsub (by decide)
    (by decide) hq
  exact ⟨pP, q, tb, T, pP_built, hq, h1, h2⟩

/-- the marking steps 1 and 2 are merged by the translation (`_row_number()` does not read the flag), step 3 is not:
the SQL of `d_marked` has two extend queries, not three – joins over merged extends are the configuration
`Proofs/SqlJoinMerge.lean` is about -/
example : (toNearSql SqlCfg.sqlite (locfMarked (.table "d" ["g", "o", "v"]) ["o"] ["g"] "v" "locf_to_use"
    "locf_non_null_rank" "locf_tiebreaker")).toOption.map Near.names = some ["extend_1", "extend_0"] := by
  decide +kernel

/-- what the SQL returns on `C21Ex.tLocf`: `5, 5` and `7, 7` carried forward, the leading missing value stays (rows
without an earlier value leave the LEFT join last) -/
example : ∃ q T, toNearSql SqlCfg.sqlite pP = .ok q ∧ semSql thetaSqlSol EngineCfg.sqlite envLocf q = .ok T ∧
    T.rows.map (fun r => r.select ["g", "o", "v"])
      = [[("g", .str "a"), ("o", .num 2), ("v", .num 5)], [("g", .str "a"), ("o", .num 3), ("v", .num 5)],
         [("g", .str "b"), ("o", .num 1), ("v", .num 7)], [("g", .str "b"), ("o", .num 2), ("v", .num 7)],
         [("g", .str "a"), ("o", .num 1), ("v", .null)]] := by
  obtain ⟨q, hq⟩ := isOk_ok (x := toNearSql SqlCfg.sqlite pP) (by decide +kernel)
  have henv : envLocf.lookup "d" = some tLocf := by decide +kernel
  have hsub : subset ["g", "o", "v"] tLocf.cols = true := by decide +kernel
  obtain ⟨T, h1, _, h3⟩ := sql_eval (Θ := thetaSqlSol) (ec := EngineCfg.sqlite)
    (tp := ⟨["g", "o", "v"], [[("g", .str "a"), ("o", .num 2), ("v", .num 5)],
      [("g", .str "a"), ("o", .num 3), ("v", .num 5)], [("g", .str "b"), ("o", .num 1), ("v", .num 7)],
      [("g", .str "b"), ("o", .num 2), ("v", .num 7)], [("g", .str "a"), ("o", .num 1), ("v", .null)]]⟩)
    (locf_good SqlCfg.sqlite (locf_reachable pP_built) henv hsub) (locf_noConcat ..) hq
    (by decide +kernel) (by decide +kernel)
  exact ⟨q, T, hq, h1, h3⟩

/-- replicate_rows_query on `C21Ex.tRep` (counts 1, 3, 4; `max_count = 4`) -/
example : ∃ p frame q T, replicateRowsQuery clog2 (.table "d" ["k", "n"]) "n" "i" "jt" 4 = .ok (p, frame) ∧
    toNearSql SqlCfg.sqlite p = .ok q ∧ semSql thetaSqlSol EngineCfg.sqlite envRep q = .ok T ∧
    T.EquivS (replicateSpec "n" "i" (tRep.selectCols ["k", "n"])) := by
  have hacc : (replicateRowsQuery clog2 (.table "d" ["k", "n"]) "n" "i" "jt" 4).isOk = true := by decide +kernel
  cases hb : replicateRowsQuery clog2 (.table "d" ["k", "n"]) "n" "i" "jt" 4 with
  | error e => rw [hb] at hacc; cases hacc
  | ok pf =>
    obtain ⟨p, frame⟩ := pf
    obtain ⟨_, hp, hfr, _, _⟩ := C21_replicate_tree hb
    obtain ⟨q, hq⟩ := isOk_ok (x := toNearSql SqlCfg.sqlite (repTree (.table "d" ["k", "n"]) "n" "i" "jt"))
      (by decide +kernel)
    rw [← hp] at hq
    obtain ⟨T, h1, h2⟩ := C21_replicate_sqlite_partial envRep (t0 := tRep) (by decide) hb rfl rfl
      (by rw [hfr]; rfl) (by
        intro r hr
        simp only [tRep, List.mem_cons, List.not_mem_nil, or_false] at hr
        rcases hr with rfl | rfl | rfl
        · exact ⟨1, rfl, by omega, by omega⟩
        · exact ⟨3, rfl, by omega, by omega⟩
        · exact ⟨4, rfl, by omega, by omega⟩) hq
    exact ⟨p, frame, q, T, rfl, hq, h1, h2⟩

/-- the specification on `C21Ex.tRep`: eight rows, copies numbered from 0 -/
example : (replicateSpec "n" "i" (tRep.selectCols ["k", "n"])).rows.map (fun r => (r.get "k", r.get "i"))
    = [(.str "a", .num 0), (.str "b", .num 0), (.str "b", .num 1), (.str "b", .num 2),
       (.str "c", .num 0), (.str "c", .num 1), (.str "c", .num 2), (.str "c", .num 3)] := by decide +kernel

/-- def_multi_column_map on `C21Ex`'s tables: the helper accepts, and the model has no SQL for its pipeline -/
example : (toNearSql SqlCfg.sqlite (mcmTree (.table "d" ["id", "a", "b"])
    (.table "m" ["column_name", "column_value", "mapped_value"]) ["id"] ["a", "b"] "column_name" "column_value"
    "mapped_value" (some (.int 0)) none)).isOk = false := by decide +kernel

end C21SqlEx

end DAVerif
