import DAVerif.Proofs.MethodsScalar2
import DAVerif.Proofs.MethodsAgg
import DAVerif.Proofs.MethodsFormatters
import DAVerif.Generated.Tables
/-!
# C05 — Every catalogued method behaves as documented on every backend that claims it

Specification side: `Doc.docScalar / docAgg / docWin` (`Spec/DocSem.lean`), a transcription of the docstrings, `none` where
the documentation determines no value.  Backend side: `ThetaX` (what the Pandas executor computes) and `ThetaSqlX` (what
the generated SQL computes on SQLite), `Sem/ThetaC05.lean`; both are tied to the real code by suite `k1_methods`.
The SQL formatters themselves are regenerated from the code (`Generated/SqlFormatters.lean`) and proved equal to the
hand-written SQL model (`C05_formatter_*`).

Reading of the property used here (DESIGN Appendix B + §6):
* where the documentation determines a value, a backend that claims the method must compute it (`C05_pandas_*`,
  `C05_sqlite_*`);
* where it is silent about an argument that is in the method's domain (a null operand of a comparison, a tie of `round` …)
  the backends that claim the method must still agree with each other – a documented meaning is *one* value; the places
  where they do not are listed with a witness each (`C05_silent_*_necessary`) and are the known findings of this
  property;
* the documented destination differences of C01 (integer `/`, `%`; sum / count … over a group without non-null value)
  are scope hypotheses.

Full-strength statements that are false of the unchanged code are kept in comments next to the `…_partial` theorem
that holds, with the witness of the excluded point (`…_necessary`).
-/
namespace DAVerif
open DAVerif.Doc DAVerif.C05

/-! ## 1. Row-wise methods -/

/-- **Pandas, every row-wise method of the provable classes, full strength**: whenever the documentation determines the
value of `op` on `args` (any operator name, any argument list), the Pandas executor's value is that value. -/
theorem C05_pandas_scalar (op : String) (args : List ArgV) (v : Val)
    (h : docScalar op args = some v) : ThetaX.scalar op args = v := by
  unfold docScalar at h
  split at h
  · exact pandas_add args v h
  · exact pandas_mul args v h
  · exact pandas_sub args v h
  · exact pandas_div args v h
  · exact pandas_fdiv args v h
  · exact pandas_floordiv args v h
  · exact pandas_pct args v h
  · exact pandas_mod args v h
  · exact pandas_remainder args v h
  · exact pandas_pow args v h
  · exact pandas_eq args v h
  · exact pandas_ne args v h
  · exact pandas_lt args v h
  · exact pandas_le args v h
  · exact pandas_gt args v h
  · exact pandas_ge args v h
  · exact pandas_and args v h
  · exact pandas_or args v h
  · exact pandas_sign args v h
  · exact pandas_abs args v h
  · exact pandas_floor args v h
  · exact pandas_ceil args v h
  · exact pandas_round args v h
  · exact pandas_around args v h
  · exact pandas_maximum args v h
  · exact pandas_minimum args v h
  · exact pandas_fmax args v h
  · exact pandas_fmin args v h
  · exact pandas_is_null args v h
  · exact pandas_is_nan args v h
  · exact pandas_is_inf args v h
  · exact pandas_is_bad args v h
  · exact pandas_if_else args v h
  · exact pandas_where args v h
  · exact pandas_coalesce args v h
  · exact pandas_is_in args v h
  · exact pandas_mapv args v h
  · exact pandas_concat args v h
  · exact pandas_trimstr args v h
  · exact pandas_as_int64 args v h
  · exact pandas_as_str args v h
  · simp at h

/-- scope `S_int` (C01's documented destination difference "integer `/`"): `/` and `//` (rendered `FLOOR(a / b)`) are
claimed only when the operand columns are not stored as INTEGER -/
def S_int (ints : Bool) (op : String) : Prop := (op = "/" ∨ op = "//") → ints = false

/-- finding guard `G_mod` (known findings C05-sqlite-mod-casts-operands-to-integer, C05-sql-mod-sign-of-dividend; for
integer columns this is the documented destination difference "integer `%`"): SQLite's `%`, which also renders `mod` and
`remainder`, is the documented modulo on non-negative integer-valued operands only -/
def G_mod (op : String) (args : List ArgV) : Bool :=
  if op == "%" || op == "mod" || op == "remainder" then
    match args with
    | [.v (.num x), .v (.num y)] => decide (0 ≤ x) && decide (0 < y) && x.den == 1 && y.den == 1
    | _ => true
  else true

/-- scope `S_set`: `is_in` over the empty set (the SQL text `x IN ()` is not valid SQL; Pandas answers False) -/
def S_set (op : String) (args : List ArgV) : Prop := op = "is_in" → ∀ a, args ≠ [.v a, .l []]

/- Full statement (false of the unchanged code, see the `…_necessary` theorems below):
     docScalar op args = some v → ThetaSqlX.scalar ints op args = v -/
/-- **SQLite, every row-wise method of the provable classes**: whenever the documentation determines the value, the
generated SQL computes it – under the documented difference `S_int`, the scope `S_set` and the finding guard `G_mod`. -/
theorem C05_sqlite_scalar_partial (ints : Bool) (op : String) (args : List ArgV) (v : Val)
    (h : docScalar op args = some v) (hint : S_int ints op) (hset : S_set op args) (hmod : G_mod op args = true) :
    ThetaSqlX.scalar ints op args = v := by
  unfold docScalar at h
  split at h
  · exact pandas_add args v h
  · exact pandas_mul args v h
  · exact pandas_sub args v h
  · have : ints = false := hint (Or.inl rfl)
    subst this; exact pandas_div args v h
  · exact pandas_fdiv args v h
  · have : ints = false := hint (Or.inr rfl)
    subst this; exact pandas_floordiv args v h
  · obtain ⟨x, y, rfl, hf⟩ := num2_some h
    have hg : (decide (0 ≤ x) && decide (0 < y) && x.den == 1 && y.den == 1) = true := hmod
    simp only [Bool.and_eq_true, decide_eq_true_eq, beq_iff_eq] at hg
    exact sqlite_modlike x y v hg.1.1.1 hg.1.1.2 hg.1.2 hg.2 hf
  · obtain ⟨x, y, rfl, hf⟩ := num2_some h
    have hg : (decide (0 ≤ x) && decide (0 < y) && x.den == 1 && y.den == 1) = true := hmod
    simp only [Bool.and_eq_true, decide_eq_true_eq, beq_iff_eq] at hg
    exact sqlite_modlike x y v hg.1.1.1 hg.1.1.2 hg.1.2 hg.2 hf
  · obtain ⟨x, y, rfl, hf⟩ := num2_some h
    have hg : (decide (0 ≤ x) && decide (0 < y) && x.den == 1 && y.den == 1) = true := hmod
    simp only [Bool.and_eq_true, decide_eq_true_eq, beq_iff_eq] at hg
    exact sqlite_modlike x y v hg.1.1.1 hg.1.1.2 hg.1.2 hg.2 hf
  · exact sqlite_pow ints args v h
  · exact sqlite_eq ints args v h
  · exact sqlite_ne ints args v h
  · exact sqlite_lt ints args v h
  · exact sqlite_le ints args v h
  · exact sqlite_gt ints args v h
  · exact sqlite_ge ints args v h
  · exact sqlite_and ints args v h
  · exact sqlite_or ints args v h
  · exact pandas_sign args v h
  · exact pandas_abs args v h
  · exact pandas_floor args v h
  · exact pandas_ceil args v h
  · exact sqlite_round ints args v h
  · exact sqlite_around ints args v h
  · exact pandas_maximum args v h
  · exact pandas_minimum args v h
  · exact pandas_fmax args v h
  · exact pandas_fmin args v h
  · exact pandas_is_null args v h
  · exact pandas_is_nan args v h
  · exact pandas_is_inf args v h
  · exact pandas_is_bad args v h
  · exact pandas_if_else args v h
  · exact sqlite_where ints args v h
  · exact pandas_coalesce args v h
  · exact sqlite_is_in ints args v h (hset rfl)
  · exact pandas_mapv args v h
  · exact sqlite_concat ints args v h
  · exact pandas_trimstr args v h
  · exact sqlite_as_int64 ints args v h
  · exact sqlite_as_str ints args v h
  · simp at h

/-- corollary: where both claim a documented value, the two backends agree -/
theorem C05_backends_agree_documented (ints : Bool) (op : String) (args : List ArgV) (v : Val)
    (h : docScalar op args = some v) (hint : S_int ints op) (hset : S_set op args) (hmod : G_mod op args = true) :
    ThetaX.scalar op args = ThetaSqlX.scalar ints op args := by
  rw [C05_pandas_scalar op args v h, C05_sqlite_scalar_partial ints op args v h hint hset hmod]

/-! ### the excluded points are real (witnesses; each also runs on the real code as a corpus case) -/

/-- `G_mod` is necessary (fractions): `2.5 % 1` is documented 0.5, SQLite casts both operands to INTEGER and answers 0 -/
theorem C05_G_mod_fraction_necessary :
    docScalar "%" [.v (.num (5/2)), .v (.num 1)] = some (.num (1/2)) ∧
    ThetaSqlX.scalar false "%" [.v (.num (5/2)), .v (.num 1)] = .num 0 := by decide +kernel

/-- `G_mod` is necessary (signs): `-1 remainder 2` is documented 1 (sign of the divisor), SQLite answers -1 -/
theorem C05_G_mod_sign_necessary :
    docScalar "remainder" [.v (.num (-1)), .v (.num 2)] = some (.num 1) ∧
    ThetaSqlX.scalar false "remainder" [.v (.num (-1)), .v (.num 2)] = .num (-1) := by decide +kernel

/-- `S_int` is a real difference: over INTEGER columns `1 / 2` is 0 on SQLite (documented: integer `/`) -/
theorem C05_S_int_necessary :
    docScalar "/" [.v (.num 1), .v (.num 2)] = some (.num (1/2)) ∧
    ThetaSqlX.scalar true "/" [.v (.num 1), .v (.num 2)] = .num 0 := by decide +kernel

/-! ### arguments about which the documentation is silent: where the two backends agree, and where they do not -/

/-- a missing operand of `+ - * / %/% //`, `maximum`, `minimum`: both backends answer missing -/
theorem C05_silent_null_arithmetic_agree (op : String)
    (hop : op ∈ ["+", "-", "*", "/", "%/%", "//", "maximum", "minimum"]) (a b : Val)
    (ha : numOrNull a = true) (hb : numOrNull b = true) (hnull : a = .null ∨ b = .null) :
    ThetaX.scalar op [.v a, .v b] = .null ∧ ThetaSqlX.scalar false op [.v a, .v b] = .null := by
  simp only [List.mem_cons, List.mem_nil_iff, or_false] at hop
  rcases hop with rfl | rfl | rfl | rfl | rfl | rfl | rfl | rfl <;>
    cases a <;> cases b <;>
    first
    | exact ⟨rfl, rfl⟩
    | (simp [numOrNull] at ha hb; done)
    | (rcases hnull with h | h <;> cases h)

/-- finding C05-null-operand-comparison-logic (N1): a comparison with a missing operand is False on Pandas (`!=`: True),
NULL in SQL -/
theorem C05_silent_null_comparison_necessary :
    ThetaX.scalar "==" [.v .null, .v (.num 1)] = .bool false ∧ ThetaSqlX.scalar false "==" [.v .null, .v (.num 1)] = .null ∧
    ThetaX.scalar "!=" [.v .null, .v (.num 1)] = .bool true ∧ ThetaSqlX.scalar false "!=" [.v .null, .v (.num 1)] = .null ∧
    ThetaX.scalar "<" [.v (.num 0), .v .null] = .bool false ∧ ThetaSqlX.scalar false "<" [.v (.num 0), .v .null] = .null ∧
    ThetaX.scalar "is_in" [.v .null, .l [.num 1]] = .bool false ∧ ThetaSqlX.scalar false "is_in" [.v .null, .l [.num 1]] = .null := by
  decide +kernel

/-- same finding, connectives: Pandas evaluates Python's `and` / `or` on the objects (`None and False` is `None`,
`None or False` is `False`), SQL is Kleene logic (`NULL AND FALSE` is `FALSE`, `NULL OR FALSE` is `NULL`) -/
theorem C05_silent_null_connective_necessary :
    ThetaX.scalar "and" [.v .null, .v (.bool false)] = .null ∧
    ThetaSqlX.scalar false "and" [.v .null, .v (.bool false)] = .bool false ∧
    ThetaX.scalar "or" [.v .null, .v (.bool false)] = .bool false ∧
    ThetaSqlX.scalar false "or" [.v .null, .v (.bool false)] = .null := by decide +kernel

/-- finding C05-round-half-rule (N3): on a tie numpy rounds to even, SQL `ROUND` away from zero -/
theorem C05_silent_round_tie_necessary :
    docScalar "round" [.v (.num (5/2))] = none ∧
    ThetaX.scalar "round" [.v (.num (5/2))] = .num 2 ∧ ThetaSqlX.scalar false "round" [.v (.num (5/2))] = .num 3 ∧
    ThetaX.scalar "around" [.v (.num (9/8)), .v (.num 2)] = .num (28/25) ∧
    ThetaSqlX.scalar false "around" [.v (.num (9/8)), .v (.num 2)] = .num (113/100) := by decide +kernel

/-- finding C05-pandas-concat-null-as-text (N4): a missing string is the text `nan` on Pandas, NULL in SQL -/
theorem C05_silent_concat_null_necessary :
    ThetaX.scalar "concat" [.v .null, .v (.str "z")] = .str "nanz" ∧
    ThetaSqlX.scalar false "concat" [.v .null, .v (.str "z")] = .null := by decide +kernel

/-- finding C05-pandas-power-null: `null ** 0` is 1 on Pandas (IEEE `pow`), NULL in SQL -/
theorem C05_silent_power_null_necessary :
    ThetaX.scalar "**" [.v .null, .v (.num 0)] = .num 1 ∧ ThetaSqlX.scalar false "**" [.v .null, .v (.num 0)] = .null := by
  decide +kernel

/-! ## 2. Aggregates (classes g, p, up) -/

/-- the aggregates proved here (`max min median var nunique` are modelled and tied by `k1_methods`, their documented
value is checked by the oracle; they are listed under `modelledOps` below) -/
def provedAggOps : List String := ["sum", "count", "size", "_size", "mean", "all", "any", "any_value"]

/-- **Pandas aggregates, full strength** -/
theorem C05_pandas_agg (op : String) (hop : op ∈ provedAggOps) (vs : List Val) (v : Val)
    (h : docAgg op vs = some v) : ThetaX.agg op vs = v := by
  simp only [provedAggOps, List.mem_cons, List.mem_nil_iff, or_false] at hop
  rcases hop with rfl | rfl | rfl | rfl | rfl | rfl | rfl | rfl
  · exact pandas_sum vs v h
  · exact pandas_count vs v h
  · exact pandas_size vs v h
  · exact pandas__size vs v h
  · exact pandas_mean vs v h
  · exact pandas_all vs v h
  · exact pandas_any vs v h
  · exact pandas_any_value vs v h

/-- scope `S_group` (C01's documented destination difference): the group has a non-null value -/
def S_group (vs : List Val) : Prop := Doc.nonNull vs ≠ []

theorem nonempty_of_S_group {vs : List Val} (h : S_group vs) : vs ≠ [] := by
  intro e; subst e; exact h rfl

/- Full statement (false: SUM, the CASE-sums and MIN/MAX of no value are NULL where the documentation says 0 / False):
     docAgg op vs = some v → ThetaSqlX.agg op vs = v -/
/-- **SQLite aggregates** under the documented difference `S_group` (`any_value` = `MAX` is left to the oracle on
constant groups; `all` is the repaired formatter, fix C05-sql-all-ignores-null) -/
theorem C05_sqlite_agg_partial (op : String) (hop : op ∈ ["sum", "count", "size", "_size", "mean", "all", "any"])
    (vs : List Val) (v : Val) (h : docAgg op vs = some v) (hg : S_group vs) : ThetaSqlX.agg op vs = v := by
  simp only [List.mem_cons, List.mem_nil_iff, or_false] at hop
  rcases hop with rfl | rfl | rfl | rfl | rfl | rfl | rfl
  · exact sqlite_sum vs v h hg
  · exact sqlite_count vs v h (nonempty_of_S_group hg)
  · exact sqlite_size vs v h (nonempty_of_S_group hg)
  · exact sqlite__size vs v h (nonempty_of_S_group hg)
  · exact sqlite_mean vs v h
  · exact sqlite_all vs v h hg
  · exact sqlite_any vs v h (nonempty_of_S_group hg)

/-- `S_group` is a real difference: the sum of a group of missing values is 0 in the documentation and on Pandas, NULL in SQL -/
theorem C05_S_group_necessary :
    docAgg "sum" [.null] = some (.num 0) ∧ ThetaX.agg "sum" [.null] = .num 0 ∧ ThetaSqlX.agg "sum" [.null] = .null := by
  decide +kernel

/-- the defect repaired by fix C05-sql-all-ignores-null, on the shared model of the *unrepaired* formatter
(`ThetaSql.agg "all"` is the pandas value): with the old `CASE WHEN a THEN 1 ELSE 0 END` a missing item counted as False;
the documentation and Pandas ignore it -/
theorem C05_all_null_item_documented :
    docAgg "all" [.bool true, .null] = some (.bool true) ∧ ThetaX.agg "all" [.bool true, .null] = .bool true ∧
    ThetaSqlX.agg "all" [.bool true, .null] = .bool true := by decide +kernel

/-! ## 3. Window functions (class w) -/

def provedWinOpsPandas : List String := ["cumsum", "cumprod", "cummax", "cummin", "_row_number", "shift"]
def provedWinOpsSqlite : List String := ["cumsum", "cummax", "cummin", "_row_number", "shift"]

/- Full statement over all window functions is false for `cumcount` (`C05_G_cumcount_necessary`). -/
/-- **Pandas window functions** -/
theorem C05_pandas_win_partial (op : String) (hop : op ∈ provedWinOpsPandas) (cargs vs : List Val) (pos : Nat) (v : Val)
    (h : docWin op cargs vs pos = some v) : ThetaX.win op cargs vs pos = v := by
  simp only [provedWinOpsPandas, List.mem_cons, List.mem_nil_iff, or_false] at hop
  rcases hop with rfl | rfl | rfl | rfl | rfl | rfl
  · exact pandas_cumsum cargs vs pos v h
  · exact pandas_cumprod cargs vs pos v h
  · exact pandas_cummax cargs vs pos v h
  · exact pandas_cummin cargs vs pos v h
  · exact pandas_row_number cargs vs pos v h
  · exact pandas_shift cargs vs pos v h

/-- **SQLite window functions** (the catalogue does not claim `cumprod` for SQLite) -/
theorem C05_sqlite_win (op : String) (hop : op ∈ provedWinOpsSqlite) (cargs vs : List Val) (pos : Nat) (v : Val)
    (h : docWin op cargs vs pos = some v) : ThetaSqlX.win op cargs vs pos = v := by
  simp only [provedWinOpsSqlite, List.mem_cons, List.mem_nil_iff, or_false] at hop
  rcases hop with rfl | rfl | rfl | rfl | rfl
  · exact sqlite_cumsum cargs vs pos v h
  · exact sqlite_cummax cargs vs pos v h
  · exact sqlite_cummin cargs vs pos v h
  · exact sqlite_row_number cargs vs pos v h
  · exact sqlite_shift cargs vs pos v h

/-- finding C05-pandas-cumcount-is-row-index (guard `G_cumcount`: `op ≠ "cumcount"`): the docstring says "cumulative number
of non-NA cells" (1 for the first row of `[1]`), Pandas' `cumcount` numbers the rows from 0 -/
theorem C05_G_cumcount_necessary :
    docWin "cumcount" [] [.num 1] 0 = some (.num 1) ∧ ThetaX.win "cumcount" [] [.num 1] 0 = .num 0 := by decide +kernel

/-- finding C05-cumulative-window-null-row (D22): at a row whose argument is missing the documentation is silent, Pandas
answers missing, SQL carries the running value -/
theorem C05_silent_cumulative_null_necessary :
    docWin "cumsum" [] [.num 1, .null] 1 = none ∧
    ThetaX.win "cumsum" [] [.num 1, .null] 1 = .null ∧ ThetaSqlX.win "cumsum" [] [.num 1, .null] 1 = .num 1 := by
  decide +kernel

/-! ## 4. The shared models `Theta` / `ThetaSql` against the completed ones (for the relational theorems C01–C03) -/

/-- the shared pandas interpretation is the completed one except for the operators this file overrides -/
theorem C05_shared_pandas_partial (op : String)
    (hop : op ∉ ["and", "or", "**", "round", "remainder", "as_int64", "concat", "as_str"]) (args : List ArgV) :
    ThetaX.scalar op args = Theta.scalar op args := by
  unfold ThetaX.scalar
  split <;> first | rfl | (exfalso; simp at hop)

/-- … and it is not for those: `False and None` is `False` on the real executor (Python's `and` on objects) -/
theorem C05_shared_pandas_and_necessary :
    ThetaX.scalar "and" [.v (.bool false), .v .null] = .bool false ∧
    Theta.scalar "and" [.v (.bool false), .v .null] = .null := by decide +kernel

/-- the shared SQL interpretation is the completed one (REAL operand columns) except for `% mod remainder round as_int64
as_str` -/
theorem C05_shared_sqlite_partial (op : String)
    (hop : op ∉ ["%", "mod", "remainder", "round", "as_int64", "as_str"]) (args : List ArgV) :
    ThetaSqlX.scalar false op args = ThetaSql.scalar op args := by
  unfold ThetaSqlX.scalar
  split <;> first | rfl | (exfalso; simp at hop)

/-- … and it is not for `%`: the shared model computes Python's modulo where SQLite casts to INTEGER -/
theorem C05_shared_sqlite_mod_necessary :
    ThetaSqlX.scalar false "%" [.v (.num (5/2)), .v (.num 1)] = .num 0 ∧
    ThetaSql.scalar "%" [.v (.num (5/2)), .v (.num 1)] = .num (1/2) := by decide +kernel

/-! ## 5. The SQL formatters, regenerated from the code -/
section Formatters
open DAVerif.Sql3

/-- `CASE WHEN a THEN x WHEN NOT a THEN y ELSE NULL END` is the SQL model of `if_else` (null on a null condition) -/
theorem C05_formatter_if_else (d : String) (hd : Dialect d) (c a b : Val) (hc : boolOrNull c = true) :
    evalSql3 (Gen.formatter d "if_else") (env [("a", c), ("x", a), ("y", b)]) = ThetaSql.scalar "if_else" [.v c, .v a, .v b] := by
  rcases hd with rfl | rfl <;> rcases boolOrNull_cases hc with rfl | rfl | rfl <;> rfl

theorem C05_formatter_where (d : String) (hd : Dialect d) (c a b : Val) (hc : boolOrNull c = true) :
    evalSql3 (Gen.formatter d "where") (env [("a", c), ("x", a), ("y", b)]) = ThetaSql.scalar "where" [.v c, .v a, .v b] := by
  rcases hd with rfl | rfl <;> rcases boolOrNull_cases hc with rfl | rfl | rfl <;> rfl

/-- `maximum` propagates NULL (the repaired D15: the bodies of `maximum` and `fmax` were exchanged) -/
theorem C05_formatter_maximum (d : String) (hd : Dialect d) (x y : Val) (hx : numOrNull x = true) (hy : numOrNull y = true) :
    evalSql3 (Gen.formatter d "maximum") (env [("x", x), ("y", y)]) = ThetaSql.scalar "maximum" [.v x, .v y] := by
  rcases numOrNull_cases hx with rfl | ⟨x, rfl⟩ <;> rcases numOrNull_cases hy with rfl | ⟨y, rfl⟩
  · rcases hd with rfl | rfl <;> rfl
  · rcases hd with rfl | rfl <;> rfl
  · rcases hd with rfl | rfl <;> rfl
  · rw [fmt_max_closed d hd]
    show _ = Val.num (if x < y then y else x)
    by_cases h : x < y <;> simp [h, truth, not3]

theorem C05_formatter_minimum (d : String) (hd : Dialect d) (x y : Val) (hx : numOrNull x = true) (hy : numOrNull y = true) :
    evalSql3 (Gen.formatter d "minimum") (env [("x", x), ("y", y)]) = ThetaSql.scalar "minimum" [.v x, .v y] := by
  rcases numOrNull_cases hx with rfl | ⟨x, rfl⟩ <;> rcases numOrNull_cases hy with rfl | ⟨y, rfl⟩
  · rcases hd with rfl | rfl <;> rfl
  · rcases hd with rfl | rfl <;> rfl
  · rcases hd with rfl | rfl <;> rfl
  · rw [fmt_min_closed d hd]
    show _ = Val.num (if y < x then y else x)
    by_cases h : y < x <;> simp [h, truth, not3]

/-- `fmax` ignores NULL -/
theorem C05_formatter_fmax (d : String) (hd : Dialect d) (x y : Val) (hx : numOrNull x = true) (hy : numOrNull y = true) :
    evalSql3 (Gen.formatter d "fmax") (env [("x", x), ("y", y)]) = ThetaSql.scalar "fmax" [.v x, .v y] := by
  rcases numOrNull_cases hx with rfl | ⟨x, rfl⟩ <;> rcases numOrNull_cases hy with rfl | ⟨y, rfl⟩
  · rcases hd with rfl | rfl <;> rfl
  · rcases hd with rfl | rfl <;> rfl
  · rcases hd with rfl | rfl <;> rfl
  · rw [fmt_fmax_closed d hd]
    show _ = Val.num (if x < y then y else x)
    by_cases h : x < y
    · have h' : ¬ y < x := Rat.not_lt.mpr (Rat.le_of_lt h)
      simp [h, h', truth, or3]
    · simp [h, truth, or3]

theorem C05_formatter_fmin (d : String) (hd : Dialect d) (x y : Val) (hx : numOrNull x = true) (hy : numOrNull y = true) :
    evalSql3 (Gen.formatter d "fmin") (env [("x", x), ("y", y)]) = ThetaSql.scalar "fmin" [.v x, .v y] := by
  rcases numOrNull_cases hx with rfl | ⟨x, rfl⟩ <;> rcases numOrNull_cases hy with rfl | ⟨y, rfl⟩
  · rcases hd with rfl | rfl <;> rfl
  · rcases hd with rfl | rfl <;> rfl
  · rcases hd with rfl | rfl <;> rfl
  · rw [fmt_fmin_closed d hd]
    show _ = Val.num (if y < x then y else x)
    by_cases h : y < x
    · have h' : ¬ x < y := Rat.not_lt.mpr (Rat.le_of_lt h)
      simp [h, h', truth, or3]
    · simp [h, truth, or3]

theorem C05_formatter_coalesce (d : String) (hd : Dialect d) (x y : Val) :
    evalSql3 (Gen.formatter d "coalesce") (env [("x", x), ("y", y)]) = ThetaSql.scalar "coalesce" [.v x, .v y] := by
  have e : evalSql3 (Gen.formatter d "coalesce") (env [("x", x), ("y", y)]) = Sql3.coalesce [x, y] := by
    rcases hd with rfl | rfl <;> rfl
  rw [e, coalesce2]; rfl

theorem C05_formatter_is_null (d : String) (hd : Dialect d) (x : Val) :
    evalSql3 (Gen.formatter d "is_null") (env [("x", x)]) = ThetaSql.scalar "is_null" [.v x] := by
  rcases hd with rfl | rfl <;> rfl

/-- `x IN (1, 3)`: NULL for a NULL `x` -/
theorem C05_formatter_is_in (d : String) (hd : Dialect d) (x : Val) (hx : numOrNull x = true) :
    evalSql3 (Gen.formatter d "is_in") (env [("x", x)]) = ThetaSql.scalar "is_in" [.v x, .l [.num 1, .num 3]] := by
  rcases numOrNull_cases hx with rfl | ⟨q, rfl⟩
  · rcases hd with rfl | rfl <;> rfl
  · have e : evalSql3 (Gen.formatter d "is_in") (env [("x", .num q)]) = in3 (.num q) [.num 1, .num 3] := by
      rcases hd with rfl | rfl <;> rfl
    rw [e]
    show in3 (.num q) [.num 1, .num 3] = Val.bool ([Val.num 1, Val.num 3].any (fun x => Theta.valEq (.num q) x))
    by_cases h1 : q = 1
    · subst h1; rfl
    · by_cases h3 : q = 3
      · subst h3; rfl
      · simp [in3, Val.isNull, eqv, numOf, Theta.valEq, Theta.num?, h1, h3]

/-- `CASE s WHEN 'a' THEN 1 WHEN 'b' THEN 2 ELSE 0 END` is the SQL model of `mapv` on a string or missing cell -/
theorem C05_formatter_mapv (d : String) (hd : Dialect d) (s : Val) (hs : ∀ q, s ≠ .num q) (hb : ∀ q, s ≠ .bool q) :
    evalSql3 (Gen.formatter d "mapv") (env [("s", s)]) =
      ThetaSql.scalar "mapv" [.v s, .d [(.str "a", .num 1), (.str "b", .num 2)], .v (.num 0)] := by
  cases s with
  | null => rcases hd with rfl | rfl <;> rfl
  | num q => exact absurd rfl (hs q)
  | bool q => exact absurd rfl (hb q)
  | str t =>
    have e : evalSql3 (Gen.formatter d "mapv") (env [("s", .str t)]) =
        (match truth (cmp3 .eq (.str t) (.str "a")) with
         | some true => Val.num 1
         | _ => match truth (cmp3 .eq (.str t) (.str "b")) with | some true => .num 2 | _ => .num 0) := by
      rcases hd with rfl | rfl <;> rfl
    rw [e]
    show _ = (([(Val.str "a", Val.num 1), (.str "b", .num 2)].find? (fun kv => Theta.valEq kv.1 (.str t))).map (·.2)).getD (.num 0)
    by_cases ha : t = "a"
    · subst ha; rfl
    · by_cases hb' : t = "b"
      · subst hb'; rfl
      · have n1 : (Val.str "a" == Val.str t) = false := beq_eq_false_iff_ne.mpr (fun h => ha (Val.str.inj h).symm)
        have n2 : (Val.str "b" == Val.str t) = false := beq_eq_false_iff_ne.mpr (fun h => hb' (Val.str.inj h).symm)
        have m1 : (Val.str t == Val.str "a") = false := beq_eq_false_iff_ne.mpr (fun h => ha (Val.str.inj h))
        have m2 : (Val.str t == Val.str "b") = false := beq_eq_false_iff_ne.mpr (fun h => hb' (Val.str.inj h))
        simp [cmp3, cmpVal, eqv, numOf, truth, Val.isNull, Theta.valEq, Theta.num?, List.find?, n1, n2, m1, m2]

/-- the six comparisons, every pair of cells: three-valued (`"x" = "y"` …) -/
theorem C05_formatter_comparisons (d : String) (hd : Dialect d) (op : String)
    (hop : op ∈ ["==", "!=", "<", "<=", ">", ">="]) (x y : Val) :
    evalSql3 (Gen.formatter d op) (env [("x", x), ("y", y)]) = ThetaSql.scalar op [.v x, .v y] := by
  simp only [List.mem_cons, List.mem_nil_iff, or_false] at hop
  rcases hop with rfl | rfl | rfl | rfl | rfl | rfl
  · have e : evalSql3 (Gen.formatter d "==") (env [("x", x), ("y", y)]) = Sql3.cmp3 .eq x y := by
      rcases hd with rfl | rfl <;> rfl
    rw [e]; exact cmp3_eq .eq _ (fun a b => eqv_valEq a b) x y
  · have e : evalSql3 (Gen.formatter d "!=") (env [("x", x), ("y", y)]) = Sql3.cmp3 .ne x y := by
      rcases hd with rfl | rfl <;> rfl
    rw [e]; exact cmp3_eq .ne _ (fun a b => by show (!eqv a b) = _; rw [eqv_valEq]) x y
  · have e : evalSql3 (Gen.formatter d "<") (env [("x", x), ("y", y)]) = Sql3.cmp3 .lt x y := by
      rcases hd with rfl | rfl <;> rfl
    rw [e]; exact cmp3_eq .lt _ (fun _ _ => rfl) x y
  · have e : evalSql3 (Gen.formatter d "<=") (env [("x", x), ("y", y)]) = Sql3.cmp3 .le x y := by
      rcases hd with rfl | rfl <;> rfl
    rw [e]; exact cmp3_eq .le _ (fun _ _ => rfl) x y
  · have e : evalSql3 (Gen.formatter d ">") (env [("x", x), ("y", y)]) = Sql3.cmp3 .gt x y := by
      rcases hd with rfl | rfl <;> rfl
    rw [e]; exact cmp3_eq .gt _ (fun _ _ => rfl) x y
  · have e : evalSql3 (Gen.formatter d ">=") (env [("x", x), ("y", y)]) = Sql3.cmp3 .ge x y := by
      rcases hd with rfl | rfl <;> rfl
    rw [e]; exact cmp3_eq .ge _ (fun _ _ => rfl) x y

/-- `not a` is rendered `"a" = FALSE` -/
theorem C05_formatter_not (d : String) (hd : Dialect d) (a : Val) :
    evalSql3 (Gen.formatter d "not") (env [("a", a)]) = ThetaSql.scalar "==" [.v a, .v (.bool false)] := by
  have e : evalSql3 (Gen.formatter d "not") (env [("a", a)]) = Sql3.cmp3 .eq a (.bool false) := by
    rcases hd with rfl | rfl <;> rfl
  rw [e]; exact cmp3_eq .eq _ (fun a b => eqv_valEq a b) a (.bool false)

/-- `a AND b`, `a AND b AND c`, `a OR b`, `a OR b OR c` are Kleene's connectives -/
theorem C05_formatter_and (d : String) (hd : Dialect d) (a b : Val) (ha : boolOrNull a = true) (hb : boolOrNull b = true) :
    evalSql3 (Gen.formatter d "and") (env [("a", a), ("b", b)]) = ThetaSql.scalar "and" [.v a, .v b] := by
  obtain ⟨a, rfl⟩ := ob_of_boolOrNull ha
  obtain ⟨b, rfl⟩ := ob_of_boolOrNull hb
  have e : evalSql3 (Gen.formatter d "and") (env [("a", ob a), ("b", ob b)]) = Sql3.and3 (ob a) (ob b) := by
    rcases hd with rfl | rfl <;> rfl
  rw [e, and3_pair]; rfl

theorem C05_formatter_or (d : String) (hd : Dialect d) (a b : Val) (ha : boolOrNull a = true) (hb : boolOrNull b = true) :
    evalSql3 (Gen.formatter d "or") (env [("a", a), ("b", b)]) = ThetaSql.scalar "or" [.v a, .v b] := by
  obtain ⟨a, rfl⟩ := ob_of_boolOrNull ha
  obtain ⟨b, rfl⟩ := ob_of_boolOrNull hb
  have e : evalSql3 (Gen.formatter d "or") (env [("a", ob a), ("b", ob b)]) = Sql3.or3 (ob a) (ob b) := by
    rcases hd with rfl | rfl <;> rfl
  rw [e, or3_pair]; rfl

theorem C05_formatter_and3 (d : String) (hd : Dialect d) (a b c : Option Bool) :
    evalSql3 (Gen.formatter d "and3") (env [("a", ob a), ("b", ob b), ("c", ob c)]) =
      ThetaSql.scalar "and" [.v (ob a), .v (ob b), .v (ob c)] := by
  have e : evalSql3 (Gen.formatter d "and3") (env [("a", ob a), ("b", ob b), ("c", ob c)]) =
      Sql3.and3 (Sql3.and3 (ob a) (ob b)) (ob c) := by
    rcases hd with rfl | rfl <;> rfl
  rw [e, and3_triple]; rfl

theorem C05_formatter_or3 (d : String) (hd : Dialect d) (a b c : Option Bool) :
    evalSql3 (Gen.formatter d "or3") (env [("a", ob a), ("b", ob b), ("c", ob c)]) =
      ThetaSql.scalar "or" [.v (ob a), .v (ob b), .v (ob c)] := by
  have e : evalSql3 (Gen.formatter d "or3") (env [("a", ob a), ("b", ob b), ("c", ob c)]) =
      Sql3.or3 (Sql3.or3 (ob a) (ob b)) (ob c) := by
    rcases hd with rfl | rfl <;> rfl
  rw [e, or3_triple]; rfl

theorem S_int_trivial (op : String) : S_int false op := fun _ => rfl

/-- formatter and documentation, composed: on the documented domain the *generated* `if_else` text computes the docstring -/
theorem C05_formatter_if_else_doc (d : String) (hd : Dialect d) (c a b v : Val)
    (h : docScalar "if_else" [.v c, .v a, .v b] = some v) :
    evalSql3 (Gen.formatter d "if_else") (env [("a", c), ("x", a), ("y", b)]) = v := by
  have hc : boolOrNull c = true := by
    cases c with
    | null => rfl
    | bool _ => rfl
    | num q => exact absurd (show (none : Option Val) = some v from h) (by simp)
    | str s => exact absurd (show (none : Option Val) = some v from h) (by simp)
  rw [C05_formatter_if_else d hd c a b hc]
  exact C05_sqlite_scalar_partial false "if_else" _ v h (S_int_trivial _) (fun e => absurd e (by decide)) rfl

/-- … and `maximum` (documented null behaviour: propagate) -/
theorem C05_formatter_maximum_doc (d : String) (hd : Dialect d) (x y v : Val)
    (h : docScalar "maximum" [.v x, .v y] = some v) :
    evalSql3 (Gen.formatter d "maximum") (env [("x", x), ("y", y)]) = v := by
  have hk : numOrNull x = true ∧ numOrNull y = true := by
    cases x <;> cases y <;>
      first | exact ⟨rfl, rfl⟩ | exact absurd (show (none : Option Val) = some v from h) (by simp)
  rw [C05_formatter_maximum d hd x y hk.1 hk.2]
  exact C05_sqlite_scalar_partial false "maximum" _ v h (S_int_trivial _) (fun e => absurd e (by decide)) rfl

end Formatters

/-! ## 6. The catalogue is covered -/

/-- operators with theorems above (row-wise: every clause of `docScalar`; aggregates and windows: the proved lists) -/
def provedOps : List String :=
  ["+", "*", "-", "/", "%/%", "//", "%", "mod", "remainder", "**", "==", "!=", "<", "<=", ">", ">=", "and", "or", "sign",
   "abs", "floor", "ceil", "round", "around", "maximum", "minimum", "fmax", "fmin", "is_null", "is_nan", "is_inf", "is_bad",
   "if_else", "where", "coalesce", "is_in", "mapv", "concat", "trimstr", "as_int64"]
  ++ provedAggOps ++ provedWinOpsPandas ++ ["cumcount"]

/-- operators that are modelled (`ThetaX` / `ThetaSqlX`, tied by `k1_methods`) and judged by the oracle against the
documentation, but whose documented value is not proved here (order statistics and fills) -/
def modelledOps : List String :=
  ["max", "min", "median", "var", "nunique", "rank", "ffill", "bfill", "first", "last"]

/-- **every row of the regenerated method catalogue is accounted for**: proved, modelled-and-sampled, or class 3
(`Doc.sampledOps`: transcendental, date/time, text of numbers, random, undocumented zero-argument functions).
A new catalogue row that nobody classified makes this fail when the table is regenerated. -/
theorem C05_catalog_covered :
    ∀ row ∈ Gen.catalog, (row.headD "") ∈ provedOps ∨ (row.headD "") ∈ modelledOps ∨ (row.headD "") ∈ Doc.sampledOps := by
  decide +kernel

/-- every operator of the provable classes named by the specification has its theorems or is listed as modelled only -/
theorem C05_provable_covered : ∀ op ∈ Doc.provableOps, op ∈ provedOps ∨ op ∈ modelledOps := by decide +kernel

/-! ## 7. Non-vacuity: the hypotheses are satisfiable on concrete non-trivial instances -/

example : docScalar "maximum" [.v (.num 2), .v .null] = some .null := by decide +kernel
example : ThetaSqlX.scalar false "maximum" [.v (.num 2), .v .null] = .null :=
  C05_sqlite_scalar_partial false "maximum" _ _ (by decide +kernel) (S_int_trivial _) (fun e => absurd e (by decide)) rfl
example : docScalar "fmax" [.v (.num 2), .v .null] = some (.num 2) := by decide +kernel
example : docScalar "if_else" [.v .null, .v (.num 1), .v (.num 2)] = some .null := by decide +kernel
example : docScalar "where" [.v .null, .v (.num 1), .v (.num 2)] = some (.num 2) := by decide +kernel
example : docScalar "%" [.v (.num 7), .v (.num 3)] = some (.num 1) ∧ G_mod "%" [.v (.num 7), .v (.num 3)] = true := by
  decide +kernel
example : docScalar "around" [.v (.num (9/8)), .v (.num 1)] = some (.num (11/10)) := by decide +kernel
example : docScalar "+" [.v (.num 1), .v (.num 2), .v (.num (1/2))] = some (.num (7/2)) := by decide +kernel
example : docScalar "trimstr" [.v (.str "abcdef"), .v (.num 1), .v (.num 3)] = some (.str "bc") := by decide +kernel
example : docAgg "sum" [.num 1, .null, .num 3] = some (.num 4) ∧ S_group [.num 1, .null, .num 3] := by
  constructor
  · decide +kernel
  · intro h; revert h; decide +kernel
example : docWin "cumsum" [] [.num 1, .num 2, .num 3] 2 = some (.num 6) := by decide +kernel
example : docWin "shift" [.num 2] [.num 1, .num 2, .num 3] 2 = some (.num 1) := by decide +kernel
example : Sql3.evalSql3 (Gen.formatter "sqlite" "maximum") (env [("x", .num 2), ("y", .null)]) = .null :=
  C05_formatter_maximum "sqlite" (Or.inl rfl) _ _ rfl rfl

end DAVerif
