import DAVerif.Proofs.SqlFullTrans
import DAVerif.Props.C01joins
/-!
# C16 — SQLite's emulated FULL join (`_emit_full_join_as_complex`)

SQLite has no FULL JOIN; `SQLiteModel` renders `a.natural_join(b, on=K, jointype='full')` as

  `keys = (a.project({}, K) ++ b.project({}, K)).project({}, K);   (keys ⟕ a on K) ⟕ b on K`,

built through the user-level builders and re-translated.

* Scope (`SqliteFullOK`): the code asserts `len(on_a) > 0` and `on_a == on_b`; otherwise the translation fails with
  `AssertionError` (`C16_sqlite_full_scope`).
* `C16_sqlite_full_partial`: **when no join key of either side is null** the SQL returns exactly the columns of the two
  sides and the rows of the reference FULL join as a multiset.
* Full statement (false of the code, DESIGN §5.5 D19):
  `∀ data, rows(SQL) ≈ rows(a ⟗ b)`.  With null keys, every null-key row of either side is replaced by one row
  holding NULL in all non-key columns (`GROUP BY` puts the null keys into one group, which then matches nothing):
  `C16_sqlite_full_nullkeys_necessary`, a concrete counterexample; the real library behaves the same
  (`SQLiteModel` on sqlite3: `a = [(k=NULL, x=1), (1, 5)]`, `b = [(1, 2), (NULL, 7)]` returns
  `(NULL, NULL, NULL), (1, 5, 2)`; the FULL join has the three rows `(NULL, 1, NULL), (1, 5, 2), (NULL, NULL, 7)`).
-/
namespace DAVerif
open DAVerif.Sql

/-- the scope of SQLite's FULL join emulation: non-empty, identical key lists -/
def SqliteFullOK (onA onB : List String) : Prop := onA ≠ [] ∧ onA = onB

instance (onA onB : List String) : Decidable (SqliteFullOK onA onB) := by unfold SqliteFullOK; exact inferInstance

/-- **C16_sqlite_full_scope.**  Outside `SqliteFullOK` (no keys, or differently named keys) `to_sql` of a FULL join
fails on SQLite with `AssertionError` – at the root and, since the translation is compositional in errors, wherever
the node is reached (`Sql.toNear_sqlite_full_assert`). -/
theorem C16_sqlite_full_scope (cfg : SqlCfg) (hemu : cfg.emulateRightFull = true) (a b : Ops) (onA onB : List String)
    (h : ¬ SqliteFullOK onA onB) : toNearSql cfg (.join a b onA onB .full) = .error .assertionError := by
  have h' : onA = [] ∨ onA ≠ onB := by
    by_cases h1 : onA = []
    · exact Or.inl h1
    · exact Or.inr (fun h2 => h ⟨h1, h2⟩)
  unfold toNearSql
  have hfuel : 6 * (Ops.join a b onA onB .full).size + 6 = (6 * (Ops.join a b onA onB .full).size + 5) + 1 := rfl
  rw [hfuel]
  have := toNear_sqlite_full_assert hemu (6 * (Ops.join a b onA onB .full).size + 5) a b onA onB h' none 0
  simp only [StateT.run, this]
  rfl

/-- **C16_sqlite_full_partial.**  SQLite, FULL join over two pipelines of the fragment (`Good`: their own joins rendered
natively), **guard: no join key of either side is null**.  If `to_sql` (no extend merges) produces `q`, then `q`
evaluates, has exactly the columns of the two sides, and returns the rows of the reference FULL join as a multiset. -/
theorem C16_sqlite_full_partial (Θ : Interp) (ec : EngineCfg) (env : Env) (cfg : SqlCfg) (hm : cfg.merges = false)
    (hemu : cfg.emulateRightFull = true) (a b : Ops) (onA onB : List String)
    (hga : Good cfg env a) (hgb : Good cfg env b)
    (hna : ∀ ta, semE ec Θ SemCfg.ref env a = .ok ta → NullFreeOn onA ta.rows)
    (hnb : ∀ tb, semE ec Θ SemCfg.ref env b = .ok tb → NullFreeOn onB tb.rows)
    {q : Near} (h : toNearSql cfg (.join a b onA onB .full) = .ok q) :
    SqliteFullOK onA onB ∧
    ∃ T ta tb, semSql Θ ec env q = .ok T ∧ semE ec Θ SemCfg.ref env a = .ok ta ∧ semE ec Θ SemCfg.ref env b = .ok tb ∧
      (∀ c, c ∈ T.cols ↔ c ∈ a.cols ∨ c ∈ b.cols) ∧
      (T.rows.map (fun r => r.select (Ops.join a b onA onB .full).cols)).Perm
        ((semJoin SemCfg.ref .full onA onB ta tb (appendNew a.cols b.cols)).selectCols
          (Ops.join a b onA onB .full).cols).rows := by
  obtain ⟨st', hrun⟩ := toNearSql_ok h
  have hfr : InFragJ (.join a b onA onB .full) = true := by simp [InFragJ, hga.frag, hgb.frag]
  rw [toNear_none_eq_ju _ _ _ hfr] at hrun
  obtain ⟨ta, hta⟩ := semG_ok_fragJ (sqlRowLe ec) Θ SemCfg.ref env a hga.frag false hga.env
  obtain ⟨tb, htb⟩ := semG_ok_fragJ (sqlRowLe ec) Θ SemCfg.ref env b hgb.frag false hgb.env
  have hsem : semE ec Θ SemCfg.ref env (.join a b onA onB .full) =
      .ok ((semJoin SemCfg.ref .full onA onB ta tb (appendNew a.cols b.cols)).selectCols
        (Ops.join a b onA onB .full).cols) := by
    simp only [semG, hta, htb]; rfl
  have hwf : WF (.join a b onA onB .full) := ⟨hga.wf, hgb.wf⟩
  have hfuel : 6 * (Ops.join a b onA onB .full).size + 6 = (6 * (Ops.join a b onA onB .full).size + 5) + 1 := rfl
  rw [hfuel] at hrun
  obtain ⟨hK, hKK, _⟩ := toNear_join_sqlite_full hemu hrun
  refine ⟨⟨hK, hKK⟩, ?_⟩
  obtain ⟨hju, u₁, hu₁, _, hsound⟩ :=
    transOK_join_sqlite_full_partial (Θ := Θ) (ec := ec) hm hemu _ a b onA onB hga hgb hna hnb
      _ 0 q st' _ (fun c hc => hc) hrun hsem
  obtain ⟨T, t1, t2, t3⟩ := root_of_soundP hsound hju hu₁ hwf.cols_ne_nil
  refine ⟨T, ta, tb, t1, hta, htb, fun c => (t2 c).trans (mem_joinNodeCols a b onA onB .full c), ?_⟩
  refine t3.trans ?_
  simp only [Table.selectCols]
  rw [select_map_select _ (fun c hc => hc)]

/-! ## The guard is necessary -/

namespace C16FullEx
open C18Ex (Θc)

def cfgS : SqlCfg := ⟨false, true⟩
def a1 : Row := [("k", .null), ("x", .num 1)]
def a2 : Row := [("k", .num 1), ("x", .num 5)]
def b1 : Row := [("k", .num 1), ("y", .num 2)]
def b2 : Row := [("k", .null), ("y", .num 7)]
def envF : Env := [("A", ⟨["k", "x"], [a1, a2]⟩), ("B", ⟨["k", "y"], [b1, b2]⟩)]
def tA : Ops := .table "A" ["k", "x"]
def tB : Ops := .table "B" ["k", "y"]
/-- `A.natural_join(B, on=['k'], jointype='full')` -/
def pF : Ops := .join tA tB ["k"] ["k"] .full

theorem good_tA : Good cfgS envF tA :=
  ⟨rfl, ⟨by decide, by decide⟩, by decide, by decide, by decide, by decide, by decide, by decide, by
    intro nc hnc
    simp only [tA, Ops.tables, List.mem_singleton] at hnc
    subst hnc
    exact ⟨_, rfl, by decide, fun h => by cases h⟩⟩

theorem good_tB : Good cfgS envF tB :=
  ⟨rfl, ⟨by decide, by decide⟩, by decide, by decide, by decide, by decide, by decide, by decide, by
    intro nc hnc
    simp only [tB, Ops.tables, List.mem_singleton] at hnc
    subst hnc
    exact ⟨_, rfl, by decide, fun h => by cases h⟩⟩

/-- the builders construct the emulation pipeline -/
theorem fullSim_ex : fullSim tA tB ["k"] = .ok (fullSimOps tA tB ["k"]) := by
  have h1 : build tA (.project [] ["k"]) = .ok (.project tA [] ["k"]) := rfl
  have h2 : build tB (.project [] ["k"]) = .ok (.project tB [] ["k"]) := rfl
  have h3 : build (.project tA [] ["k"]) (.concat (some (.project tB [] ["k"])) none "a" "b") =
      .ok (.concat (.project tA [] ["k"]) (.project tB [] ["k"]) none "a" "b") := rfl
  have h4 : build (.concat (.project tA [] ["k"]) (.project tB [] ["k"]) none "a" "b") (.project [] ["k"]) =
      .ok (.project (.concat (.project tA [] ["k"]) (.project tB [] ["k"]) none "a" "b") [] ["k"]) := rfl
  have hj : ∀ (p b : Ops), strip p = p → tablesConsistent p.tables b.tables = true →
      subset ["k"] p.cols = true → subset ["k"] b.cols = true →
      build p (.join b ["k"] ["k"] "left" false) = .ok (.join p b ["k"] ["k"] .left) := by
    intro p b hs ht h1 h2
    show joinB p b ["k"] ["k"] "left" false = _
    rw [joinB_eq, hs]
    simp only [mkJoin, ht, h1, h2, parse_left]
    rfl
  have h5 := hj (.project (.concat (.project tA [] ["k"]) (.project tB [] ["k"]) none "a" "b") [] ["k"]) tA rfl
    (by decide) (by decide) (by decide)
  have h6 := hj (.join (.project (.concat (.project tA [] ["k"]) (.project tB [] ["k"]) none "a" "b") [] ["k"]) tA
    ["k"] ["k"] .left) tB rfl (by decide) (by decide) (by decide)
  simp only [fullSim, h1, h2, h3, h4, h5, h6, bind, Except.bind]
  rfl

/-- the emulation on the witness data: two rows, the null-key rows of both sides collapsed into one all-null row -/
theorem full_ex_core : ∃ q st' T, toNear cfgS 23 (fullSimOps tA tB ["k"]) (some ["k", "x", "y"]) 0 = .ok (q, st') ∧
    semSql Θc EngineCfg.sqlite envF q = .ok T ∧
    T.rows = [[("k", .num 1), ("x", .num 5), ("y", .num 2)], [("k", .null), ("x", .null), ("y", .null)]] :=
  ⟨_, _, _, rfl, rfl, by decide⟩

end C16FullEx

open C16FullEx in
/-- **C16_sqlite_full_nullkeys_necessary.**  `A.natural_join(B, on=['k'], jointype='full')` with a null key on each
side: every structural hypothesis of `C16_sqlite_full_partial` holds (`Good` sides, `SqliteFullOK`), the translation
succeeds and the query evaluates – to **two** rows, `(1, 5, 2)` and `(NULL, NULL, NULL)`; the reference FULL join has
the three rows `(NULL, 1, NULL)`, `(1, 5, 2)`, `(NULL, NULL, 7)`.  The null-free guard cannot be dropped (the real
library on sqlite3 returns the same two rows). -/
theorem C16_sqlite_full_nullkeys_necessary :
    Good cfgS envF tA ∧ Good cfgS envF tB ∧ SqliteFullOK ["k"] ["k"] ∧
    ∃ q T t, toNearSql cfgS pF = .ok q ∧ semSql C18Ex.Θc EngineCfg.sqlite envF q = .ok T ∧
      sem C18Ex.Θc SemCfg.ref envF pF = .ok t ∧
      T.rows = [[("k", .num 1), ("x", .num 5), ("y", .num 2)], [("k", .null), ("x", .null), ("y", .null)]] ∧
      t.rows = [[("k", .num 1), ("x", .num 5), ("y", .num 2)], [("k", .null), ("x", .num 1), ("y", .null)],
        [("k", .null), ("x", .null), ("y", .num 7)]] ∧
      ¬ (T.rows.map (fun r => r.select pF.cols)).Perm t.rows := by
  refine ⟨good_tA, good_tB, by decide, ?_⟩
  obtain ⟨q, st', T, h1, h2, h3⟩ := full_ex_core
  refine ⟨q, T, _, ?_, h2, rfl, h3, by decide, ?_⟩
  · have hrun : toNear cfgS (23 + 1) pF none 0 = .ok (q, st') := by
      show toNear cfgS (23 + 1) (.join tA tB ["k"] ["k"] .full) none 0 = .ok (q, st')
      rw [toNear]
      have e2 : (JoinType.full == JoinType.full) = true := rfl
      have e3 : cfgS.emulateRightFull = true := rfl
      simp only [e3, e2, Bool.and_true, ↓reduceIte]
      have := fullSim_ex
      simp only [fullSim] at this
      simp only [this]
      exact h1
    unfold toNearSql
    have hf : 6 * pF.size + 6 = 23 + 1 := rfl
    rw [hf]
    simp only [StateT.run, hrun]
    rfl
  · rw [h3]
    decide

/-! ## Non-vacuity of the partial theorem -/

namespace C16FullEx
open C18Ex (Θc)

def g1 : Row := [("k", .num 1), ("x", .num 10)]
def g2 : Row := [("k", .num 2), ("x", .num 30)]
def g3 : Row := [("k", .num 1), ("y", .num 5)]
def g4 : Row := [("k", .num 3), ("y", .num 7)]
/-- the same tables without null keys -/
def envG : Env := [("A", ⟨["k", "x"], [g1, g2]⟩), ("B", ⟨["k", "y"], [g3, g4]⟩)]

theorem good_tA' : Good cfgS envG tA :=
  ⟨rfl, ⟨by decide, by decide⟩, by decide, by decide, by decide, by decide, by decide, by decide, by
    intro nc hnc
    simp only [tA, Ops.tables, List.mem_singleton] at hnc
    subst hnc
    exact ⟨_, rfl, by decide, fun h => by cases h⟩⟩

theorem good_tB' : Good cfgS envG tB :=
  ⟨rfl, ⟨by decide, by decide⟩, by decide, by decide, by decide, by decide, by decide, by decide, by
    intro nc hnc
    simp only [tB, Ops.tables, List.mem_singleton] at hnc
    subst hnc
    exact ⟨_, rfl, by decide, fun h => by cases h⟩⟩

/-- the translation of the FULL join succeeds on SQLite (same pipeline as in the necessity witness) … -/
example : ∃ q, toNearSql cfgS pF = .ok q := by
  obtain ⟨_, _, _, q, _, _, h, _⟩ := C16_sqlite_full_nullkeys_necessary
  exact ⟨q, h⟩

/-- … and on null-free keys the partial theorem applies: the SQL returns the four rows of the FULL join -/
example (ec : EngineCfg) {q : Near} (h : toNearSql cfgS pF = .ok q) :
    ∃ T ta tb, semSql Θc ec envG q = .ok T ∧ semE ec Θc SemCfg.ref envG tA = .ok ta ∧
      semE ec Θc SemCfg.ref envG tB = .ok tb ∧ (∀ c, c ∈ T.cols ↔ c ∈ tA.cols ∨ c ∈ tB.cols) ∧
      (T.rows.map (fun r => r.select pF.cols)).Perm
        ((semJoin SemCfg.ref .full ["k"] ["k"] ta tb (appendNew tA.cols tB.cols)).selectCols pF.cols).rows :=
  (C16_sqlite_full_partial Θc ec envG cfgS rfl rfl tA tB ["k"] ["k"] good_tA' good_tB'
    (by
      intro ta hta
      have : semE ec Θc SemCfg.ref envG tA = .ok ⟨["k", "x"], [g1, g2]⟩ := rfl
      rw [this] at hta
      cases hta
      decide)
    (by
      intro tb htb
      have : semE ec Θc SemCfg.ref envG tB = .ok ⟨["k", "y"], [g3, g4]⟩ := rfl
      rw [this] at htb
      cases htb
      decide) h).2

end C16FullEx

end DAVerif
