import DAVerif.Proofs.OSet
/-!
# C24 — OrderedSet is a set that remembers first insertion order

Property theorems only (helper lemmas are in `Proofs/OSet.lean`, the model in `Core/OrderedSet.lean`).
Every theorem quantifies over all element types with decidable equality, all states and all histories.
-/
namespace DAVerif.OSet
variable {α : Type} [DecidableEq α]

/-! ## 1. It is a set: no duplicates, and membership after every operation is the plain-set result -/

/-- What a plain Python `set` would contain after the operation (membership only).
`pop` on a plain set removes an arbitrary element; here it is the first one. -/
def specMem (s : List α) : Op α → α → Prop
  | .add x, y => y = x ∨ y ∈ s
  | .discard x, y => y ∈ s ∧ y ≠ x
  | .remove x, y => y ∈ s ∧ y ≠ x
  | .pop, y => y ∈ s ∧ some y ≠ s.head?
  | .clear, _ => False
  | .update a, y => y ∈ s ∨ ∃ o ∈ a, y ∈ o
  | .ior o, y => y ∈ s ∨ y ∈ o
  | .iand o, y => y ∈ s ∧ y ∈ o
  | .isub o, y => y ∈ s ∧ y ∉ o
  | .ixor o, y => (y ∈ s ∧ y ∉ o) ∨ (y ∉ s ∧ y ∈ o)
  | .reinit v, y => y ∈ v
  | .assignCopy, y => y ∈ s
  | .assignUnion a, y => y ∈ s ∨ ∃ o ∈ a, y ∈ o
  | .assignSub o, y => y ∈ s ∧ y ∉ o
  | .assignAnd o, y => y ∈ s ∧ y ∈ o
  | .assignOr o, y => y ∈ s ∨ y ∈ o
  | .assignXor o, y => (y ∈ s ∧ y ∉ o) ∨ (y ∉ s ∧ y ∈ o)

/-- The operation raises exactly when a plain set would (`remove` of an absent element, `pop` of an empty set). -/
def specRaises (s : List α) : Op α → Prop
  | .remove x => x ∉ s
  | .pop => s = []
  | _ => False

theorem mem_sub {s o : List α} {y : α} : y ∈ sub s o ↔ y ∈ s ∧ y ∉ o := by
  simp [sub, mem_ofList]
theorem mem_and {s o : List α} {y : α} : y ∈ OSet.and s o ↔ y ∈ s ∧ y ∈ o := by
  simp [OSet.and, mem_ofList, and_comm]
theorem mem_or {s o : List α} {y : α} : y ∈ OSet.or s o ↔ y ∈ s ∨ y ∈ o := by
  simp [OSet.or, mem_ofList]

theorem mem_ixor_aux (o : List α) (ho : o.Nodup) (s : List α) (hs : s.Nodup) :
    (o.foldl (fun s v => if v ∈ s then discard s v else add s v) s).Nodup ∧
    ∀ y, (y ∈ o.foldl (fun s v => if v ∈ s then discard s v else add s v) s ↔
      ((y ∈ s ∧ y ∉ o) ∨ (y ∉ s ∧ y ∈ o))) := by
  induction o generalizing s with
  | nil => simp [hs]
  | cons v o ih =>
    rw [List.nodup_cons] at ho
    simp only [List.foldl_cons]
    by_cases hv : v ∈ s
    · simp only [hv, if_true]
      have := ih ho.2 (discard s v) (nodup_discard hs v)
      refine ⟨this.1, fun y => ?_⟩
      rw [this.2, mem_discard hs]
      by_cases hyv : y = v
      · subst hyv; simp [hv, ho.1]
      · simp [hyv]
    · simp only [hv, if_false]
      have := ih ho.2 (add s v) (nodup_add hs v)
      refine ⟨this.1, fun y => ?_⟩
      rw [this.2, mem_add]
      by_cases hyv : y = v
      · subst hyv; simp [hv, ho.1]
      · simp [hyv]

/-- **C24 (set part, one step).** From a duplicate-free state every operation either raises exactly
when a plain set would and changes nothing, or yields a duplicate-free state whose members are exactly
the plain-set result. -/
theorem C24_step_refines (s : List α) (hs : s.Nodup) (op : Op α) :
    (step s op = none ↔ specRaises s op) ∧
    (∀ s', step s op = some s' → s'.Nodup ∧ ∀ y, y ∈ s' ↔ specMem s op y) := by
  cases op with
  | add x => simp [step, specRaises, specMem, nodup_add hs, mem_add]
  | discard x => simp [step, specRaises, specMem, nodup_discard hs, mem_discard hs]
  | remove x =>
    by_cases hx : x ∈ s <;> simp [step, remove, specRaises, specMem, hx, nodup_discard hs, mem_discard hs]
  | pop =>
    cases s with
    | nil => simp [step, pop, specRaises]
    | cons a t =>
      have hd := nodup_discard hs a
      simp only [step, pop, Option.map_some, specRaises, Option.some.injEq, specMem, List.head?_cons]
      refine ⟨by simp, ?_⟩
      rintro s' rfl
      refine ⟨hd, fun y => ?_⟩
      rw [mem_discard hs]; simp
  | clear => simp [step, specRaises, specMem, clear_eq hs]
  | update a => simp [step, specRaises, specMem, nodup_update hs, mem_update]
  | ior o => simp [step, specRaises, specMem, ior, nodup_addAll hs, mem_addAll]
  | iand o =>
    simp only [step, specRaises, specMem, iand, Option.some.injEq, reduceCtorEq, false_iff, not_false_eq_true,
      true_and]
    rintro s' rfl
    refine ⟨nodup_foldl_discard hs _, fun y => ?_⟩
    rw [mem_foldl_discard hs, mem_sub]
    by_cases h1 : y ∈ s <;> by_cases h2 : y ∈ o <;> simp [h1, h2]
  | isub o => simp [step, specRaises, specMem, isub, nodup_foldl_discard hs, mem_foldl_discard hs]
  | ixor o =>
    simp only [step, specRaises, specMem, ixor, Option.some.injEq, reduceCtorEq, false_iff, not_false_eq_true,
      true_and]
    rintro s' rfl
    have := mem_ixor_aux (ofList o) (nodup_ofList o) s hs
    refine ⟨this.1, fun y => ?_⟩
    rw [this.2 y]; simp [mem_ofList]
  | reinit v => simp [step, specRaises, specMem, nodup_ofList, mem_ofList]
  | assignCopy => simp [step, specRaises, specMem, copy, nodup_ofList, mem_ofList]
  | assignUnion a =>
    simp [step, specRaises, specMem, union_eq, nodup_update (nodup_ofList s), mem_update, mem_ofList]
  | assignSub o => simp [step, specRaises, specMem, sub, nodup_ofList, mem_ofList]
  | assignAnd o => simp [step, specRaises, specMem, OSet.and, nodup_ofList, mem_ofList, and_comm]
  | assignOr o => simp [step, specRaises, specMem, OSet.or, nodup_ofList, mem_ofList]
  | assignXor o =>
    simp only [step, specRaises, specMem, xor, Option.some.injEq, reduceCtorEq, false_iff, not_false_eq_true,
      true_and]
    rintro s' rfl
    refine ⟨nodup_ofList _, fun y => ?_⟩
    rw [mem_or, mem_sub, mem_sub]; simp [mem_ofList, and_comm]

/-- **C24 (set part, every history).** Every state reachable from a duplicate-free state (in particular
from the empty set) is duplicate-free. -/
theorem C24_run_nodup (s : List α) (hs : s.Nodup) (h : List (Op α)) : (run s h).Nodup := by
  induction h generalizing s with
  | nil => exact hs
  | cons op h ih =>
    apply ih
    unfold stepT
    cases hst : step s op with
    | none => exact hs
    | some s' => exact ((C24_step_refines s hs op).2 s' hst).1

/-! ## 2. First-insertion order

Every operation is a sequence of primitive events on the underlying ordered dictionary: insert a key
(`impl[k] = None`), delete a key, or start from a fresh dictionary.  `events` spells that sequence out for
each operation; `liveLog` is the specification: the log of inserted elements in time order, with every
occurrence of an element dropped when it is deleted.  The iteration order is the first-occurrence order of
that log – "order of first insertion since the element was last absent". -/

inductive Ev (α : Type) where
  | ins (x : α) | del (x : α) | reset

def evStep (s : List α) : Ev α → List α
  | .ins x => add s x
  | .del x => discard s x
  | .reset => []

def liveStep (l : List α) : Ev α → List α
  | .ins x => l ++ [x]
  | .del x => l.filter (fun y => y ≠ x)
  | .reset => []

def liveLog (evs : List (Ev α)) : List α := evs.foldl liveStep []

/-- **C24 (order).** After any sequence of primitive events the iteration order is the first-occurrence
order of the live insertion log. -/
theorem C24_first_insertion_order (evs : List (Ev α)) :
    evs.foldl evStep [] = dedupFirst (liveLog evs) := by
  unfold liveLog
  suffices h : ∀ (s l : List α), s = dedupFirst l →
      evs.foldl evStep s = dedupFirst (evs.foldl liveStep l) from h [] [] rfl
  induction evs with
  | nil => intro s l h; exact h
  | cons e evs ih =>
    intro s l h
    simp only [List.foldl_cons]
    apply ih
    subst h
    cases e with
    | ins x =>
      simp only [evStep, liveStep, dedupFirst_snoc, add, mem_dedupFirst]
    | del x =>
      simp only [evStep, liveStep]
      rw [discard_eq_filter (nodup_dedupFirst l), dedupFirst_filter]
    | reset => rfl

/-- the primitive events each operation performs in state `s` (read off the method bodies) -/
def events (s : List α) : Op α → List (Ev α)
  | .add x => [.ins x]
  | .discard x => [.del x]
  | .remove x => if x ∈ s then [.del x] else []
  | .pop => match s with | [] => [] | x :: _ => [.del x]
  | .clear => s.map .del
  | .update a => a.flatten.map .ins
  | .ior o => o.map .ins
  | .iand o => ((dedupFirst s).filter (fun v => !(o.contains v))).map .del
  | .isub o => o.map .del
  | .ixor o => (dedupFirst o).map (fun v => if v ∈ s then .del v else .ins v)
  | .reinit v => .reset :: v.map .ins
  | .assignCopy => .reset :: s.map .ins
  | .assignUnion a => .reset :: (s.map .ins ++ a.flatten.map .ins)
  | .assignSub o => .reset :: (s.filter (fun v => !(o.contains v))).map .ins
  | .assignAnd o => .reset :: ((dedupFirst o).filter (fun v => s.contains v)).map .ins
  | .assignOr o => .reset :: (s ++ o).map .ins
  | .assignXor o => .reset :: ((s.filter (fun v => !(o.contains v))) ++
                                ((dedupFirst o).filter (fun v => !(s.contains v)))).map .ins

theorem foldl_ins (s v : List α) : (v.map Ev.ins).foldl evStep s = addAll s v := by
  induction v generalizing s with
  | nil => rfl
  | cons x v ih => exact ih (add s x)

theorem foldl_del (s v : List α) : (v.map Ev.del).foldl evStep s = v.foldl discard s := by
  induction v generalizing s with
  | nil => rfl
  | cons x v ih => exact ih (discard s x)

theorem update_flatten (s : List α) (a : List (List α)) : update s a = addAll s a.flatten := by
  induction a generalizing s with
  | nil => rfl
  | cons o a ih =>
    show update (addAll s o) a = _
    rw [ih]; simp [addAll, List.foldl_append]

theorem addAll_append (s u v : List α) : addAll s (u ++ v) = addAll (addAll s u) v := by
  simp [addAll, List.foldl_append]

theorem addAll_nil_eq (v : List α) : addAll [] v = dedupFirst v := ofList_eq v

theorem dedupFirst_idem (v : List α) : dedupFirst (dedupFirst v) = dedupFirst v :=
  dedupFirst_of_nodup (nodup_dedupFirst v)

theorem addAll_dedup (t o : List α) : addAll t (dedupFirst o) = addAll t o := by
  rw [addAll_eq, addAll_eq, dedupFirst_filter, dedupFirst_idem]

theorem ixor_events (s : List α) (hs : s.Nodup) (o : List α) (ho : o.Nodup) :
    (o.map (fun v => if v ∈ s then Ev.del v else Ev.ins v)).foldl evStep s =
    o.foldl (fun s v => if v ∈ s then discard s v else add s v) s := by
  -- membership of the not yet processed elements is the same in the evolving state and in `s`
  suffices h : ∀ (t : List α), t.Nodup → (∀ v ∈ o, v ∈ t ↔ v ∈ s) →
      (o.map (fun v => if v ∈ s then Ev.del v else Ev.ins v)).foldl evStep t =
      o.foldl (fun s v => if v ∈ s then discard s v else add s v) t from h s hs (fun _ _ => Iff.rfl)
  induction o with
  | nil => intros; rfl
  | cons v o ih =>
    intro t ht hmem
    rw [List.nodup_cons] at ho
    have hv := hmem v (List.mem_cons_self)
    simp only [List.map_cons, List.foldl_cons]
    by_cases hvs : v ∈ s
    · have hvt := hv.mpr hvs
      simp only [hvs, hvt, if_true, evStep]
      apply ih ho.2 _ (nodup_discard ht v)
      intro w hw
      rw [mem_discard ht, ← hmem w (List.mem_cons_of_mem _ hw)]
      constructor
      · exact And.left
      · intro h; exact ⟨h, by rintro rfl; exact ho.1 hw⟩
    · have hvt : v ∉ t := fun h => hvs (hv.mp h)
      simp only [hvs, hvt, if_false, evStep]
      apply ih ho.2 _ (nodup_add ht v)
      intro w hw
      rw [mem_add, ← hmem w (List.mem_cons_of_mem _ hw)]
      constructor
      · rintro (rfl | h); exact absurd hw ho.1; exact h
      · exact Or.inr

/-- **C24 (operations are event sequences).** In every duplicate-free state each operation's effect is
exactly that of its primitive event sequence – so `C24_first_insertion_order` applies to every history. -/
theorem C24_step_events (s : List α) (hs : s.Nodup) (op : Op α) :
    stepT s op = (events s op).foldl evStep s := by
  cases op with
  | add x => rfl
  | discard x => rfl
  | remove x => by_cases hx : x ∈ s <;> simp [stepT, step, remove, events, hx, evStep]
  | pop => cases s <;> simp [stepT, step, pop, events, evStep]
  | clear =>
    simp only [stepT, step, Option.getD_some, events, clear_eq hs, foldl_del]
    have : ∀ y, ¬ y ∈ s.foldl discard s := fun y => by rw [mem_foldl_discard hs]; simp
    exact (List.eq_nil_iff_forall_not_mem.mpr this).symm
  | update a => simp [stepT, step, events, foldl_ins, update_flatten, ← List.map_flatten]
  | ior o => simp [stepT, step, events, foldl_ins, ior]
  | iand o => simp [stepT, step, events, foldl_del, iand, sub, ofList_eq, dedupFirst_filter]
  | isub o => simp [stepT, step, events, foldl_del, isub]
  | ixor o =>
    simp only [stepT, step, Option.getD_some, events, ixor, ofList_eq]
    exact (ixor_events s hs _ (nodup_dedupFirst o)).symm
  | reinit v => simp [stepT, step, events, evStep, foldl_ins, ofList]
  | assignCopy => simp [stepT, step, events, evStep, foldl_ins, copy, ofList]
  | assignUnion a =>
    simp only [stepT, step, Option.getD_some, events, List.foldl_cons, evStep, ← List.map_append, foldl_ins,
      union_eq, update_flatten, addAll_append]; rfl
  | assignSub o =>
    simp [stepT, step, events, evStep, foldl_ins, sub, ofList, mem_addAll]
  | assignAnd o =>
    simp [stepT, step, events, evStep, foldl_ins, OSet.and, ofList, addAll_nil_eq, dedupFirst_filter, dedupFirst_idem]
  | assignOr o =>
    simp only [stepT, step, Option.getD_some, events, List.foldl_cons, evStep, foldl_ins, OSet.or]
    simp only [ofList, addAll_append, addAll_nil_eq o]
    exact addAll_dedup _ o
  | assignXor o =>
    simp only [stepT, step, Option.getD_some, events, List.foldl_cons, evStep, foldl_ins, OSet.xor, OSet.or,
      sub]
    have hc : (fun v => !(ofList o).contains v) = (fun v => !o.contains v) := by
      funext v; simp [mem_ofList]
    rw [hc]
    simp only [ofList, addAll_append, addAll_nil_eq o]
    rw [addAll_nil_eq (List.filter _ (dedupFirst o)), addAll_dedup]
    generalize List.filter (fun v => !o.contains v) s = A
    rw [addAll_nil_eq A, addAll_nil_eq (dedupFirst A), dedupFirst_idem]

/-! ## 3. The three helpers -/

/-- `ordered_union(a, b)`: the set union, ordered by `a` first and then by `b` for the elements only in `b`. -/
theorem C24_ordered_union (a b : List α) : orderedUnion a b = dedupFirst (a ++ b) := by
  unfold orderedUnion
  have : (fun (r : List α) v => if v ∈ r then r else add r v) = add := by
    funext r v; exact guarded_add r v
  rw [this, ← ofList_eq]; unfold ofList; rw [addAll_append]; rfl

/-- `ordered_intersect(a, b)`: the set intersection in `a`'s order. -/
theorem C24_ordered_intersect (a b : List α) :
    orderedIntersect a b = (dedupFirst a).filter (fun v => b.contains v) := by
  simp [orderedIntersect, ofList_eq, dedupFirst_filter]

/-- `ordered_diff(a, b)`: the set difference in `a`'s order. -/
theorem C24_ordered_diff (a b : List α) :
    orderedDiff a b = (dedupFirst a).filter (fun v => !(b.contains v)) := by
  simp [orderedDiff, ofList_eq, dedupFirst_filter]

/-! ## Non-vacuity: concrete instances of the hypotheses and of the order claim -/

example : ([3, 1, 2] : List Nat).Nodup := by decide
example : run ([] : List Nat) [.add 3, .add 1, .add 3, .discard 3, .add 2, .add 3] = [1, 2, 3] := by decide
example : liveLog ([.ins 3, .ins 1, .ins 3, .del 3, .ins 2, .ins 3] : List (Ev Nat)) = [1, 2, 3] := by decide
example : orderedUnion [2, 1, 2] [3, 1, 0] = [2, 1, 3, 0] := by decide
example : step [1, 2] (.remove 5) = none := by decide

end DAVerif.OSet
