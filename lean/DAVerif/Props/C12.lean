import DAVerif.Proofs.PrintCalls
import DAVerif.Proofs.PrintExprs
import DAVerif.Props.C26
import DAVerif.Props.C11
import DAVerif.Props.C13
/-!
# C12 — Printed pipelines rebuild to equal pipelines with identical results

Property theorems only.
* Model of printing: `C12.toCalls` (Ops/PrintCalls.lean) – which builder calls `to_python_src_` prints for a pipeline
  and with which argument values; model of evaluating the printed text: `C12.rebuild` (re-applies `build`,
  Ops/Builder.lean, receiver first, then the `b=` argument, then the call).
* Model of `==`: `Eq.eqOps` (Ops/Eq.lean, C11).  Semantics: `sem` (Sem/Eval.lean), every `Θ`, both configurations.
* Pipelines: `Reachable` (Props/C26.lean) – everything obtainable from table descriptions by successful builder calls,
  the `b` arguments of joins / concats built the same way.
* Expressions: `Expr.wf`, `printToks`, `parseToks`, `walk`, `cst` (C13).

Specification side (what the property says, independent of the model of the builders):
`Rebuilds p` – the printed calls evaluate without error to a pipeline that compares equal to `p`;
`SameResults p p'` – equal outcome (table or error) for every interpretation, configuration and environment.

Lemmas: `Proofs/PrintCalls.lean` (normal form `NF`, its preservation by every builder call, the rebuild),
`Proofs/PrintExprs.lean` (expressions pass through the builders unchanged).

**Finding `C12-extend-remerge` (pipegen's N26), confirmed on the real code.**  `extend_parsed_` merges a new step into
an existing `ExtendNode` by *replacing* that node with the merged one over the same source; it does not ask whether the
merged node could in turn be merged into an `ExtendNode` below (the old node may have been unmergeable only because of
an assignment the new step overwrites).  The printed text of such a pipeline evaluates to the further-merged pipeline,
which is not `==`.  The guard `noRemerge` (decidable, Ops/PrintCalls.lean) excludes exactly these pipelines; the
theorems below hold under it and `C12_G_noRemerge_necessary` shows that it cannot be dropped.
-/
namespace DAVerif.C12
open DAVerif Rules26

/-! ## 0. What the property says -/

/-- the printed calls of `p` evaluate to a pipeline that compares equal to `p` (`==` in both directions) -/
def Rebuilds (p : Ops) : Prop :=
  ∃ p', rebuild (toCalls p) = .ok p' ∧ Eq.eqOps p p' = true ∧ Eq.eqOps p' p = true

/-- the same outcome on every input, for every meaning of the function symbols, in both configurations -/
def SameResults (p p' : Ops) : Prop :=
  ∀ (Θ : Interp) (cfg : SemCfg) (env : Env), sem Θ cfg env p' = sem Θ cfg env p

/-! ## 1. Reachable pipelines are in builder normal form -/

/-- Every pipeline the builders can produce is in *builder normal form* (`NF`, Proofs/PrintCalls.lean): at every node
the source is not an `order_rows` without limit, and the builder call that the printer writes for the node – with the
printer's normal form of the arguments (`partition_by=1` / omitted, remapping and deletions as one dictionary, the
upper-case join type, no key check) – applied to the node's own source passes every check and returns exactly the
node; for extend nodes this is stated for the path that builds a new node (whether `extend` would merge instead is the
guard).  So the elimination of `order_rows`, the collapse of `select_columns` through select / drop nodes and the
argument normalisations are idempotent on reachable pipelines, unconditionally. -/
theorem C12_reachable_nf {p : Ops} (h : Reachable p) : NF p := by
  induction h with
  | table name cs hne hnd => exact ⟨hne, hnd⟩
  | @step p s q hp _ hb ihp ihb => exact build_nf ihp (C26_reachable_wf hp) ihb hb

theorem reachable_c11 {p : Ops} (h : Reachable p) : ReachableC11 p := by
  induction h with
  | table name cs _ _ => exact ReachableC11.table name cs
  | @step p s q _ _ hb ihp ihb =>
    refine ReachableC11.step ihp ?_ hb
    intro b hbs
    apply ihb
    cases s with
    | join b' _ _ _ _ => simp only [Step.arg, Option.some.injEq] at hbs; subst hbs; simp [stepArgs]
    | concat b' _ _ _ =>
      cases b' with
      | none => simp [Step.arg] at hbs
      | some b'' => simp only [Step.arg, Option.some.injEq] at hbs; subst hbs; simp [stepArgs]
    | _ => simp [Step.arg] at hbs

/-! ## 2. The printed calls rebuild the pipeline -/

/-
FULL STATEMENT (false for the unchanged library, see `C12_G_noRemerge_necessary`):

  theorem C12_pipeline_rebuild : Reachable p → ∃ p', rebuild (toCalls p) = .ok p' ∧ Eq.eqOps p p' = true
-/

/-- **C12 (exact form), under the guard.**  For every reachable pipeline `p` – any number of steps, nested joins and
concats – in which no extend node would be merged into the extend node below it (`noRemerge`), evaluating the printed
calls raises nothing and returns *the same tree* `p`: every field of every node, including the `method` flags of the
expressions and the order of dictionaries. -/
theorem C12_pipeline_rebuild_exact_partial {p : Ops} (h : Reachable p) (hG : noRemerge p = true) :
    rebuild (toCalls p) = .ok p :=
  rebuild_of_nf p (C12_reachable_nf h) hG

/-- **C12, under the guard**, in the words of the property: the printed calls evaluate to a pipeline that compares
equal (`==`, model of the repaired `__eq__`) to the original, in both directions. -/
theorem C12_pipeline_rebuild_partial {p : Ops} (h : Reachable p) (hG : noRemerge p = true) : Rebuilds p :=
  have hr := C11.C11_refl_reachable (reachable_c11 h)
  ⟨p, C12_pipeline_rebuild_exact_partial h hG, hr, hr⟩

/-- `d.extend({'n4': 'x'}).extend({'r': 'y + n4'}).extend({'r': 'y'})` as the builders leave it: the third step was
merged into the second (its `r` replaces the second step's `r`), the result sits un-merged on the first. -/
def witnessN26 : Ops :=
  .extend (.extend (.table "d" ["x", "y"]) [("n4", .col "x")] [] [] [] false) [("r", .col "y")] [] [] [] false

/-- what its printed text `….extend({'n4': 'x'}).extend({'r': 'y'})` evaluates to: one merged node -/
def witnessN26Rebuilt : Ops :=
  .extend (.table "d" ["x", "y"]) [("n4", .col "x"), ("r", .col "y")] [] [] [] false

theorem witnessN26_reachable : Reachable witnessN26 :=
  Reachable.step (p := .extend (.extend (.table "d" ["x", "y"]) [("n4", .col "x")] [] [] [] false)
      [("r", .app "+" [.col "y", .col "n4"] true false)] [] [] [] false)
    (s := .extend [("r", .col "y")] .none [] [])
    (Reachable.step (p := .extend (.table "d" ["x", "y"]) [("n4", .col "x")] [] [] [] false)
      (s := .extend [("r", .app "+" [.col "y", .col "n4"] true false)] .none [] [])
      (Reachable.step (p := .table "d" ["x", "y"]) (s := .extend [("n4", .col "x")] .none [] [])
        (Reachable.table _ _ (by decide) (by decide)) (by intro b hb; simp [stepArgs] at hb) (by rfl))
      (by intro b hb; simp [stepArgs] at hb) (by rfl))
    (by intro b hb; simp [stepArgs] at hb) (by rfl)

theorem witnessN26_rebuild : rebuild (toCalls witnessN26) = .ok witnessN26Rebuilt := by rfl

/-- **The guard is necessary (finding `C12-extend-remerge`, N26).**  The full statement is false: the reachable pipeline
`witnessN26` prints two extend calls whose evaluation merges them into one node; the result does not compare equal to
the original (the node kinds differ: `ExtendNode` over `ExtendNode` vs `ExtendNode` over the table).  The real library
behaves the same (corpus/C12/extend_remerge.json).  The guard fails on it. -/
theorem C12_G_noRemerge_necessary :
    ¬ ∀ p : Ops, Reachable p → ∃ p', rebuild (toCalls p) = .ok p' ∧ Eq.eqOps p p' = true := by
  intro h
  obtain ⟨p', h1, h2⟩ := h witnessN26 witnessN26_reachable
  rw [witnessN26_rebuild] at h1
  cases h1
  exact absurd h2 (by decide)

example : noRemerge witnessN26 = false := by decide
example : noRemerge witnessN26Rebuilt = true := by decide

/-- The guard is only about extend nodes that sit directly on extend nodes: a pipeline without such a pair satisfies
it (in particular every pipeline with at most one extend step between other steps). -/
def noExtendOnExtend : Ops → Bool
  | .table _ _ => true
  | .extend (.extend ..) .. => false
  | .extend s _ _ _ _ _ => noExtendOnExtend s
  | .project s _ _ | .selectRows s _ | .selectCols s _ | .dropCols s _ | .order s _ _ _ | .rename s _
  | .mapCols s _ _ | .convert s _ => noExtendOnExtend s
  | .join a b _ _ _ | .concat a b _ _ _ => noExtendOnExtend a && noExtendOnExtend b

theorem C12_noRemerge_single_extend (p : Ops) (h : noExtendOnExtend p = true) : noRemerge p = true := by
  induction p with
  | table n cs => rfl
  | extend s ops part order rev w ih =>
    cases s with
    | extend => simp [noExtendOnExtend] at h
    | _ =>
      have h' := ih h
      rw [noRemerge, h']
      rfl
  | project s _ _ ih | selectRows s _ ih | selectCols s _ ih | dropCols s _ ih | order s _ _ _ ih | rename s _ ih
  | mapCols s _ _ ih | convert s _ ih => exact ih h
  | join a b _ _ _ iha ihb | concat a b _ _ _ iha ihb =>
    simp only [noExtendOnExtend, Bool.and_eq_true] at h
    simp only [noRemerge, iha h.1, ihb h.2, Bool.and_self]

/-- **The guard can only be lost by a merging extend step.**  If `p` satisfies the guard (and so do the `b` arguments),
then the result of any builder call satisfies it too, unless the call is an `extend` that was merged into the extend
node at the end of `p`.  In particular two consecutive extend steps that were *not* merged when the pipeline was built
are not merged when the printed text is evaluated. -/
theorem C12_guard_kept_unless_merge {p : Ops} (_hp : Reachable p) (hG : noRemerge p = true) {s : Step}
    (hb : ∀ b ∈ stepArgs s, noRemerge b = true) {q : Ops} (h : build p s = .ok q) :
    noRemerge q = true ∨
    ∃ ops pa order rev src ops1 part1 order1 rev1 w1 newOps,
      s = .extend ops pa order rev ∧ strip p = .extend src ops1 part1 order1 rev1 w1 ∧
      tryMergeOps ops1 ops = some newOps ∧ mkExtend src newOps pa order rev = .ok q :=
  build_guard hG hb h

/-! ## 3. … and the rebuilt pipeline gives the same result on every input -/

/-- Whenever the printed calls evaluate to a pipeline that compares equal to the (reachable) original, the two give the
same outcome for every interpretation of the function symbols, both configurations and every environment
(C11's soundness of `==`; `RecCoherent`: record maps with the same printed specifications are the same record map, an
invariant of the real objects, see Props/C11.lean). -/
theorem C12_rebuild_sem {p p' : Ops} (h : Reachable p) (_hr : rebuild (toCalls p) = .ok p')
    (he : Eq.eqOps p p' = true) (hc : Ops.RecCoherent p p') : SameResults p p' := by
  intro Θ cfg env
  exact (C11.C11_sound_sem_reachable p' (reachable_c11 h) hc he Θ cfg env).symm

/-- **C12 (results), under the guard**: the printed calls of a reachable pipeline inside the guard evaluate to a
pipeline that compares equal and has the same result on every input. -/
theorem C12_rebuild_sem_partial {p : Ops} (h : Reachable p) (hG : noRemerge p = true) :
    ∃ p', rebuild (toCalls p) = .ok p' ∧ Eq.eqOps p p' = true ∧ SameResults p p' :=
  ⟨p, C12_pipeline_rebuild_exact_partial h hG, C11.C11_refl_reachable (reachable_c11 h), fun _ _ _ => rfl⟩

/-- `rebuild` written as the task states it: the successful evaluations of the printed text are exactly the successful
runs of `buildChain` over the steps of the main chain (their `b=` arguments evaluated the same way) from the printed
table description. -/
theorem C12_rebuild_eq_buildChain (pr : Printed) (q : Ops) : rebuild pr = .ok q ↔ rebuildChain pr = .ok q :=
  rebuild_iff_chain pr q

/-! ## 4. Expressions -/

open DAVerif.Expr in
/-- **C12 (expressions) = C13's round trip, for every expression of a pipeline.**  Let `t` be an expression of a
reachable pipeline, evaluated over a node with columns `cols` (`exprsIn`).  If `t` is *well formed in itself*
(`wfAny`: literals re-read to themselves, collections non-empty with distinct keys, every node is what the parser's
builder builds – `Expr.wf` over the columns the term itself mentions), then it is well formed over `cols` (the builders
have checked that it mentions known columns only), the tokens of its printed text parse to the tree `cst t`, and the
walker maps that tree back to exactly `t`. -/
theorem C12_expr_roundtrip {p : Ops} (h : Reachable p) (cols : List String) (t : Term)
    (hm : (cols, t) ∈ exprsIn p) (hwf : wfAny t) :
    wf (Generated.env cols) t = true ∧
    parseToks (printToks t) = .ok (cst t) ∧ walk (Generated.env cols) (cst t) = .ok t := by
  have hw := wf_of_wfAny hwf (exprsIn_cols (C12_reachable_nf h) cols t hm)
  exact ⟨hw, C13_print_parse (Generated.env cols) (C13_generated_negfolds cols) t hw⟩

/-- **The builders pass expressions through unchanged.**  Every expression of the result of a builder call is an
expression of the prefix, of the step's arguments, or of the step's `b` pipeline (the extend merge concatenates
assignment lists, nothing rewrites a term). -/
theorem C12_exprs_preserved {p : Ops} (_hp : Reachable p) {s : Step} {q : Ops} (h : build p s = .ok q) :
    ∀ t ∈ termsOf q, t ∈ termsOf p ∨ t ∈ stepTerms s ∨ ∃ b ∈ stepArgs s, t ∈ termsOf b :=
  build_terms h

/-- pipelines built from table descriptions by builder calls whose expression arguments all satisfy `T` -/
inductive ReachableWith (T : Term → Prop) : Ops → Prop
  | table (name : String) (cs : List String) : cs ≠ [] → cs.Nodup → ReachableWith T (.table name cs)
  | step {p : Ops} {s : Step} {q : Ops} :
      ReachableWith T p → (∀ b ∈ stepArgs s, ReachableWith T b) → (∀ t ∈ stepTerms s, T t) → build p s = .ok q →
      ReachableWith T q

theorem ReachableWith.reachable {T : Term → Prop} {p : Ops} (h : ReachableWith T p) : Reachable p := by
  induction h with
  | table name cs h1 h2 => exact Reachable.table name cs h1 h2
  | step _ _ _ hb ihp ihb => exact Reachable.step ihp ihb hb

/-- **Do the builders guarantee well-formed expressions?**  They check the columns an expression mentions and nothing
else about its shape (`C12_builders_accept_ill_formed`); what they guarantee is *preservation*: if every expression
handed to a builder call is well formed in itself – true of everything the library's parser returns from a text
without dunder method names (C13, checked on every run by suite `expr_canon`) – then every expression of the resulting
pipeline is, and therefore (by `C12_expr_roundtrip`) every expression of the pipeline is re-read from its printed text
to itself. -/
theorem C12_exprs_wf_of_steps {p : Ops} (h : ReachableWith wfAny p) :
    ∀ ct ∈ exprsIn p, Expr.wf (Generated.env ct.1) ct.2 = true := by
  have hall : ∀ t ∈ termsOf p, wfAny t := by
    induction h with
    | table name cs _ _ => intro t ht; simp [termsOf] at ht
    | @step p s q hp _ hT hb ihp ihb =>
      intro t ht
      rcases build_terms hb t ht with h1 | h1 | ⟨b, hbm, h1⟩
      · exact ihp t h1
      · exact hT t h1
      · exact ihb b hbm t h1
  intro ct hct
  exact wf_of_wfAny (hall ct.2 (exprsIn_terms p ct hct)) (exprsIn_cols (C12_reachable_nf h.reachable) ct.1 ct.2 hct)

/-- the builder accepts an expression that is not well formed (a unary minus applied to a constant, which the parser
would have folded): well-formedness is a property of what is handed to the builders, not something they establish -/
theorem C12_builders_accept_ill_formed :
    ∃ q, build (.table "d" ["x"]) (.extend [("a", .app "-" [.value (.int 5)] true false)] .none [] []) = .ok q ∧
      Expr.wf (Generated.env ["x"]) (.app "-" [.value (.int 5)] true false) = false :=
  ⟨_, by rfl, by decide +kernel⟩

/-! ## 5. Non-vacuity: the hypotheses hold on concrete non-trivial pipelines -/

private def d : Ops := .table "d" ["g", "x", "y"]
private def e : Ops := .table "e" ["g", "z"]

/-- `d.extend({'m': 'x.max()'}, partition_by=1).natural_join(b=e.order_rows(['z']), on=['g'], jointype='LEFT')
     .map_columns({'y': None, 'x': 'x2'})` -/
private def pipe1 : Ops :=
  .mapCols (.join (.extend d [("m", .app "max" [.col "x"] false true)] [] [] [] true) (.order e ["z"] [] none)
    ["g"] ["g"] .left) [("x", "x2")] ["y"]

example : Reachable pipe1 :=
  Reachable.step (p := .join (.extend d [("m", .app "max" [.col "x"] false true)] [] [] [] true)
      (.order e ["z"] [] none) ["g"] ["g"] .left)
    (s := .mapCols [("y", none), ("x", some "x2")])
    (Reachable.step (p := .extend d [("m", .app "max" [.col "x"] false true)] [] [] [] true)
      (s := .join (.order e ["z"] [] none) ["g"] ["g"] "left" true)
      (Reachable.step (p := d) (s := .extend [("m", .app "max" [.col "x"] false true)] .one [] [])
        (Reachable.table _ _ (by decide) (by decide)) (by intro b hb; simp [stepArgs] at hb) (by rfl))
      (by
        intro b hb
        simp only [stepArgs, List.mem_singleton] at hb
        subst hb
        exact Reachable.step (p := e) (s := .order ["z"] [] none) (Reachable.table _ _ (by decide) (by decide))
          (by intro b hb; simp [stepArgs] at hb) (by rfl))
      (by
        have hp : JoinType.parse "left" = some .left := by decide +kernel
        show joinB _ _ _ _ _ _ = _
        rw [joinB_eq]
        simp only [mkJoin, hp]
        rfl))
    (by intro b hb; simp [stepArgs] at hb) (by rfl)

example : noRemerge pipe1 = true := by decide
-- the printed calls: partition_by=1, the upper-case join type, deletions after renamings
example : toCalls pipe1 =
    .call (.join (.call (.table "d" ["g", "x", "y"]) (.extend [("m", .app "max" [.col "x"] false true)] .one [] []))
      (.call (.table "e" ["g", "z"]) (.order ["z"] [] none)) [("g", "g")] "LEFT")
      (.mapCols [("x", some "x2"), ("y", none)]) := by rfl
example : wfAny (.app "max" [.col "x"] false true) := by decide +kernel
-- the hypothesis of `C12_exprs_wf_of_steps` holds for a pipeline built from a well-formed expression
example : ReachableWith wfAny (.extend d [("m", .app "max" [.col "x"] false true)] [] [] [] true) :=
  ReachableWith.step (p := d) (s := .extend [("m", .app "max" [.col "x"] false true)] .one [] [])
    (ReachableWith.table _ _ (by decide) (by decide)) (by intro b hb; simp [stepArgs] at hb)
    (by intro t ht; simp only [stepTerms, List.map_cons, List.map_nil, List.mem_singleton] at ht; subst ht
        decide +kernel)
    (by rfl)
example : exprsIn pipe1 = [(["g", "x", "y"], .app "max" [.col "x"] false true)] := by rfl

end DAVerif.C12
