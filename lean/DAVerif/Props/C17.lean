import DAVerif.Proofs.CDataCompose
/-!
# C17 — Record transforms are invertible and compose as documented

Property theorems only.  Model: `CData/Record.lean` (cdata.py + the Pandas pivot/unpivot); statement vocabulary
(`≈ₜ`, `Spec.Good`, `KeyedRows`, `CompleteBlocks`, `specBlocks`, `RecordMap.Good`, `Conforms`, `Interface`):
`CData/RecordSpec.lean`; lemmas: `Proofs/CData*.lean`.

Every theorem quantifies over all control tables, key lists and tables satisfying the stated (decidable)
hypotheses; results are stated with the error branch visible (`= .ok …`), never through a totalised default.
`t ≈ₜ u` is "the same table up to row and column order" (the code sorts its results, the inputs are arbitrary).
-/
namespace DAVerif.CData
open List

/-! ## 1. What the two conversions compute (the record view) -/

/-- **C17 (meaning of rows → blocks).** For a good specification and a row-record table keyed by the record
keys, `rowrecs_to_blocks` succeeds and returns – up to row/column order – the block form written independently
in `specBlocks`: one row per record and control-table row, carrying the record's keys, the control row's keys,
and under each value column the record's cell named by the control table. -/
theorem C17_rows_to_blocks_meaning (s : Spec) (g : s.Good) (t : Table) (ht : KeyedRows s t) :
    ∃ b, rowsToBlocks s t = .ok b ∧
      b ≈ₜ ⟨s.recordKeys ++ s.ctKeys ++ s.valueCols, specBlocks s t.rows⟩ := by
  obtain ⟨b, hb, h1, h2⟩ := rowsToBlocks_spec g ht.2 (isRows_self ht.1)
  refine ⟨b, hb, equiv_of_isBlocks h1 ⟨?_, Perm.refl _⟩ h2 (blockCols_perm g.facts g.ckNodup)⟩
  intro c hc
  exact (blockCols_perm g.facts g.ckNodup).symm.mem_iff.1 hc

/-- **C17 (meaning of blocks → rows).** For a good specification and a block-record table with complete
blocks, `blocks_to_rowrecs` succeeds; the result has the row-form columns, exactly one row per distinct record
key of the input, and the cell of record `κ` under content key `ct[i][vc]` is the cell found in the input row
with record key `κ` and control key `ct[i]`, under value column `vc`  (record key ↦ content key ↦ value). -/
theorem C17_blocks_to_rows_meaning (s : Spec) (g : s.Good) (t : Table) (ht : CompleteBlocks s t) :
    ∃ r, blocksToRows s t = .ok r ∧ r.cols.Perm s.rowColumns ∧
      (r.rows.map (keyOf s.recordKeys)).Perm (dedup (t.rows.map (keyOf s.recordKeys))) ∧
      ∀ row ∈ r.rows, ∀ x ∈ t.rows, keyOf s.recordKeys x = keyOf s.recordKeys row →
        ∀ cr ∈ s.ct.rows, keyOf s.ctKeys x = keyOf s.ctKeys cr →
          ∀ vc ∈ s.valueCols, look row (contentName cr vc) = look x vc := by
  have f := g.facts
  obtain ⟨hU, hB⟩ := collapse_spec g ht
  obtain ⟨r, hr, h1, h2⟩ := blocksToRows_spec g hU hB
  obtain ⟨cr0, crs, hct⟩ : ∃ cr0 crs, s.ct.rows = cr0 :: crs := by
    cases h : s.ct.rows with
    | nil => exact absurd h f.rows_ne
    | cons a l => exact ⟨a, l, rfl⟩
  have hcr0 : cr0 ∈ s.ct.rows := by rw [hct]; exact mem_cons_self
  have hcol : collapse s t.rows =
      (t.rows.filter fun r => keyOf s.ctKeys r = keyOf s.ctKeys cr0).map (recOf s t.rows) := by
    unfold collapse; rw [hct]
  have hkeys : ∀ r, keyOf s.recordKeys (recOf s t.rows r) = keyOf s.recordKeys r :=
    fun r => keyOf_congr fun k hk => look_recOf_rk _ _ hk
  have hrk : ∀ c ∈ s.recordKeys, c ∈ s.rowColumns := fun c hc => mem_rowColumns.2 (Or.inl hc)
  -- every result row agrees with one collapsed record on the row columns
  have hrec : ∀ row ∈ r.rows, ∃ r0 ∈ t.rows, keyOf s.ctKeys r0 = keyOf s.ctKeys cr0 ∧
      ∀ c ∈ s.rowColumns, look row c = look (recOf s t.rows r0) c := by
    intro row hrow
    have := h1.2.mem_iff.1 (mem_map_of_mem (f := proj s.rowColumns) hrow)
    rw [hcol, map_map] at this
    obtain ⟨r0, hr0, e⟩ := mem_map.1 this
    rw [mem_filter] at hr0
    exact ⟨r0, hr0.1, by simpa using hr0.2, fun c hc => (proj_eq_iff.1 e c hc).symm⟩
  refine ⟨r, hr, h2, ?_, ?_⟩
  · have hk1 : (r.rows.map (keyOf s.recordKeys)).Perm ((collapse s t.rows).map (keyOf s.recordKeys)) := by
      have := h1.2.map (keyOf s.recordKeys)
      rw [map_map, map_map] at this
      refine Perm.trans (Perm.of_eq ?_) (this.trans (Perm.of_eq ?_))
      · exact map_congr_left fun x _ => (keyOf_proj x hrk).symm
      · exact map_congr_left fun x _ => keyOf_proj x hrk
    refine hk1.trans (perm_of_nodup_mem hU.2 (nodup_dedup _) ?_)
    intro k
    rw [mem_dedup, hcol, map_map, mem_map, mem_map]
    constructor
    · rintro ⟨r0, hr0, rfl⟩
      rw [mem_filter] at hr0
      exact ⟨r0, hr0.1, (hkeys r0).symm⟩
    · rintro ⟨x, hx, rfl⟩
      obtain ⟨r', hr', e1, e2⟩ := ht.2.2.2.2 x hx cr0 hcr0
      refine ⟨r', mem_filter.2 ⟨hr', by simpa using e2⟩, ?_⟩
      simp only [Function.comp_apply]
      rw [hkeys, e1]
  · intro row hrow x hx hxk cr hcr hxc vc hvc
    obtain ⟨r0, hr0, _, hagree⟩ := hrec row hrow
    have hname : contentName cr vc ∈ s.rowColumns := by
      rw [Spec.rowColumns, contentKeys_eq f]
      exact mem_append_right _ (contentName_mem hcr hvc)
    rw [hagree _ hname, look_recOf_content f _ _ hcr hvc]
    obtain ⟨hp0, hp1, hp2⟩ := pickRow_spec ht hr0 hcr
    have hk0 : keyOf s.recordKeys row = keyOf s.recordKeys r0 := by
      rw [← hkeys r0]
      exact keyOf_congr fun c hc => hagree c (hrk c hc)
    have : pickRow s t.rows (keyOf s.recordKeys r0) cr = x :=
      rows_inj ht hp0 hx (hp1.trans (hk0.symm.trans hxk.symm)) (hp2.trans hxc.symm)
    rw [this]

/-! ## 2. Round trips -/

/-- **C17 (rows → blocks → rows).** For a strict (good) specification and a row-record table keyed by the
record keys, converting to blocks and back succeeds and returns the original table. -/
theorem C17_rows_blocks_inverse (s : Spec) (g : s.Good) (t : Table) (ht : KeyedRows s t) :
    ∃ b r, rowsToBlocks s t = .ok b ∧ blocksToRows s b = .ok r ∧ r ≈ₜ t := by
  obtain ⟨b, hb, h1, _⟩ := rowsToBlocks_spec g ht.2 (isRows_self ht.1)
  obtain ⟨r, hr, h3, h4⟩ := blocksToRows_spec g ht.2 h1
  exact ⟨b, r, hb, hr, equiv_of_isRows h3 (isRows_self ht.1) h4 ht.1⟩

/-- **C17 (blocks → rows → blocks).** For a strict (good) specification and a block-record table with complete
blocks, converting to rows and back succeeds and returns the original table. -/
theorem C17_blocks_rows_inverse (s : Spec) (g : s.Good) (t : Table) (ht : CompleteBlocks s t) :
    ∃ r b, blocksToRows s t = .ok r ∧ rowsToBlocks s r = .ok b ∧ b ≈ₜ t := by
  obtain ⟨hU, hB⟩ := collapse_spec g ht
  obtain ⟨r, hr, h1, _⟩ := blocksToRows_spec g hU hB
  obtain ⟨b, hb, h3, h4⟩ := rowsToBlocks_spec g hU h1
  exact ⟨r, b, hr, hb, equiv_of_isBlocks h3 hB h4 ht.1⟩

/-- **C17 (inverse()).** For a strict record map accepted by the constructor (between good specifications),
whenever `inverse()` returns a map `mi` (it raises when the outgoing side drops content keys), transforming a
conforming table with `m` and then with `mi` succeeds and returns the original table. -/
theorem C17_inverse_map (m mi : RecordMap) (gm : m.Good) (hinv : m.inverse = .ok mi) (t : Table)
    (ht : Conforms m t) :
    ∃ u v, m.transform t = .ok u ∧ mi.transform u = .ok v ∧ v ≈ₜ t := by
  obtain ⟨U, hU, hrep⟩ := conforms_rep gm ht
  obtain ⟨u, hu, hout⟩ := transform_spec gm hU hrep
  obtain ⟨gmi, e1, e2, k1, k2⟩ := inverse_spec gm hinv
  have hin : InRep mi U u := by
    unfold InRep
    unfold OutRep at hout
    rw [e1, e2]
    revert hout
    cases m.blocksIn <;> cases m.blocksOut <;> simp <;> intro h _ <;> exact h
  obtain ⟨v, hv, hvout⟩ := transform_spec gmi (hU.of_sameSet k2 k1) hin
  exact ⟨u, v, hu, hv, conforms_equiv ht hrep ⟨e1, e2⟩ hvout⟩

/-! ## 3. Composition

`compose` is modelled as repaired by `fixes/cdata-compose-row-forms.diff`.  On the unrepaired code the statement
below is false whenever either end of the composite is in row form (the composite's content keys are the example
cells "`<key> value`"): see `notes/C17_design.md` and the witness in `corpus/C17/`.

Hypotheses, all decidable: both maps are strict and accepted by the constructor between good specifications
(`RecordMap.Good`); `m₂` reads the form `m₁` writes (`Interface`: both row records, or `m₂.blocks_in` has the same
layout as `m₁.blocks_out` – same control keys, same control-table columns and rows up to order, record keys in
any order); `m₁`'s incoming control table is a parsed frame (`NormalIn`); the table conforms to `m₁`'s incoming
side.  `compose` returning `None` (rows → blocks → rows) or raising (record keys differ, the composite would drop
content keys, name clashes) is outside the statement: there is no map to apply.

Not covered (sampled by the oracle only): an `m₂.blocks_in` that *renames* the content keys of `m₁.blocks_out`
(same layout, other names in the cells). -/

/-- **C17 (compose / `>>`).** Whenever `m₂.compose(m₁)` (= `m₁ >> m₂`) returns a map `m`, applying `m` to a
conforming table succeeds and gives the same table as applying `m₁` and then `m₂` (which both succeed). -/
theorem C17_compose (m₁ m₂ m : RecordMap) (g₁ : m₁.Good) (g₂ : m₂.Good) (hn : NormalIn m₁)
    (hi : Interface m₁ m₂) (hc : compose m₂ m₁ = .ok (some m)) (t : Table) (ht : Conforms m₁ t) :
    ∃ u v w, m₁.transform t = .ok u ∧ m₂.transform u = .ok v ∧ m.transform t = .ok w ∧ w ≈ₜ v :=
  compose_spec g₁ g₂ hn hi hc ht

/-! ## 4. Non-vacuity: the hypotheses hold on concrete, non-trivial instances -/

section Examples

/-- control table  k | v | w  with rows (a, x, p), (b, y, q) -/
def exCt : Table := ⟨["k", "v", "w"],
  [[("k", .str "a"), ("v", .str "x"), ("w", .str "p")], [("k", .str "b"), ("v", .str "y"), ("w", .str "q")]]⟩
def exSpec : Spec := ⟨exCt, ["id"], ["k"], true⟩

/-- a second layout over the same content keys: one value column, four control rows, two key columns -/
def exCt2 : Table := ⟨["m", "n", "z"],
  [[("m", .num 1), ("n", .str "a"), ("z", .str "q")], [("m", .num 1), ("n", .str "b"), ("z", .str "x")],
   [("m", .num 2), ("n", .str "a"), ("z", .str "y")], [("m", .num 2), ("n", .str "b"), ("z", .str "p")]]⟩
def exSpec2 : Spec := ⟨exCt2, ["id"], ["m", "n"], true⟩

def exRows : Table := ⟨["x", "id", "y", "p", "q"],
  [[("x", .num 1), ("id", .num 7), ("y", .null), ("p", .str "s"), ("q", .num 2)],
   [("x", .num 3), ("id", .num 5), ("y", .num 4), ("p", .null), ("q", .num 2)]]⟩

def exBlocks : Table := ⟨["id", "k", "v", "w"],
  [[("id", .num 7), ("k", .str "b"), ("v", .null), ("w", .num 2)],
   [("id", .num 5), ("k", .str "a"), ("v", .num 3), ("w", .null)],
   [("id", .num 7), ("k", .str "a"), ("v", .num 1), ("w", .str "s")],
   [("id", .num 5), ("k", .str "b"), ("v", .num 4), ("w", .num 2)]]⟩

example : exSpec.Good := by decide
example : exSpec2.Good := by decide
example : KeyedRows exSpec exRows := by decide
example : CompleteBlocks exSpec exBlocks := by decide

def exMap : RecordMap := ⟨some exSpec, some exSpec2, true⟩
def exMapBack : RecordMap := ⟨some exSpec2, none, true⟩

theorem exMap_good : exMap.Good :=
  ⟨by decide, rfl, fun a h => by cases h; decide, fun b h => by cases h; decide⟩
theorem exMapBack_good : exMapBack.Good :=
  ⟨by decide, rfl, fun a h => by cases h; decide, fun b h => by cases h⟩

example : exMap.inverse = .ok ⟨some exSpec2, some exSpec, true⟩ := by decide
example : Conforms exMap exBlocks := by decide
example : NormalIn exMap := by decide
example : Interface exMap exMapBack := by decide
/-- `compose` does return a map on this pair (blocks → blocks, then blocks → rows) -/
example : ∃ m, compose exMapBack exMap = .ok (some m) := by
  refine ⟨⟨some exSpec, none, true⟩, ?_⟩
  decide +kernel

end Examples

end DAVerif.CData
