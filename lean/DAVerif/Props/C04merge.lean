import DAVerif.Proofs.SqlReach
import DAVerif.Proofs.SqlMergeMain
import DAVerif.Proofs.SqlTotal
import DAVerif.Props.C01core
/-!
# C01 with extend merges, and C04 (part) — merging compatible extend steps is an optimisation only

Property theorems only (all names in `DAVerif.Sql`).  Fragment, model and hypotheses are those of
`Props/C01core.lean`; the difference is the dialect option `allow_extend_merges` (`cfg.merges`), which those
theorems required to be off.

When the option is on and the translated source of an `extend` is a *mergeable* step (only extend steps are; no
WHERE / GROUP BY / ORDER BY), `extend_to_near_sql` computes `contention` from the non-trivial terms and the declared
dependencies of both and, if it is empty, writes its entries into the SELECT list of the source step instead of
emitting a new `extend_n` query (`Sql/ToNearSql.lean`, `toNear`, extend case).

* `C01_translation_engine_order_merges`, `C01_translation_sound_unary_merges`, `C01_translation_exact_merges`,
  `C08_sql_cols_merges`, `C09_sql_row_count_merges` – the theorems of `Props/C01core.lean` for **every** `cfg`
  (both values of `cfg.merges`; the hypothesis `cfg.merges = false` is gone).
* `C04_merge_option_sound` – the SQL produced with and without extend merges returns the same table (same
  column set, the same rows in the same order on the declared columns): the option may change the SQL text, never
  its result.
* `C01_to_sql_total` – the translation does not fail; `C04_merge_option_sound_lifted` – the `Except`-lifted form
  without hypotheses on the translations.
* `C04_merge_invariant` – what the dictionaries of every mergeable step of a translation mean (`Sql.MergeInv`).
* non-vacuity: pipelines where a merge really fires (two plain extends; a windowed extend on top of a plain one;
  a plain one on top of a windowed one; a merge into a step that `select_columns` has pruned), with the theorems
  applied to them; `merge_contention_necessary`: a pair that must not merge.

Proof: `Proofs/SqlMergeInv.lean` (invariant of mergeable steps), `Proofs/SqlMerge.lean` (`merge_sound`),
`Proofs/SqlMergeTrans.lean` (outcomes of `extend_to_near_sql`, the emitted step), `Proofs/SqlMergeMain.lean`
(`transOK_extend_merge`, main induction for every `cfg`).
-/
namespace DAVerif
namespace Sql

/-! ## 1. C01 for every dialect configuration -/

/-- **C01/C02, stage A, extend merges allowed.**  For every well-formed pipeline `p` of the fragment, every
environment that has its tables with at least the declared columns, every interpretation `Θ`, both engines and
**every** dialect configuration `cfg` (`allow_extend_merges` on or off): if `to_sql` produces the query `q`, then
`q` evaluates; its result has exactly the declared column set; and its rows, restricted to the declared columns,
are exactly, in order, the rows of the table the pipeline denotes under the engine's NULL placement (`semE ec`). -/
theorem C01_translation_engine_order_merges (Θ : Interp) (ec : EngineCfg) (env : Env) (cfg : SqlCfg)
    (p : Ops) (hf : InFrag p = true) (hwf : WF p) (hsq : SqlWF p) (hmp : MapsOK p)
    (he : EnvOK false env p) {q : Near} (h : toNearSql cfg p = .ok q) :
    ∃ T tp, semSql Θ ec env q = .ok T ∧ semE ec Θ SemCfg.ref env p = .ok tp ∧ tp.cols = p.cols ∧
      (∀ c, c ∈ T.cols ↔ c ∈ p.cols) ∧ T.rows.map (fun r => r.select p.cols) = tp.rows := by
  obtain ⟨st', hrun⟩ := toNearSql_ok h
  obtain ⟨tp, htp⟩ := semG_ok_frag (sqlRowLe ec) Θ SemCfg.ref env p hf false he
  obtain ⟨T, h1, h2, h4⟩ := stageA_root_merges Θ ec env SemCfg.ref cfg p hf hwf hsq hmp he hrun htp
  exact ⟨T, tp, h1, htp, (semG_cols_wf_frag _ Θ SemCfg.ref env p hf tp htp).1, h2, h4⟩

/-- **C01/C02 core for both values of `cfg.merges` (`C01_translation_sound_unary_merges`).**  One interpretation
`Θ` on both sides, both engines, every dialect configuration.  For every well-formed pipeline `p` of the fragment
and every environment with at least the declared columns, within the scope of C18 (`AggsOrderFree`,
`WindowsTotal`) and `SqlScope`: the query `to_sql` produces – with or without extend merges – evaluates, the
reference semantics evaluates, and the two tables have the same column set and the same multiset of rows. -/
theorem C01_translation_sound_unary_merges (Θ : Interp) (ec : EngineCfg) (env : Env) (cfg : SqlCfg)
    (p : Ops) (hf : InFrag p = true) (hwf : WF p) (hsq : SqlWF p) (hmp : MapsOK p)
    (he : EnvOK false env p) (hA : AggsOrderFree Θ p) (hW : WindowsTotal Θ SemCfg.ref env p)
    (hS : SqlScope Θ SemCfg.ref env p)
    {q : Near} (h : toNearSql cfg p = .ok q) :
    ∃ T t, semSql Θ ec env q = .ok T ∧ sem Θ SemCfg.ref env p = .ok t ∧ t.cols = p.cols ∧ T.EquivS t := by
  obtain ⟨T, tp, h1, h2, h3, h4, h6⟩ := C01_translation_engine_order_merges Θ ec env cfg p hf hwf hsq hmp he h
  have hB := sem_equiv_semE ec Θ SemCfg.ref env p hA (Or.inl hf) hW hS
  rw [h2] at hB
  cases hs : sem Θ SemCfg.ref env p with
  | error e => rw [hs] at hB; exact hB.elim
  | ok t =>
    rw [hs] at hB
    have heq : t ≈ tp := hB
    have hc : t.cols = p.cols := heq.1.trans h3
    refine ⟨T, t, h1, rfl, hc, ?_, ?_⟩
    · intro c; rw [hc]; exact h4 c
    · rw [hc, h6]; exact heq.2.symm

/-- the same for pipelines built by the builders (`Reachable`), every dialect configuration -/
theorem C01_translation_sound_reachable_merges (Θ : Interp) (ec : EngineCfg) (env : Env) (cfg : SqlCfg)
    (p : Ops) (hr : Reachable p) (hf : InFrag p = true) (hmp : MapsOK p)
    (he : EnvOK false env p) (hA : AggsOrderFree Θ p) (hW : WindowsTotal Θ SemCfg.ref env p)
    (hS : SqlScope Θ SemCfg.ref env p)
    {q : Near} (h : toNearSql cfg p = .ok q) :
    ∃ T t, semSql Θ ec env q = .ok T ∧ sem Θ SemCfg.ref env p = .ok t ∧ t.cols = p.cols ∧ T.EquivS t :=
  C01_translation_sound_unary_merges Θ ec env cfg p hf (C26_reachable_wf hr) (C01_reachable_sqlwf hr) hmp he hA hW hS h

/-- **Strong scope, every dialect configuration**: with null-free order columns at every `order_rows` and ordered
window, the SQL result – extend merges or not – has the reference rows in the same order (no law on `Θ`). -/
theorem C01_translation_exact_merges (Θ : Interp) (ec : EngineCfg) (env : Env) (cfg : SqlCfg)
    (p : Ops) (hf : InFrag p = true) (hwf : WF p) (hsq : SqlWF p) (hmp : MapsOK p)
    (he : EnvOK false env p) (hN : OrdersNullFree Θ SemCfg.ref env p)
    {q : Near} (h : toNearSql cfg p = .ok q) :
    ∃ T t, semSql Θ ec env q = .ok T ∧ sem Θ SemCfg.ref env p = .ok t ∧ t.cols = p.cols ∧ T.EqS t := by
  obtain ⟨T, tp, h1, h2, h3, h4, h6⟩ := C01_translation_engine_order_merges Θ ec env cfg p hf hwf hsq hmp he h
  rw [semE_eq_sem_of_nullFree ec Θ SemCfg.ref env p hN] at h2
  refine ⟨T, tp, h1, h2, h3, ?_, ?_⟩
  · intro c; rw [h3]; exact h4 c
  · rw [h3]; exact h6

/-- C08 for every dialect configuration: the SQL result has exactly the declared column set -/
theorem C08_sql_cols_merges (Θ : Interp) (ec : EngineCfg) (env : Env) (cfg : SqlCfg)
    (p : Ops) (hf : InFrag p = true) (hwf : WF p) (hsq : SqlWF p) (hmp : MapsOK p)
    (he : EnvOK false env p) {q : Near} (h : toNearSql cfg p = .ok q) :
    ∃ T, semSql Θ ec env q = .ok T ∧ ∀ c, c ∈ T.cols ↔ c ∈ p.cols := by
  obtain ⟨T, _, h1, _, _, h4, _⟩ := C01_translation_engine_order_merges Θ ec env cfg p hf hwf hsq hmp he h
  exact ⟨T, h1, h4⟩

/-- C09 for every dialect configuration: the SQL result has as many rows as the pipeline's table -/
theorem C09_sql_row_count_merges (Θ : Interp) (ec : EngineCfg) (env : Env) (cfg : SqlCfg)
    (p : Ops) (hf : InFrag p = true) (hwf : WF p) (hsq : SqlWF p) (hmp : MapsOK p)
    (he : EnvOK false env p) {q : Near} (h : toNearSql cfg p = .ok q) :
    ∃ T tp, semSql Θ ec env q = .ok T ∧ semE ec Θ SemCfg.ref env p = .ok tp ∧ T.rows.length = tp.rows.length := by
  obtain ⟨T, tp, h1, h2, _, _, h6⟩ := C01_translation_engine_order_merges Θ ec env cfg p hf hwf hsq hmp he h
  refine ⟨T, tp, h1, h2, ?_⟩
  have := congrArg List.length h6
  simpa using this

/-! ## 2. C04: the merge option does not change the result -/

/-- **Equality of tables up to column order** (specification side): the same column set, and the same rows in the
same order when every row is read through the column list of the first table. -/
def SameUpToColOrder (T T' : Table) : Prop :=
  (∀ c, c ∈ T.cols ↔ c ∈ T'.cols) ∧
    T.rows.map (fun r => r.select T.cols) = T'.rows.map (fun r => r.select T.cols)

/-- its lifting to results: two errors, or two tables that are equal up to column order -/
def ResSame : Except Err Table → Except Err Table → Prop
  | .ok T, .ok T' => SameUpToColOrder T T'
  | .error _, .error _ => True
  | _, _ => False

/-- `db.read_query(ops.to_sql(db_model))` in the model: translate, then evaluate the query -/
def sqlResult (Θ : Interp) (ec : EngineCfg) (env : Env) (cfg : SqlCfg) (p : Ops) : Except Err Table :=
  toNearSql cfg p >>= semSql Θ ec env

/-- **C04_merge_option_sound.**  For every well-formed pipeline `p` of the fragment, every environment with at
least the declared columns, every `Θ`, both engines and every dialect configuration `cfg`: if `to_sql` succeeds
with `allow_extend_merges = True` (query `q₁`) and with `allow_extend_merges = False` (query `q₂`), then both
queries evaluate, to tables with the same column set – the declared columns – and **the same rows in the same
order** (read through the declared columns, or through the column list of either result).  No hypothesis on the
data, on `Θ` or on NULL placement: merging extend steps changes the SQL text, never its result. -/
theorem C04_merge_option_sound (Θ : Interp) (ec : EngineCfg) (env : Env) (cfg : SqlCfg)
    (p : Ops) (hf : InFrag p = true) (hwf : WF p) (hsq : SqlWF p) (hmp : MapsOK p) (he : EnvOK false env p)
    {q₁ q₂ : Near} (h₁ : toNearSql { cfg with merges := true } p = .ok q₁)
    (h₂ : toNearSql { cfg with merges := false } p = .ok q₂) :
    ∃ T₁ T₂, semSql Θ ec env q₁ = .ok T₁ ∧ semSql Θ ec env q₂ = .ok T₂ ∧
      (∀ c, c ∈ T₁.cols ↔ c ∈ p.cols) ∧ (∀ c, c ∈ T₂.cols ↔ c ∈ p.cols) ∧
      T₁.rows.map (fun r => r.select p.cols) = T₂.rows.map (fun r => r.select p.cols) ∧
      SameUpToColOrder T₁ T₂ := by
  obtain ⟨T₁, tp₁, a1, a2, _, a4, a6⟩ :=
    C01_translation_engine_order_merges Θ ec env { cfg with merges := true } p hf hwf hsq hmp he h₁
  obtain ⟨T₂, tp₂, b1, b2, _, b4, b6⟩ :=
    C01_translation_engine_order_merges Θ ec env { cfg with merges := false } p hf hwf hsq hmp he h₂
  rw [a2] at b2
  cases b2
  have hrows : T₁.rows.map (fun r => r.select p.cols) = T₂.rows.map (fun r => r.select p.cols) := a6.trans b6.symm
  refine ⟨T₁, T₂, a1, b1, a4, b4, hrows, fun c => (a4 c).trans (b4 c).symm, ?_⟩
  exact map_select_mono hrows (fun c hc => (a4 c).mp hc)

/-- the same as a statement about results (`ResSame`), given that both translations succeed -/
theorem C04_merge_option_sound_res (Θ : Interp) (ec : EngineCfg) (env : Env) (cfg : SqlCfg)
    (p : Ops) (hf : InFrag p = true) (hwf : WF p) (hsq : SqlWF p) (hmp : MapsOK p) (he : EnvOK false env p)
    {q₁ q₂ : Near} (h₁ : toNearSql { cfg with merges := true } p = .ok q₁)
    (h₂ : toNearSql { cfg with merges := false } p = .ok q₂) :
    ResSame (sqlResult Θ ec env { cfg with merges := true } p) (sqlResult Θ ec env { cfg with merges := false } p) := by
  obtain ⟨T₁, T₂, a1, b1, _, _, _, hs⟩ := C04_merge_option_sound Θ ec env cfg p hf hwf hsq hmp he h₁ h₂
  unfold sqlResult
  rw [h₁, h₂]
  show ResSame (semSql Θ ec env q₁) (semSql Θ ec env q₂)
  rw [a1, b1]
  exact hs

/-- **`to_sql` does not fail** on the fragment, for every dialect configuration: for a well-formed pipeline whose
tables are present with at least the declared columns, `to_near_sql_implementation_` returns a query (no
`KeyError` from `select_columns` / `drop_columns` on a merged or pruned step, no failed guard). -/
theorem C01_to_sql_total (Θ : Interp) (ec : EngineCfg) (env : Env) (cfg : SqlCfg)
    (p : Ops) (hf : InFrag p = true) (hwf : WF p) (hsq : SqlWF p) (hmp : MapsOK p) (he : EnvOK false env p) :
    ∃ q, toNearSql cfg p = .ok q :=
  toNearSql_total_frag Θ ec env cfg p hf hwf hsq hmp he

/-- **C04_merge_option_sound, as an equation between results** (`Except`-lifted, no hypothesis on the outcome of
the translations): translating with and without extend merges and running the query gives, in both cases, a
table – never an error – and the two tables are equal up to column order. -/
theorem C04_merge_option_sound_lifted (Θ : Interp) (ec : EngineCfg) (env : Env) (cfg : SqlCfg)
    (p : Ops) (hf : InFrag p = true) (hwf : WF p) (hsq : SqlWF p) (hmp : MapsOK p) (he : EnvOK false env p) :
    ResSame (sqlResult Θ ec env { cfg with merges := true } p) (sqlResult Θ ec env { cfg with merges := false } p) ∧
      ∃ T₁ T₂, sqlResult Θ ec env { cfg with merges := true } p = .ok T₁ ∧
        sqlResult Θ ec env { cfg with merges := false } p = .ok T₂ := by
  obtain ⟨q₁, h₁⟩ := C01_to_sql_total Θ ec env { cfg with merges := true } p hf hwf hsq hmp he
  obtain ⟨q₂, h₂⟩ := C01_to_sql_total Θ ec env { cfg with merges := false } p hf hwf hsq hmp he
  refine ⟨C04_merge_option_sound_res Θ ec env cfg p hf hwf hsq hmp he h₁ h₂, ?_⟩
  obtain ⟨T₁, T₂, a1, b1, _⟩ := C04_merge_option_sound Θ ec env cfg p hf hwf hsq hmp he h₁ h₂
  refine ⟨T₁, T₂, ?_, ?_⟩
  · unfold sqlResult; rw [h₁]; exact a1
  · unfold sqlResult; rw [h₂]; exact b1

/-- **C04_merge_invariant.**  Every step of a translation that is marked mergeable – the emitted `extend_n`
steps, steps that already absorbed other extends, steps pruned by `select_columns` / `drop_columns` – is a plain
SELECT without suffix whose dictionaries satisfy `TermsOK`: each non-pass entry is an expression or window
expression, its declared dependencies contain every column it reads (partition and order columns included), and
every entry reads only columns its sub-query is bound with.  (Stated for the root step; the induction
`Sql.transOK_frag_merges` has it for every sub-query.) -/
theorem C04_merge_invariant (Θ : Interp) (ec : EngineCfg) (env : Env) (cfg : SqlCfg)
    (p : Ops) (hf : InFrag p = true) (hwf : WF p) (hsq : SqlWF p) (hmp : MapsOK p) (he : EnvOK false env p)
    {q : Near} (h : toNearSql cfg p = .ok q) : MergeInv q := by
  obtain ⟨st', hrun⟩ := toNearSql_ok h
  exact mergeInv_root Θ ec env SemCfg.ref cfg p hf hwf hsq hmp he hrun

/-! ## 3. Non-vacuity: pipelines where a merge really fires -/

namespace C04Ex
open C18Ex (Θc)
open C01Ex (envD d)

/-- `allow_extend_merges = True` (the default of every dialect) / `False` -/
def cfgT : SqlCfg := ⟨true, true⟩
def cfgF : SqlCfg := ⟨false, true⟩

def xPlus1 : Term := .app "+" [.col "x", .value (.int 1)] true false
def xTimes2 : Term := .app "*" [.col "x", .value (.int 2)] true false
def sizeW : Term := .app "size" [] false true
def winG : Option Win := some ⟨["g"], [], []⟩

theorem d_env (p : Ops) (hp : p.tables = [("d", ["g", "x"])]) : EnvOK false envD p := by
  intro nc hnc
  rw [hp, List.mem_singleton] at hnc
  subst hnc
  exact ⟨_, rfl, by decide, fun h => by cases h⟩

theorem plain_extOK (sc : List String) (ops : Assign) (h1 : ∀ c ∈ Rules26.usedBy ops, c ∈ sc)
    (h2 : impliesWindowed ops = false) : ExtOK sc ops [] [] [] false :=
  ⟨h1, by simp, by simp, by simp, fun _ _ => ⟨by simp, by simp⟩, fun _ => ⟨h2, rfl, rfl⟩, fun h => by cases h⟩

/-! ### two plain extends: `d.extend({'y': 'x + 1'}).extend({'z': 'x * 2'})` (as two nodes) -/

def pM : Ops := .extend (.extend d [("y", xPlus1)] [] [] [] false) [("z", xTimes2)] [] [] [] false

/-- the single query the translation with merges returns: `SELECT g, x, x + 1 AS y, x * 2 AS z FROM d` -/
def qM : Near :=
  .unary "extend_0" (some [("g", .pass), ("x", .pass), ("y", .expr xPlus1 none), ("z", .expr xTimes2 none)]) false
    (.table "d" ["g", "x"]) (some ["g", "x"]) .none true
    (some [("g", ["g"]), ("x", ["x"]), ("y", ["x"]), ("z", ["x"])]) (keyOfNode "extend" pM ["g", "x", "y", "z"])

/-- the merge fires: one query instead of two -/
theorem pM_merged : toNearSql cfgT pM = .ok qM := rfl
example : (toNearSql cfgF pM).map Near.names = .ok ["extend_1", "extend_0"] := rfl
example : qM.names = ["extend_0"] := rfl

theorem pM_wf : WF pM :=
  ⟨⟨⟨by decide, by decide⟩, plain_extOK _ _ (by decide) (by decide)⟩, plain_extOK _ _ (by decide) (by decide)⟩

/-- the main theorem applies to the merged translation … -/
example (ec : EngineCfg) :
    ∃ T t, semSql Θc ec envD qM = .ok T ∧ sem Θc SemCfg.ref envD pM = .ok t ∧ t.cols = pM.cols ∧ T.EquivS t :=
  C01_translation_sound_unary_merges Θc ec envD cfgT pM rfl pM_wf (by decide) (by decide) (d_env pM rfl)
    trivial ⟨⟨trivial, fun h => by cases h⟩, fun h => by cases h⟩
    ⟨⟨trivial, fun h => by cases h⟩, fun h => by cases h⟩ pM_merged

/-- … and C04 to the pair of translations -/
example (ec : EngineCfg) {q₂ : Near} (h₂ : toNearSql cfgF pM = .ok q₂) :
    ∃ T₁ T₂, semSql Θc ec envD qM = .ok T₁ ∧ semSql Θc ec envD q₂ = .ok T₂ ∧
      (∀ c, c ∈ T₁.cols ↔ c ∈ pM.cols) ∧ (∀ c, c ∈ T₂.cols ↔ c ∈ pM.cols) ∧
      T₁.rows.map (fun r => r.select pM.cols) = T₂.rows.map (fun r => r.select pM.cols) ∧ SameUpToColOrder T₁ T₂ :=
  C04_merge_option_sound Θc ec envD cfgT pM rfl pM_wf (by decide) (by decide) (d_env pM rfl) pM_merged h₂

/-- the `Except`-lifted form: both `to_sql` calls succeed and the two results are the same table -/
example (ec : EngineCfg) : ResSame (sqlResult Θc ec envD cfgT pM) (sqlResult Θc ec envD cfgF pM) :=
  (C04_merge_option_sound_lifted Θc ec envD cfgT pM rfl pM_wf (by decide) (by decide) (d_env pM rfl)).1

/-- the merged query evaluates to a real table (three rows, `y` and `z` computed side by side) -/
example : (semSql Θc EngineCfg.sqlite envD qM).toOption = some ⟨["g", "x", "y", "z"],
    [[("g", .str "a"), ("x", .num 1), ("y", .num 2), ("z", .num 2)],
     [("g", .str "b"), ("x", .num 2), ("y", .num 3), ("z", .num 4)],
     [("g", .str "a"), ("x", .null), ("y", .null), ("z", .null)]]⟩ := by decide +kernel

/-! ### a windowed extend merged next to a plain one, and a plain one next to a windowed one -/

/-- `d.extend({'y': 'x + 1'}).extend({'c': '_.size()'}, partition_by=['g'])` -/
def pPW : Ops := .extend (.extend d [("y", xPlus1)] [] [] [] false) [("c", sizeW)] ["g"] [] [] true

/-- `SELECT g, x, x + 1 AS y, COUNT(1) OVER (PARTITION BY g) AS c FROM d`: the window term is evaluated over the
rows of `d` (the FROM rows of the merged SELECT), next to the plain term -/
def qPW : Near :=
  .unary "extend_0" (some [("g", .pass), ("x", .pass), ("y", .expr xPlus1 none), ("c", .expr sizeW winG)]) false
    (.table "d" ["g", "x"]) (some ["g", "x"]) .none true
    (some [("g", ["g"]), ("x", ["x"]), ("y", ["x"]), ("c", ["g"])]) (keyOfNode "extend" pPW ["g", "x", "y", "c"])

theorem pPW_merged : toNearSql cfgT pPW = .ok qPW := rfl
example : (toNearSql cfgF pPW).map Near.names = .ok ["extend_1", "extend_0"] := rfl

theorem pPW_wf : WF pPW := by
  refine ⟨⟨⟨by decide, by decide⟩, plain_extOK _ _ (by decide) (by decide)⟩, ?_⟩
  refine ⟨by decide, by decide, by decide, by decide, by decide, ?_, ?_⟩
  · intro h; cases h
  · intro _; decide

example (ec : EngineCfg) :
    ∃ T t, semSql Θc ec envD qPW = .ok T ∧ sem Θc SemCfg.ref envD pPW = .ok t ∧ t.cols = pPW.cols ∧ T.EquivS t :=
  C01_translation_sound_unary_merges Θc ec envD cfgT pPW rfl pPW_wf (by decide) (by decide) (d_env pPW rfl)
    trivial
    ⟨⟨trivial, fun h => by cases h⟩, fun _ t _ => Or.inr (fun kv hkv => by
      simp only [List.mem_singleton] at hkv
      subst hkv
      exact C18Ex.size_win_orderFree)⟩
    ⟨⟨trivial, fun h => by cases h⟩, fun _ t _ => Or.inl (fun _ _ _ hc => by cases hc)⟩ pPW_merged

/-- the merged query evaluates to a real table: three rows, the plain and the window column side by side -/
example : ∃ T, semSql Θc EngineCfg.sqlite envD qPW = .ok T ∧ T.cols = ["g", "x", "y", "c"] ∧ T.rows.length = 3 :=
  ⟨_, rfl, by decide, by decide⟩

/-- `d.extend({'c': '_.size()'}, partition_by=['g']).extend({'z': 'x * 2'})`: the builders keep these two nodes
apart (a windowed and a plain extend), the SQL translation merges them -/
def pWP : Ops := .extend (.extend d [("c", sizeW)] ["g"] [] [] true) [("z", xTimes2)] [] [] [] false

def qWP : Near :=
  .unary "extend_0" (some [("g", .pass), ("x", .pass), ("c", .expr sizeW winG), ("z", .expr xTimes2 none)]) false
    (.table "d" ["g", "x"]) (some ["g", "x"]) .none true
    (some [("g", ["g"]), ("x", ["x"]), ("c", ["g"]), ("z", ["x"])]) (keyOfNode "extend" pWP ["g", "x", "c", "z"])

theorem pWP_merged : toNearSql cfgT pWP = .ok qWP := rfl

/-! ### a merge into a step that `select_columns` has pruned (the situation of fix D32) -/

/-- `d.extend({'c': '_.size()'}, partition_by=['g']).select_columns(['c']).extend({'z': '1'})`: the window step
renders `g` (its partition column), `select_columns` deletes that entry from the step's SELECT list but not from its
declared dependencies, then `z` is merged into the pruned step -/
def pD : Ops := .extend (.selectCols (.extend d [("c", sizeW)] ["g"] [] [] true) ["c"])
  [("z", .value (.int 1))] [] [] [] false

theorem pD_merged : (toNearSql cfgT pD).map Near.names = .ok ["extend_1", "table_reference_0"] := rfl
example : (toNearSql cfgF pD).map Near.names = .ok ["extend_2", "extend_1", "table_reference_0"] := rfl
example : (toNearSql cfgT pD).map Near.termKeys = .ok (some ["c", "z"]) := rfl

/-! ### a pair that must not merge -/

/-- `d.extend({'y': 'x + 1'}).extend({'z': 'y * 2'})`: our term reads the column `y` that the source step computes -/
def pN : Ops :=
  .extend (.extend d [("y", xPlus1)] [] [] [] false) [("z", .app "*" [.col "y", .value (.int 2)] true false)]
    [] [] [] false

/-- our dictionaries and those of the source step, as `extend_to_near_sql` builds them for the root request -/
def termsN : Terms := extTerms [("z", .app "*" [.col "y", .value (.int 2)] true false)] ["g", "x", "y", "z"] none
def depsN : List (String × List String) :=
  extDeps [("z", .app "*" [.col "y", .value (.int 2)] true false)] ["g", "x", "y", "z"] []
def stermsN : Terms := extTerms [("y", xPlus1)] ["g", "x", "y"] none
def sdepsN : List (String × List String) := extDeps [("y", xPlus1)] ["g", "x", "y"] []

/-- what the merge would return if the contention check were skipped:
`SELECT g, x, x + 1 AS y, y * 2 AS z FROM d` -/
def qBad : Near := extMerged pN "extend_0" stermsN false (.table "d" ["g", "x"]) (some ["g", "x"]) sdepsN termsN depsN

end C04Ex

open C04Ex in
/-- **merge_contention_necessary.**  `d.extend({'y': 'x + 1'}).extend({'z': 'y * 2'})`: the contention set is
`{y}` (a non-trivial term of the source step that our term needs), the translation with `allow_extend_merges`
emits two queries, and it has to: the step the merge would produce, `SELECT g, x, x + 1 AS y, y * 2 AS z FROM d`,
reads a column `y` of `d` that does not exist there (in the model: NULL) instead of `x + 1` – its `z` differs from the
reference result.  The contention check (component `subNT ∩ ourNeeds`) cannot be dropped. -/
theorem merge_contention_necessary :
    contention depsN termsN sdepsN stermsN = ["y"] ∧
    (toNearSql cfgT pN).map Near.names = .ok ["extend_1", "extend_0"] ∧
    ((semSql C18Ex.Θc EngineCfg.sqlite C01Ex.envD qBad).toOption.map
        (fun T => T.rows.map (fun r => (r.get "x", r.get "y", r.get "z")))) =
      some [(.num 1, .num 2, .null), (.num 2, .num 3, .null), (.null, .null, .null)] ∧
    ((sem C18Ex.Θc SemCfg.ref C01Ex.envD pN).toOption.map
        (fun t => t.rows.map (fun r => (r.get "x", r.get "y", r.get "z")))) =
      some [(.num 1, .num 2, .num 4), (.num 2, .num 3, .num 6), (.null, .null, .null)] := by
  refine ⟨by decide +kernel, rfl, by decide +kernel, by decide +kernel⟩

end Sql
end DAVerif
