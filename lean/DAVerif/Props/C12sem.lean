import DAVerif.Proofs.BuilderReach
import DAVerif.Proofs.PrintSem
import DAVerif.Proofs.PrintSemScope
import DAVerif.Proofs.PrintSemRMain
import DAVerif.Props.C06
import DAVerif.Props.C12
/-!
# C12, semantic half WITHOUT the guard `noRemerge`

`Props/C12.lean` proves: for a reachable pipeline `p` inside the guard `noRemerge`, evaluating the printed text
rebuilds exactly `p`; outside the guard the rebuilt tree differs (finding `C12-extend-remerge`, N26: an `extend`
that was not merged when `p` was built is merged when the text is evaluated).  This file proves what the finding
leaves open: **outside the guard the printed text still evaluates, and to a pipeline with the same results.**

Statements (all for every `Reachable p`, no guard):

* `C12_rebuild_is_replaceLeaves` – evaluating the printed text is `replace_leaves({})` of the pipeline (the same
  pipeline or the same error);
* `C12_rebuild_total`   – the evaluation succeeds;
* `C12_rebuild_struct`  – the rebuilt pipeline is reachable, has the same table descriptions and declares the same
  columns up to order (`C12_rebuild_column_order_not_preserved`: not always in the same order);
* `C12_rebuild_sem_all_rows` (§5) – **no scope hypothesis**: same error, or the same rows in the same order with the
  columns possibly in another order (`≈ʳ`, `Spec/ColOrder.lean`), for every interpretation `Θ` whose record
  transforms return their declared columns (`ConvertOK`) and read and write columns by name
  (`ConvertColInvariant`), both configurations and every environment; `C12_rebuild_sem_all_noscope` its `≈ᶜ` form;
* `C12_rebuild_sem_all` (§2) – the same conclusion up to the order of rows and of columns (`≈ᶜ`, the framework's
  comparison rule) under the laws C06 / C07 use (`ConvertOK`, `ConvertInvariant`: record transforms respect `≈ᶜ`)
  for every environment **in C18's scope for `p`** (`AggsOrderFree`, `WindowsTotal`, stated on `p`'s own
  intermediate results) – obtained directly from C07's `replaceLeaves_sem`;
* `C12_rebuild_all`, `C12_rebuild_all_rows` – totality, structure and results together;
* `C12_rebuild_sem_scope_necessary` (§4) – under the laws of §2 alone the scope hypothesis cannot be dropped:
  `ConvertInvariant` lets a record transform answer a re-ordering of the *columns* of its input with a re-ordering of
  the *rows* of its output, the re-merge changes the column order, and an `order_rows` with a limit that cuts a tie
  then keeps another row.  A fact about the laws, not about the library; `ConvertColInvariant` excludes it
  (`Θadv_not_colInvariant`).

Where the scope of §2 comes from.  Not from the elimination of limit-less `order_rows` (a reachable `p` has none
below its top, `C12.NF`, and the rebuild skips none: `replace_kind`, `noTrivialOrderTop_of_nf`): it is the invariant
of the induction.  With `≈ᶜ` the rebuilt source of a node is only known to evaluate to the original source's result
*up to row order*, so the node above it must be insensitive to the row order of its input – C18's scope condition
for that node.  §5 uses the sharper invariant `≈ʳ` (same rows in the same order, columns permuted), which the
re-merge satisfies and every operator respects unconditionally (`applyNode_congrR`, `Proofs/PrintSemR.lean`).
Inside the guard neither scope nor law is needed (`C12_rebuild_sem_partial`: the rebuilt pipeline is `p` itself).
-/
namespace DAVerif.C12
open DAVerif Rules26 DAVerif.C12S

/-! ## 1. the rebuilt pipeline -/

/-- **Evaluating the printed text of a reachable pipeline is `replace_leaves({})`** (`Ops.replaceLeaves []`, C07's
model: every node is rebuilt through its builder on the rebuilt sources): the same pipeline, or the same error. -/
theorem C12_rebuild_is_replaceLeaves {p : Ops} (h : Reachable p) :
    rebuild (toCalls p) = Ops.replaceLeaves [] p :=
  rebuild_eq_replace p (C12_reachable_nf h) h.valid

/-- **Totality, no guard.**  The printed text of every reachable pipeline evaluates: no builder call of the text is
rejected (each is applied to a rebuilt source that declares the same columns up to order and carries the same
table descriptions as the node's own source). -/
theorem C12_rebuild_total {p : Ops} (h : Reachable p) : ∃ q, rebuild (toCalls p) = .ok q := by
  rw [C12_rebuild_is_replaceLeaves h]
  exact replaceId_total p h.valid

/-- whatever a printed text evaluates to is a pipeline the builders can produce -/
theorem C12_rebuild_reachable (pr : Printed) : ∀ q, rebuild pr = .ok q → Reachable q := by
  induction pr with
  | table n cs =>
    intro q hq
    simp only [rebuild, mkTable, ok?_bind_ok, pure_ok] at hq
    obtain ⟨h1, h2, rfl⟩ := hq
    exact Reachable.table n cs (by intro e; subst e; simp at h1) (nodupB_iff.mp h2)
  | call r c ih =>
    intro q hq
    simp only [rebuild] at hq
    obtain ⟨p0, h0, hb⟩ := bind_ok.mp hq
    refine Reachable.step (ih p0 h0) ?_ hb
    intro b hb'
    cases c <;> simp [Call.toStep, stepArgs] at hb'
  | join r b on jt ihr ihb =>
    intro q hq
    simp only [rebuild] at hq
    obtain ⟨a, ha, hq⟩ := bind_ok.mp hq
    obtain ⟨b', hb', hq⟩ := bind_ok.mp hq
    refine Reachable.step (ihr a ha) ?_ hq
    intro x hx
    simp only [stepArgs, List.mem_singleton] at hx
    rw [hx]
    exact ihb b' hb'
  | concat r b idc an bn ihr ihb =>
    intro q hq
    simp only [rebuild] at hq
    obtain ⟨a, ha, hq⟩ := bind_ok.mp hq
    obtain ⟨b', hb', hq⟩ := bind_ok.mp hq
    refine Reachable.step (ihr a ha) ?_ hq
    intro x hx
    simp only [stepArgs, List.mem_singleton] at hx
    rw [hx]
    exact ihb b' hb'

/-- **Structure, no guard.**  What the printed text of a reachable pipeline `p` evaluates to is again a reachable
pipeline, over exactly the table descriptions of `p` (same order), declaring the columns of `p` up to order. -/
theorem C12_rebuild_struct {p q : Ops} (h : Reachable p) (hr : rebuild (toCalls p) = .ok q) :
    Reachable q ∧ q.tables = p.tables ∧ q.cols.Perm p.cols := by
  refine ⟨C12_rebuild_reachable _ q hr, ?_⟩
  rw [C12_rebuild_is_replaceLeaves h] at hr
  exact (replaceId_struct p h.valid q hr).2

/-! ## 2. same results -/

/-- **C12 (results), no guard.**  For every reachable pipeline `p`, every interpretation `Θ` of the function symbols
whose record transforms return their declared columns and respect row / column order, both backend configurations
and every environment in C18's scope for `p`: if the printed text evaluates to `q` (it does:
`C12_rebuild_total`), then evaluating `q` fails with the same error as evaluating `p`, or gives the same table up to
the order of rows and of columns – whether or not `q` is the same tree as `p`. -/
theorem C12_rebuild_sem_all (Θ : Interp) (cfg : SemCfg) (env : Env) (hΘ : ConvertOK Θ) (hC : ConvertInvariant Θ)
    {p q : Ops} (h : Reachable p) (hA : AggsOrderFree Θ p) (hW : WindowsTotal Θ cfg env p)
    (hr : rebuild (toCalls p) = .ok q) :
    ResEquivC (sem Θ cfg env q) (sem Θ cfg env p) := by
  rw [C12_rebuild_is_replaceLeaves h] at hr
  refine (replaceLeaves_sem (Θ := Θ) (cfg := cfg) (env := env) (m := []) (env' := env) hΘ hC p h.valid ?_ hA hW
    q hr).2
  intro kc _
  show (match lookupLast ([] : List (String × Ops)) kc.1 with
    | some r => r.valid = true ∧ r.cols.Perm kc.2 ∧ ∃ t, sem Θ cfg env r = .ok t ∧ env.lookup kc.1 = some t
    | none => env.lookup kc.1 = env.lookup kc.1)
  rfl

/-- **C12 without the guard, assembled**: the printed text of a reachable pipeline evaluates, to a reachable
pipeline with the same table descriptions and the same columns up to order, which has the same results (up to row
and column order) as the original for every `Θ`, configuration and environment in scope. -/
theorem C12_rebuild_all {p : Ops} (h : Reachable p) :
    ∃ q, rebuild (toCalls p) = .ok q ∧ Reachable q ∧ q.tables = p.tables ∧ q.cols.Perm p.cols ∧
      ∀ (Θ : Interp) (cfg : SemCfg) (env : Env), ConvertOK Θ → ConvertInvariant Θ → AggsOrderFree Θ p →
        WindowsTotal Θ cfg env p → ResEquivC (sem Θ cfg env q) (sem Θ cfg env p) := by
  obtain ⟨q, hq⟩ := C12_rebuild_total h
  obtain ⟨h1, h2, h3⟩ := C12_rebuild_struct h hq
  exact ⟨q, hq, h1, h2, h3, fun Θ cfg env hΘ hC hA hW => C12_rebuild_sem_all Θ cfg env hΘ hC h hA hW hq⟩

/-! ## 3. Non-vacuity: the N26 witness (outside the guard) -/

namespace C12semEx
open C06Ex

def envN26 : Env :=
  [("d", ⟨["x", "y"], [[("x", .num 1), ("y", .num 5)], [("x", .num 2), ("y", .num 3)]]⟩)]

/-- the witness is outside the guard and its text evaluates to a different tree … -/
example : noRemerge witnessN26 = false ∧ rebuild (toCalls witnessN26) = .ok witnessN26Rebuilt ∧
    witnessN26Rebuilt ≠ witnessN26 :=
  ⟨by decide, witnessN26_rebuild, by simp [witnessN26Rebuilt, witnessN26]⟩

/-- … the scope hypotheses hold for it (no aggregate, no window, no limit) … -/
theorem n26_aggs : AggsOrderFree Θc witnessN26 := by
  simp only [witnessN26, AggsOrderFree]

theorem n26_windows (cfg : SemCfg) : WindowsTotal Θc cfg envN26 witnessN26 := by
  simp only [witnessN26, WindowsTotal]
  exact ⟨⟨trivial, fun h => by cases h⟩, fun h => by cases h⟩

/-- … so the theorem applies: the merged node and the two original nodes have the same result … -/
example : ResEquivC (sem Θc .pandas envN26 witnessN26Rebuilt) (sem Θc .pandas envN26 witnessN26) :=
  C12_rebuild_sem_all Θc .pandas envN26 convertOK convertInv witnessN26_reachable n26_aggs (n26_windows _)
    witnessN26_rebuild

/-- … and it speaks about a successful evaluation (two rows, columns `x, y, n4, r`). -/
example : ∃ t, sem Θc .pandas envN26 witnessN26 = .ok t ∧ t.cols = ["x", "y", "n4", "r"] ∧ t.rows.length = 2 :=
  ⟨_, rfl, by decide, by decide⟩

/-! a binary node: the `b=` argument of a `natural_join` is printed and evaluated recursively, and re-merges -/

/-- `e.natural_join(b=d.extend({'n4': 'x'}).extend({'r': 'y + n4'}).extend({'r': 'y'}), on=['x'], jointype='inner')` -/
def pJoin : Ops := .join (.table "e" ["x", "z"]) witnessN26 ["x"] ["x"] .inner

/-- what its text evaluates to: the same join over the merged `b` -/
def pJoinRebuilt : Ops := .join (.table "e" ["x", "z"]) witnessN26Rebuilt ["x"] ["x"] .inner

theorem build_join_inner (b : Ops) (hc : tablesConsistent [("e", ["x", "z"])] b.tables = true)
    (hx : subset ["x"] b.cols = true) :
    build (.table "e" ["x", "z"]) (.join b ["x"] ["x"] "INNER" false)
      = .ok (.join (.table "e" ["x", "z"]) b ["x"] ["x"] .inner) := by
  have hp : JoinType.parse "INNER" = some .inner := by decide +kernel
  show joinB _ _ _ _ _ _ = _
  rw [joinB_eq]
  simp only [mkJoin, hp, strip, Ops.tables, Ops.cols, hc, hx]
  rfl

theorem pJoin_reachable : Reachable pJoin :=
  Reachable.step (p := .table "e" ["x", "z"]) (s := .join witnessN26 ["x"] ["x"] "INNER" false)
    (Reachable.table _ _ (by decide) (by decide))
    (by intro b hb; simp only [stepArgs, List.mem_singleton] at hb; rw [hb]; exact witnessN26_reachable)
    (build_join_inner witnessN26 (by decide) (by decide))

theorem pJoin_rebuild : rebuild (toCalls pJoin) = .ok pJoinRebuilt := by
  have h1 : rebuild (toCalls (.table "e" ["x", "z"])) = .ok (.table "e" ["x", "z"]) := rfl
  simp only [pJoin, toCalls, rebuild] at h1 ⊢
  rw [h1, ok_bind']
  rw [witnessN26_rebuild, ok_bind']
  exact build_join_inner witnessN26Rebuilt (by decide) (by decide)

def envJoin : Env :=
  ("e", ⟨["x", "z"], [[("x", .num 2), ("z", .num 7)], [("x", .num 9), ("z", .num 8)]]⟩) :: envN26

example : noRemerge pJoin = false ∧ pJoinRebuilt ≠ pJoin :=
  ⟨by decide, by simp [pJoinRebuilt, pJoin, witnessN26Rebuilt, witnessN26]⟩

example : ResEquivC (sem Θc .pandas envJoin pJoinRebuilt) (sem Θc .pandas envJoin pJoin) :=
  C12_rebuild_sem_all Θc .pandas envJoin convertOK convertInv pJoin_reachable
    (by simp only [pJoin, witnessN26, AggsOrderFree]; exact ⟨trivial, trivial⟩)
    (by
      simp only [pJoin, witnessN26, WindowsTotal]
      exact ⟨trivial, ⟨trivial, fun h => by cases h⟩, fun h => by cases h⟩)
    pJoin_rebuild

/-- one joined row (`x = 2`), columns `x, z, y, n4, r` -/
example : ∃ t, sem Θc .pandas envJoin pJoin = .ok t ∧ t.cols = ["x", "z", "y", "n4", "r"] ∧ t.rows.length = 1 :=
  ⟨_, rfl, by decide, by decide⟩

end C12semEx

/-! ## 4. The scope hypothesis and the laws of `Θ` -/

namespace C12semScope

def d : Ops := .table "d" ["x", "y"]
/-- a record map that needs `x` and produces `k, v` -/
def rm : RecMap := ⟨["x"], ["k", "v"], "rm"⟩

/-- `d.extend({'a': 'x', 'b': 'y'}).extend({'a': 'b + 1'}).extend({'a': 'y'}).convert_records(rm)
.order_rows(['k'], limit=1)` -/
def steps : List Step :=
  [.extend [("a", .col "x"), ("b", .col "y")] .none [] [],
   .extend [("a", .app "+" [.col "b", .value (.int 1)] true false)] .none [] [],
   .extend [("a", .col "y")] .none [] [],
   .convert (some rm),
   .order ["k"] [] (some 1)]

/-- what the builders leave: the third `extend` was merged into the second, which then sits un-merged on the first
(the N26 pattern, here with a column, `a`, assigned by both remaining nodes) -/
def pAdv : Ops :=
  .order (.convert (.extend (.extend d [("a", .col "x"), ("b", .col "y")] [] [] [] false)
    [("a", .col "y")] [] [] [] false) rm) ["k"] [] (some 1)

/-- what the printed text evaluates to: the two `extend` calls are merged, `b` now comes before `a` -/
def qAdv : Ops :=
  .order (.convert (.extend d [("b", .col "y"), ("a", .col "y")] [] [] [] false) rm) ["k"] [] (some 1)

theorem pAdv_built : buildChain d steps = .ok pAdv := by rfl

theorem pAdv_reachable : Reachable pAdv :=
  Reachable.buildChain (Reachable.table "d" ["x", "y"] (by decide) (by decide))
    (fun s hs b hb => by
      simp only [steps, List.mem_cons, List.not_mem_nil, or_false] at hs
      rcases hs with rfl | rfl | rfl | rfl | rfl <;> cases hb)
    pAdv_built

theorem pAdv_rebuild : rebuild (toCalls pAdv) = .ok qAdv := by rfl

/-- the declared columns of the two `extend` tops differ in order: `x, y, a, b` and `x, y, b, a` -/
example : (Ops.extend (.extend d [("a", .col "x"), ("b", .col "y")] [] [] [] false)
      [("a", .col "y")] [] [] [] false).cols = ["x", "y", "a", "b"] ∧
    (Ops.extend d [("b", .col "y"), ("a", .col "y")] [] [] [] false).cols = ["x", "y", "b", "a"] :=
  ⟨by decide, by decide⟩

def envAdv : Env := [("d", ⟨["x", "y"], [[("x", .num 1), ("y", .num 5)], [("x", .num 2), ("y", .num 3)]]⟩)]

/-- the two rows the transform emits tie on `k`: in either order they are already sorted -/
theorem adv_sorted12 : sortRows ["k"] [] [advRow ["k", "v"] 1, advRow ["k", "v"] 2]
    = [advRow ["k", "v"] 1, advRow ["k", "v"] 2] := sortRows_of_sorted (by decide)
theorem adv_sorted21 : sortRows ["k"] [] [advRow ["k", "v"] 2, advRow ["k", "v"] 1]
    = [advRow ["k", "v"] 2, advRow ["k", "v"] 1] := sortRows_of_sorted (by decide)

theorem sem_pAdv : sem Θadv .pandas envAdv pAdv = .ok ⟨["k", "v"], [advRow ["k", "v"] 1]⟩ := by
  have h : sem Θadv .pandas envAdv pAdv = .ok (semOrder ["k"] [] (some 1)
      ⟨["k", "v"], [advRow ["k", "v"] 1, advRow ["k", "v"] 2]⟩) := rfl
  rw [h, semOrder, adv_sorted12]
  rfl

theorem sem_qAdv : sem Θadv .pandas envAdv qAdv = .ok ⟨["k", "v"], [advRow ["k", "v"] 2]⟩ := by
  have h : sem Θadv .pandas envAdv qAdv = .ok (semOrder ["k"] [] (some 1)
      ⟨["k", "v"], [advRow ["k", "v"] 2, advRow ["k", "v"] 1]⟩) := rfl
  rw [h, semOrder, adv_sorted21]
  rfl

end C12semScope

open C12semScope in
/-- **The rebuilt pipeline can declare its columns in another order** (so `C12_rebuild_struct` cannot state
`q.cols = p.cols`, and `C12_rebuild_sem_all` cannot state equality of the column lists): the reachable pipeline
`d.extend({'a': 'x', 'b': 'y'}).extend({'a': 'b + 1'}).extend({'a': 'y'})` – nodes `{'a': 'x', 'b': 'y'}` and
`{'a': 'y'}`, columns `x, y, a, b` – prints two `extend` calls that are merged when evaluated into the node
`{'b': 'y', 'a': 'y'}`, columns `x, y, b, a`.  The real library does the same (`column_names` and the columns of the
resulting data frame come in the other order): part of finding `C12-extend-remerge`. -/
theorem C12_rebuild_column_order_not_preserved :
    ¬ ∀ p q : Ops, Reachable p → rebuild (toCalls p) = .ok q → q.cols = p.cols := by
  intro h
  have hb : buildChain d (steps.take 3) = .ok (.extend (.extend d [("a", .col "x"), ("b", .col "y")] [] [] [] false)
      [("a", .col "y")] [] [] [] false) := by rfl
  have hreach := Reachable.buildChain (Reachable.table "d" ["x", "y"] (by decide) (by decide))
    (fun s hs b hb => by
      simp only [steps, List.take, List.mem_cons, List.not_mem_nil, or_false] at hs
      rcases hs with rfl | rfl | rfl <;> cases hb) hb
  have := h _ (.extend d [("b", .col "y"), ("a", .col "y")] [] [] [] false) hreach (by rfl)
  exact absurd this (by decide)

open C12semScope in
/-- **Under the stated laws of `Θ` the scope hypothesis of `C12_rebuild_sem_all` cannot be dropped.**  The
interpretation `Θadv` (`Proofs/PrintSemScope.lean`) satisfies `ConvertOK` and `ConvertInvariant`, but its record
transform lists two output rows that tie on `k` in an order that depends on the *column order* of its input.  The
reachable pipeline `pAdv` (the N26 pattern with a column assigned twice) is rebuilt with its two `extend` nodes
merged, which permutes the declared columns `a, b`; the transform then emits its rows in the other order and
`order_rows(['k'], limit=1)` – a limit that cuts through a tie, outside C18's scope – keeps the other row.

This is a statement about the *laws* the theorems assume of record transforms (they constrain the output only up
to row order), not about the library: for an interpretation whose record transforms keep the row order when the
columns of the input are permuted (`ConvertColInvariant`), the rebuilt pipeline returns the same rows in the same
order on every input, no scope needed (`C12_rebuild_sem_all_rows`, §5). -/
theorem C12_rebuild_sem_scope_necessary :
    ¬ ∀ (Θ : Interp) (cfg : SemCfg) (env : Env) (p q : Ops), ConvertOK Θ → ConvertInvariant Θ → Reachable p →
        rebuild (toCalls p) = .ok q → ResEquivC (sem Θ cfg env q) (sem Θ cfg env p) := by
  intro h
  have h0 := h Θadv .pandas envAdv pAdv qAdv Θadv_convertOK Θadv_convertInv pAdv_reachable pAdv_rebuild
  rw [sem_pAdv, sem_qAdv] at h0
  have hp : [advRow ["k", "v"] 2].Perm ([advRow ["k", "v"] 1].map (fun r => r.select ["k", "v"])) := h0.2.2.2.2
  have := List.singleton_perm_singleton.mp hp
  exact absurd this (by decide)

/-- the limit of `pAdv` is indeed outside C18's scope on this input (so `C12_rebuild_sem_all` does not apply): the
two rows tie on `k`, the cut falls between them -/
example : ¬ WindowsTotal Θadv .pandas C12semScope.envAdv C12semScope.pAdv := by
  intro h
  have h1 : LimitOK ["k"] [] 1 [advRow ["k", "v"] 1, advRow ["k", "v"] 2] := h.2 1 rfl _ rfl
  rcases h1 with h1 | ⟨kept, dropped, hp, hl, hc⟩
  · exact absurd (h1 _ (List.mem_cons_self ..) _ (List.mem_cons_of_mem _ (List.mem_cons_self ..))
      (by decide) (by decide)) (by decide)
  · have hlen := hp.length_eq
    simp only [List.length_cons, List.length_nil, List.length_append] at hlen hl
    have hk : kept.length = 1 := by omega
    have hd : dropped.length = 1 := by omega
    obtain ⟨a, rfl⟩ := List.length_eq_one_iff.mp hk
    obtain ⟨b, rfl⟩ := List.length_eq_one_iff.mp hd
    have ha : a ∈ [advRow ["k", "v"] 1, advRow ["k", "v"] 2] := hp.mem_iff.mpr (by simp)
    have hb : b ∈ [advRow ["k", "v"] 1, advRow ["k", "v"] 2] := hp.mem_iff.mpr (by simp)
    have := hc a (by simp) b (by simp)
    simp only [List.mem_cons, List.not_mem_nil, or_false] at ha hb
    rcases ha with rfl | rfl <;> rcases hb with rfl | rfl <;> exact absurd this (by decide)

/-! ## 5. Without scope: the same rows in the same order -/

/-- what the rebuild of a valid normal-form pipeline returns is in normal form (it is reachable) -/
theorem rebuildNF : RebuildNF := by
  intro p q hnf hv hq
  have hr : rebuild (toCalls p) = .ok q := by rw [rebuild_eq_replace p hnf hv]; exact hq
  exact C12_reachable_nf (C12_rebuild_reachable _ q hr)

/-- **C12 (results), no guard, no scope.**  For every reachable pipeline `p`, every interpretation `Θ` whose record
transforms return their declared columns (`ConvertOK`) and read and write columns by name
(`ConvertColInvariant`: permuting the columns of the input permutes the columns of the output and nothing else),
both configurations and **every** environment: if the printed text evaluates to `q`, then evaluating `q` fails with
the same error as evaluating `p`, or gives **the same rows in the same order**, the columns possibly listed in
another order (`≈ʳ`).  Window functions with ties, order dependent aggregates and limits that cut through a tie are
covered: the re-merge of `extend` nodes – the only thing the rebuild changes – keeps rows and row order. -/
theorem C12_rebuild_sem_all_rows (Θ : Interp) (cfg : SemCfg) (env : Env) (hΘ : ConvertOK Θ)
    (hR : ConvertColInvariant Θ) {p q : Ops} (h : Reachable p) (hr : rebuild (toCalls p) = .ok q) :
    ResEquivR (sem Θ cfg env q) (sem Θ cfg env p) := by
  rw [C12_rebuild_is_replaceLeaves h] at hr
  exact replaceId_semR hΘ hR rebuildNF p (C12_reachable_nf h) h.valid q hr

/-- … in particular the same table up to the order of rows and columns (the framework's comparison rule), with no
scope hypothesis, for interpretations with the column law -/
theorem C12_rebuild_sem_all_noscope (Θ : Interp) (cfg : SemCfg) (env : Env) (hΘ : ConvertOK Θ)
    (hR : ConvertColInvariant Θ) {p q : Ops} (h : Reachable p) (hr : rebuild (toCalls p) = .ok q) :
    ResEquivC (sem Θ cfg env q) (sem Θ cfg env p) :=
  (C12_rebuild_sem_all_rows Θ cfg env hΘ hR h hr).toC

/-- **C12 without guard and scope, assembled.** -/
theorem C12_rebuild_all_rows {p : Ops} (h : Reachable p) :
    ∃ q, rebuild (toCalls p) = .ok q ∧ Reachable q ∧ q.tables = p.tables ∧ q.cols.Perm p.cols ∧
      ∀ (Θ : Interp) (cfg : SemCfg) (env : Env), ConvertOK Θ → ConvertColInvariant Θ →
        ResEquivR (sem Θ cfg env q) (sem Θ cfg env p) := by
  obtain ⟨q, hq⟩ := C12_rebuild_total h
  obtain ⟨h1, h2, h3⟩ := C12_rebuild_struct h hq
  exact ⟨q, hq, h1, h2, h3, fun Θ cfg env hΘ hR => C12_rebuild_sem_all_rows Θ cfg env hΘ hR h hq⟩

/-- the adversarial interpretation of section 4 is excluded by the column law (as it must be) -/
theorem Θadv_not_colInvariant : ¬ ConvertColInvariant Θadv := by
  intro hR
  have h0 := C12_rebuild_sem_all_rows Θadv .pandas C12semScope.envAdv Θadv_convertOK hR
    C12semScope.pAdv_reachable C12semScope.pAdv_rebuild
  rw [C12semScope.sem_pAdv, C12semScope.sem_qAdv] at h0
  have := List.singleton_perm_singleton.mp (List.Perm.of_eq h0.rows_eq)
  exact absurd this (by decide)

namespace C12semRows
open C06Ex

/-- the law holds for the example interpretation (its record transform returns the declared columns and no rows) -/
theorem convertColInv : ConvertColInvariant Θc := by
  intro rm t t' hn _
  show ResEquivR (conv rm t) (conv rm t')
  simp only [conv, nodupB_iffC.mpr hn, if_true]
  exact Table.EquivR.refl (fun _ hr => by cases hr) hn

/-- `d.extend({'a': 'x', 'b': 'y'}).extend({'a': 'b + 1'}).extend({'a': 'y'}).order_rows(['y'], limit=1)`:
outside the guard (the two remaining `extend` nodes re-merge, with another column order) … -/
def pLim : Ops :=
  .order (.extend (.extend C12semScope.d [("a", .col "x"), ("b", .col "y")] [] [] [] false) [("a", .col "y")] [] [] [] false)
    ["y"] [] (some 1)

def qLim : Ops := .order (.extend C12semScope.d [("b", .col "y"), ("a", .col "y")] [] [] [] false) ["y"] [] (some 1)

theorem pLim_reachable : Reachable pLim :=
  Reachable.buildChain (Reachable.table "d" ["x", "y"] (by decide) (by decide))
    (steps := C12semScope.steps.take 3 ++ [.order ["y"] [] (some 1)])
    (fun s hs b hb => by
      simp only [C12semScope.steps, List.take, List.cons_append, List.nil_append, List.mem_cons, List.not_mem_nil,
        or_false] at hs
      rcases hs with rfl | rfl | rfl | rfl <;> cases hb)
    (by rfl)

theorem pLim_rebuild : rebuild (toCalls pLim) = .ok qLim := by rfl

/-- both rows tie on `y` -/
def envTie : Env := [("d", ⟨["x", "y"], [[("x", .num 1), ("y", .num 5)], [("x", .num 2), ("y", .num 5)]]⟩)]

def rowP (x : Rat) : Row := [("x", .num x), ("y", .num 5), ("a", .num 5), ("b", .num 5)]
def rowQ (x : Rat) : Row := [("x", .num x), ("y", .num 5), ("b", .num 5), ("a", .num 5)]

/-- … and outside C18's scope on this input (the limit cuts through a tie), so `C12_rebuild_sem_all` does not
apply … -/
example : ¬ WindowsTotal Θc .pandas envTie pLim := by
  intro h
  have h1 : LimitOK ["y"] [] 1 [rowP 1, rowP 2] := h.2 1 rfl _ rfl
  rcases h1 with h1 | ⟨kept, dropped, hp, hl, hc⟩
  · exact absurd (h1 _ (List.mem_cons_self ..) _ (List.mem_cons_of_mem _ (List.mem_cons_self ..))
      (by decide) (by decide)) (by decide)
  · have hlen := hp.length_eq
    simp only [List.length_cons, List.length_nil, List.length_append] at hlen hl
    have hk : kept.length = 1 := by omega
    have hd : dropped.length = 1 := by omega
    obtain ⟨a, rfl⟩ := List.length_eq_one_iff.mp hk
    obtain ⟨b, rfl⟩ := List.length_eq_one_iff.mp hd
    have ha : a ∈ [rowP 1, rowP 2] := hp.mem_iff.mpr (by simp)
    have hb : b ∈ [rowP 1, rowP 2] := hp.mem_iff.mpr (by simp)
    have := hc a (by simp) b (by simp)
    simp only [List.mem_cons, List.not_mem_nil, or_false] at ha hb
    rcases ha with rfl | rfl <;> rcases hb with rfl | rfl <;> exact absurd this (by decide)

/-- … but the theorem without scope applies: the same row is kept … -/
example : ResEquivR (sem Θc .pandas envTie qLim) (sem Θc .pandas envTie pLim) :=
  C12_rebuild_sem_all_rows Θc .pandas envTie convertOK convertColInv pLim_reachable pLim_rebuild

/-- … namely the first one (`x = 1`), with the columns `a, b` in the other order. -/
example : sem Θc .pandas envTie pLim = .ok ⟨["x", "y", "a", "b"], [rowP 1]⟩ ∧
    sem Θc .pandas envTie qLim = .ok ⟨["x", "y", "b", "a"], [rowQ 1]⟩ := by
  have sP : sortRows ["y"] [] [rowP 1, rowP 2] = [rowP 1, rowP 2] := sortRows_of_sorted (by decide)
  have sQ : sortRows ["y"] [] [rowQ 1, rowQ 2] = [rowQ 1, rowQ 2] := sortRows_of_sorted (by decide)
  have hP : sem Θc .pandas envTie pLim = .ok (semOrder ["y"] [] (some 1) ⟨["x", "y", "a", "b"], [rowP 1, rowP 2]⟩) :=
    rfl
  have hQ : sem Θc .pandas envTie qLim = .ok (semOrder ["y"] [] (some 1) ⟨["x", "y", "b", "a"], [rowQ 1, rowQ 2]⟩) :=
    rfl
  rw [hP, hQ, semOrder, semOrder, sP, sQ]
  exact ⟨rfl, rfl⟩

/-- the theorem also applies to the join witness of section 3 -/
example : ResEquivR (sem Θc .pandas C12semEx.envJoin C12semEx.pJoinRebuilt)
    (sem Θc .pandas C12semEx.envJoin C12semEx.pJoin) :=
  C12_rebuild_sem_all_rows Θc .pandas _ convertOK convertColInv C12semEx.pJoin_reachable C12semEx.pJoin_rebuild

end C12semRows

end DAVerif.C12
