import DAVerif.Proofs.SqlReach
import DAVerif.Proofs.WithKeyFaithSem
import DAVerif.Proofs.WithKeyFaithRender
import DAVerif.Props.C04
import DAVerif.Props.C01all
/-
# C04, `C04_key_faithful` — the CTE-cache keys of a translated pipeline are faithful

`Props/C04.lean` proves CTE elimination sound for every key function that is *faithful* on the query (`KeyFaith`: bound
sub-queries with equal keys denote the same table) and leaves open that the keys `toNearSql` generates are.  Here:

**Route (semantic, not "same tree").**  A cache key is `ops_key ++ "_" ++ columns`, where `ops_key` contains the rendered
text of a WHOLE operator sub-pipeline `n` (`renderOps`, the model of `str(node)`).  For every bound sub-query `x` of a
translated pipeline (`Proofs/WithKeyFaithTrans.lean`, by induction along `toNear`, using the translation theorem C01
`SqlE.transOK_fragJ_all` for each recursive call):

    x is a sound translation (`Sql.Sound`) of the node its key names, for the columns it is bound with      (`BoundOK`)

— also when the step was modified afterwards (`select_columns` / `drop_columns` re-order its terms: the syntactic
statement `ShapeDet` is false), reached through a pruned `extend` (translated for MORE columns), or merged with the
extend above it (re-keyed, fix D25).  Equal key texts name the same node and the same bound columns
(`Proofs/WithKeyFaithRender*.lean`: the renderer is a prefix code), so both sub-queries evaluate to the rows of the table
of that node on those columns; a step bound with a non-empty column list returns exactly these columns in this order
(`semNear_shape`): the two tables are equal.

**Scope / hypotheses.**
* `Sql.Good cfg env p` — the scope of the translation theorem C01 (`Props/C01all.lean`): fragment without
  `convert_records`, `WF`/`SqlWF`/`JoinWF` (consequences of `Reachable p`), `MapsOK`, SQL join types, every join rendered
  natively by the dialect (all joins on the generic dialect, the one with CTE elimination: SQLite disables it),
  `LabelSidesPlain`, and the environment has the tables with at least the declared columns (`EnvOK`).
* `BoundColsNonempty q` (decidable on the translated query): no sub-query is bound with an EMPTY column list.  Necessary for
  `KeyFaith` (`C04_key_faithful_nonempty_necessary`): a consumer that needs no column (`project({'n': '_size()'})`) binds
  its source with `[]`; two such sources with the same key may have been translated for different column sets and then
  render different SELECT lists – different tables (same number of rows, which is all the consumer reads: on the real
  code the SQL with CTE elimination returns the right rows; `KeyFaith` is stronger than what the consumer needs).
* `RenderOK p`: no `=` in the new names of a `rename_columns` / the old names of a `map_columns`.  A MODEL artefact: the
  model renders a mapping entry as `quote (k ++ "=" ++ v)` (`C04_render_collision`); the code prints the `repr` of the dict.
* `QuoteOK`: Lean's `String.quote` is an injective prefix-free encoding whose code words start with `"`.  In Lean 4.33
  `String.quote` is defined through the opaque constants `String.Internal.append/foldl/isEmpty`: the kernel cannot prove
  even `"a".quote ≠ "b".quote`; nothing about the TEXT of a key is provable without this hypothesis
  (`quoteCode_alone_insufficient`: the prefix-code property alone does not suffice either).  It is a hypothesis of the
  theorems, not an axiom.  The non-vacuity instance at the end does NOT use it.
-/
namespace DAVerif
open DAVerif.Sql DAVerif.C04K

/-! ## specification side -/

/-- **Assumption about Lean's `String.quote`** (opaque to the kernel in Lean 4.33): it is a prefix code
(`QuoteCode`: from a text that starts with a quoted string, the string and the rest can be read off) and every quoted
string starts with `"` (`QuoteHead`). -/
def QuoteOK : Prop := QuoteCode ∧ QuoteHead

/-- the assumption is consistent: a function with both properties exists (`"` , then `x c` for every character `c`,
then `"`) – so the theorems below are not vacuous for the reason that `QuoteOK` could never hold of a function
`String → String` -/
theorem C04_quote_assumption_consistent : ∃ q : String → List Char,
    (∀ (a b : String) (r1 r2 : List Char), q a ++ r1 = q b ++ r2 → a = b ∧ r1 = r2) ∧ (∀ a, ∃ t, q a = '"' :: t) := by
  let enc : List Char → List Char := fun l => l.foldr (fun c acc => 'x' :: c :: acc) ['"']
  have henc : ∀ (a b : List Char) (r1 r2 : List Char), enc a ++ r1 = enc b ++ r2 → a = b ∧ r1 = r2 := by
    intro a
    induction a with
    | nil =>
      intro b r1 r2 h
      cases b with
      | nil => simpa [enc] using h
      | cons c t => simp [enc] at h
    | cons c t ih =>
      intro b r1 r2 h
      cases b with
      | nil => simp [enc] at h
      | cons c' t' =>
        simp only [enc, List.foldr_cons, List.cons_append, List.cons.injEq, true_and] at h
        obtain ⟨rfl, h⟩ := h
        obtain ⟨rfl, h'⟩ := ih t' r1 r2 h
        exact ⟨rfl, h'⟩
  refine ⟨fun s => '"' :: enc s.toList, ?_, fun a => ⟨_, rfl⟩⟩
  intro a b r1 r2 h
  simp only [List.cons_append, List.cons.injEq, true_and] at h
  obtain ⟨h1, h2⟩ := henc _ _ _ _ h
  exact ⟨String.toList_inj.mp h1, h2⟩

/-- no sub-query of `q` is bound with an empty column list -/
def BoundColsNonempty (q : Near) : Prop := ∀ x ∈ q.desc, x.2.1 ≠ some []
instance (q : Near) : Decidable (BoundColsNonempty q) := by unfold BoundColsNonempty; exact inferInstance

/-! ## 1. what a bound sub-query of a translated pipeline is -/

/-- **Every bound sub-query of a translated pipeline is a sound translation of the operator node its `ops_key` names.**
For every pipeline in the scope of C01 and every bound sub-query `x = (near, columns, force_sql)` of its translation:
the `ops_key` of `near` is a key text `kind(<str(n)>[,<term keys>])` of an operator node `n` in scope, `n` evaluates to a
table `tp`, and `near` bound with any sub-list `u'` of `columns` (as sub-query or as forced SELECT) evaluates to a table
with the rows of `tp`, in order, on the columns `u'` (`Sql.Sound`). -/
theorem C04_bound_subquery_sound (Θ : Interp) (ec : EngineCfg) (env : Env) (cfg : SqlCfg) (p : Ops)
    (hg : Good cfg env p) (hr : RenderOK p) {q : Near} (h : toNearSql cfg p = .ok q) :
    ∀ x ∈ q.desc, ∃ (n : Ops) (k : String) (c pc : List String) (tp : Table),
      x.1.key = some k ∧ IsKeyOf n k ∧ RenderOK n ∧ x.2.1 = some c ∧
      semE ec Θ SemCfg.ref env n = .ok tp ∧ Sound Θ ec env x.1 c pc tp :=
  toNearSql_boundOK Θ ec env cfg hg hr h

/-! ## 2. the text of a key -/

/-- **The text of a cache key determines the operator node and the bound columns** (the renderer is a prefix code):
if `k1`, `k2` are key texts of the nodes `n1`, `n2` and `k1_<columns c1> = k2_<columns c2>` then `n1 = n2` and
`c1 = c2`. -/
theorem C04_key_text_determines_node (hq : QuoteOK) {n1 n2 : Ops} (h1 : RenderOK n1) (h2 : RenderOK n2)
    {k1 k2 : String} (hk1 : IsKeyOf n1 k1) (hk2 : IsKeyOf n2 k2) {c1 c2 : List String}
    (h : k1 ++ ("_" ++ renderStrs c1) = k2 ++ ("_" ++ renderStrs c2)) : n1 = n2 ∧ c1 = c2 :=
  cacheKey_cancel hq.1 hq.2 h1 h2 hk1 hk2 h

/-- the model's `str(node)` is injective on pipelines satisfying `RenderOK` -/
theorem C04_render_injective (hq : QuoteOK) {a b : Ops} (ha : RenderOK a) (hb : RenderOK b)
    (h : renderOps a = renderOps b) : a = b :=
  renderOps_inj hq.1 hq.2 ha hb h

/-- **The guard `RenderOK` is necessary for the model's renderer** (a model artefact, not a property of the code):
`rename_columns({'a=': 'b'})` and `rename_columns({'a': '=b'})` have the same rendered text. -/
theorem C04_render_collision :
    renderOps (.rename (.table "d" ["b", "=b"]) [("a=", "b")]) = renderOps (.rename (.table "d" ["b", "=b"]) [("a", "=b")]) ∧
    Ops.rename (.table "d" ["b", "=b"]) [("a=", "b")] ≠ Ops.rename (.table "d" ["b", "=b"]) [("a", "=b")] :=
  renderOps_collision

/-! ## 3. `C04_key_faithful` -/

/-- **C04_key_faithful.**  For every pipeline `p` in the scope of C01, every interpretation `Θ`, engine and environment:
in the query `toNearSql` produces, any two bound sub-queries with the same cache key (`ops_key` text plus bound column
list) denote the same table – provided no sub-query is bound with an empty column list. -/
theorem C04_key_faithful (hq : QuoteOK) (Θ : Interp) (ec : EngineCfg) (env : Env) (cfg : SqlCfg) (p : Ops)
    (hg : Good cfg env p) (hr : RenderOK p) {q : Near} (h : toNearSql cfg p = .ok q) (hne : BoundColsNonempty q) :
    KeyFaith Θ ec env cacheKey q :=
  keyFaith_of_boundOK (fun h1 h2 _ _ hk1 hk2 _ _ he => cacheKey_cancel hq.1 hq.2 h1 h2 hk1 hk2 he)
    (toNearSql_boundOK Θ ec env cfg hg hr h) hne

/-- **CTE elimination of a translated pipeline is sound** – the hypothesis `KeyFaithful` of `C04_cte_elim_sound` is
discharged: the WITH form with the CTE cache evaluates to the nested query. -/
theorem C04_cte_elim_sound_translated (hq : QuoteOK) (Θ : Interp) (ec : EngineCfg) (env : Env) (cfg : SqlCfg) (p : Ops)
    (hg : Good cfg env p) (hr : RenderOK p) {q : Near} (h : toNearSql cfg p = .ok q) (hne : BoundColsNonempty q) :
    semWith Θ ec env (toWithForm (some []) q).2.1 (toWithForm (some []) q).1 = semSql Θ ec env q := by
  rw [(toWithFormG_cacheKey q).1 (some [])]
  exact C04_cte_elim_sound_key Θ ec env cacheKey q (C04_wf cfg p q h) (C04_key_faithful hq Θ ec env cfg p hg hr h hne)

/-- **`to_sql` under `use_with` / `use_cte_elim` returns the result of the nested query**, for every translated pipeline
in scope – no hypothesis on the keys is left (the guard on empty bindings is needed with `use_cte_elim` only). -/
theorem C04_to_sql_options_sound_translated (hq : QuoteOK) (Θ : Interp) (ec : EngineCfg) (env : Env) (cfg : SqlCfg)
    (p : Ops) (hg : Good cfg env p) (hr : RenderOK p) {q : Near} (h : toNearSql cfg p = .ok q)
    (useWith cteElim : Bool) (hne : cteElim = true → BoundColsNonempty q) :
    semToSql Θ ec env useWith cteElim q = semSql Θ ec env q := by
  have hwf := C04_wf cfg p q h
  unfold semToSql
  cases useWith with
  | false => rfl
  | true =>
    cases cteElim with
    | false =>
      simp only [if_true, Bool.false_eq_true, if_false]
      split
      · rfl
      · exact C04_with_form_sound Θ ec env q hwf
    | true =>
      simp only [if_true]
      split
      · rfl
      · exact C04_cte_elim_sound_translated hq Θ ec env cfg p hg hr h (hne rfl)

/-- **… and that result is the pipeline's table** (C01, stage A): under every combination of `use_with` /
`use_cte_elim` the SQL evaluates, has exactly the declared column set, and its rows restricted to the declared columns
are, in order, the rows of the table `p` denotes under the engine's row ordering. -/
theorem C04_to_sql_options_engine_order (hq : QuoteOK) (Θ : Interp) (ec : EngineCfg) (env : Env) (cfg : SqlCfg)
    (p : Ops) (hg : Good cfg env p) (hr : RenderOK p) {q : Near} (h : toNearSql cfg p = .ok q)
    (useWith cteElim : Bool) (hne : cteElim = true → BoundColsNonempty q) :
    ∃ T tp, semToSql Θ ec env useWith cteElim q = .ok T ∧ semE ec Θ SemCfg.ref env p = .ok tp ∧ tp.cols = p.cols ∧
      (∀ c, c ∈ T.cols ↔ c ∈ p.cols) ∧ T.rows.map (fun r => r.select p.cols) = tp.rows := by
  rw [C04_to_sql_options_sound_translated hq Θ ec env cfg p hg hr h useWith cteElim hne]
  exact C01_engine_order_all Θ ec env cfg p hg h

/-- **for pipelines built by the builders, on a dialect with native RIGHT / FULL joins** (the dialects with CTE
elimination): `Reachable p` replaces `WF`, `SqlWF` and `JoinWF` -/
theorem C04_to_sql_options_sound_reachable (hq : QuoteOK) (Θ : Interp) (ec : EngineCfg) (env : Env) (cfg : SqlCfg)
    (hgen : cfg.emulateRightFull = false) (p : Ops) (hreach : Reachable p) (hf : InFragJ p = true) (hmp : MapsOK p)
    (ht : JoinTypesSql p) (hl : LabelSidesPlain p) (he : EnvOK false env p) (hr : RenderOK p)
    {q : Near} (h : toNearSql cfg p = .ok q) (useWith cteElim : Bool) (hne : cteElim = true → BoundColsNonempty q) :
    semToSql Θ ec env useWith cteElim q = semSql Θ ec env q :=
  C04_to_sql_options_sound_translated hq Θ ec env cfg p
    (Good.of_generic hgen hf (C26_reachable_wf hreach) (C01_reachable_sqlwf hreach) hmp (C16_reachable_joinwf hreach) ht
      hl he) hr h useWith cteElim hne


/-! ## 4. the guard on empty bindings is necessary for `KeyFaith` -/

namespace C04KEx
open C04Ex (Θ0)

def sizeT : Term := .app "_size" [] false false
def dU : Ops := .table "d" ["a", "g", "x"]
/-- `d.order_rows(['a'], limit=2)` -/
def oU : Ops := .order dU ["a"] [] (some 2)
/-- `O.extend({'z': 'x.cumsum()'}, partition_by=['g'], order_by=['a'])` -/
def wU : Ops := .extend oU [("z", .app "cumsum" [.col "x"] false true)] ["g"] ["a"] [] true
/-- `O.project({'n': '_size()'}).concat_rows(W.project({'n': '_size()'}))`: both projects need no column of their
source and bind it with `[]`; the second reaches `O` through the pruned extend `W`, which asks `O` for its partition and
order columns -/
def pU : Ops := .concat (.project oU [("n", sizeT)] []) (.project wU [("n", sizeT)] []) none "a" "b"
def envU : Env := [("d", ⟨["a", "g", "x"], [[("a", .num 1), ("g", .num 1), ("x", .num 1)]]⟩)]

def qU : Near := match toNearSql SqlCfg.generic pU with | .ok q => q | .error _ => .cte ""
theorem qU_ok : toNearSql SqlCfg.generic pU = .ok qU := rfl
/-- the two `order_rows` steps -/
def xU : Bound := qU.desc[1]'(by decide)
def yU : Bound := qU.desc[4]'(by decide)
theorem xU_mem : xU ∈ qU.desc := List.getElem_mem _
theorem yU_mem : yU ∈ qU.desc := List.getElem_mem _
example : xU.1.name = "order_rows_1" ∧ yU.1.name = "order_rows_4" ∧ xU.2.1 = some [] ∧ yU.2.1 = some [] := by decide
/-- same cache key: `order(<str(O)>)_[]` -/
theorem xyU_key : bkey cacheKey xU = bkey cacheKey yU := rfl
def colsOf (e : Except Err Table) : List String := match e with | .ok t => t.cols | .error _ => []
/-- … different tables: `SELECT a …` and `SELECT a, g …` -/
theorem xU_den : colsOf (den Θ0 .postgres envU xU) = ["a"] := by decide +kernel
theorem yU_den : colsOf (den Θ0 .postgres envU yU) = ["a", "g"] := by decide +kernel

theorem extOK_wU : ExtOK oU.cols [("z", .app "cumsum" [.col "x"] false true)] ["g"] ["a"] [] true := by
  refine ⟨by decide, by decide, by decide, by decide, by decide, ?_, ?_⟩
  · intro h; cases h
  · intro _; decide
theorem wf_pU : WF pU :=
  ⟨⟨⟨by decide, by decide⟩, by decide, Or.inr (by decide)⟩,
   ⟨⟨⟨by decide, by decide⟩, extOK_wU⟩, by decide, Or.inr (by decide)⟩, fun c h => by cases h⟩
theorem envOK_pU : EnvOK false envU pU := by
  intro nc hnc
  have : nc = ("d", ["a", "g", "x"]) := by
    simp only [pU, oU, wU, dU, Ops.tables, List.mem_append, List.mem_singleton, or_self] at hnc
    exact hnc
  subst this
  exact ⟨_, rfl, by decide, fun h => by cases h⟩
theorem good_pU : Good SqlCfg.generic envU pU :=
  ⟨rfl, wf_pU, by decide, by decide, by decide, by decide, by decide, by decide, envOK_pU⟩
theorem renderOK_pU : RenderOK pU := by decide
end C04KEx

/-- **The guard `BoundColsNonempty` of `C04_key_faithful` is necessary.**  In the translation of
`O.project({'n': '_size()'}).concat_rows(O.extend({'z': 'x.cumsum()'}, partition_by=['g'], order_by=['a']).project({'n': '_size()'}))`
with `O = d.order_rows(['a'], limit=2)` the two `order_rows` steps have the same cache key (`order(<str(O)>)_[]`: the key
of an `order_rows` step has no term keys, both are bound with `[]`), but the first selects `a` and the second `a, g`
(the pruned extend asks for its partition and order columns): different tables.  Not a defect of the code: the
consumers read no column, only the number of rows, and the real SQL with CTE elimination (PostgreSQL dialect, run on
SQLite) returns `n = 2, 2` like the nested form; the statement `KeyFaith` (equal tables) is stronger than needed there. -/
theorem C04_key_faithful_nonempty_necessary :
    ¬ ∀ (Θ : Interp) (ec : EngineCfg) (env : Env) (cfg : SqlCfg) (p : Ops) (q : Near), Good cfg env p → RenderOK p →
        toNearSql cfg p = .ok q → KeyFaith Θ ec env cacheKey q := by
  intro h
  have h0 := h C04Ex.Θ0 .postgres C04KEx.envU SqlCfg.generic C04KEx.pU C04KEx.qU C04KEx.good_pU C04KEx.renderOK_pU
    C04KEx.qU_ok C04KEx.xU C04KEx.xU_mem C04KEx.yU C04KEx.yU_mem C04KEx.xyU_key
  have h1 := congrArg C04KEx.colsOf h0
  rw [C04KEx.xU_den, C04KEx.yU_den] at h1
  exact absurd h1 (by decide)

/-! ## 5. non-vacuity: a sub-pipeline used twice -/

namespace C04KEx

def ΘE : Interp := Theta.concrete (fun _ _ => .error .other)
def dE : Ops := .table "d" ["k", "x"]
def sE : Ops := .selectRows dE (.app ">" [.col "x", .value (.int 1)] true false)
def eE : Ops := .extend sE [("z", .app "+" [.col "x", .value (.int 1)] true false)] [] [] [] false
/-- `E.concat_rows(E)` with `E = d.select_rows('x > 1').extend({'z': 'x + 1'})`: the sub-pipeline `E` is used twice -/
def pEx : Ops := .concat eE eE none "a" "b"
def envE : Env := [("d", ⟨["k", "x"], [[("k", .num 1), ("x", .num 1)], [("k", .num 2), ("x", .num 5)]]⟩)]

def qEx : Near := match toNearSql SqlCfg.generic pEx with | .ok q => q | .error _ => .cte ""
theorem qEx_ok : toNearSql SqlCfg.generic pEx = .ok qEx := rfl
/-- five queries: the union, and twice `extend` over `select_rows` -/
example : qEx.names = ["concat_rows_4", "extend_1", "select_rows_0", "extend_3", "select_rows_2"] := by decide
theorem qEx_desc : qEx.desc =
    [qEx.desc[0]'(by decide), qEx.desc[1]'(by decide), qEx.desc[2]'(by decide), qEx.desc[3]'(by decide)] := rfl

/-- **the keys**: the two uses of `E` have the same cache key, and so have the two uses of its source -/
example : bkey cacheKey (qEx.desc[0]'(by decide)) = bkey cacheKey (qEx.desc[2]'(by decide)) := rfl
example : bkey cacheKey (qEx.desc[1]'(by decide)) = bkey cacheKey (qEx.desc[3]'(by decide)) := rfl
example : (qEx.desc[0]'(by decide)).1.key = keyOfNode "extend" eE ["k", "x", "z"] ∧
    (qEx.desc[1]'(by decide)).1.key = keyOfNode "select" sE ["k", "x"] := ⟨rfl, rfl⟩

/-! the hypotheses of the theorems hold of it -/
theorem wf_pEx : WF pEx := by
  have hs : WF sE := ⟨by decide, by decide⟩
  have he : WF eE := ⟨hs, Sql.C04Ex.plain_extOK _ _ (by decide) (by decide)⟩
  exact ⟨he, he, fun c h => by cases h⟩
theorem envOK_pEx : EnvOK false envE pEx := by
  intro nc hnc
  have : nc = ("d", ["k", "x"]) := by
    simp only [pEx, eE, sE, dE, Ops.tables, List.mem_append, List.mem_singleton, or_self] at hnc
    exact hnc
  subst this
  exact ⟨_, rfl, by decide, fun h => by cases h⟩
theorem good_pEx : Good SqlCfg.generic envE pEx :=
  ⟨rfl, wf_pEx, by decide, by decide, by decide, by decide, by decide, by decide, envOK_pEx⟩
theorem renderOK_pEx : RenderOK pEx := by decide
theorem nonempty_qEx : BoundColsNonempty qEx := by decide

/-- the general theorem applies (under the assumption on `String.quote`): all four option combinations agree with the
nested query, which returns the rows with `x > 1` twice, `z = x + 1` -/
example (hq : QuoteOK) (useWith cteElim : Bool) :
    semToSql ΘE .postgres envE useWith cteElim qEx = semSql ΘE .postgres envE qEx :=
  C04_to_sql_options_sound_translated hq ΘE .postgres envE SqlCfg.generic pEx good_pEx renderOK_pEx qEx_ok useWith
    cteElim (fun _ => nonempty_qEx)
example : ∃ T, semSql ΘE .postgres envE qEx = .ok T ∧
    T.rows = [[("k", .num 2), ("x", .num 5), ("z", .num 6)], [("k", .num 2), ("x", .num 5), ("z", .num 6)]] :=
  ⟨_, rfl, by decide +kernel⟩

/-! **the unconditional instance** (no assumption on `String.quote`): sub-queries of different kinds have keys that
start with different words, sub-queries of the same kind are the same tree up to query names -/

def headC (s : String) : Option Char := s.toList.head?
theorem headC_append {a : String} {c : Char} (h : headC a = some c) (b : String) : headC (a ++ b) = some c := by
  unfold headC at h ⊢
  rw [String.toList_append]
  cases ha : a.toList with
  | nil => rw [ha] at h; cases h
  | cons x t => rw [ha] at h; simpa using h

theorem key0 : headC (cacheKey (qEx.desc[0]'(by decide)).1 (qEx.desc[0]'(by decide)).2.1) = some 'e' :=
  headC_append (headC_append (headC_append (headC_append (headC_append (headC_append (by decide) _) _) _) _) _) _
theorem key1 : headC (cacheKey (qEx.desc[1]'(by decide)).1 (qEx.desc[1]'(by decide)).2.1) = some 's' :=
  headC_append (headC_append (headC_append (headC_append (headC_append (headC_append (by decide) _) _) _) _) _) _
theorem key2 : headC (cacheKey (qEx.desc[2]'(by decide)).1 (qEx.desc[2]'(by decide)).2.1) = some 'e' :=
  headC_append (headC_append (headC_append (headC_append (headC_append (headC_append (by decide) _) _) _) _) _) _
theorem key3 : headC (cacheKey (qEx.desc[3]'(by decide)).1 (qEx.desc[3]'(by decide)).2.1) = some 's' :=
  headC_append (headC_append (headC_append (headC_append (headC_append (headC_append (by decide) _) _) _) _) _) _

theorem shapeDet_qEx : ShapeDet qEx := by
  intro x hx y hy he
  rw [qEx_desc] at hx hy
  simp only [List.mem_cons, List.not_mem_nil, or_false] at hx hy
  rcases hx with rfl | rfl | rfl | rfl <;> rcases hy with rfl | rfl | rfl | rfl
  all_goals first
    | exact ⟨rfl, rfl⟩
    | (exfalso
       have h := congrArg headC he
       simp only [key0, key1, key2, key3] at h
       exact absurd h (by decide))

theorem qEx_wf : NearWF qEx := C04_wf _ _ _ qEx_ok
theorem qEx_faithful : KeyFaithful qEx := C04_key_faithful_of_shape qEx shapeDet_qEx

end C04KEx

/-- **The unconditional instance of `C04_to_sql_options_sound`** for the translation of `E.concat_rows(E)`,
`E = d.select_rows('x > 1').extend({'z': 'x + 1'})`: for every interpretation, engine and environment, every combination
of `use_with` / `use_cte_elim` returns the result of the nested query (its `KeyFaithful` is proved, without any assumption
on `String.quote`). -/
theorem C04_options_sound_shared_instance (Θ : Interp) (ec : EngineCfg) (env : Env) (useWith cteElim : Bool) :
    semToSql Θ ec env useWith cteElim C04KEx.qEx = semSql Θ ec env C04KEx.qEx :=
  C04_to_sql_options_sound Θ ec env C04KEx.qEx C04KEx.qEx_wf useWith cteElim (fun _ => C04KEx.qEx_faithful)

end DAVerif
