import DAVerif.Proofs.BuilderReach
import DAVerif.Sem.Eval
/-!
# C26 — The builder rejects ill-formed steps when the pipeline is built

Property theorems only.  The specification (`Rules26.stepRules`, `Rules26.Rules`, `Rules26.verdict`,
`Rules26.resultCols`) is in `Spec/Rules.lean`: the documented construction rules as a predicate on the declared
columns of the prefix and the step, written without reference to `build`.  The model is `Ops/Builder.lean`
(`build` = one builder call with all its checks and simplifications).  Helper lemmas: `Proofs/Builder*.lean`.

Quantification: every pipeline obtainable from table descriptions by successful builder calls (`Reachable`),
every step (every argument value, well-formed or not), every second pipeline `b` of a join/concat.

History: the first version of these proofs needed a guard – `extend_parsed_` compared
`implies_windowed(new ops)` with the node's `windowed_situation` and so merged a step
`extend({n: _size()}, partition_by=1)` into a preceding plain extend node (rejecting a rule-conforming step, or
deferring the failure to evaluation).  That was fixed in /repo (commit e8da488) and in the model; the regression
example at the end of this file pins the repaired behaviour.  The statements below are at full strength.
-/
namespace DAVerif
open Rules26

/-! ## 1. Reachable pipelines and their invariants -/

/-- The pipelines the builders can produce: table descriptions with at least one column and no column twice
(`ViewRepresentation.__init__` asserts both), closed under successful builder calls whose pipeline arguments are
reachable themselves. -/
inductive Reachable : Ops → Prop
  | table (name : String) (cs : List String) : cs ≠ [] → cs.Nodup → Reachable (.table name cs)
  | step {p : Ops} {s : Step} {q : Ops} :
      Reachable p → (∀ b ∈ stepArgs s, Reachable b) → build p s = .ok q → Reachable q

/-- Every reachable pipeline is structurally well formed (`WF`, `Proofs/BuilderWF.lean`): the facts the node
constructors establish hold at every node. -/
theorem C26_reachable_wf {p : Ops} (h : Reachable p) : WF p := by
  induction h with
  | table name cs hne hnd => exact ⟨hne, hnd⟩
  | @step p s q _ _ hb ihp ihb =>
    by_cases hs : ∃ ops pa o r, s = .extend ops pa o r
    · obtain ⟨ops, pa, o, r, rfl⟩ := hs
      exact (build_extend_ok ihp hb).1
    · exact (build_ok_other ihp ihb (fun ops pa o r he => hs ⟨ops, pa, o, r, he⟩) hb).1

/-- Invariant: a reachable pipeline declares at least one column and no column twice. -/
theorem C26_reachable_cols {p : Ops} (h : Reachable p) : p.cols ≠ [] ∧ p.cols.Nodup :=
  ⟨(C26_reachable_wf h).cols_ne_nil, (C26_reachable_wf h).cols_nodup⟩

/-! ## 2. Accepted iff the documented rules hold -/

/-- **Main theorem.**  For every reachable prefix `p` and every step `s` (any arguments), the builder call
`build p s` – with the extend merge through `try_to_merge_ops`, the elimination of `order_rows` steps without
limit and the collapse of `select_columns` through select/drop nodes – succeeds **iff** every documented rule
holds for the declared columns of `p` (and, for join/concat, the columns and table descriptions of `b`).
Neither simplification rejects a rule-conforming step nor accepts a violating one. -/
theorem C26_accept_iff_rules {p : Ops} (hp : Reachable p) (s : Step) :
    (build p s).isOk = true ↔ Rules p.cols p.tables s := by
  have h := build_verdict p (C26_reachable_wf hp) s
  have h1 : (build p s).isOk = (outcome (build p s)).isOk := by
    cases build p s <;> rfl
  rw [h1, h]
  unfold verdict Rules
  generalize stepRules p.cols p.tables s = rs
  induction rs with
  | nil => simp [verdictOf, Except.isOk, Except.toBool]
  | cons r rs ih =>
    simp only [verdictOf, List.mem_cons, forall_eq_or_imp]
    cases hr : r.holds
    · simp [Except.isOk, Except.toBool]
    · simpa using ih

/-- The Boolean rule checker decides acceptance. -/
theorem C26_accept_iff_rulesB {p : Ops} (hp : Reachable p) (s : Step) :
    (build p s).isOk = rulesB p.cols p.tables s := by
  rw [Bool.eq_iff_iff, C26_accept_iff_rules hp s]
  simp [Rules, rulesB, List.all_eq_true]

/-- Rejected when the step is added: a step that violates a documented rule never yields a pipeline
(there is no deferred check – `build` is the only place where the step is looked at). -/
theorem C26_reject_at_build {p : Ops} (hp : Reachable p) (s : Step)
    (hv : ¬ Rules p.cols p.tables s) : ∃ e, build p s = .error e := by
  have := (not_congr (C26_accept_iff_rules hp s)).mpr hv
  cases h : build p s with
  | error e => exact ⟨e, rfl⟩
  | ok q => rw [h] at this; exact absurd rfl this

/-- Which error: the class documented for the **first violated rule** in the order of `stepRules`
(e.g. an unknown column in an expression: `NameError`; a duplicate or unknown name in
`partition_by`/`order_by`/`reverse`/`group_by`: `AssertionError`; changing a partition/order/group column,
same-step use and produce, a non-simple window or aggregation expression, order/rename/concat violations:
`ValueError`; unknown columns in select/drop and all join-key violations: `KeyError`).
In particular `extend`/`project` never raise `KeyError` and a join never raises `NameError`. -/
theorem C26_reject_error_class {p : Ops} (hp : Reachable p) (s : Step) (e : Err) :
    build p s = .error e ↔
      ∃ r, (stepRules p.cols p.tables s).find? (fun r => !r.holds) = some r ∧ r.err = e := by
  have h := build_verdict p (C26_reachable_wf hp) s
  have h1 : build p s = .error e ↔ outcome (build p s) = .error e := by
    cases build p s <;> simp [outcome, Except.map]
  rw [h1, h]
  unfold verdict
  generalize stepRules p.cols p.tables s = rs
  induction rs with
  | nil => simp [verdictOf]
  | cons r rs ih =>
    simp only [verdictOf, List.find?_cons]
    cases hr : r.holds
    · simp only [Bool.false_eq_true, ↓reduceIte, Except.error.injEq, Bool.not_false, Option.some.injEq,
        exists_eq_left']
    · simpa using ih

/-- The same as one equation: the unit-valued outcome of the builder call is the documented verdict. -/
theorem C26_build_verdict {p : Ops} (hp : Reachable p) (s : Step) :
    (build p s).map (fun _ => ()) = verdict p.cols p.tables s :=
  build_verdict p (C26_reachable_wf hp) s

/-! ## 3. The new node declares the documented columns -/

/-- On success of any step other than `extend`, the new pipeline's `column_names` is the documented list
(`resultCols`: project – group columns then new names; select – the selection in the given order; drop –
survivors in source order; rename/map – source order with the new names; join – a's columns then b's new ones,
or one side's own tuple when the sets coincide; concat – a's columns then the id column; convert – the record
map's produced columns). -/
theorem C26_build_cols {p : Ops} (hp : Reachable p) {s : Step} (hb : ∀ b ∈ stepArgs s, Reachable b)
    (hs : ∀ ops pa o r, s ≠ .extend ops pa o r) {q : Ops} (h : build p s = .ok q) :
    q.cols = resultCols p.cols s :=
  (build_ok_other (C26_reachable_wf hp) (fun b hbm => C26_reachable_wf (hb b hbm)) hs h).2

/-- On success of `extend` the new columns are the old columns and the new names (always, as a set and without
duplicates); they come in the documented order – old columns followed by the new names in the order given –
whenever all names of the step are new, or the prefix does not end in an extend node.  (When a merge re-assigns
a column that the previous extend step created, that column moves behind the other new columns:
`C26_extend_cols_order_witness`.) -/
theorem C26_build_cols_extend {p : Ops} (hp : Reachable p) {ops : Assign} {partition : PartArg}
    {order reverse : List String} {q : Ops} (h : build p (.extend ops partition order reverse) = .ok q) :
    q.cols.Perm (p.cols ++ (keys ops).filter (fun k => !p.cols.contains k)) ∧
    (((∀ k ∈ keys ops, k ∉ p.cols) ∨ (∀ src o a b c w, strip p ≠ .extend src o a b c w)) →
      q.cols = p.cols ++ (keys ops).filter (fun k => !p.cols.contains k)) :=
  (build_extend_ok (C26_reachable_wf hp) h).2

/-- The order caveat is real: `d(x).extend({a: x+1, b: x+2}).extend({a: x+3})` declares `x, b, a`
(the library does the same), not `x, a, b`. -/
theorem C26_extend_cols_order_witness :
    ∃ p s q, Reachable p ∧ build p s = .ok q ∧ q.cols = ["x", "b", "a"] ∧ resultCols p.cols s = ["x", "a", "b"] := by
  let t (n : Int) : Term := .app "+" [.col "x", .value (.int n)] true false
  refine ⟨.extend (.table "d" ["x"]) [("a", t 1), ("b", t 2)] [] [] [] false,
    .extend [("a", t 3)] .none [] [],
    .extend (.table "d" ["x"]) [("b", t 2), ("a", t 3)] [] [] [] false, ?_, by rfl, by decide, by decide⟩
  exact Reachable.step (p := .table "d" ["x"]) (s := .extend [("a", t 1), ("b", t 2)] .none [] [])
    (Reachable.table "d" ["x"] (by decide) (by decide)) (by intro b hb; simp [stepArgs] at hb) (by rfl)

/-! ## 4. Nothing is deferred to evaluation -/

/-- the environment has every table the pipeline mentions, with at least the declared columns -/
def EnvCovers (env : Env) (p : Ops) : Prop :=
  ∀ nc ∈ p.tables, ∃ t, env.lookup nc.1 = some t ∧ ∀ c ∈ nc.2, c ∈ t.cols

/-- the record-transform interpretation succeeds (C17's concern) and returns the columns it announces -/
def ConvertTotal (Θ : Interp) : Prop := ∀ rm t, ∃ t', Θ.convert rm t = .ok t' ∧ t'.cols = rm.produced

/-- Evaluation of a pipeline raises no rule error: for every interpretation `Θ` of the functions whose record
transforms succeed, both semantic configurations, and every environment that has the pipeline's tables with at
least their declared columns, `sem` returns a table – and that table has exactly the declared columns.
(No hypothesis on how the pipeline was built is needed: the model's evaluator has no checks beyond "table
present with its columns", which is the content of "nothing is deferred".) -/
theorem C26_eval_never_rule_error (Θ : Interp) (cfg : SemCfg) (env : Env) (p : Ops)
    (hc : ConvertTotal Θ) (he : EnvCovers env p) :
    ∃ t, sem Θ cfg env p = .ok t ∧ t.cols = p.cols := by
  induction p with
  | table name cs =>
    obtain ⟨t, hl, hs⟩ := he (name, cs) (by simp [Ops.tables])
    refine ⟨t.selectCols cs, ?_, rfl⟩
    simp only [sem, hl, subset_iff.mpr hs, ↓reduceIte]
  | extend src ops part order reverse w ih =>
    obtain ⟨t, ht, _⟩ := ih he
    cases w
    · exact ⟨semExtendPlain Θ ops t (Ops.extend src ops part order reverse false).cols,
        by simp [sem, ht, bind, Except.bind, pure, Except.pure], rfl⟩
    · exact ⟨semExtendWindow Θ ops part order reverse t (Ops.extend src ops part order reverse true).cols,
        by simp [sem, ht, bind, Except.bind, pure, Except.pure], rfl⟩
  | project src ops group ih =>
    obtain ⟨t, ht, _⟩ := ih he
    refine ⟨semProject Θ ops group t (Ops.project src ops group).cols,
      by simp [sem, ht, bind, Except.bind, pure, Except.pure], ?_⟩
    unfold semProject
    split <;> rfl
  | selectRows src e ih =>
    obtain ⟨t, ht, hcol⟩ := ih he
    exact ⟨semSelectRows Θ e t, by simp [sem, ht, bind, Except.bind, pure, Except.pure],
      by simpa [semSelectRows, Ops.cols] using hcol⟩
  | selectCols src cs ih =>
    obtain ⟨t, ht, _⟩ := ih he
    exact ⟨t.selectCols cs, by simp [sem, ht, bind, Except.bind, pure, Except.pure], rfl⟩
  | dropCols src dels ih =>
    obtain ⟨t, ht, _⟩ := ih he
    exact ⟨t.selectCols (Ops.dropCols src dels).cols, by simp [sem, ht, bind, Except.bind, pure, Except.pure], rfl⟩
  | order src cs rev lim ih =>
    obtain ⟨t, ht, hcol⟩ := ih he
    exact ⟨semOrder cs rev lim t, by simp [sem, ht, bind, Except.bind, pure, Except.pure],
      by simpa [semOrder, Ops.cols] using hcol⟩
  | rename src m ih =>
    obtain ⟨t, ht, _⟩ := ih he
    exact ⟨⟨(Ops.rename src m).cols, _⟩, by simp [sem, ht, bind, Except.bind, pure, Except.pure]; rfl, rfl⟩
  | mapCols src m dels ih =>
    obtain ⟨t, ht, _⟩ := ih he
    exact ⟨⟨(Ops.mapCols src m dels).cols, _⟩, by simp [sem, ht, bind, Except.bind, pure, Except.pure]; rfl, rfl⟩
  | join a b onA onB jt iha ihb =>
    obtain ⟨ta, hta, _⟩ := iha (fun nc h => he nc (by simp [Ops.tables, h]))
    obtain ⟨tb, htb, _⟩ := ihb (fun nc h => he nc (by simp [Ops.tables, h]))
    exact ⟨(semJoin cfg jt onA onB ta tb (appendNew a.cols b.cols)).selectCols (Ops.join a b onA onB jt).cols,
      by simp [sem, hta, htb, bind, Except.bind, pure, Except.pure], rfl⟩
  | concat a b idc an bn iha ihb =>
    obtain ⟨ta, hta, _⟩ := iha (fun nc h => he nc (by simp [Ops.tables, h]))
    obtain ⟨tb, htb, _⟩ := ihb (fun nc h => he nc (by simp [Ops.tables, h]))
    exact ⟨semConcat idc an bn ta tb (Ops.concat a b idc an bn).cols,
      by simp [sem, hta, htb, bind, Except.bind, pure, Except.pure], rfl⟩
  | convert src rm ih =>
    obtain ⟨t, ht, _⟩ := ih he
    obtain ⟨t', ht', hcol⟩ := hc rm t
    exact ⟨t', by simp [sem, ht, bind, Except.bind, ht'], by simpa [Ops.cols] using hcol⟩

/-! ## 5. Finding `C26-nonaggregating-accepted`: the rules the library enforces are weaker than the property text

The property names "a non-aggregating … window or project expression" as a violation.  The library's rule is
syntactic only (one function applied to at most one column): *which* function is not checked
(`# TODO: check op is in list of aggregators` in `ProjectNode.__init__`).  `Rules` above is the rule list the
library documents, so the equivalence holds for it; the stricter reading fails: -/

/-- the catalogued aggregation / window functions (`op_catalog.methods_table`, classes g, p, w, up) -/
def catalogAggregators : List String :=
  (Gen.catalog.filter (fun r => ["g", "p", "w", "up"].contains (r.getD 2 ""))).map (fun r => r.getD 0 "")

/-- the documented aggregation / window function names: the method catalogue's classes g, p, w, up and the name
classes of `expr_rep.py` -/
def aggregatorNames : List String := catalogAggregators ++ Gen.impliesWindowed ++ Gen.impliesOrdered

/-- strict reading of "non-aggregating": the function applied by every expression of a project, and of an extend in a
windowed situation, is a documented aggregation / window function (an operator such as `+` is not) -/
def aggNamesOk : Step → Bool
  | .project ops _ => ops.all (fun kv => match kv.2 with
      | .app op _ _ _ => aggregatorNames.contains op
      | _ => true)
  | .extend ops partition order _ => !windowedSituation ops partition order || ops.all (fun kv => match kv.2 with
      | .app op _ _ _ => aggregatorNames.contains op
      | _ => true)
  | _ => true

/-- guard `G_agg` of finding `C26-nonaggregating-accepted` -/
def G_agg (s : Step) : Prop := aggNamesOk s = true
instance (s : Step) : Decidable (G_agg s) := by unfold G_agg; exact inferInstance

/-- the property text's rule list: the documented rules plus "the expression aggregates" -/
def StrictRules (cols : List String) (tabs : List (String × List String)) (s : Step) : Prop :=
  Rules cols tabs s ∧ aggNamesOk s = true

/- The full statement under the strict reading (FALSE, see `C26_G_agg_necessary`):

theorem C26_accept_iff_strict_FULL_STATEMENT (p : Ops) (hp : Reachable p) (s : Step) :
    (build p s).isOk = true ↔ StrictRules p.cols p.tables s
-/

/-- Under the guard (the step applies documented aggregation / window functions only) acceptance is equivalent to
the strict rule list as well. -/
theorem C26_accept_iff_strict_partial {p : Ops} (hp : Reachable p) (s : Step) (hG : G_agg s) :
    (build p s).isOk = true ↔ StrictRules p.cols p.tables s := by
  rw [C26_accept_iff_rules hp s]
  exact ⟨fun h => ⟨h, hG⟩, fun h => h.1⟩

/-- The guard is needed: `project({n: x.abs()}, group_by=[g])` on `d(g, x)` is accepted although `abs` is no
aggregation (the real library accepts it too and fails at evaluation). -/
theorem C26_G_agg_necessary :
    ¬ ∀ (p : Ops) (s : Step), Reachable p → ((build p s).isOk = true ↔ StrictRules p.cols p.tables s) := by
  intro h
  have hr : Reachable (.table "d" ["g", "x"]) := Reachable.table _ _ (by decide) (by decide)
  have := (h _ (.project [("n", .app "abs" [.col "x"] false true)] ["g"]) hr).mp (by decide)
  exact absurd this.2 (by decide)

/-- A row-wise function (`abs`, catalogue class `e` only) is accepted as a project "aggregation" and as a window
function at build time – on the real library both pipelines then fail at evaluation (AttributeError /
ValueError from pandas), i.e. the violation is deferred. -/
theorem C26_nonaggregating_accepted :
    ¬ catalogAggregators.contains "abs" = true ∧
    (build (.table "d" ["g", "x"]) (.project [("n", .app "abs" [.col "x"] false true)] ["g"])).isOk = true ∧
    (build (.table "d" ["g", "x"])
      (.extend [("n", .app "abs" [.col "x"] false true)] (.cols ["g"]) [] [])).isOk = true := by
  refine ⟨by decide, by decide, by decide⟩

/-! ## 6. Non-vacuity: the hypotheses are satisfiable on concrete pipelines -/

/-- a reachable three-step pipeline with an eliminated `order_rows` and a select/drop collapse -/
example : Reachable (.selectCols (.table "d" ["g", "x", "y"]) ["x"]) :=
  Reachable.step (p := .order (.dropCols (.table "d" ["g", "x", "y"]) ["y"]) ["g"] [] none)
    (s := .selectCols ["x"])
    (Reachable.step (p := .dropCols (.table "d" ["g", "x", "y"]) ["y"]) (s := .order ["g"] [] none)
      (Reachable.step (p := .table "d" ["g", "x", "y"]) (s := .dropCols ["y"])
        (Reachable.table _ _ (by decide) (by decide)) (by intro b hb; simp [stepArgs] at hb) (by rfl))
      (by intro b hb; simp [stepArgs] at hb) (by rfl))
    (by intro b hb; simp [stepArgs] at hb) (by rfl)

/-- after that prefix (order_rows eliminated, select after drop) selecting the dropped column violates a rule and
is rejected with the documented class; selecting a surviving column obeys the rules and is accepted -/
example :
    let p : Ops := .order (.dropCols (.table "d" ["g", "x", "y"]) ["y"]) ["g"] [] none
    ¬ Rules p.cols p.tables (.selectCols ["y"]) ∧ build p (.selectCols ["y"]) = .error .keyError ∧
    Rules p.cols p.tables (.selectCols ["x"]) ∧ (build p (.selectCols ["x"])).isOk = true :=
  ⟨by decide, by rfl, by decide, by decide⟩

/-- a requested join check behind an eliminated `order_rows` is still made (fix D3): common non-key column `x`;
a concat with the same columns and a fresh id column obeys the rules and is accepted -/
example :
    let d : Ops := .table "d" ["g", "x"]
    let p : Ops := .order d ["g"] [] none
    ¬ Rules p.cols p.tables (.join d ["g"] ["g"] "inner" true) ∧
    build p (.join d ["g"] ["g"] "inner" true) = .error .keyError ∧
    Rules p.cols p.tables (.concat (some d) (some "src") "a" "b") ∧
    (build p (.concat (some d) (some "src") "a" "b")).isOk = true :=
  ⟨by decide, by rfl, by decide, by decide⟩

/-- an extend step that is merged into the previous extend node and obeys the rules -/
example :
    let t (n : Int) : Term := .app "+" [.col "x", .value (.int n)] true false
    let p : Ops := .extend (.table "d" ["x"]) [("a", t 1)] [] [] [] false
    let s : Step := .extend [("b", t 2)] .none [] []
    Rules p.cols p.tables s ∧
    build p s = .ok (.extend (.table "d" ["x"]) [("a", t 1), ("b", t 2)] [] [] [] false) :=
  ⟨by decide, by rfl⟩

/-- regression for fix e8da488: `d(x, y).extend({a: x + y}).extend({n: _size()}, partition_by=1)` obeys the rules and
is accepted as a *separate* windowed node (before the fix the merge made the builder raise ValueError) -/
example :
    let p : Ops := .extend (.table "d" ["x", "y"]) [("a", .app "+" [.col "x", .col "y"] true false)] [] [] [] false
    let s : Step := .extend [("n", .app "_size" [] false false)] .one [] []
    Rules p.cols p.tables s ∧ build p s = .ok (.extend p [("n", .app "_size" [] false false)] [] [] [] true) :=
  ⟨by decide, by rfl⟩

/-- the evaluation theorem's hypotheses are satisfiable -/
example : EnvCovers [("d", ⟨["g", "x", "z"], []⟩)] (.selectRows (.table "d" ["g", "x"]) (.col "x")) := by
  intro nc h
  simp only [Ops.tables, List.mem_singleton] at h
  subst h
  exact ⟨_, rfl, by decide⟩

end DAVerif
