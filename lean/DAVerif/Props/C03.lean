import DAVerif.Proofs.PolarsJoin
import DAVerif.Proofs.PolarsTheta
/-!
# C03 — the Polars executor agrees with Pandas whenever it returns a result

Property text: *for every pipeline and input on which the Polars executor returns a result without raising, that
result has the same columns and the same multiset of rows as the Pandas executor's result (compared as in C01); an
unsupported method or step may raise, but must never silently return a different table.*

Models: `semPl` (`Sem/Polars.lean`: `polars_model.py` step by step over the ASSUMED Polars primitives of
`Prim/Polars.lean`, parametric in `Pl.Cfg` = code as found / after the small fixes) and the shared Pandas executor
model `sem … SemCfg.pandas`.  Specification side: `Spec/Polars.lean` (`≈ₚₗ`, the guards).

The full-strength statement

    semPl cfg Θpl env p = .ok t  →  ∃ t', sem Θ SemCfg.pandas env p = .ok t' ∧ t ≈ₚₗ t'

is FALSE of the code (each `…_necessary` theorem below is a counterexample, confirmed on the real code, see
`corpus/C03/`).  What holds, and is proved here for every pipeline, environment and pair of interpretations:
`C03_polars_sound_partial`, the same statement under `Scope` (the scope of C01/C18: total window orders, clean
limit cuts, order free aggregates, sane join key specifications over scratch-name free columns) and `Guards`
(none of the known deviations occurs).  With the four fixes applied (`Pl.Cfg.fixed`) the guards D20, D21, D27, N6,
N12 are vacuous (`C03_fixed_guards`); D18, N1, the empty ungrouped project and first/last remain.
-/
namespace DAVerif
open Pl

/-! ## hypotheses of the main theorem -/

/-- **Agreement of the two interpretations outside the listed deviations.**  `Θpl` interprets the function
symbols as Polars computes them, `Θ` as numpy / Pandas do; they may differ only where a guard says so
(`Pl.scalarViol`, `Pl.aggViol` non-empty).  Proved for the concrete interpretations in `C03_thetaPl_agrees`. -/
structure PlAgree (cfg : Pl.Cfg) (Θpl Θ : Interp) : Prop where
  scalar : ∀ op args, Pl.scalarViol cfg op args = [] → Θpl.scalar op args = Θ.scalar op args
  agg : ∀ op vs, Pl.aggViol cfg op vs = [] → Θpl.agg op vs = Θ.agg op vs
  win : ∀ op n cargs vs pos, Pl.implStatus false n op = .ok → Pl.aggViol cfg op vs = [] →
    Θpl.win op cargs vs pos = Θ.win op cargs vs pos
  convert : ∀ rm t, Θpl.convert rm t = Θ.convert rm t

/-- **Scope** of the comparison (the scope of C01 / C18, plus the static shape of joins), on the intermediate
tables of the Pandas executor: window orders are total within each partition (or the window functions are order
free), a limit does not cut through a tie, aggregates of a `project` are order free, and every join has a sane key
specification over scratch-name free columns (`JoinOK`). -/
def Scope (Θpl Θ : Interp) (env : Env) : Ops → Prop
  | .table _ _ => True
  | .extend src ops partition order reverse windowed =>
      Scope Θpl Θ env src ∧
      (windowed = true → ∀ t, sem Θ SemCfg.pandas env src = .ok t →
        WinOK Θ ops partition order reverse t.rows ∧ WinOK Θpl ops partition order reverse t.rows)
  | .project src ops _ => Scope Θpl Θ env src ∧ ∀ kv ∈ ops, AggOrderFree Θpl (opName kv.2)
  | .order src cs reverse limit =>
      Scope Θpl Θ env src ∧
      (∀ n, limit = some n → ∀ t, sem Θ SemCfg.pandas env src = .ok t → LimitOK cs reverse n t.rows)
  | .selectRows src _ | .selectCols src _ | .dropCols src _ | .rename src _ | .mapCols src _ _
  | .convert src _ => Scope Θpl Θ env src
  | n@(.join a b onA onB _) => Scope Θpl Θ env a ∧ Scope Θpl Θ env b ∧ JoinOK onA onB a.cols b.cols n.cols
  | .concat a b _ _ _ => Scope Θpl Θ env a ∧ Scope Θpl Θ env b

/-! ## the main theorem -/

/-- **C03 (strong form).**  For every variant `cfg` of `polars_model.py`, every pair of interpretations that agree
outside the listed deviations, every pipeline `p` and environment `env`: if the Polars executor model returns a
table `t` for `p`, the pipeline is in scope on `env` and none of the known deviations occurs (`Pl.Guards`, judged on
the intermediate tables of the Pandas executor), then the Pandas executor model also returns a table `t'`, with the
same columns **in the same order** and the same multiset of rows (`t ≈ t'`).  Proof: induction over `p`, one
per-step lemma for each `_*_step` (`pl_extend_plain_sound`, `pl_extend_window_sound`, `pl_project_sound`,
`pl_select_rows_sound`, `pl_order_sound`, `pl_join_sound` = `pl_join_direct_sound` + `pl_right_as_left_sound`,
`pl_concat_sound`).  A raise of the Polars model (`.error`) satisfies the statement vacuously: the property accepts it. -/
theorem C03_polars_sound_strong (cfg : Pl.Cfg) (Θpl Θ : Interp) (hA : PlAgree cfg Θpl Θ) (hC : ConvertOK Θ)
    (hCp : ConvertPermInvariant Θ) (env : Env) (p : Ops) :
    ∀ t, semPl cfg Θpl env p = .ok t → Scope Θpl Θ env p → Pl.Guards cfg Θ env p →
      ∃ t', sem Θ SemCfg.pandas env p = .ok t' ∧ t ≈ t' := by
  induction p with
  | table name cs =>
    intro t h _ _
    exact ⟨t, h, Table.Equiv.refl t⟩
  | extend src ops part od rv w ih =>
    intro t h hS hG
    simp only [semPl] at h
    obtain ⟨ts, hts, h2⟩ := pl_bind_ok h
    simp only [Pl.Guards, Pl.violations, List.append_eq_nil_iff] at hG
    obtain ⟨ts', hts', heq⟩ := ih ts hts hS.1 hG.1
    rw [hts', pl_onInput_ok] at hG
    cases w with
    | true =>
      simp only [if_true] at h2 hG
      by_cases hr : (ops.any fun kv => aggRaises false kv.2) = true
      · rw [if_pos hr] at h2; cases h2
      · rw [if_neg hr] at h2
        injection h2 with h2
        subst h2
        have hnr : ∀ kv ∈ ops, aggRaises false kv.2 = false := by
          intro kv hkv
          cases hh : aggRaises false kv.2 with
          | false => rfl
          | true => exact absurd (List.any_eq_true.mpr ⟨kv, hkv, hh⟩) hr
        refine ⟨semExtendWindow Θ ops part od rv ts' _, by simp only [sem, hts']; rfl, ?_⟩
        exact pl_extend_window_sound hA.win ops part od rv heq _ (hS.2 rfl ts' hts').2 (hS.2 rfl ts' hts').1 hnr hG.2
    | false =>
      simp only [Bool.false_eq_true, if_false] at h2 hG
      by_cases hr : (ops.any fun kv => Pl.termRaises false kv.2) = true
      · rw [if_pos hr] at h2; cases h2
      · rw [if_neg hr] at h2
        injection h2 with h2
        subst h2
        refine ⟨semExtendPlain Θ ops ts' _, by simp only [sem, hts']; rfl, ?_⟩
        rw [← semExtendPlain_agree hA.scalar ops ts' _ hG.2]
        exact semExtendPlain_equiv Θpl ops heq _
  | project src ops g ih =>
    intro t h hS hG
    simp only [semPl] at h
    obtain ⟨ts, hts, h2⟩ := pl_bind_ok h
    simp only [Pl.Guards, Pl.violations, List.append_eq_nil_iff] at hG
    obtain ⟨ts', hts', heq⟩ := ih ts hts hS.1 hG.1
    rw [hts', pl_onInput_ok] at hG
    by_cases hr : (ops.any fun kv => aggRaises true kv.2) = true
    · rw [if_pos hr] at h2; cases h2
    · rw [if_neg hr] at h2
      injection h2 with h2
      subst h2
      refine ⟨semProject Θ ops g ts' _, by simp only [sem, hts']; rfl, ?_⟩
      rw [← semProjectPl_agree hA.agg ops g ts' _ hG.2]
      exact semProjectPl_equiv Θpl ops g heq _ hS.2
  | selectRows src e ih =>
    intro t h hS hG
    simp only [semPl] at h
    obtain ⟨ts, hts, h2⟩ := pl_bind_ok h
    simp only [Pl.Guards, Pl.violations, List.append_eq_nil_iff] at hG
    obtain ⟨ts', hts', heq⟩ := ih ts hts hS hG.1
    rw [hts', pl_onInput_ok] at hG
    by_cases hr : Pl.termRaises false e = true
    · rw [if_pos hr] at h2; cases h2
    · rw [if_neg hr] at h2
      injection h2 with h2
      subst h2
      refine ⟨semSelectRows Θ e ts', by simp only [sem, hts']; rfl, ?_⟩
      rw [← semSelectRows_agree hA.scalar e ts' hG.2]
      exact semSelectRows_equiv Θpl e heq
  | selectCols src cs ih =>
    intro t h hS hG
    simp only [semPl] at h
    obtain ⟨ts, hts, h2⟩ := pl_bind_ok h
    obtain ⟨ts', hts', heq⟩ := ih ts hts hS hG
    injection h2 with h2
    subst h2
    exact ⟨ts'.selectCols cs, by simp only [sem, hts']; rfl, heq.selectCols cs⟩
  | dropCols src dels ih =>
    intro t h hS hG
    simp only [semPl] at h
    obtain ⟨ts, hts, h2⟩ := pl_bind_ok h
    obtain ⟨ts', hts', heq⟩ := ih ts hts hS hG
    injection h2 with h2
    subst h2
    exact ⟨ts'.selectCols _, by simp only [sem, hts']; rfl, heq.selectCols _⟩
  | order src cs rv lim ih =>
    intro t h hS hG
    simp only [semPl] at h
    obtain ⟨ts, hts, h2⟩ := pl_bind_ok h
    simp only [Pl.Guards, Pl.violations, List.append_eq_nil_iff] at hG
    obtain ⟨ts', hts', heq⟩ := ih ts hts hS.1 hG.1
    rw [hts', pl_onInput_ok] at hG
    injection h2 with h2
    subst h2
    refine ⟨semOrder cs rv lim ts', by simp only [sem, hts']; rfl, ?_⟩
    exact pl_order_sound cs rv lim heq (fun n hn => hS.2 n hn ts' hts') hG.2
  | rename src m ih =>
    intro t h hS hG
    simp only [semPl] at h
    obtain ⟨ts, hts, h2⟩ := pl_bind_ok h
    obtain ⟨ts', hts', heq⟩ := ih ts hts hS hG
    injection h2 with h2
    subst h2
    exact ⟨_, by simp only [sem, hts']; rfl, semRename_equiv heq _ _⟩
  | mapCols src m dels ih =>
    intro t h hS hG
    simp only [semPl] at h
    obtain ⟨ts, hts, h2⟩ := pl_bind_ok h
    obtain ⟨ts', hts', heq⟩ := ih ts hts hS hG
    injection h2 with h2
    subst h2
    exact ⟨_, by simp only [sem, hts']; rfl, semMapCols_equiv heq _ dels _⟩
  | join a b oa ob jt iha ihb =>
    intro t h hS hG
    simp only [semPl] at h
    obtain ⟨ta, hta, h2⟩ := pl_bind_ok h
    obtain ⟨tb, htb, h3⟩ := pl_bind_ok h2
    simp only [Pl.Guards, Pl.violations, List.append_eq_nil_iff] at hG
    obtain ⟨ta', hta', heqa⟩ := iha ta hta hS.1 hG.1.1
    obtain ⟨tb', htb', heqb⟩ := ihb tb htb hS.2.1 hG.1.2
    rw [hta', htb', pl_onInput_ok, pl_onInput_ok] at hG
    obtain ⟨hca, hwa'⟩ := sem_cols_wf Θ hC SemCfg.pandas env a ta' hta'
    obtain ⟨hcb, hwb'⟩ := sem_cols_wf Θ hC SemCfg.pandas env b tb' htb'
    have hwa : ta.WF := heqa.symm.wf hwa'
    have hwb : tb.WF := heqb.symm.wf hwb'
    have J : JoinOK oa ob ta.cols tb.cols (Ops.join a b oa ob jt).cols := by
      rw [heqa.1, heqb.1, hca, hcb]; exact hS.2.2
    have hg : Pl.joinViol cfg jt oa ob ta tb = [] := by
      rw [joinViol_perm heqa.2 heqb.2]; exact hG.2
    have hsound := pl_join_sound (all := appendNew a.cols b.cols) hwa hwb J (fun c hc => ?_) hg h3
    · refine ⟨_, by simp only [sem, hta', htb']; rfl, ?_⟩
      exact hsound.trans ((semJoin_equiv SemCfg.pandas jt oa ob heqa heqb _).selectCols _)
    · exact pl_join_cols_sub a b oa ob jt c hc
  | concat a b idc an bn iha ihb =>
    intro t h hS hG
    simp only [semPl] at h
    obtain ⟨ta, hta, h2⟩ := pl_bind_ok h
    obtain ⟨tb, htb, h3⟩ := pl_bind_ok h2
    simp only [Pl.Guards, Pl.violations, List.append_eq_nil_iff] at hG
    obtain ⟨ta', hta', heqa⟩ := iha ta hta hS.1 hG.1
    obtain ⟨tb', htb', heqb⟩ := ihb tb htb hS.2 hG.2
    injection h3 with h3
    subst h3
    exact ⟨_, by simp only [sem, hta', htb']; rfl, semConcat_equiv idc an bn heqa heqb _⟩
  | convert src rm ih =>
    intro t h hS hG
    simp only [semPl] at h
    obtain ⟨ts, hts, h2⟩ := pl_bind_ok h
    obtain ⟨ts', hts', heq⟩ := ih ts hts hS hG
    rw [hA.convert] at h2
    have := hCp rm ts ts' heq
    rw [h2] at this
    cases hc : Θ.convert rm ts' with
    | error e => rw [hc] at this; exact absurd this (by simp [ResEquiv])
    | ok t' =>
      rw [hc] at this
      exact ⟨t', by simp only [sem, hts']; exact hc, this⟩

/-! ## the property theorems -/

theorem Table.Equiv.toEquivPl {t t' : Table} (h : t ≈ t') : t ≈ₚₗ t' :=
  ⟨List.Perm.of_eq h.1, h.2.map _⟩

/-- **C03 (partial).**  For every variant `cfg` of `polars_model.py` (as found / fixed), every pair of
interpretations that agree outside the listed deviations (`PlAgree`), every pipeline `p` and environment `env`: if
the Polars executor model returns a table `t`, the pipeline is in scope on `env` and none of the known deviations
occurs (`Guards`), then the Pandas executor model returns a table with the same columns and the same multiset of
rows (`≈ₚₗ`: up to row order and column order; in fact even the column order agrees, `C03_polars_sound_strong`). -/
theorem C03_polars_sound_partial (cfg : Pl.Cfg) (Θpl Θ : Interp) (hA : PlAgree cfg Θpl Θ) (hC : ConvertOK Θ)
    (hCp : ConvertPermInvariant Θ) (env : Env) (p : Ops) (t : Table)
    (h : semPl cfg Θpl env p = .ok t) (hS : Scope Θpl Θ env p) (hG : Pl.Guards cfg Θ env p) :
    ∃ t', sem Θ SemCfg.pandas env p = .ok t' ∧ t ≈ₚₗ t' := by
  obtain ⟨t', h1, h2⟩ := C03_polars_sound_strong cfg Θpl Θ hA hC hCp env p t h hS hG
  exact ⟨t', h1, h2.toEquivPl⟩

/-- **C03, row order after a final `order_rows`.**  If the pipeline ends in `order_rows(cs, reverse, limit)`, its
source is in scope and free of deviations, the order is total on the rows that reach it (no two different rows tie
on `cs`) and (before fix D21) no order cell is null, then both executors return the *same list of rows*. -/
theorem C03_final_order (cfg : Pl.Cfg) (Θpl Θ : Interp) (hA : PlAgree cfg Θpl Θ) (hC : ConvertOK Θ)
    (hCp : ConvertPermInvariant Θ) (env : Env) (q : Ops) (cs rv : List String) (lim : Option Nat) (t : Table)
    (h : semPl cfg Θpl env (.order q cs rv lim) = .ok t) (hS : Scope Θpl Θ env q) (hG : Pl.Guards cfg Θ env q)
    (hF : Pl.finalOrderViol cfg Θ env (.order q cs rv lim) = [])
    (hT : ∀ tq, sem Θ SemCfg.pandas env q = .ok tq → TotalOn cs rv tq.rows) :
    sem Θ SemCfg.pandas env (.order q cs rv lim) = .ok t := by
  simp only [semPl] at h
  obtain ⟨tq, htq, h2⟩ := pl_bind_ok h
  obtain ⟨tq', htq', heq⟩ := C03_polars_sound_strong cfg Θpl Θ hA hC hCp env q tq htq hS hG
  injection h2 with h2
  subst h2
  simp only [Pl.finalOrderViol, htq', pl_onInput_ok] at hF
  have hs : Pl.SameOrderOn cfg.nullsLast cs tq'.rows := by
    apply Pl.sameOrderOn_of_hasNullIn
    cases hn : cfg.nullsLast with
    | true => rfl
    | false =>
      cases hh : Pl.hasNullIn cs tq'.rows with
      | false => rfl
      | true => simp [hn, hh] at hF
  simp only [sem, htq']
  rw [Pl.sortHead_eq (hs.perm heq.2.symm), semOrder_total_eq cs rv lim heq ((hT tq' htq').perm heq.2.symm)]
  rfl

/-! ### the per-step lemmas under their names in DESIGN §6 -/

/-- plain `extend`: `with_columns` on `t` vs the Pandas step on `t'` -/
theorem pl_extend_plain_sound {cfg : Pl.Cfg} {Θpl Θ : Interp} (hA : PlAgree cfg Θpl Θ) (ops : Assign) {t t' : Table}
    (h : t ≈ t') (oc : List String) (hv : Pl.extendPlainViol cfg Θ ops t' = []) :
    Pl.withColumns Θpl ops t oc ≈ semExtendPlain Θ ops t' oc := by
  rw [← semExtendPlain_agree hA.scalar ops t' oc hv]
  exact semExtendPlain_equiv Θpl ops h oc

/-- `select_rows`: `filter` on `t` vs the Pandas step on `t'` -/
theorem pl_select_rows_sound {cfg : Pl.Cfg} {Θpl Θ : Interp} (hA : PlAgree cfg Θpl Θ) (e : Term) {t t' : Table}
    (h : t ≈ t') (hv : Pl.selectRowsViol cfg Θ e t' = []) : Pl.filter Θpl e t ≈ semSelectRows Θ e t' := by
  rw [← semSelectRows_agree hA.scalar e t' hv]
  exact semSelectRows_equiv Θpl e h

/-- `project`: `group_by(...).agg(...)` (null-key group kept, all-null row for an empty ungrouped input) on `t` vs
the Pandas step on `t'` -/
theorem pl_project_sound {cfg : Pl.Cfg} {Θpl Θ : Interp} (hA : PlAgree cfg Θpl Θ) (ops : Assign) (g : List String)
    {t t' : Table} (h : t ≈ t') (oc : List String) (hF : ∀ kv ∈ ops, AggOrderFree Θpl (opName kv.2))
    (hv : Pl.projectViol cfg Θ ops g t' = []) : semProjectPl Θpl ops g t oc ≈ semProject Θ ops g t' oc := by
  rw [← semProjectPl_agree hA.agg ops g t' oc hv]
  exact semProjectPl_equiv Θpl ops g h oc hF

/-- inner and left joins (`how != "right"` branch with coalesced key columns) -/
theorem pl_join_inner_left_sound {cfg : Pl.Cfg} {jt : JoinType} {onA onB : List String} {ta tb : Table}
    {oc all : List String} {t : Table} (hjt : jt = .inner ∨ jt = .left)
    (hwa : ta.WF) (hwb : tb.WF) (J : JoinOK onA onB ta.cols tb.cols oc) (hall : ∀ c ∈ oc, c ∈ all)
    (hg : Pl.joinViol cfg jt onA onB ta tb = []) (h : semJoinPl cfg jt onA onB ta tb oc = .ok t) :
    t ≈ (semJoin SemCfg.pandas jt onA onB ta tb all).selectCols oc :=
  pl_join_sound hwa hwb J hall hg h

/-- full join: no key coalescing in Polars; sound after fix D20, or when every right row has a partner -/
theorem pl_join_full_sound {cfg : Pl.Cfg} {jt : JoinType} {onA onB : List String} {ta tb : Table}
    {oc all : List String} {t : Table} (hjt : jt = .full ∨ jt = .outer)
    (hwa : ta.WF) (hwb : tb.WF) (J : JoinOK onA onB ta.cols tb.cols oc) (hall : ∀ c ∈ oc, c ∈ all)
    (hg : Pl.joinViol cfg jt onA onB ta tb = []) (h : semJoinPl cfg jt onA onB ta tb oc = .ok t) :
    t ≈ (semJoin SemCfg.pandas jt onA onB ta tb all).selectCols oc :=
  pl_join_sound hwa hwb J hall hg h

/-- `concat_rows`: `pl.concat(how="vertical")` -/
theorem pl_concat_sound (idc : Option String) (an bn : String) {ta ta' tb tb' : Table} (ha : ta ≈ ta')
    (hb : tb ≈ tb') (oc : List String) :
    Pl.concatVertical idc an bn ta tb oc ≈ semConcat idc an bn ta' tb' oc := semConcat_equiv idc an bn ha hb oc

/-! ### steps that raise (a raise is accepted by the property; stated so that the raise table is part of the theorems) -/

/-- a CROSS join never returns on Polars 1.44 (`join(..., left_on=[], right_on=[], how="cross")` is rejected) -/
theorem C03_cross_raises (cfg : Pl.Cfg) (Θ : Interp) (env : Env) (a b : Ops) (onA onB : List String) (t : Table) :
    semPl cfg Θ env (.join a b onA onB .cross) ≠ .ok t := by
  intro h
  simp only [semPl] at h
  obtain ⟨ta, _, h2⟩ := pl_bind_ok h
  obtain ⟨tb, _, h3⟩ := pl_bind_ok h2
  simp [semJoinPl] at h3

/-- the window functions whose Polars method was removed (`cumsum cummax cummin cumprod cumcount`, and the zero
argument counters `_row_number _count`) never return -/
theorem C03_removed_api_raises (cfg : Pl.Cfg) (Θ : Interp) (env : Env) (src : Ops) (k op : String) (args : List Term)
    (i m : Bool) (part od rv : List String) (t : Table)
    (hop : (op ∈ ["cumsum", "cummax", "cummin", "cumprod", "cumcount"] ∧ args.length = 1) ∨
           (op ∈ ["_row_number", "_count", "row_number", "count", "cumcount"] ∧ args.length = 0)) :
    semPl cfg Θ env (.extend src [(k, .app op args i m)] part od rv true) ≠ .ok t := by
  intro h
  simp only [semPl] at h
  obtain ⟨ts, _, h2⟩ := pl_bind_ok h
  have hr : aggRaises false (.app op args i m) = true := by
    rcases hop with ⟨ho, hl⟩ | ⟨ho, hl⟩
    · simp only [aggRaises, hl]
      simp only [List.mem_cons, List.mem_nil_iff, or_false] at ho
      rcases ho with rfl | rfl | rfl | rfl | rfl <;> decide
    · simp only [aggRaises, hl]
      simp only [List.mem_cons, List.mem_nil_iff, or_false] at ho
      rcases ho with rfl | rfl | rfl | rfl | rfl <;> decide
  simp [hr] at h2
  cases h2

/-! ## the concrete interpretations -/

/-- **The concrete Polars interpretation agrees with the concrete Pandas interpretation outside the listed
deviations** (`ThetaPl` is `Theta` except on the argument constellations of `Prim/Polars.lean`; that it is what
Polars computes is the business of the correspondence suite `k6_polars`). -/
theorem C03_thetaPl_agrees (cfg : Pl.Cfg) (conv : RecMap → Table → Except Err Table) :
    PlAgree cfg (ThetaPl.concrete cfg conv) (Theta.concrete conv) :=
  ⟨thetaPl_scalar_agree cfg, thetaPl_agg_agree cfg,
   fun op _ cargs vs pos _ h => thetaPl_win_agree cfg op cargs vs pos h, fun _ _ => rfl⟩

/-- **C03 for the interpretations the driver runs** (`k6_polars` compares `semPl cfg (ThetaPl.concrete cfg ·)` with
the real Polars executor, `k4_sem` compares `sem (Theta.concrete ·) SemCfg.pandas` with the real Pandas executor). -/
theorem C03_polars_sound_concrete (cfg : Pl.Cfg) (conv : RecMap → Table → Except Err Table)
    (hC : ConvertOK (Theta.concrete conv)) (hCp : ConvertPermInvariant (Theta.concrete conv))
    (env : Env) (p : Ops) (t : Table)
    (h : semPl cfg (ThetaPl.concrete cfg conv) env p = .ok t)
    (hS : Scope (ThetaPl.concrete cfg conv) (Theta.concrete conv) env p)
    (hG : Pl.Guards cfg (Theta.concrete conv) env p) :
    ∃ t', sem (Theta.concrete conv) SemCfg.pandas env p = .ok t' ∧ t ≈ₚₗ t' :=
  C03_polars_sound_partial cfg _ _ (C03_thetaPl_agrees cfg conv) hC hCp env p t h hS hG

/-- **After the four fixes** (`Pl.Cfg.fixed`) the guards of D20, D21, D27, N6 and N12 can no longer be violated: what
remains are D18 (null join keys, a Pandas behaviour), N1 (three-valued logic), the empty ungrouped project,
`first`/`last` over a leading/trailing null, and the scope condition on `any_value`. -/
theorem C03_fixed_guards (Θ : Interp) (env : Env) (p : Ops) :
    (∀ g ∈ Pl.violations Pl.Cfg.fixed Θ env p, Pl.Remaining g) ∧ Pl.finalOrderViol Pl.Cfg.fixed Θ env p = [] := by
  constructor
  · induction p with
    | table _ _ => intro g hg; cases hg
    | extend src ops part od rv w ih =>
      intro g hg
      simp only [Pl.violations, List.mem_append] at hg
      rcases hg with hg | hg
      · exact ih g hg
      · refine pl_onInput_forall (fun t g hg => ?_) g hg
        split at hg
        · simp only [Pl.extendWindowViol, Pl.Cfg.fixed, Bool.not_true, Bool.false_and, Bool.false_eq_true,
            if_false, List.nil_append, List.mem_flatMap] at hg
          obtain ⟨r, _, kv, _, hg⟩ := hg
          exact aggViol_fixed _ _ g hg
        · simp only [Pl.extendPlainViol, List.mem_flatMap] at hg
          obtain ⟨r, _, kv, _, hg⟩ := hg
          exact termViol_fixed Θ r kv.2 g hg
    | project src ops grp ih =>
      intro g hg
      simp only [Pl.violations, List.mem_append] at hg
      rcases hg with hg | hg
      · exact ih g hg
      · refine pl_onInput_forall (fun t g hg => ?_) g hg
        unfold Pl.projectViol at hg
        split at hg
        · split at hg
          · split at hg
            · cases hg
            · simp only [List.mem_singleton] at hg; exact Or.inr (Or.inr (Or.inl hg))
          · simp only [List.mem_flatMap] at hg
            obtain ⟨kv, _, hg⟩ := hg
            exact aggViol_fixed _ _ g hg
        · simp only [List.mem_flatMap] at hg
          obtain ⟨k, _, kv, _, hg⟩ := hg
          exact aggViol_fixed _ _ g hg
    | selectRows src e ih =>
      intro g hg
      simp only [Pl.violations, List.mem_append] at hg
      rcases hg with hg | hg
      · exact ih g hg
      · refine pl_onInput_forall (fun t g hg => ?_) g hg
        simp only [Pl.selectRowsViol, List.mem_flatMap] at hg
        obtain ⟨r, _, hg⟩ := hg
        exact termViol_fixed Θ r e g hg
    | order src cs rv lim ih =>
      intro g hg
      simp only [Pl.violations, List.mem_append] at hg
      rcases hg with hg | hg
      · exact ih g hg
      · refine pl_onInput_forall (fun t g hg => ?_) g hg
        simp [Pl.orderViol, Pl.Cfg.fixed] at hg
    | selectCols src _ ih => exact ih
    | dropCols src _ ih => exact ih
    | rename src _ ih => exact ih
    | mapCols src _ _ ih => exact ih
    | convert src _ ih => exact ih
    | join a b oa ob jt iha ihb =>
      intro g hg
      simp only [Pl.violations, List.mem_append] at hg
      rcases hg with (hg | hg) | hg
      · exact iha g hg
      · exact ihb g hg
      · refine pl_onInput_forall (fun ta g hg => pl_onInput_forall (fun tb g hg => ?_) g hg) g hg
        simp only [Pl.joinViol, Pl.Cfg.fixed, Bool.not_true, Bool.and_false, Bool.false_and, Bool.false_eq_true,
          if_false, List.append_nil] at hg
        split at hg
        · simp only [List.mem_singleton] at hg; exact Or.inr (Or.inl hg)
        · cases hg
    | concat a b _ _ _ iha ihb =>
      intro g hg
      simp only [Pl.violations, List.mem_append] at hg
      rcases hg with hg | hg
      · exact iha g hg
      · exact ihb g hg
  · cases p <;> simp only [Pl.finalOrderViol]
    rename_i src cs rv lim
    cases sem Θ SemCfg.pandas env src <;> simp [Pl.onInput, Pl.Cfg.fixed]

/-! ## Non-vacuity and necessity of every guard

Each witness is a (pipeline, environment) on which the *unguarded* statement fails in the model: both executors
return, the tables differ, and exactly the named guard is violated.  The same cases are `corpus/C03/*.json`; the
harness confirms on every run that the real Polars and Pandas executors behave as the model says. -/
namespace C03Ex

/-- the driver's interpretations, with record transforms switched off -/
def noConv : RecMap → Table → Except Err Table := fun _ _ => .error .other
def Θc : Interp := Theta.concrete noConv
def Θp (cfg : Pl.Cfg) : Interp := ThetaPl.concrete cfg noConv

theorem convOK : ConvertOK Θc := fun _ _ _ h => by cases h
theorem convPerm : ConvertPermInvariant Θc := fun _ _ _ _ => rfl

def N (q : Int) : Val := .num q
def S (s : String) : Val := .str s
def m1 (op c : String) : Term := .app op [.col c] false true

/-- the unguarded claim on one case -/
def Unguarded (cfg : Pl.Cfg) (env : Env) (p : Ops) : Prop :=
  ∀ t, semPl cfg (Θp cfg) env p = .ok t → ∃ t', sem Θc SemCfg.pandas env p = .ok t' ∧ t ≈ₚₗ t'

theorem not_unguarded {cfg : Pl.Cfg} {env : Env} {p : Ops} {tpl tpd : Table}
    (h1 : semPl cfg (Θp cfg) env p = .ok tpl) (h2 : sem Θc SemCfg.pandas env p = .ok tpd) (h3 : ¬ tpl ≈ₚₗ tpd) :
    ¬ Unguarded cfg env p := by
  intro h
  obtain ⟨t', ht', he⟩ := h tpl h1
  rw [h2] at ht'
  cases ht'
  exact h3 he

theorem EquivPl.trans_equiv {t t' t'' : Table} (h : t ≈ₚₗ t') (h' : t' ≈ t'') : t ≈ₚₗ t'' :=
  ⟨h.1.trans (List.Perm.of_eq h'.1), h.2.trans (h'.2.map _)⟩

/-- the same when the Pandas result is only known up to row order -/
theorem not_unguarded' {cfg : Pl.Cfg} {env : Env} {p : Ops} {tpl tpd : Table}
    (h1 : semPl cfg (Θp cfg) env p = .ok tpl) (h2 : ∃ t', sem Θc SemCfg.pandas env p = .ok t' ∧ t' ≈ tpd)
    (h3 : ¬ tpl ≈ₚₗ tpd) : ¬ Unguarded cfg env p := by
  intro h
  obtain ⟨t', ht', he⟩ := h tpl h1
  obtain ⟨t2, ht2, he2⟩ := h2
  rw [ht2] at ht'
  cases ht'
  exact h3 (EquivPl.trans_equiv he he2)

/-! ### the main theorem applies: a pipeline inside scope and guards, on tables with nulls -/

def exEnv : Env :=
  [("d", ⟨["g", "x"], [[("g", S "a"), ("x", N 1)], [("g", S "b"), ("x", .null)], [("g", S "a"), ("x", N 3)]]⟩),
   ("e", ⟨["g", "v"], [[("g", S "a"), ("v", N 10)], [("g", .null), ("v", .null)], [("g", S "a"), ("v", N 30)]]⟩)]
/-- `d.extend({'y': 'x.coalesce(0)'})` -/
def exA : Ops := .extend (.table "d" ["g", "x"]) [("y", .app "coalesce" [.col "x", .value (.int 0)] false true)] [] [] [] false
/-- `e.project({'n': '_size()'}, group_by=['g'])` (the null key forms a group on both executors) -/
def exB : Ops := .project (.table "e" ["g", "v"]) [("n", .app "_size" [] false true)] ["g"]
/-- `A.natural_join(B, on=['g'], jointype='left').order_rows(['y'], limit=2)` -/
def exP : Ops := .order (.join exA exB ["g"] ["g"] .left) ["y"] [] (some 2)

theorem size_orderFree (cfg : Pl.Cfg) : AggOrderFree (Θp cfg) "_size" := by
  intro vs vs' h
  simp [Θp, ThetaPl.concrete, ThetaPl.agg, Pl.nuniqueDev, Pl.anyValueDev, Pl.firstDev, Pl.lastDev, Theta.agg,
    h.length_eq]

theorem exJoinOK : JoinOK ["g"] ["g"] exA.cols exB.cols (Ops.join exA exB ["g"] ["g"] .left).cols := by
  refine ⟨by decide, by decide, rfl, by decide, by decide, ?_, by decide, by decide⟩
  intro o ho
  have : o = "g" := by simpa using ho
  subst this
  decide

def exJoined : Table :=
  ⟨["g", "x", "y", "n"],
   [[("g", S "a"), ("x", N 1), ("y", N 1), ("n", N 2)], [("g", S "a"), ("x", N 3), ("y", N 3), ("n", N 2)],
    [("g", S "b"), ("x", .null), ("y", N 0), ("n", .null)]]⟩

theorem exJoin_pd : sem Θc SemCfg.pandas exEnv (.join exA exB ["g"] ["g"] .left) = .ok exJoined := rfl
theorem exJoin_pl_orig : semPl Pl.Cfg.orig (Θp Pl.Cfg.orig) exEnv (.join exA exB ["g"] ["g"] .left) = .ok exJoined := rfl
theorem exJoin_pl_fixed : semPl Pl.Cfg.fixed (Θp Pl.Cfg.fixed) exEnv (.join exA exB ["g"] ["g"] .left) = .ok exJoined := rfl

theorem exScope (cfg : Pl.Cfg) : Scope (Θp cfg) Θc exEnv exP := by
  refine ⟨⟨⟨trivial, fun h => by cases h⟩, ⟨trivial, ?_⟩, exJoinOK⟩, ?_⟩
  · intro kv hkv
    simp only [List.mem_singleton] at hkv
    subst hkv
    exact size_orderFree cfg
  · intro n _ t ht
    rw [exJoin_pd] at ht
    cases ht
    exact Or.inl (by decide)

theorem exGuards_orig : Pl.Guards Pl.Cfg.orig Θc exEnv exP := by decide
theorem exGuards_fixed : Pl.Guards Pl.Cfg.fixed Θc exEnv exP := by decide

theorem exMain (cfg : Pl.Cfg) (hj : semPl cfg (Θp cfg) exEnv (.join exA exB ["g"] ["g"] .left) = .ok exJoined)
    (hg : Pl.Guards cfg Θc exEnv exP) :
    ∃ t t', semPl cfg (Θp cfg) exEnv exP = .ok t ∧ sem Θc SemCfg.pandas exEnv exP = .ok t' ∧
      t ≈ₚₗ t' ∧ t'.rows.length = 2 := by
  have h1 : semPl cfg (Θp cfg) exEnv exP = .ok (Pl.sortHead cfg.nullsLast ["y"] [] (some 2) exJoined) := by
    simp only [exP, semPl, hj]; rfl
  obtain ⟨t', h2, h3⟩ := C03_polars_sound_concrete cfg noConv convOK convPerm exEnv exP _ h1 (exScope cfg) hg
  refine ⟨_, t', h1, h2, h3, ?_⟩
  have h4 : sem Θc SemCfg.pandas exEnv exP = .ok (semOrder ["y"] [] (some 2) exJoined) := by
    simp only [exP, sem, exJoin_pd]; rfl
  have h2' : sem Θc SemCfg.pandas exEnv exP = .ok t' := h2
  rw [h4] at h2'
  cases h2'
  simp [semOrder, DAVerif.sortRows, exJoined]

/-- the main theorem applies to `exP` for the code as found, and its conclusion is about a successful evaluation on
both sides (two rows) -/
example : ∃ t t', semPl Pl.Cfg.orig (Θp Pl.Cfg.orig) exEnv exP = .ok t ∧ sem Θc SemCfg.pandas exEnv exP = .ok t' ∧
    t ≈ₚₗ t' ∧ t'.rows.length = 2 := exMain _ exJoin_pl_orig exGuards_orig

/-- and for the fixed code -/
example : ∃ t t', semPl Pl.Cfg.fixed (Θp Pl.Cfg.fixed) exEnv exP = .ok t ∧ sem Θc SemCfg.pandas exEnv exP = .ok t' ∧
    t ≈ₚₗ t' ∧ t'.rows.length = 2 := exMain _ exJoin_pl_fixed exGuards_fixed

/-! ### D27 `maximum` / `minimum` ignore nulls (code before the fix) -/
def d27env : Env := [("d", ⟨["j", "k"], [[("j", N 1), ("k", .null)]]⟩)]
def d27 : Ops := .extend (.table "d" ["j", "k"]) [("m", .app "minimum" [.col "j", .col "k"] false true)] [] [] [] false

/-- `j.minimum(k)` with `k` null: Polars 1, Pandas null; the only guard violated is `maxNull` -/
theorem _root_.DAVerif.C03_D27_necessary :
    ¬ Unguarded Pl.Cfg.orig d27env d27 ∧ Pl.violations Pl.Cfg.orig Θc d27env d27 = [.maxNull] :=
  ⟨not_unguarded (tpl := ⟨["j", "k", "m"], [[("j", N 1), ("k", .null), ("m", N 1)]]⟩)
      (tpd := ⟨["j", "k", "m"], [[("j", N 1), ("k", .null), ("m", .null)]]⟩) rfl rfl (by decide), by decide⟩

/-- after the fix the same case is inside the guards and both executors agree -/
example : Pl.Guards Pl.Cfg.fixed Θc d27env d27 ∧
    semPl Pl.Cfg.fixed (Θp Pl.Cfg.fixed) d27env d27 = sem Θc SemCfg.pandas d27env d27 := ⟨by decide, rfl⟩

/-! ### D20 full join without key coalescing (before the fix) -/
def d20env : Env := [("d", ⟨["k", "a"], [[("k", N 1), ("a", N 1)]]⟩), ("e", ⟨["k", "b"], [[("k", N 2), ("b", N 2)]]⟩)]
def d20 : Ops := .join (.table "d" ["k", "a"]) (.table "e" ["k", "b"]) ["k"] ["k"] .full

/-- `d(k=1) FULL JOIN e(k=2)`: the right-only row has `k = null` on Polars, `k = 2` on Pandas -/
theorem _root_.DAVerif.C03_D20_necessary :
    ¬ Unguarded Pl.Cfg.orig d20env d20 ∧ Pl.violations Pl.Cfg.orig Θc d20env d20 = [.fullJoinKeys] :=
  ⟨not_unguarded
      (tpl := ⟨["k", "a", "b"], [[("k", N 1), ("a", N 1), ("b", .null)], [("k", .null), ("a", .null), ("b", N 2)]]⟩)
      (tpd := ⟨["k", "a", "b"], [[("k", N 1), ("a", N 1), ("b", .null)], [("k", N 2), ("a", .null), ("b", N 2)]]⟩)
      rfl rfl (by decide), by decide⟩

example : Pl.Guards Pl.Cfg.fixed Θc d20env d20 ∧
    semPl Pl.Cfg.fixed (Θp Pl.Cfg.fixed) d20env d20 = sem Θc SemCfg.pandas d20env d20 := ⟨by decide, rfl⟩

/-! ### D21 null placement of `order_rows` (before the fix): with a limit, and the final row order -/
def rn : Row := [("k", .null), ("i", N 2)]
def r1 : Row := [("k", N 1), ("i", N 1)]
def d21env : Env := [("d", ⟨["k", "i"], [rn, r1]⟩)]
def d21 : Ops := .order (.table "d" ["k", "i"]) ["k"] [] (some 1)
def d21f : Ops := .order (.table "d" ["k", "i"]) ["k"] [] none

theorem d21_sort_pl : Pl.sortRows false ["k"] [] [rn, r1] = [rn, r1] := Pl.sortRows_of_sorted (by decide)
theorem d21_sort_pd : DAVerif.sortRows ["k"] [] [rn, r1] = [r1, rn] :=
  sortRows_eq_of_sorted_perm (by decide) (by decide) (by decide)

theorem d21_pl (lim : Option Nat) : semPl Pl.Cfg.orig (Θp Pl.Cfg.orig) d21env (.order (.table "d" ["k", "i"]) ["k"] [] lim)
    = .ok ⟨["k", "i"], match lim with | none => [rn, r1] | some n => [rn, r1].take n⟩ := by
  have h : semPl Pl.Cfg.orig (Θp Pl.Cfg.orig) d21env (.order (.table "d" ["k", "i"]) ["k"] [] lim)
      = .ok (Pl.sortHead false ["k"] [] lim ⟨["k", "i"], [rn, r1]⟩) := rfl
  rw [h]
  simp only [Pl.sortHead, d21_sort_pl]
  cases lim <;> rfl

theorem d21_pd (lim : Option Nat) : sem Θc SemCfg.pandas d21env (.order (.table "d" ["k", "i"]) ["k"] [] lim)
    = .ok ⟨["k", "i"], match lim with | none => [r1, rn] | some n => [r1, rn].take n⟩ := by
  have h : sem Θc SemCfg.pandas d21env (.order (.table "d" ["k", "i"]) ["k"] [] lim)
      = .ok (semOrder ["k"] [] lim ⟨["k", "i"], [rn, r1]⟩) := rfl
  rw [h]
  simp only [semOrder, d21_sort_pd]
  cases lim <;> rfl

/-- `order_rows(['k'], limit=1)` with one null `k`: Polars keeps the null row (nulls first), Pandas the other -/
theorem _root_.DAVerif.C03_D21_necessary :
    ¬ Unguarded Pl.Cfg.orig d21env d21 ∧ Pl.violations Pl.Cfg.orig Θc d21env d21 = [.orderNullLimit] :=
  ⟨not_unguarded (d21_pl (some 1)) (d21_pd (some 1)) (by decide), by decide⟩

/-- without a limit the multisets agree (no guard of the multiset claim is violated) but the row *order* of the
final `order_rows` differs: the extra guard of `C03_final_order` is necessary -/
theorem _root_.DAVerif.C03_D21_final_necessary :
    Pl.Guards Pl.Cfg.orig Θc d21env d21f ∧ Pl.finalOrderViol Pl.Cfg.orig Θc d21env d21f = [.orderNullFinal] ∧
    (∃ t t', semPl Pl.Cfg.orig (Θp Pl.Cfg.orig) d21env d21f = .ok t ∧ sem Θc SemCfg.pandas d21env d21f = .ok t' ∧
      t ≈ₚₗ t' ∧ t.rows ≠ t'.rows) :=
  ⟨by decide, by decide, _, _, d21_pl none, d21_pd none, by decide, by decide⟩

/-! ### N1 three-valued logic -/
def n1env : Env := [("d", ⟨["x"], [[("x", .null)], [("x", N 2)]]⟩)]
def n1 : Ops := .extend (.table "d" ["x"]) [("c", .app ">" [.col "x", .value (.int 1)] true false)] [] [] [] false

/-- `x > 1` with `x` null: Polars null, Pandas `False` (also after the fixes) -/
theorem _root_.DAVerif.C03_N1_necessary :
    ¬ Unguarded Pl.Cfg.fixed n1env n1 ∧ Pl.violations Pl.Cfg.fixed Θc n1env n1 = [.nullCompare] :=
  ⟨not_unguarded (tpl := ⟨["x", "c"], [[("x", .null), ("c", .null)], [("x", N 2), ("c", .bool true)]]⟩)
      (tpd := ⟨["x", "c"], [[("x", .null), ("c", .bool false)], [("x", N 2), ("c", .bool true)]]⟩)
      rfl rfl (by decide), by decide⟩

/-! ### N6 `nunique` counts null (before the fix) -/
def n6env : Env := [("d", ⟨["g", "x"], [[("g", S "a"), ("x", .null)], [("g", S "a"), ("x", N 1)]]⟩)]
def n6 : Ops := .project (.table "d" ["g", "x"]) [("n", m1 "nunique" "x")] ["g"]

theorem _root_.DAVerif.C03_N6_necessary :
    ¬ Unguarded Pl.Cfg.orig n6env n6 ∧ Pl.violations Pl.Cfg.orig Θc n6env n6 = [.nuniqueNull] :=
  ⟨not_unguarded (tpl := ⟨["g", "n"], [[("g", S "a"), ("n", N 2)]]⟩) (tpd := ⟨["g", "n"], [[("g", S "a"), ("n", N 1)]]⟩)
      rfl rfl (by decide), by decide⟩

/-! ### N12 null placement of the window order (before the fix) -/
def wn : Row := [("o", .null), ("x", N 1)]
def w1 : Row := [("o", N 1), ("x", N 2)]
def n12env : Env := [("d", ⟨["o", "x"], [wn, w1]⟩)]
def n12ops : Assign := [("s", .app "shift" [.col "x", .value (.int 1)] false true)]
def n12 : Ops := .extend (.table "d" ["o", "x"]) n12ops [] ["o"] [] true

theorem n12_pl : semPl Pl.Cfg.orig (Θp Pl.Cfg.orig) n12env n12 =
    .ok ⟨["o", "x", "s"], [[("o", .null), ("x", N 1), ("s", .null)], [("o", N 1), ("x", N 2), ("s", N 1)]]⟩ := by
  have h : semPl Pl.Cfg.orig (Θp Pl.Cfg.orig) n12env n12
      = .ok (semExtendWindowPl false (Θp Pl.Cfg.orig) n12ops [] ["o"] [] ⟨["o", "x"], [wn, w1]⟩ ["o", "x", "s"]) := rfl
  rw [h, semExtendWindowPl_of_sorted _ _ _ _ _ _ _ (by decide)]
  rfl

theorem n12_pd : ∃ t', sem Θc SemCfg.pandas n12env n12 = .ok t' ∧ t' ≈
    ⟨["o", "x", "s"], [[("o", N 1), ("x", N 2), ("s", .null)], [("o", .null), ("x", N 1), ("s", N 2)]]⟩ := by
  refine ⟨semExtendWindow Θc n12ops [] ["o"] [] ⟨["o", "x"], [wn, w1]⟩ ["o", "x", "s"], rfl, ?_⟩
  have he : (⟨["o", "x"], [wn, w1]⟩ : Table) ≈ ⟨["o", "x"], [w1, wn]⟩ := ⟨rfl, by decide⟩
  refine (semExtendWindow_equiv Θc n12ops [] ["o"] [] he _ (Or.inl (by decide))).trans ?_
  rw [← semExtendWindowPl_eq (nl := true) Θc n12ops [] ["o"] [] _ _ (Or.inl rfl),
    semExtendWindowPl_of_sorted _ _ _ _ _ _ _ (by decide)]
  exact Table.Equiv.of_eq rfl

theorem _root_.DAVerif.C03_N12_necessary :
    ¬ Unguarded Pl.Cfg.orig n12env n12 ∧ Pl.violations Pl.Cfg.orig Θc n12env n12 = [.windowOrderNull] :=
  ⟨not_unguarded' n12_pl n12_pd (by decide), by decide⟩

/-! ### ungrouped project over an empty input -/
def epenv : Env := [("d", ⟨["x"], []⟩)]
def ep : Ops := .project (.table "d" ["x"]) [("s", m1 "sum" "x")] []

/-- `project({'s': 'x.sum()'})` over an empty table: Polars one all-null row, Pandas `0` (a difference C01's text
accepts for `sum`/`count`; the guard also covers `nunique`, `any`, `all`, where it is a plain deviation) -/
theorem _root_.DAVerif.C03_emptyProject_necessary :
    ¬ Unguarded Pl.Cfg.fixed epenv ep ∧ Pl.violations Pl.Cfg.fixed Θc epenv ep = [.emptyProject] :=
  ⟨not_unguarded (tpl := ⟨["s"], [[("s", .null)]]⟩) (tpd := ⟨["s"], [[("s", N 0)]]⟩) rfl rfl (by decide), by decide⟩

/-! ### `first` / `last` keep a null -/
def f1 : Row := [("g", S "a"), ("o", N 1), ("x", .null)]
def f2 : Row := [("g", S "a"), ("o", N 2), ("x", N 5)]
def flenv : Env := [("d", ⟨["g", "o", "x"], [f1, f2]⟩)]
def flops : Assign := [("f", m1 "first" "x")]
def fl : Ops := .extend (.table "d" ["g", "o", "x"]) flops ["g"] ["o"] [] true

theorem fl_pl : semPl Pl.Cfg.fixed (Θp Pl.Cfg.fixed) flenv fl =
    .ok ⟨["g", "o", "x", "f"], [[("g", S "a"), ("o", N 1), ("x", .null), ("f", .null)],
                                [("g", S "a"), ("o", N 2), ("x", N 5), ("f", .null)]]⟩ := by
  have h : semPl Pl.Cfg.fixed (Θp Pl.Cfg.fixed) flenv fl
      = .ok (semExtendWindowPl true (Θp Pl.Cfg.fixed) flops ["g"] ["o"] [] ⟨["g", "o", "x"], [f1, f2]⟩
          ["g", "o", "x", "f"]) := rfl
  rw [h, semExtendWindowPl_of_sorted _ _ _ _ _ _ _ (by decide)]
  rfl

theorem fl_pd : sem Θc SemCfg.pandas flenv fl =
    .ok ⟨["g", "o", "x", "f"], [[("g", S "a"), ("o", N 1), ("x", .null), ("f", N 5)],
                                [("g", S "a"), ("o", N 2), ("x", N 5), ("f", N 5)]]⟩ := by
  have h : sem Θc SemCfg.pandas flenv fl
      = .ok (semExtendWindow Θc flops ["g"] ["o"] [] ⟨["g", "o", "x"], [f1, f2]⟩ ["g", "o", "x", "f"]) := rfl
  rw [h, ← semExtendWindowPl_eq (nl := true) Θc flops ["g"] ["o"] [] _ _ (Or.inl rfl),
    semExtendWindowPl_of_sorted _ _ _ _ _ _ _ (by decide)]
  rfl

/-- `x.first()` over a window whose first cell is null: Polars null, Pandas the first non-null value; the window's
values `[null, 5]` are exactly what the guard `firstLastNull` describes -/
theorem _root_.DAVerif.C03_firstLast_necessary :
    ¬ Unguarded Pl.Cfg.fixed flenv fl ∧ Pl.aggViol Pl.Cfg.fixed "first" [.null, N 5] = [.firstLastNull] :=
  ⟨not_unguarded fl_pl fl_pd (by decide), by decide⟩

/-! ### D18 null join keys (Pandas matches them, Polars does not) -/
def d18env : Env := [("d", ⟨["x", "v"], [[("x", .null), ("v", N 1)]]⟩)]
def d18 : Ops := .join (.table "d" ["x", "v"]) (.table "d" ["x", "v"]) ["x"] ["x"] .inner

theorem _root_.DAVerif.C03_D18_necessary :
    ¬ Unguarded Pl.Cfg.fixed d18env d18 ∧ Pl.violations Pl.Cfg.fixed Θc d18env d18 = [.nullKeys] :=
  ⟨not_unguarded (tpl := ⟨["x", "v"], []⟩) (tpd := ⟨["x", "v"], [[("x", .null), ("v", N 1)]]⟩) rfl rfl (by decide),
   by decide⟩

/-! ### scope: `any_value` over values that are not constant -/
def avenv : Env := [("d", ⟨["g", "x"], [[("g", S "a"), ("x", N 2)], [("g", S "a"), ("x", N 1)]]⟩)]
def av : Ops := .project (.table "d" ["g", "x"]) [("v", m1 "any_value" "x")] ["g"]

theorem _root_.DAVerif.C03_anyValue_scope_necessary :
    ¬ Unguarded Pl.Cfg.fixed avenv av ∧ Pl.violations Pl.Cfg.fixed Θc avenv av = [.anyValueNonConst] :=
  ⟨not_unguarded (tpl := ⟨["g", "v"], [[("g", S "a"), ("v", N 1)]]⟩) (tpd := ⟨["g", "v"], [[("g", S "a"), ("v", N 2)]]⟩)
      rfl rfl (by decide), by decide⟩

end C03Ex

end DAVerif
