import DAVerif.Proofs.ExprWalk
import DAVerif.Proofs.ExprParse
import DAVerif.Generated.ExprTables
/-!
# C13 — Expression text is parsed with Python's precedence and meaning

Property theorems only.  Model: `Expr/Cst.lean` (tokens, lark trees), `Expr/Parse.lean` (the grammar fragment),
`Expr/Walk.lean` (`_walk_lark_tree` and the `Term` builders), `Expr/Print.lean` (`to_python`), `Expr/Lex.lean`
(spelling of literals).  Specification side: `Expr/Eval.lean` (`evalPy`, the Python reading of a tree; `evalTerm`,
the meaning of a DSL term; `PyLaws`).  Lemmas: `Proofs/ExprWalk.lean`, `Proofs/ExprPrint.lean`.
-/
namespace DAVerif.Expr

/-! ## 1. The tree the walker builds means what Python means by the text -/

/-- **C13 (meaning).** For every lark tree `c` — whatever its size or shape — if the walker accepts it (returns a term `t`)
and the tree has a Python reading `v` on the row `ρ` (`evalPy`: left-associative binary levels, right-associative `**`,
a prefix minus applied to the whole power phrase after it, chained comparisons as the conjunction of the pairwise
comparisons, `and`/`or`/`not`, calls), then the DSL term evaluates to exactly that value.  Both sides interpret every
operator symbol by the same `Θ`; `Θ` is arbitrary up to the four laws of `PyLaws` (k-ary `+ * and or` fold their binary
versions, `-constant` is the negated constant, unary `+` is the identity, `x == False` is `not x`).  `env.Sane` is a
decidable condition on the tables the walker reads (`op_remap`, `factor_remap`, the builder methods), discharged for
the tables regenerated from the source by `C13_generated_tables_sane`.

Before `fixes/c13-comparison-chain.diff` the statement needed the guard "no comparison chain" (see
`C13_old_chain_walk_not_python`). -/
theorem C13_walk_meaning (env : Env) (hs : env.Sane) (Θ : Interp) (hΘ : PyLaws Θ) (ρ : String → Θ.V)
    (c : Cst) (t : Term) (v : Θ.V) :
    walk env c = .ok t → evalPy Θ ρ c = some v → evalTerm Θ ρ t = v :=
  walk_sound hs hΘ ρ c t v

/-- The tables regenerated from `/repo` on every run (`Generated/ExprTables.lean`: `op_remap`, `factor_remap`, the
shapes of `Term`'s builder methods) satisfy the sanity condition of `C13_walk_meaning`, for every set of columns. -/
theorem C13_generated_tables_sane (cols : List String) : (Generated.env cols).Sane := by
  show tablesSane Generated.methodTable Generated.opRemap Generated.factorRemap = true
  decide

/-! ### non-vacuity -/

/-- the concrete interpretation over booleans and integers satisfies the laws -/
theorem ΘInt_laws : PyLaws ΘInt where
  kary := by
    intro op _ a b c rest
    simp [ΘInt, pvApp, List.foldl]
  negLit := by
    intro l l' h
    cases l <;> simp [negLit] at h <;> subst h <;> simp [ΘInt, pvApp, PV.ofLit, PV.num]
    rename_i b; cases b <;> simp
  pos := by intro v; show pvApp "+" [v] = v; simp only [pvApp]; rfl
  notEq := by intro v; show pvApp "==" [v, PV.ofLit (.bool false)] = pvApp "not" [v]; simp [pvApp, PV.ofLit, List.foldl]

private def tkn (k : TokKind) (s : String) : Cst := .tok ⟨k, s⟩
private def num (s : String) : Cst := .node "number" [tkn .dec s]
private def var (s : String) : Cst := .node "var" [tkn .name s]

/-- lark's tree of `-x ** 2` -/
def cstNegPow : Cst := .node "factor" [tkn .op "-", .node "power" [var "x", num "2"]]
/-- lark's tree of `3 > x > 1` -/
def cstChain : Cst := .node "comparison" [num "3", tkn .op ">", var "x", tkn .op ">", num "1"]
/-- lark's tree of `x - y - 1 + x * -2` -/
def cstArith : Cst :=
  .node "arith_expr" [var "x", tkn .op "-", var "y", tkn .op "-", num "1", tkn .op "+",
    .node "term" [var "x", tkn .op "*", .node "factor" [tkn .op "-", num "2"]]]

/-- `ΘInt.V` is `PV` (made explicit so that equality is decidable by instance search) -/
def asPV (x : ΘInt.V) : PV := x
def asOptPV (x : Option ΘInt.V) : Option PV := x

def rowX (x y : Int) : String → PV := fun c => if c == "x" then .i x else if c == "y" then .i y else .null

/-- `walk` accepts the tree and returns exactly `t` (structural comparison) -/
def walksTo (env : Env) (c : Cst) (t : Term) : Bool :=
  match walk env c with
  | .ok t' => termBEq t' t
  | .error _ => false

def tNegPow : Term := .app "-" [.app "**" [.col "x", .value (.int 2)] true false] true false
def tChain : Term :=
  .app "and" [.app ">" [.value (.int 3), .col "x"] true false, .app ">" [.col "x", .value (.int 1)] true false] true false
def tOldChain : Term := .app ">" [.app ">" [.value (.int 3), .col "x"] true false, .value (.int 1)] true false

-- the hypotheses of `C13_walk_meaning` hold on concrete trees: the walker accepts them, the Python reading exists,
-- and the value is Python's: `-x ** 2` at x = 3 is -9 (not 9); `3 > x > 1` at x = 2 is True; `x - y - 1 + x * -2`
-- at x = 5, y = 2 is (5 - 2 - 1) + (5 * -2) = -8
example : walksTo (Generated.env ["x", "y"]) cstNegPow tNegPow = true := by decide +kernel
example : asOptPV (evalPy ΘInt (rowX 3 0) cstNegPow) = some (PV.i (-9)) := by decide +kernel
example : asPV (evalTerm ΘInt (rowX 3 0) tNegPow) = PV.i (-9) := by decide +kernel
example : walksTo (Generated.env ["x", "y"]) cstChain tChain = true := by decide +kernel
example : asOptPV (evalPy ΘInt (rowX 2 0) cstChain) = some (PV.b true) := by decide +kernel
example : asPV (evalTerm ΘInt (rowX 2 0) tChain) = PV.b true := by decide +kernel
example : asOptPV ((walk (Generated.env ["x", "y"]) cstArith).toOption.map (evalTerm ΘInt (rowX 5 2)))
    = some (PV.i (-8)) := by decide +kernel
example : asOptPV (evalPy ΘInt (rowX 5 2) cstArith) = some (PV.i (-8)) := by decide +kernel

/-- **Witness of the repaired defect (D7/D29).** The term the walker built for `3 > x > 1` before
`fixes/c13-comparison-chain.diff` – the linear chain `(3 > x) > 1` – does not have Python's value at `x = 2`
(Python: `True`; the chain: `True > 1 = False`).  So without the fix `C13_walk_meaning` is false at this tree, and the
statement would need the guard "no comparison chain". -/
theorem C13_old_chain_walk_not_python :
    asPV (evalTerm ΘInt (rowX 2 0) tOldChain) ≠ PV.b true ∧
    asOptPV (evalPy ΘInt (rowX 2 0) cstChain) = some (PV.b true) := by decide +kernel


/-! ## 2. Printing a term and parsing it again gives the term back -/

/-- **C13 / C12 (print → parse round trip).** For every *well-formed* term `t` – `wf env t`: a decidable predicate saying
that the literals' spellings re-read to themselves, the columns are known, collections are non-empty with distinct keys,
and at every node re-running the builder that the node's printed form invokes returns the node – the tokens of
`str(t)` (`printToks`, the model of `to_python`) are parsed by the model of the grammar (`parseToks`) to the tree
`cst t`, and the walker maps that tree back to exactly `t` (every field, including `method`; this implies the
repository's `is_equal`).  `env.NegFolds` says that `-` is remapped to `__neg__` and `Value.__neg__` folds constants
(true of the regenerated tables: `C13_generated_negfolds`).  The parser's fuel (`16·(tokens+1)`) is shown sufficient as
part of the statement. -/
theorem C13_print_parse (env : Env) (hn : env.NegFolds) (t : Term) (hwf : wf env t = true) :
    parseToks (printToks t) = .ok (cst t) ∧ walk env (cst t) = .ok t := by
  refine ⟨?_, walk_cst hn t hwf⟩
  have hp := (parses_all env t hwf).1.1 (fuelFor (tk t false)) [] (by simp [fuelFor]; omega) trivial
  simp only [List.append_nil] at hp
  simp [parseToks, parseCore, printToks_eq, hp]

/-- the same for the entry point `parse_by_lark` (which also asserts the result is a `Term`, not a bare list/dict) -/
theorem C13_print_parse_top (env : Env) (hn : env.NegFolds) (t : Term) (hwf : wf env t = true)
    (hterm : ∀ vs, t ≠ .list vs) (hterm' : ∀ kvs, t ≠ .dict kvs) :
    (parseToks (printToks t)).toOption.map (walkTop env) = some (.ok t) := by
  obtain ⟨h1, h2⟩ := C13_print_parse env hn t hwf
  rw [h1]
  simp only [Except.toOption, Option.map_some, walkTop, h2, ok_bind]

theorem C13_generated_negfolds (cols : List String) : (Generated.env cols).NegFolds :=
  ⟨show Generated.valueNegFolds = true by decide,
   show remap Generated.factorRemap "-" = "__neg__" by decide⟩

/-- **C13 (parse → print → parse).** If a token list parses to a tree that the walker turns into a well-formed term, then
printing that term and parsing again gives the same term: the printed form is a fixed point.
That the walker's results *are* well-formed (for texts without dunder method names, finding `C13-dunder-method-print`)
is not proven here: it is checked on every run by the correspondence suite `expr_canon`, which evaluates `wf` on each
term the real parser returns. -/
theorem C13_parse_print_idem (env : Env) (hn : env.NegFolds) (toks : List Token) (c : Cst) (t : Term)
    (_hp : parseToks toks = .ok c) (_hw : walk env c = .ok t) (hwf : wf env t = true) :
    ∃ c', parseToks (printToks t) = .ok c' ∧ walk env c' = .ok t ∧ printToks t = tk t false :=
  ⟨cst t, (C13_print_parse env hn t hwf).1, (C13_print_parse env hn t hwf).2, printToks_eq t⟩

/-- print, parse, walk: does the term come back? -/
def roundTrips (env : Env) (t : Term) : Bool :=
  match parseToks (printToks t) with
  | .ok c => okEq (walk env c) t
  | .error _ => false

/-- lark's tree of `x.__and__(y)` -/
def cstDunderAnd : Cst :=
  .node "funccall" [.node "getattr" [var "x", tkn .name "__and__"], .node "arguments" [var "y"]]

/-- **Known finding `C13-dunder-bitwise-method-print` (guard `NoDunderCall`).** The walker accepts `x.__and__(y)` and
builds the inline expression `x & y`; that term is not well-formed and its printed form does not come back (the parser
refuses `&`).  So "every term the walker returns round-trips" needs the guard that the text calls no dunder method. -/
theorem C13_dunder_guard_necessary :
    walksTo (Generated.env ["x", "y"]) cstDunderAnd (.app "&" [.col "x", .col "y"] true false) = true ∧
    wf (Generated.env ["x", "y"]) (.app "&" [.col "x", .col "y"] true false) = false ∧
    roundTrips (Generated.env ["x", "y"]) (.app "&" [.col "x", .col "y"] true false) = false := by
  decide +kernel

/-- lark's tree of `(-x)(y)` -/
def cstUnaryCallee : Cst :=
  .node "funccall" [.node "factor" [tkn .op "-", var "x"], .node "arguments" [var "y"]]

/-- **Known finding `C13-call-of-unary-expression` (guard `CalleeIsName`).** The walker accepts `(-x)(y)` as a call of
the function *named by the operator token* `-`.  The printed form `-(y)` then contains the function name `-` in a NAME
position: at the token level (this model) it still round-trips, but lark's lexer reads the printed `-` as the operator,
so on the real code the text re-parses to the unary minus of `y`.  The theorems' lexical scope ("names are identifiers")
excludes exactly this: the printed token list has a NAME token that is not an identifier. -/
theorem C13_callee_guard_necessary :
    walksTo (Generated.env ["x", "y"]) cstUnaryCallee (.app "-" [.col "y"] false false) = true ∧
    (printToks (.app "-" [.col "y"] false false)).any (fun k => k.kind == .name && k.text == "-") = true := by
  decide +kernel

/-! ### non-vacuity -/

/-- `(-x) ** 2 + y.max()` as the walker builds it -/
def tRound : Term :=
  .app "+" [.app "**" [.app "-" [.col "x"] true false, .value (.int 2)] true false,
            .app "max" [.col "y"] false true] true false

example : wf (Generated.env ["x", "y"]) tRound = true := by decide +kernel
example : roundTrips (Generated.env ["x", "y"]) tRound = true := by decide +kernel
example : printText tRound = "((-(x)) ** 2) + y.max()" := by decide +kernel
example : wf (Generated.env ["x", "y"]) tChain = true := by decide +kernel
example : wf (Generated.env ["x", "y"])
    (.app "mapv" [.col "x", .dict [(.int 1, .str "a"), (.int (-2), .str "it's")], .value .none] false true) = true := by
  decide +kernel
-- not well-formed: a unary minus around a constant (the walker folds it), an unknown column
example : wf (Generated.env ["x"]) (.app "-" [.value (.int 5)] true false) = false := by decide +kernel
example : wf (Generated.env ["x"]) (.col "q") = false := by decide +kernel

end DAVerif.Expr
