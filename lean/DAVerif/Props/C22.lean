import DAVerif.Proofs.Schema
/-!
# C22 — Schema-check decorators raise exactly on schema violations

Property theorems only (helper lemmas are in `Proofs/Schema.lean`, the model in `Schema/Schema.lean`).
Every theorem quantifies over **all type universes** `T` with an arbitrary `issubclass` relation, all
specifications (types, type sets, example values, nested column specifications), all argument / return values
(scalars of any class, null or not; Pandas and Polars frames of any size), all wrapped functions and both
switch states.

The model is the code with `fixes/C22-schema-set-normalization.diff` and `fixes/C22-schema-none-arg-specs.diff`
applied.  One part of the property fails on the unchanged (and on the fixed) code and is kept as a known
finding with guard `G1` (positional arguments are matched to parameter names by index, whatever the parameter
kind): see `C22_args_iff_partial` and `C22_G1_necessary`.
-/
namespace DAVerif.Schema
set_option linter.unusedSectionVars false

variable {T : Type} [U : TypeUniverse T] [DecidableEq T]

/-! ## Specification side: what it means to conform (written without reference to the checker) -/

/-- `v` is an instance of class `t` (its class is `t` or a subclass). -/
def HasType (v : Value T) (t : T) : Prop := U.sub (typeOf v) t = true

instance (v : Value T) (t : T) : Decidable (HasType v t) := by unfold HasType; infer_instance

/-- The type a set member / single declaration declares: a class declares itself, an **example value declares
its own class**, `None` declares nothing. -/
inductive Declares : Atom T → T → Prop
  | ty (t : T) : Declares (.ty t) t
  | exampleOf (t : T) : Declares (.exampleOf t) t

/-- `Conforms s v`: value `v` satisfies the user-level specification `s`.
* `None`: no constraint.
* a class or an example value: `v` is an instance of the declared class (a `None` *argument* is a value like any
  other and is **not** exempt – DESIGN Appendix B).
* a set: `v` is an instance of the class declared by some member (a `None` member declares nothing).
* a dict: `v` is a data frame, every declared column is present, and every **non-null cell** of a declared
  column conforms to the column's specification. -/
inductive Conforms : Spec T → Value T → Prop
  | unconstrained (v : Value T) : Conforms (.atom .none) v
  | single {a : Atom T} {t : T} {v : Value T} : Declares a t → HasType v t → Conforms (.atom a) v
  | oneOf {ms : List (Atom T)} {a : Atom T} {t : T} {v : Value T} :
      a ∈ ms → Declares a t → HasType v t → Conforms (.oneOf ms) v
  | frame {cols : List (String × Spec T)} {f : Frame T} :
      (∀ c s, (c, s) ∈ cols → ∃ cells, f.column c = some cells) →
      (∀ c s cells x, (c, s) ∈ cols → f.column c = some cells → x ∈ cells → x.isNull = false →
          Conforms s (.scalar x)) →
      Conforms (.frame cols) (.frame f)

theorem declares_iff {a : Atom T} {t : T} : Declares a t ↔ a.declared = some t := by
  constructor
  · rintro (_ | _) <;> rfl
  · cases a <;> simp [Atom.declared] <;> rintro rfl <;> constructor

/-! ## 1. `_check_spec` after `_prep_schema_specification` decides conformance -/

mutual
/-- **C22 (value check).** For every specification `s` and every value `v` (frames rectangular):
`_check_spec(_prep_schema_specification(s), v)` returns no message **iff** `v` conforms to `s`. -/
theorem C22_check_iff (s : Spec T) (v : Value T) (hv : v.WF) :
    checkSpec (normalize s) v = none ↔ Conforms s v := by
  match s with
  | .atom a =>
    cases a with
    | none => simp [normalize, normalizeAtom, checkSpec]; exact .unconstrained v
    | ty t =>
      simp only [normalize, normalizeAtom, checkSpec, isinstance]
      constructor
      · intro h
        refine .single (.ty t) ?_
        unfold HasType
        by_cases hs : U.sub (typeOf v) t = true
        · exact hs
        · simp [hs] at h
      · rintro (_ | ⟨hd, ht⟩)
        cases hd; unfold HasType at ht; simp [ht]
    | exampleOf t =>
      simp only [normalize, normalizeAtom, checkSpec, isinstance]
      constructor
      · intro h
        refine .single (.exampleOf t) ?_
        unfold HasType
        by_cases hs : U.sub (typeOf v) t = true
        · exact hs
        · simp [hs] at h
      · rintro (_ | ⟨hd, ht⟩)
        cases hd; unfold HasType at ht; simp [ht]
  | .oneOf ms =>
    simp only [normalize, checkSpec, isinstance]
    constructor
    · intro h
      have hany : (normalizeSet ms).any (fun t => U.sub (typeOf v) t) = true := by
        by_cases hs : (normalizeSet ms).any (fun t => U.sub (typeOf v) t) = true
        · exact hs
        · simp [hs] at h
      obtain ⟨t, ht, hsub⟩ := List.any_eq_true.mp hany
      obtain ⟨a, ha, hd⟩ := mem_normalizeSet.mp ht
      exact .oneOf ha (declares_iff.mpr hd) hsub
    · intro hc
      cases hc with
      | @oneOf _ a t _ ha hd ht =>
        have hany : (normalizeSet ms).any (fun t => U.sub (typeOf v) t) = true :=
          List.any_eq_true.mpr ⟨t, mem_normalizeSet.mpr ⟨a, ha, declares_iff.mp hd⟩, ht⟩
        simp [hany]
  | .frame cols =>
    cases v with
    | scalar x =>
      simp only [normalize, checkSpec]
      constructor
      · intro h; cases h
      · intro h; cases h
    | frame f =>
      have ih := C22_cols_iff cols f hv
      simp only [normalize, checkSpec]
      constructor
      · intro h
        have hnil : checkCols (normalizeCols cols) f = [] := by
          cases hcc : checkCols (normalizeCols cols) f with
          | nil => rfl
          | cons i is => simp [hcc] at h
        have := ih.mp hnil
        exact .frame (fun c s hm => (this c s hm).1) (fun c s cells x hm hc hx hn => (this c s hm).2 cells x hc hx hn)
      · intro hc
        cases hc with
        | frame h1 h2 =>
          have hnil : checkCols (normalizeCols cols) f = [] :=
            ih.mpr (fun c s hm => ⟨h1 c s hm, fun cells x hc hx hn => h2 c s cells x hm hc hx hn⟩)
          simp [hnil]
/-- the column loop: no issue iff every declared column is present and all its non-null cells conform -/
theorem C22_cols_iff (cols : List (String × Spec T)) (f : Frame T) (hf : f.Rect) :
    checkCols (normalizeCols cols) f = [] ↔
      ∀ c s, (c, s) ∈ cols →
        (∃ cells, f.column c = some cells) ∧
        (∀ cells x, f.column c = some cells → x ∈ cells → x.isNull = false → Conforms s (.scalar x)) := by
  match cols with
  | [] => simp [normalizeCols, checkCols]
  | (c, s) :: rest =>
    have ih := C22_cols_iff rest f hf
    have ihs : ∀ x : Scalar T, checkSpec (normalize s) (.scalar x) = none ↔ Conforms s (.scalar x) :=
      fun x => C22_check_iff s (.scalar x) trivial
    simp only [normalizeCols, checkCols, List.append_eq_nil_iff, ih, columnIssues_nil _ _ f hf,
      List.mem_cons, Prod.mk.injEq]
    constructor
    · rintro ⟨⟨cells, hc, hcells⟩, hrest⟩ c' s' (⟨rfl, rfl⟩ | hm)
      · refine ⟨⟨cells, hc⟩, ?_⟩
        intro cells' x hc' hx hn
        rw [hc] at hc'; cases hc'
        by_cases hu : (normalize s').isNone = true
        · exact (ihs x).mp (checkSpec_of_isNone hu _)
        · have := hcells (by simpa using hu) x hx hn
          apply (ihs x).mp
          cases hcs : checkSpec (normalize s') (Value.scalar x) <;> simp_all
      · exact hrest c' s' hm
    · intro h
      refine ⟨?_, fun c' s' hm => h c' s' (Or.inr hm)⟩
      obtain ⟨⟨cells, hc⟩, hall⟩ := h c s (Or.inl ⟨rfl, rfl⟩)
      refine ⟨cells, hc, fun _ x hx hn => ?_⟩
      have := (ihs x).mpr (hall cells x hc hx hn)
      simp [this]
end

/-! ## 2. `check_args` raises exactly when a declared argument is missing or does not conform -/

/-- The value the call `f(*args, **kwargs)` passes for the name `k`, for a function whose first `npos`
parameters can be filled positionally (positional-only and positional-or-keyword parameters; `names` lists all
parameters in signature order): the positional argument at `k`'s position if there is one, else the keyword
argument `k`.  Positional arguments beyond `npos` go to `*args` and are passed for no name. -/
def passed (names : List String) (npos : Nat) (args : List (Value T)) (kwargs : List (String × Value T))
    (k : String) : Option (Value T) :=
  match ((names.take npos).zip args).lookup k with
  | some v => some v
  | none => kwargs.lookup k

/-- A schema violation of the call with respect to the declared argument specifications `A`: some declared
argument is not passed, or is passed a value that does not conform. -/
def ArgViolation (A : List (String × Spec T)) (names : List String) (npos : Nat) (args : List (Value T))
    (kwargs : List (String × Value T)) : Prop :=
  ∃ k s, (k, s) ∈ A ∧
    (passed names npos args kwargs k = none ∨ ∃ v, passed names npos args kwargs k = some v ∧ ¬ Conforms s v)

/-- Representation invariants of a call: parameter names are distinct and `npos` of them are positional, the
keys of the `arg_specs` dict are distinct, frames are rectangular. (All are guaranteed by Python.) -/
structure CallWF (A : List (String × Spec T)) (names : List String) (npos : Nat) (args : List (Value T))
    (kwargs : List (String × Value T)) : Prop where
  names_nodup : names.Nodup
  npos_le : npos ≤ names.length
  specs_nodup : (A.map Prod.fst).Nodup
  args_wf : ∀ v ∈ args, v.WF
  kwargs_wf : ∀ p ∈ kwargs, p.2.WF

/-- Finding guard `G1` (known finding `C22-positional-by-index`): no positional argument lands in `*args`
(in particular the function is not called with more positional arguments than it has positional parameters). -/
def G1 (npos : Nat) (args : List (Value T)) : Prop := args.length ≤ npos

instance (npos : Nat) (args : List (Value T)) : Decidable (G1 npos args) := by unfold G1; infer_instance

theorem argIssues_nil_iff (A : List (String × Spec T)) (names : List String) (npos : Nat)
    (args : List (Value T)) (kwargs : List (String × Value T))
    (wf : CallWF A names npos args kwargs) (g1 : G1 npos args) :
    argIssues (normalizeCols A) names args kwargs = .ok [] ↔ ¬ ArgViolation A names npos args kwargs := by
  have hlen : args.length ≤ names.length := Nat.le_trans g1 wf.npos_le
  have hzip : (names.take npos).zip args = names.zip args := take_zip_eq names args npos g1
  have hzn : ((names.zip args).map Prod.fst).Nodup := zip_fst_nodup wf.names_nodup args
  have hpassed : ∀ k, passed names npos args kwargs k =
      match (names.zip args).lookup k with | some v => some v | none => kwargs.lookup k := by
    intro k; unfold passed; rw [hzip]
  have hseen : ∀ k, k ∈ names.take args.length ↔ (names.zip args).lookup k ≠ none := by
    intro k
    rw [← zip_fst_eq_take names args hlen, Ne, lookup_none_iff, Classical.not_not]
  have hwf : ∀ k v, passed names npos args kwargs k = some v → v.WF := by
    intro k v hp
    rw [hpassed] at hp
    cases hl : (names.zip args).lookup k with
    | some v' =>
      rw [hl] at hp; cases hp
      exact wf.args_wf v (List.of_mem_zip (lookup_some_mem hl)).2
    | none =>
      rw [hl] at hp
      exact wf.kwargs_wf _ (lookup_some_mem hp)
  have hnl : ¬ names.length < args.length := by omega
  unfold argIssues
  simp only [hnl, if_false, Except.ok.injEq, List.append_eq_nil_iff, posIssues_nil, kwIssues_nil]
  unfold ArgViolation
  constructor
  · rintro ⟨hpos, hkw⟩ ⟨k, s, hm, hviol⟩
    have hmem : (k, normalize s) ∈ normalizeCols A := mem_normalizeCols.mpr ⟨s, hm, rfl⟩
    have hlook : (normalizeCols A).lookup k = some (normalize s) :=
      lookup_of_mem_nodup (by rw [normalizeCols_fst]; exact wf.specs_nodup) hmem
    cases hl : (names.zip args).lookup k with
    | some v =>
      have hp : passed names npos args kwargs k = some v := by rw [hpassed, hl]
      have hc := hpos k v (lookup_some_mem hl) _ hlook
      have hconf := (C22_check_iff s v (hwf k v hp)).mp hc
      rcases hviol with h | ⟨v', h, hn⟩
      · rw [hp] at h; cases h
      · rw [hp] at h; cases h; exact hn hconf
    | none =>
      have hns : k ∉ names.take args.length := by rw [hseen]; simp [hl]
      obtain ⟨v, hv, hc⟩ := hkw k _ hmem hns
      have hp : passed names npos args kwargs k = some v := by rw [hpassed, hl]; exact hv
      have hconf := (C22_check_iff s v (hwf k v hp)).mp hc
      rcases hviol with h | ⟨v', h, hn⟩
      · rw [hp] at h; cases h
      · rw [hp] at h; cases h; exact hn hconf
  · intro hno
    have good : ∀ k s, (k, s) ∈ A → ∃ v, passed names npos args kwargs k = some v ∧ Conforms s v := by
      intro k s hm
      cases hp : passed names npos args kwargs k with
      | none => exact absurd ⟨k, s, hm, Or.inl hp⟩ hno
      | some v =>
        refine ⟨v, rfl, ?_⟩
        apply Classical.byContradiction
        intro hn
        exact hno ⟨k, s, hm, Or.inr ⟨v, hp, hn⟩⟩
    constructor
    · intro k v hkv ns hlook
      obtain ⟨s, hm, rfl⟩ := mem_normalizeCols.mp (lookup_some_mem hlook)
      obtain ⟨v', hp, hconf⟩ := good k s hm
      have hl : (names.zip args).lookup k = some v := lookup_of_mem_nodup hzn hkv
      rw [hpassed, hl] at hp; cases hp
      exact (C22_check_iff s v (wf.args_wf v (List.of_mem_zip hkv).2)).mpr hconf
    · intro k ns hmem hns
      obtain ⟨s, hm, rfl⟩ := mem_normalizeCols.mp hmem
      obtain ⟨v, hp, hconf⟩ := good k s hm
      have hl : (names.zip args).lookup k = none := by
        exact Classical.not_not.mp ((not_congr (hseen k)).mp hns)
      have hp' := hp
      rw [hpassed, hl] at hp'
      exact ⟨v, hp', (C22_check_iff s v (hwf k v hp)).mpr hconf⟩

/-
Full-strength statement of the property for `check_args` (no guard):

    ∀ A names npos args kwargs, CallWF A names npos args kwargs →
      (checkArgs true (some (normalizeCols A)) names args kwargs = .error .typeError
         ↔ ArgViolation A names npos args kwargs) ∧
      (checkArgs true (some (normalizeCols A)) names args kwargs = .ok ()
         ↔ ¬ ArgViolation A names npos args kwargs)

It is FALSE for the code as it is (`C22_G1_necessary` below): `check_args` matches `args[i]` with
`arg_names[i]` for every `i`, also when `arg_names[i]` is a `*args`, keyword-only or `**kwargs` parameter, and
raises IndexError when there are more positional arguments than parameter names.  What is missing is exactly
the guard `G1 npos args`.
-/

/-- **C22 (arguments; partial, guard G1).** With checking on and no positional argument landing in `*args`:
`check_args` raises TypeError **iff** some declared argument is missing or is passed a non-conforming value;
otherwise it returns normally (in particular it raises nothing else). -/
theorem C22_args_iff_partial (A : List (String × Spec T)) (names : List String) (npos : Nat)
    (args : List (Value T)) (kwargs : List (String × Value T))
    (wf : CallWF A names npos args kwargs) (g1 : G1 npos args) :
    (checkArgs true (some (normalizeCols A)) names args kwargs = .error .typeError
        ↔ ArgViolation A names npos args kwargs) ∧
    (checkArgs true (some (normalizeCols A)) names args kwargs = .ok ()
        ↔ ¬ ArgViolation A names npos args kwargs) := by
  have key := argIssues_nil_iff A names npos args kwargs wf g1
  have hnl : ¬ names.length < args.length := by
    have := Nat.le_trans g1 wf.npos_le; omega
  unfold checkArgs
  simp only [Bool.not_true, Bool.false_eq_true, if_false]
  cases hi : argIssues (normalizeCols A) names args kwargs with
  | error e => simp [argIssues, hnl] at hi
  | ok l =>
    cases l with
    | nil =>
      have := key.mp hi
      simp [this]
    | cons i is =>
      have : ArgViolation A names npos args kwargs := by
        apply Classical.byContradiction
        intro hn
        have := key.mpr hn
        rw [hi] at this; cases this
      simp [this]

/-- **The guard G1 is necessary** (known finding `C22-positional-by-index`), on the concrete universe:
the full-strength statement fails in both ways.
(a) `def f(a, *rest)` declared `{a: int}`, called `f(1, 2, 3)`: no violation, but `check_args` raises
IndexError.  (b) `def f(a, *rest, b)` declared `{a: int, b: int}`, called `f(1, 2, "x", b=4)`: no violation
(`b` is passed the int 4), but `check_args` raises TypeError because it reads `"x"` as `b`. -/
theorem C22_G1_necessary :
    ¬ (∀ (A : List (String × Spec PyType)) (names : List String) (npos : Nat) (args : List (Value PyType))
        (kwargs : List (String × Value PyType)), CallWF A names npos args kwargs →
        ((checkArgs true (some (normalizeCols A)) names args kwargs = .error .typeError
            ↔ ArgViolation A names npos args kwargs) ∧
         (checkArgs true (some (normalizeCols A)) names args kwargs = .ok ()
            ↔ ¬ ArgViolation A names npos args kwargs))) := by
  intro h
  let i : Value PyType := .scalar ⟨.int, false⟩
  let A : List (String × Spec PyType) := [("a", .atom (.ty .int))]
  have wf : CallWF A ["a", "rest"] 1 [i, i, i] [] :=
    ⟨by decide, by decide, by decide, by intro v _; cases v <;> simp_all [Value.WF, i], by simp⟩
  have h2 := (h A ["a", "rest"] 1 [i, i, i] [] wf).2
  have hnov : ¬ ArgViolation A ["a", "rest"] 1 [i, i, i] [] := by
    rintro ⟨k, s, hm, hv⟩
    simp only [A, List.mem_singleton, Prod.mk.injEq] at hm
    obtain ⟨rfl, rfl⟩ := hm
    have hp : passed ["a", "rest"] 1 [i, i, i] [] "a" = some i := by decide
    rcases hv with hv | ⟨v, hv, hn⟩
    · rw [hp] at hv; cases hv
    · rw [hp] at hv; cases hv
      exact hn (Conforms.single (Declares.ty PyType.int) (by decide))
  have := h2.mpr hnov
  revert this
  decide

/-- (b) of `C22_G1_necessary` as a separate fact: the mis-binding of a keyword-only parameter. -/
theorem C22_G1_necessary_misbinding :
    let i : Value PyType := .scalar ⟨.int, false⟩
    let x : Value PyType := .scalar ⟨.str, false⟩
    let A : List (String × Spec PyType) := [("a", .atom (.ty .int)), ("b", .atom (.ty .int))]
    checkArgs true (some (normalizeCols A)) ["a", "rest", "b"] [i, i, x] [("b", i)] = .error .typeError ∧
    ¬ ArgViolation A ["a", "rest", "b"] 1 [i, i, x] [("b", i)] := by
  intro i x A
  refine ⟨by decide, ?_⟩
  rintro ⟨k, s, hm, hv⟩
  simp only [A, List.mem_cons, Prod.mk.injEq, List.not_mem_nil, or_false] at hm
  rcases hm with ⟨rfl, rfl⟩ | ⟨rfl, rfl⟩
  · have hp : passed ["a", "rest", "b"] 1 [i, i, x] [("b", i)] "a" = some i := by decide
    rcases hv with hv | ⟨v, hv, hn⟩
    · rw [hp] at hv; cases hv
    · rw [hp] at hv; cases hv
      exact hn (Conforms.single (Declares.ty PyType.int) (by decide))
  · have hp : passed ["a", "rest", "b"] 1 [i, i, x] [("b", i)] "b" = some i := by decide
    rcases hv with hv | ⟨v, hv, hn⟩
    · rw [hp] at hv; cases hv
    · rw [hp] at hv; cases hv
      exact hn (Conforms.single (Declares.ty PyType.int) (by decide))

/-! ## 3. The wrapper: raises exactly on violations, otherwise transparent -/

/-- what the undecorated function does: its own outcome and the switch state it leaves -/
def own {E : Type} (f : PyFn T E) (sw : Bool) (args : List (Value T)) (kwargs : List (String × Value T)) :
    Outcome T E × Bool :=
  match f sw args kwargs with
  | (.error e, sw') => (.ownRaise e, sw')
  | (.ok r, sw') => (.returned r, sw')

/-- **C22 (wrapper raises exactly on violations; partial, guard G1).**  For a decorator built from argument
specifications `A` and return specification `R`, any wrapped function `f`, and a call inside G1:
* the call ends in the `check_args` TypeError **iff** checking is on and the call has an argument violation;
* it ends in the `check_return` TypeError **iff** there is no such argument error, the function returned a
  value `r`, checking is on after the function ran, and `r` does not conform to `R`;
* nothing else escapes the checker (no internal error). -/
theorem C22_raises_iff_partial {E : Type} (A : List (String × Spec T)) (R : Spec T) (names : List String)
    (npos : Nat) (f : PyFn T E) (sw : Bool) (args : List (Value T)) (kwargs : List (String × Value T))
    (wf : CallWF A names npos args kwargs) (g1 : G1 npos args)
    (hret : ∀ r sw', f sw args kwargs = (.ok r, sw') → r.WF) :
    let out := (wrapped (mkSchema (some A) R) names f sw args kwargs).1
    (out = .argsError ↔ (sw = true ∧ ArgViolation A names npos args kwargs)) ∧
    (out = .returnError ↔
        (¬ (sw = true ∧ ArgViolation A names npos args kwargs) ∧
         ∃ r sw', f sw args kwargs = (.ok r, sw') ∧ sw' = true ∧ ¬ Conforms R r)) ∧
    (∀ e, out ≠ .internalError e) := by
  intro out
  have hargs := C22_args_iff_partial A names npos args kwargs wf g1
  have hca1 : sw = true ∧ ArgViolation A names npos args kwargs →
      checkArgs sw (some (normalizeCols A)) names args kwargs = .error .typeError := by
    rintro ⟨rfl, hv⟩; exact hargs.1.mpr hv
  have hca2 : ¬ (sw = true ∧ ArgViolation A names npos args kwargs) →
      checkArgs sw (some (normalizeCols A)) names args kwargs = .ok () := by
    intro hn
    cases sw with
    | false => simp [checkArgs]
    | true => exact hargs.2.mpr (fun hv => hn ⟨rfl, hv⟩)
  have hout : out = (wrapped (mkSchema (some A) R) names f sw args kwargs).1 := rfl
  unfold wrapped mkSchema at hout
  simp only [Option.map_some] at hout
  by_cases hv : sw = true ∧ ArgViolation A names npos args kwargs
  · rw [hca1 hv] at hout
    simp only at hout
    simp [hout, hv]
  · rw [hca2 hv] at hout
    simp only at hout
    rcases hf : f sw args kwargs with ⟨res, sw'⟩
    rw [hf] at hout
    cases res with
    | error e => simp at hout; simp [hout, hv]
    | ok r =>
      have hr : r.WF := hret r sw' hf
      have hc := C22_check_iff R r hr
      simp only at hout
      cases hsw : sw' with
      | false =>
        simp [checkReturn, hsw] at hout
        simp [hout, hv]
      | true =>
        by_cases hconf : Conforms R r
        · have := hc.mpr hconf
          simp [checkReturn, hsw, this] at hout
          simp [hout, hv, hconf]
        · have hne : checkSpec (normalize R) r ≠ none := fun h => hconf (hc.mp h)
          cases hcs : checkSpec (normalize R) r with
          | none => exact absurd hcs hne
          | some m =>
            simp [checkReturn, hsw, hcs] at hout
            simp [hout, hv, hconf]

/-- **C22 (transparency).**  Whenever the wrapped call does not end in one of the checker's own exceptions, it
ends exactly as the undecorated function does on the same `*args, **kwargs`: the same return value (the very
object – nothing is copied or converted), or the same exception, and the same final switch state.  No
hypothesis at all: this holds for every call, inside or outside G1. -/
theorem C22_transparent {E : Type} (sc : Schema T) (names : List String) (f : PyFn T E) (sw : Bool)
    (args : List (Value T)) (kwargs : List (String × Value T)) :
    let w := wrapped sc names f sw args kwargs
    w.1 = .argsError ∨ w.1 = .returnError ∨ (∃ e, w.1 = .internalError e) ∨ w = own f sw args kwargs := by
  intro w
  have hw : w = wrapped sc names f sw args kwargs := rfl
  unfold wrapped at hw
  cases hca : checkArgs sw sc.argSpecs names args kwargs with
  | error e =>
    rw [hca] at hw
    cases e with
    | typeError => left; rw [hw]
    | indexError => right; right; left; exact ⟨.indexError, by rw [hw]⟩
  | ok u =>
    rw [hca] at hw
    rcases hf : f sw args kwargs with ⟨res, sw'⟩
    rw [hf] at hw
    cases res with
    | error e => right; right; right; rw [hw]; simp [own, hf]
    | ok r =>
      simp only at hw
      cases hcr : checkReturn sw' sc.returnSpec r with
      | error e => right; left; rw [hw, hcr]
      | ok u => right; right; right; rw [hw, hcr]; simp [own, hf]

/-- **C22 (no violation ⇒ own result; partial, guard G1).**  If the call has no argument violation (or checking
is off) and the function's return value conforms (or checking is off afterwards, or the function raises), the
wrapped call is indistinguishable from the undecorated one. -/
theorem C22_no_violation_partial {E : Type} (A : List (String × Spec T)) (R : Spec T) (names : List String)
    (npos : Nat) (f : PyFn T E) (sw : Bool) (args : List (Value T)) (kwargs : List (String × Value T))
    (wf : CallWF A names npos args kwargs) (g1 : G1 npos args)
    (hret : ∀ r sw', f sw args kwargs = (.ok r, sw') → r.WF)
    (hargs : ¬ (sw = true ∧ ArgViolation A names npos args kwargs))
    (hres : ∀ r sw', f sw args kwargs = (.ok r, sw') → sw' = true → Conforms R r) :
    wrapped (mkSchema (some A) R) names f sw args kwargs = own f sw args kwargs := by
  have h := C22_raises_iff_partial A R names npos f sw args kwargs wf g1 hret
  have ht := C22_transparent (mkSchema (some A) R) names f sw args kwargs
  simp only at h ht
  rcases ht with h1 | h1 | ⟨e, h1⟩ | h1
  · exact absurd (h.1.mp h1) hargs
  · obtain ⟨_, r, sw', hf, hs, hn⟩ := h.2.1.mp h1
    exact absurd (hres r sw' hf hs) hn
  · exact absurd h1 (h.2.2 e)
  · exact h1

/-- **C22 (switch off).**  With checking switched off (before the call, and still off when the function
returns) the wrapped call never raises for schema reasons – nor for any other reason of the checker's: it is
exactly the undecorated call.  No hypothesis on specifications, signature or arguments. -/
theorem C22_switch_off {E : Type} (sc : Schema T) (names : List String) (f : PyFn T E)
    (args : List (Value T)) (kwargs : List (String × Value T))
    (hoff : (f false args kwargs).2 = false) :
    wrapped sc names f false args kwargs = own f false args kwargs := by
  unfold wrapped own
  rcases hf : f false args kwargs with ⟨res, sw'⟩
  rw [hf] at hoff
  simp only at hoff
  subst hoff
  cases res <;> simp [checkArgs, checkReturn]

/-- The switch is read at check time: off before the call ⇒ no argument error and no internal error,
whatever the function then does to the switch; off after the call ⇒ no return-value error. -/
theorem C22_switch_read_at_check_time {E : Type} (sc : Schema T) (names : List String) (f : PyFn T E)
    (sw : Bool) (args : List (Value T)) (kwargs : List (String × Value T)) :
    let w := wrapped sc names f sw args kwargs
    (sw = false → w.1 ≠ .argsError ∧ ∀ e, w.1 ≠ .internalError e) ∧
    (w.2 = false → w.1 ≠ .returnError) := by
  intro w
  have hw : w = wrapped sc names f sw args kwargs := rfl
  unfold wrapped at hw
  constructor
  · rintro rfl
    simp only [checkArgs, Bool.not_false, if_true] at hw
    rcases hf : f false args kwargs with ⟨res, sw'⟩
    rw [hf] at hw
    cases res with
    | error e => simp [hw]
    | ok r => cases hcr : checkReturn sw' sc.returnSpec r <;> simp [hw, hcr]
  · intro h2
    cases hca : checkArgs sw sc.argSpecs names args kwargs with
    | error e => rw [hca] at hw; cases e <;> simp [hw]
    | ok u =>
      rw [hca] at hw
      rcases hf : f sw args kwargs with ⟨res, sw'⟩
      rw [hf] at hw
      cases res with
      | error e => simp [hw]
      | ok r =>
        simp only at hw
        cases hsw : sw' with
        | false => simp [hw, checkReturn, hsw]
        | true =>
          cases hcr : checkReturn true sc.returnSpec r with
          | ok u => simp [hw, hsw, hcr]
          | error e => rw [hsw, hcr] at hw; rw [hw] at h2; simp at h2

/-- **C22 (no argument declarations).**  A decorator built with `arg_specs=None` (the constructor's default)
never raises from `check_args` (fix `C22-schema-none-arg-specs`; the unrepaired code raised AttributeError). -/
theorem C22_no_arg_specs (sw : Bool) (names : List String) (args : List (Value T))
    (kwargs : List (String × Value T)) :
    checkArgs sw (mkSchema (T := T) none (.atom .none)).argSpecs names args kwargs = .ok () := by
  cases sw <;> simp [checkArgs, mkSchema]

/-- **C22 (SchemaMock).**  The mock decorator returns the function itself. -/
theorem C22_mock {E : Type} (sc : Schema T) (f : PyFn T E) (sw : Bool) (args : List (Value T))
    (kwargs : List (String × Value T)) : mockWrapped sc f sw args kwargs = own f sw args kwargs := rfl

/-! ## 4. Example values declare their own types -/

/-- read an example value as the class it declares -/
def Atom.asType : Atom T → Atom T
  | .exampleOf t => .ty t
  | a => a

/-- **C22 (example values).**
(1) Alone: `_prep_schema_specification(example)` is the example's class.
(2) Inside a set: normalisation gives the same set of classes as when every example value is replaced by its
    class – in any position, next to classes, other examples and `None`s.
(3) So the check accepts exactly the instances of the declared classes; in particular (for a reflexive
    `issubclass`) every value conforms to itself used as an example, alone or inside any set.
(Fix `C22-schema-set-normalization`; on the unrepaired code (2) fails: the raw members stay in the set.) -/
theorem C22_examples :
    (∀ t : T, normalize (.atom (.exampleOf t)) = .ty t) ∧
    (∀ ms : List (Atom T), normalize (.oneOf ms) = normalize (.oneOf (ms.map Atom.asType))) ∧
    (∀ (ms : List (Atom T)) (v : Value T), checkSpec (normalize (.oneOf ms)) v = none ↔
        ∃ a ∈ ms, ∃ t, Declares a t ∧ HasType v t) ∧
    (∀ (x : Scalar T), U.sub x.ty x.ty = true →
        checkSpec (normalize (.atom (.exampleOf x.ty))) (.scalar x) = none ∧
        ∀ ms : List (Atom T), Atom.exampleOf x.ty ∈ ms → checkSpec (normalize (.oneOf ms)) (.scalar x) = none) := by
  have h3 : ∀ (ms : List (Atom T)) (v : Value T), checkSpec (normalize (.oneOf ms)) v = none ↔
      ∃ a ∈ ms, ∃ t, Declares a t ∧ HasType v t := by
    intro ms v
    -- the set case of the check does not look inside frames: no well-formedness needed
    simp only [normalize, checkSpec, isinstance]
    constructor
    · intro h
      have hany : (normalizeSet ms).any (fun t => U.sub (typeOf v) t) = true := by
        by_cases hs : (normalizeSet ms).any (fun t => U.sub (typeOf v) t) = true
        · exact hs
        · simp [hs] at h
      obtain ⟨t, ht, hsub⟩ := List.any_eq_true.mp hany
      obtain ⟨a, ha, hd⟩ := mem_normalizeSet.mp ht
      exact ⟨a, ha, t, declares_iff.mpr hd, hsub⟩
    · rintro ⟨a, ha, t, hd, ht⟩
      have hany : (normalizeSet ms).any (fun t => U.sub (typeOf v) t) = true :=
        List.any_eq_true.mpr ⟨t, mem_normalizeSet.mpr ⟨a, ha, declares_iff.mp hd⟩, ht⟩
      simp [hany]
  refine ⟨fun t => rfl, ?_, h3, ?_⟩
  · intro ms
    simp only [normalize, normalizeSet]
    congr 2
    induction ms with
    | nil => rfl
    | cons a ms ih => cases a <;> simp [List.filterMap_cons, Atom.declared, Atom.asType, ih]
  · intro x hx
    refine ⟨by simp [normalize, normalizeAtom, checkSpec, isinstance, typeOf, hx], fun ms hm => ?_⟩
    exact (h3 ms (.scalar x)).mpr ⟨_, hm, x.ty, .exampleOf _, hx⟩

/-- the concrete universe's `issubclass` is reflexive and transitive, and `bool ≤ int` -/
theorem C22_pytype_sub : (∀ a : PyType, PyType.sub a a = true) ∧
    (∀ a b c : PyType, PyType.sub a b = true → PyType.sub b c = true → PyType.sub a c = true) ∧
    PyType.sub .bool .int = true ∧ PyType.sub .int .bool = false := by
  refine ⟨fun a => by cases a <;> rfl, ?_, by decide, by decide⟩
  intro a b c
  cases a <;> cases b <;> cases c <;> decide

/-! ## Non-vacuity: the hypotheses are satisfiable on concrete, non-trivial instances -/

section Examples
open PyType

private def iv : Value PyType := .scalar ⟨.int, false⟩
private def bv : Value PyType := .scalar ⟨.bool, false⟩
private def nonev : Value PyType := .scalar ⟨.noneType, true⟩
private def fr : Value PyType :=
  .frame ⟨.pandas, 2, [("x", [⟨.int, false⟩, ⟨.noneType, true⟩]), ("y", [⟨.str, false⟩, ⟨.float, true⟩])]⟩
private def Aex : List (String × Spec PyType) :=
  [("a", .atom (.ty .int)), ("d", .frame [("x", .oneOf [.exampleOf .bool, .ty .int]), ("y", .atom (.exampleOf .str))])]

/-- `CallWF` and `G1` hold for `def f(a, b, *, d)` called as `f(1, True, d=frame)` -/
example : CallWF Aex ["a", "b", "d"] 2 [iv, bv] [("d", fr)] ∧ G1 2 [iv, bv] :=
  ⟨⟨by decide, by decide, by decide, by decide, by decide⟩, by decide⟩
example : fr.WF := by decide
example : checkArgs true (some (normalizeCols Aex)) ["a", "b", "d"] [iv, bv] [("d", fr)] = .ok () := by decide
-- a None argument is not exempt; a missing declared argument is reported
example : checkArgs true (some (normalizeCols Aex)) ["a", "b", "d"] [nonev, bv] [("d", fr)] = .error .typeError := by
  decide
example : checkArgs true (some (normalizeCols Aex)) ["a", "b", "d"] [iv, bv] [] = .error .typeError := by decide
-- null cells are exempt, a non-null cell of a wrong class is not
example : checkSpec (normalize (.frame [("y", .atom (.ty PyType.str))])) fr = none := by decide
example : checkSpec (normalize (.frame [("y", .atom (.ty PyType.float))])) fr = some (.columns [.badCell "y"]) := by
  decide
-- a violation exists for a concrete call (ArgViolation is inhabited) and is absent for another
example : ArgViolation Aex ["a", "b", "d"] 2 [iv, bv] [] :=
  ⟨"d", .frame [("x", .oneOf [.exampleOf .bool, .ty .int]), ("y", .atom (.exampleOf .str))], by simp [Aex],
    Or.inl (by decide)⟩
-- switch off: the hypothesis of C22_switch_off is satisfiable by a function returning a non-conforming value
example : (wrapped (mkSchema (some Aex) (.atom (.ty .str))) ["a"] (fun sw _ _ => ((.ok iv : Except Unit _), sw))
    false [nonev] []).1 = .returned iv := by decide
example : (wrapped (mkSchema (some Aex) (.atom (.ty .str))) ["a", "b", "d"]
    (fun sw _ _ => ((.ok iv : Except Unit _), sw)) true [iv, bv] [("d", fr)]).1 = .returnError := by decide
end Examples

end DAVerif.Schema
