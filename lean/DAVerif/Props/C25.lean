import DAVerif.Proofs.EvalCache
/-!
# C25 — The evaluation result cache is transparent

Property theorems only (model: `Space/EvalCache.lean`, lemmas: `Proofs/EvalCache.lean`).

> For every sequence of stores and lookups, a lookup succeeds only for a key built from the same dialect,
> SQL text and equal data tables as a stored entry, and it returns a copy equal to the stored result.
> Changing the returned copy never changes the cache.  Data maps that differ in any value, column name,
> shape or row order never share a key.

Assumption (NOT a theorem, it is a hypothesis of every statement that mentions digests): SHA-256 over
`pandas.util.hash_pandas_object` is collision-free on what it is fed – `hsha` / `hinj` below.
-/
namespace DAVerif.EvalCache

/-! ## 1. The f-string key cannot alias -/

/-- **key_encoding_injective.** The text `f"{d.shape}_{list(d.columns)}_{hash_str}"` determines the shape,
the list of column names and the digest – for *all* column names (underscores, quotes, commas, brackets,
backslashes, control and non-printable characters; `np` is any "not printable" predicate) and all digest
strings.  So two frames get the same `hash_data_frame` text only if all three components agree. -/
theorem key_encoding_injective (np : Char → Bool) (r c r' c' : Nat) (names names' : List Str)
    (dg dg' : Str) (h : hashDataFrame np r c names dg = hashDataFrame np r' c' names' dg') :
    r = r' ∧ c = c' ∧ names = names' ∧ dg = dg' := by
  unfold hashDataFrame at h
  obtain ⟨hr, hc, h⟩ := renderShape_unique r c r' c' _ _ h
  simp only [List.cons.injEq, true_and] at h
  obtain ⟨hn, h⟩ := pyReprList_unique np names names' _ _ h
  simp only [List.cons.injEq, true_and] at h
  exact ⟨hr, hc, hn, h⟩

/-! ## 2. Keys and data maps, for abstract frames

Specification side: a data map is a finite map from table names to frames; two data maps are *related by
`E`* when they bind the same names and the frames bound to each name are `E`-related. -/

def MapsRel {F : Type} (E : F → F → Prop) (m1 m2 : List (Str × F)) : Prop :=
  ∀ name, match m1.lookup name, m2.lookup name with
    | some a, some b => E a b
    | none, none => True
    | _, _ => False

/-- what the code can observe of a frame when hashing it: `d.shape`, `list(d.columns)`, the hex digest -/
structure FrameObs (F : Type) where
  shape : F → Nat × Nat
  names : F → List Str
  digest : F → Str

/-- `hash_data_frame` on an abstract frame -/
def hashOf {F : Type} (np : Char → Bool) (o : FrameObs F) (d : F) : Str :=
  hashDataFrame np (o.shape d).1 (o.shape d).2 (o.names d) (o.digest d)

/-- **C25_key_sound** (the direction the property claims). If the digest separates frames that are not
`E`-equal (hypothesis `hinj`: the collision-freeness assumption, for frames with the same shape and labels),
then equal cache keys mean: same dialect name, same SQL text, and `E`-equal data maps. -/
theorem C25_key_sound {F : Type} (np : Char → Bool) (o : FrameObs F) (E : F → F → Prop)
    (hinj : ∀ a b, o.shape a = o.shape b → o.names a = o.names b → o.digest a = o.digest b → E a b)
    (d1 s1 d2 s2 : Str) (m1 m2 : List (Str × F))
    (h : makeKey (hashOf np o) d1 s1 m1 = makeKey (hashOf np o) d2 s2 m2) :
    d1 = d2 ∧ s1 = s2 ∧ MapsRel E m1 m2 := by
  obtain ⟨hd, hs, hl⟩ := makeKey_sound _ d1 s1 d2 s2 m1 m2 h
  refine ⟨hd, hs, fun name => ?_⟩
  have := hl name
  cases h1 : m1.lookup name <;> cases h2 : m2.lookup name <;> simp only [h1, h2, Option.map] at this ⊢
  · cases this
  · cases this
  · rename_i a b
    simp only [Option.some.injEq] at this
    obtain ⟨hr, hc, hn, hdg⟩ := key_encoding_injective np _ _ _ _ _ _ _ _ this
    exact hinj a b (Prod.ext hr hc) hn hdg

/-- **C25_key_iff.** With a digest that is injective up to `E` (`hinj`) and respects `E` (`hresp`), and data
maps that are dicts (no repeated name): two calls build the same key **iff** dialect, SQL and data maps agree. -/
theorem C25_key_iff {F : Type} (np : Char → Bool) (o : FrameObs F) (E : F → F → Prop)
    (hinj : ∀ a b, o.shape a = o.shape b → o.names a = o.names b → o.digest a = o.digest b → E a b)
    (hresp : ∀ a b, E a b → o.shape a = o.shape b ∧ o.names a = o.names b ∧ o.digest a = o.digest b)
    (d1 s1 d2 s2 : Str) (m1 m2 : List (Str × F))
    (n1 : (m1.map Prod.fst).Nodup) (n2 : (m2.map Prod.fst).Nodup) :
    makeKey (hashOf np o) d1 s1 m1 = makeKey (hashOf np o) d2 s2 m2 ↔
      d1 = d2 ∧ s1 = s2 ∧ MapsRel E m1 m2 := by
  constructor
  · exact C25_key_sound np o E hinj d1 s1 d2 s2 m1 m2
  · rintro ⟨rfl, rfl, hm⟩
    apply makeKey_complete _ _ _ _ _ n1 n2
    intro name
    have := hm name
    cases h1 : m1.lookup name with
    | none =>
      cases h2 : m2.lookup name with
      | none => rfl
      | some b => simp [h1, h2] at this
    | some a =>
      cases h2 : m2.lookup name with
      | none => simp [h1, h2] at this
      | some b =>
        simp only [h1, h2] at this
        obtain ⟨hs, hn, hdg⟩ := hresp a b this
        simp [hashOf, hs, hn, hdg]

/-! ## 3. Keys and data maps, for concrete frames: what the real hash distinguishes

`hview` (model file) is what `hash_pandas_object` feeds into the digest.  The collision-freeness assumption
is `hsha : sha` injective on hash views.

Full-strength statement (what the property's last sentence asks for) – **false for the unchanged code**:

    ∀ sha injective, ∀ well-formed a b,  hashFrame np sha a = hashFrame np sha b → a = b

It fails in two ways, each confirmed on the real `hash_data_frame`:
* `G_C25_same_dtypes`: the dtype is not hashed – the int64 column `[1]` and the float64 column `[5e-324]`
  (bit pattern 1) share a key;
* `G_C25_obj_plain`: non-string cells of object columns are hashed as `str(cell)` – the object columns
  `[-1]` and `['-1']` share a key.
`C25_frame_key_partial` is the statement under these two guards; `C25_Gdtype_necessary` and
`C25_Gobj_necessary` show that neither guard can be dropped. -/

/-- **C25_frame_hash_partial.** Under the guards (same dtypes, no non-string object cells), for well-formed
frames and a collision-free digest: equal `hash_data_frame` strings mean *identical* frames – same shape,
column names, index, dtypes and every cell (so frames that differ in any value, column name, shape or row
order never share a hash). -/
theorem C25_frame_hash_partial (np : Char → Bool) (sha : List (List Atom) → Str)
    (hsha : ∀ x y, sha x = sha y → x = y) (a b : Frame)
    (wa : a.wf = true) (wb : b.wf = true) (pa : a.objPlain = true) (pb : b.objPlain = true)
    (hd : sameDtypes a b = true) (h : hashFrame np sha a = hashFrame np sha b) : a = b := by
  obtain ⟨hr, hc, hn, hdg⟩ := key_encoding_injective np _ _ _ _ _ _ _ _ h
  exact frame_eq_of_hview wa wb pa pb hd (Prod.ext hr hc) hn (hsha _ _ hdg)

/-- every frame bound in the data map satisfies `P` -/
def AllFrames (P : Frame → Prop) (m : List (Str × Frame)) : Prop := ∀ p ∈ m, P p.2

/-- **C25_frame_key_partial.** For data maps of well-formed frames inside the two guards: two calls build the
same cache key **iff** they name the same dialect, the same SQL text and bind every table name to the
identical frame. -/
theorem C25_frame_key_partial (np : Char → Bool) (sha : List (List Atom) → Str)
    (hsha : ∀ x y, sha x = sha y → x = y) (d1 s1 d2 s2 : Str) (m1 m2 : List (Str × Frame))
    (n1 : (m1.map Prod.fst).Nodup) (n2 : (m2.map Prod.fst).Nodup)
    (w1 : AllFrames (fun d => d.wf = true ∧ d.objPlain = true) m1)
    (w2 : AllFrames (fun d => d.wf = true ∧ d.objPlain = true) m2)
    (hd : ∀ name a b, m1.lookup name = some a → m2.lookup name = some b → sameDtypes a b = true) :
    makeKey (hashFrame np sha) d1 s1 m1 = makeKey (hashFrame np sha) d2 s2 m2 ↔
      d1 = d2 ∧ s1 = s2 ∧ ∀ name, m1.lookup name = m2.lookup name := by
  have mem_of_lookup : ∀ (m : List (Str × Frame)) (name : Str) (a : Frame), m.lookup name = some a →
      (name, a) ∈ m := by
    intro m name a
    induction m with
    | nil => simp
    | cons p m ih =>
      obtain ⟨k, v⟩ := p
      by_cases hk : name = k
      · subst hk; simp [List.lookup]; intro h; exact Or.inl h.symm
      · have hb : (name == k) = false := by simpa using hk
        simp only [List.lookup, hb]
        intro h; exact List.mem_cons_of_mem _ (ih h)
  constructor
  · intro h
    obtain ⟨hdl, hs, hl⟩ := makeKey_sound _ d1 s1 d2 s2 m1 m2 h
    refine ⟨hdl, hs, fun name => ?_⟩
    have := hl name
    cases h1 : m1.lookup name <;> cases h2 : m2.lookup name <;> simp only [h1, h2, Option.map] at this ⊢
    · cases this
    · cases this
    · rename_i a b
      simp only [Option.some.injEq] at this
      have ha := w1 _ (mem_of_lookup m1 name a h1)
      have hb := w2 _ (mem_of_lookup m2 name b h2)
      rw [C25_frame_hash_partial np sha hsha a b ha.1 hb.1 ha.2 hb.2 (hd name a b h1 h2) this]
  · rintro ⟨rfl, rfl, hl⟩
    exact makeKey_complete _ _ _ _ _ n1 n2 (fun name => by rw [hl name])

/-- witnesses for the dtype guard: an int64 column holding 1, a float64 column holding the bit pattern 1 -/
def wInt : Frame := { names := [['x']], cols := [.int64 [1]], index := [0] }
def wFlt : Frame := { names := [['x']], cols := [.float64 [1]], index := [0] }
/-- witnesses for the object guard: an object column holding the int -1 / the string "-1" -/
def wObjInt : Frame := { names := [['x']], cols := [.object [.int (-1)]], index := [0] }
def wObjStr : Frame := { names := [['x']], cols := [.object [.str ['-', '1']]], index := [0] }

/-- **C25_Gdtype_necessary.** Without `G_C25_same_dtypes` the statement fails whatever the digest function is:
two well-formed frames without object columns, different in dtype and value, with equal hash strings. -/
theorem C25_Gdtype_necessary :
    wInt.wf = true ∧ wFlt.wf = true ∧ wInt.objPlain = true ∧ wFlt.objPlain = true ∧ wInt ≠ wFlt ∧
    ∀ np sha, hashFrame np sha wInt = hashFrame np sha wFlt := by
  refine ⟨by decide, by decide, by decide, by decide, by decide, fun np sha => ?_⟩
  have : hview wInt = hview wFlt := by decide
  simp only [hashFrame, this]
  rfl

/-- **C25_Gobj_necessary.** Without `G_C25_obj_plain` the statement fails whatever the digest function is:
two well-formed frames with the *same* dtypes, different in a cell value, with equal hash strings. -/
theorem C25_Gobj_necessary :
    wObjInt.wf = true ∧ wObjStr.wf = true ∧ sameDtypes wObjInt wObjStr = true ∧ wObjInt ≠ wObjStr ∧
    ∀ np sha, hashFrame np sha wObjInt = hashFrame np sha wObjStr := by
  refine ⟨by decide, by decide, by decide, by decide, fun np sha => ?_⟩
  have h1 : decDigits 1 = ['1'] := by rw [decDigits]; decide
  have : hview wObjInt = hview wObjStr := by
    simp [hview, wObjInt, wObjStr, Column.atoms, OCell.atom, pyReprInt, h1]
  simp only [hashFrame, this]
  rfl

/-! ## 4. Store/get histories refine a map

Specification side (`Proofs/EvalCache.lean`): `abs s` is the finite map denoted by a cache state,
`specStore` is `store` on a plain map, `storeEvent` reads the `(key, content)` of a store call at call time.
Here: the trace of a history and the run of the plain map over it. -/

section Cache
variable {F K : Type} [DecidableEq K]

/-- the `(key, content of res at call time)` of every store call of the history whose assertions pass -/
def trace (hk : F → K) (eqv : F → F → Bool) (s : State F K) : List (Op F) → List (EvalKey K × F)
  | [] => []
  | op :: h => (storeEvent hk s op).toList ++ trace hk eqv (step hk eqv s op).1 h

/-- a plain map run over a list of store events -/
def specRun (eqv : F → F → Bool) (M : EvalKey K → Option F) (evs : List (EvalKey K × F)) : EvalKey K → Option F :=
  evs.foldl (fun M e => specStore eqv M e.1 e.2) M

/-- the value of the most recent store event with key `k` -/
def lastStored (evs : List (EvalKey K × F)) (k : EvalKey K) : Option F :=
  evs.foldl (fun acc e => if e.1 = k then some e.2 else acc) none

theorem refines_from (hk : F → K) (eqv : F → F → Bool) (h : List (Op F)) (s : State F K) (hs : Inv s) :
    abs (run hk eqv s h).1 = specRun eqv (abs s) (trace hk eqv s h) := by
  induction h generalizing s with
  | nil => rfl
  | cons op h ih =>
    simp only [run, trace]
    rw [ih _ (step_inv hk eqv s hs op)]
    unfold specRun
    rw [List.foldl_append]
    congr 1
    cases op with
    | store a res =>
      rw [abs_step_store hk eqv s hs a res]
      cases hev : storeEvent hk s (.store a res) with
      | none => rfl
      | some e => rfl
    | new v => rw [abs_step_nonstore hk eqv s hs _ (by intro a r h; cases h)]; rfl
    | mutate i v => rw [abs_step_nonstore hk eqv s hs _ (by intro a r h; cases h)]; rfl
    | get a => rw [abs_step_nonstore hk eqv s hs _ (by intro a r h; cases h)]; rfl
    | dataOff => rw [abs_step_nonstore hk eqv s hs _ (by intro a r h; cases h)]; rfl

/-- **C25_refines.** For every history of `new / mutate / store / get / dataOff` operations from the empty
cache, the map denoted by the final cache state is the plain map run over the history's store events
(key and content of `res` as they were at the time of each call). -/
theorem C25_refines (hk : F → K) (eqv : F → F → Bool) (h : List (Op F)) :
    abs (run hk eqv State.init h).1 = specRun eqv (fun _ => none) (trace hk eqv State.init h) :=
  refines_from hk eqv h State.init inv_init

/-- **C25_get_outcome.** In every reachable state, `get`
* raises AssertionError exactly when an argument is ill-typed, and KeyError exactly when the denoted map has
  no entry for the key built from the arguments' current contents – both without changing the state;
* otherwise returns a **fresh** object (an id no caller reference and no cache entry uses) whose content is
  the mapped value, and leaves the denoted map unchanged. -/
theorem C25_get_outcome (hk : F → K) (eqv : F → F → Bool) (h : List (Op F)) (a : Args) :
    let s := (run hk eqv State.init h).1
    match keyOf hk s.heap a with
    | none => step hk eqv s (.get a) = (s, .err .assertion)
    | some k =>
      match abs s k with
      | none => step hk eqv s (.get a) = (s, .err .key)
      | some v =>
        let r := step hk eqv s (.get a)
        r.2 = .obj s.heap.length ∧ r.1.heap[s.heap.length]? = some v ∧ abs r.1 = abs s ∧
        s.heap.length ∉ s.ext ∧ (∀ p ∈ s.result, p.2 ≠ s.heap.length) ∧
        (∀ dc, s.data = some dc → ∀ p ∈ dc, p.2 ≠ s.heap.length) := by
  intro s
  have hs : Inv s := run_inv hk eqv h State.init inv_init
  have hg := step_get hk eqv s a
  cases hkk : keyOf hk s.heap a with
  | none => simpa [hkk] using hg
  | some k =>
    cases hv : abs s k with
    | none => simpa [hkk, hv] using hg
    | some v =>
      simp only [hkk, hv] at hg
      simp only [hv]
      refine ⟨by rw [hg], by rw [hg]; simp, ?_, ?_, ?_, ?_⟩
      · exact abs_step_nonstore hk eqv s hs _ (by intro a r h; cases h)
      · intro hx; have := hs.ext_lt _ hx; omega
      · intro p hp e; have := (hs.res_ok p hp).1; omega
      · intro dc hdc p hp e; have := (hs.data_ok dc hdc p hp).1; omega

/-- **C25_get_after_store** (plain-map side, with `C25_refines` and `C25_get_outcome` this is the property's
first sentence). After any list of store events: the map has no entry for `k` iff no event had key `k`;
and an entry for `k` is `equals` to the value of the most recent store with key `k` (`equals` reflexive). -/
theorem C25_get_after_store (eqv : F → F → Bool) (hrefl : ∀ v, eqv v v = true)
    (evs : List (EvalKey K × F)) (k : EvalKey K) :
    (specRun eqv (fun _ => none) evs k = none ↔ ∀ e ∈ evs, e.1 ≠ k) ∧
    (∀ p, specRun eqv (fun _ => none) evs k = some p → ∃ v, lastStored evs k = some v ∧ eqv p v = true) := by
  suffices hgen : ∀ (M : EvalKey K → Option F) (acc : Option F),
      ((M k = none ↔ acc = none) ∧ ∀ p, M k = some p → ∃ v, acc = some v ∧ eqv p v = true) →
      ((specRun eqv M evs k = none ↔ acc = none ∧ ∀ e ∈ evs, e.1 ≠ k) ∧
        ∀ p, specRun eqv M evs k = some p →
          ∃ v, evs.foldl (fun acc e => if e.1 = k then some e.2 else acc) acc = some v ∧ eqv p v = true) by
    have := hgen (fun _ => none) none ⟨by simp, by simp⟩
    exact ⟨by simpa using this.1, this.2⟩
  induction evs with
  | nil =>
    intro M acc hM
    exact ⟨by simpa [specRun] using hM.1, hM.2⟩
  | cons e evs ih =>
    intro M acc hM
    have hstep : ((specStore eqv M e.1 e.2 k = none ↔ (if e.1 = k then some e.2 else acc) = none) ∧
        ∀ p, specStore eqv M e.1 e.2 k = some p →
          ∃ v, (if e.1 = k then some e.2 else acc) = some v ∧ eqv p v = true) := by
      by_cases hek : e.1 = k
      · subst hek
        unfold specStore
        cases hMk : M e.1 with
        | none => simp; exact hrefl _
        | some p0 =>
          by_cases hq : eqv p0 e.2 = true
          · simp [hq, hMk]
          · simp [hq]; exact hrefl _
      · have hke : ¬ k = e.1 := fun h => hek h.symm
        unfold specStore
        split
        · simpa [hek] using hM
        · simpa [hek, hke] using hM
    have := ih (specStore eqv M e.1 e.2) (if e.1 = k then some e.2 else acc) hstep
    simp only [specRun, List.foldl_cons] at this ⊢
    refine ⟨?_, this.2⟩
    rw [this.1]
    by_cases hek : e.1 = k
    · simp [hek]
    · simp [hek]

theorem run_append (hk : F → K) (eqv : F → F → Bool) (h1 h2 : List (Op F)) (s : State F K) :
    (run hk eqv s (h1 ++ h2)).1 = (run hk eqv (run hk eqv s h1).1 h2).1 := by
  induction h1 generalizing s with
  | nil => rfl
  | cons op h1 ih => simp only [List.cons_append, run]; exact ih _

/-- the contents the debugging `data_cache` holds -/
def dataAbs (s : State F K) : Option (List (K × Option F)) :=
  s.data.map (fun dc => dc.map (fun p => (p.1, s.heap[p.2]?)))

/-- **C25_copy_isolation.** In every reachable state, an in-place change of *any* object the caller holds –
a frame it passed to `store` as `res` or inside the data map, or a frame `get` returned – to *any* new
content changes neither the map the cache denotes nor the contents of its `data_cache`. -/
theorem C25_copy_isolation (hk : F → K) (eqv : F → F → Bool) (h : List (Op F)) (i : Nat) (v : F) :
    let s := (run hk eqv State.init h).1
    abs (step hk eqv s (.mutate i v)).1 = abs s ∧ dataAbs (step hk eqv s (.mutate i v)).1 = dataAbs s := by
  intro s
  have hs : Inv s := run_inv hk eqv h State.init inv_init
  refine ⟨abs_step_nonstore hk eqv s hs _ (by intro a r h; cases h), ?_⟩
  simp only [step]
  split
  · rename_i hi
    unfold dataAbs
    cases hdc : s.data with
    | none => simp
    | some dc =>
      simp only [Option.map_some, Option.some.injEq]
      apply List.map_congr_left
      intro p hp
      have hj := (hs.data_ok dc hdc p hp).2
      have : i ≠ p.2 := fun e => hj (e ▸ hi)
      rw [List.getElem?_set_ne this]
  · rfl

/-- **C25_only_store_changes.** Whatever the caller does between two points of a history without calling
`store` (creating frames, mutating any frame it holds, calling `get`, switching the debug cache off), the
map the cache denotes is the same at both points: later `get`s see exactly the stored values. -/
theorem C25_only_store_changes (hk : F → K) (eqv : F → F → Bool) (h1 h2 : List (Op F))
    (hns : ∀ op ∈ h2, ∀ a r, op ≠ .store a r) :
    abs (run hk eqv State.init (h1 ++ h2)).1 = abs (run hk eqv State.init h1).1 := by
  rw [run_append]
  have hs : Inv (run hk eqv State.init h1).1 := run_inv hk eqv h1 State.init inv_init
  generalize (run hk eqv State.init h1).1 = s at hs
  induction h2 generalizing s with
  | nil => rfl
  | cons op h2 ih =>
    simp only [run]
    rw [ih (fun op' hop' => hns op' (List.mem_cons_of_mem _ hop')) _ (step_inv hk eqv s hs op)]
    exact abs_step_nonstore hk eqv s hs op (hns op List.mem_cons_self)

end Cache

/-! ## Non-vacuity: the hypotheses are satisfiable and the statements say something on concrete instances -/

/-- hostile column names: the two renderings are different texts (and by the theorem they must be) -/
example : pyReprList (fun _ => false) [['a', '\'', ',', ' ', '\'', 'b']] ≠
          pyReprList (fun _ => false) [['a'], ['b']] := by decide
example : pyReprList (fun _ => false) [['a', '_', 'b'], ['c', '"', '\'']] =
    "['a_b', 'c\"\\'']".toList := by decide
/-- `hinj`/`hresp` of `C25_key_iff` hold for the identity digest on frames that *are* their digest text -/
example : let o : FrameObs Str := { shape := fun _ => (0, 0), names := fun _ => [], digest := id }
    (∀ a b, o.shape a = o.shape b → o.names a = o.names b → o.digest a = o.digest b → a = b) ∧
    (∀ a b, a = b → o.shape a = o.shape b ∧ o.names a = o.names b ∧ o.digest a = o.digest b) := by
  intro o; exact ⟨fun a b _ _ h => h, fun a b h => by subst h; exact ⟨rfl, rfl, rfl⟩⟩
/-- the guards of the partial theorem hold on ordinary frames -/
def exFrame : Frame :=
  { names := [['x'], ['y']], cols := [.int64 [1, 2], .str [some ['a'], none]], index := [0, 1] }
example : exFrame.wf = true ∧ exFrame.objPlain = true ∧ sameDtypes exFrame exFrame = true := by decide
/-- a history on a cache of numbers (hash = identity, equals = ==): store 5 under a key, overwrite the
caller's object with 9, get → a fresh object holding 5 -/
example :
    let a : Args := { valid := true, dialect := ['S'], sql := ['q'], data := [(['t'], 0)] }
    let r := run (F := Nat) (K := Nat) id (· == ·) State.init [.new 5, .store a 0, .mutate 0 9, .new 5, .get { a with data := [(['t'], 3)] }]
    r.2 = [.obj 0, .done, .done, .obj 3, .obj 4] ∧ r.1.heap[4]? = some 5 ∧ r.1.heap[0]? = some 9 := by
  simp [run, step, keyOf, resolve, makeKey, dictGet, dictSet, dataStep, State.init, List.lookup]

end DAVerif.EvalCache
