import DAVerif.Proofs.SqlReach
import DAVerif.Proofs.BuilderReach
import DAVerif.Proofs.EqSqlSem
import DAVerif.Props.C11
import DAVerif.Props.C04
/-!
# C11, the SQL half — "… and the same SQL in every dialect"

Property theorems only.  Model of `==`: `Eq.eqOps` (Ops/Eq.lean, /repo after D8 D9 D10 D28 and the three C11 fixes).
Model of the SQL generator: `toNearSql : SqlCfg → Ops → Except Err Near` (Sql/ToNearSql.lean; `SqlCfg` = the dialect
family: extend merges on/off, SQLite's RIGHT / FULL join emulation on/off), the SQL semantics `semSql` / `semWith` /
`semToSql` (Sql/Sem.lean, Sql/WithForm.lean).  Specification side: `Spec/Erase.lean` (`Ops.erase`) and
`Spec/EraseSql.lean` (`Near.eraseM`, `Near.sqlShape`, `withShape`).

## What "the same SQL" means at this level

**The text renderer (`to_sql_str_list`, `expr_to_sql`, the per-dialect formatters and quoting) is not modelled.**  A
NearSQL tree of the model carries, where the real tree carries the SQL text of an expression, the expression tree
itself (`STerm.expr t win`, `Suffix.whereE e`).  The only thing `==` ignores on purpose is the `method` flag of an
`Expression` (`x.f()` vs `f(x)`); in /repo that flag is read by `Expression.to_python` only (grep: `expr_rep.py:1424,
1443`; `polars_model.py` copies it) — `SQLModel.expr_to_sql` and every formatter dispatch on `op` / `args` / `inline`.
Hence the SQL text of a query is a function of `Near.sqlShape n` = the tree with the `method` flags of the carried
expressions forgotten (`eraseM`) and the `ops_key` strings forgotten (`eraseKeys`; a key is never printed, it is only
compared by CTE elimination).  "The same SQL" is proved as:

* `C11_sql_same_tree`        `p == q` ⇒ for every dialect configuration, `toNearSql` fails with the same error on both or
                             returns trees with the **same shape**: same step kinds, same generated query names and join
                             aliases, same term dictionaries (order, entry kinds, expressions up to `method`, window
                             specifications), same bound column lists, suffixes, join types and keys, `mergeable` flags
                             and dependency dictionaries;
* `C11_sql_same_with_form`   the same for the WITH form without CTE elimination (`use_with=True`);
* `C11_sql_same_sem`, `C11_sql_same_sem_options`   the same result table (or error) on every database, engine
                             configuration and interpretation of the operators, nested or WITH form.

## What is false, in the model and in the real code (finding `C11-method-flag-cte-elim`)

`ops_key` is `str(node)` in the real code (`f"extend({extend_node}, {terms.keys()})"`, sql_model.py:1184…1719) and
`renderOps` in the model: it **contains the printing form** of every expression.  So literal equality
`toNearSql cfg p = toNearSql cfg q` is false (`C11_sql_exact_tree_false`), and — the observable consequence — with
`use_with=True, use_cte_elim=True` two equal pipelines can render different SQL: `C11_sql_cte_elim_necessary` (the
pipeline that joins `d.extend({'y': 'x.abs()'})` with `d.extend({'y': 'abs(x)'})` keeps two common table expressions,
its `==` twin with `abs(x)` twice keeps one).  Reproduced on the real code (PostgreSQL, BigQuery, MySQL, SparkSQL
models; SQLite has `supports_cte_elim=False`): the two `to_sql` texts differ, the results are equal.  The guard of the
`…_partial` reading is "no CTE elimination"; with CTE elimination the *results* are still equal under the standing
hypothesis of C04 (`KeyFaithful`): `C11_sql_same_sem_cte_elim`.

## Constants

`Eq.litEq` is equality of `Lit`; a float constant is an exact rational in the model, so `0.0` and `-0.0` are the same
`Lit` and the theorems say nothing about them: the known finding `C11-negative-zero-constant` (`0.0 == -0.0`, SQL
`+ 0.0` vs `+ -0.0`) is outside the model's constants and is not contradicted here.
-/
namespace DAVerif.C11
open DAVerif DAVerif.Sql DAVerif.C11Sql

/-! ## 1. The generator and the builders do not look at the printing form -/

/-- **Every builder call commutes with forgetting the printing form** of the expressions it is given (and of the
pipelines it is given): same error, or the erased pipeline.  Two call sequences that differ only in `x.f()` vs `f(x)`
therefore fail alike or build pipelines with the same `erase`, i.e. (by `C11_complete_struct`) `==` pipelines. -/
theorem C11_sql_build_erase (p : Ops) (s : Step) : build p.erase (eraseStep s) = (build p s).map Ops.erase :=
  build_erase p s

/-- … for whole chains of calls. -/
theorem C11_sql_buildChain_erase (p : Ops) (steps : List Step) :
    buildChain p.erase (steps.map eraseStep) = (buildChain p steps).map Ops.erase := buildChain_erase p steps

/-- **`to_near_sql` does not look at the `method` flags**: the tree of the pipeline with the flags forgotten is the tree
of the pipeline with the flags of the carried expressions forgotten — same generated names, same everything —
except for the `ops_key` strings (which are texts of the pipeline and do show the printing form). -/
theorem C11_sql_erase_tree (cfg : SqlCfg) (p : Ops) :
    (toNearSql cfg p.erase).map Near.eraseKeys = (toNearSql cfg p).map Near.sqlShape := toNearSql_erase cfg p

/-! ## 2. Equal pipelines produce the same NearSQL tree (up to what is not printed) -/

/-- **If `p == q` then, for every dialect configuration, the translation to NearSQL fails with the same error on both
or yields two trees of the same shape** (`Near.sqlShape`: everything the SQL text is rendered from). -/
theorem C11_sql_same_tree (cfg : SqlCfg) (p q : Ops) (h : p.DictWF ∨ q.DictWF) (hc : Ops.RecCoherent p q)
    (he : Eq.eqOps p q = true) :
    (toNearSql cfg p).map Near.sqlShape = (toNearSql cfg q).map Near.sqlShape :=
  toNearSql_shape_of_erase_eq cfg (C11_sound_struct p q h hc he)

/-- … for pipelines made by the builders (the dict invariant is a theorem there). -/
theorem C11_sql_same_tree_reachable (cfg : SqlCfg) {p : Ops} (q : Ops) (hr : ReachableC11 p)
    (hc : Ops.RecCoherent p q) (he : Eq.eqOps p q = true) :
    (toNearSql cfg p).map Near.sqlShape = (toNearSql cfg q).map Near.sqlShape :=
  C11_sql_same_tree cfg p q (.inl (reachable_dictWF hr)) hc he

/-- Once both pipelines are written in one printing form (`erase`: all calls in function form) the two NearSQL trees
are **literally identical**, every `ops_key` included. -/
theorem C11_sql_same_tree_normalised (cfg : SqlCfg) (p q : Ops) (h : p.DictWF ∨ q.DictWF) (hc : Ops.RecCoherent p q)
    (he : Eq.eqOps p q = true) : toNearSql cfg p.erase = toNearSql cfg q.erase := by
  rw [C11_sound_struct p q h hc he]

/-- **The WITH form without CTE elimination** (`use_with=True`; `withFormOf`: last step and the `name AS (…)` entries
with their bound columns, keys erased) **has the same shape for equal pipelines.** -/
theorem C11_sql_same_with_form (cfg : SqlCfg) (p q : Ops) (h : p.DictWF ∨ q.DictWF) (hc : Ops.RecCoherent p q)
    (he : Eq.eqOps p q = true) :
    (withFormOf cfg p).map withShape = (withFormOf cfg q).map withShape :=
  withFormOf_shape_of_erase_eq cfg (C11_sound_struct p q h hc he)

/-! ## 3. Equal pipelines produce SQL with the same meaning -/

/-- The SQL semantics is a function of the shape: it never reads a `method` flag or an `ops_key`. -/
theorem C11_sql_shape_sem (Θ : Interp) (ec : EngineCfg) (env : Env) (n : Near) :
    semSql Θ ec env n.sqlShape = semSql Θ ec env n := semSql_sqlShape Θ ec env n

/-- … neither does the meaning of a WITH query. -/
theorem C11_sql_shape_sem_with (Θ : Interp) (ec : EngineCfg) (env : Env) (steps : List WithStep) (last : Near) :
    semWith Θ ec env (steps.map WithStep.eraseM) last.eraseM = semWith Θ ec env steps last :=
  semWith_eraseM Θ ec env steps last

/-- **If `p == q` then the SQL generated for `p` and for `q` (nested form) denotes the same table** — or both
translations fail with the same error, or both queries fail with the same error — for every dialect configuration,
every interpretation of the operators, every engine configuration (NULL placement) and every database. -/
theorem C11_sql_same_sem (cfg : SqlCfg) (p q : Ops) (h : p.DictWF ∨ q.DictWF) (hc : Ops.RecCoherent p q)
    (he : Eq.eqOps p q = true) (Θ : Interp) (ec : EngineCfg) (env : Env) :
    (toNearSql cfg p).map (semSql Θ ec env) = (toNearSql cfg q).map (semSql Θ ec env) :=
  map_congr_of_shape (C11_sql_same_tree cfg p q h hc he) _ (fun _ _ _ _ hs => semSql_congr_shape Θ ec env hs)

/-- **… also under `use_with` (on or off), without CTE elimination.**  (`semToSql` = the meaning of what `to_sql`
emits under the options, including its fall-back to the nested form.) -/
theorem C11_sql_same_sem_options (cfg : SqlCfg) (p q : Ops) (h : p.DictWF ∨ q.DictWF) (hc : Ops.RecCoherent p q)
    (he : Eq.eqOps p q = true) (Θ : Interp) (ec : EngineCfg) (env : Env) (useWith : Bool) :
    (toNearSql cfg p).map (semToSql Θ ec env useWith false) = (toNearSql cfg q).map (semToSql Θ ec env useWith false) :=
  map_congr_of_shape (C11_sql_same_tree cfg p q h hc he) _ (fun n n' hn hn' hs => by
    rw [C04_to_sql_options_sound Θ ec env n (C04_wf cfg p n hn) useWith false (by intro h; cases h),
      C04_to_sql_options_sound Θ ec env n' (C04_wf cfg q n' hn') useWith false (by intro h; cases h)]
    exact semSql_congr_shape Θ ec env hs)

/-- **… and under every option combination, CTE elimination included, as far as CTE elimination is sound at all**:
`KeyFaithful` (bound sub-queries with equal cache keys denote the same table) is the standing, unproved hypothesis of
C04's CTE-elimination theorems; it is needed of both translated trees because their keys differ. -/
theorem C11_sql_same_sem_cte_elim (cfg : SqlCfg) (p q : Ops) (h : p.DictWF ∨ q.DictWF) (hc : Ops.RecCoherent p q)
    (he : Eq.eqOps p q = true) (Θ : Interp) (ec : EngineCfg) (env : Env) (useWith cteElim : Bool)
    (hkp : ∀ n, toNearSql cfg p = .ok n → KeyFaithful n) (hkq : ∀ n, toNearSql cfg q = .ok n → KeyFaithful n) :
    (toNearSql cfg p).map (semToSql Θ ec env useWith cteElim)
      = (toNearSql cfg q).map (semToSql Θ ec env useWith cteElim) :=
  map_congr_of_shape (C11_sql_same_tree cfg p q h hc he) _ (fun n n' hn hn' hs => by
    rw [C04_to_sql_options_sound Θ ec env n (C04_wf cfg p n hn) useWith cteElim (fun _ => hkp n hn),
      C04_to_sql_options_sound Θ ec env n' (C04_wf cfg q n' hn') useWith cteElim (fun _ => hkq n' hn')]
    exact semSql_congr_shape Θ ec env hs)

/-! ## 4. What is false: `ops_key` shows the printing form, CTE elimination compares `ops_key`s

Full statement (false): for all `useWith cteElim`, the WITH form `toWithForm (if cteElim then some [] else none)` of
the two trees has the same shape.  True for `cteElim = false` (`C11_sql_same_with_form`); for `cteElim = true`: -/

private def tD : Ops := .table "d" ["k", "x"]
private def absT (m : Bool) : Term := .app "abs" [.col "x"] false m
/-- `d.extend({'y': 'x.abs()'})` (`m = true`) / `d.extend({'y': 'abs(x)'})` (`m = false`) -/
private def ext (m : Bool) : Ops := .extend tD [("y", absT m)] [] [] [] false
/-- `ext m .natural_join(b=ext false, on=['k'], jointype='INNER')` -/
private def pJ (m : Bool) : Ops := .join (ext m) (ext false) ["k"] ["k"] .inner

private def kE (m : Bool) : Option String := keyOfNode "extend" (ext m) ["k", "x", "y"]
/-- the translated extend step -/
private def nExt (m : Bool) (name : String) : Near :=
  .unary name (some [("k", .pass), ("x", .pass), ("y", .expr (absT m) none)]) false (.table "d" ["k", "x"])
    (some ["k", "x"]) .none true (some [("k", ["k"]), ("x", ["x"]), ("y", ["x"])]) (kE m)
private def nJ (m : Bool) : Near :=
  .join "natural_join_0" [("k", .coalesce true "k"), ("x", .coalesce true "x"), ("y", .coalesce true "y")]
    (nExt m "extend_1") ["k", "x", "y"] "join_source_left_0" (nExt false "extend_2") ["k", "x", "y"]
    "join_source_right_0" .inner ["k"] ["k"] (keyOfNode "join" (pJ m) ["k", "x", "y"])

private theorem near_ext (m : Bool) : toNearSql .generic (ext m) = .ok (nExt m "extend_0") := by cases m <;> rfl
private theorem near_pJ (m : Bool) : toNearSql .generic (pJ m) = .ok (nJ m) := by cases m <;> rfl

private theorem kE_ne : kE true ≠ kE false := by
  intro h
  simp only [kE, keyOfNode, Option.some.injEq] at h
  have := congrArg String.length h
  simp [ext, absT, renderOps, renderAssign, renderTerm, renderTerms, String.length_append] at this

private theorem ck_ne : cacheKey (nExt true "extend_1") (some ["k", "x", "y"])
    ≠ cacheKey (nExt false "extend_2") (some ["k", "x", "y"]) := by
  intro h
  simp only [cacheKey, nExt, Near.key, kE, keyOfNode] at h
  have := congrArg String.length h
  simp [ext, absT, renderOps, renderAssign, renderTerm, renderTerms, String.length_append] at this

private theorem with_p : (toWithForm (some []) (nJ true)).2.1.map (·.name) = ["extend_1", "extend_2"] := by
  have hne := ck_ne
  simp only [cacheKey, nExt, Near.key] at hne
  simp [nJ, nExt, toWithForm, withStub, Near.isTable, Near.name, appendUnseen, lookupLast, cacheKey, Near.key, hne]

private theorem with_q : (toWithForm (some []) (nJ false)).2.1.map (·.name) = ["extend_1"] := by
  simp [nJ, nExt, toWithForm, withStub, Near.isTable, Near.name, appendUnseen, lookupLast, cacheKey, Near.key]

private theorem ext_eq : Eq.eqOps (ext true) (ext false) = true := by decide
private theorem pJ_eq : Eq.eqOps (pJ true) (pJ false) = true := by decide
private theorem ext_wf (m : Bool) : (ext m).DictWF := by simp [ext, tD, Ops.DictWF]
private theorem pJ_wf (m : Bool) : (pJ m).DictWF := by simp [pJ, ext, tD, Ops.DictWF]
private theorem ext_rc : Ops.RecCoherent (ext true) (ext false) := by
  intro r1 h1; simp [ext, tD, Ops.recmaps] at h1
private theorem pJ_rc : Ops.RecCoherent (pJ true) (pJ false) := by
  intro r1 h1; simp [pJ, ext, tD, Ops.recmaps] at h1

/-- **Literal equality of the NearSQL trees is false**: `d.extend({'y': 'x.abs()'})` and `d.extend({'y': 'abs(x)'})`
are `==`, and their trees carry different `ops_key`s (so `C11_sql_same_tree` cannot be strengthened to `=`). -/
theorem C11_sql_exact_tree_false :
    ¬ ∀ (cfg : SqlCfg) (p q : Ops), p.DictWF → q.DictWF → Ops.RecCoherent p q → Eq.eqOps p q = true →
        toNearSql cfg p = toNearSql cfg q := by
  intro hall
  have h := hall .generic (ext true) (ext false) (ext_wf _) (ext_wf _) ext_rc ext_eq
  rw [near_ext, near_ext] at h
  have hk : (nExt true "extend_0").key = (nExt false "extend_0").key := by
    rw [Except.ok.injEq] at h; rw [h]
  exact kE_ne hk

/-- **With CTE elimination equal pipelines do not render the same SQL** (the guard "no CTE elimination" of
`C11_sql_same_with_form` is necessary): the `==` pipelines `pJ true` / `pJ false` have WITH forms with two resp. one
common table expression.  Same behaviour in the real code (finding `C11-method-flag-cte-elim`). -/
theorem C11_sql_cte_elim_necessary :
    ¬ ∀ (cfg : SqlCfg) (p q : Ops), p.DictWF → q.DictWF → Ops.RecCoherent p q → Eq.eqOps p q = true →
        (toNearSql cfg p).map (fun n => (toWithForm (some []) n).2.1.map (·.name))
          = (toNearSql cfg q).map (fun n => (toWithForm (some []) n).2.1.map (·.name)) := by
  intro hall
  have h := hall .generic (pJ true) (pJ false) (pJ_wf _) (pJ_wf _) pJ_rc pJ_eq
  rw [near_pJ, near_pJ] at h
  simp only [Except.map, with_p, with_q] at h
  rw [Except.ok.injEq] at h
  exact absurd h (by decide)

/-! ## 5. Non-vacuity -/

/-- two textually different builder call sequences on the table description `d(k, x)` … -/
private def callsM : List Step := [.extend [("y", absT true)] .none [] [], .selectRows (some (.app ">" [.col "y", .value (.int 1)] true false))]
private def callsF : List Step := [.extend [("y", absT false)] .none [] [], .selectRows (some (.app ">" [.col "y", .value (.int 1)] true false))]
private def pipeOf (m : Bool) : Ops := .selectRows (ext m) (.app ">" [.col "y", .value (.int 1)] true false)

/-- … that differ only in the printing form … -/
example : callsM.map eraseStep = callsF.map eraseStep := by rfl
/-- … build these two pipelines … -/
example : buildChain tD callsM = .ok (pipeOf true) := by rfl
example : buildChain tD callsF = .ok (pipeOf false) := by rfl
/-- … which are different trees, reachable, and `==`: the hypotheses of the theorems hold of them -/
example : pipeOf true ≠ pipeOf false := by simp [pipeOf, ext, absT]
example : ReachableC11 (pipeOf true) :=
  .step (st := .selectRows (some (.app ">" [.col "y", .value (.int 1)] true false))) (p := ext true)
    (.step (st := .extend [("y", absT true)] .none [] []) (p := tD) (ReachableC11.table "d" ["k", "x"])
      (by simp [Step.arg]) (by rfl))
    (by simp [Step.arg]) (by rfl)
example : Eq.eqOps (pipeOf true) (pipeOf false) = true := by decide
example : (pipeOf true).DictWF := by simp [pipeOf, ext, tD, Ops.DictWF]
example : Ops.RecCoherent (pipeOf true) (pipeOf false) := by
  intro r1 h1; simp [pipeOf, ext, tD, Ops.recmaps] at h1

/-- their common NearSQL shape: `SELECT k, x, y FROM (SELECT k, x, abs(x) AS y FROM d) WHERE y > 1` -/
private def shape : Near :=
  .unary "select_rows_1" (some [("k", .pass), ("x", .pass), ("y", .pass)]) false
    (.unary "extend_0" (some [("k", .pass), ("x", .pass), ("y", .expr (absT false) none)]) false
      (.table "d" ["k", "x"]) (some ["k", "x"]) .none true (some [("k", ["k"]), ("x", ["x"]), ("y", ["x"])]) none)
    (some ["k", "x", "y"]) (.whereE (.app ">" [.col "y", .value (.int 1)] true false)) false none none

example : (toNearSql .generic (pipeOf true)).map Near.sqlShape = .ok shape := by rfl
example : (toNearSql .generic (pipeOf false)).map Near.sqlShape = .ok shape := by rfl
example : (toNearSql .sqlite (pipeOf true)).map Near.sqlShape = .ok shape := by rfl

/-- an interpretation of `abs` and `>` on numbers -/
private def Θa : Interp :=
  { scalar := fun op args => match op, args with
      | "abs", [.v (.num q)] => .num (if q < 0 then -q else q)
      | ">", [.v (.num a), .v (.num b)] => .bool (decide (b < a))
      | _, _ => .null,
    agg := fun _ _ => .null, win := fun _ _ _ _ => .null, convert := fun _ t => .ok t }
private def envD : Env := [("d", ⟨["k", "x"], [[("k", .num 1), ("x", .num 1)], [("k", .num 2), ("x", .num (-2))]]⟩)]

/-- … evaluated: the row with `abs(x) > 1` -/
example : semSql Θa .sqlite envD shape = .ok ⟨["k", "x", "y"], [[("k", .num 2), ("x", .num (-2)), ("y", .num 2)]]⟩ := by
  decide
/-- … and that is the result of the SQL of both pipelines (instance of `C11_sql_same_sem`) -/
example : (toNearSql .generic (pipeOf true)).map (semSql Θa .sqlite envD)
    = (toNearSql .generic (pipeOf false)).map (semSql Θa .sqlite envD) :=
  C11_sql_same_sem .generic _ _ (.inl (by simp [pipeOf, ext, tD, Ops.DictWF]))
    (by intro r1 h1; simp [pipeOf, ext, tD, Ops.recmaps] at h1) (by decide) Θa .sqlite envD

/-- the WITH forms (no CTE elimination) of the `==` join pipelines of §4 have the same shape
(instance of `C11_sql_same_with_form`), although their CTE-eliminated forms differ -/
example : (withFormOf .generic (pJ true)).map withShape = (withFormOf .generic (pJ false)).map withShape :=
  C11_sql_same_with_form .generic _ _ (.inl (pJ_wf _)) pJ_rc pJ_eq

end DAVerif.C11
