import DAVerif.Proofs.WithNames
import DAVerif.Proofs.WithScope
import DAVerif.Proofs.WithFix
import DAVerif.Proofs.WithKey
/-
# C04 — SQL formatting and optimization options never change query results

Model: `Sql/NearSql.lean`, `Sql/ToNearSql.lean`, `Sql/Sem.lean`, `Sql/WithForm.lean` (shared, validated against the real
code by the suites k5_near / k5_with / k5_semopt; `withStub` is the stub after fix N28: the cache is consulted before
the sub-query is converted) and `Sql/WithFormG.lean` (this property: the WITH form with the cache key as a parameter,
the stub before fix N28, SQL's scoping of CTE names).

What is proved, for every interpretation `Θ`, engine configuration, environment and NearSQL tree `q`:
* the query names `toNearSql` generates are pairwise different and it never emits a CTE reference (`NearWF`);
* `use_with` on = off (no cache): the WITH form evaluates to the nested query (`C04_with_form_sound`), also under
  SQL's scoping of CTE names over table names provided no table the query reads is named like a generated query name
  (`C04_with_form_scoped_sound`; the guard is necessary: `C04_with_form_scoped_necessary`, finding D24);
* `use_cte_elim`: for EVERY key function that is semantically faithful on `q` (sub-queries with equal keys denote the
  same table, `KeyFaith`) the WITH form with the cache evaluates to the nested query (`C04_cte_elim_sound_key`;
  `C04_cte_elim_sound`, `C04_to_sql_options_sound` for the model's key and `semToSql`);
* the code BEFORE fix N28 needed more: `to_with_form_stub` converted the sub-query first and discarded the converted
  steps on a cache hit while the cache kept the entries registered during the conversion, so a later hit could name a
  CTE that was never emitted — semantic faithfulness was not enough (`C04_cte_elim_closed_necessary`, reproduced on
  the real pre-fix code: finding N28); it was sound for keys that are also closed (`C04_cte_elim_old_sound_key`).

Not proved here (stated for the record):
* `C04_key_faithful : toNearSql cfg p = .ok q → KeyFaithful q` — the remaining hypothesis of the CTE-elimination
  theorems.  `C04_key_faithful_of_shape` reduces it to the syntactic statement "equal keys ⇒ same sub-tree up to the
  numbering of query names and same bound columns"; that syntactic statement is FALSE of `toNearSql` in general
  (corpus/C04/n28_dangling_cte.json: two `select_columns` in different orders over the same renamed table have the same
  key but sub-trees with differently ordered columns), the semantic statement `KeyFaith` is what the suite k5_semopt and
  the oracle test.
* `C04_merge_option_sound` (extend merge on/off: `semSql Θ ec env (toNearSql {cfg with merges := true} p)` and
  `semSql Θ ec env (toNearSql {cfg with merges := false} p)` are the same table): proved in `Props/C04merge.lean`
  (`Sql.C04_merge_option_sound`, by the SQL-A proofs), not here.
* the rendering options `annotate`, `initial_commas`, `sql_indent`: no token-level rendering model; C14's
  `cleanAnnotation_no_line_break` / `C14_comment_inert` show an annotation comment cannot change the token stream.
-/
namespace DAVerif
open DAVerif.Sql

/-! ## specification side -/

/-- well-formedness of a NearSQL tree: pairwise different query names, no CTE reference -/
def NearWF (q : Near) : Prop := q.names.Nodup ∧ q.noCte = true

/-- no database table the query reads is named like one of its generated query names (guard of finding D24) -/
def NoTableNamedLikeCte (q : Near) : Prop := ∀ n ∈ q.tables, n ∉ q.names

/-- `KeyFaithful q`: for every interpretation, engine and environment, any two bound sub-queries of `q` with the same
`cacheKey` denote the same table under `semNear` -/
def KeyFaithful (q : Near) : Prop := ∀ Θ ec env, KeyFaith Θ ec env cacheKey q

/-! ## 1. query names -/

/-- **The generated query names are pairwise different.**  `toNear` threads the counter monotonically, every step
name is `<prefix>_<i>` for an index taken from the counter exactly once (a join uses its index for the step name and
for the two aliases `join_source_left_<i>` / `join_source_right_<i>`, which are not query names). -/
theorem C04_names_unique (cfg : SqlCfg) (p : Ops) (q : Near) (h : toNearSql cfg p = .ok q) : q.names.Nodup :=
  (toNearSql_wf cfg p q h).1

/-- every translated query is well formed -/
theorem C04_wf (cfg : SqlCfg) (p : Ops) (q : Near) (h : toNearSql cfg p = .ok q) : NearWF q :=
  toNearSql_wf cfg p q h

/-! ## 2. `use_with` on = off -/

/-- **The WITH form without cache evaluates to the nested query** (errors included): each emitted step is evaluated
with the columns and `force_sql` flag it was bound with, later references are CTE look-ups, and the names being
pairwise different every look-up finds its own entry. -/
theorem C04_with_form_sound (Θ : Interp) (ec : EngineCfg) (env : Env) (q : Near) (hq : NearWF q) :
    semWith Θ ec env (toWithForm none q).2.1 (toWithForm none q).1 = semSql Θ ec env q := by
  rw [(toWithFormG_cacheKey q).1 none]
  exact toWithFormG_sound Θ ec env cacheKey q none (Or.inl rfl) hq.2 hq.1

/-- **… also under SQL's scoping** (a table reference spelled like an earlier CTE denotes the CTE), provided no table
the query reads is named like a generated query name. -/
theorem C04_with_form_scoped_sound (Θ : Interp) (ec : EngineCfg) (env : Env) (q : Near) (hq : NearWF q)
    (hg : NoTableNamedLikeCte q) :
    semWithC Θ ec env (toWithForm none q).2.1 (toWithForm none q).1 = semSql Θ ec env q := by
  rw [← C04_with_form_sound Θ ec env q hq, (toWithFormG_cacheKey q).1 none]
  have ht := toWithFormG_tables cacheKey q none
  have hn := (toWithFormG_names cacheKey q hq.1 none).2
  apply semWithC_eq_semWith Θ ec env _ _ q.names
  · intro st hst
    exact List.mem_of_mem_tail (hn st.name (by simp only [stepNames, List.mem_map]; exact ⟨st, hst, rfl⟩))
  · intro st hst n hn'
    exact hg n (ht.2 st hst n hn')
  · intro n hn'
    exact hg n (ht.1 n hn')

namespace C04Ex
/-- an interpretation (the examples use no operator) -/
def Θ0 : Interp := ⟨fun _ _ => .null, fun _ _ => .null, fun _ _ _ _ => .null, fun _ t => .ok t⟩
def tD : Table := ⟨["x"], [[("x", .num 1)]]⟩
def tE : Table := ⟨["x"], [[("x", .num 2)]]⟩
def env2 : Env := [("d", tD), ("extend_0", tE)]
/-- `SELECT x FROM sub` -/
def idSel (name : String) (sub : Near) (key : Option String) : Near :=
  .unary name (some [("x", .pass)]) false sub (some ["x"]) .none false none key
/-- `(SELECT x FROM d) UNION ALL extend_0` with the first branch named `extend_0` (finding D24) -/
def qD24 : Near :=
  .union "concat_rows_1" ["x"] (idSel "extend_0" (.table "d" ["x"]) (some "k")) (.table "extend_0" ["x"]) ["x"] (some "u")
/-- `N0 ∪ (N ∪ M')`: `N0` and `N` have the key `K` and the same rows, `N` reads through `M`, and `M`, `M'` have the
key `KM` and the same rows -/
def qDang : Near :=
  .union "u1" ["x"] (idSel "n0" (.table "d" ["x"]) (some "K"))
    (.union "u2" ["x"] (idSel "n" (idSel "m" (.table "d" ["x"]) (some "KM")) (some "K"))
      (idSel "m2" (.table "d" ["x"]) (some "KM")) ["x"] (some "U2"))
    ["x"] (some "U1")
/-- two uses of the same sub-query (key `K`) -/
def qShare : Near :=
  .union "u" ["x"] (idSel "a" (.table "d" ["x"]) (some "K")) (idSel "b" (.table "d" ["x"]) (some "K")) ["x"] (some "U")
/-- the key function that reads the `ops_key` field only -/
def fieldKey : KeyFn := fun n _ => n.key.getD "None"

theorem qD24_wf : NearWF qD24 := ⟨by decide, rfl⟩
theorem qDang_wf : NearWF qDang := ⟨by decide, rfl⟩
theorem qShare_wf : NearWF qShare := ⟨by decide, rfl⟩

theorem qDang_desc : qDang.desc =
    [(idSel "n0" (.table "d" ["x"]) (some "K"), some ["x"], true),
     (.union "u2" ["x"] (idSel "n" (idSel "m" (.table "d" ["x"]) (some "KM")) (some "K"))
        (idSel "m2" (.table "d" ["x"]) (some "KM")) ["x"] (some "U2"), some ["x"], true),
     (idSel "n" (idSel "m" (.table "d" ["x"]) (some "KM")) (some "K"), some ["x"], true),
     (idSel "m" (.table "d" ["x"]) (some "KM"), some ["x"], false),
     (idSel "m2" (.table "d" ["x"]) (some "KM"), some ["x"], true)] := rfl

theorem qDang_den : ∀ x ∈ qDang.desc, den Θ0 .sqlite env2 x =
    if bkey fieldKey x = "U2" then .ok ⟨["x"], [[("x", .num 1)], [("x", .num 1)]]⟩
    else .ok ⟨["x"], [[("x", .num 1)]]⟩ := by
  intro x hx
  rw [qDang_desc] at hx
  simp only [List.mem_cons, List.not_mem_nil, or_false] at hx
  rcases hx with rfl | rfl | rfl | rfl | rfl <;> rfl

theorem qDang_faith : KeyFaith Θ0 .sqlite env2 fieldKey qDang := by
  intro x hx y hy he
  rw [qDang_den x hx, qDang_den y hy, he]

theorem qShare_desc : qShare.desc =
    [(idSel "a" (.table "d" ["x"]) (some "K"), some ["x"], true),
     (idSel "b" (.table "d" ["x"]) (some "K"), some ["x"], true)] := rfl

theorem qShare_ok : KeyOK Θ0 .sqlite env2 fieldKey qShare := by
  constructor
  · intro x hx y hy _
    rw [qShare_desc] at hx hy
    simp only [List.mem_cons, List.not_mem_nil, or_false] at hx hy
    rcases hx with rfl | rfl <;> rcases hy with rfl | rfl <;> rfl
  · intro x hx y _ _ m hm
    rw [qShare_desc] at hx
    simp only [List.mem_cons, List.not_mem_nil, or_false] at hx
    rcases hx with rfl | rfl <;> simp [idSel, Near.desc, Near.isTable] at hm

theorem qShare_faith : KeyFaith Θ0 .sqlite env2 fieldKey qShare := qShare_ok.faith
end C04Ex
open C04Ex

/-- **The guard of `C04_with_form_scoped_sound` is necessary (finding D24).**  A user table named like a generated
query name is captured by the CTE of that name: `(SELECT x FROM d) AS extend_0 … UNION ALL … FROM extend_0` returns
the rows of `d` twice instead of the rows of `d` and of the table `extend_0`. -/
theorem C04_with_form_scoped_necessary :
    ¬ ∀ (Θ : Interp) (ec : EngineCfg) (env : Env) (q : Near), NearWF q →
        semWithC Θ ec env (toWithForm none q).2.1 (toWithForm none q).1 = semSql Θ ec env q := by
  intro h
  have h0 := h Θ0 .sqlite env2 qD24 qD24_wf
  rw [(toWithFormG_cacheKey qD24).1 none] at h0
  have e1 : semWithC Θ0 .sqlite env2 (toWithFormG cacheKey none qD24).2.1 (toWithFormG cacheKey none qD24).1
      = .ok ⟨["x"], [[("x", .num 1)], [("x", .num 1)]]⟩ := rfl
  have e2 : semSql Θ0 .sqlite env2 qD24 = .ok ⟨["x"], [[("x", .num 1)], [("x", .num 2)]]⟩ := rfl
  rw [e1, e2] at h0
  have h1 : (⟨["x"], [[("x", .num 1)], [("x", .num 1)]]⟩ : Table) = ⟨["x"], [[("x", .num 1)], [("x", .num 2)]]⟩ :=
    Except.ok.inj h0
  exact absurd h1 (by decide)

/-! ## 3. `use_cte_elim` -/

/-- **CTE elimination is sound for every key function that is semantically faithful on the query** (`KeyFaith`: bound
sub-queries with equal keys denote the same table).  The real cache key (which contains Python set-iteration orders)
is one such function whenever equal real keys mean equal tables; nothing else about the key is used.  (The cache is
consulted before a sub-query is converted, so every cache entry belongs to an emitted step.) -/
theorem C04_cte_elim_sound_key (Θ : Interp) (ec : EngineCfg) (env : Env) (key : KeyFn) (q : Near) (hq : NearWF q)
    (hk : KeyFaith Θ ec env key q) :
    semWith Θ ec env (toWithFormG key (some []) q).2.1 (toWithFormG key (some []) q).1 = semSql Θ ec env q :=
  toWithFormG_sound Θ ec env key q (some []) (Or.inr ⟨rfl, hk⟩) hq.2 hq.1

/-- the WITH form without cache, for every key function (the key is not used) -/
theorem C04_with_form_sound_key (Θ : Interp) (ec : EngineCfg) (env : Env) (key : KeyFn) (q : Near) (hq : NearWF q) :
    semWith Θ ec env (toWithFormG key none q).2.1 (toWithFormG key none q).1 = semSql Θ ec env q :=
  toWithFormG_sound Θ ec env key q none (Or.inl rfl) hq.2 hq.1

/-- **CTE elimination of the model** (`toWithForm (some [])`, key `cacheKey`) **is sound on faithful queries.** -/
theorem C04_cte_elim_sound (Θ : Interp) (ec : EngineCfg) (env : Env) (q : Near) (hq : NearWF q) (hk : KeyFaithful q) :
    semWith Θ ec env (toWithForm (some []) q).2.1 (toWithForm (some []) q).1 = semSql Θ ec env q := by
  rw [(toWithFormG_cacheKey q).1 (some [])]
  exact C04_cte_elim_sound_key Θ ec env cacheKey q hq (hk Θ ec env)

/-- **`to_sql` under `use_with` / `use_cte_elim`** (`semToSql`, including the fall-back to the nested form when the
sequence is empty) **returns the result of the nested query.** -/
theorem C04_to_sql_options_sound (Θ : Interp) (ec : EngineCfg) (env : Env) (q : Near) (hq : NearWF q)
    (useWith cteElim : Bool) (hk : cteElim = true → KeyFaithful q) :
    semToSql Θ ec env useWith cteElim q = semSql Θ ec env q := by
  unfold semToSql
  cases useWith with
  | false => rfl
  | true =>
    cases cteElim with
    | false =>
      simp only [if_true, Bool.false_eq_true, if_false]
      split
      · rfl
      · exact C04_with_form_sound Θ ec env q hq
    | true =>
      simp only [if_true]
      split
      · rfl
      · exact C04_cte_elim_sound Θ ec env q hq (hk rfl)

/-- **Equal up to the numbering of query names ⇒ faithful.**  If equal cache keys imply "same sub-tree once the
query names are erased, bound with the same columns" then `KeyFaithful q`. -/
theorem C04_key_faithful_of_shape (q : Near) (h : ShapeDet q) : KeyFaithful q :=
  fun Θ ec env => KeyFaith_of_shape Θ ec env q h

/-- query names are irrelevant to the SQL semantics -/
theorem C04_names_irrelevant (Θ : Interp) (ec : EngineCfg) (env : Env) (ctes : List (String × Table)) (q : Near)
    (cols : Option (List String)) (f : Bool) :
    semNear Θ ec env ctes q cols f = semNear Θ ec env ctes q.unname cols f :=
  semNear_unname Θ ec env ctes q cols f

/-! ## 4. the stub before fix N28 (`toWithFormOld`: sub-query converted first, cache consulted afterwards) -/

/-- **The pre-fix code needed `closed` (finding N28): semantic faithfulness of the key was not enough.**  On a cache
hit the old `to_with_form_stub` discarded the steps of the sub-query it had just converted, but the cache kept the
entries registered during that conversion: in `N0 ∪ (N ∪ M')` the sub-query `N` (same key and rows as `N0`) registers
its source `M`, is then replaced by the CTE of `N0`, and `M'` (same key and rows as `M`) is replaced by a reference to
the CTE of `M` — which was never emitted: the WITH form fails although all equal-keyed sub-queries are equal. -/
theorem C04_cte_elim_closed_necessary :
    ¬ ∀ (Θ : Interp) (ec : EngineCfg) (env : Env) (key : KeyFn) (q : Near), NearWF q → KeyFaith Θ ec env key q →
        semWith Θ ec env (toWithFormOld key (some []) q).2.1 (toWithFormOld key (some []) q).1 = semSql Θ ec env q := by
  intro h
  have h0 := h Θ0 .sqlite env2 fieldKey qDang qDang_wf qDang_faith
  have e1 : semWith Θ0 .sqlite env2 (toWithFormOld fieldKey (some []) qDang).2.1 (toWithFormOld fieldKey (some []) qDang).1
      = .error .other := rfl
  have e2 : semSql Θ0 .sqlite env2 qDang = .ok ⟨["x"], [[("x", .num 1)], [("x", .num 1)], [("x", .num 1)]]⟩ := rfl
  rw [e1, e2] at h0
  cases h0

/-- **… and `closed` was enough**: the pre-fix code was sound for every key function that is faithful and closed on the
query (`KeyOK`: equal keys ⇒ same table, and the keys below are the same). -/
theorem C04_cte_elim_old_sound_key (Θ : Interp) (ec : EngineCfg) (env : Env) (key : KeyFn) (q : Near) (hq : NearWF q)
    (hk : KeyOK Θ ec env key q) :
    semWith Θ ec env (toWithFormOld key (some []) q).2.1 (toWithFormOld key (some []) q).1 = semSql Θ ec env q :=
  toWithFormOld_sound Θ ec env key q (some []) (Or.inr ⟨rfl, hk⟩) hq.2 hq.1

/-! ## non-vacuity -/

/-- a translated query: `d.select_rows(x)`; its hypotheses are those of the theorems above -/
example : ∃ q, toNearSql SqlCfg.generic (Ops.selectRows (Ops.table "d" ["x", "y"]) (.col "x")) = .ok q ∧
    q.names.length = 1 := ⟨_, rfl, rfl⟩

/-- the WITH form of `qShare` with the cache has ONE step: the second use hits the cache -/
example : ((toWithFormG fieldKey (some []) qShare).2.1.map (·.name)) = ["a"] := rfl
example : ((toWithFormG fieldKey none qShare).2.1.map (·.name)) = ["a", "b"] := rfl
/-- … and the theorem applies to it -/
example : semWith Θ0 .sqlite env2 (toWithFormG fieldKey (some []) qShare).2.1 (toWithFormG fieldKey (some []) qShare).1
    = semSql Θ0 .sqlite env2 qShare :=
  C04_cte_elim_sound_key Θ0 .sqlite env2 fieldKey qShare qShare_wf qShare_faith
example : semSql Θ0 .sqlite env2 qShare = .ok ⟨["x"], [[("x", .num 1)], [("x", .num 1)]]⟩ := rfl
/-- the guard of D24 holds of a query that reads `d` only -/
example : NoTableNamedLikeCte qDang := by unfold NoTableNamedLikeCte; decide
/-- the code as it is emits every CTE it refers to on the counterexample of N28 -/
example : semWith Θ0 .sqlite env2 (toWithFormG fieldKey (some []) qDang).2.1 (toWithFormG fieldKey (some []) qDang).1
    = semSql Θ0 .sqlite env2 qDang :=
  C04_cte_elim_sound_key Θ0 .sqlite env2 fieldKey qDang qDang_wf qDang_faith
/-- the pre-fix code was sound on `qShare` (its key is closed there) -/
example : semWith Θ0 .sqlite env2 (toWithFormOld fieldKey (some []) qShare).2.1 (toWithFormOld fieldKey (some []) qShare).1
    = semSql Θ0 .sqlite env2 qShare :=
  C04_cte_elim_old_sound_key Θ0 .sqlite env2 fieldKey qShare qShare_wf qShare_ok

end DAVerif
