import DAVerif.Proofs.SqlReach
import DAVerif.Proofs.SqlNested
import DAVerif.Proofs.SqlNestedReach
import DAVerif.Proofs.SqlAllFull
import DAVerif.Props.C01all
import DAVerif.Props.C16full
/-!
# C01 / C02 / C16 — SQLite's emulated RIGHT and FULL joins **anywhere in the pipeline**, up to row order

Property theorems only.  `Props/C01joins.lean`, `Props/C16full.lean` and `Props/C01all.lean` treat the emulated joins of the
SQLite dialect (RIGHT = LEFT join of the swapped sources; FULL = key union ⟕ left ⟕ right, `_emit_full_join_as_complex`)
only **at the root** of a pipeline, because the emulation lists the rows in another order than the reference join and
every step above it then works on a permuted table.  Here the emulated joins may sit anywhere: below `extend` (plain or
windowed), `project`, `select_rows`, `select_columns`, `drop_columns`, `rename_columns`, `map_columns`, `order_rows`
(with or without limit), other joins (native or emulated, also *inside* the emulation pipeline of a FULL join) and
`concat_rows`; every dialect configuration (`allow_extend_merges` on or off; on a dialect without emulation the
theorems specialise to `Props/C01all.lean`).

**Statement** (`C01_translation_sound_nested`): same column set, same **multiset** of rows as the reference semantics
`sem Θ SemCfg.ref` (pandas' NULL placement, standard SQL joins).

**Scope.**  Structural (`Sql.SqlE.GoodE env p`, all Boolean): `InFragJ`, `WF`, `SqlWF`, `MapsOK`, `JoinWF`,
`JoinTypesSql` (no `OUTER`), `JoinKeysLen` (both key lists of a join have the same length – asserted by
`NaturalJoinNode.__init__`), `LabelSidesPlain`, `EnvOK false`; **no `JoinsNative`**.  Data (`Sql.SqlE.ScopeE Θ env cfg p`):
* C18: `AggsOrderFree Θ p` (order-free aggregates), `WindowsTotal` (window orders total within partitions or order-free
  window functions; `order_rows` limits do not cut through ties) – above an emulated join a window / a limit sees the rows
  in another order than the reference, these are exactly the conditions under which that does not matter;
* C01: `SqlScope` (null-free order columns at ordered windows with order-sensitive functions and at limits: the engine's
  NULL placement);
* **D19**: `FullKeysNullFree Θ env cfg p` – wherever the dialect emulates a FULL join, no join key of either side is null
  (`C16_nested_fullkeys_necessary`: cannot be dropped; `SqliteFullOK` – non-empty identical key lists – is not a
  hypothesis: outside it the translation fails, `C16_sqlite_full_scope`).

`C01_final_order_nested`: a final `order_rows` (total, null-free order) re-establishes **list** equality.
`C08_sql_cols_nested`, `C09_sql_row_count_nested`, `C04_merge_invariant_nested`: columns, row count, `MergeInv` (within
the scope of the main theorem).  `C16_sqlite_full_partial_all`: the root theorem of `Props/C16full.lean` for every `cfg`.

**Not proved** (what is missing for a full lift): the *unconditional* forms of C08 / C09 (no hypothesis on data or `Θ`)
for pipelines with nested emulated joins – the induction produces the witness table only inside the data-side scope;
a stage-A statement against `semE ec` (engine's NULL placement, no C18 scope) does not exist for nested emulation
because the operators above a permuted table are not functions of `semE`'s table.

Proof: `Proofs/SqlNode*.lean` (the per-node lemmas of the translation proof against an arbitrary reference table),
`Proofs/SqlNestedScope.lean`, `Proofs/SqlNested.lean` (induction on the fuel with a witness table "the rows as the SQL
lists them").
-/
namespace DAVerif
open DAVerif.Sql DAVerif.Sql.SqlE

/-! ## 1. The theorems -/

/-- **C01_translation_sound_nested.**  Every dialect configuration `cfg` (extend merges on or off; RIGHT / FULL joins
native or emulated), one interpretation `Θ` on both sides, both engines' NULL placement.  For every pipeline `p` of the
fragment with joins and `concat_rows` in scope (`GoodE`: any SQL join type **anywhere**; `ScopeE`: C18's and C01's data
scope and null-free keys at emulated FULL joins): if `to_sql` produces the query `q`, then `q` evaluates, the reference
semantics evaluates, and the two tables have the **same column set and the same multiset of rows**. -/
theorem C01_translation_sound_nested (Θ : Interp) (ec : EngineCfg) (env : Env) (cfg : SqlCfg) (p : Ops)
    (hg : GoodE env p) (hs : ScopeE Θ env cfg p) {q : Near} (h : toNearSql cfg p = .ok q) :
    ∃ T t, semSql Θ ec env q = .ok T ∧ sem Θ SemCfg.ref env p = .ok t ∧ t.cols = p.cols ∧ T.EquivS t := by
  obtain ⟨st', hrun⟩ := toNearSql_ok h
  obtain ⟨T, t, h1, h2, h3, h4, _⟩ := nested_root Θ ec env cfg p hg hs hrun
  exact ⟨T, t, h1, h2, h3, h4⟩

/-- **SQLite, all five SQL join types anywhere in the pipeline** (`cfg.emulateRightFull = true`, extend merges on or
off), hypotheses spelled out.  INNER, LEFT, CROSS are rendered natively, RIGHT as the swapped LEFT join (no guard on the
data: full strength for every null pattern of the keys), FULL through `_emit_full_join_as_complex` (guard
`FullKeysNullFree`, finding D19). -/
theorem C01_translation_sound_sqlite_five_joins (Θ : Interp) (ec : EngineCfg) (env : Env) (cfg : SqlCfg)
    (_hemu : cfg.emulateRightFull = true) (p : Ops)
    (hf : InFragJ p = true) (hwf : WF p) (hsq : SqlWF p) (hmp : MapsOK p) (hj : JoinWF p) (ht : JoinTypesSql p)
    (hk : JoinKeysLen p) (hl : LabelSidesPlain p) (he : EnvOK false env p)
    (hA : AggsOrderFree Θ p) (hW : WindowsTotal Θ SemCfg.ref env p) (hS : SqlScope Θ SemCfg.ref env p)
    (hF : FullKeysNullFree Θ env cfg p) {q : Near} (h : toNearSql cfg p = .ok q) :
    ∃ T t, semSql Θ ec env q = .ok T ∧ sem Θ SemCfg.ref env p = .ok t ∧ t.cols = p.cols ∧ T.EquivS t :=
  C01_translation_sound_nested Θ ec env cfg p ⟨hf, hwf, hsq, hmp, hj, ht, hk, hl, he⟩ ⟨hA, hW, hS, hF⟩ h

/-- **For pipelines built by the builders**: `Reachable p` replaces `WF`, `SqlWF`, `JoinWF` and `JoinKeysLen`
(`C26_reachable_wf`, `C01_reachable_sqlwf`, `C16_reachable_joinwf`, `Sql.SqlE.reachable_joinKeysLen`). -/
theorem C01_translation_sound_nested_reachable (Θ : Interp) (ec : EngineCfg) (env : Env) (cfg : SqlCfg) (p : Ops)
    (hr : Reachable p) (hf : InFragJ p = true) (hmp : MapsOK p) (ht : JoinTypesSql p) (hl : LabelSidesPlain p)
    (he : EnvOK false env p) (hs : ScopeE Θ env cfg p) {q : Near} (h : toNearSql cfg p = .ok q) :
    ∃ T t, semSql Θ ec env q = .ok T ∧ sem Θ SemCfg.ref env p = .ok t ∧ t.cols = p.cols ∧ T.EquivS t :=
  C01_translation_sound_nested Θ ec env cfg p
    ⟨hf, C26_reachable_wf hr, C01_reachable_sqlwf hr, hmp, C16_reachable_joinwf hr, ht, reachable_joinKeysLen hr, hl, he⟩
    hs h

/-- **Pipelines without FULL joins on SQLite** (RIGHT joins anywhere): no guard beyond the scope of C01/C18. -/
theorem C01_translation_sound_sqlite_right_anywhere (Θ : Interp) (ec : EngineCfg) (env : Env) (cfg : SqlCfg) (p : Ops)
    (hg : GoodE env p) (hnofull : FullKeysNullFree Θ env cfg p)
    (hA : AggsOrderFree Θ p) (hW : WindowsTotal Θ SemCfg.ref env p) (hS : SqlScope Θ SemCfg.ref env p)
    {q : Near} (h : toNearSql cfg p = .ok q) :
    ∃ T t, semSql Θ ec env q = .ok T ∧ sem Θ SemCfg.ref env p = .ok t ∧ t.cols = p.cols ∧ T.EquivS t :=
  C01_translation_sound_nested Θ ec env cfg p hg ⟨hA, hW, hS, hnofull⟩ h

/-- the guard `FullKeysNullFree` for a pipeline that has no FULL join -/
def noFullb : Ops → Bool
  | .table _ _ => true
  | .extend s _ _ _ _ _ | .project s _ _ | .selectRows s _ | .selectCols s _ | .dropCols s _
  | .order s _ _ _ | .rename s _ | .mapCols s _ _ | .convert s _ => noFullb s
  | .join a b _ _ jt => noFullb a && noFullb b && jt != .full
  | .concat a b _ _ _ => noFullb a && noFullb b

theorem fullKeysNullFree_of_noFull (Θ : Interp) (env : Env) (cfg : SqlCfg) (p : Ops) (h : noFullb p = true) :
    FullKeysNullFree Θ env cfg p := by
  induction p with
  | table => trivial
  | join a b oa ob jt iha ihb =>
    simp only [noFullb, Bool.and_eq_true, bne_iff_ne, ne_eq] at h
    exact ⟨iha h.1.1, ihb h.1.2, fun _ e => absurd e h.2⟩
  | concat a b i an bn iha ihb =>
    simp only [noFullb, Bool.and_eq_true] at h
    exact ⟨iha h.1, ihb h.2⟩
  | _ => rename_i ih; exact ih h

/-- **C08 with emulated joins anywhere**: the SQL result has exactly the declared column set (within the scope of the
main theorem). -/
theorem C08_sql_cols_nested (Θ : Interp) (ec : EngineCfg) (env : Env) (cfg : SqlCfg) (p : Ops)
    (hg : GoodE env p) (hs : ScopeE Θ env cfg p) {q : Near} (h : toNearSql cfg p = .ok q) :
    ∃ T, semSql Θ ec env q = .ok T ∧ ∀ c, c ∈ T.cols ↔ c ∈ p.cols := by
  obtain ⟨T, t, h1, _, h3, h4⟩ := C01_translation_sound_nested Θ ec env cfg p hg hs h
  exact ⟨T, h1, fun c => by rw [← h3]; exact h4.1 c⟩

/-- **C09 with emulated joins anywhere**: as many rows as the reference table (within the scope of the main theorem). -/
theorem C09_sql_row_count_nested (Θ : Interp) (ec : EngineCfg) (env : Env) (cfg : SqlCfg) (p : Ops)
    (hg : GoodE env p) (hs : ScopeE Θ env cfg p) {q : Near} (h : toNearSql cfg p = .ok q) :
    ∃ T t, semSql Θ ec env q = .ok T ∧ sem Θ SemCfg.ref env p = .ok t ∧ T.rows.length = t.rows.length := by
  obtain ⟨T, t, h1, h2, _, h4⟩ := C01_translation_sound_nested Θ ec env cfg p hg hs h
  refine ⟨T, t, h1, h2, ?_⟩
  have := h4.2.length_eq
  simpa using this

/-! ## 1b. The root theorem for SQLite's FULL join, every dialect configuration -/

/-- **C16_sqlite_full_partial_all** (`C16_sqlite_full_partial` for every dialect configuration: extend merges on or
off).  SQLite, FULL join at the root over two pipelines of the fragment (`Good`: their own joins rendered
natively), **guard: no join key of either side is null**.  If `to_sql` produces `q`, then `q`
evaluates, has exactly the columns of the two sides, and returns the rows of the reference FULL join as a multiset. -/
theorem C16_sqlite_full_partial_all (Θ : Interp) (ec : EngineCfg) (env : Env) (cfg : SqlCfg)
    (hemu : cfg.emulateRightFull = true) (a b : Ops) (onA onB : List String)
    (hga : Good cfg env a) (hgb : Good cfg env b)
    (hna : ∀ ta, semE ec Θ SemCfg.ref env a = .ok ta → NullFreeOn onA ta.rows)
    (hnb : ∀ tb, semE ec Θ SemCfg.ref env b = .ok tb → NullFreeOn onB tb.rows)
    {q : Near} (h : toNearSql cfg (.join a b onA onB .full) = .ok q) :
    SqliteFullOK onA onB ∧
    ∃ T ta tb, semSql Θ ec env q = .ok T ∧ semE ec Θ SemCfg.ref env a = .ok ta ∧ semE ec Θ SemCfg.ref env b = .ok tb ∧
      (∀ c, c ∈ T.cols ↔ c ∈ a.cols ∨ c ∈ b.cols) ∧
      (T.rows.map (fun r => r.select (Ops.join a b onA onB .full).cols)).Perm
        ((semJoin SemCfg.ref .full onA onB ta tb (appendNew a.cols b.cols)).selectCols
          (Ops.join a b onA onB .full).cols).rows := by
  obtain ⟨st', hrun⟩ := toNearSql_ok h
  have hfr : InFragJ (.join a b onA onB .full) = true := by simp [InFragJ, hga.frag, hgb.frag]
  rw [toNear_none_eq_ju _ _ _ hfr] at hrun
  obtain ⟨ta, hta⟩ := semG_ok_fragJ (sqlRowLe ec) Θ SemCfg.ref env a hga.frag false hga.env
  obtain ⟨tb, htb⟩ := semG_ok_fragJ (sqlRowLe ec) Θ SemCfg.ref env b hgb.frag false hgb.env
  have hsem : semE ec Θ SemCfg.ref env (.join a b onA onB .full) =
      .ok ((semJoin SemCfg.ref .full onA onB ta tb (appendNew a.cols b.cols)).selectCols
        (Ops.join a b onA onB .full).cols) := by
    simp only [semG, hta, htb]; rfl
  have hwf : WF (.join a b onA onB .full) := ⟨hga.wf, hgb.wf⟩
  have hfuel : 6 * (Ops.join a b onA onB .full).size + 6 = (6 * (Ops.join a b onA onB .full).size + 5) + 1 := rfl
  rw [hfuel] at hrun
  obtain ⟨hK, hKK, _⟩ := toNear_join_sqlite_full hemu hrun
  refine ⟨⟨hK, hKK⟩, ?_⟩
  obtain ⟨hju, u₁, hu₁, _, hsound⟩ :=
    transOK_join_sqlite_full_partial_all (Θ := Θ) (ec := ec) hemu _ a b onA onB hga hgb hna hnb
      _ 0 q st' _ (fun c hc => hc) hrun hsem
  obtain ⟨T, t1, t2, t3⟩ := root_of_soundP hsound hju hu₁ hwf.cols_ne_nil
  refine ⟨T, ta, tb, t1, hta, htb, fun c => (t2 c).trans (mem_joinNodeCols a b onA onB .full c), ?_⟩
  refine t3.trans ?_
  simp only [Table.selectCols]
  rw [select_map_select _ (fun c hc => hc)]


/-- **C04 with emulated joins anywhere**: the translation result satisfies the invariant of mergeable steps. -/
theorem C04_merge_invariant_nested (Θ : Interp) (ec : EngineCfg) (env : Env) (cfg : SqlCfg) (p : Ops)
    (hg : GoodE env p) (hs : ScopeE Θ env cfg p) {q : Near} (h : toNearSql cfg p = .ok q) : MergeInv q := by
  obtain ⟨st', hrun⟩ := toNearSql_ok h
  obtain ⟨_, _, _, _, _, _, hM⟩ := nested_root Θ ec env cfg p hg hs hrun
  exact hM

/-- **C01_final_order_nested.**  A pipeline that ends in `order_rows` over a source in scope (emulated joins anywhere in
the source): if the final order is total on the rows that reach it and its order columns contain no null, the SQL
result has the reference rows **as a list** (same rows, same order), limit or not. -/
theorem C01_final_order_nested (Θ : Interp) (ec : EngineCfg) (env : Env) (cfg : SqlCfg) (src : Ops)
    (cs rv : List String) (lim : Option Nat) (hg : GoodE env (.order src cs rv lim)) (hs : ScopeE Θ env cfg src)
    {ts : Table} (hts : sem Θ SemCfg.ref env src = .ok ts) (hnull : NullFreeOn cs ts.rows)
    (htot : TotalOn cs rv ts.rows) {q : Near} (h : toNearSql cfg (.order src cs rv lim) = .ok q) :
    ∃ T t, semSql Θ ec env q = .ok T ∧ sem Θ SemCfg.ref env (.order src cs rv lim) = .ok t ∧
      (∀ c, c ∈ T.cols ↔ c ∈ src.cols) ∧ T.rows.map (fun r => r.select src.cols) = t.rows := by
  obtain ⟨st', hrun⟩ := toNearSql_ok h
  have hfuel : 6 * (Ops.order src cs rv lim).size + 6 = (6 * (Ops.order src cs rv lim).size + 5) + 1 := rfl
  rw [hfuel] at hrun
  obtain ⟨T, t1, t2, t3⟩ := nested_root_final_order Θ ec env cfg src cs rv lim hg hs hts hnull htot hrun
  refine ⟨T, semOrder cs rv lim ts, t1, ?_, t2, t3⟩
  simp only [sem, hts]
  rfl

/-! ## 2. The guard at emulated FULL joins is necessary -/

open C16FullEx in
/-- **C16_nested_fullkeys_necessary.**  `A.natural_join(B, on=['k'], jointype='full')` with a null key on each side
(the witness of `C16_sqlite_full_nullkeys_necessary`): every hypothesis of `C01_translation_sound_nested` but
`FullKeysNullFree` holds – the structural scope, order-free aggregates, total windows, `SqlScope` –, the translation
succeeds and the query evaluates, but its rows are **not** the rows of the reference FULL join, not even as a multiset
(two rows against three). -/
theorem C16_nested_fullkeys_necessary :
    GoodE envF pF ∧ AggsOrderFree C18Ex.Θc pF ∧ WindowsTotal C18Ex.Θc SemCfg.ref envF pF ∧
    SqlScope C18Ex.Θc SemCfg.ref envF pF ∧ ¬ FullKeysNullFree C18Ex.Θc envF cfgS pF ∧
    ∃ q T t, toNearSql cfgS pF = .ok q ∧ semSql C18Ex.Θc EngineCfg.sqlite envF q = .ok T ∧
      sem C18Ex.Θc SemCfg.ref envF pF = .ok t ∧ ¬ T.EquivS t := by
  obtain ⟨hga, hgb, _, q, T, t, h1, h2, h3, h4, h5, h6⟩ := C16_sqlite_full_nullkeys_necessary
  refine ⟨⟨rfl, ⟨hga.wf, hgb.wf⟩, by decide, by decide, by decide, by decide, by decide, by decide, ?_⟩,
    ⟨trivial, trivial⟩, ⟨trivial, trivial⟩, ⟨trivial, trivial⟩, ?_, q, T, t, h1, h2, h3, ?_⟩
  · intro nc hnc
    simp only [pF, tA, tB, Ops.tables, List.cons_append, List.nil_append, List.mem_cons, List.not_mem_nil,
      or_false] at hnc
    rcases hnc with rfl | rfl
    · exact hga.env _ (by simp [tA, Ops.tables])
    · exact hgb.env _ (by simp [tB, Ops.tables])
  · intro hF
    have := (hF.2.2 rfl rfl).1 ⟨["k", "x"], [a1, a2]⟩ rfl
    exact absurd (this a1 (by simp) "k" (by simp)) (by decide)
  · intro hE
    have hc : t.cols = pF.cols :=
      (semG_cols_wf_fragJ rowLe C18Ex.Θc SemCfg.ref envF pF rfl t (by rw [semG_rowLe]; exact h3)).1
    apply h6
    rw [← hc]
    exact hE.2

/-! ## 3. Non-vacuity -/

namespace C16NestedEx
open C18Ex (Θc)
open C04Ex (plain_extOK)

/-- SQLite with and without extend merges -/
def cfgST : SqlCfg := ⟨true, true⟩
def cfgSF : SqlCfg := ⟨false, true⟩

def envM : Env :=
  [("A", ⟨["k", "x"], [[("k", .num 2), ("x", .num 20)], [("k", .num 1), ("x", .num 10)], [("k", .num 1), ("x", .num 11)]]⟩),
   ("B", ⟨["k", "y"], [[("k", .num 1), ("y", .num 5)], [("k", .num 3), ("y", .num 7)], [("k", .num 2), ("y", .num 6)]]⟩),
   ("C", ⟨["k", "z"], [[("k", .num 1), ("z", .num 100)], [("k", .num 3), ("z", .num 300)]]⟩),
   ("B2", ⟨["k", "y"], [[("k", .num 1), ("y", .num 5)], [("k", .num 2), ("y", .num 6)]]⟩)]
def tA : Ops := .table "A" ["k", "x"]
def tB : Ops := .table "B" ["k", "y"]
def tC : Ops := .table "C" ["k", "z"]
def tB2 : Ops := .table "B2" ["k", "y"]
def yPlus1 : Term := .app "+" [.col "y", .value (.int 1)] true false

theorem wfA : WF tA := ⟨by decide, by decide⟩
theorem wfB : WF tB := ⟨by decide, by decide⟩
theorem wfC : WF tC := ⟨by decide, by decide⟩
theorem wfB2 : WF tB2 := ⟨by decide, by decide⟩

theorem env_ok (p : Ops) (h : ∀ nc ∈ p.tables, nc ∈ [("A", ["k", "x"]), ("B", ["k", "y"]), ("C", ["k", "z"]),
    ("B2", ["k", "y"])]) : EnvOK false envM p := by
  intro nc hnc
  have := h nc hnc
  simp only [List.mem_cons, List.not_mem_nil, or_false] at this
  rcases this with rfl | rfl | rfl | rfl <;> exact ⟨_, rfl, by decide, fun h => by cases h⟩

/-! ### a RIGHT join below an `extend` -/

/-- `A.natural_join(B, on=['k'], jointype='right').extend({'w': 'y + 1'})` -/
def pR : Ops := .extend (.join tA tB ["k"] ["k"] .right) [("w", yPlus1)] [] [] [] false

theorem goodE_pR : GoodE envM pR :=
  ⟨rfl, ⟨⟨wfA, wfB⟩, plain_extOK _ _ (by decide) (by decide)⟩, by decide, by decide, by decide, by decide, by decide,
    by decide, env_ok _ (by decide)⟩

theorem scopeE_pR (cfg : SqlCfg) : ScopeE Θc envM cfg pR :=
  ⟨⟨trivial, trivial⟩, ⟨⟨trivial, trivial⟩, fun h => by cases h⟩, ⟨⟨trivial, trivial⟩, fun h => by cases h⟩,
    ⟨trivial, trivial, fun _ h => by cases h⟩⟩

/-- the SQL (swapped LEFT join below the extend step) lists the rows right-row-major, the reference left-row-major:
the two results differ as lists … -/
example : ∃ q T t, toNearSql cfgST pR = .ok q ∧ semSql Θc EngineCfg.sqlite envM q = .ok T ∧
    sem Θc SemCfg.ref envM pR = .ok t ∧
    T.rows = [[("k", .num 1), ("x", .num 10), ("y", .num 5), ("w", .num 6)],
      [("k", .num 1), ("x", .num 11), ("y", .num 5), ("w", .num 6)],
      [("k", .num 2), ("x", .num 20), ("y", .num 6), ("w", .num 7)],
      [("k", .num 3), ("x", .null), ("y", .num 7), ("w", .num 8)]] ∧
    t.rows = [[("k", .num 2), ("x", .num 20), ("y", .num 6), ("w", .num 7)],
      [("k", .num 1), ("x", .num 10), ("y", .num 5), ("w", .num 6)],
      [("k", .num 1), ("x", .num 11), ("y", .num 5), ("w", .num 6)],
      [("k", .num 3), ("x", .null), ("y", .num 7), ("w", .num 8)]] :=
  ⟨_, _, _, rfl, rfl, rfl, by decide +kernel, by decide +kernel⟩

/-- … and are the same multiset: the theorem applies (every dialect configuration, both engines) -/
example (ec : EngineCfg) (cfg : SqlCfg) {q : Near} (h : toNearSql cfg pR = .ok q) :
    ∃ T t, semSql Θc ec envM q = .ok T ∧ sem Θc SemCfg.ref envM pR = .ok t ∧ t.cols = pR.cols ∧ T.EquivS t :=
  C01_translation_sound_nested Θc ec envM cfg pR goodE_pR (scopeE_pR cfg) h

/-! ### a windowed extend over a RIGHT join -/

/-- `A.natural_join(B, on=['k'], jointype='right').extend({'c': '_.size()'}, partition_by=['k'])`: the window function
sees its partitions in another row order than in the reference; `size` is order free -/
def pW : Ops := .extend (.join tA tB ["k"] ["k"] .right) [("c", C04Ex.sizeW)] ["k"] [] [] true

theorem goodE_pW : GoodE envM pW := by
  refine ⟨rfl, ⟨⟨wfA, wfB⟩, ?_⟩, by decide, by decide, by decide, by decide, by decide, by decide, env_ok _ (by decide)⟩
  refine ⟨by decide, by decide, by decide, by decide, by decide, ?_, ?_⟩
  · intro h; cases h
  · intro _; decide

theorem scopeE_pW (cfg : SqlCfg) : ScopeE Θc envM cfg pW :=
  ⟨⟨trivial, trivial⟩,
    ⟨⟨trivial, trivial⟩, fun _ t _ => Or.inr (fun kv hkv => by
      simp only [List.mem_singleton] at hkv
      subst hkv
      exact C18Ex.size_win_orderFree)⟩,
    ⟨⟨trivial, trivial⟩, fun _ t _ => Or.inl (fun _ _ _ hc => by cases hc)⟩,
    ⟨trivial, trivial, fun _ h => by cases h⟩⟩

example (ec : EngineCfg) (cfg : SqlCfg) {q : Near} (h : toNearSql cfg pW = .ok q) :
    ∃ T t, semSql Θc ec envM q = .ok T ∧ sem Θc SemCfg.ref envM pW = .ok t ∧ t.cols = pW.cols ∧ T.EquivS t :=
  C01_translation_sound_nested Θc ec envM cfg pW goodE_pW (scopeE_pW cfg) h

/-- with extend merges the window step is a new step over the (never mergeable) join step: two queries -/
example : ∃ q, toNearSql cfgST pW = .ok q ∧ q.names = ["extend_1", "natural_join_0"] := ⟨_, rfl, by decide⟩

/-! ### a RIGHT join inside a FULL join, below an `extend` -/

/-- `A.natural_join(B, on=['k'], jointype='right').natural_join(C, on=['k'], jointype='full').extend({'w': 'y + 1'})`:
the FULL join is emulated by a pipeline that contains the (emulated) RIGHT join twice – once for the key projection,
once as the left input of the first LEFT join -/
def pRF : Ops :=
  .extend (.join (.join tA tB ["k"] ["k"] .right) tC ["k"] ["k"] .full) [("w", yPlus1)] [] [] [] false

theorem goodE_pRF : GoodE envM pRF :=
  ⟨rfl, ⟨⟨⟨wfA, wfB⟩, wfC⟩, plain_extOK _ _ (by decide) (by decide)⟩, by decide, by decide, by decide, by decide,
    by decide, by decide, env_ok _ (by decide)⟩

/-- the table of the inner RIGHT join: no null key -/
theorem sem_inner : (sem Θc SemCfg.ref envM (.join tA tB ["k"] ["k"] .right)).toOption = some ⟨["k", "x", "y"],
    [[("k", .num 2), ("x", .num 20), ("y", .num 6)], [("k", .num 1), ("x", .num 10), ("y", .num 5)],
     [("k", .num 1), ("x", .num 11), ("y", .num 5)], [("k", .num 3), ("x", .null), ("y", .num 7)]]⟩ := by
  decide +kernel

theorem scopeE_pRF (cfg : SqlCfg) : ScopeE Θc envM cfg pRF := by
  refine ⟨⟨⟨trivial, trivial⟩, trivial⟩, ⟨⟨⟨trivial, trivial⟩, trivial⟩, fun h => by cases h⟩,
    ⟨⟨⟨trivial, trivial⟩, trivial⟩, fun h => by cases h⟩, ⟨trivial, trivial, fun _ h => by cases h⟩, trivial, ?_⟩
  intro _ _
  refine ⟨?_, ?_⟩
  · intro ta hta
    have := sem_inner
    rw [hta] at this
    cases this
    decide
  · intro tb htb
    have : sem Θc SemCfg.ref envM tC = .ok ⟨["k", "z"], [[("k", .num 1), ("z", .num 100)],
        [("k", .num 3), ("z", .num 300)]]⟩ := rfl
    rw [this] at htb
    cases htb
    decide

/-- twelve queries: the emulation pipeline of the FULL join with the swapped LEFT join inside it, twice -/
example : (toNearSql cfgST pRF).toOption.map (fun q => q.names.length) = some 12 := by decide +kernel

/-- evaluated: the four rows of the reference (`k = 2` has no partner in `C`, `k = 3` none in `A`) -/
example : (toNearSql cfgST pRF >>= semSql Θc EngineCfg.sqlite envM).toOption.map (·.rows) =
    some [[("k", .num 1), ("x", .num 10), ("y", .num 5), ("z", .num 100), ("w", .num 6)],
      [("k", .num 1), ("x", .num 11), ("y", .num 5), ("z", .num 100), ("w", .num 6)],
      [("k", .num 3), ("x", .null), ("y", .num 7), ("z", .num 300), ("w", .num 8)],
      [("k", .num 2), ("x", .num 20), ("y", .num 6), ("z", .null), ("w", .num 7)]] := by decide +kernel

example (ec : EngineCfg) (cfg : SqlCfg) {q : Near} (h : toNearSql cfg pRF = .ok q) :
    ∃ T t, semSql Θc ec envM q = .ok T ∧ sem Θc SemCfg.ref envM pRF = .ok t ∧ t.cols = pRF.cols ∧ T.EquivS t :=
  C01_translation_sound_nested Θc ec envM cfg pRF goodE_pRF (scopeE_pRF cfg) h

/-! ### a final `order_rows` over a RIGHT join: list equality -/

/-- `A.natural_join(B2, on=['k'], jointype='right').order_rows(['k', 'x'])` -/
def pO : Ops := .order (.join tA tB2 ["k"] ["k"] .right) ["k", "x"] [] none

theorem sem_pO_src : sem Θc SemCfg.ref envM (.join tA tB2 ["k"] ["k"] .right) = .ok ⟨["k", "x", "y"],
    [[("k", .num 2), ("x", .num 20), ("y", .num 6)], [("k", .num 1), ("x", .num 10), ("y", .num 5)],
     [("k", .num 1), ("x", .num 11), ("y", .num 5)]]⟩ := by
  have h : (sem Θc SemCfg.ref envM (.join tA tB2 ["k"] ["k"] .right)).toOption = some ⟨["k", "x", "y"],
      [[("k", .num 2), ("x", .num 20), ("y", .num 6)], [("k", .num 1), ("x", .num 10), ("y", .num 5)],
       [("k", .num 1), ("x", .num 11), ("y", .num 5)]]⟩ := by decide +kernel
  cases hs : sem Θc SemCfg.ref envM (.join tA tB2 ["k"] ["k"] .right) with
  | error e => rw [hs] at h; cases h
  | ok t => rw [hs] at h; cases h; rfl

example (ec : EngineCfg) (cfg : SqlCfg) {q : Near} (h : toNearSql cfg pO = .ok q) :
    ∃ T t, semSql Θc ec envM q = .ok T ∧ sem Θc SemCfg.ref envM pO = .ok t ∧
      (∀ c, c ∈ T.cols ↔ c ∈ (Ops.join tA tB2 ["k"] ["k"] .right).cols) ∧
      T.rows.map (fun r => r.select (Ops.join tA tB2 ["k"] ["k"] .right).cols) = t.rows :=
  C01_final_order_nested Θc ec envM cfg (.join tA tB2 ["k"] ["k"] .right) ["k", "x"] [] none
    ⟨rfl, ⟨wfA, wfB2⟩, by decide, by decide, by decide, by decide, by decide, by decide, env_ok _ (by decide)⟩
    ⟨⟨trivial, trivial⟩, ⟨trivial, trivial⟩, ⟨trivial, trivial⟩, ⟨trivial, trivial, fun _ h => by cases h⟩⟩
    sem_pO_src (by decide) (by decide) h

/-- the SQL of the join alone lists `k = 1` first (right-row-major), the reference `k = 2` (`sem_pO_src`) -/
example : (toNearSql cfgST (.join tA tB2 ["k"] ["k"] .right) >>= semSql Θc EngineCfg.sqlite envM).toOption.map (·.rows) =
    some [[("k", .num 1), ("y", .num 5), ("x", .num 10)], [("k", .num 1), ("y", .num 5), ("x", .num 11)],
      [("k", .num 2), ("y", .num 6), ("x", .num 20)]] := by decide +kernel

end C16NestedEx

end DAVerif
