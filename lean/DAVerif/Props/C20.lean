import DAVerif.Proofs.DataSpace
/-!
# C20 — Data spaces behave like a keyed store of tables

Property theorems only (model: `Space/DataSpace.lean`, lemmas: `Proofs/DataSpace.lean`).
Every theorem quantifies over all key / table / description / pipeline types, all evaluators `evalOps`, all
states and all histories.  The model is of the code with `fixes/dataspace-auto-key-skips-taken-names.diff`
applied (D11); `TmpInjective P` ("`da_temp_<a>` = `da_temp_<b>` only if a = b") is the only hypothesis about
the parameters and is proved for the real name function (`daTemp_injective`).
-/
namespace DAVerif.Space

variable {κ τ δ ω : Type} [DecidableEq κ]

/-! ## 1. Specification: a map from keys to tables (written independently of the model) -/
namespace Spec

/-- what a caller can observe of one operation: it raised, or it returned this -/
inductive SOut (κ τ δ : Type) where
  | err | unit | descr (k : κ) (d : δ) | table (t : τ) | keys (ks : List κ)
  deriving DecidableEq

/-- the store is a partial function from keys to tables; `upd m k o` rebinds (or unbinds) one key -/
def upd (m : κ → Option τ) (k : κ) (o : Option τ) : κ → Option τ := fun k' => if k' = k then o else m k'

/-- Storing table `v` (description `d`) under the key argument `key` with `allow_overwrite = b`:
* a `str` key: refused (error, store unchanged) iff overwriting is not allowed and the key is bound;
  otherwise the key is (re)bound to `v` and a description named `key` is returned;
* `None`: the table is bound to SOME key that was not bound before, which is returned;
* anything else: error, store unchanged. -/
def write (m : κ → Option τ) (key : KeyArg κ) (b : Bool) (v : τ) (d : δ)
    (out : SOut κ τ δ) (m' : κ → Option τ) : Prop :=
  match key with
  | .str k => if b = false ∧ m k ≠ none then out = .err ∧ m' = m
              else out = .descr k d ∧ m' = upd m k (some v)
  | .auto => ∃ k, m k = none ∧ out = .descr k d ∧ m' = upd m k (some v)
  | .bad => out = .err ∧ m' = m

/-- One operation of the keyed store: which outcomes `out` and next stores `m'` are allowed from `m`.
A failed operation leaves the store unchanged.  `execute` stores the pipeline's value *on the current
contents* `m`. -/
def step (P : Params κ τ δ ω) (m : κ → Option τ) :
    Op κ τ ω → SOut κ τ δ → (κ → Option τ) → Prop
  | .insert key value ow, out, m' =>
    match value, ow with
    | some v, some b => write m key b v (P.descOf v) out m'
    | _, _ => out = .err ∧ m' = m                      -- not a table / not a bool
  | .execute ops key ow, out, m' =>
    match ow with
    | some b =>
      match P.evalOps ops m with
      | .ok v => write m key b v (P.descOf v) out m'
      | .error _ => out = .err ∧ m' = m
    | none => out = .err ∧ m' = m
  | .remove key, out, m' =>
    match key with
    | some k => if m k ≠ none then out = .unit ∧ m' = upd m k none else out = .err ∧ m' = m
    | none => out = .err ∧ m' = m
  | .describe key, out, m' =>
    match key with
    | some k => (match m k with
                 | some v => out = .descr k (P.descOf v) ∧ m' = m
                 | none => out = .err ∧ m' = m)
    | none => out = .err ∧ m' = m
  | .retrieve key, out, m' =>
    match key with
    | some k => (match m k with
                 | some v => out = .table v ∧ m' = m
                 | none => out = .err ∧ m' = m)
    | none => out = .err ∧ m' = m
  | .keys, out, m' => ∃ ks, out = .keys ks ∧ (∀ k, k ∈ ks ↔ m k ≠ none) ∧ m' = m

/-- a history of the keyed store with its observed outcomes -/
inductive Run (P : Params κ τ δ ω) :
    (κ → Option τ) → List (Op κ τ ω) → List (SOut κ τ δ) → (κ → Option τ) → Prop
  | nil (m) : Run P m [] [] m
  | cons {m m1 m2 op out h outs} : step P m op out m1 → Run P m1 h outs m2 → Run P m (op :: h) (out :: outs) m2

/-- the empty store -/
def empty : κ → Option τ := fun _ => none

end Spec

open Spec

/-- the observable part of an implementation outcome (the error class is compared by the correspondence
suite, the specification only says *that* the operation raises) -/
def outAbs : Except Err (Out κ τ δ) → SOut κ τ δ
  | .error _ => .err
  | .ok .unit => .unit
  | .ok (.descr k d) => .descr k d
  | .ok (.table t) => .table t
  | .ok (.keys ks) => .keys ks

/-- abstraction of a DataModelSpace state: `data_map` read as a map -/
def Mem.abs (s : Mem.State κ τ) : κ → Option τ := AL.lookup s.map

/-- abstraction of a DBSpace state: the database tables the space knows (`description_map`) -/
def DB.abs (s : DB.State κ τ δ) : κ → Option τ := fun k => if AL.has s.descr k then AL.lookup s.db k else none

/-- Invariant of DBSpace (`C20_db_inv`): every described key names a table of the database and carries that
table's description; every key eligible for auto-drop is a described key. -/
structure DB.Inv (P : Params κ τ δ ω) (s : DB.State κ τ δ) : Prop where
  descr_in_db : ∀ k d, AL.lookup s.descr k = some d → ∃ v, AL.lookup s.db k = some v ∧ d = P.descOf v
  auto_sub : ∀ k, k ∈ s.autoDrop → AL.has s.descr k = true
  auto_nodup : s.autoDrop.Nodup

/-- scope: the space owns its database – every table of the database is a key of the space (true for a space
created on an empty database and used only through the space) -/
def DB.Owned (s : DB.State κ τ δ) : Prop := ∀ k, AL.has s.db k = true → AL.has s.descr k = true

/-- every described key is eligible for auto-drop (true when `model_table(eligible_for_auto_drop=False)` is
never called by the user) -/
def DB.AutoAll (s : DB.State κ τ δ) : Prop := ∀ k, AL.has s.descr k = true → k ∈ s.autoDrop

/-- the operation is a write under the explicit key `k` with `allow_overwrite=False` -/
def Op.IsNoOverwriteAt : Op κ τ ω → κ → Prop
  | .insert (.str k') _ (some false), k => k' = k
  | .execute _ (.str k') (some false), k => k' = k
  | _, _ => False

/-- the operation is a write with `allow_overwrite=False` (any key argument) -/
def Op.IsNoOverwrite : Op κ τ ω → Prop
  | .insert _ _ (some false) => True
  | .execute _ _ (some false) => True
  | _ => False

/-- the operation is a write with `key=None` -/
def Op.IsAuto : Op κ τ ω → Prop
  | .insert .auto _ _ => True
  | .execute _ .auto _ => True
  | _ => False

/-! ### small facts used below -/

theorem lookup_set_fn {β : Type} (l : List (κ × β)) (k : κ) (v : β) :
    AL.lookup (AL.set l k v) = Spec.upd (AL.lookup l) k (some v) := by
  funext k'; exact AL.lookup_set l k v k'

theorem lookup_erase_fn {β : Type} (l : List (κ × β)) (k : κ) :
    AL.lookup (AL.erase l k) = Spec.upd (AL.lookup l) k none := by
  funext k'; exact AL.lookup_erase l k k'

/-! ### inversion of the operation classes -/

omit [DecidableEq κ] in
theorem Op.isNoOverwriteAt_inv {op : Op κ τ ω} {k : κ} (h : op.IsNoOverwriteAt k) :
    (∃ value, op = .insert (.str k) value (some false)) ∨ (∃ ops, op = .execute ops (.str k) (some false)) := by
  cases op with
  | insert key value ow =>
    left
    cases key with
    | str k' =>
      cases ow with
      | some b =>
        cases b with
        | false => simp only [Op.IsNoOverwriteAt] at h; subst h; exact ⟨_, rfl⟩
        | true => simp [Op.IsNoOverwriteAt] at h
      | none => simp [Op.IsNoOverwriteAt] at h
    | auto => simp [Op.IsNoOverwriteAt] at h
    | bad => simp [Op.IsNoOverwriteAt] at h
  | execute ops key ow =>
    right
    cases key with
    | str k' =>
      cases ow with
      | some b =>
        cases b with
        | false => simp only [Op.IsNoOverwriteAt] at h; subst h; exact ⟨_, rfl⟩
        | true => simp [Op.IsNoOverwriteAt] at h
      | none => simp [Op.IsNoOverwriteAt] at h
    | auto => simp [Op.IsNoOverwriteAt] at h
    | bad => simp [Op.IsNoOverwriteAt] at h
  | remove _ => simp [Op.IsNoOverwriteAt] at h
  | describe _ => simp [Op.IsNoOverwriteAt] at h
  | retrieve _ => simp [Op.IsNoOverwriteAt] at h
  | keys => simp [Op.IsNoOverwriteAt] at h

omit [DecidableEq κ] in
theorem Op.isNoOverwrite_inv {op : Op κ τ ω} (h : op.IsNoOverwrite) :
    (∃ key value, op = .insert key value (some false)) ∨ (∃ ops key, op = .execute ops key (some false)) := by
  cases op with
  | insert key value ow =>
    left
    cases ow with
    | some b =>
      cases b with
      | false => exact ⟨_, _, rfl⟩
      | true => simp [Op.IsNoOverwrite] at h
    | none => simp [Op.IsNoOverwrite] at h
  | execute ops key ow =>
    right
    cases ow with
    | some b =>
      cases b with
      | false => exact ⟨_, _, rfl⟩
      | true => simp [Op.IsNoOverwrite] at h
    | none => simp [Op.IsNoOverwrite] at h
  | remove _ => simp [Op.IsNoOverwrite] at h
  | describe _ => simp [Op.IsNoOverwrite] at h
  | retrieve _ => simp [Op.IsNoOverwrite] at h
  | keys => simp [Op.IsNoOverwrite] at h

omit [DecidableEq κ] in
theorem Op.isAuto_inv {op : Op κ τ ω} (h : op.IsAuto) :
    (∃ value ow, op = .insert .auto value ow) ∨ (∃ ops ow, op = .execute ops .auto ow) := by
  cases op with
  | insert key value ow => left; cases key <;> first | exact ⟨_, _, rfl⟩ | simp [Op.IsAuto] at h
  | execute ops key ow => right; cases key <;> first | exact ⟨_, _, rfl⟩ | simp [Op.IsAuto] at h
  | remove _ => simp [Op.IsAuto] at h
  | describe _ => simp [Op.IsAuto] at h
  | retrieve _ => simp [Op.IsAuto] at h
  | keys => simp [Op.IsAuto] at h

/-! ## 2. DataModelSpace refines the keyed store -/

theorem Mem.resolve_map (P : Params κ τ δ ω) (s : Mem.State κ τ) (key : KeyArg κ) :
    (Mem.resolve P s key).1.map = s.map := by
  cases key <;> rfl

/-- **C20 (in-memory space, one step, from every state).**  Each operation of `DataModelSpace` is an
operation of the keyed store: the outcome and the next contents are ones the specification allows. -/
theorem C20_mem_step_refines (P : Params κ τ δ ω) (hinj : TmpInjective P) (s : Mem.State κ τ)
    (op : Op κ τ ω) :
    Spec.step P (Mem.abs s) op (outAbs (Mem.step P s op).1) (Mem.abs (Mem.step P s op).2) := by
  have hfresh := fresh_spec P hinj (AL.keys s.map) s.nTmp
  have hfl : AL.lookup s.map (P.tmpName (fresh P (AL.keys s.map) s.nTmp)) = none := by
    have := hfresh.1
    rw [AL.mem_keys_iff] at this
    simpa using this
  cases op with
  | insert key value ow =>
    cases value with
    | none =>
      cases key <;> cases ow <;> simp [Mem.step, Mem.insert, Mem.resolve, Spec.step, outAbs, Mem.abs]
    | some v =>
      cases ow with
      | none => cases key <;> simp [Mem.step, Mem.insert, Mem.resolve, Spec.step, outAbs, Mem.abs]
      | some b =>
        cases key with
        | bad => simp [Mem.step, Mem.insert, Mem.resolve, Spec.step, Spec.write, outAbs, Mem.abs]
        | str k =>
          cases b <;> cases h : AL.lookup s.map k <;>
            simp [Mem.step, Mem.insert, Mem.resolve, Spec.step, Spec.write, Mem.abs, AL.has, h, outAbs,
              lookup_set_fn]
        | auto =>
          simp only [Mem.step, Mem.insert, Mem.resolve, Spec.step, Spec.write, Mem.abs, AL.has, hfl,
            Option.isSome_none, Bool.and_false, Bool.false_eq_true, if_false, outAbs, lookup_set_fn]
          exact ⟨_, hfl, rfl, rfl⟩
  | execute ops key ow =>
    cases ow with
    | none => cases key <;> simp [Mem.step, Mem.execute, Mem.resolve, Spec.step, outAbs, Mem.abs]
    | some b =>
      cases key with
      | bad =>
        simp only [Mem.step, Mem.execute, Mem.resolve, Spec.step, Spec.write, outAbs, Mem.abs]
        cases P.evalOps ops (AL.lookup s.map) <;> simp
      | str k =>
        cases b <;> cases h : AL.lookup s.map k <;> cases he : P.evalOps ops (AL.lookup s.map) <;>
          simp [Mem.step, Mem.execute, Mem.resolve, Spec.step, Spec.write, Mem.abs, AL.has, h, he, outAbs,
            lookup_set_fn]
      | auto =>
        simp only [Mem.step, Mem.execute, Mem.resolve, Spec.step, Spec.write, Mem.abs, AL.has, hfl,
          Option.isSome_none, Bool.and_false, Bool.false_eq_true, if_false]
        cases P.evalOps ops (AL.lookup s.map) with
        | error e => simp [outAbs]
        | ok v =>
          simp only [outAbs, lookup_set_fn]
          exact ⟨_, hfl, rfl, rfl⟩
  | remove key =>
    cases key with
    | none => simp [Mem.step, Mem.remove, Spec.step, outAbs]
    | some k =>
      cases h : AL.lookup s.map k <;>
        simp [Mem.step, Mem.remove, Spec.step, Mem.abs, AL.has, outAbs, lookup_erase_fn, h]
  | describe key =>
    cases key with
    | none => simp [Mem.step, Mem.describe, Spec.step, outAbs]
    | some k =>
      simp only [Mem.step, Mem.describe, Spec.step, Mem.abs]
      cases h : AL.lookup s.map k <;> simp [outAbs]
  | retrieve key =>
    cases key with
    | none => simp [Mem.step, Mem.retrieve, Spec.step, outAbs]
    | some k =>
      simp only [Mem.step, Mem.retrieve, Spec.step, Mem.abs]
      cases h : AL.lookup s.map k <;> simp [outAbs]
  | keys =>
    simp only [Mem.step, Spec.step, outAbs, Mem.abs]
    refine ⟨_, rfl, fun k => ?_, trivial⟩
    rw [AL.mem_keys_iff]
    cases AL.lookup s.map k <;> simp

/-- **C20 (in-memory space, every history).**  For every history from every state, the outcomes of
`DataModelSpace` and its final contents are a run of the keyed store from the abstraction of the start state
(in particular from the empty space: `Mem.abs Mem.init = Spec.empty`). -/
theorem C20_refines_mem (P : Params κ τ δ ω) (hinj : TmpInjective P) (h : List (Op κ τ ω))
    (s : Mem.State κ τ) :
    Spec.Run P (Mem.abs s) h ((Mem.run P s h).1.map outAbs) (Mem.abs (Mem.run P s h).2) := by
  induction h generalizing s with
  | nil => exact Spec.Run.nil _
  | cons op h ih =>
    simp only [Mem.run, List.map_cons]
    exact Spec.Run.cons (C20_mem_step_refines P hinj s op) (ih _)

/-! ## 3. DBSpace: invariant -/

section DBInv
variable (P : Params κ τ δ ω)

theorem DB.Inv_of_same {s s' : DB.State κ τ δ} (h : DB.SameStore s s') (hi : DB.Inv P s) : DB.Inv P s' := by
  obtain ⟨h1, h2, h3⟩ := h
  exact ⟨by rw [h1, h3]; exact hi.descr_in_db, by rw [h1, h2]; exact hi.auto_sub, by rw [h2]; exact hi.auto_nodup⟩

theorem DB.Owned_of_same {s s' : DB.State κ τ δ} (h : DB.SameStore s s') (ho : DB.Owned s) : DB.Owned s' := by
  obtain ⟨h1, _, h3⟩ := h
  unfold DB.Owned; rw [h1, h3]; exact ho

theorem DB.AutoAll_of_same {s s' : DB.State κ τ δ} (h : DB.SameStore s s') (ho : DB.AutoAll s) :
    DB.AutoAll s' := by
  obtain ⟨h1, h2, _⟩ := h
  unfold DB.AutoAll; rw [h1, h2]; exact ho

theorem DB.Inv_removeKey {s : DB.State κ τ δ} (hi : DB.Inv P s) (k : κ) : DB.Inv P (DB.removeKey s k) := by
  constructor
  · intro k' d h
    rw [DB.removeKey_descr] at h
    by_cases hk : k' = k
    · simp [hk] at h
    · simp only [hk, if_false] at h
      rw [DB.removeKey_db]; simp only [hk, if_false]
      exact hi.descr_in_db k' d h
  · intro k' h
    rw [DB.removeKey_auto] at h
    have := hi.auto_sub k' h.1
    simp only [DB.removeKey, AL.has_erase, this, h.2, decide_false, Bool.not_false, Bool.and_self]
  · exact hi.auto_nodup.filter _

theorem DB.Owned_removeKey {s : DB.State κ τ δ} (ho : DB.Owned s) (k : κ) : DB.Owned (DB.removeKey s k) := by
  intro k' h
  simp only [AL.has, DB.removeKey_db] at h
  by_cases hk : k' = k
  · simp [hk] at h
  · simp only [hk, if_false] at h
    simp only [DB.removeKey, AL.has_erase, hk, decide_false, Bool.not_false, Bool.true_and]
    exact ho k' h

theorem DB.AutoAll_removeKey {s : DB.State κ τ δ} (ho : DB.AutoAll s) (k : κ) :
    DB.AutoAll (DB.removeKey s k) := by
  intro k' h
  simp only [DB.removeKey, AL.has_erase, Bool.and_eq_true, Bool.not_eq_eq_eq_not, Bool.not_true,
    decide_eq_false_iff_not] at h
  rw [DB.removeKey_auto]
  exact ⟨ho k' h.2, h.1⟩

/-- the state after table `v` has been stored under `k` on top of `s2` -/
structure DB.Stored (s2 s' : DB.State κ τ δ) (k : κ) (v : τ) : Prop where
  descr : s'.descr = AL.set s2.descr k (P.descOf v)
  auto : s'.autoDrop = DB.setAdd s2.autoDrop k
  db : ∀ k', AL.lookup s'.db k' = if k' = k then some v else AL.lookup s2.db k'

theorem DB.Inv_stored {s2 s' : DB.State κ τ δ} {k : κ} {v : τ} (h : DB.Stored P s2 s' k v)
    (hi : DB.Inv P s2) : DB.Inv P s' := by
  constructor
  · intro k' d hd
    rw [h.descr, AL.lookup_set] at hd
    rw [h.db]
    by_cases hk : k' = k
    · simp only [hk, if_true, Option.some.injEq] at hd ⊢
      exact ⟨v, rfl, hd.symm⟩
    · simp only [hk, if_false] at hd ⊢
      exact hi.descr_in_db k' d hd
  · intro k' hk'
    rw [h.auto, mem_setAdd] at hk'
    rw [h.descr, AL.has_set]
    rcases hk' with rfl | hk'
    · simp
    · simp [hi.auto_sub k' hk']
  · rw [h.auto]; unfold DB.setAdd
    by_cases hm : k ∈ s2.autoDrop
    · rw [if_pos hm]; exact hi.auto_nodup
    · rw [if_neg hm]
      exact List.nodup_append.mpr ⟨hi.auto_nodup, by simp, by intro a ha b hb; simp at hb; subst hb; rintro rfl; exact hm ha⟩

theorem DB.Owned_stored {s2 s' : DB.State κ τ δ} {k : κ} {v : τ} (h : DB.Stored P s2 s' k v)
    (ho : DB.Owned s2) : DB.Owned s' := by
  intro k' hk'
  simp only [AL.has, h.db] at hk'
  rw [h.descr, AL.has_set]
  by_cases hk : k' = k
  · simp [hk]
  · simp only [hk, if_false] at hk'
    simp [ho k' hk']

theorem DB.AutoAll_stored {s2 s' : DB.State κ τ δ} {k : κ} {v : τ} (h : DB.Stored P s2 s' k v)
    (ho : DB.AutoAll s2) : DB.AutoAll s' := by
  intro k' hk'
  rw [h.descr, AL.has_set] at hk'
  rw [h.auto, mem_setAdd]
  by_cases hk : k' = k
  · exact Or.inl hk
  · simp only [hk, decide_false, Bool.false_or] at hk'
    exact Or.inr (ho k' hk')

/-- a predicate on DBSpace states that only looks at the stores and survives removal and storing -/
structure DB.Stable (I : DB.State κ τ δ → Prop) : Prop where
  same : ∀ {s s'}, DB.SameStore s s' → I s → I s'
  removeKey : ∀ {s} (_ : I s) (k : κ), I (DB.removeKey s k)
  stored : ∀ {s2 s' k v}, DB.Stored P s2 s' k v → I s2 → I s'

theorem DB.stable_step {I : DB.State κ τ δ → Prop} (hI : DB.Stable P I) (s : DB.State κ τ δ)
    (op : Op κ τ ω) (h : I s) : I (DB.step P s op).2 := by
  cases op with
  | insert key value ow =>
    rcases DB.insert_cases P s key value ow with ⟨_, hs, _⟩ | ⟨k, v, b, db', _, _, _, _, hi, _, hd, ha, hdb⟩
    · exact hI.same hs h
    · refine hI.stored (s2 := s) (k := k) (v := v) ⟨hd, ha, ?_⟩ h
      intro k'; rw [show (DB.step P s (.insert key value ow)).2.db = db' from hdb]
      exact insertTable_ok s.db db' v k b hi k'
  | execute ops key ow =>
    rcases DB.execute_cases P s ops key ow with ⟨_, hs, _⟩ | ⟨k, _, _, _, _, hs, _⟩ |
      ⟨k, b, v, s2, _, _, hs2, _, hn, _, hd, ha, hdb⟩
    · exact hI.same hs h
    · exact hI.same hs (hI.removeKey h k)
    · have h2 : I s2 := by
        rcases hs2 with ⟨_, _, hs⟩ | ⟨_, hs⟩
        · exact hI.same hs (hI.removeKey h k)
        · exact hI.same hs h
      refine hI.stored (s2 := s2) (k := k) (v := v) ⟨hd, ha, ?_⟩ h2
      intro k'; rw [show (DB.step P s (.execute ops key ow)).2.db = s2.db ++ [(k, v)] from hdb, lookup_snoc]
      have hn' : AL.lookup s2.db k = none := (AL.has_eq_false_iff _ _).mp hn
      by_cases hk : k' = k
      · subst hk; simp [hn']
      · simp [hk]
  | remove key =>
    cases key with
    | none => exact h
    | some k =>
      simp only [DB.step, DB.remove]
      by_cases hh : AL.has s.descr k = true
      · rw [if_pos hh]; exact hI.removeKey h k
      · rw [if_neg hh]; exact h
  | describe key =>
    cases key with
    | none => exact h
    | some k => simp only [DB.step, DB.describe]; cases AL.lookup s.descr k <;> exact h
  | retrieve key =>
    cases key with
    | none => exact h
    | some k =>
      simp only [DB.step, DB.retrieve]
      cases AL.lookup s.descr k with
      | none => exact h
      | some d => simp only; cases Db.readTable s.db k <;> exact h
  | keys => exact h

theorem DB.stable_run {I : DB.State κ τ δ → Prop} (hI : DB.Stable P I) (h : List (Op κ τ ω))
    (s : DB.State κ τ δ) (hs : I s) : I (DB.run P s h).2 := by
  induction h generalizing s with
  | nil => exact hs
  | cons op h ih => exact ih _ (DB.stable_step P hI s op hs)

theorem DB.stable_inv : DB.Stable P (DB.Inv P) :=
  ⟨DB.Inv_of_same P, DB.Inv_removeKey P, DB.Inv_stored P⟩
theorem DB.stable_owned : DB.Stable P (DB.Owned (κ := κ) (τ := τ) (δ := δ)) :=
  ⟨DB.Owned_of_same, DB.Owned_removeKey, DB.Owned_stored P⟩
theorem DB.stable_autoAll : DB.Stable P (DB.AutoAll (κ := κ) (τ := τ) (δ := δ)) :=
  ⟨DB.AutoAll_of_same, DB.AutoAll_removeKey, DB.AutoAll_stored P⟩

/-- **C20 (database space, invariant, one step from every state).**  Every operation of `DBSpace` – also a
failing one, also the `execute` that fails after dropping the old table – preserves: every described key names
a database table with that description and every auto-drop key is described (`Inv`); the database holds no
table the space does not know (`Owned`); every described key is eligible for auto-drop (`AutoAll`).
No hypothesis on the parameters, no guard. -/
theorem C20_db_inv_step (s : DB.State κ τ δ) (op : Op κ τ ω) :
    (DB.Inv P s → DB.Inv P (DB.step P s op).2) ∧
    (DB.Owned s → DB.Owned (DB.step P s op).2) ∧
    (DB.AutoAll s → DB.AutoAll (DB.step P s op).2) :=
  ⟨DB.stable_step P (DB.stable_inv P) s op, DB.stable_step P (DB.stable_owned P) s op,
   DB.stable_step P (DB.stable_autoAll P) s op⟩

/-- **C20 (database space, invariant, every history).**  After every history on a space created over a
database with arbitrary pre-existing tables `db0`, `Inv` and `AutoAll` hold; created over an empty database,
`Owned` holds as well (described keys = database tables). -/
theorem C20_db_inv (h : List (Op κ τ ω)) (db0 : List (κ × τ)) :
    DB.Inv P (DB.run P (DB.init db0) h).2 ∧ DB.AutoAll (DB.run P (DB.init db0) h).2 ∧
    (db0 = [] → DB.Owned (DB.run P (DB.init db0) h).2) := by
  refine ⟨DB.stable_run P (DB.stable_inv P) h _ ⟨?_, ?_, ?_⟩, DB.stable_run P (DB.stable_autoAll P) h _ ?_, ?_⟩
  · intro k d hk; simp [DB.init] at hk
  · intro k hk; simp [DB.init] at hk
  · simp [DB.init]
  · intro k hk; simp [DB.init, AL.has] at hk
  · rintro rfl
    exact DB.stable_run P (DB.stable_owned P) h _ (by intro k hk; simp [DB.init, AL.has] at hk)

end DBInv

/-! ## 4. DBSpace refines the keyed store (outside the finding guard) -/

section DBRefines
variable (P : Params κ τ δ ω)

theorem DB.abs_eq {s : DB.State κ τ δ} (ho : DB.Owned s) : DB.abs s = AL.lookup s.db := by
  funext k
  unfold DB.abs
  by_cases h : AL.has s.descr k = true
  · rw [if_pos h]
  · rw [if_neg h]
    cases hl : AL.lookup s.db k with
    | none => rfl
    | some v => exact absurd (ho k (by simp [AL.has, hl])) h

theorem DB.has_descr_iff {s : DB.State κ τ δ} (hi : DB.Inv P s) (ho : DB.Owned s) (k : κ) :
    AL.has s.descr k = true ↔ AL.lookup s.db k ≠ none := by
  constructor
  · intro h
    obtain ⟨d, hd⟩ := (AL.has_eq_true_iff _ _).mp h
    obtain ⟨v, hv, _⟩ := hi.descr_in_db k d hd
    simp [hv]
  · intro h
    apply ho
    cases hl : AL.lookup s.db k with
    | none => exact absurd hl h
    | some v => simp [AL.has, hl]

/-
Full-strength statement (what C20 claims for the database space), NOT provable for the code as it is:

  theorem C20_refines_db (hinj : TmpInjective P) (h : List (Op κ τ ω)) :
      Spec.Run P Spec.empty h ((DB.run P (DB.init []) h).1.map outAbs) (DB.abs (DB.run P (DB.init []) h).2)

It fails at `execute(ops, key=k, allow_overwrite=True)` on an existing key `k` whose query reads table `k` or
fails: `DBSpace.execute` drops the old table first (known finding C20-db-execute-overwrite-drops-first,
`C20_G_dbexec_necessary` below).  `DB.guardExec` is the decidable guard excluding exactly those steps.
-/

/-- **C20 (database space, one step, partial).**  From every state satisfying the invariant in which the
space owns its database, every operation that satisfies the finding guard `guardExec` is an operation of the
keyed store: outcome and next contents are ones the specification allows. -/
theorem C20_db_step_refines_partial [DecidableEq τ] (hinj : TmpInjective P) (s : DB.State κ τ δ)
    (hi : DB.Inv P s) (ho : DB.Owned s) (op : Op κ τ ω) (hg : DB.guardExec P s op = true) :
    Spec.step P (DB.abs s) op (outAbs (DB.step P s op).1) (DB.abs (DB.step P s op).2) := by
  have ho' : DB.Owned (DB.step P s op).2 := (C20_db_inv_step P s op).2.1 ho
  rw [DB.abs_eq ho, DB.abs_eq ho']
  have hbound := DB.has_descr_iff P hi ho
  cases op with
  | insert key value ow =>
    simp only [DB.step, Spec.step]
    rcases DB.insert_cases P s key value ow with ⟨⟨e, he⟩, hs, _, hr⟩ | ⟨k, v, b, db', hk, hv, hb, hnb, hit, hout, _, _, hdb⟩
    · rw [he, hs.2.2]
      -- a failure must be one the specification allows
      rcases hr with hr | hr | hr | ⟨k, hk, hb, hh⟩
      · cases key with
        | auto => simp [DB.resolve] at hr
        | str k => simp [DB.resolve] at hr
        | bad => cases value <;> cases ow <;> simp [Spec.write, outAbs]
      · subst hr; cases value <;> simp [outAbs]
      · subst hr; simp [outAbs]
      · have hbk : AL.lookup s.db k ≠ none := by
          rcases hh with hh | hh
          · exact (hbound k).mp hh
          · intro hn; simp [AL.has, hn] at hh
        subst hb
        cases value with
        | none => simp [outAbs]
        | some v =>
          rcases DB.resolve_key P hinj s key k hk with rfl | ⟨_, hf⟩
          · simp [Spec.write, outAbs, hbk]
          · exact absurd ((hbound k).mpr hbk) (by simp [hf])
    · subst hv hb
      rw [hout, hdb]
      have hl := insertTable_ok s.db db' v k b hit
      have hm : AL.lookup db' = Spec.upd (AL.lookup s.db) k (some v) := by funext k'; exact hl k'
      simp only [outAbs, hm]
      rcases DB.resolve_key P hinj s key k hk with rfl | ⟨rfl, hf⟩
      · simp only [Spec.write]
        have : ¬ (b = false ∧ AL.lookup s.db k ≠ none) := by
          rintro ⟨hb, hn⟩
          have := hnb hb
          rw [(hbound k).mpr hn] at this; cases this
        rw [if_neg this]; refine ⟨?_, ?_⟩ <;> first | rfl | trivial
      · refine ⟨k, ?_, rfl, rfl⟩
        cases hl' : AL.lookup s.db k with
        | none => rfl
        | some w => have := (hbound k).mpr (by simp [hl']); rw [hf] at this; cases this
  | execute ops key ow =>
    simp only [DB.step, Spec.step]
    rcases DB.execute_cases P s ops key ow with ⟨⟨e, he⟩, hs, _, hr⟩ | ⟨k, hk, hb, hh, _, _, e, hev⟩ |
      ⟨k, b, v, s2, hk, hb, hs2, hev, hn, hout, _, _, hdb⟩
    · rw [he, hs.2.2]
      rcases hr with hr | hr | ⟨k, b, hk, hb, hh⟩
      · cases key with
        | auto => simp [DB.resolve] at hr
        | str k => simp [DB.resolve] at hr
        | bad =>
          cases ow with
          | none => simp [outAbs]
          | some b => simp only; cases P.evalOps ops (AL.lookup s.db) <;> simp [Spec.write, outAbs]
      · subst hr; simp [outAbs]
      · subst hb
        simp only
        cases hev : P.evalOps ops (AL.lookup s.db) with
        | error e' => simp [outAbs]
        | ok v =>
          simp only [outAbs]
          rcases hh with ⟨hh, rfl⟩ | ⟨hh, ⟨e', he'⟩ | hh'⟩
          · rcases DB.resolve_key P hinj s key k hk with rfl | ⟨_, hf⟩
            · simp [Spec.write, (hbound k).mp hh]
            · rw [hf] at hh; cases hh
          · rw [hev] at he'; cases he'
          · rw [ho k hh'] at hh; cases hh
    · -- failed after dropping the old table: excluded by the guard
      subst hb
      rcases DB.resolve_key P hinj s key k hk with rfl | ⟨_, hf⟩
      · simp only [DB.guardExec, hh, if_true, hev] at hg
        cases hg
      · rw [hf] at hh; cases hh
    · subst hb
      rw [hout, hdb]
      have hn' : AL.lookup s2.db k = none := (AL.has_eq_false_iff _ _).mp hn
      rcases hs2 with ⟨hh, rfl, hs⟩ | ⟨hh, hs⟩
      · -- overwrite of an existing key: the guard says the query sees the same value without the old table
        rcases DB.resolve_key P hinj s key k hk with rfl | ⟨_, hf⟩
        · simp only [DB.guardExec, hh, if_true] at hg
          have hs2db : s2.db = Db.dropTable s.db k := hs.2.2
          rw [hs2db] at hev hn' ⊢
          rw [hev] at hg
          cases hev' : P.evalOps ops (AL.lookup s.db) with
          | error e => rw [hev'] at hg; cases hg
          | ok w =>
            rw [hev'] at hg
            have hvw : v = w := by simpa using hg
            subst hvw
            simp only [outAbs, Spec.write, Bool.true_eq_false, false_and, if_false, true_and]
            funext k'
            rw [lookup_snoc, lookup_dropTable]
            by_cases hkk : k' = k <;> simp [hkk, Spec.upd]
        · rw [hf] at hh; cases hh
      · have hs2db : s2.db = s.db := hs.2.2
        rw [hs2db] at hev hn' ⊢
        rw [hev]
        have hm : AL.lookup (s.db ++ [(k, v)]) = Spec.upd (AL.lookup s.db) k (some v) := by
          funext k'
          rw [lookup_snoc]
          by_cases hkk : k' = k
          · subst hkk; simp [hn', Spec.upd]
          · simp [hkk, Spec.upd]
        simp only [outAbs, hm]
        rcases DB.resolve_key P hinj s key k hk with rfl | ⟨rfl, _⟩
        · simp [Spec.write, hn']
        · exact ⟨k, hn', rfl, rfl⟩
  | remove key =>
    cases key with
    | none => simp [DB.step, DB.remove, Spec.step, outAbs]
    | some k =>
      simp only [DB.step, DB.remove, Spec.step]
      by_cases hh : AL.has s.descr k = true
      · have := (hbound k).mp hh
        simp only [hh, if_true, outAbs, this, ne_eq, not_false_eq_true, true_and]
        funext k'; rw [DB.removeKey_db]; rfl
      · have : ¬ AL.lookup s.db k ≠ none := fun h => hh ((hbound k).mpr h)
        simp [hh, outAbs, this]
  | describe key =>
    cases key with
    | none => simp [DB.step, DB.describe, Spec.step, outAbs]
    | some k =>
      simp only [DB.step, DB.describe, Spec.step]
      cases hd : AL.lookup s.descr k with
      | none =>
        have : AL.lookup s.db k = none := by
          cases hl : AL.lookup s.db k with
          | none => rfl
          | some v => have := (hbound k).mpr (by simp [hl]); simp [AL.has, hd] at this
        simp [outAbs, this]
      | some d =>
        obtain ⟨v, hv, hdv⟩ := hi.descr_in_db k d hd
        simp [outAbs, hv, hdv]
  | retrieve key =>
    cases key with
    | none => simp [DB.step, DB.retrieve, Spec.step, outAbs]
    | some k =>
      simp only [DB.step, DB.retrieve, Spec.step]
      cases hd : AL.lookup s.descr k with
      | none =>
        have : AL.lookup s.db k = none := by
          cases hl : AL.lookup s.db k with
          | none => rfl
          | some v => have := (hbound k).mpr (by simp [hl]); simp [AL.has, hd] at this
        simp [outAbs, this]
      | some d =>
        obtain ⟨v, hv, _⟩ := hi.descr_in_db k d hd
        simp [outAbs, hv, Db.readTable]
  | keys =>
    simp only [DB.step, Spec.step, outAbs]
    refine ⟨_, rfl, fun k => ?_, trivial⟩
    rw [← AL.has_iff_mem_keys]; exact hbound k

/-- the finding guard holds at every step of the history -/
def DB.GuardedRun [DecidableEq τ] (s : DB.State κ τ δ) : List (Op κ τ ω) → Prop
  | [] => True
  | op :: h => DB.guardExec P s op = true ∧ DB.GuardedRun (DB.step P s op).2 h

/-- **C20 (database space, every history, partial).**  For every history all of whose steps satisfy the
finding guard, started in any state that satisfies the invariant and owns its database (in particular a new
space on an empty database), the outcomes and the final contents of `DBSpace` are a run of the keyed store. -/
theorem C20_refines_db_partial [DecidableEq τ] (hinj : TmpInjective P) (h : List (Op κ τ ω))
    (s : DB.State κ τ δ) (hi : DB.Inv P s) (ho : DB.Owned s) (hg : DB.GuardedRun P s h) :
    Spec.Run P (DB.abs s) h ((DB.run P s h).1.map outAbs) (DB.abs (DB.run P s h).2) := by
  induction h generalizing s with
  | nil => exact Spec.Run.nil _
  | cons op h ih =>
    simp only [DB.run, List.map_cons]
    have hinv := C20_db_inv_step P s op
    exact Spec.Run.cons (C20_db_step_refines_partial P hinj s hi ho op hg.1)
      (ih _ (hinv.1 hi) (hinv.2.1 ho) hg.2)

end DBRefines

/-! ## 5. No overwrite without permission; automatic keys are fresh; close -/

section Safety
variable (P : Params κ τ δ ω)

/-- **C20 (no overwrite, in-memory).**  A write under an explicit key that is bound, with
`allow_overwrite=False`, raises (AssertionError) and leaves the whole state – contents and counter – unchanged. -/
theorem C20_no_overwrite_mem (s : Mem.State κ τ) (op : Op κ τ ω) (k : κ) (hop : op.IsNoOverwriteAt k)
    (hk : Mem.abs s k ≠ none) :
    (Mem.step P s op).1 = .error .AssertionError ∧ (Mem.step P s op).2 = s := by
  have hh : AL.has s.map k = true := by
    unfold Mem.abs at hk; cases h : AL.lookup s.map k with
    | none => exact absurd h hk
    | some v => simp [AL.has, h]
  rcases Op.isNoOverwriteAt_inv hop with ⟨value, rfl⟩ | ⟨ops, rfl⟩
  · cases value <;> simp [Mem.step, Mem.insert, Mem.resolve, hh]
  · simp [Mem.step, Mem.execute, Mem.resolve, hh]

/-- **C20 (no overwrite, database).**  The same for `DBSpace`: the write raises (AssertionError) and neither
`description_map`, the auto-drop set, the counter nor the database changes. -/
theorem C20_no_overwrite_db (s : DB.State κ τ δ) (op : Op κ τ ω) (k : κ) (hop : op.IsNoOverwriteAt k)
    (hk : DB.abs s k ≠ none) :
    (DB.step P s op).1 = .error .AssertionError ∧ (DB.step P s op).2 = s := by
  have hh : AL.has s.descr k = true := by
    unfold DB.abs at hk
    by_cases h : AL.has s.descr k = true
    · exact h
    · rw [if_neg h] at hk; exact absurd rfl hk
  rcases Op.isNoOverwriteAt_inv hop with ⟨value, rfl⟩ | ⟨ops, rfl⟩
  · simp [DB.step, DB.insert, DB.resolve, hh]
  · simp [DB.step, DB.execute, DB.resolve, hh]

/-- **C20 (no overwrite, general form, in-memory).**  Whatever the key argument (explicit, automatic,
malformed) and whatever the outcome, a write with `allow_overwrite=False` leaves every existing entry bound to
the table it had. -/
theorem C20_no_overwrite_preserves_mem (s : Mem.State κ τ) (op : Op κ τ ω) (hop : op.IsNoOverwrite)
    (k : κ) (hk : Mem.abs s k ≠ none) : Mem.abs (Mem.step P s op).2 k = Mem.abs s k := by
  unfold Mem.abs at hk ⊢
  -- a no-overwrite write that goes through is to a key `k0` that was not bound
  have key_fact : ∀ (k0 : κ) (v : τ), AL.has s.map k0 = false →
      AL.lookup (AL.set s.map k0 v) k = AL.lookup s.map k := by
    intro k0 v h0
    rw [AL.lookup_set]
    by_cases hkk : k = k0
    · subst hkk; rw [AL.has_eq_false_iff] at h0; exact absurd h0 hk
    · simp [hkk]
  rcases Op.isNoOverwrite_inv hop with ⟨key, value, rfl⟩ | ⟨ops, key, rfl⟩
  · simp only [Mem.step, Mem.insert]
    have hm := Mem.resolve_map P s key
    generalize Mem.resolve P s key = r at hm ⊢
    obtain ⟨⟨m1, n1⟩, ko⟩ := r
    simp only at hm
    subst hm
    cases ko with
    | none => rfl
    | some k0 =>
      cases value with
      | none => rfl
      | some v =>
        simp only [Bool.not_false, Bool.true_and]
        by_cases h0 : AL.has s.map k0 = true
        · rw [if_pos h0]
        · rw [if_neg h0]
          exact key_fact k0 v (by simpa using h0)
  · simp only [Mem.step, Mem.execute]
    have hm := Mem.resolve_map P s key
    generalize Mem.resolve P s key = r at hm ⊢
    obtain ⟨⟨m1, n1⟩, ko⟩ := r
    simp only at hm
    subst hm
    cases ko with
    | none => rfl
    | some k0 =>
      simp only [Bool.not_false, Bool.true_and]
      by_cases h0 : AL.has s.map k0 = true
      · rw [if_pos h0]
      · rw [if_neg h0]
        cases P.evalOps ops (AL.lookup s.map) with
        | error e => rfl
        | ok v => exact key_fact k0 v (by simpa using h0)

theorem DB.abs_of_same {s s' : DB.State κ τ δ} (h : DB.SameStore s s') : DB.abs s' = DB.abs s := by
  obtain ⟨h1, _, h3⟩ := h
  unfold DB.abs; rw [h1, h3]

/-- storing under a key that is not described leaves every entry of the space as it was -/
theorem DB.abs_stored_other {s2 s' : DB.State κ τ δ} {k0 : κ} {v : τ} (h : DB.Stored P s2 s' k0 v)
    (h0 : AL.has s2.descr k0 = false) (k : κ) (hk : DB.abs s2 k ≠ none) : DB.abs s' k = DB.abs s2 k := by
  unfold DB.abs at hk ⊢
  have hne : k ≠ k0 := by
    rintro rfl; rw [h0] at hk; exact hk rfl
  rw [h.descr, AL.has_set, h.db]
  simp [hne]

/-- **C20 (no overwrite, general form, database).**  Whatever the key argument and the outcome, a
`DBSpace` write with `allow_overwrite=False` leaves every existing entry bound to the table it had. -/
theorem C20_no_overwrite_preserves_db (s : DB.State κ τ δ) (op : Op κ τ ω) (hop : op.IsNoOverwrite)
    (k : κ) (hk : DB.abs s k ≠ none) : DB.abs (DB.step P s op).2 k = DB.abs s k := by
  rcases Op.isNoOverwrite_inv hop with ⟨key, value, rfl⟩ | ⟨ops, key, rfl⟩
  · rcases DB.insert_cases P s key value (some false) with ⟨_, hs, _⟩ |
      ⟨k0, v, b, db', _, _, hb, hnb, hit, _, hd, ha, hdb⟩
    · exact congrFun (DB.abs_of_same hs) k
    · simp only [Option.some.injEq] at hb; subst hb
      refine DB.abs_stored_other P (s2 := s) (k0 := k0) (v := v) ⟨hd, ha, ?_⟩ (hnb rfl) k hk
      intro k'
      rw [hdb]
      exact insertTable_ok s.db db' v k0 false hit k'
  · rcases DB.execute_cases P s ops key (some false) with ⟨_, hs, _⟩ | ⟨k0, _, hb, _⟩ |
      ⟨k0, b, v, s2, _, hb, hs2, _, hn, _, hd, ha, hdb⟩
    · exact congrFun (DB.abs_of_same hs) k
    · cases hb
    · simp only [Option.some.injEq] at hb; subst hb
      rcases hs2 with ⟨_, hb, _⟩ | ⟨h0, hs⟩
      · cases hb
      · have hn' : AL.lookup s2.db k0 = none := (AL.has_eq_false_iff _ _).mp hn
        rw [← DB.abs_of_same hs] at hk ⊢
        refine DB.abs_stored_other P (s2 := s2) (k0 := k0) (v := v) ⟨hd, ha, ?_⟩ (by rw [hs.1]; exact h0) k hk
        intro k'
        rw [hdb, lookup_snoc]
        by_cases hkk : k' = k0
        · subst hkk; simp [hn']
        · simp [hkk]

/-- **C20 (automatic keys are fresh, in-memory).**  When `insert`/`execute` is called with `key=None` and
succeeds – with either value of `allow_overwrite` – the key it returns was not a key of the space, and every
existing entry is still bound to the table it had.  (Unpatched code: false, candidate defect D11.) -/
theorem C20_auto_key_fresh_mem (hinj : TmpInjective P) (s : Mem.State κ τ) (op : Op κ τ ω)
    (hop : op.IsAuto) (out : Out κ τ δ) (hok : (Mem.step P s op).1 = .ok out) :
    ∃ k d, out = .descr k d ∧ Mem.abs s k = none ∧ Mem.abs (Mem.step P s op).2 k ≠ none ∧
      ∀ k', Mem.abs s k' ≠ none → Mem.abs (Mem.step P s op).2 k' = Mem.abs s k' := by
  have hfl : AL.lookup s.map (P.tmpName (fresh P (AL.keys s.map) s.nTmp)) = none := by
    have := (fresh_spec P hinj (AL.keys s.map) s.nTmp).1
    rw [AL.mem_keys_iff] at this
    simpa using this
  have other : ∀ (v : τ) k', AL.lookup s.map k' ≠ none →
      AL.lookup (AL.set s.map (P.tmpName (fresh P (AL.keys s.map) s.nTmp)) v) k' = AL.lookup s.map k' := by
    intro v k' hk'
    rw [AL.lookup_set]
    by_cases hkk : k' = P.tmpName (fresh P (AL.keys s.map) s.nTmp)
    · rw [hkk] at hk'; exact absurd hfl hk'
    · simp [hkk]
  unfold Mem.abs
  cases op with
  | insert key value ow =>
    cases key with
    | auto =>
      cases ow with
      | none => simp [Mem.step, Mem.insert, Mem.resolve] at hok
      | some b =>
        cases value with
        | none => simp [Mem.step, Mem.insert, Mem.resolve] at hok
        | some v =>
          simp only [Mem.step, Mem.insert, Mem.resolve, AL.has, hfl, Option.isSome_none, Bool.and_false,
            Bool.false_eq_true, if_false, Except.ok.injEq] at hok ⊢
          exact ⟨_, _, hok.symm, hfl, by rw [AL.lookup_set]; simp, other v⟩
    | str _ => cases hop
    | bad => cases hop
  | execute ops key ow =>
    cases key with
    | auto =>
      cases ow with
      | none => simp [Mem.step, Mem.execute, Mem.resolve] at hok
      | some b =>
        simp only [Mem.step, Mem.execute, Mem.resolve, AL.has, hfl, Option.isSome_none, Bool.and_false,
          Bool.false_eq_true, if_false] at hok ⊢
        cases he : P.evalOps ops (AL.lookup s.map) with
        | error e => rw [he] at hok; cases hok
        | ok v =>
          rw [he] at hok
          simp only [Except.ok.injEq] at hok
          simp only []
          exact ⟨_, _, hok.symm, hfl, by rw [AL.lookup_set]; simp, other v⟩
    | str _ => cases hop
    | bad => cases hop
  | remove _ => cases hop
  | describe _ => cases hop
  | retrieve _ => cases hop
  | keys => cases hop

theorem DB.resolve_auto_fresh (hinj : TmpInjective P) (s : DB.State κ τ δ) (k : κ)
    (h : (DB.resolve P s .auto).2 = some k) : AL.has s.descr k = false := by
  rcases DB.resolve_key P hinj s .auto k h with h | ⟨_, h⟩
  · cases h
  · exact h

/-- **C20 (automatic keys are fresh, database).**  The same for `DBSpace`, from every state. -/
theorem C20_auto_key_fresh_db (hinj : TmpInjective P) (s : DB.State κ τ δ) (op : Op κ τ ω)
    (hop : op.IsAuto) (out : Out κ τ δ) (hok : (DB.step P s op).1 = .ok out) :
    ∃ k d, out = .descr k d ∧ DB.abs s k = none ∧ DB.abs (DB.step P s op).2 k ≠ none ∧
      ∀ k', DB.abs s k' ≠ none → DB.abs (DB.step P s op).2 k' = DB.abs s k' := by
  have bound_new : ∀ {s2 s' : DB.State κ τ δ} {k0 : κ} {v : τ}, DB.Stored P s2 s' k0 v → DB.abs s' k0 ≠ none := by
    intro s2 s' k0 v h
    unfold DB.abs; rw [h.descr, AL.has_set, h.db]; simp
  cases op with
  | insert key value ow =>
    cases key with
    | auto =>
      rcases DB.insert_cases P s .auto value ow with ⟨⟨e, he⟩, _⟩ | ⟨k0, v, b, db', hk0, _, _, _, hit, hout, hd, ha, hdb⟩
      · rw [show (DB.step P s (.insert .auto value ow)).1 = (DB.insert P s .auto value ow).1 from rfl, he] at hok
        cases hok
      · have hf := DB.resolve_auto_fresh P hinj s k0 hk0
        have hst : DB.Stored P s (DB.step P s (.insert .auto value ow)).2 k0 v := by
          refine ⟨hd, ha, ?_⟩
          intro k'
          rw [show (DB.step P s (.insert .auto value ow)).2.db = db' from hdb]
          exact insertTable_ok s.db db' v k0 b hit k'
        rw [show (DB.step P s (.insert .auto value ow)).1 = (DB.insert P s .auto value ow).1 from rfl, hout] at hok
        simp only [Except.ok.injEq] at hok
        exact ⟨k0, _, hok.symm, by simp [DB.abs, hf], bound_new hst, DB.abs_stored_other P hst hf⟩
    | str _ => cases hop
    | bad => cases hop
  | execute ops key ow =>
    cases key with
    | auto =>
      rcases DB.execute_cases P s ops .auto ow with ⟨⟨e, he⟩, _⟩ | ⟨k0, _, _, _, ⟨e, he⟩, _⟩ |
        ⟨k0, b, v, s2, hk0, _, hs2, _, hn, hout, hd, ha, hdb⟩
      · rw [show (DB.step P s (.execute ops .auto ow)).1 = (DB.execute P s ops .auto ow).1 from rfl, he] at hok
        cases hok
      · rw [show (DB.step P s (.execute ops .auto ow)).1 = (DB.execute P s ops .auto ow).1 from rfl, he] at hok
        cases hok
      · have hf := DB.resolve_auto_fresh P hinj s k0 hk0
        rcases hs2 with ⟨hh, _, _⟩ | ⟨_, hs⟩
        · rw [hf] at hh; cases hh
        · have hn' : AL.lookup s2.db k0 = none := (AL.has_eq_false_iff _ _).mp hn
          have hst : DB.Stored P s2 (DB.step P s (.execute ops .auto ow)).2 k0 v := by
            refine ⟨hd, ha, ?_⟩
            intro k'
            rw [show (DB.step P s (.execute ops .auto ow)).2.db = s2.db ++ [(k0, v)] from hdb, lookup_snoc]
            by_cases hkk : k' = k0
            · subst hkk; simp [hn']
            · simp [hkk]
          rw [show (DB.step P s (.execute ops .auto ow)).1 = (DB.execute P s ops .auto ow).1 from rfl, hout] at hok
          simp only [Except.ok.injEq] at hok
          have hf2 : AL.has s2.descr k0 = false := by rw [hs.1]; exact hf
          rw [← DB.abs_of_same hs]
          exact ⟨k0, _, hok.symm, by simp [DB.abs, hf2], bound_new hst, DB.abs_stored_other P hst hf2⟩
    | str _ => cases hop
    | bad => cases hop
  | remove _ => cases hop
  | describe _ => cases hop
  | retrieve _ => cases hop
  | keys => cases hop

/-- the `close` loop over a duplicate-free list of described keys removes exactly those keys, without error -/
theorem DB.closeLoop_spec (l : List κ) : ∀ (s : DB.State κ τ δ), l.Nodup → (∀ k ∈ l, AL.has s.descr k = true) →
    (DB.closeLoop l s).1 = .ok () ∧
    (∀ k', AL.lookup (DB.closeLoop l s).2.db k' = if k' ∈ l then none else AL.lookup s.db k') ∧
    (∀ k', AL.lookup (DB.closeLoop l s).2.descr k' = if k' ∈ l then none else AL.lookup s.descr k') := by
  induction l with
  | nil => intro s _ _; simp [DB.closeLoop]
  | cons k l ih =>
    intro s hnd hall
    rw [List.nodup_cons] at hnd
    simp only [DB.closeLoop, hall k (List.mem_cons_self), if_true]
    have := ih (DB.removeKey s k) hnd.2 (by
      intro k' hk'
      have hne : k' ≠ k := by rintro rfl; exact hnd.1 hk'
      simp [DB.removeKey, AL.has_erase, hne, hall k' (List.mem_cons_of_mem _ hk')])
    refine ⟨this.1, fun k' => ?_, fun k' => ?_⟩
    · rw [this.2.1, DB.removeKey_db]
      by_cases h1 : k' ∈ l <;> by_cases h2 : k' = k <;> simp [h1, h2]
    · rw [this.2.2, DB.removeKey_descr]
      by_cases h1 : k' ∈ l <;> by_cases h2 : k' = k <;> simp [h1, h2]

/-- **C20 (close).**  In every state satisfying the invariant in which all described keys are eligible for
auto-drop (every state reachable by a history, `C20_db_inv`), `close()` of a space created with
`drop_tables_on_close=True` raises nothing, drops exactly the tables of the space and leaves every other table
of the database as it was; with `drop_tables_on_close=False` it changes nothing. -/
theorem C20_db_close (s : DB.State κ τ δ) (hi : DB.Inv P s) (ha : DB.AutoAll s) :
    (DB.close true s).1 = .ok () ∧
    (∀ k, AL.lookup (DB.close true s).2.db k = if AL.has s.descr k then none else AL.lookup s.db k) ∧
    (∀ k, AL.lookup (DB.close true s).2.descr k = none) ∧
    DB.close false s = (.ok (), s) := by
  have h := DB.closeLoop_spec s.autoDrop s hi.auto_nodup hi.auto_sub
  simp only [DB.close, if_true]
  refine ⟨h.1, fun k => ?_, fun k => ?_, by simp⟩
  · rw [h.2.1]
    by_cases hk : AL.has s.descr k = true
    · simp [hk, ha k hk]
    · have : k ∉ s.autoDrop := fun hm => hk (hi.auto_sub k hm)
      simp [hk, this]
  · rw [h.2.2]
    by_cases hk : AL.has s.descr k = true
    · simp [ha k hk]
    · have : k ∉ s.autoDrop := fun hm => hk (hi.auto_sub k hm)
      simp only [this, if_false]
      exact (AL.has_eq_false_iff _ _).mp (by simpa using hk)

end Safety

/-! ## 6. The finding guard is necessary; non-vacuity -/

section Concrete

/-- A concrete instance: keys, tables and descriptions are numbers; automatic key `n` is the number `n` (so
user key `1` collides with the first automatic name); a pipeline names one source table and adds 1 to it. -/
def P0 : Params Nat Nat Nat Nat where
  tmpName := fun n => n
  descOf := fun t => t
  evalOps := fun src look => match look src with | some v => .ok (v + 1) | none => .error .KeyError

theorem P0_injective : TmpInjective P0 := fun _ _ h => h

/-- the real name function satisfies the one hypothesis on the parameters -/
theorem C20_tmpName_injective (descOf : τ → δ) (evalOps : ω → (String → Option τ) → Except Err τ) :
    TmpInjective (⟨daTemp, descOf, evalOps⟩ : Params String τ δ ω) := daTemp_injective

/-- a DBSpace holding table 10 under key 5 -/
def sG : DB.State Nat Nat Nat := (DB.step P0 (DB.init []) (.insert (.str 5) (some 10) (some true))).2

/-- **The guard `G_C20_db_execute_overwrite` is necessary.**  In the state `sG` (reachable, satisfies the
invariant, owns its database) `execute(<table 5 plus one>, key=5, allow_overwrite=True)` violates the guard,
and the step is NOT one of the keyed store: the store must bind 5 to 11, `DBSpace` raises and loses key 5. -/
theorem C20_G_dbexec_necessary :
    DB.guardExec P0 sG (.execute 5 (.str 5) (some true)) = false ∧
    DB.Inv P0 sG ∧ DB.Owned sG ∧
    ¬ Spec.step P0 (DB.abs sG) (.execute 5 (.str 5) (some true))
        (outAbs (DB.step P0 sG (.execute 5 (.str 5) (some true))).1)
        (DB.abs (DB.step P0 sG (.execute 5 (.str 5) (some true))).2) := by
  refine ⟨by decide, ?_, ?_, ?_⟩
  · exact (C20_db_inv_step P0 _ _).1 ⟨by intro k d h; simp [DB.init] at h, by intro k h; simp [DB.init] at h,
      by simp [DB.init]⟩
  · exact (C20_db_inv_step P0 _ _).2.1 (by intro k h; simp [DB.init, AL.has] at h)
  · intro h
    have h5 : DB.abs sG 5 = some 10 := by decide
    have hout : outAbs (DB.step P0 sG (.execute 5 (.str 5) (some true))).1 = .err := by decide
    simp only [Spec.step, P0, h5, Spec.write, Bool.true_eq_false, false_and, if_false] at h
    have h1 := h.1
    change outAbs (DB.step P0 sG (.execute 5 (.str 5) (some true))).1 = _ at h1
    rw [hout] at h1
    cases h1

/-- what the unguarded step does: the old table is gone, the key with it -/
example : (DB.step P0 sG (.execute 5 (.str 5) (some true))).2.db = [] ∧
          (DB.step P0 sG (.execute 5 (.str 5) (some true))).2.descr = [] := by decide

/-! ### non-vacuity -/

/-- D11 scenario on the patched model: user key 1, then two automatic inserts take 2 and 3, never 1 -/
example : (Mem.run P0 Mem.init [.insert (.str 1) (some 100) (some true), .insert .auto (some 7) (some true),
            .execute 1 .auto (some false), .keys]).2.map = [(1, 100), (2, 7), (3, 101)] := by decide

example : (Mem.step P0 ⟨[(1, 100)], 0⟩ (.insert .auto (some 7) (some true))).1 = .ok (.descr 2 7) := by rfl

/-- hypotheses of `C20_no_overwrite_*` are satisfiable, and the conclusion is what happens -/
example : (Op.insert (.str 1) (some 7) (some false) : Op Nat Nat Nat).IsNoOverwriteAt 1 ∧
    Mem.abs (⟨[(1, 100)], 0⟩ : Mem.State Nat Nat) 1 ≠ none ∧
    (Mem.step P0 ⟨[(1, 100)], 0⟩ (.insert (.str 1) (some 7) (some false))).1 = .error .AssertionError := by
  refine ⟨rfl, by decide, by rfl⟩

/-- a guarded DBSpace history: overwrite by `execute` from another table is inside the guard -/
example : DB.GuardedRun P0 (DB.init []) [.insert (.str 5) (some 10) (some true), .insert (.str 6) (some 20) (some true),
    .execute 6 (.str 5) (some true), .retrieve (some 5), .remove (some 6), .keys] := by
  refine ⟨by decide, by decide, by decide, by decide, by decide, by decide, trivial⟩

example : (DB.run P0 (DB.init []) [.insert (.str 5) (some 10) (some true), .insert (.str 6) (some 20) (some true),
    .execute 6 (.str 5) (some true), .remove (some 6)]).2.db = [(5, 21)] := by decide

/-- `Inv`, `Owned`, `AutoAll` hold in a non-trivial state, and `close` empties the space but not the database -/
example : (DB.close true (DB.run P0 (DB.init [(9, 90)]) [.insert (.str 5) (some 10) (some true),
    .insert .auto (some 3) (some false)]).2).2.db = [(9, 90)] := by decide

example : TmpInjective P0 := P0_injective

/-- D11 on the UNPATCHED code (for the record; the model above is of the patched code): the unpatched choice
`da_temp_<n_tmp + 1>` is an existing key as soon as the user has stored a table under that name, and
`insert(key=None)` then runs with `allow_overwrite=True`.  Witness on the real code: corpus/C20/d11_auto_key_*.json. -/
example : P0.tmpName ((Mem.init : Mem.State Nat Nat).nTmp + 1) ∈ AL.keys [((1 : Nat), (100 : Nat))] := by decide

end Concrete

end DAVerif.Space
