import DAVerif.Proofs.UsedTop
import DAVerif.Proofs.UsedDag
import DAVerif.Proofs.UsedReach
import DAVerif.Sem.Theta
import DAVerif.Sem.WindowTies
/-!
# C10 — Columns not reported as used never influence a pipeline's result

Model: `Ops.usedFromSources`, `Ops.columnsUsedAux`, `Ops.columnsUsed` (`Ops/Compose.lean`, transcribing
`columns_used_from_sources` / `columns_used_implementation_` / `columns_used` of `view_representations.py`) and the
relational semantics `sem` (`Sem/Eval.lean`).  Specification side: `Spec/Used.lean` (`Row.agreeOn`, `RowsAgree`,
`EnvAgree`, `ResAgree`, `narrow`, `restrictEnv`, `Conforms`).

Shared node objects: `Ops/UsedDag.lean` (`columnsUsedShared`, the per-object accumulation records of
`columns_used_implementation_`); its report is neither a subset nor a superset of the tree report, and is sound by the
same induction (every statement below is first proved for any `Run`).

Hypotheses used below
* `ConvertOK Θ`, `ConvertLocal Θ` – laws of the abstract record transform (it returns its declared columns and
  reads only its needed columns); every other function symbol of `Θ` is arbitrary.
* `UsedWF p` – a windowed extend does not assign its partition/order columns and rename / map_columns mappings are
  invertible on their source columns (checked by the constructors; every built pipeline has it).
* `p.cols.Nodup` – only for the final step from "agree on every column" to equality of the result tables.

**D30 (known finding `C10-window-tie-break`).**  `sem` sorts a window by the `order_by` columns only (stable).  The
real Pandas executor sorts by partition, order *and the value columns of every op of the step*, so when rows tie on
`order_by` inside a partition an unreported column (read only by an op whose result is dropped later) decides the
tie-break of a kept cumulative op.  The theorems below therefore hold for the model without a totality hypothesis;
they speak about the implementation only where `sem` is validated against it (suite K4), i.e. for window orders that
are total within each partition.  `C10_window_tie_break_necessary` shows the violation for the semantics with the
executor's sort key.  (A second executor-level finding, `C10-all-null-type-check` – the run-time type check of joins looks
at unreported common columns – is outside the model, which has no dtypes.)
-/
namespace DAVerif
namespace C10
open Ops

/-! ## 1. node level: `columns_used_from_sources` is sound for every node kind

Restriction form: evaluating the node on the source table, or on the source table restricted to the columns
`usedFromSources` asks for, gives results with the same projection onto the requested columns `u`
(`u ⊆ column_names` of the node, which `columns_used_implementation_` checks before it asks). -/

/-- projections of two row lists onto `u` are equal iff the lists agree on `u` (bridge between the two forms) -/
theorem selectCols_eq_iff (u : List String) (t t' : Table) :
    t.selectCols u = t'.selectCols u ↔ RowsAgree u t.rows t'.rows := by
  simp only [Table.selectCols, Table.mk.injEq, true_and]
  exact rowsAgree_iff_map_select.symm

/-- **extend, row-wise.** -/
theorem node_used_sound_extend_plain (Θ : Interp) (s : Ops) (ops : Assign) (part od rv : List String)
    (t : Table) (ht : t.cols = s.cols) (hwf : t.WF) (u : List String)
    (hu : subset u (Ops.extend s ops part od rv false).cols = true) :
    (semExtendPlain Θ ops t (Ops.extend s ops part od rv false).cols).selectCols u =
    (semExtendPlain Θ ops (t.selectCols ((usedFromSources (Ops.extend s ops part od rv false) u).headD []))
      (Ops.extend s ops part od rv false).cols).selectCols u := by
  rw [selectCols_eq_iff]
  have hsub := subset_iff_u.mp hu
  obtain ⟨v, hv, hvs, hkeep, hexpr⟩ := used_extend s ops part od rv false u
  rw [hv]; simp only [List.headD_cons]
  have hn := hwf.null_outside (sc := s.cols) (by rw [ht]; exact fun c hc => hc)
  have hn' : ∀ r ∈ (t.selectCols v).rows, ∀ c, c ∉ s.cols → r.get c = .null :=
    (Table.wf_selectCols t v).null_outside (fun c hc => hvs c hc)
  have hag := upgrade (sc := s.cols) (u ++ ops.flatMap (fun kv => kv.2.colsRaw)) (RowsAgree_selectCols v t) hn hn'
  refine semExtendPlain_congr Θ ops hag (fun c hc => ⟨hsub c hc, hsub c hc⟩) ?_ ?_
  · intro c hc hk
    apply mem_upgrade (by simp [hc])
    intro hcs
    exact hkeep c hcs (.inl hc) (fun h => hk (mem_keys_filter h).1)
  · intro kv hkv hk c hc
    apply mem_upgrade
    · simp only [List.mem_append, List.mem_flatMap]; exact .inr ⟨kv, hkv, hc⟩
    · exact hexpr kv hkv hk c hc

/-- **extend, windowed** (the constructor guarantees that no op assigns a partition or order column). -/
theorem node_used_sound_extend_window (Θ : Interp) (s : Ops) (ops : Assign) (part od rv : List String)
    (hdis : disjoint (ops.map (·.1)) (part ++ od) = true)
    (t : Table) (ht : t.cols = s.cols) (hwf : t.WF) (u : List String)
    (hu : subset u (Ops.extend s ops part od rv true).cols = true) :
    (semExtendWindow Θ ops part od rv t (Ops.extend s ops part od rv true).cols).selectCols u =
    (semExtendWindow Θ ops part od rv
      (t.selectCols ((usedFromSources (Ops.extend s ops part od rv true) u).headD []))
      (Ops.extend s ops part od rv true).cols).selectCols u := by
  rw [selectCols_eq_iff]
  have hsub := subset_iff_u.mp hu
  obtain ⟨v, hv, hvs, hkeep, hexpr⟩ := used_extend s ops part od rv true u
  rw [hv]; simp only [List.headD_cons]
  have hn := hwf.null_outside (sc := s.cols) (by rw [ht]; exact fun c hc => hc)
  have hn' : ∀ r ∈ (t.selectCols v).rows, ∀ c, c ∉ s.cols → r.get c = .null :=
    (Table.wf_selectCols t v).null_outside (fun c hc => hvs c hc)
  have hag := upgrade (sc := s.cols) (u ++ part ++ od ++ ops.flatMap (fun kv => kv.2.colsRaw))
    (RowsAgree_selectCols v t) hn hn'
  have hd := disjoint_iff_u.mp hdis
  have hnk : ∀ c, c ∈ part ∨ c ∈ od → c ∉ (ops.filter (fun kv => u.contains kv.1)).map (·.1) :=
    fun c hc hm => hd c (mem_keys_filter hm).1 (List.mem_append.mpr hc)
  refine semExtendWindow_congr Θ ops part od rv hag (fun c hc => ⟨hsub c hc, hsub c hc⟩) ?_ ?_ ?_ ?_
  · intro c hc
    exact mem_upgrade (by simp [hc]) (fun hcs => hkeep c hcs (.inr (.inl hc)) (hnk c (.inl hc)))
  · intro c hc
    exact mem_upgrade (by simp [hc]) (fun hcs => hkeep c hcs (.inr (.inr hc)) (hnk c (.inr hc)))
  · intro c hc hk
    exact mem_upgrade (by simp [hc]) (fun hcs => hkeep c hcs (.inl hc) (fun h => hk (mem_keys_filter h).1))
  · intro kv hkv hk c hc
    apply mem_upgrade
    · simp only [List.mem_append, List.mem_flatMap]; exact .inr ⟨kv, hkv, hc⟩
    · exact hexpr kv hkv hk c hc

/-- **project.** -/
theorem node_used_sound_project (Θ : Interp) (s : Ops) (ops : Assign) (g : List String) (t : Table)
    (u : List String) (hu : subset u (Ops.project s ops g).cols = true) :
    (semProject Θ ops g t (Ops.project s ops g).cols).selectCols u =
    (semProject Θ ops g (t.selectCols ((usedFromSources (Ops.project s ops g) u).headD []))
      (Ops.project s ops g).cols).selectCols u := by
  rw [selectCols_eq_iff]
  have hsub := subset_iff_u.mp hu
  simp only [usedFromSources, List.headD_cons]
  refine semProject_congr Θ ops g (RowsAgree_selectCols _ t) (fun c hc => ⟨hsub c hc, hsub c hc⟩)
    (fun c hc => mem_unionL.mpr (.inl hc)) ?_
  intro kv hkv hk c hc
  exact mem_unionL.mpr (.inr (mem_colsUsedOps_u.mpr ⟨kv, List.mem_filter.mpr ⟨hkv, by simpa using hk⟩, hc⟩))

/-- **select_rows.** -/
theorem node_used_sound_select_rows (Θ : Interp) (s : Ops) (e : Term) (t : Table) (u : List String)
    (hu : subset u (Ops.selectRows s e).cols = true) :
    (semSelectRows Θ e t).selectCols u =
    (semSelectRows Θ e (t.selectCols ((usedFromSources (Ops.selectRows s e) u).headD []))).selectCols u := by
  rw [selectCols_eq_iff]
  have hsub := subset_iff_u.mp hu
  simp only [usedFromSources, List.headD_cons]
  exact semSelectRows_congr Θ e (RowsAgree_selectCols _ t)
    (fun c hc => mem_unionL.mpr (.inr (mem_colsUsed.mpr hc)))
    (fun c hc => mem_unionL.mpr (.inl (mem_filter_contains.mpr ⟨hsub c hc, hc⟩)))

/-- **order_rows** (with or without limit). -/
theorem node_used_sound_order (s : Ops) (cs rv : List String) (lim : Option Nat) (t : Table) (u : List String)
    (hu : subset u (Ops.order s cs rv lim).cols = true) :
    (semOrder cs rv lim t).selectCols u =
    (semOrder cs rv lim (t.selectCols ((usedFromSources (Ops.order s cs rv lim) u).headD []))).selectCols u := by
  rw [selectCols_eq_iff]
  have hsub := subset_iff_u.mp hu
  simp only [usedFromSources, List.headD_cons]
  exact semOrder_congr cs rv lim (RowsAgree_selectCols _ t) (fun c hc => mem_unionL.mpr (.inr hc))
    (fun c hc => mem_unionL.mpr (.inl (mem_filter_contains.mpr ⟨hsub c hc, hc⟩)))

/-- **select_columns.** -/
theorem node_used_sound_select_columns (s : Ops) (cs : List String) (t : Table) (u : List String)
    (hu : subset u (Ops.selectCols s cs).cols = true) :
    (t.selectCols cs).selectCols u =
    ((t.selectCols ((usedFromSources (Ops.selectCols s cs) u).headD [])).selectCols cs).selectCols u := by
  rw [selectCols_eq_iff]
  have hsub := subset_iff_u.mp hu
  simp only [usedFromSources, List.headD_cons]
  exact select_congr (RowsAgree_selectCols _ t)
    (fun c hc => ⟨hsub c hc, hsub c hc, mem_filter_contains.mpr ⟨hsub c hc, hc⟩⟩)

/-- **drop_columns.** -/
theorem node_used_sound_drop_columns (s : Ops) (ds : List String) (t : Table) (u : List String)
    (hu : subset u (Ops.dropCols s ds).cols = true) :
    (t.selectCols (Ops.dropCols s ds).cols).selectCols u =
    ((t.selectCols ((usedFromSources (Ops.dropCols s ds) u).headD [])).selectCols
      (Ops.dropCols s ds).cols).selectCols u := by
  rw [selectCols_eq_iff]
  have hsub := subset_iff_u.mp hu
  simp only [usedFromSources, List.headD_cons]
  refine select_congr (RowsAgree_selectCols _ t) (fun c hc => ⟨hsub c hc, hsub c hc, ?_⟩)
  have := hsub c hc
  simp only [Ops.cols] at this
  exact mem_filter_not_contains.mpr ⟨hc, (mem_filter_not_contains.mp this).2⟩

/-- **rename_columns** (mapping invertible on the source columns, as the constructor checks). -/
theorem node_used_sound_rename (s : Ops) (m : List (String × String))
    (hinv : ∀ k ∈ s.cols, renBack m (renFwd m k) = k)
    (t : Table) (ht : t.cols = s.cols) (hwf : t.WF) (u : List String)
    (hu : subset u (Ops.rename s m).cols = true)
    (hv : ∀ c ∈ (usedFromSources (Ops.rename s m) u).headD [], c ∈ s.cols) :
    RowsAgree u (t.rows.map (·.rename (renFwd m)))
      ((t.selectCols ((usedFromSources (Ops.rename s m) u).headD [])).rows.map (·.rename (renFwd m))) := by
  have hsub := subset_iff_u.mp hu
  simp only [usedFromSources, List.headD_cons] at hv ⊢
  refine rename_congr (renFwd m) (renBack m) (sc := s.cols) (RowsAgree_selectCols _ t) ?_ ?_ hinv ?_
  · intro r hr k hk; rw [hwf r hr, ht] at hk; exact hk
  · intro r hr k hk
    rw [(Table.wf_selectCols t _) r hr] at hk
    exact hv k hk
  · intro c hc
    exact ⟨by simpa [Ops.cols, renFwd] using hsub c hc,
      List.mem_eraseDups.mpr (List.mem_map.mpr ⟨c, hc, rfl⟩)⟩

/-- **map_columns.** -/
theorem node_used_sound_map_columns (s : Ops) (m : List (String × String)) (ds : List String)
    (hinv : ∀ k ∈ s.cols, k ∉ ds → renFwd m (renBack m k) = k)
    (t : Table) (ht : t.cols = s.cols) (hwf : t.WF) (u : List String)
    (hu : subset u (Ops.mapCols s m ds).cols = true)
    (hv : ∀ c ∈ (usedFromSources (Ops.mapCols s m ds) u).headD [], c ∈ s.cols) :
    RowsAgree u (t.rows.map (fun r => (r.drop ds).rename (renBack m)))
      ((t.selectCols ((usedFromSources (Ops.mapCols s m ds) u).headD [])).rows.map
        (fun r => (r.drop ds).rename (renBack m))) := by
  have hsub := subset_iff_u.mp hu
  simp only [usedFromSources, List.headD_cons] at hv ⊢
  refine mapCols_congr (renBack m) (renFwd m) ds (sc := s.cols) (RowsAgree_selectCols _ t) ?_ ?_ hinv ?_
  · intro r hr k hk; rw [hwf r hr, ht] at hk; exact hk
  · intro r hr k hk
    rw [(Table.wf_selectCols t _) r hr] at hk
    exact hv k hk
  · intro c hc
    exact ⟨by simpa [Ops.cols, renBack] using hsub c hc,
      mem_unionL.mpr (.inl (List.mem_eraseDups.mpr (List.mem_map.mpr ⟨c, hc, rfl⟩)))⟩

/-- **natural_join** (both configurations, every join type). -/
theorem node_used_sound_join (cfg : SemCfg) (a b : Ops) (oa ob : List String) (jt : JoinType)
    (ta tb : Table) (hta : ta.cols = a.cols) (htb : tb.cols = b.cols) (hwa : ta.WF) (hwb : tb.WF)
    (u : List String) (hu : subset u (Ops.join a b oa ob jt).cols = true) :
    ((semJoin cfg jt oa ob ta tb (appendNew a.cols b.cols)).selectCols (Ops.join a b oa ob jt).cols).selectCols u =
    ((semJoin cfg jt oa ob
        (ta.selectCols ((usedFromSources (Ops.join a b oa ob jt) u).headD []))
        (tb.selectCols (((usedFromSources (Ops.join a b oa ob jt) u).drop 1).headD []))
        (appendNew a.cols b.cols)).selectCols (Ops.join a b oa ob jt).cols).selectCols u := by
  rw [selectCols_eq_iff]
  have hsub := subset_iff_u.mp hu
  simp only [usedFromSources, List.headD_cons, List.drop_succ_cons, List.drop_zero]
  have hva : ∀ c, c ∈ u ∨ c ∈ oa ∨ c ∈ ob → c ∈ a.cols →
      c ∈ a.cols.filter (fun c => (unionL (unionL u oa) ob).contains c) := by
    intro c hc hca
    refine mem_filter_contains.mpr ⟨hca, ?_⟩
    rcases hc with h | h | h
    · exact mem_unionL.mpr (.inl (mem_unionL.mpr (.inl h)))
    · exact mem_unionL.mpr (.inl (mem_unionL.mpr (.inr h)))
    · exact mem_unionL.mpr (.inr h)
  have hvb : ∀ c, c ∈ u ∨ c ∈ oa ∨ c ∈ ob → c ∈ b.cols →
      c ∈ b.cols.filter (fun c => (unionL (unionL u oa) ob).contains c) := by
    intro c hc hcb
    refine mem_filter_contains.mpr ⟨hcb, ?_⟩
    rcases hc with h | h | h
    · exact mem_unionL.mpr (.inl (mem_unionL.mpr (.inl h)))
    · exact mem_unionL.mpr (.inl (mem_unionL.mpr (.inr h)))
    · exact mem_unionL.mpr (.inr h)
  have hna := hwa.null_outside (sc := a.cols) (by rw [hta]; exact fun c hc => hc)
  have hnb := hwb.null_outside (sc := b.cols) (by rw [htb]; exact fun c hc => hc)
  have hna' := (Table.wf_selectCols ta (a.cols.filter (fun c => (unionL (unionL u oa) ob).contains c))).null_outside
    (sc := a.cols) (fun c hc => (List.mem_filter.mp hc).1)
  have hnb' := (Table.wf_selectCols tb (b.cols.filter (fun c => (unionL (unionL u oa) ob).contains c))).null_outside
    (sc := b.cols) (fun c hc => (List.mem_filter.mp hc).1)
  have haga := upgrade (sc := a.cols) (u ++ oa) (RowsAgree_selectCols _ ta) hna hna'
  have hagb := upgrade (sc := b.cols) (u ++ ob) (RowsAgree_selectCols _ tb) hnb hnb'
  simp only [Table.selectCols]
  refine select_congr (w := u) ?_ (fun c hc => ⟨hsub c hc, hsub c hc, hc⟩)
  refine semJoin_congr cfg jt oa ob haga hagb
    (hwa.null_outside (fun c hc => hc)) ((Table.wf_selectCols ta _).null_outside (fun c hc => hc))
    (hwb.null_outside (fun c hc => hc)) ((Table.wf_selectCols tb _).null_outside (fun c hc => hc)) ?_ ?_ ?_
  · intro c hc
    exact mem_upgrade (by simp [hc]) (fun h => hva c (.inr (.inl hc)) h)
  · intro c hc
    exact mem_upgrade (by simp [hc]) (fun h => hvb c (.inr (.inr hc)) h)
  · intro c hc
    have h1 := (mem_join_cols a b oa ob jt c).mp (hsub c hc)
    exact ⟨mem_appendNew_u.mpr h1, mem_appendNew_u.mpr h1,
      mem_upgrade (by simp [hc]) (fun h => hva c (.inl hc) h),
      mem_upgrade (by simp [hc]) (fun h => hvb c (.inl hc) h)⟩

/-- **concat_rows.** -/
theorem node_used_sound_concat (a b : Ops) (idc : Option String) (an bn : String)
    (ta tb : Table) (hta : ta.cols = a.cols) (htb : tb.cols = b.cols) (hwa : ta.WF) (hwb : tb.WF)
    (u : List String) (hu : subset u (Ops.concat a b idc an bn).cols = true) :
    (semConcat idc an bn ta tb (Ops.concat a b idc an bn).cols).selectCols u =
    (semConcat idc an bn
        (ta.selectCols ((usedFromSources (Ops.concat a b idc an bn) u).headD []))
        (tb.selectCols (((usedFromSources (Ops.concat a b idc an bn) u).drop 1).headD []))
        (Ops.concat a b idc an bn).cols).selectCols u := by
  rw [selectCols_eq_iff]
  have hsub := subset_iff_u.mp hu
  simp only [usedFromSources, List.headD_cons, List.drop_succ_cons, List.drop_zero]
  have hna := hwa.null_outside (sc := a.cols) (by rw [hta]; exact fun c hc => hc)
  have hnb := hwb.null_outside (sc := b.cols) (by rw [htb]; exact fun c hc => hc)
  have hna' := (Table.wf_selectCols ta (a.cols.filter (fun c => u.contains c))).null_outside
    (sc := a.cols) (fun c hc => (List.mem_filter.mp hc).1)
  have hnb' := (Table.wf_selectCols tb (b.cols.filter (fun c => u.contains c))).null_outside
    (sc := b.cols) (fun c hc => (List.mem_filter.mp hc).1)
  have haga := upgrade (sc := a.cols) u (RowsAgree_selectCols _ ta) hna hna'
  have hagb := upgrade (sc := b.cols) u (RowsAgree_selectCols _ tb) hnb hnb'
  refine semConcat_congr idc an bn haga hagb ?_
  intro c hc
  refine ⟨hsub c hc, hsub c hc, ?_⟩
  have := hsub c hc
  simp only [Ops.cols] at this
  have hsplit : idc = some c ∨ c ∈ a.cols := by
    cases idc with
    | none => exact .inr this
    | some i =>
      simp only [List.mem_append, List.mem_singleton] at this
      rcases this with h | h
      · exact .inr h
      · exact .inl (by rw [h])
  rcases hsplit with h | h
  · exact .inl h
  · exact .inr ⟨mem_upgrade hc (fun h' => mem_filter_contains.mpr ⟨h', hc⟩),
      mem_upgrade hc (fun h' => mem_filter_contains.mpr ⟨h', hc⟩)⟩

/-- **convert_records**: the request is the record map's needed columns, whatever is asked of the result; sound
exactly when the transform reads only those (`ConvertLocal`). -/
theorem node_used_sound_convert (Θ : Interp) (hloc : ConvertLocal Θ) (s : Ops) (rm : RecMap) (t : Table)
    (u : List String) :
    Θ.convert rm t = Θ.convert rm (t.selectCols ((usedFromSources (Ops.convert s rm) u).headD [])) := by
  simp only [usedFromSources, List.headD_cons]
  exact hloc rm _ _ (RowsAgree_selectCols _ t)

/-- every request `usedFromSources` makes of an extend's source lies inside the source's columns -/
theorem used_extend_subset_source (s : Ops) (ops : Assign) (part od rv : List String) (w : Bool) (u : List String) :
    ∀ c ∈ (usedFromSources (Ops.extend s ops part od rv w) u).headD [], c ∈ s.cols := by
  obtain ⟨v, hv, hvs, _⟩ := used_extend s ops part od rv w u
  rw [hv]; exact hvs

/-! ## 2. `columns_used` is sound

The core statements are about any report `U` produced by a *run* (`Run`, `Proofs/UsedSem.lean`): a traversal that
may enlarge a node's request before asking its sources.  Two instances: `Ops.columnsUsed` (tree-shaped pipelines:
every node object used once) and `Ops.columnsUsedShared` (shared node objects, whose records accumulate – the
report is then neither a subset nor a superset of the tree report, because an extend asked for none of its products
requests *all* source columns). -/

/-- agreement form, for any run -/
theorem C10_run_agree (Θ : Interp) (hok : ConvertOK Θ) (hloc : ConvertLocal Θ) (cfg : SemCfg)
    (p : Ops) (hwf : UsedWF p) (U : Used) (hU : Run p p.cols (initUsed p) U) (env env' : Env)
    (henv : EnvAgree U env env') :
    ResAgree p.cols (sem Θ cfg env p) (sem Θ cfg env' p) := by
  have hscan := scan_of_envAgree Θ cfg henv p.tables (fun k cs hk => run_has_entry hU hk)
  have := (sem_narrow_agree Θ hok hloc cfg (fun _ cs => cs) (fun _ _ _ h => h) env env' p hwf p.cols _ U hU hscan).2
  rwa [narrowWith_id] at this

/-- equality form, for any run -/
theorem C10_run_sound (Θ : Interp) (hok : ConvertOK Θ) (hloc : ConvertLocal Θ) (cfg : SemCfg)
    (p : Ops) (hwf : UsedWF p) (hnd : p.cols.Nodup) (U : Used) (hU : Run p p.cols (initUsed p) U) (env env' : Env)
    (henv : EnvAgree U env env') :
    sem Θ cfg env p = sem Θ cfg env' p := by
  have h := C10_run_agree Θ hok hloc cfg p hwf U hU env env' henv
  cases e : sem Θ cfg env p <;> cases e' : sem Θ cfg env' p <;> simp only [e, e', ResAgree] at h
  · rw [h]
  · rename_i t t'
    obtain ⟨hc, hw⟩ := sem_cols_wf Θ hok cfg env p t e
    obtain ⟨hc', hw'⟩ := sem_cols_wf Θ hok cfg env' p t' e'
    rw [table_eq_of_agree (hc.trans hc'.symm) hw hw' (hc ▸ hnd) (hc ▸ h)]

/-- **Agreement form.**  If `columns_used` reports `U` and two environments differ at most in the values of columns
`U` does not list (same tables, same columns, same number of rows in the same order, agreement on the listed
columns), then the pipeline has the same outcome on both: the same error, or results whose rows agree, in order, on
every result column.  Holds for every interpretation `Θ` of the function symbols and both semantic configurations. -/
theorem C10_columns_used_agree (Θ : Interp) (hok : ConvertOK Θ) (hloc : ConvertLocal Θ) (cfg : SemCfg)
    (p : Ops) (hwf : UsedWF p) (U : Used) (hU : columnsUsed p = .ok U) (env env' : Env)
    (henv : EnvAgree U env env') :
    ResAgree p.cols (sem Θ cfg env p) (sem Θ cfg env' p) :=
  C10_run_agree Θ hok hloc cfg p hwf U (run_of_columnsUsed hU) env env' henv

/-- **C10, first half.**  Under the same hypotheses, for a pipeline with duplicate-free result columns, the two
evaluations are *equal* (same error, or the same table: same columns, same rows in the same order). -/
theorem C10_columns_used_sound (Θ : Interp) (hok : ConvertOK Θ) (hloc : ConvertLocal Θ) (cfg : SemCfg)
    (p : Ops) (hwf : UsedWF p) (hnd : p.cols.Nodup) (U : Used) (hU : columnsUsed p = .ok U) (env env' : Env)
    (henv : EnvAgree U env env') :
    sem Θ cfg env p = sem Θ cfg env' p :=
  C10_run_sound Θ hok hloc cfg p hwf hnd U (run_of_columnsUsed hU) env env' henv

/-- **C10, first half, pipelines with shared node objects.**  The same for the report computed with per-object
accumulation records (`columnsUsedShared`; `ids` gives the object identities, one object having one column set). -/
theorem C10_columns_used_shared_sound (Θ : Interp) (hok : ConvertOK Θ) (hloc : ConvertLocal Θ) (cfg : SemCfg)
    (p : Ops) (ids : IdTree) (hids : idsConsistent p ids = true) (hwf : UsedWF p) (hnd : p.cols.Nodup) (U : Used)
    (hU : columnsUsedShared p ids = .ok U) (env env' : Env) (henv : EnvAgree U env env') :
    sem Θ cfg env p = sem Θ cfg env' p :=
  C10_run_sound Θ hok hloc cfg p hwf hnd U (run_of_shared hids hU) env env' henv

/-! ## 3. narrowing the table descriptions to the report -/

/-- narrowing form, for any run -/
theorem C10_run_narrow (Θ : Interp) (hok : ConvertOK Θ) (hloc : ConvertLocal Θ) (cfg : SemCfg)
    (p : Ops) (hwf : UsedWF p) (U : Used) (hU : Run p p.cols (initUsed p) U) (env : Env) (hconf : Conforms p env) :
    ResAgree p.cols (sem Θ cfg env p) (sem Θ cfg (restrictEnv U env) (narrow U p)) ∧
      ∀ c, c ∈ (narrow U p).cols ↔ c ∈ p.cols := by
  have hscan := scan_of_restrict Θ cfg U env p.tables hconf
  have hV : ∀ k cs c, c ∈ narrowCols U k cs → c ∈ cs := fun k cs c h => (List.mem_filter.mp h).1
  obtain ⟨hA, hB⟩ := sem_narrow_agree Θ hok hloc cfg (narrowCols U) hV env (restrictEnv U env) p hwf p.cols _ U hU hscan
  exact ⟨hB, fun c => ⟨narrow_cols_subset _ hV p c, hA c⟩⟩

/-- **C10, second half.**  If `columns_used` reports `U` and the inputs conform to the table descriptions, then the
pipeline whose table descriptions keep only the reported columns, evaluated on the inputs restricted to the reported
columns, has the same outcome as the original on the original inputs: the same error, or rows that agree, in
order, on every result column; and it declares the same *set* of result columns.  (The *order* of the declared
columns can differ, see `C10_narrow_column_order_witness`; result tables are therefore compared column by column,
not as lists.) -/
theorem C10_narrow_sound (Θ : Interp) (hok : ConvertOK Θ) (hloc : ConvertLocal Θ) (cfg : SemCfg)
    (p : Ops) (hwf : UsedWF p) (U : Used) (hU : columnsUsed p = .ok U) (env : Env) (hconf : Conforms p env) :
    ResAgree p.cols (sem Θ cfg env p) (sem Θ cfg (restrictEnv U env) (narrow U p)) ∧
      ∀ c, c ∈ (narrow U p).cols ↔ c ∈ p.cols :=
  C10_run_narrow Θ hok hloc cfg p hwf U (run_of_columnsUsed hU) env hconf

/-- the same for the report computed on shared node objects -/
theorem C10_narrow_shared_sound (Θ : Interp) (hok : ConvertOK Θ) (hloc : ConvertLocal Θ) (cfg : SemCfg)
    (p : Ops) (ids : IdTree) (hids : idsConsistent p ids = true) (hwf : UsedWF p) (U : Used)
    (hU : columnsUsedShared p ids = .ok U) (env : Env) (hconf : Conforms p env) :
    ResAgree p.cols (sem Θ cfg env p) (sem Θ cfg (restrictEnv U env) (narrow U p)) ∧
      ∀ c, c ∈ (narrow U p).cols ↔ c ∈ p.cols :=
  C10_run_narrow Θ hok hloc cfg p hwf U (run_of_shared hids hU) env hconf

/-- the narrowed pipeline succeeds whenever the original does (and then returns the same number of rows) -/
theorem C10_narrow_ok (Θ : Interp) (hok : ConvertOK Θ) (hloc : ConvertLocal Θ) (cfg : SemCfg)
    (p : Ops) (hwf : UsedWF p) (U : Used) (hU : columnsUsed p = .ok U) (env : Env) (hconf : Conforms p env)
    (t : Table) (ht : sem Θ cfg env p = .ok t) :
    ∃ t', sem Θ cfg (restrictEnv U env) (narrow U p) = .ok t' ∧ RowsAgree p.cols t.rows t'.rows := by
  have h := (C10_narrow_sound Θ hok hloc cfg p hwf U hU env hconf).1
  rw [ht] at h
  cases e : sem Θ cfg (restrictEnv U env) (narrow U p) <;> simp only [e, ResAgree] at h
  exact ⟨_, rfl, h⟩

/-! ## 3b. the hypotheses hold for every pipeline the builders produce -/

/-- **Built pipelines are well-formed.**  Every pipeline obtained from table descriptions (distinct column names) by
builder calls (`build`, with pipeline arguments built the same way and dict arguments without repeated keys)
satisfies `UsedWF` and has duplicate-free result columns. -/
theorem C10_reachable_wf (p : Ops) (h : ReachableU p) : UsedWF p ∧ p.cols.Nodup :=
  ⟨h.allOK.usedWF p, h.allOK.cols_nodup p⟩

/-- **`columns_used` never raises on a built pipeline** (the `ValueError("asked for unknown columns")` branch of
`columns_used_implementation_` is unreachable: every request lies inside the source's columns). -/
theorem C10_columns_used_total (p : Ops) (h : ReachableU p) : ∃ U, columnsUsed p = .ok U :=
  h.allOK.columnsUsed_ok

/-- **C10 for built pipelines**, structural hypotheses discharged: there is a report, and any two environments that
agree on it give the same result. -/
theorem C10_reachable_sound (Θ : Interp) (hok : ConvertOK Θ) (hloc : ConvertLocal Θ) (cfg : SemCfg)
    (p : Ops) (h : ReachableU p) :
    ∃ U, columnsUsed p = .ok U ∧ ∀ env env', EnvAgree U env env' → sem Θ cfg env p = sem Θ cfg env' p := by
  obtain ⟨U, hU⟩ := C10_columns_used_total p h
  obtain ⟨hwf, hnd⟩ := C10_reachable_wf p h
  exact ⟨U, hU, fun env env' he => C10_columns_used_sound Θ hok hloc cfg p hwf hnd U hU env env' he⟩

/-! ## 4. non-vacuity: the hypotheses hold on concrete, non-trivial instances -/
section examples

/-- a concrete interpretation (the driver's scalar/aggregate/window functions; record transforms always fail) -/
def Θc : Interp := Theta.concrete (fun _ _ => .error .other)

example : ConvertOK Θc := fun _ _ _ h => by cases h
example : ConvertLocal Θc := fun _ _ _ _ => rfl

private def cum (c : String) : Term := .app "cumsum" [.col c] false true

/-- the D30 pipeline: `d(o,x,w).extend({'z':'w.cumsum()','y':'x.cumsum()'}, order_by=['o']).select_columns(['y'])` -/
def pW : Ops :=
  .selectCols (.extend (.table "d" ["o", "x", "w"]) [("z", cum "w"), ("y", cum "x")] [] ["o"] [] true) ["y"]

private def row3 (o x w : Int) : Row := [("o", .num o), ("x", .num x), ("w", .num w)]
def tA : Table := ⟨["o", "x", "w"], [row3 1 1 1, row3 1 10 2, row3 1 100 3]⟩
def tB : Table := ⟨["o", "x", "w"], [row3 1 1 3, row3 1 10 2, row3 1 100 1]⟩

/-- `columns_used` reports `{d: {o, x}}` for it (as the real library does) -/
example : columnsUsed pW = .ok [("d", ["o", "x"])] := by rfl
example : UsedWF pW := ⟨trivial, fun _ => by decide⟩
example : pW.cols.Nodup := by decide

/-- it is built by two builder calls from a table description -/
example : ReachableU pW :=
  .step (s := .selectCols ["y"])
    (.step (s := .extend [("z", cum "w"), ("y", cum "x")] .none ["o"] [])
      (.table "d" ["o", "x", "w"] (by decide)) trivial (by rfl))
    trivial (by rfl)

/-- the two inputs differ only in the unreported column `w` -/
theorem envA_envB_agree : EnvAgree [("d", ["o", "x"])] [("d", tA)] [("d", tB)] := by
  intro k cs h
  simp only [List.mem_singleton, Prod.mk.injEq] at h
  obtain ⟨rfl, rfl⟩ := h
  refine ⟨rfl, ?_⟩
  refine .cons ?_ (.cons ?_ (.cons ?_ .nil)) <;>
  · intro c hc
    simp only [List.mem_cons, List.not_mem_nil, or_false] at hc
    rcases hc with rfl | rfl <;> rfl

/-- … so, in the model, the pipeline evaluates identically on both, for every interpretation satisfying the laws -/
example (Θ : Interp) (hok : ConvertOK Θ) (hloc : ConvertLocal Θ) (cfg : SemCfg) :
    sem Θ cfg [("d", tA)] pW = sem Θ cfg [("d", tB)] pW :=
  C10_columns_used_sound Θ hok hloc cfg pW ⟨trivial, fun _ => by decide⟩ (by decide) _ rfl _ _ envA_envB_agree

/-- a pipeline that uses one node object twice: `S = d(h,i,k).extend({'v':'h+1'})`,
`S.natural_join(S.select_columns(['i']).rename_columns({'i2':'i'}), on=[('i','i2')]).select_columns(['v','i2'])` -/
def pS : Ops :=
  let S : Ops := .extend (.table "d" ["h", "i", "k"]) [("v", .app "+" [.col "h", .value (.int 1)] true false)] [] [] [] false
  .selectCols (.join S (.rename (.selectCols S ["i"]) [("i2", "i")]) ["i"] ["i2"] .inner) ["v", "i2"]
/-- its object identities: `S` is object 1 at both positions -/
def pSids : IdTree := .un 5 (.bin 0 (.un 1 (.leaf 9)) (.un 2 (.un 3 (.un 1 (.leaf 9)))))

/-- on the tree the second use of `S` is asked for `i` only – none of its products – and requests every source
column; with the shared record `{v, i}` it requests `{h, i}`: the shared report is *smaller* -/
example : columnsUsed pS = .ok [("d", ["h", "i", "k"])] := by rfl
example : idsConsistent pS pSids = true := by decide
example : columnsUsedShared pS pSids = .ok [("d", ["h", "i"])] := by rfl

/-- a join / extend / drop pipeline for the narrowing theorem:
`a(x,y).natural_join(b(y,x,z), on=['x'], jointype='inner').extend({'w':'x+1'}).drop_columns(['z'])` -/
def pJ : Ops :=
  .dropCols (.extend (.join (.table "a" ["x", "y"]) (.table "b" ["y", "x", "z"]) ["x"] ["x"] .inner)
     [("w", .app "+" [.col "x", .value (.int 1)] true false)] [] [] [] false) ["z"]

example : columnsUsed pJ = .ok [("a", ["x", "y"]), ("b", ["y", "x"])] := by rfl
example : UsedWF pJ := ⟨⟨trivial, trivial⟩, fun h => by cases h⟩
example : Conforms pJ [("a", ⟨["x", "y"], [[("x", .num 1), ("y", .num 2)]]⟩),
    ("b", ⟨["y", "x", "z"], [[("y", .num 5), ("x", .num 1), ("z", .num 9)]]⟩)] := by
  intro k cs h
  simp only [pJ, Ops.tables, List.cons_append, List.nil_append, List.mem_cons, Prod.mk.injEq, List.not_mem_nil,
    or_false] at h
  rcases h with ⟨rfl, rfl⟩ | ⟨rfl, rfl⟩
  · exact ⟨_, rfl, by decide⟩
  · exact ⟨_, rfl, by decide⟩

/-- **The order of the declared columns is not preserved by narrowing.**  With `z` unreported, the narrowed join
sees `b(y,x)`, whose column set equals `a`'s, and re-uses `a`'s column tuple `(x, y)`; the original join re-used
`b`'s `(y, x, z)`.  Hence `C10_narrow_sound` compares results column by column. -/
theorem C10_narrow_column_order_witness :
    ∃ U, columnsUsed pJ = .ok U ∧ pJ.cols = ["y", "x", "w"] ∧ (narrow U pJ).cols = ["x", "y", "w"] :=
  ⟨_, rfl, by decide, by decide⟩

end examples

/-! ## 5. the known finding D30: ties in a window order (real executor's sort key) -/

/-- guard of the finding: inside every partition no two rows tie on the `order_by` columns -/
def WindowOrderTotal (partition order : List String) (t : Table) : Bool :=
  t.rows.zipIdx.all (fun a => t.rows.zipIdx.all (fun b =>
    a.2 == b.2 || keyOf a.1 partition != keyOf b.1 partition || keyOf a.1 order != keyOf b.1 order))

/-- the witness violates the guard (all three rows tie on `o`) -/
example : WindowOrderTotal [] ["o"] tA = false := by decide

/-- **The guard is necessary for the executor's sort key.**  With the sort key of `pandas_base._extend_step`
(`semExtendWindowTies`: partition, order and *the value columns of every op*), the node-level statement fails on the
D30 witness: the two source tables agree on the reported columns `{o, x}` and differ only in `w`, yet the kept
running sum `y` differs ((1, 11, 111) against (111, 110, 100), exactly what the real library returns). -/
theorem C10_window_tie_break_necessary :
    RowsAgree ["o", "x"] tA.rows tB.rows ∧
    (semExtendWindowTies Θc [("z", cum "w"), ("y", cum "x")] [] ["o"] [] tA ["o", "x", "w", "z", "y"]).selectCols ["y"]
      ≠ (semExtendWindowTies Θc [("z", cum "w"), ("y", cum "x")] [] ["o"] [] tB ["o", "x", "w", "z", "y"]).selectCols ["y"] := by
  refine ⟨?_, by decide +kernel⟩
  refine .cons ?_ (.cons ?_ (.cons ?_ .nil)) <;>
  · intro c hc
    simp only [List.mem_cons, List.not_mem_nil, or_false] at hc
    rcases hc with rfl | rfl <;> rfl

/-- the model's `semExtendWindow` (order columns only, stable) does satisfy it on the same witness – an instance of
the node lemma behind `node_used_sound_extend_window` – which is why the finding is invisible to `sem` -/
example :
    RowsAgree ["y"]
      (semExtendWindow Θc [("z", cum "w"), ("y", cum "x")] [] ["o"] [] tA ["o", "x", "w", "z", "y"]).rows
      (semExtendWindow Θc [("z", cum "w"), ("y", cum "x")] [] ["o"] [] tB ["o", "x", "w", "z", "y"]).rows := by
  refine semExtendWindow_congr Θc _ [] ["o"] [] (w := ["o", "x"]) C10_window_tie_break_necessary.1 ?_ ?_ ?_ ?_ ?_
  · intro c hc; simp only [List.mem_singleton] at hc; subst hc; simp
  · intro c hc; cases hc
  · intro c hc; simp only [List.mem_singleton] at hc; subst hc; simp
  · intro c hc hk; simp only [List.mem_singleton] at hc; subst hc; simp at hk
  · intro kv hkv hk c hc
    simp only [List.mem_cons, List.not_mem_nil, or_false] at hkv hk
    rcases hkv with rfl | rfl
    · simp at hk
    · simp only [cum, Term.colsRaw, Term.colsRawList, List.append_nil, List.mem_singleton] at hc
      subst hc; simp

end C10
end DAVerif
