import DAVerif.Proofs.C07Total
import DAVerif.Props.C06
/-!
# C07  Pipeline composition equals sequential application and is associative

Model: `Ops.replaceLeaves` (`replace_leaves`: every node is rebuilt through its builder on the replaced
sources) and `Ops.actOn` (`self.act_on(b)`, i.e. `b >> self`) in `Ops/Compose.lean`, for /repo after the fixes
D1, D2 and 8e6df35 (`ExtendNode.replace_leaves` keeps the windowed situation of a `partition_by=1` step).
Vocabulary: `Spec/Chain.lean` (`≈ᶜ`, `ResEquivC`: same error, or same table up to the order of rows and of
columns), `Spec/Perm.lean` (C18's scope `WindowsTotal`, `AggsOrderFree`), `Reachable` (`Props/C26.lean`).

Because composition re-runs the builders, all statements rest on the C06 per-builder lemmas
(`Proofs/C06Main.lean`: `shape_sem_apply`).  The boundary of `act_on` requires equal column **sets**; the table
node selects its declared columns by name, so the order in which the first pipeline lists them does not matter
– this is part of what `C07_replace_leaves_sem` / `C07_compose_sem` prove (their conclusion is up to column
order because the composed pipeline may *declare* its columns in another order).
-/
namespace DAVerif

/-- **C07, `replace_leaves` is substitution.**  If `replace_leaves m p` succeeds on a reachable pipeline `p`,
then for every environment `env'` that binds each replaced table `k` of `p` to the result (in `env`) of its
replacement `m k` – a valid pipeline whose columns are, as a set, the columns `p` declares for `k` – and the
other tables as `env` does (`LeafOK`): the rebuilt pipeline evaluates in `env` to the same error, or the same
table up to the order of rows and columns, as `p` in `env'`; under C18's scope conditions for `p` on `env'`. -/
theorem C07_replace_leaves_sem (Θ : Interp) (cfg : SemCfg) (env env' : Env) (hΘ : ConvertOK Θ)
    (hC : ConvertInvariant Θ) {m : List (String × Ops)} {p q : Ops} (hp : Reachable p)
    (hl : ∀ kc ∈ p.tables, LeafOK Θ cfg env m env' kc.1 kc.2) (hA : AggsOrderFree Θ p)
    (hW : WindowsTotal Θ cfg env' p) (h : Ops.replaceLeaves m p = .ok q) :
    ResEquivC (sem Θ cfg env q) (sem Θ cfg env' p) :=
  (replaceLeaves_sem hΘ hC p hp.valid hl hA hW q h).2

/-- **C07, composition is sequential application.**  For reachable `a` and `b` (`key` the table key of `b`): if
`a >> b` (`b.act_on(a)`) succeeds with `c`, then on every environment `c` evaluates to the same error, or the
same table up to the order of rows and columns, as evaluating `a` and then `b` with its table bound to the result
of `a` (when `a` fails, `c` fails with the same error); under C18's scope conditions for `b` on that input.
The boundary check of `act_on` (equal column sets) is part of `actOn` succeeding. -/
theorem C07_compose_sem (Θ : Interp) (cfg : SemCfg) (env : Env) (hΘ : ConvertOK Θ) (hC : ConvertInvariant Θ)
    {a b c : Ops} {key : String} (ha : Reachable a) (hb : Reachable b) (h : Ops.actOn b a = .ok c)
    (hkey : (b.tables.map (·.1)).eraseDups = [key]) (hA : AggsOrderFree Θ b)
    (hW : ∀ ta, sem Θ cfg env a = .ok ta → WindowsTotal Θ cfg ((key, ta) :: env) b) :
    ResEquivC (sem Θ cfg env c) (sem Θ cfg env a >>= fun ta => sem Θ cfg ((key, ta) :: env) b) :=
  compose_sem_valid hΘ hC ha.valid hb.valid h hkey hA hW

/-- **C07, dom / cod.**  The composed pipeline `a >> b` reads exactly the table descriptions of `a` (its `dom`),
declares the columns of `b` up to order (its `cod`), and is again a valid pipeline. -/
theorem C07_dom_cod {a b c : Ops} (ha : Reachable a) (hb : Reachable b) (h : Ops.actOn b a = .ok c) :
    (∀ x, x ∈ c.tables ↔ x ∈ a.tables) ∧ c.cols.Perm b.cols ∧ c.valid = true := by
  obtain ⟨key, oldCols, hkey, hold, h1, h2, hrep⟩ := actOn_inv h
  have hbound := actOn_boundary hb.valid ha.valid hkey hold h1 h2
  obtain ⟨hv, ht, hc, _⟩ := replaceSingle ha.valid b hb.valid hbound c hrep
  exact ⟨ht, hc, hv⟩

/-- **C07, composition is total.**  For reachable `a` and `b`, `b` reading one table key whose declared columns
are, as a set, the columns of `a`: `a >> b` succeeds – no operator kind of `b` (nor any simplification the
builders re-apply) makes the composition raise. -/
theorem C07_compose_total {a b : Ops} {key : String} {oldCols : List String} (ha : Reachable a)
    (hb : Reachable b) (hkey : (b.tables.map (·.1)).eraseDups = [key])
    (hold : lookupLast b.tables key = some oldCols) (hset : ∀ c, c ∈ a.cols ↔ c ∈ oldCols) :
    ∃ c, Ops.actOn b a = .ok c :=
  actOn_total ha.valid hb.valid hkey hold hset

/-- the table key of a composed pipeline is the table key of its first part -/
theorem actOn_key {a b c : Ops} {ka : String} (ha : a.valid = true) (hb : b.valid = true)
    (h : Ops.actOn b a = .ok c) (hka : (a.tables.map (·.1)).eraseDups = [ka]) :
    (c.tables.map (·.1)).eraseDups = [ka] ∧ c.valid = true := by
  obtain ⟨key, oldCols, hkey, hold, h1, h2, hrep⟩ := actOn_inv h
  have hbound := actOn_boundary hb ha hkey hold h1 h2
  obtain ⟨hv, ht, _, _⟩ := replaceSingle ha b hb hbound c hrep
  refine ⟨?_, hv⟩
  -- same set of table keys, and `eraseDups` of a list whose elements are all `ka` (and which is not empty)
  have hall : ∀ k ∈ c.tables.map (·.1), k = ka := by
    intro k hk
    obtain ⟨x, hx, rfl⟩ := List.mem_map.mp hk
    have : x.1 ∈ (a.tables.map (·.1)).eraseDups :=
      List.mem_eraseDups.mpr (List.mem_map.mpr ⟨x, (ht x).mp hx, rfl⟩)
    rw [hka] at this
    simpa using this
  have hne : c.tables.map (·.1) ≠ [] := by
    intro e
    exact tables_ne_nil c (List.map_eq_nil_iff.mp e)
  generalize c.tables.map (·.1) = l at hall hne
  cases l with
  | nil => exact absurd rfl hne
  | cons x xs =>
    have hx := hall x (List.mem_cons_self ..)
    subst hx
    rw [List.eraseDups_cons]
    have : xs.filter (fun b => !b == x) = [] := by
      rw [List.filter_eq_nil_iff]
      intro y hy
      simp [hall y (List.mem_cons_of_mem _ hy)]
    rw [this]
    rfl

/-- **C07, composition is associative (semantically).**  For reachable `a`, `b`, `c` with table keys `kb`, `kc`
of `b`, `c`: if both ways of composing succeed, `(a >> b) >> c` and `a >> (b >> c)` evaluate on every
environment to the same error, or the same table up to the order of rows and columns – the aggregates of `b`,
`c`, `b >> c` being order free and these three pipelines being in C18's scope on every environment (e.g. no
windowed `extend` with ties, no limit through a tie). -/
theorem C07_assoc_sem (Θ : Interp) (cfg : SemCfg) (env : Env) (hΘ : ConvertOK Θ) (hC : ConvertInvariant Θ)
    {a b c ab bc l r : Ops} {kb kc : String} (ha : Reachable a) (hb : Reachable b)
    (hc : Reachable c) (hkb : (b.tables.map (·.1)).eraseDups = [kb])
    (hkc : (c.tables.map (·.1)).eraseDups = [kc])
    (hab : Ops.actOn b a = .ok ab) (hl : Ops.actOn c ab = .ok l)
    (hbc : Ops.actOn c b = .ok bc) (hr : Ops.actOn bc a = .ok r)
    (hAb : AggsOrderFree Θ b) (hAc : AggsOrderFree Θ c) (hAbc : AggsOrderFree Θ bc)
    (hWb : ∀ e, WindowsTotal Θ cfg e b) (hWc : ∀ e, WindowsTotal Θ cfg e c)
    (hWbc : ∀ e, WindowsTotal Θ cfg e bc) :
    ResEquivC (sem Θ cfg env l) (sem Θ cfg env r) := by
  have hav := ha.valid
  have hbv := hb.valid
  have hcv := hc.valid
  -- validity and keys of the intermediate compositions
  have habv : ab.valid = true := (C07_dom_cod ha hb hab).2.2
  obtain ⟨hkbc, hbcv⟩ := actOn_key hbv hcv hbc hkb
  -- left: (a >> b) >> c
  have L1 := compose_sem_valid (Θ := Θ) (cfg := cfg) (env := env) hΘ hC habv hcv hl hkc hAc
    (fun _ _ => hWc _)
  have L2 := compose_sem_valid (Θ := Θ) (cfg := cfg) (env := env) hΘ hC hav hbv hab hkb hAb
    (fun _ _ => hWb _)
  -- the keys of `c` are all `kc`
  have hck : ∀ k ∈ c.tables.map (·.1), k = kc := by
    intro k hk
    have : k ∈ (c.tables.map (·.1)).eraseDups := List.mem_eraseDups.mpr hk
    rw [hkc] at this
    simpa using this
  have Lc : ResEquivC (sem Θ cfg env ab >>= fun t => sem Θ cfg ((kc, t) :: env) c)
      ((sem Θ cfg env a >>= fun ta => sem Θ cfg ((kb, ta) :: env) b) >>= fun t =>
        sem Θ cfg ((kc, t) :: env) c) := by
    apply ResEquivC.bind L2
    intro t t' _ _ htt
    refine sem_congrC hΘ hC c hcv ?_ hAc (hWc _)
    intro k hk
    rw [hck k hk]
    exact Or.inr ⟨t, t', by simp, by simp, htt⟩
  -- right: a >> (b >> c)
  have R1 := compose_sem_valid (Θ := Θ) (cfg := cfg) (env := env) hΘ hC hav hbcv hr hkbc hAbc
    (fun _ _ => hWbc _)
  have Rc : ResEquivC (sem Θ cfg env a >>= fun ta => sem Θ cfg ((kb, ta) :: env) bc)
      (sem Θ cfg env a >>= fun ta => sem Θ cfg ((kb, ta) :: env) b >>= fun t =>
        sem Θ cfg ((kc, t) :: env) c) := by
    apply ResEquivC.bind (ResEquivC.of_eq rfl (fun t ht => sem_wf_nodup hΘ hav ht))
    intro ta ta' hta hta' _
    rw [hta] at hta'; cases hta'
    have R2 := compose_sem_valid (Θ := Θ) (cfg := cfg) (env := (kb, ta) :: env) hΘ hC hbv hcv hbc hkc hAc
      (fun _ _ => hWc _)
    refine R2.trans (ResEquivC.of_eq ?_ ?_)
    · apply except_bind_congr
      intro tb _
      apply sem_env_congr
      intro k hk
      rw [hck k hk]
      simp
    · intro t ht
      obtain ⟨tb, htb, hsem⟩ := except_bind_eq_ok.mp ht
      exact sem_wf_nodup hΘ hcv hsem
  rw [bind_assoc] at Lc
  exact (L1.trans Lc).trans (R1.trans Rc).symm

/-- the same with every aggregate order free (`AggPermInvariant`) -/
theorem C07_assoc_sem_perm (Θ : Interp) (cfg : SemCfg) (env : Env) (hΘ : ConvertOK Θ) (hC : ConvertInvariant Θ)
    (hAgg : AggPermInvariant Θ) {a b c ab bc l r : Ops} {kb kc : String} (ha : Reachable a) (hb : Reachable b)
    (hc : Reachable c) (hkb : (b.tables.map (·.1)).eraseDups = [kb])
    (hkc : (c.tables.map (·.1)).eraseDups = [kc])
    (hab : Ops.actOn b a = .ok ab) (hl : Ops.actOn c ab = .ok l)
    (hbc : Ops.actOn c b = .ok bc) (hr : Ops.actOn bc a = .ok r)
    (hWb : ∀ e, WindowsTotal Θ cfg e b) (hWc : ∀ e, WindowsTotal Θ cfg e c)
    (hWbc : ∀ e, WindowsTotal Θ cfg e bc) :
    ResEquivC (sem Θ cfg env l) (sem Θ cfg env r) :=
  C07_assoc_sem Θ cfg env hΘ hC ha hb hc hkb hkc hab hl hbc hr (aggsOrderFree_of_permInvariant hAgg b)
    (aggsOrderFree_of_permInvariant hAgg c) (aggsOrderFree_of_permInvariant hAgg bc) hWb hWc hWbc

/-! ## Non-vacuity, and what does not hold -/
namespace C07Ex
open C06Ex

def T : Ops := .table "T" ["w"]
def M : Ops := .table "M" ["w", "x"]
def N : Ops := .table "N" ["w", "x", "y"]
/-- `T.extend({'x': 'w'})` -/
def a : Ops := .extend T [("x", .col "w")] [] [] [] false
/-- `M.extend({'y': 'x'})` -/
def b : Ops := .extend M [("y", .col "x")] [] [] [] false
/-- `N.extend({'y': 'w'})` -/
def c : Ops := .extend N [("y", .col "w")] [] [] [] false

theorem a_reach : Reachable a :=
  Reachable.step (s := .extend [("x", .col "w")] .none [] []) (Reachable.table "T" ["w"] (by decide) (by decide))
    (by intro b hb; cases hb) rfl
theorem b_reach : Reachable b :=
  Reachable.step (s := .extend [("y", .col "x")] .none [] [])
    (Reachable.table "M" ["w", "x"] (by decide) (by decide)) (by intro b hb; cases hb) rfl
theorem c_reach : Reachable c :=
  Reachable.step (s := .extend [("y", .col "w")] .none [] [])
    (Reachable.table "N" ["w", "x", "y"] (by decide) (by decide)) (by intro b hb; cases hb) rfl

/-- `a >> b` merges the two `extend`s -/
theorem ab_eq : Ops.actOn b a = .ok (Ops.extend (Ops.extend T [("x", .col "w")] [] [] [] false)
    [("y", .col "x")] [] [] [] false) := rfl

def env : Env := [("T", ⟨["w"], [[("w", .num 1)], [("w", .num 2)]]⟩)]

/-- the composition theorem applies (no windows, no aggregates: the scope conditions are trivial) … -/
example : ResEquivC (sem Θc .pandas env (Ops.extend (Ops.extend T [("x", .col "w")] [] [] [] false)
      [("y", .col "x")] [] [] [] false))
    (sem Θc .pandas env a >>= fun ta => sem Θc .pandas (("M", ta) :: env) b) :=
  C07_compose_sem Θc .pandas env convertOK convertInv a_reach b_reach ab_eq (by decide) trivial
    (fun _ _ => ⟨trivial, fun h => by cases h⟩)

/-- … and speaks about a successful evaluation -/
example : ∃ t, (sem Θc .pandas env a >>= fun ta => sem Θc .pandas (("M", ta) :: env) b) = .ok t ∧
    t.cols = ["w", "x", "y"] ∧ t.rows.length = 2 := ⟨_, rfl, by decide, by decide⟩

/-- composition is total: the hypotheses of `C07_compose_total` hold for `a`, `b` -/
example : ∃ c, Ops.actOn b a = .ok c :=
  C07_compose_total (key := "M") (oldCols := ["w", "x"]) a_reach b_reach (by decide) (by decide)
    (fun c => by
      show c ∈ ["w", "x"] ↔ c ∈ ["w", "x"]
      exact Iff.rfl)

/-- semantic associativity applies to the triple whose two groupings differ structurally
(`C07_assoc_not_structural` below) -/
example : ResEquivC
    (sem Θc .pandas env (Ops.extend (Ops.extend T [("x", .col "w")] [] [] [] false)
      [("y", .col "w")] [] [] [] false))
    (sem Θc .pandas env (Ops.extend T [("x", .col "w"), ("y", .col "w")] [] [] [] false)) :=
  C07_assoc_sem Θc .pandas env convertOK convertInv (kb := "M") (kc := "N") a_reach b_reach c_reach
    (by decide) (by decide) ab_eq
    (rfl : Ops.actOn c _ = .ok (.extend (.extend T [("x", .col "w")] [] [] [] false)
      [("y", .col "w")] [] [] [] false))
    (rfl : Ops.actOn c b = .ok (.extend M [("y", .col "w")] [] [] [] false))
    (rfl : Ops.actOn _ a = .ok (.extend T [("x", .col "w"), ("y", .col "w")] [] [] [] false))
    trivial trivial trivial (fun _ => ⟨trivial, fun h => by cases h⟩) (fun _ => ⟨trivial, fun h => by cases h⟩)
    (fun _ => ⟨trivial, fun h => by cases h⟩)

end C07Ex

open C07Ex in
/-- **Composition is not associative structurally.**  `(a >> b) >> c` and `a >> (b >> c)` can be different
trees (here: two `extend` nodes against one merged node), because `try_to_merge_ops` is not associative: `b`'s
`y := x` cannot merge with `a`'s `x := w`, but once `c`'s `y := w` has replaced it, it can.  `==` (`eqOps`) tells
them apart as well; their results agree (`C07_assoc_sem`).  The real library does the same. -/
theorem C07_assoc_not_structural :
    ¬ ∀ (a b c ab bc l r : Ops), Reachable a → Reachable b → Reachable c → Ops.actOn b a = .ok ab →
        Ops.actOn c ab = .ok l → Ops.actOn c b = .ok bc → Ops.actOn bc a = .ok r → Ops.eqOps l r = true := by
  intro h
  have := h a b c _ _ _ _ a_reach b_reach c_reach ab_eq
    (rfl : Ops.actOn c _ = .ok (.extend (.extend T [("x", .col "w")] [] [] [] false)
      [("y", .col "w")] [] [] [] false))
    (rfl : Ops.actOn c b = .ok (.extend M [("y", .col "w")] [] [] [] false))
    (rfl : Ops.actOn _ a = .ok (.extend T [("x", .col "w"), ("y", .col "w")] [] [] [] false))
  exact absurd this (by decide)

end DAVerif
